(* Proofs about the INFO / FORMAT blocks of NV.Bcf.Record: a typed value is self-delimiting (the
   reader consumes exactly the bytes the writer emitted), the walk over any number of fields
   gives back every key and every value block, and the whole record (frame, site head, INFO
   block, FORMAT block) is read back as written. *)
From Coq Require Import ZArith NArith List Bool Lia ZifyBool ZifyNat ZifyN.
From NV Require Import Bcf.Ints Bcf.IntsProofs Bcf.Typed Bcf.TypedProofs Bcf.VectorsProofs
  Bcf.Strings Bcf.StringsProofs Bcf.StringMap Bcf.StringMapProofs Bcf.Record Bcf.RecordProofs
  Bcf.Genotype Bcf.GenotypeProofs.
Import ListNotations.
Open Scope Z_scope.

(* ---------------------------------------------------------------- self-delimiting values *)
(* sd series mult vb: whatever follows, the reader splits off exactly vb *)
Definition sd (series : bool) (mult : nat) (vb : list N) : Prop :=
  forall rest, split_typed series mult (vb ++ rest) = Some (vb, rest).

Lemma read_type_of_enc : forall code len d r,
  valid_code code = true -> 0 <= len <= 2147483647 -> enc_type code len = Ok d ->
  read_type (d ++ r) = Some (code, len, r).
Proof.
  intros code len d r Hv Hl E. destruct (descriptor_roundtrip code len r Hv Hl) as [d' [E' R]].
  rewrite E in E'. inversion E' as [X]. subst d'. exact R.
Qed.

Definition series_desc_ok (series : bool) (code len : Z) : Prop :=
  series = true -> code <> 0 /\ (len = 0 -> code = 7).

(* the payload size in bytes per sample, without the cap of Record.value_payload *)
Definition payload_size (code len : Z) : option nat :=
  if code =? 0 then Some 0%nat
  else if code =? 1 then Some (Z.to_nat len)
  else if code =? 2 then Some (2 * Z.to_nat len)%nat
  else if (code =? 3) || (code =? 5) then Some (4 * Z.to_nat len)%nat
  else if code =? 7 then Some (Z.to_nat len)
  else None.

Lemma znat_to_nat : forall cap len, 0 <= len -> (Z.to_nat len <= cap)%nat -> znat cap len = Z.to_nat len.
Proof. intros cap len H0 H. rewrite <- (Z2Nat.id len H0) at 1. apply znat_id. exact H. Qed.

Lemma value_payload_cap : forall cap code len k, 0 <= len ->
  payload_size code len = Some k -> (k <= cap)%nat -> value_payload cap code len = Some k.
Proof.
  intros cap code len k H0 Hk Hc. unfold payload_size in Hk. unfold value_payload.
  destruct (code =? 0); [exact Hk|].
  destruct (code =? 1); [inversion Hk as [X]; rewrite znat_to_nat by lia; reflexivity|].
  destruct (code =? 2); [inversion Hk as [X]; rewrite znat_to_nat by lia; reflexivity|].
  destruct ((code =? 3) || (code =? 5)); [inversion Hk as [X]; rewrite znat_to_nat by lia; reflexivity|].
  destruct (code =? 7); [inversion Hk as [X]; rewrite znat_to_nat by lia; reflexivity|discriminate].
Qed.

Lemma value_payload_some : forall cap code len k,
  payload_size code len = Some k -> exists k', value_payload cap code len = Some k'.
Proof.
  intros cap code len k Hk. unfold payload_size in Hk. unfold value_payload.
  destruct (code =? 0); [eauto|]. destruct (code =? 1); [eauto|]. destruct (code =? 2); [eauto|].
  destruct ((code =? 3) || (code =? 5)); [eauto|]. destruct (code =? 7); [eauto|discriminate].
Qed.

Lemma typed_sd : forall series mult code len d payload k,
  valid_code code = true -> 0 <= len <= 2147483647 -> enc_type code len = Ok d ->
  payload_size code len = Some k -> length payload = (mult * k)%nat ->
  series_desc_ok series code len ->
  sd series mult (d ++ payload).
Proof.
  intros series mult code len d payload k Hv Hl E Hk Hp Hs rest. unfold split_typed.
  rewrite <- app_assoc. rewrite (read_type_of_enc code len d (payload ++ rest) Hv Hl E).
  assert (series && ((code =? 0) || ((len =? 0) && negb (code =? 7))) = false) as Eb.
  { destruct series; [|reflexivity]. destruct (Hs eq_refl) as [A B]. cbn [andb].
    destruct (code =? 0) eqn:E0; [lia|]. cbn [orb].
    destruct (len =? 0) eqn:E1; [|reflexivity]. rewrite (B ltac:(lia)). reflexivity. }
  rewrite Eb.
  assert (exists k', value_payload (S (length (payload ++ rest))) code len = Some k' /\
                     (mult * k' = mult * k)%nat) as [k' [Ek' Em]].
  { destruct mult as [|mult'].
    - destruct (value_payload_some (S (length (payload ++ rest))) code len k Hk) as [k' Ek'].
      exists k'. split; [exact Ek'|reflexivity].
    - exists k. split; [|reflexivity]. apply value_payload_cap; [lia|exact Hk|].
      rewrite app_length. nia. }
  rewrite Ek'. rewrite Em. rewrite take_app by exact Hp.
  replace (length (d ++ payload ++ rest) - length rest)%nat with (length (d ++ payload))
    by (rewrite !app_length; lia).
  rewrite app_assoc. rewrite take_app by reflexivity. reflexivity.
Qed.

Lemma flat_map_length_const : forall {A} (f : A -> list N) k l,
  (forall x, In x l -> length (f x) = k) -> length (flat_map f l) = (length l * k)%nat.
Proof.
  intros A f k. induction l as [|x l IH]; intros H; [reflexivity|].
  cbn [flat_map length]. rewrite app_length. rewrite (H x (or_introl eq_refl)).
  rewrite IH by (intros y Hy; apply H; right; exact Hy). lia.
Qed.

Lemma payload_int : forall w len, 0 <= len ->
  payload_size (wcode w) len = Some (wbytes w * Z.to_nat len)%nat.
Proof. intros w len H. destruct w; cbn; f_equal; lia. Qed.

Lemma enc_type_bound : forall code len d, enc_type code len = Ok d -> len <= 2147483647.
Proof.
  intros code len d E. destruct (Z_le_gt_dec len 2147483647) as [L|G]; [exact L|].
  rewrite enc_type_err in E by lia. discriminate E.
Qed.

(* ---- INFO values *)
Lemma sd_info_missing : forall vb, enc_info_missing = Ok vb -> sd false 1 vb.
Proof.
  intros vb E. inversion E as [X]. change [0%N] with ([0%N] ++ @nil N).
  apply (typed_sd false 1 0 0 [0%N] [] 0%nat);
    [reflexivity|lia|reflexivity|reflexivity|reflexivity|intros X0; discriminate X0].
Qed.

Lemma sd_info_int : forall n vb, enc_info_int n = Ok vb -> sd false 1 vb.
Proof.
  intros n vb E. unfold enc_info_int in E. destruct (select_scalar n) as [w|]; [|discriminate].
  inversion E as [X].
  change (desc_byte (wcode w) 1 :: enc_int w n) with ([desc_byte (wcode w) 1] ++ enc_int w n).
  apply (typed_sd false 1 (wcode w) 1 _ _ (wbytes w * 1)%nat);
    [apply wcode_valid|lia|reflexivity|apply payload_int; lia|rewrite enc_int_length; lia|intros X0; discriminate X0].
Qed.

Lemma sd_info_ints : forall vs vb, enc_info_ints vs = Ok vb -> sd false 1 vb.
Proof.
  intros vs vb E. unfold enc_info_ints in E. destruct vs as [|v0 vs']; [discriminate|].
  destruct (select_minmax _ _) as [w|]; [|discriminate].
  destruct (map_res (info_entry w) (v0 :: vs')) as [raws| | |]; try discriminate. cbn [bind] in E.
  destruct (enc_type (wcode w) (Z.of_nat (length raws))) as [d| | |] eqn:Ed; try discriminate.
  cbn [bind] in E. inversion E as [X].
  apply (typed_sd false 1 (wcode w) (Z.of_nat (length raws)) d _ (wbytes w * length raws)%nat);
    [apply wcode_valid|pose proof (enc_type_bound _ _ _ Ed); lia|exact Ed| | |intros X0; discriminate X0].
  - rewrite payload_int by lia. rewrite Nat2Z.id. reflexivity.
  - rewrite (flat_map_length_const (enc_int w) (wbytes w)) by (intros x _; apply enc_int_length). lia.
Qed.

Lemma sd_info_float : forall b vb, enc_info_float b = Ok vb -> sd false 1 vb.
Proof.
  intros b vb E. inversion E as [X].
  change (desc_byte 5 1 :: enc_f32 b) with ([desc_byte 5 1] ++ enc_f32 b).
  apply (typed_sd false 1 5 1 _ _ 4%nat);
    [reflexivity|lia|reflexivity|reflexivity|apply enc_f32_length|intros X0; discriminate X0].
Qed.

Lemma sd_info_floats : forall vs vb, enc_info_floats vs = Ok vb -> sd false 1 vb.
Proof.
  intros vs vb E. unfold enc_info_floats in E.
  destruct (map_res info_fentry vs) as [raws| | |]; try discriminate. cbn [bind] in E.
  destruct (enc_type 5 (Z.of_nat (length raws))) as [d| | |] eqn:Ed; try discriminate.
  cbn [bind] in E. inversion E as [X].
  apply (typed_sd false 1 5 (Z.of_nat (length raws)) d _ (4 * length raws)%nat);
    [reflexivity|pose proof (enc_type_bound _ _ _ Ed); lia|exact Ed| | |intros X0; discriminate X0].
  - cbn. rewrite Nat2Z.id. reflexivity.
  - rewrite (flat_map_length_const enc_f32 4%nat) by (intros x _; apply enc_f32_length). lia.
Qed.

(* covers String, Character and their vectors (all are one typed string) *)
Lemma sd_info_string : forall s vb, enc_info_string s = Ok vb -> sd false 1 vb.
Proof.
  intros s vb E. unfold enc_info_string in E.
  destruct (enc_type 7 (Z.of_nat (length s))) as [d| | |] eqn:Ed; try discriminate.
  cbn [bind] in E. inversion E as [X].
  apply (typed_sd false 1 7 (Z.of_nat (length s)) d _ (length s));
    [reflexivity|pose proof (enc_type_bound _ _ _ Ed); lia|exact Ed| |lia|intros X0; discriminate X0].
  cbn. rewrite Nat2Z.id. reflexivity.
Qed.

(* ---- FORMAT series *)
(* Integer, Number=1: one entry per sample *)
Lemma sd_fmt_int : forall vals vb, enc_fmt_int vals = Ok vb -> sd true (length vals) vb.
Proof.
  intros vals vb E. unfold enc_fmt_int in E. destruct (select_minmax _ _) as [w|]; [|discriminate].
  inversion E as [X].
  match goal with |- sd _ _ (?h :: ?t) => change (h :: t) with ([h] ++ t) end.
  apply (typed_sd true (length vals) (wcode w) 1 _ _ (wbytes w * 1)%nat);
    [apply wcode_valid|lia|reflexivity|apply payload_int; lia| |].
  - rewrite (flat_map_length_const _ (wbytes w)) by (intros x _; apply enc_int_length). lia.
  - intros _. split; [destruct w; discriminate|lia].
Qed.

Lemma max_len_ge : forall vals s, In s vals -> (sample_len s <= max_len vals)%nat.
Proof. intros vals s H. apply (proj2 (TypedProofs.fold_max_ge vals 0%nat)). exact H. Qed.

(* Integer vectors *)
Lemma sd_fmt_ints : forall vals vb, (1 <= max_len vals)%nat ->
  enc_fmt_ints vals = Ok vb -> sd true (length vals) vb.
Proof.
  intros vals vb Hm E. unfold enc_fmt_ints in E. destruct (select_minmax _ _) as [w|]; [|discriminate].
  destruct (enc_type (wcode w) (Z.of_nat (max_len vals))) as [d| | |] eqn:Ed; try discriminate.
  cbn [bind] in E. inversion E as [X].
  apply (typed_sd true (length vals) (wcode w) (Z.of_nat (max_len vals)) d _ (wbytes w * max_len vals)%nat);
    [apply wcode_valid|pose proof (enc_type_bound _ _ _ Ed); lia|exact Ed| | |].
  - rewrite payload_int by lia. rewrite Nat2Z.id. reflexivity.
  - apply flat_map_length_const. intros s Hs.
    rewrite (flat_map_length_const (enc_int w) (wbytes w)) by (intros x _; apply enc_int_length).
    rewrite sample_raws_length by (apply max_len_ge; exact Hs). lia.
  - intros _. split; [destruct w; discriminate|lia].
Qed.

(* Float, Number=1 *)
Lemma map_res_length : forall {A B} (f : A -> res B) l r, map_res f l = Ok r -> length r = length l.
Proof.
  intros A B f. induction l as [|x l IH]; intros r E; cbn [map_res] in E.
  - inversion E. reflexivity.
  - destruct (f x) as [y| | |]; try discriminate. cbn [bind] in E.
    destruct (map_res f l) as [ys| | |]; try discriminate. cbn [bind] in E.
    inversion E. cbn [length]. rewrite (IH ys eq_refl). reflexivity.
Qed.

Lemma sd_fmt_float : forall vals vb, enc_fmt_float vals = Ok vb -> sd true (length vals) vb.
Proof.
  intros vals vb E. unfold enc_fmt_float in E.
  destruct (map_res fentry vals) as [raws| | |] eqn:Er; try discriminate. cbn [bind] in E.
  inversion E as [X].
  change (desc_byte 5 1 :: flat_map enc_f32 raws) with ([desc_byte 5 1] ++ flat_map enc_f32 raws).
  apply (typed_sd true (length vals) 5 1 _ _ 4%nat);
    [reflexivity|lia|reflexivity|reflexivity| |intros _; split; [discriminate|lia]].
  rewrite (flat_map_length_const enc_f32 4%nat) by (intros x _; apply enc_f32_length).
  rewrite (map_res_length _ _ _ Er). reflexivity.
Qed.

Lemma map_res_each : forall {A B} (f : A -> res B) l r, map_res f l = Ok r ->
  forall y, In y r -> exists x, In x l /\ f x = Ok y.
Proof.
  intros A B f. induction l as [|x l IH]; intros r E y Hy; cbn [map_res] in E.
  - inversion E as [X]. subst r. destruct Hy.
  - destruct (f x) as [y0| | |] eqn:Ex; try discriminate. cbn [bind] in E.
    destruct (map_res f l) as [ys| | |]; try discriminate. cbn [bind] in E.
    inversion E as [X]. subst r. destruct Hy as [Hy|Hy].
    + subst y0. exists x. split; [left; reflexivity|exact Ex].
    + destruct (IH ys eq_refl y Hy) as [x' [Hx' Ex']]. exists x'. split; [right; exact Hx'|exact Ex'].
Qed.

Lemma concat_length_const : forall (bl : list (list N)) k,
  (forall y, In y bl -> length y = k) -> length (concat bl) = (length bl * k)%nat.
Proof.
  induction bl as [|y bl IH]; intros k H; [reflexivity|].
  cbn [concat length]. rewrite app_length. rewrite (H y (or_introl eq_refl)).
  rewrite (IH k) by (intros z Hz; apply H; right; exact Hz). lia.
Qed.

(* Float vectors *)
Lemma sd_fmt_floats : forall vals vb, (1 <= fmax_len vals)%nat ->
  enc_fmt_floats vals = Ok vb -> sd true (length vals) vb.
Proof.
  intros vals vb Hm E. unfold enc_fmt_floats in E. destruct (has_vector vals); [|discriminate].
  destruct (enc_type 5 (Z.of_nat (fmax_len vals))) as [d| | |] eqn:Ed; try discriminate. cbn [bind] in E.
  destruct (map_res (fsample_raws (fmax_len vals)) vals) as [rl| | |] eqn:Er; try discriminate.
  cbn [bind] in E. inversion E as [X].
  apply (typed_sd true (length vals) 5 (Z.of_nat (fmax_len vals)) d _ (4 * fmax_len vals)%nat);
    [reflexivity|pose proof (enc_type_bound _ _ _ Ed); lia|exact Ed| | |intros _; split; [discriminate|lia]].
  - cbn. rewrite Nat2Z.id. reflexivity.
  - rewrite <- (map_res_length _ _ _ Er).
    replace (length rl * (4 * fmax_len vals))%nat with (length rl * (fmax_len vals * 4))%nat by lia.
    apply flat_map_length_const. intros y Hy.
    rewrite (flat_map_length_const enc_f32 4%nat) by (intros x _; apply enc_f32_length).
    destruct (map_res_each _ _ _ Er y Hy) as [s [Hs Es]].
    destruct s as [vs|]; cbn [fsample_raws] in Es.
    + destruct (map_res fentry vs) as [raws| | |] eqn:Ev; try discriminate. cbn [bind] in Es.
      inversion Es as [Y]. rewrite app_length, repeat_length. rewrite (map_res_length _ _ _ Ev).
      pose proof (proj2 (fold_fmax_ge vals 0%nat) (Some vs) Hs) as G. cbn [fsample_len] in G.
      unfold fmax_len. lia.
    + inversion Es as [Y]. cbn [length]. rewrite repeat_length. lia.
Qed.

(* GT *)
Lemma sd_gt : forall gs raws vb, map_res (map_res enc_allele) gs = Ok raws ->
  (1 <= gt_max_len raws)%nat -> enc_gt gs = Ok vb -> sd true (length gs) vb.
Proof.
  intros gs raws vb Er Hm E. unfold enc_gt in E. rewrite Er in E. cbn [bind] in E. cbv zeta in E.
  destruct (enc_type 1 (Z.of_nat (gt_max_len raws))) as [d| | |] eqn:Ed; try discriminate. cbn [bind] in E.
  destruct (map_res (gt_sample_bytes (gt_max_len raws)) raws) as [bl| | |] eqn:Eb; try discriminate.
  cbn [bind] in E. inversion E as [X].
  apply (typed_sd true (length gs) 1 (Z.of_nat (gt_max_len raws)) d _ (gt_max_len raws));
    [reflexivity|pose proof (enc_type_bound _ _ _ Ed); lia|exact Ed| | |intros _; split; [discriminate|lia]].
  - cbn. rewrite Nat2Z.id. reflexivity.
  - rewrite <- (map_res_length _ _ _ Er). rewrite <- (map_res_length _ _ _ Eb).
    apply concat_length_const. intros y Hy.
    destruct (map_res_each _ _ _ Eb y Hy) as [raw [Hr Ey]]. unfold gt_sample_bytes in Ey.
    destruct (map_res _ raw) as [bs| | |] eqn:Ebs; try discriminate. cbn [bind] in Ey.
    inversion Ey as [Y]. rewrite app_length, repeat_length. rewrite (map_res_length _ _ _ Ebs).
    pose proof (proj2 (fold_max_length_ge raws 0%nat) raw Hr) as G. unfold gt_max_len. lia.
Qed.

(* String / Character scalars and Character vectors (write_string_values), String vectors:
   one cell of max_len bytes per sample *)
Lemma cells_length : forall m ss, (forall s, In s ss -> (length s <= m)%nat) ->
  length (flat_map (cell m) ss) = (length ss * m)%nat.
Proof.
  intros m ss H. apply flat_map_length_const. intros s Hs. apply cell_length. apply H. exact Hs.
Qed.

Lemma sd_cells : forall m ss d, (forall s, In s ss -> (length s <= m)%nat) ->
  enc_type 7 (Z.of_nat m) = Ok d -> sd true (length ss) (d ++ flat_map (cell m) ss).
Proof.
  intros m ss d H Ed.
  apply (typed_sd true (length ss) 7 (Z.of_nat m) d _ m);
    [reflexivity|pose proof (enc_type_bound _ _ _ Ed); lia|exact Ed| | |intros _; split; [discriminate|reflexivity]].
  - cbn. rewrite Nat2Z.id. reflexivity.
  - apply cells_length. exact H.
Qed.

Lemma sd_fmt_strings : forall vals vb, enc_fmt_strings vals = Ok vb -> sd true (length vals) vb.
Proof.
  intros vals vb E. unfold enc_fmt_strings in E.
  destruct (present_lens vals) as [|l0 l] eqn:El; [discriminate|]. rewrite <- El in E.
  set (m := fold_left Nat.max (present_lens vals) 0%nat) in E.
  destruct (enc_type 7 (Z.of_nat m)) as [d| | |] eqn:Ed; try discriminate. cbn [bind] in E.
  inversion E as [X]. rewrite (cells_eq m vals). rewrite <- (map_length str_piece vals).
  apply sd_cells; [|exact Ed].
  intros s Hs. apply in_map_iff in Hs. destruct Hs as [v [Ev Hv]]. subst s.
  pose proof (StringsProofs.fold_max_ge (present_lens vals) 0%nat _ (in_present_lens vals v Hv)) as G.
  fold m in G. destruct v; exact G.
Qed.

Lemma sd_fmt_chars : forall vals vb, enc_fmt_chars vals = Ok vb -> sd true (length vals) vb.
Proof.
  intros vals vb E. unfold enc_fmt_chars in E. apply sd_fmt_strings in E.
  rewrite map_length in E. exact E.
Qed.

Lemma sd_fmt_char_arrays : forall vals vb, enc_fmt_char_arrays vals = Ok vb -> sd true (length vals) vb.
Proof.
  intros vals vb E. unfold enc_fmt_char_arrays in E. apply sd_fmt_strings in E.
  rewrite map_length in E. exact E.
Qed.

Lemma sd_fmt_str_arrays : forall vals vb, enc_fmt_str_arrays vals = Ok vb -> sd true (length vals) vb.
Proof.
  intros vals vb E. unfold enc_fmt_str_arrays in E. destruct vals as [|v0 vals']; [discriminate|].
  remember (v0 :: vals') as vals eqn:Ev. cbv zeta in E.
  set (ss := map ser_strs vals) in E. set (m := fold_left Nat.max (map (@length N) ss) 0%nat) in E.
  destruct (enc_type 7 (Z.of_nat m)) as [d| | |] eqn:Ed; try discriminate. cbn [bind] in E.
  inversion E as [X]. replace (length vals) with (length ss) by (unfold ss; apply map_length).
  apply sd_cells; [|exact Ed].
  intros s Hs. apply (StringsProofs.fold_max_ge (map (@length N) ss) 0%nat). apply in_map. exact Hs.
Qed.

(* ---------------------------------------------------------------- the walk over the fields *)
Definition lift (f : name * list N) : field := (fst f, Ok (snd f)).

Lemma has_key_false : forall k l, ~ In k (map fst l) -> has_key k l = false.
Proof.
  intros k. induction l as [|[k' v] l IH]; intros H; [reflexivity|].
  cbn [has_key]. rewrite IH by (intros X; apply H; right; exact X).
  assert (name_eqb k k' = false) as En by (apply name_eqb_neq; intros X; apply H; left; symmetry; exact X).
  rewrite En. reflexivity.
Qed.

(* bcf_fields_walk: any number of fields, each a key of the dictionary and a self-delimiting
   value: the reader gets back every key and every value block, in order, and stops at rest *)
Lemma fields_walk : forall m mult dup fs rest,
  wf m ->
  (forall k vb, In (k, vb) fs -> exists i, get_index_of m k = Some i /\ Z.of_nat i <= 2147483647) ->
  (forall k vb, In (k, vb) fs -> sd (negb dup) mult vb) ->
  (dup = true -> NoDup (map fst fs)) ->
  exists blk, enc_fields m (map lift fs) = Ok blk /\
              dec_fields m mult dup (length fs) (blk ++ rest) = Some (fs, rest).
Proof.
  intros m mult dup fs rest W. induction fs as [|[k vb] fs IH]; intros Hk Hs Hd.
  - exists []. split; reflexivity.
  - destruct IH as [blk [Eb Db]].
    + intros k' vb' Hin. apply (Hk k' vb'). right. exact Hin.
    + intros k' vb' Hin. apply (Hs k' vb'). right. exact Hin.
    + intros Ed. specialize (Hd Ed). inversion Hd. assumption.
    + destruct (Hk k vb (or_introl eq_refl)) as [i [Hi Hb]].
      destruct (index_roundtrip (Z.of_nat i) (vb ++ blk ++ rest)) as [kb [Ek Dk]]; [lia|].
      exists (kb ++ vb ++ blk). split.
      * cbn [map lift fst snd enc_fields]. unfold index_of. rewrite Hi. cbn [bind].
        rewrite Ek. cbn [bind]. fold lift. rewrite Eb. cbn [bind]. reflexivity.
      * cbn [length dec_fields]. rewrite <- !app_assoc. rewrite Dk.
        rewrite znat_id by (pose proof (slot_lt _ _ _ (proj1 W _ _ Hi)) as L; apply Nat.lt_le_incl; exact L).
        rewrite (proj1 W _ _ Hi). rewrite (Hs k vb (or_introl eq_refl) (blk ++ rest)).
        rewrite Db.
        assert (dup && has_key k fs = false) as Eh.
        { destruct dup; [|reflexivity]. cbn [andb]. apply has_key_false.
          specialize (Hd eq_refl). inversion Hd. assumption. }
        rewrite Eh. reflexivity.
Qed.

(* ---------------------------------------------------------------- the whole record *)
(* c10_record_roundtrip: every record of the modelled shape that the writer accepts is read
   back with the same site head, the same INFO keys and value blocks, the same FORMAT keys and
   series blocks *)
Lemma record_full_roundtrip : forall strings contigs s infos fmts (has_rows : bool) hdr_samples rest,
  wf strings -> wf contigs -> s_n_sample s <= hdr_samples ->
  site_ok strings contigs s (Z.of_nat (length infos)) (Z.of_nat (length fmts)) ->
  (forall k vb, In (k, vb) (infos ++ fmts) ->
     exists i, get_index_of strings k = Some i /\ Z.of_nat i <= 2147483647) ->
  (forall k vb, In (k, vb) infos -> sd false 1 vb) -> NoDup (map fst infos) ->
  (forall k vb, In (k, vb) fmts -> sd true (Z.to_nat (s_n_sample s)) vb) ->
  (has_rows = true \/ fmts = []) ->
  (forall sb, enc_site strings contigs s (map lift infos) (Z.of_nat (length fmts)) = Ok sb ->
     Z.of_nat (length sb) <= 4294967295) ->
  (forall fb, enc_fields strings (map lift fmts) = Ok fb -> Z.of_nat (length fb) <= 4294967295) ->
  exists bs, enc_record strings contigs s (map lift infos) (map lift fmts) has_rows = Ok bs /\
    dec_record strings contigs hdr_samples (bs ++ rest)
    = Some (head_of s (Z.of_nat (length infos)) (Z.of_nat (length fmts)), infos, fmts, rest).
Proof.
  intros strings contigs s infos fmts has_rows hdr_samples rest Ws Wc Hhs Hok Hk Hsi Hnd Hsf Hrows Hsb Hfb.
  destruct (fields_walk strings 1 true infos [] Ws) as [ib [Ei Di]];
    [intros k vb Hin; apply (Hk k vb); apply in_or_app; left; exact Hin|exact Hsi|intros _; exact Hnd|].
  destruct (fields_walk strings (Z.to_nat (s_n_sample s)) false fmts [] Ws) as [fb0 [Ef Df]];
    [intros k vb Hin; apply (Hk k vb); apply in_or_app; right; exact Hin|exact Hsf|intros X; discriminate X|].
  set (fb := if has_rows then fb0 else @nil N).
  assert ((if has_rows then enc_fields strings (map lift fmts) else Ok (@nil N)) = Ok fb) as Efb
    by (unfold fb; destruct has_rows; [exact Ef|reflexivity]).
  assert (dec_fields strings (Z.to_nat (s_n_sample s)) false (length fmts) fb = Some (fmts, [])) as Dfb.
  { unfold fb. destruct has_rows; [rewrite app_nil_r in Df; exact Df|].
    destruct Hrows as [X|X]; [discriminate X|]. subst fmts. reflexivity. }
  assert (Z.of_nat (length fb) <= 4294967295) as Lfb.
  { unfold fb. destruct has_rows; [apply Hfb; exact Ef|cbn; lia]. }
  pose proof (record_roundtrip strings contigs s (map lift infos) (map lift fmts) has_rows ib fb rest Ws Wc) as R.
  rewrite !map_length in R. specialize (R Hok Ei Efb Hsb Lfb).
  destruct R as [bs [sb [Er [Dfr Dh]]]].
  exists bs. split; [exact Er|].
  unfold dec_record. rewrite Dfr. rewrite Dh. cbn [h_n_info h_n_fmt h_n_sample head_of].
  destruct (hdr_samples <? s_n_sample s) eqn:Ehs; [lia|].
  rewrite !Nat2Z.id. rewrite app_nil_r in Di. rewrite Di. rewrite Dfb. reflexivity.
Qed.

(* ---------------------------------------------------------------- the GT exemption *)
Lemma split_typed_weaken : forall s mult bs x,
  split_typed true mult bs = Some x -> split_typed s mult bs = Some x.
Proof.
  intros s mult bs x H. destruct s; [exact H|].
  unfold split_typed in *. destruct (read_type bs) as [[[code len] r]|]; [|discriminate].
  cbn [andb] in *.
  destruct ((code =? 0) || ((len =? 0) && negb (code =? 7))); [discriminate|exact H].
Qed.

Lemma dec_fields_k_of_dec_fields : forall m mult dup n bs x,
  dec_fields m mult dup n bs = Some x -> dec_fields_k m mult dup n bs = Some x.
Proof.
  intros m mult dup. induction n as [|n IH]; intros bs x H; cbn [dec_fields dec_fields_k] in *; [exact H|].
  destruct (dec_index bs) as [[i r]|]; [|discriminate].
  destruct (get_index m (znat (length (entries m)) i)) as [k|]; [|discriminate].
  destruct (split_typed (negb dup) mult r) as [[vb r']|] eqn:E; [|discriminate].
  assert (E' : split_typed (negb dup && negb (name_eqb k key_GT)) mult r = Some (vb, r')).
  { destruct dup; cbn [negb andb] in *; [exact E|]. apply split_typed_weaken. exact E. }
  rewrite E'.
  destruct (dec_fields m mult dup n r') as [[l r'']|] eqn:E2; [|discriminate].
  rewrite (IH _ _ E2). exact H.
Qed.

Lemma dec_record_k_of_dec_record : forall strings contigs hs bs x,
  dec_record strings contigs hs bs = Some x -> dec_record_k strings contigs hs bs = Some x.
Proof.
  intros strings contigs hs bs x H. unfold dec_record, dec_record_k in *.
  destruct (dec_frame bs) as [[[sb ib] rest]|]; [|discriminate].
  destruct (dec_head strings contigs sb) as [[h ibs]|]; [|discriminate].
  destruct (hs <? h_n_sample h); [discriminate|].
  destruct (dec_fields strings 1 true (Z.to_nat (h_n_info h)) ibs) as [[infos r1]|] eqn:E1; [|discriminate].
  rewrite (dec_fields_k_of_dec_fields _ _ _ _ _ _ E1).
  destruct (dec_fields strings (Z.to_nat (h_n_sample h)) false (Z.to_nat (h_n_fmt h)) ib) as [[fmts r2]|] eqn:E2; [|discriminate].
  rewrite (dec_fields_k_of_dec_fields _ _ _ _ _ _ E2). exact H.
Qed.
