(* BCF Character / String values: how noodles-bcf stores them.
   INFO (encoder/site/info/field/value.rs write_character_value, write_string_value,
   write_character_array_value, write_string_array_value; decoder/info/field/value.rs
   resolve_character_value, resolve_character_array_value, resolve_string_value,
   resolve_string_array_value): one typed string (descriptor 0x?7 + bytes); vectors are joined
   with ',' and a missing element is '.'.
   FORMAT (encoder/samples/values.rs write_character_values, write_character_array_values,
   write_string_values, write_string_array_values; decoder/samples/values.rs read_char_values,
   read_char_array_values, read_string_values, read_string_array_values): one descriptor
   Type::String(max_len) for the whole series, then one cell of max_len bytes per sample, padded
   with NUL; a missing sample is the cell ".".
   Model: definitions only.  Strings are byte lists; the readers reject bytes that are not
   well-formed UTF-8 (Typed.utf8_valid; ',' '.' and NUL are single bytes in UTF-8, so splitting and
   padding agree with str::split); a Character is one byte < 128 (ASCII) -- multi-byte characters
   are outside the model. *)
From Coq Require Import ZArith NArith List Bool.
From NV Require Import Bcf.Ints Bcf.Typed.
Import ListNotations.
Open Scope Z_scope.

Definition dot : N := 46%N.     (* '.' MISSING *)
Definition comma : N := 44%N.   (* ',' DELIMITER *)
Definition nul : N := 0%N.

Definition str := list N.

Fixpoint str_eqb (a b : str) : bool :=
  match a, b with
  | [], [] => true
  | x :: a', y :: b' => N.eqb x y && str_eqb a' b'
  | _, _ => false
  end.

(* the writers' loop: `if i > 0 { s.push(',') } s.push_str(piece)` *)
Fixpoint join (d : N) (ps : list str) : str :=
  match ps with
  | [] => []
  | [p] => p
  | p :: r => p ++ d :: join d r
  end.

(* str::split(d): always at least one piece *)
Fixpoint split_on (d : N) (s : str) : list str :=
  match s with
  | [] => [[]]
  | b :: r =>
    if N.eqb b d then [] :: split_on d r
    else match split_on d r with
         | p :: ps => (b :: p) :: ps
         | [] => [[b]]
         end
  end.

Definition char_piece (c : option N) : str := match c with Some c => [c] | None => [dot] end.
Definition str_piece (t : option str) : str := match t with Some t => t | None => [dot] end.
Definition char_of_byte (c : N) : option N := if N.eqb c dot then None else Some c.
Definition str_of_piece (t : str) : option str := if str_eqb t [dot] then None else Some t.

(* ------------------------------------------------------------------ INFO *)
(* write_character_value: c.to_string() as a typed string *)
Definition enc_info_char (c : N) : res (list N) := enc_info_string [c].
(* write_character_array_value *)
Definition enc_info_chars (vs : list (option N)) : res (list N) :=
  enc_info_string (join comma (map char_piece vs)).
(* write_string_array_value *)
Definition enc_info_strs (vs : list (option str)) : res (list N) :=
  enc_info_string (join comma (map str_piece vs)).

Inductive sval :=
| SNone
| SChar (c : N)
| SStr (s : str)
| SChars (l : list (option N))
| SStrs (l : list (option str)).

(* resolve_character_value: exactly one character *)
Definition dec_info_char (bs : list N) : rres sval :=
  rbind (dec_info_string bs) (fun o =>
    match o with
    | None => ROk SNone
    | Some [] => RErr                                 (* MissingCharacter *)
    | Some [c] => ROk (SChar c)
    | Some _ => RErr                                  (* InvalidCharacter *)
    end).

(* resolve_character_array_value: s.split(',').flat_map(chars), '.' = missing *)
Definition dec_info_chars (bs : list N) : rres sval :=
  rbind (dec_info_string bs) (fun o =>
    match o with
    | None => ROk SNone
    | Some s => ROk (SChars (map char_of_byte (concat (split_on comma s))))
    end).

(* resolve_string_value *)
Definition dec_info_str (bs : list N) : rres sval :=
  rbind (dec_info_string bs) (fun o =>
    match o with None => ROk SNone | Some s => ROk (SStr s) end).

(* resolve_string_array_value: split(','), "." = missing *)
Definition dec_info_strs (bs : list N) : rres sval :=
  rbind (dec_info_string bs) (fun o =>
    match o with
    | None => ROk SNone
    | Some s => ROk (SStrs (map str_of_piece (split_on comma s)))
    end).

(* ------------------------------------------------------------------ FORMAT: cells *)
Definition cell (m : nat) (s : str) : str := s ++ repeat nul (m - length s).

(* write_string_values.  max_len is taken over the present strings and counts 1 for a missing
   sample, which is written as '.' followed by max_len - 1 NULs (no sample at all:
   Err(InvalidInput)) *)
Definition present_lens (vals : list (option str)) : list nat :=
  map (fun v => match v with Some s => length s | None => 1%nat end) vals.

Definition enc_fmt_strings (vals : list (option str)) : res (list N) :=
  match present_lens vals with
  | [] => ErrInput
  | l =>
    let m := fold_left Nat.max l 0%nat in
    bind (enc_type 7 (Z.of_nat m)) (fun d =>
    Ok (d ++ flat_map (fun v => match v with
                                | Some s => cell m s
                                | None => dot :: repeat nul (m - 1)
                                end) vals))
  end.

(* write_character_values *)
Definition enc_fmt_chars (vals : list (option N)) : res (list N) :=
  enc_fmt_strings (map (option_map (fun c => [c])) vals).

(* write_character_array_values *)
Definition enc_fmt_char_arrays (vals : list (option (list (option N)))) : res (list N) :=
  enc_fmt_strings (map (option_map (fun cs => join comma (map char_piece cs))) vals).

(* write_string_array_values: a missing sample is serialized as "." BEFORE max_len is taken; no
   sample at all: Err(InvalidInput) *)
Definition ser_strs (v : option (list (option str))) : str :=
  match v with Some vs => join comma (map str_piece vs) | None => [dot] end.

Definition enc_fmt_str_arrays (vals : list (option (list (option str)))) : res (list N) :=
  match vals with
  | [] => ErrInput
  | _ =>
    let ss := map ser_strs vals in
    let m := fold_left Nat.max (map (@length N) ss) 0%nat in
    bind (enc_type 7 (Z.of_nat m)) (fun d => Ok (d ++ flat_map (cell m) ss))
  end.

(* read_string_until_nul: the cell up to its first NUL *)
Fixpoint until_nul (s : str) : str :=
  match s with
  | [] => []
  | b :: r => if N.eqb b nul then [] else b :: until_nul r
  end.

Fixpoint dec_cells (ns len : nat) (bs : list N) : option (list str) :=
  match ns with
  | O => Some []
  | S ns' =>
    match take len bs with
    | None => None
    | Some (x, r) =>
      if utf8_valid (until_nul x) then                                   (* else InvalidString *)
        match dec_cells ns' len r with Some xs => Some (until_nul x :: xs) | None => None end
      else None
    end
  end.

(* decoder/samples/values.rs read_values for Type=Character/String: the typed descriptor must be a
   String; a missing type or any other type is TypeMismatch *)
Definition dec_fmt_cells (ns : nat) (bs : list N) : rres (list str) :=
  match read_type bs with
  | None => RErr
  | Some (code, len, r) =>
    if code =? 0 then RErr                            (* TypeMismatch *)
    else if (len =? 0) && negb (code =? 7) then RErr
    else if code =? 7 then
      match dec_cells ns (znat (S (length r)) len) r with Some xs => ROk xs | None => RErr end
    else RErr                                         (* TypeMismatch *)
  end.

(* read_char_values: s.chars().next() -- the first character only; an empty cell is
   InvalidCharacter *)
Definition first_char (s : str) : rres (option N) :=
  match s with [] => RErr | c :: _ => ROk (char_of_byte c) end.

Definition dec_fmt_chars (ns : nat) (bs : list N) : rres (list (option N)) :=
  rbind (dec_fmt_cells ns bs) (map_rres first_char).

(* read_char_array_values: never a missing sample; every piece's first character *)
Definition dec_fmt_char_arrays (ns : nat) (bs : list N) : rres (list (option (list (option N)))) :=
  rbind (dec_fmt_cells ns bs)
    (map_rres (fun s => rbind (map_rres first_char (split_on comma s)) (fun l => ROk (Some l)))).

(* read_string_values *)
Definition dec_fmt_strings (ns : nat) (bs : list N) : rres (list (option str)) :=
  rbind (dec_fmt_cells ns bs) (fun xs => ROk (map str_of_piece xs)).

(* read_string_array_values *)
Definition cell_strs (s : str) : option (list (option str)) :=
  if str_eqb s [dot] then None else Some (map str_of_piece (split_on comma s)).

Definition dec_fmt_str_arrays (ns : nat) (bs : list N) : rres (list (option (list (option str)))) :=
  rbind (dec_fmt_cells ns bs) (fun xs => ROk (map cell_strs xs)).
