(* The LAZY BCF path: bcf::io::Reader::read_record (io/reader/record.rs) into a bcf::Record
   (record.rs, record/fields.rs, record/fields/bounds.rs) followed by
   vcf::variant::RecordBuf::try_from_variant_record (noodles-vcf variant/record_buf/convert.rs), which
   forces every lazy view: record/ids.rs, reference_bases.rs, alternate_bases.rs, filters.rs, info.rs +
   info/field.rs + info/field/value.rs, samples.rs + samples/sample.rs + samples/series.rs +
   samples/series/value/genotype.rs, the typed values of record/value.rs, value/ty.rs and
   value/array/values.rs, and the BCF record's own Character / String array views (`Characters`,
   `Strings` in info/field/value.rs and samples/series.rs: split on ',', "." = missing, nothing is
   percent-decoded).

   The model follows the tree after the repairs 0b0f2ab (own raw array views), 0ba8d0b (an empty allele
   string is `.`), a1ba5e6 (a GT series without values: the missing value for every sample), e4c926c
   (INFO Character: exactly one character, of any encoded length), a82186d (Samples::series yields
   exactly n_fmt series) and 30014e8 (try_from_variant_record rejects a record with more samples than the
   header names, after Record::samples() and before it collects anything: [too_many_samples]).

   What is modelled, in the order of the code:
   [dec_frame]      read_record's framing is that of read_record_buf (shared read_site_length /
                    read_buf_exact): NV.Bcf.Record.dec_frame.
   [lz_index]       Fields::index: the bounds (ids range, reference bases range, end of the alternate
                    bases, end of the filters) as OFFSETS into the site buffer, built by consume_string
                    / consume_integers exactly as the code does (offset + consumed descriptor bytes,
                    then the payload length), and the UTF-8 validation of the ids.
   [lz_slice]       `&buf[s..e]`: the panic outcome when s > e or e > len.  Every view slices the site
                    buffer with the stored offsets.
   the views        lz_chrom, lz_pos, lz_qual, lz_ids, lz_ref, lz_alts, lz_filters (with its
                    `read_type(..).unwrap()` and `unreachable!()`), lz_info, lz_samples (validate, the
                    series iterator that yields format_count series, the per-sample `get` with its
                    `range(i, len)` arithmetic, the genotype view with the file-format dependent
                    phasing of the first allele).
   [lazy_read]      the RecordBuf try_from_variant_record builds, on RecordTyped.trecord (IndexSet /
                    IndexMap collection semantics included).

   Results are those of the eager model: ROk / RErr (any io::Error) / RPanic.  All typed-value readers
   of record/value.rs are byte for byte the functions of record/codec/decoder/value.rs, so
   Typed.read_type and the value decoders of NV.Bcf.{Typed,Strings,Record,RecordTyped} are reused
   where the lazy code does the same thing; the places where it does something else (Characters, the
   samples block, genotypes, alleles, filters) are written out here.

   A Character is a Unicode scalar value (its code point, N): the lazy views decode UTF-8
   ([utf8_first], [utf8_chars]); the eager model NV.Bcf.Strings takes a Character to be one byte, which
   is the same thing on ASCII text only.  Definitions only. *)
From Coq Require Import ZArith NArith List Bool.
From NV Require Import Bcf.Ints Bcf.Typed Bcf.Strings Bcf.Genotype Bcf.StringMap Bcf.Record Bcf.RecordTyped.
Import ListNotations.
Open Scope Z_scope.

(* ------------------------------------------------------------------ slices *)
(* &buf[s..e] *)
Definition lz_slice (s e : nat) (buf : list N) : rres (list N) :=
  if ((s <=? e) && (e <=? length buf))%nat then ROk (firstn (e - s) (skipn s buf)) else RPanic.

(* buf.get(s..s+n) *)
Definition lz_get (s n : nat) (buf : list N) : option (list N) :=
  if (s + n <=? length buf)%nat then Some (firstn n (skipn s buf)) else None.

(* ------------------------------------------------------------------ UTF-8 *)
(* str::chars().next() on well-formed UTF-8: the code point of the first character and the rest *)
Definition utf8_first (s : list N) : option (N * list N) :=
  match s with
  | [] => None
  | b :: r =>
    if (b <? 128)%N then Some (b, r)
    else if (b <? 224)%N then
      match r with c1 :: r1 => Some (((b - 192) * 64 + (c1 - 128))%N, r1) | _ => None end
    else if (b <? 240)%N then
      match r with
      | c1 :: c2 :: r2 => Some (((b - 224) * 4096 + (c1 - 128) * 64 + (c2 - 128))%N, r2)
      | _ => None
      end
    else
      match r with
      | c1 :: c2 :: c3 :: r3 =>
        Some (((b - 240) * 262144 + (c1 - 128) * 4096 + (c2 - 128) * 64 + (c3 - 128))%N, r3)
      | _ => None
      end
  end.

(* str::chars() on well-formed UTF-8, collected.  The fuel is the length of the text (a character is at
   least one byte long) *)
Fixpoint utf8_chars_fuel (fuel : nat) (s : list N) : list N :=
  match fuel with
  | O => []
  | S f => match utf8_first s with Some (c, r) => c :: utf8_chars_fuel f r | None => [] end
  end.
Definition utf8_chars (s : list N) : list N := utf8_chars_fuel (length s) s.

(* ------------------------------------------------------------------ Fields::index *)
Record bounds := {
  b_ids : nat * nat;            (* ids_range *)
  b_ref : nat * nat;            (* reference_bases_range *)
  b_alt_end : nat;              (* alternate_bases_end *)
  b_filters_end : nat;          (* filters_end *)
}.

(* consume_string: (start, end) of the payload and the remaining input; None = Err *)
Definition consume_string (buf : list N) (offset : nat) : option (nat * nat * list N) :=
  match read_type buf with
  | Some (code, len, r) =>
    if code =? 7 then
      let start := (offset + (length buf - length r))%nat in
      let l := znat (S (length r)) len in
      if (l <=? length r)%nat then Some (start, (start + l)%nat, skipn l r) else None
    else None
  | None => None
  end.

(* consume_integers: the end of the payload *)
Definition consume_integers (buf : list N) (offset : nat) : option nat :=
  match read_type buf with
  | Some (code, len, r) =>
    let n := znat (S (length r)) len in
    let ol := if code =? 0 then Some 0%nat
              else if code =? 1 then Some n
              else if code =? 2 then Some (2 * n)%nat
              else if code =? 3 then Some (4 * n)%nat
              else None in
    match ol with
    | Some l =>
      let start := (offset + (length buf - length r))%nat in
      if (l <=? length r)%nat then Some (start + l)%nat else None
    | None => None
    end
  | None => None
  end.

Fixpoint consume_alts (n : nat) (buf : list N) (i : nat) : option (nat * list N) :=
  match n with
  | O => Some (i, buf)
  | S n' =>
    match consume_string buf i with
    | Some (_, e, b') => consume_alts n' b' e
    | None => None
    end
  end.

(* the u16 at 18..20 *)
Definition allele_count (sb : list N) : Z := le_val (firstn 2 (skipn 18 sb)).

(* fn index(buf, bounds) *)
Definition index_bounds (sb : list N) : option bounds :=
  if (length sb <? 24)%nat then None
  else if allele_count sb =? 0 then None                       (* checked_sub(1) *)
  else
    match consume_string (skipn 24 sb) 24 with
    | Some (s1, e1, b1) =>
      match consume_string b1 e1 with
      | Some (s2, e2, b2) =>
        match consume_alts (Z.to_nat (allele_count sb - 1)) b2 e2 with
        | Some (e3, b3) =>
          match consume_integers b3 e3 with
          | Some e4 => Some {| b_ids := (s1, e1); b_ref := (s2, e2); b_alt_end := e3; b_filters_end := e4 |}
          | None => None
          end
        | None => None
        end
      | None => None
      end
    | None => None
    end.

(* Fields::index: index(), then the ids must be UTF-8 *)
Definition lz_index (sb : list N) : rres bounds :=
  match index_bounds sb with
  | None => RErr
  | Some bd =>
    rbind (lz_slice (fst (b_ids bd)) (snd (b_ids bd)) sb) (fun x =>
    if utf8_valid x then ROk bd else RErr)
  end.

(* ------------------------------------------------------------------ the fixed fields *)
(* Record::reference_sequence_name *)
Definition lz_chrom (contigs : smap) (sb : list N) : rres name :=
  rbind (lz_slice 0 4 sb) (fun c =>
  let chrom := dec_int W32 c in
  if chrom <? 0 then RErr
  else match get_index contigs (znat (length (entries contigs)) chrom) with
       | Some n => ROk n
       | None => RErr
       end).

(* Record::variant_start *)
Definition lz_pos (sb : list N) : rres (option Z) :=
  rbind (lz_slice 4 8 sb) (fun p =>
  let pos := dec_int W32 p in
  if pos =? -1 then ROk None else if pos <? 0 then RErr else ROk (Some (pos + 1))).

(* Fields::quality_score *)
Definition lz_qual (sb : list N) : rres (option Z) :=
  rbind (lz_slice 12 16 sb) (fun q =>
  match classify_f (le_val q) with
  | FValue b => ROk (Some b)
  | FMissing => ROk None
  | _ => RErr
  end).

Definition lz_u16 (s : nat) (sb : list N) : rres Z := rbind (lz_slice s (s + 2)%nat sb) (fun x => ROk (le_val x)).
(* Fields::sample_count: the three bytes at 20..23 *)
Definition lz_sample_count (sb : list N) : rres Z := rbind (lz_slice 20 23 sb) (fun x => ROk (le_val x)).
(* Fields::format_key_count: the byte at 23 *)
Definition lz_format_count (sb : list N) : rres Z :=
  match nth_error sb 23 with Some b => ROk (Z.of_N b) | None => RPanic end.

(* ------------------------------------------------------------------ ids, alleles *)
(* Ids::iter *)
Definition lz_ids (bd : bounds) (sb : list N) : rres (list str) :=
  rbind (lz_slice (fst (b_ids bd)) (snd (b_ids bd)) sb) (fun x =>
  ROk (match x with [] => [] | _ => split_on semicolon x end)).

(* Fields::reference_bases (an empty range is the missing allele `.`, 0ba8d0b), then
   ReferenceBases::iter collected + String::from_utf8 *)
Definition lz_ref (bd : bounds) (sb : list N) : rres str :=
  rbind (lz_slice (fst (b_ref bd)) (snd (b_ref bd)) sb) (fun x =>
  let y := match x with [] => [dot] | _ => x end in
  if utf8_valid y then ROk y else RErr).

(* AlternateBases::iter: read_value must give a String; the empty typed string is `.` (0ba8d0b) *)
Fixpoint lz_alt_values (n : nat) (bs : list N) : rres (list str) :=
  match n with
  | O => ROk []
  | S n' =>
    match dec_str bs with
    | Some (o, r) =>
      rbind (lz_alt_values n' r) (fun l => ROk (match o with Some x => x | None => [dot] end :: l))
    | None => RErr                                            (* "invalid alt value" *)
    end
  end.

(* Fields::alternate_bases: `self.allele_count() - 1` on usize *)
Definition lz_alts (bd : bounds) (sb : list N) : rres (list str) :=
  rbind (lz_slice (snd (b_ref bd)) (b_alt_end bd) sb) (fun x =>
  rbind (lz_u16 18 sb) (fun na =>
  if na =? 0 then RPanic else lz_alt_values (Z.to_nat (na - 1)) x)).

(* ------------------------------------------------------------------ filters *)
Fixpoint lz_filter_entries (w : width) (fuel : nat) (bs : list N) : rres (list Z) :=
  match bs with
  | [] => ROk []
  | _ =>
    match fuel with
    | O => RErr
    | S f =>
      match take (wbytes w) bs with
      | None => RErr                                          (* a short last chunk: "invalid value" *)
      | Some (x, r) =>
        if dec_int w x <? 0 then RErr
        else rbind (lz_filter_entries w f r) (fun l => ROk (dec_int w x :: l))
      end
    end
  end.

(* Filters::indices *)
Definition lz_filter_indices (fs : list N) : rres (list Z) :=
  match read_type fs with
  | None => RPanic                                            (* read_type(..).unwrap() *)
  | Some (code, _, r) =>
    if code =? 0 then ROk []
    else match width_of_code code with
         | Some w => lz_filter_entries w (length r) r
         | None => RPanic                                     (* unreachable!() *)
         end
  end.

Fixpoint lz_resolve (m : smap) (l : list Z) : rres (list name) :=
  match l with
  | [] => ROk []
  | i :: r =>
    match get_index m (znat (length (entries m)) i) with
    | Some n => rbind (lz_resolve m r) (fun ns => ROk (n :: ns))
    | None => RErr
    end
  end.

(* Filters::iter(header) *)
Definition lz_filters (strings : smap) (bd : bounds) (sb : list N) : rres (list name) :=
  rbind (lz_slice (b_alt_end bd) (b_filters_end bd) sb) (fun fs =>
  rbind (lz_filter_indices fs) (lz_resolve strings)).

(* ------------------------------------------------------------------ INFO *)
(* read_character_value (e4c926c): exactly one character, whatever its encoded length *)
Definition lz_info_char (vb : list N) : rres ival :=
  rbind (dec_info_string vb) (fun o =>
  match o with
  | None => ROk (IS SNone)
  | Some s =>
    match utf8_chars s with
    | [c] => ROk (IS (SChar c))
    | _ => RErr                                               (* "invalid character value length" *)
    end
  end).

(* read_character_array_value + the `Characters` view (0b0f2ab) + TryFrom<Array>:
   split(',').flat_map(chars), '.' = missing *)
Definition lz_info_chars (vb : list N) : rres ival :=
  rbind (dec_info_string vb) (fun o =>
  match o with
  | None => ROk (IS SNone)
  | Some s => ROk (IS (SChars (map char_of_byte (flat_map utf8_chars (split_on comma s)))))
  end).

(* read_string_array_value + the `Strings` view (0b0f2ab): split(','), "." = missing -- this is
   resolve_string_array_value *)
Definition lz_info_strs (vb : list N) : rres ival :=
  rbind (dec_info_strs vb) (fun v => ROk (IS v)).

(* info/field/value.rs read_value on the bytes of one typed value.  Integer, Float, Flag and the
   String readers are those of the eager decoder; the Character readers decode UTF-8 *)
Definition lz_info_kind (k : ikind) (vb : list N) : rres ival :=
  match k with
  | KChar false => lz_info_char vb
  | KChar true => lz_info_chars vb
  | KStr true => lz_info_strs vb
  | _ => dec_info_kind k vb
  end.

(* Info::iter: n fields; key through the dictionary, (Number, Type) through the header *)
Fixpoint lz_info_fields (strings : smap) (ik : name -> option ikind) (n : nat) (bs : list N)
  : rres (list (name * ival)) :=
  match n with
  | O => ROk []
  | S n' =>
    match dec_index bs with
    | None => RErr
    | Some (i, r) =>
      match get_index strings (znat (length (entries strings)) i) with
      | None => RErr
      | Some k =>
        match ik k with
        | None => RErr                                       (* missing info map entry / invalid number *)
        | Some kd =>
          match split_typed false 1 r with
          | None => RErr
          | Some (vb, r') =>
            rbind (lz_info_kind kd vb) (fun v =>
            rbind (lz_info_fields strings ik n' r') (fun l => ROk ((k, v) :: l)))
          end
        end
      end
    end
  end.

(* IndexMap::insert: an existing key keeps its position and takes the new value *)
Fixpoint imap_replace {A} (k : name) (v : A) (l : list (name * A)) : list (name * A) :=
  match l with
  | [] => []
  | (k', v') :: r => if name_eqb k k' then (k', v) :: r else (k', v') :: imap_replace k v r
  end.
Definition imap_insert {A} (l : list (name * A)) (kv : name * A) : list (name * A) :=
  if mem_name (fst kv) (map fst l) then imap_replace (fst kv) (snd kv) l else l ++ [kv].
Definition imap_collect {A} (l : list (name * A)) : list (name * A) := fold_left imap_insert l [].

Definition lz_info (strings : smap) (ik : name -> option ikind) (bd : bounds) (sb : list N)
  : rres (list (name * ival)) :=
  rbind (lz_slice (b_filters_end bd) (length sb) sb) (fun ib =>
  rbind (lz_u16 16 sb) (fun ni =>
  rbind (lz_info_fields strings ik (Z.to_nat ni) ib) (fun l => ROk (imap_collect l)))).

(* ------------------------------------------------------------------ the samples block *)
Record series := { se_id : Z; se_code : Z; se_len : Z; se_pay : list N }.

(* read_series: key index, type (the MISSING type is "invalid type"), size_of(ty) * sample_count bytes *)
Definition lz_series (ns : nat) (bs : list N) : option (series * list N) :=
  match dec_index bs with
  | Some (id, r) =>
    match read_type r with
    | Some (code, len, r2) =>
      if code =? 0 then None
      else match value_payload (S (length r2)) code len with
           | Some k =>
             match take (ns * k)%nat r2 with
             | Some (pay, rest) => Some ({| se_id := id; se_code := code; se_len := len; se_pay := pay |}, rest)
             | None => None
             end
           | None => None
           end
    | None => None
    end
  | None => None
  end.

(* Samples::validate *)
Fixpoint lz_validate (ns nf : nat) (bs : list N) : bool :=
  match nf with
  | O => true
  | S nf' => match lz_series ns bs with Some (_, r) => lz_validate ns nf' r | None => false end
  end.

(* Samples::series (a82186d): format_count series from the start of the block; the iterator stops at
   the first one that does not parse (which, after validate, does not happen).  Bytes after the last
   series are not looked at. *)
Fixpoint lz_n_series (ns nf : nat) (bs : list N) : option (list series) :=
  match nf with
  | O => Some []
  | S nf' =>
    match lz_series ns bs with
    | Some (s, r) => match lz_n_series ns nf' r with Some l => Some (s :: l) | None => None end
    | None => None
    end
  end.

(* ------------------------------------------------------------------ genotypes *)
(* Int8::from(n as i8) is a Value: not the missing, end-of-vector or reserved codes 0x80..0x87 *)
Definition is_value8 (b : N) : bool := negb ((128 <=? b) && (b <=? 135))%N.
Definition gt_phased (b : N) : bool := N.odd b.
Definition gt_position (b : N) : option Z := if (b / 2 =? 0)%N then None else Some (Z.of_N (b / 2) - 1).

Fixpoint gt_values (src : list N) : list N :=
  match src with
  | [] => []
  | b :: r => if is_value8 b then b :: gt_values r else []
  end.

(* implicit_first_allele_phasing on src.iter().skip(1) *)
Fixpoint implicit_phase (rest : list N) : bool :=
  match rest with
  | [] => true
  | b :: r => if negb (is_value8 b) then true else if negb (gt_phased b) then false else implicit_phase r
  end.

Definition first_allele_phase (v44 : bool) (src : list N) : bool :=
  if v44 then match src with [] => false | b :: _ => gt_phased b end
  else implicit_phase (tl src).

(* Genotype::iter *)
Definition lz_genotype (v44 : bool) (src : list N) : genotype :=
  match gt_values src with
  | [] => []
  | b :: r => (gt_position b, first_allele_phase v44 src) :: map (fun n => (gt_position n, gt_phased n)) r
  end.

(* ------------------------------------------------------------------ one value of a series *)
(* samples-series Values::iter on one sample's entries *)
Definition lz_int_array (w : width) (l : nat) (x : list N) : rres cellv :=
  match chunks l (wbytes w) x with
  | Some (xs, _) => rbind (sample_entries w xs) (fun vs => ROk (CIV (Some vs)))
  | None => RErr
  end.

Definition lz_float_array (l : nat) (x : list N) : rres cellv :=
  match chunks l 4 x with
  | Some (xs, _) => rbind (fsample_entries xs) (fun vs => ROk (CFV (Some vs)))
  | None => RErr
  end.

Definition lz_int_scalar (w : width) (x : list N) : rres cellv :=
  match classify w (dec_int w x) with
  | IValue n => ROk (CI (Some n))
  | IMissing => ROk (CI None)
  | _ => RErr
  end.

Definition lz_float_scalar (x : list N) : rres cellv :=
  match classify_f (le_val x) with
  | FValue b => ROk (CF (Some b))
  | FMissing => ROk (CF None)
  | _ => RErr
  end.

(* get_string: the cell up to its first NUL, UTF-8 *)
Definition lz_cell_string (x : list N) : rres str :=
  if utf8_valid (until_nul x) then ROk (until_nul x) else RErr.

(* t.chars().next(): '.' = missing, no character = "invalid character" *)
Definition lz_first_char (p : str) : rres (option N) :=
  match utf8_first p with
  | Some (c, _) => ROk (char_of_byte c)
  | None => RErr
  end.

(* get_char_value, get_string_value, get_char_array_value + `Characters`, get_string_array_value +
   `Strings` (0b0f2ab: the per-sample text "." is the missing value, an element "." a missing element,
   the empty text the array [""]; every element of a Character array gives its first character) *)
Definition lz_string_cell (k : fkind) (x : list N) : rres cellv :=
  rbind (lz_cell_string x) (fun s =>
  match k with
  | FChar true => rbind (lz_first_char s) (fun o => ROk (CC o))
  | FStr true => ROk (CS (str_of_piece s))
  | FChar false => rbind (map_rres lz_first_char (split_on comma s)) (fun l => ROk (CCV (Some l)))
  | FStr false => ROk (CSV (cell_strs s))
  | _ => RErr
  end).

(* Series::get(header, i) for i < sample_count (the only indices Samples::iter asks for).  isgt: the
   series' name is GT; kd: header.formats().get(name) with its Number (None also for Number=0);
   range::<N>(i, len) = size*i*len .. + size*len.  A GT series of type Int8(0) holds no genotype: the
   missing value (a1ba5e6) *)
Definition lz_cell (v44 isgt : bool) (kd : option fkind) (s : series) (i : nat) : rres cellv :=
  let l := znat (S (length (se_pay s))) (se_len s) in
  let code := se_code s in
  let cell (size : nat) := lz_get (size * i * l)%nat (size * l)%nat (se_pay s) in
  if isgt then
    if code =? 1 then
      if se_len s =? 0 then ROk (CG None)
      else
        match cell 1%nat with
        | Some x => ROk (CG (Some (lz_genotype v44 x)))
        | None => RErr                                        (* "missing value" *)
        end
    else RErr                                                 (* "invalid genotype type" *)
  else
    match kd with
    | None => RErr                                            (* missing type definition / Number=0 *)
    | Some k =>
      if (se_len s =? 0) && negb (code =? 7) then RErr        (* "invalid length" *)
      else
        match k, width_of_code code with
        | FInt sc, Some w =>
          match cell (wbytes w) with
          | Some x => if sc && (se_len s =? 1) then lz_int_scalar w x else lz_int_array w l x
          | None => RErr
          end
        | FFloat sc, None =>
          if code =? 5 then
            match cell 4%nat with
            | Some x => if sc && (se_len s =? 1) then lz_float_scalar x else lz_float_array l x
            | None => RErr
            end
          else RErr
        | (FChar _ | FStr _), None =>
          if code =? 7 then
            match cell 1%nat with
            | Some x => lz_string_cell k x
            | None => RErr
            end
          else RErr
        | _, _ => RErr                                        (* "type mismatch" *)
        end
    end.

(* the values of one series for the samples 0..ns-1 *)
Definition lz_column (v44 : bool) (fk : name -> option fkind) (ns : nat) (nm : name) (s : series)
  : rres (list cellv) :=
  map_rres (lz_cell v44 (name_eqb nm GT) (fk nm) s) (seq 0 ns).

(* Series::name *)
Fixpoint lz_names (m : smap) (l : list series) : rres (list name) :=
  match l with
  | [] => ROk []
  | s :: r =>
    match get_index m (znat (length (entries m)) (se_id s)) with
    | Some n => rbind (lz_names m r) (fun ns => ROk (n :: ns))
    | None => RErr
    end
  end.

Fixpoint lz_columns (v44 : bool) (fk : name -> option fkind) (ns : nat) (nms : list name) (l : list series)
  : rres (list (list cellv)) :=
  match nms, l with
  | nm :: nr, s :: r =>
    rbind (lz_column v44 fk ns nm s) (fun c => rbind (lz_columns v44 fk ns nr r) (fun cs => ROk (c :: cs)))
  | _, _ => ROk []
  end.

(* Record::samples (validate), then -- since 30014e8 -- try_from_variant_record compares samples.len()
   with the number of sample names of the header BEFORE it collects anything (InvalidData, as the eager
   decoder's InvalidSampleCount), then column_names, then every sample's values.  hdr = Some n: the
   header names n samples; None: the conversion without that check *)
Definition too_many_samples (hdr : option Z) (nsz : Z) : bool :=
  match hdr with Some hs => hs <? nsz | None => false end.

Definition lz_samples (v44 : bool) (strings : smap) (fk : name -> option fkind) (hdr : option Z)
  (sb ib : list N) : rres (list name * list (list cellv)) :=
  rbind (lz_sample_count sb) (fun nsz =>
  rbind (lz_format_count sb) (fun nf =>
  let ns := Z.to_nat nsz in
  if lz_validate ns (Z.to_nat nf) ib then
    if too_many_samples hdr nsz then RErr else
    match lz_n_series ns (Z.to_nat nf) ib with
    | None => RErr
    | Some ss =>
      rbind (lz_names strings ss) (fun nms =>
      rbind (lz_columns v44 fk ns nms ss) (fun cols =>
      ROk (dedup nms, fold_left push_col cols (repeat [] ns))))
    end
  else RErr)).

(* ------------------------------------------------------------------ the normal form of the comparison *)
(* What "lazy = eager" is stated up to (LazyEagerProofs.v): a per-sample vector that is ONE missing entry
   is the missing value (both are the VCF text `.`; the eager reader folds it, the lazy views do not),
   and before VCF 4.4 the phasing of the first allele is not part of a genotype (the lazy view derives
   it from the other alleles, the eager reader takes the bit that is stored). *)
Definition gt_norm (v44 : bool) (g : genotype) : genotype :=
  if v44 then g else match g with [] => [] | (p, _) :: t => (p, forallb snd t) :: t end.

Definition lone_none {A} (o : option (list (option A))) : option (list (option A)) :=
  match o with Some [None] => None | _ => o end.

Definition cell_norm (v44 : bool) (c : cellv) : cellv :=
  match c with
  | CIV s => CIV (lone_none s)
  | CFV s => CFV (lone_none s)
  | CCV s => CCV (lone_none s)
  | CSV s => CSV (lone_none s)
  | CG (Some g) => CG (Some (gt_norm v44 g))
  | c => c
  end.

Definition trec_norm (v44 : bool) (t : trecord) : trecord :=
  {| t_head := t_head t; t_info := t_info t; t_keys := t_keys t;
     t_rows := map (map (cell_norm v44)) (t_rows t) |}.

(* ------------------------------------------------------------------ the whole *)
(* read_record followed by RecordBuf::try_from_variant_record.  v44: the header's file format is
   VCF 4.4 or later.  hdr: the number of sample names of the header (the only thing the path asks the
   names for), or None for the conversion without the sample-count check. *)
Definition lazy_read_gen (v44 : bool) (strings contigs : smap) (ik : name -> option ikind)
  (fk : name -> option fkind) (hdr : option Z) (bs : list N) : rres trecord :=
  match dec_frame bs with
  | None => RErr
  | Some (sb, ib, _) =>
    rbind (lz_index sb) (fun bd =>
    rbind (lz_chrom contigs sb) (fun chrom =>
    rbind (lz_pos sb) (fun pos =>
    rbind (lz_ids bd sb) (fun ids =>
    rbind (lz_ref bd sb) (fun rf =>
    rbind (lz_alts bd sb) (fun alts =>
    rbind (lz_qual sb) (fun qual =>
    rbind (lz_filters strings bd sb) (fun filters =>
    rbind (lz_info strings ik bd sb) (fun info =>
    rbind (lz_samples v44 strings fk hdr sb ib) (fun kr =>
    rbind (lz_u16 16 sb) (fun ni =>
    rbind (lz_format_count sb) (fun nf =>
    rbind (lz_sample_count sb) (fun nsz =>
    ROk {| t_head := {| h_chrom := chrom; h_pos := pos; h_qual := qual; h_ids := dedup ids;
                        h_ref := rf; h_alts := alts; h_filters := dedup filters;
                        h_n_info := ni; h_n_fmt := nf; h_n_sample := nsz |};
           t_info := info; t_keys := fst kr; t_rows := snd kr |})))))))))))))
  end.

(* THE lazy path of the tree (30014e8): under a header that names hdr_samples samples *)
Definition lazy_read_hdr (v44 : bool) (strings contigs : smap) (ik : name -> option ikind)
  (fk : name -> option fkind) (hdr_samples : Z) (bs : list N) : rres trecord :=
  lazy_read_gen v44 strings contigs ik fk (Some hdr_samples) bs.

(* the same without the sample-count check: what the path returns under any header that names at least
   n_sample samples ([lazy_read_hdr_enough] in LazyProofs).  Kept with the arity other properties import
   (C15, C20). *)
Definition lazy_read (v44 : bool) (strings contigs : smap) (ik : name -> option ikind)
  (fk : name -> option fkind) (bs : list N) : rres trecord :=
  lazy_read_gen v44 strings contigs ik fk None bs.
