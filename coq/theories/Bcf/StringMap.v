(* Model of the BCF "dictionary of strings" / "dictionary of contigs" of noodles-vcf:
     noodles-vcf/src/header/string_maps/string_map.rs   (struct StringMap and its methods)
     noodles-vcf/src/header/string_maps.rs              (fn insert, Default, TryFrom<&Header>, insert_entry)
   Definitions only; proofs are in StringMapProofs.v.

   struct StringMap { indices: HashMap<String, usize>, entries: Vec<Option<String>> }
   The HashMap is an association list, newest binding first; lookup returns the first match,
   which is exactly the insert-overrides semantics of HashMap::insert. *)
From Coq Require Import NArith List Bool Arith.
Import ListNotations.

(* a string = its bytes *)
Definition name := list N.

Fixpoint name_eqb (a b : name) : bool :=
  match a, b with
  | [], [] => true
  | x :: a', y :: b' => N.eqb x y && name_eqb a' b'
  | _, _ => false
  end.

Record smap := { entries : list (option name); indices : list (name * nat) }.

Definition empty_map : smap := {| entries := []; indices := [] |}.

(* HashMap::get on the association list *)
Fixpoint assoc (n : name) (l : list (name * nat)) : option nat :=
  match l with
  | [] => None
  | (k, i) :: t => if name_eqb n k then Some i else assoc n t
  end.

(* entries.get(i).and_then(|entry| entry.as_deref()) *)
Definition slot (es : list (option name)) (i : nat) : option name :=
  match nth_error es i with
  | Some (Some n) => Some n
  | _ => None
  end.

Definition get_index (m : smap) (i : nat) : option name := slot (entries m) i.

(* self.indices.get(value).copied() *)
Definition get_index_of (m : smap) (n : name) : option nat := assoc n (indices m).

(* get_index_of(value).and_then(|i| get_index(i).map(|entry| (i, entry))) *)
Definition get_full (m : smap) (n : name) : option (nat * name) :=
  match get_index_of m n with
  | Some i => match get_index m i with
              | Some e => Some (i, e)
              | None => None
              end
  | None => None
  end.

(* entries[i] = x.  Total: leaves the list unchanged when i is out of range (the Rust would
   panic on the index; it cannot happen, every index stored in `indices` is < entries.len()). *)
Fixpoint set_nth {A : Type} (i : nat) (x : A) (l : list A) : list A :=
  match l, i with
  | [], _ => []
  | _ :: t, O => x :: t
  | h :: t, S i' => h :: set_nth i' x t
  end.

(* fn push: i = entries.len(); indices.insert(value, i); entries.push(Some(value)); i *)
Definition push (m : smap) (v : name) : nat * smap :=
  (length (entries m),
   {| entries := entries m ++ [Some v]; indices := (v, length (entries m)) :: indices m |}).

(* fn insert_full -> (usize, Option<String>), plus the updated map *)
Definition insert_full (m : smap) (v : name) : nat * option name * smap :=
  match get_index_of m v with
  | Some i =>
      (* let entry = self.entries[i].replace(value); (i, entry) *)
      (i, get_index m i, {| entries := set_nth i (Some v) (entries m); indices := indices m |})
  | None => (fst (push m v), None, snd (push m v))
  end.

(* fn StringMap::insert = insert_full(value).1 ; here: the updated map *)
Definition sm_insert (m : smap) (v : name) : smap := snd (insert_full m v).
(* ... and the returned previous entry *)
Definition sm_insert_ret (m : smap) (v : name) : option name := snd (fst (insert_full m v)).

(* Vec::resize(n, None) *)
Definition resize_none (es : list (option name)) (n : nat) : list (option name) :=
  firstn n es ++ repeat None (n - length es).

(* if i >= self.entries.len() { self.entries.resize(i + 1, None); } *)
Definition grow (es : list (option name)) (i : nat) : list (option name) :=
  if length es <=? i then resize_none es (i + 1) else es.

(* fn insert_at: returns (previous content of slot i, updated map).
   NOTE: whatever other name was in slot i is overwritten, and that other name keeps its
   binding in `indices`. *)
Definition insert_at (m : smap) (i : nat) (v : name) : option name * smap :=
  (slot (grow (entries m) i) i,
   {| entries := set_nth i (Some v) (grow (entries m) i); indices := (v, i) :: indices m |}).

(* fn insert(string_map, id, idx) -> Result<(), ParseError>;
   None = Err(ParseError::StringMapPositionMismatch(..)): the ID is known at another position, or
   (fix 09) the ID is new and its explicit position is held by another entry *)
Definition insert (m : smap) (id : name) (idx : option nat) : option smap :=
  match idx with
  | Some i =>
      match get_full m id with
      | Some (j, entry) =>
          (* actual = (i, id), expected = (j, entry); if actual != expected -> Err *)
          if Nat.eqb i j && name_eqb id entry then Some m else None
      | None =>
          (* else if let Some(entry) = string_map.get_index(i): the position is already taken by
             a different entry -> Err(StringMapPositionMismatch((i, id), (i, entry))) (fix 09) *)
          match get_index m i with
          | Some _ => None
          | None => Some (snd (insert_at m i id))
          end
      end
  | None => Some (sm_insert m id)
  end.

Definition PASS : name := [80; 65; 83; 83]%N.

(* Default for StringMaps: string_string_map = StringMap::default() + insert("PASS") *)
Definition default_strings : smap := sm_insert empty_map PASS.

(* one header line that takes part in a dictionary: (ID, IDX) *)
Definition line := (name * option nat)%type.

(* for (id, x) in ... { insert(map, id, x.idx())?; } *)
Fixpoint build_from (m : smap) (ls : list line) : option smap :=
  match ls with
  | [] => Some m
  | (id, idx) :: t =>
      match insert m id idx with
      | Some m' => build_from m' t
      | None => None
      end
  end.

(* ls = INFO lines, then FILTER lines, then FORMAT lines (TryFrom<&Header>), or the lines in
   header order (reader, insert_entry) *)
Definition build_strings (ls : list line) : option smap := build_from default_strings ls.
Definition build_contigs (ls : list line) : option smap := build_from empty_map ls.

(* The insert takes the insert_at path (id is not yet a key) and slot i holds another entry:
   insert_at overwrites it. *)
Definition clobbers (m : smap) (id : name) (idx : option nat) : bool :=
  match idx with
  | Some i =>
      match get_index_of m id with
      | Some _ => false
      | None => match get_index m i with
                | Some e => negb (name_eqb e id)
                | None => false
                end
      end
  | None => false
  end.

(* no step of the fold clobbers (false when the build fails) *)
Fixpoint no_clobber_from (m : smap) (ls : list line) : bool :=
  match ls with
  | [] => true
  | (id, idx) :: t =>
      negb (clobbers m id idx) &&
      match insert m id idx with
      | Some m' => no_clobber_from m' t
      | None => false
      end
  end.
