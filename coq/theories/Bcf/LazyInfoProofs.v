(* Proofs about NV.Bcf.Lazy, part 3: LAZY = EAGER on the INFO block.  The walk over the n_info fields
   is the eager one, and since 0b0f2ab / e4c926c the values agree for every (Number, Type): Integer,
   Float, Flag and String values are read by the same functions, a Character is one character and a
   Character array is every character of every piece.  The only condition left, [info_ascii], is an
   assumption of the EAGER MODEL (NV.Bcf.Strings takes a Character to be one byte), not a difference
   of the two readers: a Character array has to be ASCII text for bytes to be characters. *)
From Coq Require Import ZArith NArith List Bool Lia ZifyBool ZifyNat ZifyN.
From NV Require Import Bcf.Ints Bcf.IntsProofs Bcf.Typed Bcf.Strings Bcf.StringsProofs Bcf.Genotype Bcf.StringMap
  Bcf.StringMapProofs Bcf.Record Bcf.RecordTyped Bcf.NeverPanics Bcf.Lazy Bcf.LazyProofs Bcf.LazySiteProofs.
Import ListNotations.
Open Scope Z_scope.

(* ---------------------------------------------------------------- UTF-8 and ASCII delimiters *)
Lemma cont_ascii : forall c, (c < 128)%N -> cont c = false.
Proof. intros c H. unfold cont. lia. Qed.

Ltac fin_step := rewrite ?andb_false_r; cbn [andb]; try reflexivity.
Ltac fin Hcc H1 H2 H3 H4 :=
  rewrite ?Hcc, ?H1, ?H2, ?H3, ?H4; fin_step;
  repeat match goal with
  | |- context [match ?l with [] => _ | _ :: _ => _ end] =>
    destruct l; rewrite ?Hcc, ?H1, ?H2, ?H3, ?H4; fin_step
  end.

(* cutting well-formed UTF-8 at an ASCII byte gives well-formed pieces, and conversely *)
Lemma utf8_split_ascii : forall n p c r, (length p <= n)%nat -> (c < 128)%N ->
  utf8_valid (p ++ c :: r) = utf8_valid p && utf8_valid r.
Proof.
  induction n as [|n IH]; intros p c r Hn Hc.
  - destruct p; [|cbn [length] in Hn; lia]. cbn [app utf8_valid].
    destruct (c <? 128)%N eqn:E; [reflexivity|lia].
  - destruct p as [|b p].
    + cbn [app utf8_valid]. destruct (c <? 128)%N eqn:E; [reflexivity|lia].
    + cbn [length] in Hn.
      assert (forall q, (length q <= length p)%nat -> utf8_valid (q ++ c :: r) = utf8_valid q && utf8_valid r) as IH'
        by (intros q Hq; apply IH; [lia|exact Hc]).
      pose proof (cont_ascii c Hc) as Hcc.
      assert ((160 <=? c) && (c <=? 191) = false)%N as H1 by lia.
      assert ((128 <=? c) && (c <=? 159) = false)%N as H2 by lia.
      assert ((144 <=? c) && (c <=? 191) = false)%N as H3 by lia.
      assert ((128 <=? c) && (c <=? 143) = false)%N as H4 by lia.
      cbn [app]. cbn [utf8_valid].
      destruct (b <? 128)%N; [apply IH'; lia|].
      destruct ((194 <=? b) && (b <=? 223))%N.
      { destruct p as [|c1 p]; cbn [app]; [fin Hcc H1 H2 H3 H4|].
        rewrite IH' by (cbn [length]; lia). apply andb_assoc. }
      destruct (b =? 224)%N.
      { destruct p as [|c1 [|c2 p]]; cbn [app]; [fin Hcc H1 H2 H3 H4|fin Hcc H1 H2 H3 H4|].
        rewrite IH' by (cbn [length]; lia). rewrite !andb_assoc. reflexivity. }
      destruct (((225 <=? b) && (b <=? 236)) || ((238 <=? b) && (b <=? 239)))%N.
      { destruct p as [|c1 [|c2 p]]; cbn [app]; [fin Hcc H1 H2 H3 H4|fin Hcc H1 H2 H3 H4|].
        rewrite IH' by (cbn [length]; lia). rewrite !andb_assoc. reflexivity. }
      destruct (b =? 237)%N.
      { destruct p as [|c1 [|c2 p]]; cbn [app]; [fin Hcc H1 H2 H3 H4|fin Hcc H1 H2 H3 H4|].
        rewrite IH' by (cbn [length]; lia). rewrite !andb_assoc. reflexivity. }
      destruct (b =? 240)%N.
      { destruct p as [|c1 [|c2 [|c3 p]]]; cbn [app]; [fin Hcc H1 H2 H3 H4|fin Hcc H1 H2 H3 H4|fin Hcc H1 H2 H3 H4|].
        rewrite IH' by (cbn [length]; lia). rewrite !andb_assoc. reflexivity. }
      destruct ((241 <=? b) && (b <=? 243))%N.
      { destruct p as [|c1 [|c2 [|c3 p]]]; cbn [app]; [fin Hcc H1 H2 H3 H4|fin Hcc H1 H2 H3 H4|fin Hcc H1 H2 H3 H4|].
        rewrite IH' by (cbn [length]; lia). rewrite !andb_assoc. reflexivity. }
      destruct (b =? 244)%N.
      { destruct p as [|c1 [|c2 [|c3 p]]]; cbn [app]; [fin Hcc H1 H2 H3 H4|fin Hcc H1 H2 H3 H4|fin Hcc H1 H2 H3 H4|].
        rewrite IH' by (cbn [length]; lia). rewrite !andb_assoc. reflexivity. }
      reflexivity.
Qed.

(* split_on as prefix + delimiter + rest *)
Lemma split_on_cons_shape : forall d s, exists p rest,
  split_on d s = p :: rest /\ ((rest = [] /\ s = p) \/ (exists s', s = p ++ d :: s' /\ rest = split_on d s')).
Proof.
  intros d. induction s as [|b s IH].
  - exists [], []. split; [reflexivity|]. left. split; reflexivity.
  - cbn [split_on]. destruct (N.eqb b d) eqn:E.
    + apply N.eqb_eq in E. subst b. exists [], (split_on d s). split; [reflexivity|].
      right. exists s. split; reflexivity.
    + destruct IH as [p [rest [Hs Hc]]]. rewrite Hs. exists (b :: p), rest. split; [reflexivity|].
      destruct Hc as [[Hr Hp]|[s' [Hp Hr]]].
      * left. split; [exact Hr|]. rewrite Hp. reflexivity.
      * right. exists s'. split; [rewrite Hp; reflexivity|exact Hr].
Qed.

Lemma split_pieces_valid : forall n s, (length s <= n)%nat -> utf8_valid s = true ->
  forall p, In p (split_on comma s) -> utf8_valid p = true.
Proof.
  induction n as [|n IH]; intros s Hn Hv p Hin.
  - destruct s; [|cbn [length] in Hn; lia]. cbn [split_on] in Hin. destruct Hin as [Hp|[]]. subst p. reflexivity.
  - destruct (split_on_cons_shape comma s) as [p0 [rest [Hs Hc]]]. rewrite Hs in Hin.
    destruct Hc as [[Hr Hp]|[s' [Hp Hr]]].
    + subst rest. destruct Hin as [Hin|[]]. subst p0 p. exact Hv.
    + subst s. rewrite utf8_split_ascii with (n := length p0) in Hv by (unfold comma; lia).
      apply andb_prop in Hv. destruct Hv as [Hv1 Hv2].
      destruct Hin as [Hin|Hin]; [subst p; exact Hv1|].
      subst rest. apply (IH s'); [|exact Hv2|exact Hin].
      rewrite app_length in Hn. cbn [length] in Hn. lia.
Qed.

(* ---------------------------------------------------------------- ASCII text: characters are bytes *)
Definition ascii_str (s : str) : bool := forallb (fun b => (b <? 128)%N) s.

Lemma utf8_chars_fuel_ascii : forall s f, ascii_str s = true -> (length s <= f)%nat -> utf8_chars_fuel f s = s.
Proof.
  induction s as [|b s IH]; intros f Ha Hf.
  - destruct f; reflexivity.
  - destruct f as [|f]; [cbn [length] in Hf; lia|].
    cbn [ascii_str forallb] in Ha. apply andb_prop in Ha. destruct Ha as [Hb Hs].
    cbn [utf8_chars_fuel utf8_first]. rewrite Hb. rewrite IH; [reflexivity|exact Hs|cbn [length] in Hf; lia].
Qed.

Lemma utf8_chars_ascii : forall s, ascii_str s = true -> utf8_chars s = s.
Proof. intros s H. unfold utf8_chars. apply utf8_chars_fuel_ascii; [exact H|apply le_n]. Qed.

Lemma ascii_split : forall s, ascii_str s = true -> forallb ascii_str (split_on comma s) = true.
Proof.
  induction s as [|b s IH]; intros H; [reflexivity|].
  cbn [ascii_str forallb] in H. apply andb_prop in H. destruct H as [Hb Hs]. specialize (IH Hs).
  cbn [split_on]. destruct (N.eqb b comma); [cbn [forallb ascii_str]; exact IH|].
  destruct (split_on comma s) as [|p ps]; cbn [forallb ascii_str] in *; [rewrite Hb; reflexivity|].
  apply andb_prop in IH. destruct IH as [Hp Hps]. rewrite Hb, Hps. cbn [andb]. fold (ascii_str p). rewrite Hp. reflexivity.
Qed.

Lemma flat_chars_ascii : forall ps, forallb ascii_str ps = true -> flat_map utf8_chars ps = concat ps.
Proof.
  induction ps as [|p ps IH]; intros H; [reflexivity|].
  cbn [forallb] in H. apply andb_prop in H. destruct H as [Hp Hps].
  cbn [flat_map concat]. rewrite (utf8_chars_ascii p Hp), (IH Hps). reflexivity.
Qed.

Lemma utf8_valid_single : forall c, utf8_valid [c] = true -> (c < 128)%N.
Proof.
  intros c H. cbn [utf8_valid] in H. destruct (c <? 128)%N eqn:E; [lia|].
  repeat match type of H with (if ?x then _ else _) = _ => destruct x; try discriminate H end.
Qed.

(* ---------------------------------------------------------------- the class *)
(* the eager model's ASCII-Character assumption on an INFO Character array *)
Definition info_ascii (ik : name -> option ikind) (kv : name * list N) : bool :=
  match ik (fst kv), dec_info_string (snd kv) with
  | Some (KChar true), ROk (Some s) => ascii_str s
  | _, _ => true
  end.

(* ---------------------------------------------------------------- values *)
Lemma dec_info_string_some : forall vb s, dec_info_string vb = ROk (Some s) -> s <> [] /\ utf8_valid s = true.
Proof.
  intros vb s H. unfold dec_info_string in H.
  destruct (read_type vb) as [[[c l] r]|] eqn:Er; [|discriminate].
  pose proof (read_type_nonneg _ _ _ _ Er) as Hl.
  destruct (c =? 0); [discriminate|]. destruct (c =? 7); [|discriminate].
  destruct (l =? 0) eqn:E0; [discriminate|].
  destruct (take (znat (S (length r)) l) r) as [[x r']|] eqn:Et; [|discriminate].
  destruct (utf8_valid x) eqn:Eu; [|discriminate]. injection H as Hx. subst x.
  split; [|exact Eu]. apply lz_take_len in Et. destruct Et as [_ Hlen]. rewrite znat_min in Hlen.
  intro Hs. subst s. cbn [length] in Hlen. lia.
Qed.

(* info/field/value.rs read_value = decoder/info/field/value.rs read_value *)
Lemma info_kind_agree : forall ik k kd vb v, ik k = Some kd ->
  dec_info_kind kd vb = ROk v -> info_ascii ik (k, vb) = true -> lz_info_kind kd vb = ROk v.
Proof.
  intros ik k kd vb v Hk H Hp. unfold info_ascii in Hp. cbn [fst snd] in Hp. rewrite Hk in Hp.
  destruct kd as [a|a| |a|a]; try exact H; destruct a; try exact H.
  - (* Character array *)
    cbn [lz_info_kind]. cbn [dec_info_kind] in H. unfold dec_info_chars in H. unfold lz_info_chars.
    destruct (dec_info_string vb) as [o| |]; try discriminate H. cbn [rbind] in *.
    destruct o as [s|]; [|exact H]. cbn [rbind] in H. injection H as Hv. subst v.
    rewrite (flat_chars_ascii _ (ascii_split s Hp)). reflexivity.
  - (* Character *)
    cbn [lz_info_kind]. cbn [dec_info_kind] in H. unfold dec_info_char in H. unfold lz_info_char.
    destruct (dec_info_string vb) as [o| |] eqn:Ed; try discriminate H. cbn [rbind] in *.
    destruct o as [s|]; [|exact H].
    destruct s as [|c [|c2 s]]; try discriminate H.
    destruct (dec_info_string_some _ _ Ed) as [_ Hu]. apply utf8_valid_single in Hu.
    unfold utf8_chars. cbn [length utf8_chars_fuel utf8_first].
    destruct (c <? 128)%N eqn:E; [exact H|lia].
Qed.

(* ---------------------------------------------------------------- the IndexMap of distinct keys *)
Lemma has_key_mem : forall {A} k (l : list (name * A)), mem_name k (map fst l) =
  (fix hk (l : list (name * A)) := match l with [] => false | (k', _) :: r => name_eqb k k' || hk r end) l.
Proof. intros A k. induction l as [|[k' v] l IH]; [reflexivity|]. cbn [map fst mem_name]. rewrite IH. reflexivity. Qed.

(* keys pairwise distinct, in the sense of the decoder's duplicate check *)
Fixpoint keys_distinct (ks : list name) : bool :=
  match ks with [] => true | k :: r => negb (mem_name k r) && keys_distinct r end.

Lemma mem_name_app : forall k a b, mem_name k (a ++ b) = mem_name k a || mem_name k b.
Proof. intros k. induction a as [|x a IH]; intros b; [reflexivity|]. cbn [app mem_name]. rewrite IH. apply orb_assoc. Qed.

Lemma name_eqb_sym : forall a b, name_eqb a b = name_eqb b a.
Proof.
  intros a b. destruct (name_eqb a b) eqn:E.
  - apply name_eqb_eq in E. subst b. symmetry. apply name_eqb_refl.
  - symmetry. apply name_eqb_neq. apply name_eqb_neq in E. intro X. apply E. symmetry. exact X.
Qed.

Lemma imap_collect_distinct_from : forall {A} (l acc : list (name * A)),
  keys_distinct (map fst l) = true -> (forall k, mem_name k (map fst l) = true -> mem_name k (map fst acc) = false) ->
  fold_left imap_insert l acc = acc ++ l.
Proof.
  intros A. induction l as [|[k v] l IH]; intros acc Hd Hdis; [rewrite app_nil_r; reflexivity|].
  cbn [map fst keys_distinct] in Hd. apply andb_prop in Hd. destruct Hd as [Hk Hd].
  cbn [fold_left]. unfold imap_insert at 2. cbn [fst snd].
  rewrite (Hdis k) by (cbn [map fst mem_name]; rewrite name_eqb_refl; reflexivity).
  rewrite IH; [rewrite <- app_assoc; reflexivity|exact Hd|].
  intros k' Hk'. rewrite map_app, mem_name_app. cbn [map fst mem_name]. rewrite orb_false_r.
  rewrite (Hdis k') by (cbn [map fst mem_name]; rewrite Hk'; apply orb_true_r).
  cbn [orb]. destruct (name_eqb k' k) eqn:E; [|reflexivity].
  apply name_eqb_eq in E. subst k'. rewrite Hk' in Hk. discriminate.
Qed.

Lemma imap_collect_distinct : forall {A} (l : list (name * A)),
  keys_distinct (map fst l) = true -> imap_collect l = l.
Proof. intros A l H. unfold imap_collect. rewrite imap_collect_distinct_from; [reflexivity|exact H|reflexivity]. Qed.

Lemma has_key_mem_name : forall k (l : list (name * list N)), has_key k l = mem_name k (map fst l).
Proof. intros k. induction l as [|[k' v] l IH]; [reflexivity|]. cbn [has_key map fst mem_name]. rewrite IH. reflexivity. Qed.

(* ---------------------------------------------------------------- the walk over the INFO fields *)
Lemma info_fields_agree : forall strings ik n bs infos r ivs,
  dec_fields_k strings 1 true n bs = Some (infos, r) ->
  map_rres (fun kv : name * list N =>
              match ik (fst kv) with
              | None => RErr
              | Some k => rbind (dec_info_kind k (snd kv)) (fun v => ROk (fst kv, v))
              end) infos = ROk ivs ->
  forallb (info_ascii ik) infos = true ->
  lz_info_fields strings ik n bs = ROk ivs /\ map fst ivs = map fst infos /\ keys_distinct (map fst infos) = true.
Proof.
  intros strings ik. induction n as [|n IH]; intros bs infos r ivs H Hm Hp; cbn [dec_fields_k] in H.
  - injection H as Hi Hr. subst infos r. cbn [map_rres] in Hm. injection Hm as Hv. subst ivs.
    repeat split.
  - cbn [lz_info_fields].
    destruct (dec_index bs) as [[i r0]|] eqn:E0; [|discriminate].
    destruct (get_index strings (znat (length (entries strings)) i)) as [k|] eqn:E1; [|discriminate].
    cbn [negb andb] in H.
    destruct (split_typed false 1 r0) as [[vb r1]|] eqn:E2; [|discriminate].
    destruct (dec_fields_k strings 1 true n r1) as [[l r2]|] eqn:E3; [|discriminate].
    destruct (has_key k l) eqn:Ehk; [discriminate|]. injection H as Hi Hr. subst infos r2.
    cbn [map_rres fst snd] in Hm.
    destruct (ik k) as [kd|] eqn:Ek; [|discriminate].
    destruct (dec_info_kind kd vb) as [v| |] eqn:Ev; try discriminate. cbn [rbind] in Hm.
    match type of Hm with rbind ?m _ = _ => destruct m as [ivs'| |] eqn:Em; try discriminate end.
    cbn [rbind] in Hm. injection Hm as Hv. subst ivs.
    cbn [forallb] in Hp. apply andb_prop in Hp. destruct Hp as [Hp1 Hp2].
    destruct (IH r1 l r ivs' E3 Em Hp2) as [H1 [H2 H3]].
    rewrite (info_kind_agree ik k kd vb v Ek Ev Hp1). cbn [rbind]. rewrite H1. cbn [rbind].
    split; [reflexivity|]. split; [cbn [map fst]; rewrite H2; reflexivity|].
    cbn [map fst keys_distinct]. rewrite H3. rewrite has_key_mem_name in Ehk. rewrite Ehk. reflexivity.
Qed.
