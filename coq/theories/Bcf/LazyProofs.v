(* Proofs about NV.Bcf.Lazy, part 1: the descriptor reader is local (its result depends on the bytes
   it consumes only), what Fields::index stores (the bounds invariant), and TOTALITY: lazy_read never
   returns the panic outcome, for every byte string, dictionary, header typing and file format --
   every `&buf[s..e]`, the `read_type(..).unwrap()` / `unreachable!()` of Filters and the
   `allele_count() - 1` of alternate_bases() are safe because of what index() established. *)
From Coq Require Import ZArith NArith List Bool Lia ZifyBool ZifyNat ZifyN.
From NV Require Import Bcf.Ints Bcf.IntsProofs Bcf.Typed Bcf.Strings Bcf.Genotype Bcf.StringMap Bcf.Record
  Bcf.RecordTyped Bcf.NeverPanics Bcf.Lazy.
Import ListNotations.
Open Scope Z_scope.

(* ---------------------------------------------------------------- small facts *)
Lemma lz_take_len : forall k bs x r, take k bs = Some (x, r) -> bs = x ++ r /\ length x = k.
Proof.
  intros k bs x r H. unfold take in H. destruct (k <=? length bs)%nat eqn:E; [|discriminate].
  injection H as Hx Hr. subst x r. apply Nat.leb_le in E. split.
  - symmetry. apply firstn_skipn.
  - apply firstn_length_le. exact E.
Qed.

Lemma lz_take_app : forall k (x r : list N), length x = k -> take k (x ++ r) = Some (x, r).
Proof. intros k x r H. apply take_app. exact H. Qed.

Lemma skipn_skipn_add : forall {A} (a b : nat) (l : list A), skipn a (skipn b l) = skipn (b + a) l.
Proof.
  intros A a b. revert a. induction b as [|b IH]; intros a l; [reflexivity|].
  destruct l as [|x l]; [destruct a; reflexivity|]. cbn [skipn Nat.add]. apply IH.
Qed.

Lemma skipn_app_len : forall {A} (d r : list A), skipn (length d) (d ++ r) = r.
Proof. intros A d r. induction d as [|x d IH]; [reflexivity|exact IH]. Qed.

Lemma firstn_app_len : forall {A} (d r : list A), firstn (length d) (d ++ r) = d.
Proof. intros A d r. induction d as [|x d IH]; [reflexivity|cbn [length firstn app]; rewrite IH; reflexivity]. Qed.

(* peel one match / if off a hypothesis, keeping the equation of the scrutinee *)
Ltac lpeel H :=
  match type of H with
  | (match ?x with _ => _ end) = _ => destruct x eqn:?; try discriminate H
  | (if ?c then _ else _) = _ => destruct c eqn:?; try discriminate H
  end.
Ltac lpeel_all H := cbv zeta in H; repeat (lpeel H; cbv zeta in H).

(* ---------------------------------------------------------------- read_type is local *)
Lemma dec_type_inner1 : forall f b t, Z.of_N b / 16 =? 15 = false ->
  dec_type (S f) (b :: t) = if valid_code (Z.of_N b mod 16) then Some (Z.of_N b mod 16, Z.of_N b / 16, t) else None.
Proof. intros f b t H. cbn [dec_type]. cbv zeta. rewrite H. reflexivity. Qed.

Lemma dec_type_two : forall f bs, dec_type (S (S f)) bs = dec_type 2 bs.
Proof.
  intros f bs. destruct bs as [|b r]; [reflexivity|].
  change (dec_type 2 (b :: r)) with (dec_type (S 1) (b :: r)).
  remember (S f) as g eqn:Eg. remember 1%nat as one eqn:E1.
  cbn [dec_type]. cbv zeta. destruct (Z.of_N b / 16 =? 15); [|reflexivity].
  destruct r as [|b2 t]; [subst; reflexivity|].
  destruct (Z.of_N b2 / 16 =? 15) eqn:E; [reflexivity|].
  subst g one. rewrite (dec_type_inner1 f b2 t E). rewrite (dec_type_inner1 0 b2 t E). reflexivity.
Qed.

(* the result of read_type is that of a reader with two levels of recursion *)
Lemma read_type_two : forall b r, read_type (b :: r) = dec_type 2 (b :: r).
Proof.
  intros b r. unfold read_type. cbn [length].
  destruct r as [|b2 t]; [|apply dec_type_two].
  cbn [dec_type length]. cbv zeta. destruct (Z.of_N b / 16 =? 15); reflexivity.
Qed.

(* read_type consumes a non-empty descriptor d and its result does not depend on what follows d *)
Lemma read_type_local : forall bs c l r, read_type bs = Some (c, l, r) ->
  exists d, bs = d ++ r /\ d <> [] /\ forall r', read_type (d ++ r') = Some (c, l, r').
Proof.
  intros bs c l r H. destruct bs as [|b t]; [discriminate|].
  rewrite read_type_two in H. cbn [dec_type] in H. cbv zeta in H.
  destruct (Z.of_N b / 16 =? 15) eqn:E15.
  - destruct t as [|b2 t2]; [discriminate|].
    destruct (Z.of_N b2 / 16 =? 15) eqn:E2; [discriminate|].
    try rewrite E2 in H.
    destruct (valid_code (Z.of_N b2 mod 16)) eqn:Ev2; [|discriminate].
    destruct (width_of_code (Z.of_N b2 mod 16)) as [w|] eqn:Ew; [|discriminate].
    destruct (Z.of_N b2 / 16 =? 1) eqn:E1; [|discriminate].
    destruct (take (wbytes w) t2) as [[x r3]|] eqn:Et; [|discriminate].
    apply lz_take_len in Et. destruct Et as [Et Hx]. subst t2.
    destruct (classify w (dec_int w x)) as [n| | |] eqn:Ec; try discriminate.
    destruct ((0 <=? n) && valid_code (Z.of_N b mod 16)) eqn:Eok; [|discriminate].
    injection H as Hc Hl Hr. subst c l r3.
    exists (b :: b2 :: x). split; [reflexivity|]. split; [discriminate|].
    intros r'. cbn [app]. rewrite read_type_two. cbn [dec_type]. cbv zeta.
    rewrite E15, E2, Ev2, Ew, E1. rewrite (lz_take_app _ x r' Hx). rewrite Ec, Eok. reflexivity.
  - destruct (valid_code (Z.of_N b mod 16)) eqn:Ev; [|discriminate].
    injection H as Hc Hl Hr. subst c l t.
    exists [b]. split; [reflexivity|]. split; [discriminate|].
    intros r'. cbn [app]. rewrite read_type_two. cbn [dec_type]. cbv zeta. rewrite E15, Ev. reflexivity.
Qed.

Lemma read_type_len : forall bs c l r, read_type bs = Some (c, l, r) -> (length r < length bs)%nat.
Proof.
  intros bs c l r H. destruct (read_type_local _ _ _ _ H) as [d [Hb [Hd _]]]. subst bs.
  rewrite app_length. destruct d; [contradiction|cbn [length]; lia].
Qed.

Lemma read_type_code : forall bs c l r, read_type bs = Some (c, l, r) -> valid_code c = true.
Proof.
  intros bs c l r H. destruct bs as [|b t]; [discriminate|].
  rewrite read_type_two in H. cbn [dec_type] in H. cbv zeta in H. lpeel_all H; injection H as Hc _ _; subst c; try assumption.
  all: match goal with E : (_ && valid_code _) = true |- _ => apply andb_prop in E; destruct E as [_ E]; exact E end.
Qed.

(* ---------------------------------------------------------------- slices of the site buffer *)
Lemma lz_slice_ok : forall s e buf, (s <= e)%nat -> (e <= length buf)%nat ->
  lz_slice s e buf = ROk (firstn (e - s) (skipn s buf)).
Proof.
  intros s e buf H1 H2. unfold lz_slice.
  destruct ((s <=? e)%nat && (e <=? length buf)%nat) eqn:E; [reflexivity|].
  apply andb_false_iff in E. destruct E as [E|E]; apply Nat.leb_gt in E; lia.
Qed.

(* consume_string on the site buffer from offset `off`: the stored range lies inside the buffer, after
   `off`, and the remaining input is the buffer from the end of the range *)
Lemma consume_string_bounds : forall sb off s e r, (off <= length sb)%nat ->
  consume_string (skipn off sb) off = Some (s, e, r) ->
  (off < s)%nat /\ (s <= e)%nat /\ (e <= length sb)%nat /\ r = skipn e sb.
Proof.
  intros sb off s e r Hoff H. unfold consume_string in H.
  destruct (read_type (skipn off sb)) as [[[c l] r0]|] eqn:Er; [|discriminate].
  destruct (c =? 7); [|discriminate]. cbv zeta in H.
  remember (znat (S (length r0)) l) as n eqn:En. clear En.
  destruct (n <=? length r0)%nat eqn:El; [|discriminate].
  apply Nat.leb_le in El. injection H as Hs He Hr.
  pose proof (read_type_len _ _ _ _ Er) as Hlen.
  destruct (read_type_local _ _ _ _ Er) as [d [Hb [Hd _]]].
  assert (length (skipn off sb) = (length sb - off)%nat) as Hsk by apply skipn_length.
  assert (r0 = skipn (length d) (skipn off sb)) as Hr0 by (rewrite Hb; symmetry; apply skipn_app_len).
  assert (length (skipn off sb) = (length d + length r0)%nat) as Hsum by (rewrite Hb at 1; apply app_length).
  assert (length d <> 0%nat) as Hd0 by (destruct d; [contradiction|discriminate]).
  subst s e r. repeat split; try lia.
  replace (off + (length (skipn off sb) - length r0) + n)%nat with (off + length d + n)%nat by lia.
  rewrite Hr0 at 1. rewrite !skipn_skipn_add. f_equal. lia.
Qed.

Lemma consume_alts_bounds : forall sb n off e r, (off <= length sb)%nat ->
  consume_alts n (skipn off sb) off = Some (e, r) ->
  (off <= e)%nat /\ (e <= length sb)%nat /\ r = skipn e sb.
Proof.
  intros sb. induction n as [|n IH]; intros off e r Hoff H; cbn [consume_alts] in H.
  - injection H as He Hr. subst e r. repeat split; lia.
  - destruct (consume_string (skipn off sb) off) as [[[s1 e1] b1]|] eqn:E; [|discriminate].
    apply consume_string_bounds in E; [|exact Hoff]. destruct E as [H1 [H2 [H3 H4]]]. subst b1.
    apply IH in H; [|exact H3]. destruct H as [I1 [I2 I3]]. repeat split; [lia|lia|exact I3].
Qed.

(* what consume_integers leaves: the slice [off, e) starts with a descriptor that read_type accepts,
   with one of the codes 0..3 *)
Lemma consume_integers_bounds : forall sb off e, (off <= length sb)%nat ->
  consume_integers (skipn off sb) off = Some e ->
  (off < e)%nat /\ (e <= length sb)%nat /\
  exists c l r', read_type (firstn (e - off) (skipn off sb)) = Some (c, l, r') /\
                 ((c =? 0) = true \/ width_of_code c <> None).
Proof.
  intros sb off e Hoff H. unfold consume_integers in H.
  destruct (read_type (skipn off sb)) as [[[c l] r0]|] eqn:Er; [|discriminate]. cbv zeta in H.
  pose proof (read_type_len _ _ _ _ Er) as Hlen.
  destruct (read_type_local _ _ _ _ Er) as [d [Hb [Hd Hloc]]].
  assert (length (skipn off sb) = (length sb - off)%nat) as Hsk by apply skipn_length.
  assert (length (skipn off sb) = (length d + length r0)%nat) as Hsum by (rewrite Hb at 1; apply app_length).
  match type of H with match ?o with _ => _ end = _ => destruct o as [pl|] eqn:Eo; [|discriminate] end.
  destruct (pl <=? length r0)%nat eqn:El; [|discriminate]. apply Nat.leb_le in El.
  injection H as He. subst e.
  assert (length d <> 0%nat) as Hd0 by (destruct d; [contradiction|discriminate]).
  split; [lia|]. split; [lia|].
  exists c, l, (firstn pl r0). split.
  - replace (off + (length (skipn off sb) - length r0) + pl - off)%nat with (length d + pl)%nat by lia.
    rewrite Hb. rewrite firstn_app. rewrite firstn_all2 by lia.
    replace (length d + pl - length d)%nat with pl by lia. apply Hloc.
  - destruct (c =? 0) eqn:E0; [left; reflexivity|right].
    unfold width_of_code.
    destruct (c =? 1); [discriminate|]. destruct (c =? 2); [discriminate|]. destruct (c =? 3); [discriminate|].
    discriminate Eo.
Qed.

(* the invariant index() establishes *)
Definition bounds_ok (bd : bounds) (sb : list N) : Prop :=
  (24 <= length sb)%nat /\ allele_count sb <> 0 /\
  (fst (b_ids bd) <= snd (b_ids bd))%nat /\ (snd (b_ids bd) <= length sb)%nat /\
  (fst (b_ref bd) <= snd (b_ref bd))%nat /\ (snd (b_ref bd) <= b_alt_end bd)%nat /\
  (b_alt_end bd <= b_filters_end bd)%nat /\ (b_filters_end bd <= length sb)%nat /\
  exists c l r', read_type (firstn (b_filters_end bd - b_alt_end bd) (skipn (b_alt_end bd) sb)) = Some (c, l, r') /\
                 ((c =? 0) = true \/ width_of_code c <> None).

Lemma index_bounds_ok : forall sb bd, index_bounds sb = Some bd -> bounds_ok bd sb.
Proof.
  intros sb bd H. unfold index_bounds in H.
  destruct (length sb <? 24)%nat eqn:E24; [discriminate|]. apply Nat.ltb_ge in E24.
  destruct (allele_count sb =? 0) eqn:Eac; [discriminate|].
  destruct (consume_string (skipn 24 sb) 24) as [[[s1 e1] b1]|] eqn:E1; [|discriminate].
  apply consume_string_bounds in E1; [|lia]. destruct E1 as [A1 [A2 [A3 A4]]]. subst b1.
  destruct (consume_string (skipn e1 sb) e1) as [[[s2 e2] b2]|] eqn:E2; [|discriminate].
  apply consume_string_bounds in E2; [|lia]. destruct E2 as [B1 [B2 [B3 B4]]]. subst b2.
  destruct (consume_alts (Z.to_nat (allele_count sb - 1)) (skipn e2 sb) e2) as [[e3 b3]|] eqn:E3; [|discriminate].
  apply consume_alts_bounds in E3; [|lia]. destruct E3 as [C1 [C2 C3]]. subst b3.
  destruct (consume_integers (skipn e3 sb) e3) as [e4|] eqn:E4; [|discriminate].
  apply consume_integers_bounds in E4; [|lia]. destruct E4 as [D1 [D2 D3]].
  injection H as Hbd. subst bd. unfold bounds_ok. cbn [b_ids b_ref b_alt_end b_filters_end fst snd].
  repeat split; try lia. exact D3.
Qed.

Lemma lz_index_ok : forall sb bd, lz_index sb = ROk bd -> bounds_ok bd sb.
Proof.
  intros sb bd H. unfold lz_index in H. destruct (index_bounds sb) as [bd'|] eqn:E; [|discriminate].
  apply index_bounds_ok in E. destruct (lz_slice (fst (b_ids bd')) (snd (b_ids bd')) sb); try discriminate.
  cbn [rbind] in H. destruct (utf8_valid a); [|discriminate]. injection H as Hb. subst bd'. exact E.
Qed.

(* ---------------------------------------------------------------- totality *)
Lemma lz_slice_np : forall s e buf, (s <= e)%nat -> (e <= length buf)%nat -> lz_slice s e buf <> RPanic.
Proof. intros s e buf H1 H2. rewrite lz_slice_ok by assumption. discriminate. Qed.

Lemma lz_index_np : forall sb, lz_index sb <> RPanic.
Proof.
  intros sb. unfold lz_index. destruct (index_bounds sb) as [bd|] eqn:E; [|discriminate].
  apply index_bounds_ok in E. destruct E as [_ [_ [H1 [H2 _]]]].
  rewrite lz_slice_ok by assumption. cbn [rbind]. destruct (utf8_valid _); discriminate.
Qed.

Section Views.
  Variables (bd : bounds) (sb : list N).
  Hypothesis Hok : bounds_ok bd sb.

  Lemma lz_chrom_np : forall contigs, lz_chrom contigs sb <> RPanic.
  Proof.
    intros contigs. destruct Hok as [H24 _]. unfold lz_chrom. rewrite lz_slice_ok by lia. cbn [rbind]. np.
  Qed.

  Lemma lz_pos_np : lz_pos sb <> RPanic.
  Proof. destruct Hok as [H24 _]. unfold lz_pos. rewrite lz_slice_ok by lia. cbn [rbind]. np. Qed.

  Lemma lz_qual_np : lz_qual sb <> RPanic.
  Proof. destruct Hok as [H24 _]. unfold lz_qual. rewrite lz_slice_ok by lia. cbn [rbind]. np. Qed.

  Lemma lz_u16_ok : forall s, (s + 2 <= 24)%nat -> lz_u16 s sb = ROk (le_val (firstn 2 (skipn s sb))).
  Proof.
    intros s Hs. destruct Hok as [H24 _]. unfold lz_u16. rewrite lz_slice_ok by lia. cbn [rbind].
    replace (s + 2 - s)%nat with 2%nat by lia. reflexivity.
  Qed.

  Lemma lz_sample_count_ok : lz_sample_count sb = ROk (le_val (firstn 3 (skipn 20 sb))).
  Proof. destruct Hok as [H24 _]. unfold lz_sample_count. rewrite lz_slice_ok by lia. reflexivity. Qed.

  Lemma lz_format_count_ok : exists b, nth_error sb 23 = Some b /\ lz_format_count sb = ROk (Z.of_N b).
  Proof.
    destruct Hok as [H24 _]. unfold lz_format_count.
    destruct (nth_error sb 23) as [b|] eqn:E.
    - exists b. split; reflexivity.
    - apply nth_error_None in E. lia.
  Qed.

  Lemma lz_ids_np : lz_ids bd sb <> RPanic.
  Proof.
    destruct Hok as [_ [_ [H1 [H2 _]]]]. unfold lz_ids. rewrite lz_slice_ok by assumption. cbn [rbind]. discriminate.
  Qed.

  Lemma lz_ref_np : lz_ref bd sb <> RPanic.
  Proof.
    destruct Hok as [_ [_ [_ [_ [H1 [H2 [H3 [H4 _]]]]]]]]. unfold lz_ref. rewrite lz_slice_ok by lia. cbn [rbind]. np.
  Qed.

  Lemma lz_alt_values_np : forall n bs, lz_alt_values n bs <> RPanic.
  Proof. induction n as [|n IH]; intros bs; cbn [lz_alt_values]; np. Qed.

  Lemma lz_alts_np : lz_alts bd sb <> RPanic.
  Proof.
    destruct Hok as [H24 [Hac [_ [_ [H1 [H2 [H3 [H4 _]]]]]]]]. unfold lz_alts.
    rewrite lz_slice_ok by lia. cbn [rbind]. rewrite lz_u16_ok by lia. cbn [rbind].
    fold (allele_count sb). destruct (allele_count sb =? 0) eqn:E; [lia|]. apply lz_alt_values_np.
  Qed.

  Lemma lz_filter_entries_np : forall w fuel bs, lz_filter_entries w fuel bs <> RPanic.
  Proof. intros w. induction fuel as [|f IH]; intros bs; destruct bs; cbn [lz_filter_entries]; np. Qed.

  Lemma lz_resolve_np : forall m l, lz_resolve m l <> RPanic.
  Proof. intros m. induction l as [|i l IH]; cbn [lz_resolve]; np. Qed.

  Lemma lz_filters_np : forall strings, lz_filters strings bd sb <> RPanic.
  Proof.
    intros strings. destruct Hok as [_ [_ [_ [_ [_ [_ [H3 [H4 [c [l [r' [Hr Hc]]]]]]]]]]]].
    unfold lz_filters. rewrite lz_slice_ok by lia. cbn [rbind].
    apply rbind_np; [|intros a; apply lz_resolve_np].
    unfold lz_filter_indices. rewrite Hr.
    destruct (c =? 0) eqn:E0; [discriminate|].
    destruct Hc as [Hc|Hc]; [discriminate|].
    destruct (width_of_code c) as [w|]; [apply lz_filter_entries_np|contradiction].
  Qed.

  Lemma lz_info_kind_np : forall k vb, lz_info_kind k vb <> RPanic.
  Proof.
    intros k vb. unfold lz_info_kind.
    destruct k as [a|a| |a|a]; try apply dec_info_kind_np; destruct a; try apply dec_info_kind_np.
    - unfold lz_info_chars. apply rbind_np; [apply dec_info_string_np|]. intros [s|]; discriminate.
    - unfold lz_info_char. apply rbind_np; [apply dec_info_string_np|]. intros [s|]; [|discriminate].
      destruct (utf8_chars s) as [|c [|c2 r]]; discriminate.
    - apply (dec_info_kind_np (KStr true)).
  Qed.

  Lemma lz_info_fields_np : forall strings ik n bs, lz_info_fields strings ik n bs <> RPanic.
  Proof.
    intros strings ik. induction n as [|n IH]; intros bs; cbn [lz_info_fields]; [discriminate|].
    destruct (dec_index bs) as [[i r]|]; [|discriminate].
    destruct (get_index strings _) as [k|]; [|discriminate].
    destruct (ik k) as [kd|]; [|discriminate].
    destruct (split_typed false 1 r) as [[vb r']|]; [|discriminate].
    apply rbind_np; [apply lz_info_kind_np|]. intros v. apply rbind_np; [apply IH|discriminate].
  Qed.

  Lemma lz_info_np : forall strings ik, lz_info strings ik bd sb <> RPanic.
  Proof.
    intros strings ik. destruct Hok as [H24 [_ [_ [_ [_ [_ [_ [H4 _]]]]]]]]. unfold lz_info.
    rewrite lz_slice_ok by lia. cbn [rbind]. rewrite lz_u16_ok by lia. cbn [rbind].
    apply rbind_np; [apply lz_info_fields_np|discriminate].
  Qed.
End Views.

Lemma lz_int_array_np : forall w l x, lz_int_array w l x <> RPanic.
Proof. intros w l x. unfold lz_int_array. destruct (chunks l (wbytes w) x) as [[xs r]|]; [|discriminate]. np. apply sample_entries_np. Qed.
Lemma lz_float_array_np : forall l x, lz_float_array l x <> RPanic.
Proof. intros l x. unfold lz_float_array. destruct (chunks l 4 x) as [[xs r]|]; [|discriminate]. np. apply fsample_entries_np. Qed.
Lemma lz_int_scalar_np : forall w x, lz_int_scalar w x <> RPanic.
Proof. intros w x. unfold lz_int_scalar. np. Qed.
Lemma lz_float_scalar_np : forall x, lz_float_scalar x <> RPanic.
Proof. intros x. unfold lz_float_scalar. np. Qed.

Lemma lz_first_char_np : forall p, lz_first_char p <> RPanic.
Proof. intros p. unfold lz_first_char. destruct (utf8_first p) as [[c r]|]; discriminate. Qed.

Lemma lz_string_cell_np : forall k x, lz_string_cell k x <> RPanic.
Proof.
  intros k x. unfold lz_string_cell, lz_cell_string. destruct (utf8_valid (until_nul x)); [|discriminate].
  cbn [rbind]. destruct k as [sc|sc|sc|sc]; try discriminate; destruct sc.
  - apply rbind_np; [apply lz_first_char_np|discriminate].
  - apply rbind_np; [apply map_rres_np; apply lz_first_char_np|discriminate].
  - discriminate.
  - discriminate.
Qed.

Lemma lz_cell_np : forall v44 isgt kd s i, lz_cell v44 isgt kd s i <> RPanic.
Proof.
  intros v44 isgt kd s i. unfold lz_cell. cbv zeta.
  destruct isgt.
  - destruct (se_code s =? 1); [|discriminate]. destruct (se_len s =? 0); [discriminate|].
    destruct (lz_get _ _ _); discriminate.
  - destruct kd as [k|]; [|discriminate].
    destruct ((se_len s =? 0) && negb (se_code s =? 7)); [discriminate|].
    destruct k as [sc|sc|sc|sc]; destruct (width_of_code (se_code s)) as [w|]; try discriminate.
    + destruct (lz_get _ _ _); [|discriminate].
      destruct (sc && (se_len s =? 1)); [apply lz_int_scalar_np|apply lz_int_array_np].
    + destruct (se_code s =? 5); [|discriminate]. destruct (lz_get _ _ _); [|discriminate].
      destruct (sc && (se_len s =? 1)); [apply lz_float_scalar_np|apply lz_float_array_np].
    + destruct (se_code s =? 7); [|discriminate]. destruct (lz_get _ _ _); [|discriminate]. apply lz_string_cell_np.
    + destruct (se_code s =? 7); [|discriminate]. destruct (lz_get _ _ _); [|discriminate]. apply lz_string_cell_np.
Qed.

Lemma lz_names_np : forall m l, lz_names m l <> RPanic.
Proof. intros m. induction l as [|s l IH]; cbn [lz_names]; np. Qed.

Lemma lz_columns_np : forall v44 fk ns nms l, lz_columns v44 fk ns nms l <> RPanic.
Proof.
  intros v44 fk ns. induction nms as [|nm nms IH]; intros l; cbn [lz_columns]; [discriminate|].
  destruct l as [|s l]; [discriminate|].
  apply rbind_np.
  - unfold lz_column. apply map_rres_np. intros i. apply lz_cell_np.
  - intros c. apply rbind_np; [apply IH|discriminate].
Qed.

Lemma lz_samples_np : forall v44 strings fk hdr bd sb ib, bounds_ok bd sb ->
  lz_samples v44 strings fk hdr sb ib <> RPanic.
Proof.
  intros v44 strings fk hdr bd sb ib Hok. unfold lz_samples.
  rewrite (lz_sample_count_ok bd sb Hok). cbn [rbind].
  destruct (lz_format_count_ok bd sb Hok) as [b [_ Hf]]. rewrite Hf. cbn [rbind]. cbv zeta.
  destruct (lz_validate _ _ ib); [|discriminate].
  destruct (too_many_samples hdr _); [discriminate|].
  destruct (lz_n_series _ _ ib) as [ss|]; [|discriminate].
  apply rbind_np; [apply lz_names_np|]. intros nms.
  apply rbind_np; [apply lz_columns_np|discriminate].
Qed.

(* (a) TOTALITY: read_record followed by try_from_variant_record never panics, whatever the header's
   sample count (and without the sample-count check) *)
Theorem lazy_read_gen_never_panics : forall v44 strings contigs ik fk hdr bs,
  lazy_read_gen v44 strings contigs ik fk hdr bs <> RPanic.
Proof.
  intros v44 strings contigs ik fk hdr bs. unfold lazy_read_gen.
  destruct (dec_frame bs) as [[[sb ib] rest]|]; [|discriminate].
  destruct (lz_index sb) as [bd| |] eqn:Ei; [|discriminate|exfalso; exact (lz_index_np sb Ei)].
  apply lz_index_ok in Ei. cbn [rbind].
  apply rbind_np; [apply (lz_chrom_np bd sb Ei)|]. intros chrom.
  apply rbind_np; [apply (lz_pos_np bd sb Ei)|]. intros pos.
  apply rbind_np; [apply (lz_ids_np bd sb Ei)|]. intros ids.
  apply rbind_np; [apply (lz_ref_np bd sb Ei)|]. intros rf.
  apply rbind_np; [apply (lz_alts_np bd sb Ei)|]. intros alts.
  apply rbind_np; [apply (lz_qual_np bd sb Ei)|]. intros qual.
  apply rbind_np; [apply (lz_filters_np bd sb Ei)|]. intros filters.
  apply rbind_np; [apply (lz_info_np bd sb Ei)|]. intros info.
  apply rbind_np; [apply (lz_samples_np _ _ _ _ bd sb ib Ei)|]. intros kr.
  rewrite (lz_u16_ok bd sb Ei) by lia. cbn [rbind].
  destruct (lz_format_count_ok bd sb Ei) as [b [_ Hf]]. rewrite Hf. cbn [rbind].
  rewrite (lz_sample_count_ok bd sb Ei). cbn [rbind]. discriminate.
Qed.

Theorem lazy_read_hdr_never_panics : forall v44 strings contigs ik fk hs bs,
  lazy_read_hdr v44 strings contigs ik fk hs bs <> RPanic.
Proof. intros. apply lazy_read_gen_never_panics. Qed.

Theorem lazy_read_never_panics : forall v44 strings contigs ik fk bs,
  lazy_read v44 strings contigs ik fk bs <> RPanic.
Proof. intros. apply lazy_read_gen_never_panics. Qed.

(* the sample-count check is the only use of the header's names: it rejects, or changes nothing *)
Lemma lz_samples_hdr : forall v44 strings fk hs sb ib,
  lz_samples v44 strings fk (Some hs) sb ib = lz_samples v44 strings fk None sb ib \/
  lz_samples v44 strings fk (Some hs) sb ib = RErr.
Proof.
  intros v44 strings fk hs sb ib. unfold lz_samples.
  destruct (lz_sample_count sb) as [nsz| |]; try (left; reflexivity). cbn [rbind].
  destruct (lz_format_count sb) as [nf| |]; try (left; reflexivity). cbn [rbind]. cbv zeta.
  destruct (lz_validate _ _ ib); [|left; reflexivity].
  cbn [too_many_samples]. destruct (hs <? nsz); [right|left]; reflexivity.
Qed.

Lemma lazy_read_hdr_or : forall v44 strings contigs ik fk hs bs,
  lazy_read_hdr v44 strings contigs ik fk hs bs = lazy_read v44 strings contigs ik fk bs \/
  lazy_read_hdr v44 strings contigs ik fk hs bs = RErr.
Proof.
  intros v44 strings contigs ik fk hs bs. unfold lazy_read_hdr, lazy_read, lazy_read_gen.
  destruct (dec_frame bs) as [[[sb ib] rest]|]; [|left; reflexivity].
  destruct (lz_index sb) as [bd| |]; try (left; reflexivity). cbn [rbind].
  destruct (lz_chrom contigs sb); try (left; reflexivity). cbn [rbind].
  destruct (lz_pos sb); try (left; reflexivity). cbn [rbind].
  destruct (lz_ids bd sb); try (left; reflexivity). cbn [rbind].
  destruct (lz_ref bd sb); try (left; reflexivity). cbn [rbind].
  destruct (lz_alts bd sb); try (left; reflexivity). cbn [rbind].
  destruct (lz_qual sb); try (left; reflexivity). cbn [rbind].
  destruct (lz_filters strings bd sb); try (left; reflexivity). cbn [rbind].
  destruct (lz_info strings ik bd sb); try (left; reflexivity). cbn [rbind].
  destruct (lz_samples_hdr v44 strings fk hs sb ib) as [E|E]; rewrite E; [left|right]; reflexivity.
Qed.

(* a record accepted under a header is the record the conversion without the check returns *)
Corollary lazy_read_hdr_enough : forall v44 strings contigs ik fk hs bs t,
  lazy_read_hdr v44 strings contigs ik fk hs bs = ROk t -> lazy_read v44 strings contigs ik fk bs = ROk t.
Proof.
  intros v44 strings contigs ik fk hs bs t H.
  destruct (lazy_read_hdr_or v44 strings contigs ik fk hs bs) as [E|E]; rewrite E in H; [exact H|discriminate].
Qed.

(* ---------------------------------------------------------------- the series of the block *)
Lemma lz_series_consumes : forall ns bs s r, lz_series ns bs = Some (s, r) -> (length r < length bs)%nat.
Proof.
  intros ns bs s r H. unfold lz_series in H.
  destruct (dec_index bs) as [[id r0]|] eqn:E0; [|discriminate].
  assert (length r0 < length bs)%nat as H0.
  { unfold dec_index in E0. destruct (read_type bs) as [[[c l] rr]|] eqn:Eb; [|discriminate].
    apply read_type_len in Eb. destruct (width_of_code c) as [w|]; [|discriminate].
    destruct (l =? 1); [|discriminate].
    destruct (take (wbytes w) rr) as [[x r']|] eqn:Et; [|discriminate].
    apply lz_take_len in Et. destruct Et as [Hrr _].
    lpeel_all E0. injection E0 as _ Hr. subst r'. rewrite Hrr, app_length in Eb. lia. }
  destruct (read_type r0) as [[[code len] r2]|] eqn:E1; [|discriminate]. apply read_type_len in E1.
  destruct (code =? 0); [discriminate|].
  destruct (value_payload (S (length r2)) code len) as [k|]; [|discriminate].
  destruct (take (ns * k) r2) as [[pay rest]|] eqn:Et; [|discriminate].
  apply lz_take_len in Et. destruct Et as [Hr2 _]. injection H as _ Hr. subst rest.
  rewrite Hr2, app_length in E1. lia.
Qed.

(* Samples::validate accepts exactly when the series iterator yields format_count series: after
   Record::samples() succeeded, Samples::series never returns an error *)
Lemma lz_validate_n_series : forall ns nf bs,
  lz_validate ns nf bs = true <-> exists ss, lz_n_series ns nf bs = Some ss /\ length ss = nf.
Proof.
  intros ns. induction nf as [|nf IH]; intros bs; cbn [lz_validate lz_n_series].
  - split; [intros _; exists []; split; reflexivity|reflexivity].
  - destruct (lz_series ns bs) as [[s r]|]; [|split; [discriminate|intros [ss [H _]]; discriminate]].
    rewrite IH. split.
    + intros [ss [H Hl]]. rewrite H. exists (s :: ss). split; [reflexivity|cbn [length]; lia].
    + intros [ss [H Hl]]. destruct (lz_n_series ns nf r) as [l|]; [|discriminate].
      injection H as Hs. subst ss. exists l. split; [reflexivity|cbn [length] in Hl; lia].
Qed.

(* ---------------------------------------------------------------- the fuels are enough *)
(* the two loops that are not structural (Filters::indices over chunks, str::chars) run on a fuel equal
   to the length of their input; every step consumes at least one byte, so the out-of-fuel branch is
   never taken: any larger fuel gives the same result *)
Lemma utf8_first_consumes : forall s c r, utf8_first s = Some (c, r) -> (length r < length s)%nat.
Proof.
  intros s c r H. destruct s as [|b t]; [discriminate|]. cbn [utf8_first] in H.
  destruct (b <? 128)%N; [injection H as _ Hr; subst r; cbn [length]; lia|].
  destruct (b <? 224)%N.
  { destruct t as [|c1 r1]; [discriminate|]. injection H as _ Hr. subst r. cbn [length]. lia. }
  destruct (b <? 240)%N.
  { destruct t as [|c1 [|c2 r2]]; try discriminate. injection H as _ Hr. subst r. cbn [length]. lia. }
  destruct t as [|c1 [|c2 [|c3 r3]]]; try discriminate. injection H as _ Hr. subst r. cbn [length]. lia.
Qed.

Lemma utf8_chars_fuel_enough : forall n s f1 f2, (length s <= n)%nat -> (n <= f1)%nat -> (n <= f2)%nat ->
  utf8_chars_fuel f1 s = utf8_chars_fuel f2 s.
Proof.
  induction n as [|n IH]; intros s f1 f2 Hn H1 H2.
  - destruct s; [|cbn [length] in Hn; lia]. destruct f1, f2; reflexivity.
  - destruct f1 as [|f1]; [lia|]. destruct f2 as [|f2]; [lia|]. cbn [utf8_chars_fuel].
    destruct (utf8_first s) as [[c r]|] eqn:E; [|reflexivity].
    apply utf8_first_consumes in E. rewrite (IH r f1 f2); [reflexivity| | |]; lia.
Qed.

Lemma lz_filter_entries_fuel : forall w n bs f1 f2, (length bs <= n)%nat -> (n <= f1)%nat -> (n <= f2)%nat ->
  lz_filter_entries w f1 bs = lz_filter_entries w f2 bs.
Proof.
  intros w. induction n as [|n IH]; intros bs f1 f2 Hn H1 H2.
  - destruct bs; [|cbn [length] in Hn; lia]. destruct f1, f2; reflexivity.
  - destruct bs as [|b bs]; [destruct f1, f2; reflexivity|].
    destruct f1 as [|f1]; [lia|]. destruct f2 as [|f2]; [lia|].
    cbn [lz_filter_entries]. destruct (take (wbytes w) (b :: bs)) as [[x r]|] eqn:E; [|reflexivity].
    apply lz_take_len in E. destruct E as [Hb Hx].
    assert (length r < length (b :: bs))%nat as Hl.
    { rewrite Hb, app_length. destruct w; cbn [wbytes] in Hx; lia. }
    destruct (dec_int w x <? 0); [reflexivity|].
    rewrite (IH r f1 f2); [reflexivity| | |]; cbn [length] in *; lia.
Qed.
