(* Proofs about NV.Bcf.Lazy, part 6: the walk over the samples block, and LAZY = EAGER for the whole
   record: whenever the eager read_record_buf (NV.Bcf.RecordTyped.dec_record_typed) accepts a record,
   read_record followed by RecordBuf::try_from_variant_record (NV.Bcf.Lazy.lazy_read) accepts it too
   and builds the same RecordBuf up to [trec_norm].  The only condition, [lazy_agree], says that the
   Characters of the record are ASCII (the eager MODEL takes a Character to be one byte; the two
   readers themselves agree on every character). *)
From Coq Require Import ZArith NArith List Bool Lia ZifyBool ZifyNat ZifyN.
From NV Require Import Bcf.Ints Bcf.IntsProofs Bcf.Typed Bcf.Strings Bcf.StringsProofs Bcf.Genotype Bcf.StringMap
  Bcf.StringMapProofs Bcf.Record Bcf.RecordTyped Bcf.NeverPanics Bcf.Lazy Bcf.LazyProofs Bcf.LazySiteProofs
  Bcf.LazyInfoProofs Bcf.LazyFmtProofs Bcf.LazyColProofs.
Import ListNotations.
Open Scope Z_scope.

(* ---------------------------------------------------------------- one series of the block *)
Lemma split_typed_series : forall s ns r0 vb r1, split_typed s ns r0 = Some (vb, r1) ->
  exists code len pay kk d, r0 = d ++ pay ++ r1 /\ vb = d ++ pay /\
    read_type r0 = Some (code, len, pay ++ r1) /\ read_type vb = Some (code, len, pay) /\
    value_payload (S (length (pay ++ r1))) code len = Some kk /\ length pay = (ns * kk)%nat.
Proof.
  intros s ns r0 vb r1 H. unfold split_typed in H.
  destruct (read_type r0) as [[[code len] r]|] eqn:Er; [|discriminate].
  destruct (read_type_local _ _ _ _ Er) as [d [Hb [Hd Hloc]]].
  destruct (s && ((code =? 0) || (len =? 0) && negb (code =? 7))); [discriminate|].
  destruct (value_payload (S (length r)) code len) as [kk|] eqn:Ev; [|discriminate].
  destruct (take (ns * kk) r) as [[x r']|] eqn:Et; [|discriminate].
  apply lz_take_len in Et. destruct Et as [Hr Hx].
  apply lz_take_len in H. destruct H as [Hr0 Hvb].
  assert (length r0 = (length d + length x + length r')%nat) as Hl by (rewrite Hb, Hr, !app_length; lia).
  assert (vb = d ++ x /\ r1 = r') as [Hv1 Hv2].
  { rewrite Hb, Hr in Hr0. rewrite app_assoc in Hr0.
    assert (length vb = length (d ++ x)) as Hlv by (rewrite app_length; lia).
    split.
    - apply (f_equal (firstn (length vb))) in Hr0. rewrite firstn_app_len in Hr0. rewrite Hlv in Hr0.
      rewrite firstn_app_len in Hr0. symmetry. exact Hr0.
    - apply (f_equal (skipn (length vb))) in Hr0. rewrite skipn_app_len in Hr0. rewrite Hlv in Hr0.
      rewrite skipn_app_len in Hr0. symmetry. exact Hr0. }
  subst vb r1. exists code, len, x, kk, d.
  split; [rewrite Hb, Hr; reflexivity|]. split; [reflexivity|].
  split; [rewrite <- Hr; first [exact Er|reflexivity]|]. split; [apply Hloc|].
  split; [rewrite <- Hr; first [exact Ev|reflexivity]|exact Hx].
Qed.

Lemma dec_index_nonempty : forall bs i r, dec_index bs = Some (i, r) -> (length r < length bs)%nat.
Proof.
  intros bs i r H. unfold dec_index in H.
  destruct (read_type bs) as [[[c l] r0]|] eqn:E; [|discriminate]. apply read_type_len in E.
  destruct (width_of_code c) as [w|]; [|discriminate].
  destruct (l =? 1); [|discriminate].
  destruct (take (wbytes w) r0) as [[x r']|] eqn:Et; [|discriminate].
  apply lz_take_len in Et. destruct Et as [Hr0 _].
  lpeel_all H. injection H as _ Hr. subst r'. rewrite Hr0, app_length in E. lia.
Qed.

(* a field of the eager walk and the series the lazy walk finds at the same place *)
Definition series_of (strings : smap) (kv : name * list N) (s : series) : Prop :=
  get_index strings (znat (length (entries strings)) (se_id s)) = Some (fst kv) /\
  read_type (snd kv) = Some (se_code s, se_len s, se_pay s) /\ byte_list (se_pay s).

Lemma series_walk : forall strings ns nf bs fmts r, byte_list bs ->
  dec_fields_k strings ns false nf bs = Some (fmts, r) ->
  Forall (fun kv => forall c l p, read_type (snd kv) = Some (c, l, p) -> c <> 0) fmts ->
  exists ss, lz_validate ns nf bs = true /\ Forall2 (series_of strings) fmts ss /\
    lz_n_series ns nf bs = Some ss.
Proof.
  intros strings ns. induction nf as [|nf IH]; intros bs fmts r Hb H Hc; cbn [dec_fields_k] in H.
  - injection H as Hf Hr. subst fmts r. exists []. split; [reflexivity|]. split; [constructor|reflexivity].
  - destruct (dec_index bs) as [[i r0]|] eqn:E0; [|discriminate].
    destruct (get_index strings (znat (length (entries strings)) i)) as [k|] eqn:E1; [|discriminate].
    match type of H with match split_typed ?s _ _ with _ => _ end = _ =>
      destruct (split_typed s ns r0) as [[vb r1]|] eqn:E2; [|discriminate] end.
    destruct (dec_fields_k strings ns false nf r1) as [[l r2]|] eqn:E3; [|discriminate].
    cbn [andb] in H. injection H as Hf Hr. subst fmts r2.
    inversion Hc as [|? ? Hc1 Hc2]. subst.
    destruct (split_typed_series _ _ _ _ _ E2) as [code [len [pay [kk [d [Hr0 [Hvb [Hrt [Hrv [Hvp Hlp]]]]]]]]]].
    pose proof (dec_index_nonempty _ _ _ E0) as Hlen0.
    assert (byte_list r0) as Hb0.
    { unfold dec_index in E0. destruct (read_type bs) as [[[c0 l0] rr]|] eqn:Eb; [|discriminate].
      destruct (read_type_local _ _ _ _ Eb) as [d0 [Hbs _]].
      destruct (width_of_code c0) as [w0|]; [|discriminate]. destruct (l0 =? 1); [|discriminate].
      destruct (take (wbytes w0) rr) as [[x0 r'0]|] eqn:Et0; [|discriminate].
      apply lz_take_len in Et0. destruct Et0 as [Hrr _].
      lpeel_all E0. injection E0 as _ Hrr0. subst r'0.
      rewrite Hbs, Hrr in Hb. apply byte_list_app in Hb. destruct Hb as [_ Hb].
      apply byte_list_app in Hb. destruct Hb as [_ Hb]. exact Hb. }
    rewrite Hr0 in Hb0. apply byte_list_app in Hb0. destruct Hb0 as [_ Hb0].
    apply byte_list_app in Hb0. destruct Hb0 as [Hbp Hb1].
    destruct (IH r1 l r Hb1 E3 Hc2) as [ss [Hv [Hf2 Hall]]].
    assert (code <> 0) as Hcode by (apply (Hc1 code len pay); exact Hrv).
    assert (lz_series ns bs = Some (mk_series i code len pay, r1)) as Hser.
    { unfold lz_series. rewrite E0, Hrt. destruct (code =? 0) eqn:Ec0; [lia|]. rewrite Hvp.
      rewrite lz_take_app by exact Hlp. reflexivity. }
    exists (mk_series i code len pay :: ss). split; [cbn [lz_validate]; rewrite Hser; exact Hv|].
    split.
    + constructor; [|exact Hf2]. unfold series_of. cbn [mk_series se_id se_code se_len se_pay fst snd].
      split; [exact E1|]. split; [exact Hrv|exact Hbp].
    + cbn [lz_n_series]. rewrite Hser. rewrite Hall. reflexivity.
Qed.

Lemma eager_column_code : forall fk ns k vb col c l p,
  eager_column fk ns (k, vb) = ROk col -> read_type vb = Some (c, l, p) -> c <> 0.
Proof.
  intros fk ns k vb col c l p H Hr Hc. subst c. unfold eager_column in H. cbn [fst snd] in H.
  destruct (fk k) as [kd|]; [|discriminate].
  destruct (name_eqb k GT).
  - unfold dec_gt_col in H. rewrite Hr in H. cbn [Z.eqb andb] in H. unfold dec_gt in H. rewrite Hr in H. discriminate.
  - destruct kd as [sc|sc|sc|sc]; cbn [dec_fmt_kind] in H.
    + unfold dec_fmt_int_gen in H. rewrite Hr in H. discriminate.
    + unfold dec_fmt_float_gen in H. rewrite Hr in H. discriminate.
    + destruct sc; [unfold dec_fmt_chars in H|unfold dec_fmt_char_arrays in H];
        unfold dec_fmt_cells in H; rewrite Hr in H; discriminate.
    + destruct sc; [unfold dec_fmt_strings in H|unfold dec_fmt_str_arrays in H];
        unfold dec_fmt_cells in H; rewrite Hr in H; discriminate.
Qed.

Lemma map_rres_each : forall {A B} (f : A -> rres B) l r, map_rres f l = ROk r ->
  Forall2 (fun x y => f x = ROk y) l r.
Proof.
  intros A B f. induction l as [|x l IH]; intros r H; cbn [map_rres] in H.
  - injection H as Hr. subst r. constructor.
  - destruct (f x) as [y| |] eqn:E; try discriminate. cbn [rbind] in H.
    destruct (map_rres f l) as [ys| |] eqn:E2; try discriminate. cbn [rbind] in H. injection H as Hr. subst r.
    constructor; [exact E|apply IH; reflexivity].
Qed.

Lemma names_agree : forall strings fmts ss, Forall2 (series_of strings) fmts ss ->
  lz_names strings ss = ROk (map fst fmts).
Proof.
  intros strings fmts ss H. induction H as [|kv s fmts ss Hs Hf IH]; [reflexivity|].
  cbn [lz_names map]. destruct Hs as [Hn _]. rewrite Hn. rewrite IH. reflexivity.
Qed.

Lemma columns_agree : forall v44 strings fk ns fmts ss cols,
  Forall2 (series_of strings) fmts ss ->
  Forall2 (fun kv col => eager_column fk ns kv = ROk col) fmts cols ->
  forallb (fmt_ascii fk ns) fmts = true ->
  exists lcols, lz_columns v44 fk ns (map fst fmts) ss = ROk lcols /\
    map (map (cell_norm v44)) lcols = map (map (cell_norm v44)) cols.
Proof.
  intros v44 strings fk ns fmts ss cols H. revert cols.
  induction H as [|kv s fmts ss Hs Hf IH]; intros cols Hc Hp.
  - inversion Hc. subst. exists []. split; reflexivity.
  - inversion Hc as [|? col ? cols' Hc1 Hc2]. subst. cbn [forallb] in Hp. apply andb_prop in Hp. destruct Hp as [Hp1 Hp2].
    destruct (IH cols' Hc2 Hp2) as [lcols [Hl Hn]].
    destruct Hs as [_ [Hrt Hbp]]. destruct kv as [k vb]. destruct s as [id code len pay].
    cbn [se_code se_len se_pay fst snd] in *.
    destruct (column_agree v44 fk ns k vb id code len pay col Hbp Hrt Hc1 Hp1) as [lcol [Hlc Hnc]].
    exists (lcol :: lcols). cbn [map lz_columns fst]. unfold mk_series in Hlc. rewrite Hlc. cbn [rbind]. rewrite Hl. cbn [rbind].
    split; [reflexivity|]. rewrite Hnc, Hn. reflexivity.
Qed.

(* ---------------------------------------------------------------- rows *)
Lemma push_col_norm : forall v44 rows vals,
  map (map (cell_norm v44)) (push_col rows vals) =
  push_col (map (map (cell_norm v44)) rows) (map (cell_norm v44) vals).
Proof.
  intros v44. induction rows as [|r rows IH]; intros vals; [reflexivity|].
  destruct vals as [|v vals]; [reflexivity|]. cbn [push_col map]. rewrite IH. rewrite map_app. reflexivity.
Qed.

Lemma rows_norm : forall v44 cols init,
  map (map (cell_norm v44)) (fold_left push_col cols init) =
  fold_left push_col (map (map (cell_norm v44)) cols) (map (map (cell_norm v44)) init).
Proof.
  intros v44. induction cols as [|c cols IH]; intros init; [reflexivity|].
  cbn [fold_left map]. rewrite IH. rewrite push_col_norm. reflexivity.
Qed.

(* ---------------------------------------------------------------- framing *)
Lemma dec_frame_bytes : forall bs sb ib rest, byte_list bs -> dec_frame bs = Some (sb, ib, rest) ->
  byte_list sb /\ byte_list ib.
Proof.
  intros bs sb ib rest Hb H. unfold dec_frame in H.
  destruct (take 4 bs) as [[a r1]|] eqn:E1; [|discriminate].
  destruct (le_val a =? 0); [discriminate|].
  destruct (take 4 r1) as [[b r2]|] eqn:E2; [|discriminate].
  destruct (take (znat (S (length r2)) (le_val a)) r2) as [[sb' r3]|] eqn:E3; [|discriminate].
  destruct (take (znat (S (length r3)) (le_val b)) r3) as [[ib' r4]|] eqn:E4; [|discriminate].
  injection H as Hs Hi Hr. subst sb' ib' r4.
  apply lz_take_len in E1. apply lz_take_len in E2. apply lz_take_len in E3. apply lz_take_len in E4.
  destruct E1 as [E1 _]. destruct E2 as [E2 _]. destruct E3 as [E3 _]. destruct E4 as [E4 _].
  rewrite E1, E2, E3, E4 in Hb.
  apply byte_list_app in Hb. destruct Hb as [_ Hb]. apply byte_list_app in Hb. destruct Hb as [_ Hb].
  apply byte_list_app in Hb. destruct Hb as [Hs Hb]. apply byte_list_app in Hb. destruct Hb as [Hi _].
  split; assumption.
Qed.

(* ---------------------------------------------------------------- the class, and the theorem *)
(* the inputs on which the lazy MODEL and the eager MODEL agree when the eager one accepts: the INFO
   Character arrays are ASCII text, and every per-sample Character (every element of a per-sample
   Character array) starts with an ASCII byte.  Nothing else is excluded: the seven classes on which the
   lazy accessors differed from read_record_buf are gone with the repairs. *)
Definition lazy_agree (strings contigs : smap) (ik : name -> option ikind) (fk : name -> option fkind)
  (hs : Z) (bs : list N) : bool :=
  match dec_record_k strings contigs hs bs with
  | Some (h, infos, fmts, _) =>
    forallb (info_ascii ik) infos && forallb (fmt_ascii fk (Z.to_nat (h_n_sample h))) fmts
  | None => true
  end.

Theorem lazy_gen_eq_eager : forall v44 strings contigs ik fk hs hdr bs t,
  hdr = None \/ hdr = Some hs ->
  byte_list bs ->
  dec_record_typed strings contigs ik fk hs bs = ROk t ->
  lazy_agree strings contigs ik fk hs bs = true ->
  exists t', lazy_read_gen v44 strings contigs ik fk hdr bs = ROk t' /\ trec_norm v44 t' = trec_norm v44 t.
Proof.
  intros v44 strings contigs ik fk hs hdr bs t Hhdr Hbytes H Hag.
  unfold dec_record_typed in H. unfold lazy_agree in Hag.
  destruct (dec_record_k strings contigs hs bs) as [[[[h infos] fmts] rest]|] eqn:Erk; [|discriminate].
  pose proof Erk as Erk'. unfold dec_record_k in Erk'.
  destruct (dec_frame bs) as [[[sb ib] rest']|] eqn:Ef; [|discriminate].
  destruct (dec_frame_bytes _ _ _ _ Hbytes Ef) as [Hbs Hbi].
  destruct (dec_head strings contigs sb) as [[h' info_bytes]|] eqn:Eh; [|discriminate].
  destruct (hs <? h_n_sample h') eqn:Ehs; [discriminate|].
  destruct (dec_fields_k strings 1 true (Z.to_nat (h_n_info h')) info_bytes) as [[infos' r1]|] eqn:Ei; [|discriminate].
  destruct (dec_fields_k strings (Z.to_nat (h_n_sample h')) false (Z.to_nat (h_n_fmt h')) ib) as [[fmts' r2]|] eqn:Efm; [|discriminate].
  injection Erk' as Hh Hi Hfm Hr. subst h' infos' fmts' rest'.
  apply andb_prop in Hag. destruct Hag as [Hip Hfp].
  cbv zeta in H.
  match type of H with rbind ?m _ = _ => destruct m as [ivs| |] eqn:Em1; try discriminate end. cbn [rbind] in H.
  match type of H with rbind ?m _ = _ => destruct m as [cols| |] eqn:Em2; try discriminate end. cbn [rbind] in H.
  injection H as Ht.
  (* site *)
  destruct (site_agree strings contigs sb h info_bytes Hbs Eh) as [bd Hsv].
  (* INFO *)
  destruct (info_fields_agree strings ik _ _ _ _ _ Ei Em1 Hip) as [Hlif [Hkeys Hdist]].
  (* samples *)
  remember (Z.to_nat (h_n_sample h)) as ns eqn:Ens.
  pose proof (map_rres_each _ _ _ Em2) as Hcols.
  assert (Forall (fun kv : name * list N => forall c l p, read_type (snd kv) = Some (c, l, p) -> c <> 0) fmts) as Hcode.
  { clear -Hcols. induction Hcols as [|kv col fmts cols Hc Hcs IH]; constructor; [|exact IH].
    intros c l p Hr. destruct kv as [k vb]. apply (eager_column_code fk ns k vb col c l p); [exact Hc|exact Hr]. }
  destruct (series_walk strings ns _ ib fmts r2 Hbi Efm Hcode) as [ss [Hval [Hf2 Hall]]].
  destruct (columns_agree v44 strings fk ns fmts ss cols Hf2 Hcols Hfp) as [lcols [Hlc Hnc]].
  (* assemble *)
  eexists. split.
  - unfold lazy_read_gen. rewrite Ef. rewrite (sv_index _ _ _ _ _ _ Hsv). cbn [rbind].
    rewrite (sv_chrom _ _ _ _ _ _ Hsv). cbn [rbind]. rewrite (sv_pos _ _ _ _ _ _ Hsv). cbn [rbind].
    rewrite (sv_ids _ _ _ _ _ _ Hsv). cbn [rbind]. rewrite (sv_ref _ _ _ _ _ _ Hsv). cbn [rbind].
    rewrite (sv_alts _ _ _ _ _ _ Hsv). cbn [rbind]. rewrite (sv_qual _ _ _ _ _ _ Hsv). cbn [rbind].
    rewrite (sv_filters _ _ _ _ _ _ Hsv). cbn [rbind].
    unfold lz_info. rewrite (sv_info _ _ _ _ _ _ Hsv). cbn [rbind]. rewrite (sv_ninfo _ _ _ _ _ _ Hsv). cbn [rbind].
    rewrite Hlif. cbn [rbind].
    unfold lz_samples. rewrite (sv_nsample _ _ _ _ _ _ Hsv). cbn [rbind]. rewrite (sv_nfmt _ _ _ _ _ _ Hsv). cbn [rbind].
    cbv zeta. rewrite <- Ens. rewrite Hval.
    assert (too_many_samples hdr (h_n_sample h) = false) as Htm by (destruct Hhdr as [E|E]; subst hdr; [reflexivity|exact Ehs]).
    rewrite Htm. rewrite Hall. rewrite (names_agree _ _ _ Hf2). cbn [rbind].
    rewrite Hlc. cbn [rbind]. reflexivity.
  - subst t. unfold trec_norm. cbn [t_head t_info t_keys t_rows fst snd].
    rewrite imap_collect_distinct by (rewrite Hkeys; exact Hdist).
    f_equal. rewrite !rows_norm. rewrite Hnc. reflexivity.
Qed.

(* under the header: the lazy path of the tree *)
Theorem lazy_hdr_eq_eager : forall v44 strings contigs ik fk hs bs t,
  byte_list bs ->
  dec_record_typed strings contigs ik fk hs bs = ROk t ->
  lazy_agree strings contigs ik fk hs bs = true ->
  exists t', lazy_read_hdr v44 strings contigs ik fk hs bs = ROk t' /\ trec_norm v44 t' = trec_norm v44 t.
Proof. intros v44 strings contigs ik fk hs bs t. apply lazy_gen_eq_eager. right. reflexivity. Qed.

(* without the sample-count check (the statement other properties import) *)
Theorem lazy_eq_eager : forall v44 strings contigs ik fk hs bs t,
  byte_list bs ->
  dec_record_typed strings contigs ik fk hs bs = ROk t ->
  lazy_agree strings contigs ik fk hs bs = true ->
  exists t', lazy_read v44 strings contigs ik fk bs = ROk t' /\ trec_norm v44 t' = trec_norm v44 t.
Proof. intros v44 strings contigs ik fk hs bs t. apply lazy_gen_eq_eager. left. reflexivity. Qed.

(* under a header without Character arrays in INFO and without Character FORMAT keys the condition
   holds by itself: the theorem is then unconditional (but for the bytes being bytes) *)
Definition no_character_keys (ik : name -> option ikind) (fk : name -> option fkind) : Prop :=
  (forall k, ik k <> Some (KChar true)) /\ (forall k b, fk k <> Some (FChar b)).

Lemma lazy_agree_without_characters : forall strings contigs ik fk hs bs,
  no_character_keys ik fk -> lazy_agree strings contigs ik fk hs bs = true.
Proof.
  intros strings contigs ik fk hs bs [Hi Hf]. unfold lazy_agree.
  destruct (dec_record_k strings contigs hs bs) as [[[[h infos] fmts] rest]|]; [|reflexivity].
  apply andb_true_intro. split; apply forallb_forall; intros kv _.
  - unfold info_ascii. destruct (ik (fst kv)) as [[a|a| |[|]|a]|] eqn:E; try reflexivity.
    exfalso. exact (Hi _ E).
  - unfold fmt_ascii. destruct (read_type (snd kv)) as [[[c l] p]|]; [|reflexivity]. cbv zeta.
    destruct (name_eqb (fst kv) GT); [reflexivity|].
    destruct (fk (fst kv)) as [[b|b|b|b]|] eqn:E; try reflexivity; exfalso; exact (Hf _ _ E).
Qed.

Corollary lazy_eq_eager_without_characters : forall v44 strings contigs ik fk hs bs t,
  no_character_keys ik fk -> byte_list bs ->
  dec_record_typed strings contigs ik fk hs bs = ROk t ->
  exists t', lazy_read_hdr v44 strings contigs ik fk hs bs = ROk t' /\ trec_norm v44 t' = trec_norm v44 t.
Proof.
  intros v44 strings contigs ik fk hs bs t Hn Hb H.
  apply (lazy_hdr_eq_eager v44 strings contigs ik fk hs bs t Hb H). apply lazy_agree_without_characters. exact Hn.
Qed.

(* totality once more, as a corollary in the shape of (b): on an accepted record of the class the lazy
   result is a value *)
Corollary lazy_accepts_what_eager_accepts : forall v44 strings contigs ik fk hs bs t,
  byte_list bs -> dec_record_typed strings contigs ik fk hs bs = ROk t ->
  lazy_agree strings contigs ik fk hs bs = true ->
  lazy_read_hdr v44 strings contigs ik fk hs bs <> RErr.
Proof.
  intros v44 strings contigs ik fk hs bs t Hb H Ha E.
  destruct (lazy_hdr_eq_eager v44 _ _ _ _ _ _ _ Hb H Ha) as [t' [Ht _]]. rewrite Ht in E. discriminate.
Qed.

(* agreement of the error cases, in the direction that holds: a record the lazy path REJECTS is rejected
   by the eager reader too (the converse is false: see the lazy_accepts theorems of LazyClasses) *)
Corollary lazy_rejects_eager_rejects : forall v44 strings contigs ik fk hs bs,
  byte_list bs -> lazy_agree strings contigs ik fk hs bs = true ->
  lazy_read_hdr v44 strings contigs ik fk hs bs = RErr ->
  dec_record_typed strings contigs ik fk hs bs = RErr.
Proof.
  intros v44 strings contigs ik fk hs bs Hb Ha E.
  destruct (dec_record_typed strings contigs ik fk hs bs) as [t| |] eqn:Ed; [|reflexivity|].
  - exfalso. exact (lazy_accepts_what_eager_accepts v44 _ _ _ _ _ _ _ Hb Ed Ha E).
  - exfalso. exact (dec_record_typed_np _ _ _ _ _ _ Ed).
Qed.
