(* Proofs about NV.Bcf.Lazy, part 7: the classes excluded by [lazy_agree] are inhabited, and on each of
   them the lazy path really differs from the eager one (witnesses by computation): every witness is a
   record the eager reader ACCEPTS, on which read_record + try_from_variant_record fails or builds a
   different RecordBuf.  Also witnesses of the other direction (lazy accepts, eager rejects). *)
From Coq Require Import ZArith NArith List Bool Lia.
From NV Require Import Base.Percent.
From NV Require Import Bcf.Ints Bcf.Typed Bcf.Strings Bcf.Genotype Bcf.StringMap Bcf.Record Bcf.RecordTyped
  Bcf.Lazy Bcf.LazySiteProofs Bcf.LazyInfoProofs Bcf.LazyFmtProofs Bcf.LazyColProofs Bcf.LazyEagerProofs.
Import ListNotations.
Open Scope Z_scope.

(* a header: one contig `c`; dictionary PASS = 0, X = 1 (INFO), GT = 2, Y = 3 (FORMAT) *)
Definition nX : name := [88%N].
Definition nY : name := [89%N].
Definition w_contigs : smap := match build_contigs [([99%N], None)] with Some m => m | None => empty_map end.
Definition w_strings : smap :=
  match build_strings [(nX, None); (GT, None); (nY, None)] with Some m => m | None => empty_map end.

Definition w_ik (kd : ikind) (k : name) : option ikind := if name_eqb k nX then Some kd else None.
Definition w_fk (kd : fkind) (k : name) : option fkind :=
  if name_eqb k GT then Some (FStr true) else if name_eqb k nY then Some kd else None.

(* chrom 0, pos 0, rlen 1, qual missing, the counts *)
Definition w_fixed (n_info n_allele n_sample n_fmt : Z) : list N :=
  enc_int W32 0 ++ enc_int W32 0 ++ enc_int W32 1 ++ enc_f32 f_missing
  ++ le_bytes 2 n_info ++ le_bytes 2 n_allele ++ le_bytes 3 n_sample ++ [Z.to_N n_fmt].
Definition w_frame (sb ib : list N) : list N :=
  le_bytes 4 (Z.of_nat (length sb)) ++ le_bytes 4 (Z.of_nat (length ib)) ++ sb ++ ib.

Definition eager (kd : ikind) (fd : fkind) (hs : Z) (bs : list N) :=
  dec_record_typed w_strings w_contigs (w_ik kd) (w_fk fd) hs bs.
Definition lazy (v44 : bool) (kd : ikind) (fd : fkind) (bs : list N) :=
  lazy_read v44 w_strings w_contigs (w_ik kd) (w_fk fd) bs.
Definition agree (kd : ikind) (fd : fkind) (hs : Z) (bs : list N) :=
  lazy_agree w_strings w_contigs (w_ik kd) (w_fk fd) hs bs.

Definition same (v44 : bool) (a b : rres trecord) : Prop :=
  match a, b with ROk x, ROk y => trec_norm v44 x = trec_norm v44 y | _, _ => False end.

Definition is_ok {A} (r : rres A) : bool := match r with ROk _ => true | _ => false end.
Definition is_err {A} (r : rres A) : bool := match r with RErr => true | _ => false end.

(* ---- lazy-empty-allele: REF is the typed string of length 0 (0x07).  eager: REF = ".", lazy: REF = "" *)
Definition w_empty_ref : list N := w_frame (w_fixed 0 1 0 0 ++ [7; 7; 0]%N) [].
Theorem lazy_empty_ref_refuted :
  is_ok (eager KFlag (FInt true) 0 w_empty_ref) = true /\ is_ok (lazy true KFlag (FInt true) w_empty_ref) = true /\
  agree KFlag (FInt true) 0 w_empty_ref = false /\
  ~ same true (lazy true KFlag (FInt true) w_empty_ref) (eager KFlag (FInt true) 0 w_empty_ref).
Proof. split; [vm_compute; reflexivity|]. split; [vm_compute; reflexivity|]. split; [vm_compute; reflexivity|]. vm_compute. discriminate. Qed.

(* ... an ALT of length 0: eager ALT = ".", lazy: Err("invalid alt value") *)
Definition w_empty_alt : list N := w_frame (w_fixed 0 2 0 0 ++ [7; 23; 65; 7; 0]%N) [].
Theorem lazy_empty_alt_refuted :
  is_ok (eager KFlag (FInt true) 0 w_empty_alt) = true /\ is_err (lazy true KFlag (FInt true) w_empty_alt) = true /\
  agree KFlag (FInt true) 0 w_empty_alt = false.
Proof. repeat split; vm_compute; reflexivity. Qed.

(* ---- lazy-samples-block-trailing-bytes: n_fmt = 0 and one byte in the samples block.  eager ignores
   it, the lazy series iterator runs until the block is empty and fails on it *)
Definition w_trailing : list N := w_frame (w_fixed 0 1 0 0 ++ [7; 23; 65; 0]%N) [0%N].
Theorem lazy_trailing_bytes_refuted :
  is_ok (eager KFlag (FInt true) 0 w_trailing) = true /\ is_err (lazy true KFlag (FInt true) w_trailing) = true /\
  agree KFlag (FInt true) 0 w_trailing = false.
Proof. repeat split; vm_compute; reflexivity. Qed.

(* ... two series in the block, n_fmt = 1: the lazy path returns BOTH columns *)
Definition w_trailing_series : list N :=
  w_frame (w_fixed 0 1 1 1 ++ [7; 23; 65; 0]%N) [17; 3; 17; 5; 17; 3; 17; 6]%N.
Theorem lazy_trailing_series_refuted :
  is_ok (eager KFlag (FInt true) 1 w_trailing_series) = true /\ is_ok (lazy true KFlag (FInt true) w_trailing_series) = true /\
  agree KFlag (FInt true) 1 w_trailing_series = false /\
  ~ same true (lazy true KFlag (FInt true) w_trailing_series) (eager KFlag (FInt true) 1 w_trailing_series).
Proof. split; [vm_compute; reflexivity|]. split; [vm_compute; reflexivity|]. split; [vm_compute; reflexivity|]. vm_compute. discriminate. Qed.

(* ---- lazy-gt-zero-length: the GT series is the Int8 descriptor of length 0 (what the writer emits when
   every genotype is empty).  eager: one missing value; lazy: an empty genotype for every sample *)
Definition w_gt_zero : list N := w_frame (w_fixed 0 1 1 1 ++ [7; 23; 65; 0]%N) [17; 2; 1]%N.
Theorem lazy_gt_zero_length_refuted :
  is_ok (eager KFlag (FInt true) 1 w_gt_zero) = true /\ is_ok (lazy true KFlag (FInt true) w_gt_zero) = true /\
  agree KFlag (FInt true) 1 w_gt_zero = false /\
  ~ same true (lazy true KFlag (FInt true) w_gt_zero) (eager KFlag (FInt true) 1 w_gt_zero).
Proof. split; [vm_compute; reflexivity|]. split; [vm_compute; reflexivity|]. split; [vm_compute; reflexivity|]. vm_compute. discriminate. Qed.

(* ---- lazy-array-percent-escape: INFO X (Number=., Type=String) = "%41,b".  eager: ["%41", "b"], lazy:
   ["A", "b"] *)
Definition w_percent : list N := w_frame (w_fixed 1 1 0 0 ++ [7; 23; 65; 0; 17; 1; 87; 37; 52; 49; 44; 98]%N) [].
Theorem lazy_percent_escape_refuted :
  is_ok (eager (KStr true) (FInt true) 0 w_percent) = true /\ is_ok (lazy true (KStr true) (FInt true) w_percent) = true /\
  agree (KStr true) (FInt true) 0 w_percent = false /\
  ~ same true (lazy true (KStr true) (FInt true) w_percent) (eager (KStr true) (FInt true) 0 w_percent).
Proof. split; [vm_compute; reflexivity|]. split; [vm_compute; reflexivity|]. split; [vm_compute; reflexivity|]. vm_compute. discriminate. Qed.

(* ---- lazy-char-array-piece-not-one-char: INFO X (Number=., Type=Character) = "ab".  eager: [a, b],
   lazy: Err("invalid character") *)
Definition w_chars : list N := w_frame (w_fixed 1 1 0 0 ++ [7; 23; 65; 0; 17; 1; 39; 97; 98]%N) [].
Theorem lazy_char_piece_refuted :
  is_ok (eager (KChar true) (FInt true) 0 w_chars) = true /\ is_err (lazy true (KChar true) (FInt true) w_chars) = true /\
  agree (KChar true) (FInt true) 0 w_chars = false.
Proof. repeat split; vm_compute; reflexivity. Qed.

(* ---- lazy-string-array-empty: FORMAT Y (Number=., Type=String), one sample whose cell is a NUL.
   eager: [""], lazy: [] *)
Definition w_empty_cell : list N := w_frame (w_fixed 0 1 1 1 ++ [7; 23; 65; 0]%N) [17; 3; 23; 0]%N.
Theorem lazy_string_array_empty_refuted :
  is_ok (eager KFlag (FStr false) 1 w_empty_cell) = true /\ is_ok (lazy true KFlag (FStr false) w_empty_cell) = true /\
  agree KFlag (FStr false) 1 w_empty_cell = false /\
  ~ same true (lazy true KFlag (FStr false) w_empty_cell) (eager KFlag (FStr false) 1 w_empty_cell).
Proof. split; [vm_compute; reflexivity|]. split; [vm_compute; reflexivity|]. split; [vm_compute; reflexivity|]. vm_compute. discriminate. Qed.

(* ---- the other direction: records the lazy path accepts and the eager reader rejects *)
(* n_sample = 2 under a header without samples (the lazy path never looks at the header's sample names) *)
Definition w_more_samples : list N := w_frame (w_fixed 0 1 2 0 ++ [7; 23; 65; 0]%N) [].
Theorem lazy_accepts_sample_count_eager_rejects :
  is_err (eager KFlag (FInt true) 0 w_more_samples) = true /\ is_ok (lazy true KFlag (FInt true) w_more_samples) = true.
Proof. split; vm_compute; reflexivity. Qed.

(* FILTER = a zero-length Int8 vector (0x01): eager InvalidIndexValue, lazy: no filter *)
Definition w_filter_len0 : list N := w_frame (w_fixed 0 1 0 0 ++ [7; 23; 65; 1]%N) [].
Theorem lazy_accepts_empty_filter_vector_eager_rejects :
  is_err (eager KFlag (FInt true) 0 w_filter_len0) = true /\ is_ok (lazy true KFlag (FInt true) w_filter_len0) = true.
Proof. split; vm_compute; reflexivity. Qed.

(* ---- non-vacuity of the agreement theorem: a record with an INFO field, GT and a FORMAT series, two
   samples, inside the class, accepted by both *)
Definition w_good : list N :=
  w_frame (w_fixed 1 2 2 2 ++ [55; 114; 115; 49; 23; 65; 23; 67; 17; 0; 17; 1; 39; 97; 37]%N)
          [17; 2; 33; 2; 5; 4; 4; 17; 3; 55; 120; 44; 46; 46; 0; 0]%N.
Theorem lazy_agree_nonvacuous :
  agree (KStr true) (FStr false) 2 w_good = true /\ is_ok (eager (KStr true) (FStr false) 2 w_good) = true /\
  same false (lazy false (KStr true) (FStr false) w_good) (eager (KStr true) (FStr false) 2 w_good) /\
  lazy false (KStr true) (FStr false) w_good <> eager (KStr true) (FStr false) 2 w_good.
Proof.
  split; [vm_compute; reflexivity|]. split; [vm_compute; reflexivity|]. split; [vm_compute; reflexivity|].
  vm_compute. discriminate.
Qed.
