(* Proofs about NV.Bcf.Lazy, part 7: the witnesses.  Before the repairs 0b0f2ab, 0ba8d0b, a1ba5e6,
   e4c926c and a82186d the lazy accessors differed from read_record_buf on seven input classes; each
   class had a witness record here (`*_refuted`) that the eager reader accepted and the lazy path
   rejected or read differently.  The same records are now read alike by both models (`*_agrees`), lie
   inside [lazy_agree], and are still cases of corpus/C10/lazy.case run against the real crates.
   Also: witnesses of the other direction (lazy accepts, eager rejects), which the repairs did not
   touch, and of the one thing [lazy_agree] still excludes (an assumption of the eager model). *)
From Coq Require Import ZArith NArith List Bool Lia.
From NV Require Import Bcf.Ints Bcf.Typed Bcf.Strings Bcf.Genotype Bcf.StringMap Bcf.Record Bcf.RecordTyped
  Bcf.Lazy Bcf.LazySiteProofs Bcf.LazyInfoProofs Bcf.LazyFmtProofs Bcf.LazyColProofs Bcf.LazyEagerProofs
  Bcf.LazyConverse.
Import ListNotations.
Open Scope Z_scope.

(* a header: one contig `c`; dictionary PASS = 0, X = 1 (INFO), GT = 2, Y = 3 (FORMAT) *)
Definition nX : name := [88%N].
Definition nY : name := [89%N].
Definition w_contigs : smap := match build_contigs [([99%N], None)] with Some m => m | None => empty_map end.
Definition w_strings : smap :=
  match build_strings [(nX, None); (GT, None); (nY, None)] with Some m => m | None => empty_map end.

Definition w_ik (kd : ikind) (k : name) : option ikind := if name_eqb k nX then Some kd else None.
Definition w_fk (kd : fkind) (k : name) : option fkind :=
  if name_eqb k GT then Some (FStr true) else if name_eqb k nY then Some kd else None.

(* chrom 0, pos 0, rlen 1, qual missing, the counts *)
Definition w_fixed (n_info n_allele n_sample n_fmt : Z) : list N :=
  enc_int W32 0 ++ enc_int W32 0 ++ enc_int W32 1 ++ enc_f32 f_missing
  ++ le_bytes 2 n_info ++ le_bytes 2 n_allele ++ le_bytes 3 n_sample ++ [Z.to_N n_fmt].
Definition w_frame (sb ib : list N) : list N :=
  le_bytes 4 (Z.of_nat (length sb)) ++ le_bytes 4 (Z.of_nat (length ib)) ++ sb ++ ib.

Definition eager (kd : ikind) (fd : fkind) (hs : Z) (bs : list N) :=
  dec_record_typed w_strings w_contigs (w_ik kd) (w_fk fd) hs bs.
Definition lazy (v44 : bool) (kd : ikind) (fd : fkind) (hs : Z) (bs : list N) :=
  lazy_read_hdr v44 w_strings w_contigs (w_ik kd) (w_fk fd) hs bs.
Definition agree (kd : ikind) (fd : fkind) (hs : Z) (bs : list N) :=
  lazy_agree w_strings w_contigs (w_ik kd) (w_fk fd) hs bs.

Definition same (v44 : bool) (a b : rres trecord) : Prop :=
  match a, b with ROk x, ROk y => trec_norm v44 x = trec_norm v44 y | _, _ => False end.

Definition is_ok {A} (r : rres A) : bool := match r with ROk _ => true | _ => false end.
Definition is_err {A} (r : rres A) : bool := match r with RErr => true | _ => false end.

(* both paths accept, inside the class, and the two RecordBufs are equal up to trec_norm *)
Definition agrees (v44 : bool) (kd : ikind) (fd : fkind) (hs : Z) (bs : list N) : Prop :=
  is_ok (eager kd fd hs bs) = true /\ agree kd fd hs bs = true /\ same v44 (lazy v44 kd fd hs bs) (eager kd fd hs bs).

Ltac agrees_by_computation := split; [vm_compute; reflexivity|split; vm_compute; reflexivity].

(* ---- was lazy-empty-allele: REF is the typed string of length 0 (0x07): REF = "." in both *)
Definition w_empty_ref : list N := w_frame (w_fixed 0 1 0 0 ++ [7; 7; 0]%N) [].
Theorem lazy_empty_ref_agrees : agrees true KFlag (FInt true) 0 w_empty_ref /\
  match lazy true KFlag (FInt true) 0 w_empty_ref with ROk t => h_ref (t_head t) = [dot] | _ => False end.
Proof. split; [agrees_by_computation|vm_compute; reflexivity]. Qed.

(* ... an ALT of length 0: ALT = "." in both *)
Definition w_empty_alt : list N := w_frame (w_fixed 0 2 0 0 ++ [7; 23; 65; 7; 0]%N) [].
Theorem lazy_empty_alt_agrees : agrees true KFlag (FInt true) 0 w_empty_alt /\
  match lazy true KFlag (FInt true) 0 w_empty_alt with ROk t => h_alts (t_head t) = [[dot]] | _ => False end.
Proof. split; [agrees_by_computation|vm_compute; reflexivity]. Qed.

(* ---- was lazy-samples-block-trailing-bytes: n_fmt = 0 and one byte in the samples block: neither
   reader looks at it *)
Definition w_trailing : list N := w_frame (w_fixed 0 1 0 0 ++ [7; 23; 65; 0]%N) [0%N].
Theorem lazy_trailing_bytes_agrees : agrees true KFlag (FInt true) 0 w_trailing.
Proof. agrees_by_computation. Qed.

(* ... two series in the block, n_fmt = 1: both readers return the first column only *)
Definition w_trailing_series : list N :=
  w_frame (w_fixed 0 1 1 1 ++ [7; 23; 65; 0]%N) [17; 3; 17; 5; 17; 3; 17; 6]%N.
Theorem lazy_trailing_series_agrees : agrees true KFlag (FInt true) 1 w_trailing_series /\
  match lazy true KFlag (FInt true) 1 w_trailing_series with
  | ROk t => t_keys t = [nY] /\ t_rows t = [[CI (Some 5)]]
  | _ => False
  end.
Proof. split; [agrees_by_computation|vm_compute; split; reflexivity]. Qed.

(* ---- was lazy-gt-zero-length: the GT series is the Int8 descriptor of length 0 (what the writer emits
   when every genotype is empty): the missing value in both *)
Definition w_gt_zero : list N := w_frame (w_fixed 0 1 1 1 ++ [7; 23; 65; 0]%N) [17; 2; 1]%N.
Theorem lazy_gt_zero_length_agrees : agrees true KFlag (FInt true) 1 w_gt_zero /\
  match lazy true KFlag (FInt true) 1 w_gt_zero with ROk t => t_rows t = [[CG None]] | _ => False end.
Proof. split; [agrees_by_computation|vm_compute; reflexivity]. Qed.

(* ... two samples, GT without values followed by Y = 5, 6 (the input of a1ba5e6, on which the eager
   reader used to return the rows [., 5] and [6]): both readers give every sample its own row *)
Definition w_gt_zero_rows : list N :=
  w_frame (w_fixed 0 1 2 2 ++ [7; 23; 65; 0]%N) [17; 2; 1; 17; 3; 17; 5; 6]%N.
Theorem lazy_gt_zero_length_rows_agree : agrees true KFlag (FInt true) 2 w_gt_zero_rows /\
  match eager KFlag (FInt true) 2 w_gt_zero_rows with
  | ROk t => t_rows t = [[CG None; CI (Some 5)]; [CG None; CI (Some 6)]]
  | _ => False
  end.
Proof. split; [agrees_by_computation|vm_compute; reflexivity]. Qed.

(* ---- was lazy-array-percent-escape: INFO X (Number=., Type=String) = "%41,b": ["%41", "b"] in both *)
Definition w_percent : list N := w_frame (w_fixed 1 1 0 0 ++ [7; 23; 65; 0; 17; 1; 87; 37; 52; 49; 44; 98]%N) [].
Theorem lazy_percent_escape_agrees : agrees true (KStr true) (FInt true) 0 w_percent /\
  match lazy true (KStr true) (FInt true) 0 w_percent with
  | ROk t => t_info t = [(nX, IS (SStrs [Some [37; 52; 49]; Some [98]]))]%N
  | _ => False
  end.
Proof. split; [agrees_by_computation|vm_compute; reflexivity]. Qed.

(* ---- was lazy-char-array-piece-not-one-char: INFO X (Number=., Type=Character) = "ab": [a, b] in both *)
Definition w_chars : list N := w_frame (w_fixed 1 1 0 0 ++ [7; 23; 65; 0; 17; 1; 39; 97; 98]%N) [].
Theorem lazy_char_piece_agrees : agrees true (KChar true) (FInt true) 0 w_chars /\
  match lazy true (KChar true) (FInt true) 0 w_chars with
  | ROk t => t_info t = [(nX, IS (SChars [Some 97; Some 98]))]%N
  | _ => False
  end.
Proof. split; [agrees_by_computation|vm_compute; reflexivity]. Qed.

(* ---- was lazy-string-array-empty: FORMAT Y (Number=., Type=String), one sample whose cell is a NUL:
   [""] in both *)
Definition w_empty_cell : list N := w_frame (w_fixed 0 1 1 1 ++ [7; 23; 65; 0]%N) [17; 3; 23; 0]%N.
Theorem lazy_string_array_empty_agrees : agrees true KFlag (FStr false) 1 w_empty_cell /\
  match lazy true KFlag (FStr false) 1 w_empty_cell with ROk t => t_rows t = [[CSV (Some [Some []])]] | _ => False end.
Proof. split; [agrees_by_computation|vm_compute; reflexivity]. Qed.

(* ... and the per-sample text "." of a String array is the missing value in both (it was the array [.]
   on the lazy side) *)
Definition w_dot_cell : list N := w_frame (w_fixed 0 1 1 1 ++ [7; 23; 65; 0]%N) [17; 3; 23; 46]%N.
Theorem lazy_string_array_dot_agrees : agrees true KFlag (FStr false) 1 w_dot_cell /\
  lazy true KFlag (FStr false) 1 w_dot_cell = eager KFlag (FStr false) 1 w_dot_cell.
Proof. split; [agrees_by_computation|vm_compute; reflexivity]. Qed.

(* ---- was lazy-info-character-multibyte: INFO X (Number=1, Type=Character) = U+00E9 (c3 a9).  The lazy
   accessor now returns the character.  The real read_record_buf returns it too (corpus/C10/lazy.case);
   the eager MODEL does not, because NV.Bcf.Strings takes a Character to be one byte -- this is the
   model's documented assumption, and the reason for [lazy_agree] *)
Definition w_multibyte : list N := w_frame (w_fixed 1 1 0 0 ++ [7; 23; 65; 0; 17; 1; 39; 195; 169]%N) [].
Theorem lazy_info_character_multibyte_read :
  match lazy true (KChar false) (FInt true) 0 w_multibyte with
  | ROk t => t_info t = [(nX, IS (SChar 233))]%N
  | _ => False
  end /\ is_err (eager (KChar false) (FInt true) 0 w_multibyte) = true.
Proof. split; vm_compute; reflexivity. Qed.

(* ---- what [lazy_agree] excludes: a Character array that is not ASCII.  INFO X (Number=.,
   Type=Character) = U+00E9: the lazy model returns the one character, the eager model its two bytes
   (the real read_record_buf returns the one character: corpus/C10/lazy.case) *)
Definition w_nonascii_chars : list N := w_frame (w_fixed 1 1 0 0 ++ [7; 23; 65; 0; 17; 1; 39; 195; 169]%N) [].
Theorem lazy_agree_excludes_nonascii_characters :
  agree (KChar true) (FInt true) 0 w_nonascii_chars = false /\
  is_ok (eager (KChar true) (FInt true) 0 w_nonascii_chars) = true /\
  match lazy true (KChar true) (FInt true) 0 w_nonascii_chars with
  | ROk t => t_info t = [(nX, IS (SChars [Some 233]))]%N
  | _ => False
  end /\
  ~ same true (lazy true (KChar true) (FInt true) 0 w_nonascii_chars) (eager (KChar true) (FInt true) 0 w_nonascii_chars).
Proof.
  split; [vm_compute; reflexivity|]. split; [vm_compute; reflexivity|]. split; [vm_compute; reflexivity|].
  vm_compute. discriminate.
Qed.

(* ---- the other direction: records the lazy path accepts and the eager reader rejects *)
(* n_sample = 2 under a header without samples was such a record until 30014e8 (the lazy path never looked
   at the header's sample names and built two empty rows).  Now BOTH readers reject it; under a header
   that names two samples both accept it; and the conversion without the check still accepts it *)
Definition w_more_samples : list N := w_frame (w_fixed 0 1 2 0 ++ [7; 23; 65; 0]%N) [].
Theorem lazy_sample_count_above_header_both_reject :
  is_err (eager KFlag (FInt true) 0 w_more_samples) = true /\ is_err (lazy true KFlag (FInt true) 0 w_more_samples) = true /\
  is_err (lazy true KFlag (FInt true) 1 w_more_samples) = true /\
  agrees true KFlag (FInt true) 2 w_more_samples /\
  is_ok (lazy_read true w_strings w_contigs (w_ik KFlag) (w_fk (FInt true)) w_more_samples) = true.
Proof.
  split; [vm_compute; reflexivity|]. split; [vm_compute; reflexivity|]. split; [vm_compute; reflexivity|].
  split; [agrees_by_computation|vm_compute; reflexivity].
Qed.

(* FILTER = a zero-length Int8 vector (0x01): eager InvalidIndexValue, lazy: no filter *)
Definition w_filter_len0 : list N := w_frame (w_fixed 0 1 0 0 ++ [7; 23; 65; 1]%N) [].
Theorem lazy_accepts_empty_filter_vector_eager_rejects :
  is_err (eager KFlag (FInt true) 0 w_filter_len0) = true /\ is_ok (lazy true KFlag (FInt true) 0 w_filter_len0) = true.
Proof. split; vm_compute; reflexivity. Qed.

(* rlen < 0: read_site rejects it, the lazy path never looks at the span *)
Definition w_neg_rlen : list N :=
  w_frame (enc_int W32 0 ++ enc_int W32 0 ++ enc_int W32 (-1) ++ enc_f32 f_missing
           ++ le_bytes 2 0 ++ le_bytes 2 1 ++ le_bytes 3 0 ++ [0%N] ++ [7; 23; 65; 0]%N) [].
Theorem lazy_accepts_negative_rlen_eager_rejects :
  is_err (eager KFlag (FInt true) 0 w_neg_rlen) = true /\ is_ok (lazy true KFlag (FInt true) 0 w_neg_rlen) = true.
Proof. split; vm_compute; reflexivity. Qed.

(* the same INFO key twice: read_info rejects the duplicate, the lazy path collects into an IndexMap
   (the later value replaces the earlier one) *)
Definition w_dup_info : list N := w_frame (w_fixed 2 1 0 0 ++ [7; 23; 65; 0; 17; 1; 0; 17; 1; 0]%N) [].
Theorem lazy_accepts_duplicate_info_key_eager_rejects :
  is_err (eager KFlag (FInt true) 0 w_dup_info) = true /\
  match lazy true KFlag (FInt true) 0 w_dup_info with ROk t => t_info t = [(nX, IFlagV)] | _ => False end.
Proof. split; vm_compute; reflexivity. Qed.

(* a GT cell whose first byte is the missing / a reserved Int8 (0x80): parse_genotype_values rejects it
   (InvalidGenotype), the lazy Genotype::iter stops at it and returns a genotype WITHOUT alleles *)
Definition w_gt_missing_byte : list N := w_frame (w_fixed 0 1 1 1 ++ [7; 23; 65; 0]%N) [17; 2; 17; 128]%N.
Theorem lazy_accepts_gt_sentinel_eager_rejects :
  is_err (eager KFlag (FInt true) 1 w_gt_missing_byte) = true /\
  match lazy true KFlag (FInt true) 1 w_gt_missing_byte with ROk t => t_rows t = [[CG (Some [])]] | _ => False end.
Proof. split; vm_compute; reflexivity. Qed.

(* n_sample = 0 and a series whose key has no FORMAT definition (X is an INFO id): read_samples looks the
   key up (MissingTypeDefinition), the lazy path only when a sample asks for a value *)
Definition w_no_samples_undefined_key : list N := w_frame (w_fixed 0 1 0 1 ++ [7; 23; 65; 0]%N) [17; 1; 17]%N.
Theorem lazy_accepts_undefined_key_without_samples_eager_rejects :
  is_err (eager KFlag (FInt true) 0 w_no_samples_undefined_key) = true /\
  match lazy true KFlag (FInt true) 0 w_no_samples_undefined_key with ROk t => t_keys t = [nX] /\ t_rows t = [] | _ => False end.
Proof. split; [vm_compute; reflexivity|vm_compute; split; reflexivity]. Qed.

(* every one of these records lies in the class [lazy_only] of LazyConverse (each in a different part of
   it), and so does the multi-byte INFO Character, which the eager MODEL rejects *)
Definition only (kd : ikind) (fd : fkind) (bs : list N) : bool :=
  lazy_only w_strings (w_ik kd) (w_fk fd) bs.
Theorem lazy_only_witnesses :
  only KFlag (FInt true) w_more_samples = false /\ only KFlag (FInt true) w_filter_len0 = true /\
  only KFlag (FInt true) w_neg_rlen = true /\ only KFlag (FInt true) w_dup_info = true /\
  only KFlag (FInt true) w_gt_missing_byte = true /\ only KFlag (FInt true) w_no_samples_undefined_key = true /\
  only (KChar false) (FInt true) w_multibyte = true.
Proof. repeat split; vm_compute; reflexivity. Qed.

(* ---- non-vacuity of the agreement theorem: a record with an INFO field, GT and a FORMAT series, two
   samples, inside the class, accepted by both; the normal form is needed *)
Definition w_good : list N :=
  w_frame (w_fixed 1 2 2 2 ++ [55; 114; 115; 49; 23; 65; 23; 67; 17; 0; 17; 1; 39; 97; 37]%N)
          [17; 2; 33; 2; 5; 4; 4; 17; 3; 55; 120; 44; 46; 46; 0; 0]%N.
Theorem lazy_agree_nonvacuous :
  agree (KStr true) (FStr false) 2 w_good = true /\ is_ok (eager (KStr true) (FStr false) 2 w_good) = true /\
  same false (lazy false (KStr true) (FStr false) 2 w_good) (eager (KStr true) (FStr false) 2 w_good) /\
  lazy false (KStr true) (FStr false) 2 w_good <> eager (KStr true) (FStr false) 2 w_good.
Proof.
  split; [vm_compute; reflexivity|]. split; [vm_compute; reflexivity|]. split; [vm_compute; reflexivity|].
  vm_compute. discriminate.
Qed.

(* ... and the premises of the converse are satisfiable: the same record is outside [lazy_only] *)
Theorem lazy_converse_nonvacuous :
  only (KStr true) (FStr false) w_good = false /\ agree (KStr true) (FStr false) 2 w_good = true /\
  is_ok (lazy false (KStr true) (FStr false) 2 w_good) = true.
Proof. repeat split; vm_compute; reflexivity. Qed.
