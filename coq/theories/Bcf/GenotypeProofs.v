(* Proofs about NV.Bcf.Genotype (the repaired writer: padding after the alleles, phase bit kept on
   missing alleles, checked allele arithmetic). *)
From Coq Require Import ZArith NArith List Bool Lia ZifyBool ZifyNat ZifyN.
From NV Require Import Bcf.Ints Bcf.IntsProofs Bcf.Typed Bcf.TypedProofs Bcf.Genotype.
Import ListNotations.
Open Scope Z_scope.
Ltac Zify.zify_post_hook ::= Z.div_mod_to_equations.

(* alleles the Int8 genotype encoding can hold: index 0..62 or missing, either phasing *)
Definition allele_valid (a : allele) : Prop :=
  match fst a with Some p => 0 <= p <= 62 | None => True end.

Definition code (a : allele) : Z :=
  match fst a with Some p => (p + 1) * 2 | None => 0 end + (if snd a then 1 else 0).

Lemma enc_allele_valid : forall a, allele_valid a -> enc_allele a = Ok (code a) /\ 0 <= code a <= 127.
Proof.
  intros [[p|] ph] H; unfold allele_valid, enc_allele, code in *; cbn [fst snd] in *.
  - destruct (127 <? p) eqn:E1; [lia|]. destruct (63 <=? p) eqn:E2; [lia|].
    split; [reflexivity|destruct ph; lia].
  - split; [reflexivity|destruct ph; lia].
Qed.

Lemma map_res_ok : forall {A B} (f : A -> res B) (g : A -> B) l,
  (forall x, In x l -> f x = Ok (g x)) -> map_res f l = Ok (map g l).
Proof.
  induction l as [|x l IH]; intros H; [reflexivity|].
  cbn [map_res map]. rewrite (H x (or_introl eq_refl)). cbn [bind].
  rewrite IH by (intros y Hy; apply H; right; exact Hy). reflexivity.
Qed.

(* one allele read back by parse_genotype_values *)
Lemma parse_code : forall a r, allele_valid a ->
  parse_gt (code a :: r) = rbind (parse_gt r) (fun l => ROk (a :: l)).
Proof.
  intros a r H. destruct (enc_allele_valid a H) as [_ R].
  cbn [parse_gt]. rewrite classify_value by (unfold min_value; cbn; lia).
  destruct a as [[p|] ph]; unfold allele_valid, code in *; cbn [fst snd] in *.
  - destruct ph.
    + replace (((p + 1) * 2 + 1) / 2 - 1) with p by lia.
      replace (((p + 1) * 2 + 1) mod 2) with 1 by lia.
      destruct (p <? -1) eqn:E1; [lia|]. destruct (p =? -1) eqn:E2; [lia|]. reflexivity.
    + replace (((p + 1) * 2 + 0) / 2 - 1) with p by lia.
      replace (((p + 1) * 2 + 0) mod 2) with 0 by lia.
      destruct (p <? -1) eqn:E1; [lia|]. destruct (p =? -1) eqn:E2; [lia|]. reflexivity.
  - destruct ph; reflexivity.
Qed.

Lemma parse_codes : forall g tail, (forall a, In a g -> allele_valid a) ->
  parse_gt (map code g ++ tail) = rbind (parse_gt tail) (fun l => ROk (g ++ l)).
Proof.
  induction g as [|a g IH]; intros tail H.
  - cbn [map app]. destruct (parse_gt tail); reflexivity.
  - cbn [map app]. rewrite parse_code by (apply H; left; reflexivity).
    rewrite IH by (intros b Hb; apply H; right; exact Hb).
    destruct (parse_gt tail); reflexivity.
Qed.

Lemma parse_pad : forall k, parse_gt (repeat (-127) k) = ROk [].
Proof. intros [|k]; reflexivity. Qed.

(* the bytes of one sample *)
Definition sbytes (m : nat) (g : genotype) : list N :=
  map Z.to_N (map code g) ++ repeat 129%N (m - length g).

Lemma gt_sample_bytes_ok : forall m g, (forall a, In a g -> allele_valid a) ->
  gt_sample_bytes m (map code g) = Ok (sbytes m g).
Proof.
  intros m g H. unfold gt_sample_bytes, sbytes.
  rewrite (map_res_ok _ Z.to_N).
  - cbn [bind]. rewrite map_length. reflexivity.
  - intros x Hx. apply in_map_iff in Hx. destruct Hx as [a [E Ha]]. subst x.
    destruct (enc_allele_valid a (H a Ha)) as [_ R].
    destruct (code a <? 0) eqn:E; [lia|reflexivity].
Qed.

Lemma chunks1 : forall (bytes rest : list N),
  chunks (length bytes) 1 (bytes ++ rest) = Some (map (fun b => [b]) bytes, rest).
Proof.
  induction bytes as [|b bytes IH]; intros rest; [reflexivity|].
  cbn [length chunks app]. change (b :: bytes ++ rest) with ([b] ++ (bytes ++ rest)).
  rewrite take_app by reflexivity. rewrite IH. reflexivity.
Qed.

Lemma dec_singletons : forall raw k, (forall v, In v raw -> 0 <= v <= 127) ->
  map (dec_int W8) (map (fun b => [b]) (map Z.to_N raw ++ repeat 129%N k)) = raw ++ repeat (-127) k.
Proof.
  intros raw k H. rewrite map_app, map_app. f_equal.
  - induction raw as [|v raw IH]; [reflexivity|].
    cbn [map]. rewrite IH by (intros x Hx; apply H; right; exact Hx). f_equal.
    specialize (H v (or_introl eq_refl)). unfold dec_int, to_signed. cbn [le_val wmax wmod].
    rewrite Z2N.id by lia. destruct (v + 256 * 0 <=? 127) eqn:E; lia.
  - induction k as [|k IH]; [reflexivity|]. cbn [repeat map]. rewrite IH. reflexivity.
Qed.

Lemma sbytes_length : forall m g, (length g <= m)%nat -> length (sbytes m g) = m.
Proof. intros m g H. unfold sbytes. rewrite app_length, !map_length, repeat_length. lia. Qed.

(* the whole series for ANY common length m that is at least every ploidy *)
Lemma gt_series_roundtrip : forall m gs rest,
  (forall g a, In g gs -> In a g -> allele_valid a) ->
  (forall g, In g gs -> (length g <= m)%nat) ->
  dec_gt_samples (length gs) m (concat (map (sbytes m) gs) ++ rest) = ROk (map Some gs).
Proof.
  induction gs as [|g gs IH]; intros rest Hv Hl; [reflexivity|].
  cbn [length dec_gt_samples map concat]. rewrite <- app_assoc.
  pose proof (sbytes_length m g (Hl g (or_introl eq_refl))) as Len.
  rewrite <- Len at 1. rewrite chunks1. unfold sbytes at 1.
  rewrite dec_singletons.
  - rewrite parse_codes by (intros a Ha; apply (Hv g a (or_introl eq_refl) Ha)).
    rewrite parse_pad. cbn [rbind]. rewrite app_nil_r.
    rewrite IH; [reflexivity| |].
    + intros g' a Hg Ha. apply (Hv g' a (or_intror Hg) Ha).
    + intros g' Hg. apply Hl. right. exact Hg.
  - intros v Hin. apply in_map_iff in Hin. destruct Hin as [a [E Ha]]. subst v.
    apply (enc_allele_valid a (Hv g a (or_introl eq_refl) Ha)).
Qed.

Lemma fold_max_length_ge : forall {A} (ls : list (list A)) m0,
  (m0 <= fold_left (fun m r => Nat.max m (length r)) ls m0)%nat /\
  (forall l, In l ls -> (length l <= fold_left (fun m r => Nat.max m (length r)) ls m0)%nat).
Proof.
  intros A. induction ls as [|l ls IH]; intros m0; cbn [fold_left]; [split; [lia|intros l []]|].
  destruct (IH (Nat.max m0 (length l))) as [P Q]. split; [lia|].
  intros l' [E|Hl']; [subst l'; lia|apply Q; exact Hl'].
Qed.

(* bcf_genotype_roundtrip: any number of samples, any mix of ploidies, missing alleles with either
   phasing, allele indices 0..62, through the writer's own length computation *)
Lemma genotype_roundtrip : forall gs,
  (forall g a, In g gs -> In a g -> allele_valid a) ->
  (1 <= gt_max_len (map (map code) gs))%nat ->
  Z.of_nat (gt_max_len (map (map code) gs)) <= 2147483647 ->
  exists bs, enc_gt gs = Ok bs /\ dec_gt (length gs) bs = ROk (map Some gs).
Proof.
  intros gs Hv Hm1 Hm2. unfold enc_gt.
  rewrite (map_res_ok _ (map code)).
  2:{ intros g Hg. apply map_res_ok. intros a Ha. apply (enc_allele_valid a (Hv g a Hg Ha)). }
  cbn [bind]. set (m := gt_max_len (map (map code) gs)) in *.
  destruct (descriptor_roundtrip 1 (Z.of_nat m) (concat (map (sbytes m) gs))) as [d [Ed Rd]];
    [reflexivity|lia|].
  rewrite Ed. cbn [bind].
  rewrite (map_res_ok _ (fun raw => map Z.to_N raw ++ repeat 129%N (m - length raw))).
  2:{ intros raw Hr. apply in_map_iff in Hr. destruct Hr as [g [E Hg]]. subst raw.
      rewrite gt_sample_bytes_ok by (intros a Ha; apply (Hv g a Hg Ha)).
      unfold sbytes. rewrite map_length. reflexivity. }
  cbn [bind]. eexists. split; [reflexivity|].
  rewrite map_map.
  assert (map (fun x => map Z.to_N (map code x) ++ repeat 129%N (m - length (map code x))) gs
          = map (sbytes m) gs) as Eq
    by (apply map_ext; intros g; unfold sbytes; rewrite map_length; reflexivity).
  rewrite Eq. unfold dec_gt. rewrite Rd. cbn [Z.eqb Pos.eqb].
  assert (Z.of_nat m =? 0 = false) as E0 by lia. rewrite E0.
  assert (forall g, In g gs -> (length g <= m)%nat) as Hall.
  { intros g Hg. subst m. unfold gt_max_len.
    pose proof (proj2 (fold_max_length_ge (map (map code) gs) 0%nat) (map code g)) as Q.
    rewrite map_length in Q. apply Q. apply in_map. exact Hg. }
  assert (forall l, (forall g, In g l -> (length g <= m)%nat) ->
            length (concat (map (sbytes m) l)) = (length l * m)%nat) as Hlen.
  { induction l as [|g l IHl]; intros Hl; [reflexivity|]. cbn [map concat length].
    rewrite app_length. rewrite sbytes_length by (apply Hl; left; reflexivity).
    rewrite IHl by (intros g' Hg'; apply Hl; right; exact Hg'). lia. }
  rewrite znat_id.
  2:{ rewrite (Hlen gs Hall). destruct gs as [|g0 gs']; [subst m; cbn in Hm1; lia|]. cbn [length]. nia. }
  rewrite <- (app_nil_r (concat _)). apply gt_series_roundtrip; [exact Hv|exact Hall].
Qed.

(* allele indices that do not fit are errors, never panics or other values *)
Lemma genotype_allele_too_large_is_error : forall p ph, 63 <= p ->
  enc_gt [[(Some p, ph)]] = ErrInput \/ enc_gt [[(Some p, ph)]] = ErrData.
Proof.
  intros p ph H. unfold enc_gt. cbn [map_res]. unfold enc_allele. cbn [fst snd].
  destruct (127 <? p) eqn:E1; [right; reflexivity|].
  destruct (63 <=? p) eqn:E2; [left; reflexivity|lia].
Qed.

(* the cases that failed before the repairs *)
Example genotype_examples :
  (exists bs, enc_gt [[(Some 0, false); (Some 1, false)]; [(Some 0, false); (Some 1, false); (Some 2, false)]] = Ok bs /\
     dec_gt 2 bs = ROk [Some [(Some 0, false); (Some 1, false)]; Some [(Some 0, false); (Some 1, false); (Some 2, false)]]) /\
  (exists bs, enc_gt [[(None, true); (None, true)]] = Ok bs /\
     dec_gt 1 bs = ROk [Some [(None, true); (None, true)]]) /\
  enc_gt [[(Some 127, false)]] = ErrInput.
Proof.
  split; [|split].
  - eexists. split; [vm_compute; reflexivity|]. vm_compute. reflexivity.
  - eexists. split; [vm_compute; reflexivity|]. vm_compute. reflexivity.
  - vm_compute. reflexivity.
Qed.
