(* Proofs about NV.Bcf.Genotype. *)
From Coq Require Import ZArith NArith List Bool Lia ZifyBool ZifyNat ZifyN.
From NV Require Import Bcf.Ints Bcf.IntsProofs Bcf.Typed Bcf.TypedProofs Bcf.Genotype.
Import ListNotations.
Open Scope Z_scope.

(* every representable allele (index 0..62, either phasing; missing unphased) survives encode /
   parse: exhaustive over the finite domain *)
Definition allele_ok (a : allele) : bool :=
  match enc_allele a with
  | Ok v =>
    (0 <=? v) && (v <=? 127) &&
    match parse_gt [v] with
    | ROk [(p, ph)] =>
      match p, fst a with
      | Some x, Some y => (x =? y) && Bool.eqb ph (snd a)
      | None, None => Bool.eqb ph (snd a)
      | _, _ => false
      end
    | _ => false
    end
  | _ => false
  end.

Definition all_alleles : list allele :=
  (None, false) :: flat_map (fun p => [(Some p, false); (Some p, true)]) (zrange 0 63).

Lemma allele_roundtrip_exhaustive : forallb allele_ok all_alleles = true.
Proof. vm_compute. reflexivity. Qed.

Lemma allele_roundtrip : forall p ph, 0 <= p <= 62 -> allele_ok (Some p, ph) = true.
Proof.
  intros p ph H. pose proof allele_roundtrip_exhaustive as E. rewrite forallb_forall in E.
  apply E. right. apply in_flat_map. exists p. split; [apply in_zrange; lia|].
  destruct ph; cbn; tauto.
Qed.

(* what the series-level statement would be (NOT proved in general; the model refutes it for
   mixed ploidy and for phased missing alleles, see below) *)
Definition genotype_roundtrip_full_statement : Prop :=
  forall gs : list genotype,
    (forall g a, In g gs -> In a g -> match fst a with Some p => 0 <= p <= 62 | None => True end) ->
    gs <> [] -> (forall g, In g gs -> g <> []) ->
    exists bs, enc_gt gs = Ok bs /\ dec_gt (length gs) bs = ROk (map Some gs).

(* mixed ploidy 2 / 3: the padding is emitted once per allele *)
Lemma genotype_mixed_ploidy_refuted :
  exists gs bs, enc_gt gs = Ok bs /\ dec_gt (length gs) bs <> ROk (map Some gs).
Proof.
  exists [[(Some 0, false); (Some 1, false)]; [(Some 0, false); (Some 1, false); (Some 2, false)]].
  eexists. split; [vm_compute; reflexivity|]. vm_compute. discriminate.
Qed.

(* `.|.`: the phase of a missing allele is dropped *)
Lemma genotype_missing_phase_refuted :
  exists gs bs, enc_gt gs = Ok bs /\ dec_gt (length gs) bs <> ROk (map Some gs).
Proof.
  exists [[(None, true); (None, true)]].
  eexists. split; [vm_compute; reflexivity|]. vm_compute. discriminate.
Qed.

Lemma genotype_refutes_full_statement : ~ genotype_roundtrip_full_statement.
Proof.
  intros F.
  destruct (F [[(Some 0, false); (Some 1, false)]; [(Some 0, false); (Some 1, false); (Some 2, false)]])
    as [bs [E D]].
  - intros g a Hg Ha. cbn in Hg. destruct Hg as [Eg|[Eg|[]]]; subst g; cbn in Ha;
      repeat (destruct Ha as [Ea|Ha]; [subst a; cbn; lia|]); destruct Ha.
  - discriminate.
  - intros g Hg. cbn in Hg. destruct Hg as [Eg|[Eg|[]]]; subst g; discriminate.
  - vm_compute in E. inversion E. subst bs. vm_compute in D. discriminate.
Qed.

(* allele index 127: overflow panic; 63..126 and > 127: errors *)
Lemma genotype_allele_127_panics : enc_gt [[(Some 127, false)]] = Panic.
Proof. vm_compute. reflexivity. Qed.

Lemma genotype_allele_63_is_error : enc_gt [[(Some 63, false)]] = ErrInput.
Proof. vm_compute. reflexivity. Qed.

(* concrete equal-ploidy and haploid/diploid series through the whole encoder / decoder *)
Example genotype_examples :
  (exists bs, enc_gt [[(Some 0, false); (Some 1, true)]; [(None, false); (Some 62, false)]] = Ok bs /\
     dec_gt 2 bs = ROk [Some [(Some 0, false); (Some 1, true)]; Some [(None, false); (Some 62, false)]]) /\
  (exists bs, enc_gt [[(Some 1, true)]; [(Some 0, false); (Some 1, false); (Some 2, true)]] = Ok bs /\
     dec_gt 2 bs = ROk [Some [(Some 1, true)]; Some [(Some 0, false); (Some 1, false); (Some 2, true)]]).
Proof. split; eexists; (split; [vm_compute; reflexivity|]); vm_compute; reflexivity. Qed.
