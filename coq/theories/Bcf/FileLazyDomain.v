(* C10 -- the premise file_agree of file_roundtrip_lazy discharged for WRITTEN streams, on the
   sub-domain of headers without Character arrays in INFO and without Character FORMAT keys
   (hdr_no_chars: a decidable predicate of the HEADER alone, looking at the effective definitions
   header.infos().get(key) or else definition(file_format, key) that the readers consult).
   Under such a header every record of every stream is in lazy_agree, so the lazy file read follows
   the eager one on ANY byte stream; for a stream written by bcf_write_file the header read back is
   the header written (prefix_roundtrip), hence the class is a property of the writer's input. *)
From Coq Require Import ZArith NArith List Bool Lia.
From NV Require Import Text.TextBase Vcf.Values Vcf.Line Vcf.Header Vcf.HeaderProofs Vcf.HdrFrameProofs Vcf.File.
From NV Require Import Bcf.Ints Bcf.Typed Bcf.Strings Bcf.Genotype Bcf.StringMap Bcf.Record
  Bcf.RecordTyped Bcf.Bridge Bcf.Lazy Bcf.LazySiteProofs Bcf.LazyEagerProofs Bcf.File Bcf.FileProofs.
Import ListNotations.

(* one effective definition: not an INFO Character array / not a FORMAT Character key *)
Definition info_def_plain (e : list N * (vnumber * vtype)) : bool :=
  match ikind_of (snd e) with Some (KChar true) => false | _ => true end.
Definition fmt_def_plain (e : list N * (vnumber * vtype)) : bool :=
  match fkind_of (snd e) with Some (FChar _) => false | _ => true end.

Definition hc_no_chars (hc : hctx) : bool :=
  forallb info_def_plain (h_infos hc) && forallb fmt_def_plain (h_formats hc).

Definition hdr_no_chars (h : vheader) : bool := hc_no_chars (hctx_of_header h).

Lemma assoc_in : forall {A} k (l : list (list N * A)) d,
  Line.assoc k l = Some d -> exists k', In (k', d) l.
Proof.
  intros A k. induction l as [|[k' a] t IH]; intros d H; [discriminate H|].
  cbn [Line.assoc] in H. destruct (bytes_eqb k k').
  - inversion H; subst. exists k'. left. reflexivity.
  - destruct (IH d H) as [k'' Hin]. exists k''. right. exact Hin.
Qed.

Lemma hc_no_chars_sound : forall hc, hc_no_chars hc = true -> no_character_keys (ik_of hc) (fk_of hc).
Proof.
  intros hc H. unfold hc_no_chars in H. apply andb_prop in H. destruct H as [Hi Hf].
  rewrite forallb_forall in Hi, Hf. split.
  - intros k E. unfold ik_of in E. destruct (Line.assoc k (h_infos hc)) as [d|] eqn:Ea; [|discriminate E].
    destruct (assoc_in _ _ _ Ea) as [k' Hin]. specialize (Hi _ Hin).
    unfold info_def_plain in Hi. cbn [snd] in Hi. rewrite E in Hi. discriminate Hi.
  - intros k b E. unfold fk_of in E. destruct (Line.assoc k (h_formats hc)) as [d|] eqn:Ea; [|discriminate E].
    destruct (assoc_in _ _ _ Ea) as [k' Hin]. specialize (Hf _ Hin).
    unfold fmt_def_plain in Hf. cbn [snd] in Hf. rewrite E in Hf. discriminate Hf.
Qed.

(* every record boundary of every stream is in the class *)
Lemma agree_all_no_chars : forall fuel s c hc bs, hc_no_chars hc = true -> agree_all fuel s c hc bs = true.
Proof.
  induction fuel as [|f IH]; intros s c hc bs H; [reflexivity|].
  cbn [agree_all]. destruct (at_end bs); [reflexivity|].
  destruct (dec_frame bs) as [[[sb ib] rest]|]; [|reflexivity].
  rewrite (lazy_agree_without_characters s c _ _ _ bs (hc_no_chars_sound hc H)).
  rewrite (IH s c hc rest H). reflexivity.
Qed.

(* ANY stream whose header block (if it is one) has no Character keys *)
Lemma file_agree_no_chars : forall bs,
  (forall h s c rest, read_prefix bs = FOk (h, s, c, rest) -> hdr_no_chars h = true) ->
  file_agree bs = true.
Proof.
  intros bs H. unfold file_agree.
  destruct (read_prefix bs) as [[[[h s] c] rest]| |] eqn:Ep; try reflexivity.
  apply agree_all_no_chars. exact (H h s c rest eq_refl).
Qed.

(* lazy file = eager file on any byte stream under such a header: no premise on the records *)
Theorem file_lazy_of_eager_no_chars : forall bs hd backs,
  byte_list bs -> hdr_no_chars hd = true ->
  bcf_read_file bs = FOk (hd, (backs, EndEof)) ->
  exists lbacks, bcf_read_file_lazy bs = FOk (hd, (lbacks, EndEof)) /\
                 Forall2 (same_content (h_v44 (hctx_of_header hd))) lbacks backs.
Proof.
  intros bs hd backs Hb Hn He. apply file_lazy_of_eager; [exact Hb| |exact He].
  apply file_agree_no_chars. intros h s c rest Ep.
  unfold bcf_read_file in He. rewrite Ep in He.
  assert (Hh : h = hd) by congruence. subst h. exact Hn.
Qed.

(* the WRITTEN stream: file_agree follows from the writer's input (the header) *)
Theorem file_agree_written : forall hd rs bs,
  header_ok hd -> hdr_defs_ok hd = true -> hdr_vals_framed hd ->
  hdr_no_chars hd = true ->
  bcf_write_file hd rs = Ok bs ->
  file_agree bs = true.
Proof.
  intros hd rs bs Hok Hd Hfr Hn Hw. unfold bcf_write_file in Hw.
  destruct (write_prefix hd) as [p|] eqn:Ep; [|discriminate Hw].
  destruct (maps_of_header hd) as [[s c]|] eqn:Em; [|discriminate Hw].
  destruct (write_records s c (hctx_of_header hd) rs) as [body| | |] eqn:Eb; try discriminate Hw.
  cbn [bind] in Hw. inversion Hw; subst bs. clear Hw.
  destruct (prefix_roundtrip hd p body Hok Hd Hfr Ep) as (s' & c' & _ & Hp).
  apply file_agree_no_chars. intros h s0 c0 rest E. rewrite Hp in E.
  assert (Hh : h = hd) by congruence. subst h. exact Hn.
Qed.

(* the file round trip through the lazy path from the EAGER domain, with the class premise gone *)
Theorem file_roundtrip_lazy_no_chars : forall hd rs backs bs,
  header_ok hd -> hdr_defs_ok hd = true -> hdr_vals_framed hd ->
  hdr_no_chars hd = true ->
  (forall s c, maps_of_header hd = Some (s, c) -> Forall2 (file_rec_dom s c (hctx_of_header hd)) rs backs) ->
  bcf_write_file hd rs = Ok bs ->
  byte_list bs ->
  exists lbacks, bcf_read_file_lazy bs = FOk (hd, (lbacks, EndEof)) /\
                 Forall2 (same_content (h_v44 (hctx_of_header hd))) lbacks backs.
Proof.
  intros hd rs backs bs Hok Hd Hfr Hn Hrs Hw Hb.
  apply (file_roundtrip_lazy hd rs backs bs Hok Hd Hfr Hrs Hw Hb).
  exact (file_agree_written hd rs bs Hok Hd Hfr Hn Hw).
Qed.

(* the decidable byte premise, for the correspondence check *)
Definition byte_listb (l : list N) : bool := forallb (fun b => (b <? 256)%N) l.
Lemma byte_listb_ok : forall l, byte_listb l = true -> byte_list l.
Proof.
  intros l H. unfold byte_listb in H. rewrite forallb_forall in H. unfold byte_list.
  apply Forall_forall. intros b Hin. specialize (H b Hin). apply N.ltb_lt in H. exact H.
Qed.

(* what the driver reports for a stream: (header has no Character keys, stream is bytes, file_agree) *)
Definition file_class (bs : list N) : option bool * bool * bool :=
  (match read_prefix bs with FOk (h, _, _, _) => Some (hdr_no_chars h) | _ => None end,
   byte_listb bs, file_agree bs).

Lemma file_class_sound : forall bs nb a,
  file_class bs = (Some true, nb, a) -> a = true.
Proof.
  intros bs nb a H. unfold file_class in H.
  destruct (read_prefix bs) as [[[[h s] c] rest]| |] eqn:Ep; try discriminate H.
  assert (Hn : hdr_no_chars h = true) by congruence.
  assert (Ha : file_agree bs = a) by congruence. subst a.
  apply file_agree_no_chars. intros h' s' c' rest' E. rewrite Ep in E.
  assert (Hh : h' = h) by congruence. subst h'. exact Hn.
Qed.
