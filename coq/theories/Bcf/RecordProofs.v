(* Proofs about NV.Bcf.Record: the l_shared/l_indiv split, string-map indices (single and
   vector), typed strings with a rest, alleles, and the site head (fixed fields, ids, alleles,
   FILTER) read back as written. *)
From Coq Require Import ZArith NArith List Bool Lia ZifyBool ZifyNat ZifyN.
From NV Require Import Bcf.Ints Bcf.IntsProofs Bcf.Typed Bcf.TypedProofs Bcf.VectorsProofs
  Bcf.Strings Bcf.StringsProofs Bcf.StringMap Bcf.StringMapProofs Bcf.Record.
Import ListNotations.
Open Scope Z_scope.

(* ---------------------------------------------------------------- little-endian fields *)
Lemma le_val_le4 : forall n, 0 <= n <= 4294967295 -> le_val (le_bytes 4 n) = n.
Proof.
  intros n H. rewrite le_val_le_bytes. change (256 ^ Z.of_nat 4) with 4294967296.
  apply Z.mod_small. lia.
Qed.

Lemma le_val_le2 : forall n, 0 <= n <= 65535 -> le_val (le_bytes 2 n) = n.
Proof.
  intros n H. rewrite le_val_le_bytes. change (256 ^ Z.of_nat 2) with 65536.
  apply Z.mod_small. lia.
Qed.

(* bcf_record_frame_roundtrip: l_shared, l_indiv, then the two blocks *)
Lemma frame_roundtrip : forall sb ib rest,
  sb <> [] -> Z.of_nat (length sb) <= 4294967295 -> Z.of_nat (length ib) <= 4294967295 ->
  dec_frame (le_bytes 4 (Z.of_nat (length sb)) ++ le_bytes 4 (Z.of_nat (length ib)) ++ sb ++ ib ++ rest)
  = Some (sb, ib, rest).
Proof.
  intros sb ib rest Hne H1 H2. unfold dec_frame.
  rewrite take_app by apply le_bytes_length. rewrite le_val_le4 by lia.
  assert (Z.of_nat (length sb) =? 0 = false) as E0 by (destruct sb; [contradiction|cbn [length]; lia]).
  rewrite E0. rewrite take_app by apply le_bytes_length. rewrite le_val_le4 by lia.
  rewrite znat_app by lia. rewrite take_app by reflexivity.
  rewrite znat_app by lia. rewrite take_app by reflexivity. reflexivity.
Qed.

(* ---------------------------------------------------------------- one string-map index *)
Lemma index_width : forall i, 0 <= i <= 2147483647 ->
  exists w, enc_index i = Ok (desc_byte (wcode w) 1 :: enc_int w i) /\ min_value w <= i <= wmax w.
Proof.
  intros i H. unfold enc_index.
  destruct (i <=? 127) eqn:E1; [exists W8; split; [reflexivity|unfold min_value; cbn; lia]|].
  destruct (i <=? 32767) eqn:E2; [exists W16; split; [reflexivity|unfold min_value; cbn; lia]|].
  destruct (i <=? 2147483647) eqn:E3; [exists W32; split; [reflexivity|unfold min_value; cbn; lia]|lia].
Qed.

Lemma read_type_one : forall w x rest,
  read_type (desc_byte (wcode w) 1 :: x ++ rest) = Some (wcode w, 1, x ++ rest).
Proof.
  intros w x rest. rewrite read_type_cons. apply dec_type_simple; [apply wcode_valid|lia].
Qed.

Lemma index_roundtrip : forall i rest, 0 <= i <= 2147483647 ->
  exists bs, enc_index i = Ok bs /\ dec_index (bs ++ rest) = Some (i, rest).
Proof.
  intros i rest H. destruct (index_width i H) as [w [E R]]. eexists. split; [exact E|].
  unfold dec_index. cbn [app]. rewrite read_type_one. rewrite width_of_wcode.
  cbn [Z.eqb Pos.eqb]. rewrite take_app by apply enc_int_length.
  rewrite dec_enc_int by (unfold min_value in R; lia). rewrite classify_value by lia.
  destruct (0 <=? i) eqn:E0; [reflexivity|lia].
Qed.

Lemma enc_index_err : forall i, 2147483647 < i -> enc_index i = ErrInput.
Proof.
  intros i H. unfold enc_index. destruct (i <=? 127) eqn:E1; [lia|].
  destruct (i <=? 32767) eqn:E2; [lia|]. destruct (i <=? 2147483647) eqn:E3; [lia|reflexivity].
Qed.

(* ---------------------------------------------------------------- index vectors (FILTER) *)
Lemma fold_zmax_ge : forall l m0 x, In x l -> x <= fold_left Z.max l m0.
Proof.
  induction l as [|y l IH]; intros m0 x H; [destruct H|]. cbn [fold_left].
  assert (forall l m, m <= fold_left Z.max l m) as Mono.
  { clear. induction l as [|y l IH]; intros m; cbn [fold_left]; [lia|]. specialize (IH (Z.max m y)). lia. }
  destruct H as [E|H]; [subst y; specialize (Mono l (Z.max m0 x)); lia|apply IH; exact H].
Qed.

Lemma fold_zmax_le : forall l m0 b, m0 <= b -> (forall x, In x l -> x <= b) -> fold_left Z.max l m0 <= b.
Proof.
  induction l as [|y l IH]; intros m0 b H0 H; cbn [fold_left]; [exact H0|].
  apply IH; [specialize (H y (or_introl eq_refl)); lia|intros x Hx; apply H; right; exact Hx].
Qed.

Lemma map_dec_enc : forall w l, (forall x, In x l -> wmin w <= x <= wmax w) ->
  map (dec_int w) (map (enc_int w) l) = l.
Proof.
  induction l as [|x l IH]; intros H; [reflexivity|]. cbn [map].
  rewrite dec_enc_int by (apply H; left; reflexivity).
  rewrite IH by (intros y Hy; apply H; right; exact Hy). reflexivity.
Qed.

Lemma all_nonneg_true : forall l, (forall x, In x l -> 0 <= x) -> all_nonneg l = true.
Proof.
  induction l as [|x l IH]; intros H; [reflexivity|]. cbn [all_nonneg].
  rewrite IH by (intros y Hy; apply H; right; exact Hy).
  specialize (H x (or_introl eq_refl)). lia.
Qed.

Lemma indices_roundtrip : forall l rest,
  (forall x, In x l -> 0 <= x <= 2147483647) -> Z.of_nat (length l) <= 2147483647 ->
  exists bs, enc_indices l = Ok bs /\ dec_indices (bs ++ rest) = Some (l, rest).
Proof.
  intros l rest H Hl. destruct l as [|i l'].
  - eexists. split; [reflexivity|]. reflexivity.
  - destruct l' as [|j l''].
    + specialize (H i (or_introl eq_refl)). destruct (index_width i H) as [w [E R]].
      eexists. split; [exact E|]. unfold dec_indices. cbn [app]. rewrite read_type_one.
      rewrite wcode_nonzero, width_of_wcode. cbn [Z.eqb Pos.eqb].
      rewrite take_app by apply enc_int_length.
      rewrite dec_enc_int by (unfold min_value in R; lia). rewrite classify_value by lia.
      destruct (0 <=? i) eqn:E0; [reflexivity|lia].
    + remember (i :: j :: l'') as l eqn:El.
      assert (2 <= Z.of_nat (length l)) as L2 by (subst l; cbn [length]; lia).
      set (mx := fold_left Z.max l 0).
      assert (0 <= mx <= 2147483647) as Hmx.
      { split; [|apply fold_zmax_le; [lia|intros x Hx; apply H; exact Hx]].
        assert (forall l m, m <= fold_left Z.max l m) as Mono.
        { clear. induction l as [|y l IH]; intros m; cbn [fold_left]; [lia|]. specialize (IH (Z.max m y)). lia. }
        apply Mono. }
      set (w := if mx <=? 127 then W8 else if mx <=? 32767 then W16 else W32).
      assert (mx <= wmax w) as Hw.
      { unfold w. destruct (mx <=? 127) eqn:E1; [cbn; lia|]. destruct (mx <=? 32767) eqn:E2; cbn; lia. }
      assert (forall x, In x l -> wmin w <= x <= wmax w) as Fit.
      { intros x Hx. pose proof (fold_zmax_ge l 0 x Hx) as G. fold mx in G.
        specialize (H x Hx). destruct w; cbn in *; lia. }
      assert (enc_indices l =
              bind (enc_type (wcode w) (Z.of_nat (length l))) (fun d => Ok (d ++ flat_map (enc_int w) l))) as E.
      { unfold enc_indices. rewrite El. rewrite <- El. fold mx.
        destruct (2147483647 <? mx) eqn:E3; [lia|]. reflexivity. }
      rewrite E.
      destruct (descriptor_roundtrip (wcode w) (Z.of_nat (length l)) (flat_map (enc_int w) l ++ rest))
        as [d [Ed Rd]]; [apply wcode_valid|lia|].
      rewrite Ed. cbn [bind]. eexists. split; [reflexivity|].
      unfold dec_indices. rewrite <- app_assoc. rewrite Rd.
      rewrite wcode_nonzero, width_of_wcode.
      destruct (Z.of_nat (length l) =? 0) eqn:E0; [lia|].
      destruct (Z.of_nat (length l) =? 1) eqn:E1; [lia|].
      rewrite znat_app by (rewrite (flat_map_len_const (enc_int w) (wbytes w)) by (intros x _; apply enc_int_length);
                           destruct w; cbn [wbytes]; lia).
      rewrite chunks_flat_map. rewrite map_dec_enc by exact Fit.
      rewrite all_nonneg_true by (intros x Hx; apply H; exact Hx). reflexivity.
Qed.

(* ---------------------------------------------------------------- typed strings with a rest *)
Definition str_back (s : str) : option str := match s with [] => None | _ => Some s end.

Lemma str_roundtrip : forall s rest, utf8_valid s = true -> Z.of_nat (length s) <= 2147483647 ->
  exists bs, enc_info_string s = Ok bs /\ dec_str (bs ++ rest) = Some (str_back s, rest).
Proof.
  intros s rest Hu Hl. unfold enc_info_string.
  destruct (descriptor_roundtrip 7 (Z.of_nat (length s)) (s ++ rest)) as [d [Ed Rd]]; [reflexivity|lia|].
  rewrite Ed. cbn [bind]. eexists. split; [reflexivity|].
  unfold dec_str. rewrite <- app_assoc. rewrite Rd. cbn [Z.eqb Pos.eqb].
  destruct s as [|b s'].
  - reflexivity.
  - assert (Z.of_nat (length (b :: s')) =? 0 = false) as E0 by (cbn [length]; lia).
    rewrite E0. rewrite znat_app by lia. rewrite take_app by reflexivity. rewrite Hu. reflexivity.
Qed.

Definition allele_ok (s : str) : Prop :=
  s <> [] /\ utf8_valid s = true /\ Z.of_nat (length s) <= 2147483647.

Lemma alleles_roundtrip : forall l rest, (forall s, In s l -> allele_ok s) ->
  exists bs, enc_strs l = Ok bs /\ dec_alleles (length l) (bs ++ rest) = Some (l, rest).
Proof.
  induction l as [|s l IH]; intros rest H.
  - eexists. split; [reflexivity|]. reflexivity.
  - destruct (IH rest) as [b2 [E2 D2]]; [intros s' Hs'; apply H; right; exact Hs'|].
    destruct (H s (or_introl eq_refl)) as [Hne [Hu Hl]].
    destruct (str_roundtrip s (b2 ++ rest) Hu Hl) as [b1 [E1 D1]].
    cbn [enc_strs]. rewrite E1. cbn [bind]. rewrite E2. cbn [bind].
    eexists. split; [reflexivity|].
    cbn [length dec_alleles]. rewrite <- app_assoc. rewrite D1. rewrite D2.
    destruct s; [contradiction|reflexivity].
Qed.

(* ---------------------------------------------------------------- names through the dictionary *)
Lemma map_names_ok : forall m ns, wf m ->
  (forall n, In n ns -> exists i, get_index_of m n = Some i /\ Z.of_nat i <= 2147483647) ->
  exists l, map_names m ns = Ok l /\ resolve_all m l = Some ns /\
            length l = length ns /\ (forall x, In x l -> 0 <= x <= 2147483647).
Proof.
  intros m ns [W1 W2]. induction ns as [|n ns IH]; intros H.
  - exists []. split; [reflexivity|]. split; [reflexivity|]. split; [reflexivity|]. intros y [].
  - destruct IH as [l [E [R [Len B]]]]; [intros n' Hn'; apply H; right; exact Hn'|].
    destruct (H n (or_introl eq_refl)) as [i [Hi Hb]].
    exists (Z.of_nat i :: l). cbn [map_names]. unfold index_of. rewrite Hi. cbn [bind]. rewrite E. cbn [bind].
    split; [reflexivity|]. split; [|split].
    + cbn [resolve_all].
      rewrite znat_id by (pose proof (slot_lt _ _ _ (W1 n i Hi)) as L; apply Nat.lt_le_incl; exact L).
      rewrite (W1 n i Hi). rewrite R. reflexivity.
    + cbn [length]. rewrite Len. reflexivity.
    + intros x [X|X]; [subst x; lia|apply B; exact X].
Qed.

(* ---------------------------------------------------------------- the site head *)
Lemma chunks_fixed : forall a b c d rest,
  length a = 4%nat -> length b = 4%nat -> length c = 4%nat -> length d = 4%nat ->
  chunks 4 4 (a ++ b ++ c ++ d ++ rest) = Some ([a; b; c; d], rest).
Proof.
  intros a b c d rest Ha Hb Hc Hd. cbn [chunks].
  rewrite take_app by exact Ha. rewrite take_app by exact Hb.
  rewrite take_app by exact Hc. rewrite take_app by exact Hd. reflexivity.
Qed.

Definition site_ok (strings contigs : smap) (s : site) (n_info n_fmt : Z) : Prop :=
  (exists c, get_index_of contigs (s_chrom s) = Some c /\ Z.of_nat c <= 2147483647) /\
  (forall p, s_pos s = Some p -> 1 <= p <= 2147483647) /\
  0 <= s_rlen s <= 2147483647 /\
  (forall b, s_qual s = Some b -> 0 <= b < 4294967296 /\ ~ reserved_nan b) /\
  (forall t, In t (s_ids s) -> t <> [] /\ ~ In semicolon t) /\
  (utf8_valid (join semicolon (s_ids s)) = true /\
   Z.of_nat (length (join semicolon (s_ids s))) <= 2147483647) /\
  (forall a, In a (s_ref s :: s_alts s) -> allele_ok a) /\
  Z.of_nat (length (s_alts s)) + 1 <= 65535 /\
  (forall n, In n (s_filters s) -> exists i, get_index_of strings n = Some i /\ Z.of_nat i <= 2147483647) /\
  Z.of_nat (length (s_filters s)) <= 2147483647 /\
  0 <= n_info <= 65535 /\ 0 <= n_fmt <= 255 /\ 0 <= s_n_sample s <= 16777215.

Definition head_of (s : site) (n_info n_fmt : Z) : head :=
  {| h_chrom := s_chrom s; h_pos := s_pos s; h_qual := s_qual s; h_ids := s_ids s;
     h_ref := s_ref s; h_alts := s_alts s; h_filters := s_filters s;
     h_n_info := n_info; h_n_fmt := n_fmt; h_n_sample := s_n_sample s |}.

Lemma ids_back : forall ids, (forall t, In t ids -> t <> [] /\ ~ In semicolon t) ->
  match str_back (join semicolon ids) with Some x => split_on semicolon x | None => [] end = ids.
Proof.
  intros ids H. destruct ids as [|t ids']; [reflexivity|].
  assert (join semicolon (t :: ids') <> []) as Hne
    by (apply join_nonempty; [discriminate|intros p Hp; apply (H p Hp)]).
  unfold str_back. destruct (join semicolon (t :: ids')) eqn:E; [contradiction|]. rewrite <- E.
  apply split_join; [discriminate|intros p Hp; apply (H p Hp)].
Qed.

(* bcf_site_head_roundtrip: the writer accepts the site and read_site gives back the same CHROM,
   POS, QUAL, IDs, REF, ALTs, FILTERs and counts, and is positioned at the INFO fields *)
Lemma site_head_roundtrip : forall strings contigs s infos n_fmt ib,
  wf strings -> wf contigs ->
  site_ok strings contigs s (Z.of_nat (length infos)) n_fmt ->
  enc_fields strings infos = Ok ib ->
  exists sb, enc_site strings contigs s infos n_fmt = Ok sb /\ sb <> [] /\
             dec_head strings contigs sb = Some (head_of s (Z.of_nat (length infos)) n_fmt, ib).
Proof.
  intros strings contigs s infos n_fmt ib Ws Wc Hok Ei.
  destruct Hok as [[c [Hc Hcb]] [Hp [Hr [Hq [Hids [Hidl [Hal [Hna [Hf [Hfl [Hni [Hnf Hns]]]]]]]]]]]].
  destruct Hidl as [Hidu Hidl].
  destruct (map_names_ok strings (s_filters s) Ws Hf) as [fidx [Ef [Rf [Lf Bf]]]].
  destruct (alleles_roundtrip (s_ref s :: s_alts s)) with (rest := @nil N) as [_x _y]. exact Hal. clear _x _y.
  (* the pieces, each followed by what comes after it *)
  destruct (indices_roundtrip fidx ib Bf) as [fb [Efb Dfb]]; [rewrite Lf; exact Hfl|].
  destruct (alleles_roundtrip (s_ref s :: s_alts s) (fb ++ ib) Hal) as [ab [Eab Dab]].
  destruct (str_roundtrip (join semicolon (s_ids s)) (ab ++ fb ++ ib) Hidu Hidl) as [idb [Eidb Didb]].
  set (pos := match s_pos s with Some p => p - 1 | None => -1 end).
  set (qual := match s_qual s with Some b => b | None => f_missing end).
  assert (enc_site strings contigs s infos n_fmt =
          Ok (enc_int W32 (Z.of_nat c) ++ enc_int W32 pos ++ enc_int W32 (s_rlen s) ++ enc_f32 qual
              ++ le_bytes 2 (Z.of_nat (length infos)) ++ le_bytes 2 (Z.of_nat (length (s_alts s)) + 1)
              ++ le_bytes 4 (n_fmt * 16777216 + s_n_sample s)
              ++ idb ++ ab ++ fb ++ ib)) as E.
  { unfold enc_site, index_of. rewrite Hc. cbn [bind]. unfold i32_of_usize at 1.
    destruct (Z.of_nat c <=? 2147483647) eqn:E1; [|lia]. cbn [bind].
    assert ((match s_pos s with
             | Some p => bind (i32_of_usize p) (fun n => Ok (n - 1))
             | None => Ok (-1) end) = Ok pos) as Epos.
    { unfold pos. destruct (s_pos s) as [p|]; [|reflexivity]. specialize (Hp p eq_refl).
      unfold i32_of_usize. destruct (p <=? 2147483647) eqn:E2; [reflexivity|lia]. }
    rewrite Epos. cbn [bind]. unfold i32_of_usize.
    destruct (s_rlen s <=? 2147483647) eqn:E3; [|lia]. cbn [bind]. unfold u16.
    destruct (Z.of_nat (length infos) <=? 65535) eqn:E4; [|lia]. cbn [bind].
    destruct (Z.of_nat (length (s_alts s)) + 1 <=? 65535) eqn:E5; [|lia]. cbn [bind].
    destruct (s_n_sample s <=? 16777215) eqn:E6; [|lia]. cbn [bind].
    destruct (n_fmt <=? 255) eqn:E7; [|lia]. cbn [bind].
    rewrite Eidb. cbn [bind]. rewrite Eab. cbn [bind]. rewrite Ef. cbn [bind]. rewrite Efb. cbn [bind].
    rewrite Ei. cbn [bind]. reflexivity. }
  eexists. split; [exact E|]. split.
  { destruct (enc_int W32 (Z.of_nat c)) eqn:X; [|discriminate].
    pose proof (enc_int_length W32 (Z.of_nat c)) as L. rewrite X in L. discriminate L. }
  unfold dec_head.
  rewrite chunks_fixed by (apply enc_int_length || apply enc_f32_length).
  assert (-1 <= pos <= 2147483646) as Hpos.
  { unfold pos. destruct (s_pos s) as [p|]; [specialize (Hp p eq_refl); lia|lia]. }
  rewrite !dec_enc_int by (cbn; lia).
  destruct ((Z.of_nat c <? 0) || (pos <? -1) || (s_rlen s <? 0)) eqn:Eb; [lia|].
  rewrite znat_id by (pose proof (slot_lt _ _ _ (proj1 Wc _ _ Hc)) as L; apply Nat.lt_le_incl; exact L).
  rewrite (proj1 Wc _ _ Hc).
  assert (0 <= qual < 4294967296) as Hqr.
  { unfold qual. destruct (s_qual s) as [b|]; [apply (Hq b eq_refl)|unfold f_missing; lia]. }
  rewrite le_val_enc_f32 by exact Hqr.
  assert (exists fq, classify_f qual = fq /\
            match fq with FEov | FReserved _ => False | _ => True end /\
            match fq with FValue b => Some b | _ => None end = s_qual s) as [fq [Efq [Hfq1 Hfq2]]].
  { unfold qual. destruct (s_qual s) as [b|].
    - destruct (Hq b eq_refl) as [_ Hn]. rewrite classify_f_value by exact Hn.
      eexists. split; [reflexivity|]. split; [exact I|reflexivity].
    - rewrite classify_f_missing. eexists. split; [reflexivity|]. split; [exact I|reflexivity]. }
  rewrite Efq.
  rewrite take_app by apply le_bytes_length. rewrite take_app by apply le_bytes_length.
  rewrite take_app by apply le_bytes_length.
  rewrite Didb. rewrite !le_val_le2 by lia.
  destruct (Z.of_nat (length (s_alts s)) + 1 =? 0) eqn:Ena; [lia|].
  replace (Z.to_nat (Z.of_nat (length (s_alts s)) + 1)) with (length (s_ref s :: s_alts s))
    by (cbn [length]; lia).
  rewrite Dab. rewrite Dfb. rewrite Rf.
  rewrite le_val_le4 by lia.
  replace ((n_fmt * 16777216 + s_n_sample s) / 16777216) with n_fmt
    by (symmetry; rewrite Z.add_comm, Z.div_add by lia; rewrite Z.div_small by lia; lia).
  replace ((n_fmt * 16777216 + s_n_sample s) mod 16777216) with (s_n_sample s)
    by (symmetry; rewrite Z.add_comm, Z.mod_add by lia; apply Z.mod_small; lia).
  rewrite ids_back by exact Hids.
  assert ((if pos =? -1 then None else Some (pos + 1)) = s_pos s) as Epos2.
  { unfold pos. destruct (s_pos s) as [p|]; [|reflexivity]. specialize (Hp p eq_refl).
    destruct (p - 1 =? -1) eqn:X; [lia|]. f_equal. lia. }
  rewrite Epos2.
  destruct fq as [b| | |b]; try contradiction; unfold head_of; rewrite <- Hfq2; reflexivity.
Qed.

(* a name that is not in the dictionary (CHROM, FILTER, INFO/FORMAT key) is an error *)
Lemma unknown_chrom_is_error : forall strings contigs s infos n_fmt,
  get_index_of contigs (s_chrom s) = None -> enc_site strings contigs s infos n_fmt = ErrInput.
Proof. intros strings contigs s infos n_fmt H. unfold enc_site, index_of. rewrite H. reflexivity. Qed.

(* ---------------------------------------------------------------- fields: key + value *)
(* the first field of a block: its key index is read back, resolves to the key, and the reader
   is positioned at the field's typed value *)
Lemma field_key_roundtrip : forall strings k v vb fs rest i,
  wf strings -> get_index_of strings k = Some i -> Z.of_nat i <= 2147483647 ->
  v = Ok vb -> enc_fields strings fs = Ok rest ->
  exists kb, enc_fields strings ((k, v) :: fs) = Ok (kb ++ vb ++ rest) /\
             dec_index (kb ++ vb ++ rest) = Some (Z.of_nat i, vb ++ rest) /\
             get_index strings (Z.to_nat (Z.of_nat i)) = Some k.
Proof.
  intros strings k v vb fs rest i W Hi Hb Ev Ef.
  destruct (index_roundtrip (Z.of_nat i) (vb ++ rest)) as [kb [Ek Dk]]; [lia|].
  exists kb. cbn [enc_fields]. unfold index_of. rewrite Hi. cbn [bind]. rewrite Ek. cbn [bind].
  rewrite Ev. cbn [bind]. rewrite Ef. cbn [bind].
  split; [reflexivity|]. split; [exact Dk|]. rewrite Nat2Z.id. apply (proj1 W). exact Hi.
Qed.

(* ---------------------------------------------------------------- the whole record *)
(* c10_record_roundtrip_partial: write_record then read_record_buf's split and read_site: the
   two blocks come back, the site head is the one written, the reader stands at the INFO block
   [ib] and the FORMAT block [fb] is the one written (their fields: field_key_roundtrip and the
   value theorems) *)
Lemma record_roundtrip : forall strings contigs s infos fmts (has_rows : bool) ib fb rest,
  wf strings -> wf contigs ->
  site_ok strings contigs s (Z.of_nat (length infos)) (Z.of_nat (length fmts)) ->
  enc_fields strings infos = Ok ib ->
  (if has_rows then enc_fields strings fmts else Ok (@nil N)) = Ok fb ->
  (forall sb, enc_site strings contigs s infos (Z.of_nat (length fmts)) = Ok sb ->
     Z.of_nat (length sb) <= 4294967295) ->
  Z.of_nat (length fb) <= 4294967295 ->
  exists bs sb, enc_record strings contigs s infos fmts has_rows = Ok bs /\
    dec_frame (bs ++ rest) = Some (sb, fb, rest) /\
    dec_head strings contigs sb
      = Some (head_of s (Z.of_nat (length infos)) (Z.of_nat (length fmts)), ib).
Proof.
  intros strings contigs s infos fmts has_rows ib fb rest Ws Wc Hok Ei Ef Hsb Hfb.
  destruct (site_head_roundtrip strings contigs s infos (Z.of_nat (length fmts)) ib Ws Wc Hok Ei)
    as [sb [Es [Hne Dh]]].
  specialize (Hsb sb Es).
  exists (le_bytes 4 (Z.of_nat (length sb)) ++ le_bytes 4 (Z.of_nat (length fb)) ++ sb ++ fb). exists sb.
  split; [|split; [|exact Dh]].
  - unfold enc_record. rewrite Es. cbn [bind]. unfold u32 at 1.
    destruct (Z.of_nat (length sb) <=? 4294967295) eqn:E1; [|lia]. cbn [bind].
    rewrite Ef. cbn [bind]. unfold u32.
    destruct (Z.of_nat (length fb) <=? 4294967295) eqn:E2; [|lia]. cbn [bind]. reflexivity.
  - rewrite <- !app_assoc. apply frame_roundtrip; assumption.
Qed.
