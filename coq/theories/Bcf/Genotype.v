(* BCF genotype (GT) series: encoder/samples/values.rs write_genotype_values + encode_genotype,
   decoder/samples/values.rs read_genotype_values + parse_genotype_values.  Definitions only. *)
From Coq Require Import ZArith NArith List Bool.
From NV Require Import Bcf.Ints Bcf.Typed.
Import ListNotations.
Open Scope Z_scope.

(* an allele: position (None = missing) and phased? *)
Definition allele := (option Z * bool)%type.
Definition genotype := list allele.

(* encode_genotype::encode with encode_allele_position.  i8::try_from(position) -> InvalidData;
   (position + 1) * 2 is computed with checked arithmetic -> InvalidInput from 63 on; the phase
   bit is set on an even number (`n |= 1` is `n + 1`), for missing alleles as well. *)
Definition enc_allele (a : allele) : res Z :=
  let ph := if snd a then 1 else 0 in
  match fst a with
  | None => Ok ph
  | Some p =>
    if 127 <? p then ErrData
    else if 63 <=? p then ErrInput
    else Ok ((p + 1) * 2 + ph)
  end.

(* the bytes of one sample: its alleles, then the EndOfVector padding *)
Definition gt_sample_bytes (m : nat) (raw : list Z) : res (list N) :=
  bind (map_res (fun n => if n <? 0 then ErrInput        (* u8::try_from(n) *)
                          else Ok (Z.to_N n)) raw)
       (fun bs => Ok (bs ++ repeat 129%N (m - length raw))).

Definition gt_max_len (raws : list (list Z)) : nat := fold_left (fun m r => Nat.max m (length r)) raws 0%nat.

(* write_genotype_values (every sample holds a genotype) *)
Definition enc_gt (gs : list genotype) : res (list N) :=
  bind (map_res (map_res enc_allele) gs) (fun raws =>
  let m := gt_max_len raws in
  bind (enc_type 1 (Z.of_nat m)) (fun d =>
  bind (map_res (gt_sample_bytes m) raws) (fun bl => Ok (d ++ concat bl)))).

(* parse_genotype_values *)
Fixpoint parse_gt (vs : list Z) : rres genotype :=
  match vs with
  | [] => ROk []
  | v :: r =>
    match classify W8 v with
    | IEov => ROk []
    | _ =>
      let j := v / 2 - 1 in
      let ph := (v mod 2 =? 1) in
      if j <? -1 then RErr                               (* InvalidGenotype *)
      else rbind (parse_gt r) (fun l => ROk ((if j =? -1 then None else Some j, ph) :: l))
    end
  end.

Fixpoint dec_gt_samples (ns len : nat) (bs : list N) : rres (list (option genotype)) :=
  match ns with
  | O => ROk []
  | S ns' =>
    match chunks len 1 bs with
    | None => RErr
    | Some (xs, r) =>
      rbind (parse_gt (map (dec_int W8) xs)) (fun g =>
      rbind (dec_gt_samples ns' len r) (fun rest => ROk (Some g :: rest)))
    end
  end.

(* read_genotype_values; with length 0 a single None is produced (every sample then reads as
   missing) *)
Definition dec_gt (ns : nat) (bs : list N) : rres (list (option genotype)) :=
  match read_type bs with
  | None => RErr
  | Some (code, len, r) =>
    if code =? 1 then
      if len =? 0 then ROk (repeat None ns)
      else dec_gt_samples ns (znat (S (length r)) len) r
    else RErr                                            (* TypeMismatch *)
  end.
