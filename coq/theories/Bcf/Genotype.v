(* BCF genotype (GT) series: encoder/samples/values.rs write_genotype_values + encode_genotype,
   decoder/samples/values.rs read_genotype_values + parse_genotype_values.  Definitions only. *)
From Coq Require Import ZArith NArith List Bool.
From NV Require Import Bcf.Ints Bcf.Typed.
Import ListNotations.
Open Scope Z_scope.

(* an allele: position (None = missing) and phased? *)
Definition allele := (option Z * bool)%type.
Definition genotype := list allele.

(* i8 wrap-around *)
Definition wrap8 (n : Z) : Z := to_signed W8 (n mod 256).

(* encode_genotype::encode.  i8::try_from(position) -> InvalidData; `i + 1` overflows (panic with
   overflow checks) at 127; `<< 1` wraps silently; a missing allele is 0 whatever its phasing. *)
Definition enc_allele (a : allele) : res Z :=
  match fst a with
  | None => Ok 0
  | Some p =>
    if 127 <? p then ErrData
    else if p =? 127 then Panic
    else let n := wrap8 ((p + 1) * 2) in
         Ok (if snd a then wrap8 (Z.lor n 1) else n)
  end.

(* the bytes of one sample: the padding loop sits INSIDE the allele loop (as in the source) *)
Definition gt_sample_bytes (m : nat) (raw : list Z) : res (list N) :=
  let pad := (m - length raw)%nat in
  bind (map_res (fun n => if n <? 0 then ErrInput        (* u8::try_from(n) *)
                          else Ok (Z.to_N n :: repeat 129%N pad)) raw)
       (fun ll => Ok (concat ll)).

Definition gt_max_len (raws : list (list Z)) : nat := fold_left (fun m r => Nat.max m (length r)) raws 0%nat.

(* write_genotype_values (every sample holds a genotype) *)
Definition enc_gt (gs : list genotype) : res (list N) :=
  bind (map_res (map_res enc_allele) gs) (fun raws =>
  let m := gt_max_len raws in
  bind (enc_type 1 (Z.of_nat m)) (fun d =>
  bind (map_res (gt_sample_bytes m) raws) (fun bl => Ok (d ++ concat bl)))).

(* parse_genotype_values *)
Fixpoint parse_gt (vs : list Z) : rres genotype :=
  match vs with
  | [] => ROk []
  | v :: r =>
    match classify W8 v with
    | IEov => ROk []
    | _ =>
      let j := v / 2 - 1 in
      let ph := (v mod 2 =? 1) in
      if j <? -1 then RErr                               (* InvalidGenotype *)
      else rbind (parse_gt r) (fun l => ROk ((if j =? -1 then None else Some j, ph) :: l))
    end
  end.

Fixpoint dec_gt_samples (ns len : nat) (bs : list N) : rres (list (option genotype)) :=
  match ns with
  | O => ROk []
  | S ns' =>
    match chunks len 1 bs with
    | None => RErr
    | Some (xs, r) =>
      rbind (parse_gt (map (dec_int W8) xs)) (fun g =>
      rbind (dec_gt_samples ns' len r) (fun rest => ROk (Some g :: rest)))
    end
  end.

(* read_genotype_values; with length 0 a single None is produced (every sample then reads as
   missing) *)
Definition dec_gt (ns : nat) (bs : list N) : rres (list (option genotype)) :=
  match read_type bs with
  | None => RErr
  | Some (code, len, r) =>
    if code =? 1 then
      if len =? 0 then ROk (repeat None ns)
      else dec_gt_samples ns (Z.to_nat len) r
    else RPanic                                          (* todo!("unhandled type") *)
  end.
