(* C10 -- the VCF <-> BCF bridge.  One record datatype for both formats: C09's [NV.Vcf.Line.vrec]
   (what a RecordBuf holds).  This file puts the BCF writer and the BCF reader on that datatype:

   [bcf_write]  io/writer/record.rs write_record on a RecordBuf: write_site (the site fields of the
                RecordBuf), encoder/site/info/field/value.rs write_value (dispatch on the VARIANT of
                the INFO value; the header is not consulted), encoder/samples.rs write_samples
                (column j of the rows = `sample.get_index(header, j)...unwrap_or_default()`, i.e. a
                row that is too short has a missing value; header.formats().get(key) -> InvalidData
                when absent; GT -> write_genotype_values, otherwise write_values, which dispatches on
                the header's Type and Number = 1 / other and rejects a value of another variant with
                InvalidInput).  The byte-level encoders are those of NV.Bcf.{Typed,Strings,Genotype,
                Record}.
   [bcf_read]   io/reader/record_buf.rs read_record_buf = NV.Bcf.RecordTyped.dec_record_typed with
                the header's Number/Type of each key ([ik_of] / [fk_of]: decoder/info/field/value.rs
                read_value and decoder/samples/values.rs read_values, including their
                InvalidNumberForType / InvalidNumber rejections), and the RecordBuf it fills.
   [bcf_special] the class string-special-chars as a decidable predicate on the record.
   [content]    the normal form under which the VCF and the BCF re-reads are compared.

   Outside the model: a Genotype value under INFO (the INFO value type has no such variant) and a
   String value under GT (encode_genotype_str): both are given as Err(InvalidInput); Characters are
   ASCII.  variant_span (rlen) is an input.  Definitions only. *)
From Coq Require Import ZArith NArith List Bool.
From NV Require Import Base.Percent Text.TextBase Vcf.Values Vcf.Line.
From NV Require Import Bcf.Ints Bcf.Typed Bcf.Strings Bcf.Genotype Bcf.StringMap Bcf.Record Bcf.RecordTyped.
Import ListNotations.
Open Scope Z_scope.

(* ------------------------------------------------------------------ header kinds *)
Definition num_is (k : N) (num : vnumber) : bool :=
  match num with NCount n => N.eqb n k | NOther => false end.

(* decoder/info/field/value.rs read_value: (Number, Type) -> the resolver; None = InvalidNumberForType *)
Definition ikind_of (d : vnumber * vtype) : option ikind :=
  let arr := negb (num_is 1 (fst d)) in
  match snd d with
  | TFlag => if num_is 0 (fst d) then Some KFlag else None
  | TInteger => if num_is 0 (fst d) then None else Some (KInt arr)
  | TFloat => if num_is 0 (fst d) then None else Some (KFloat arr)
  | TCharacter => if num_is 0 (fst d) then None else Some (KChar arr)
  | TString => if num_is 0 (fst d) then None else Some (KStr arr)
  end.

(* decoder/samples/values.rs read_values: Number::Count(0) is InvalidNumber; FORMAT has no Flag *)
Definition fkind_of (d : vnumber * vtype) : option fkind :=
  if num_is 0 (fst d) then None
  else match snd d with
       | TInteger => Some (FInt (num_is 1 (fst d)))
       | TFloat => Some (FFloat (num_is 1 (fst d)))
       | TCharacter => Some (FChar (num_is 1 (fst d)))
       | TString => Some (FStr (num_is 1 (fst d)))
       | TFlag => None
       end.

(* encoder/samples/values.rs write_values: Type, then Number::Count(1) / anything else *)
Definition fkind_w (d : vnumber * vtype) : option fkind :=
  match snd d with
  | TInteger => Some (FInt (num_is 1 (fst d)))
  | TFloat => Some (FFloat (num_is 1 (fst d)))
  | TCharacter => Some (FChar (num_is 1 (fst d)))
  | TString => Some (FStr (num_is 1 (fst d)))
  | TFlag => None
  end.

Definition ik_of (h : hctx) (k : name) : option ikind :=
  match Line.assoc k (h_infos h) with Some d => ikind_of d | None => None end.
Definition fk_of (h : hctx) (k : name) : option fkind :=
  match Line.assoc k (h_formats h) with Some d => fkind_of d | None => None end.
Definition fkw_of (h : hctx) (k : name) : option fkind :=
  match Line.assoc k (h_formats h) with Some d => fkind_w d | None => None end.

(* ------------------------------------------------------------------ the writer *)
Definition oz (o : option N) : option Z := option_map Z.of_N o.
Definition gz (g : list (option N * bool)) : genotype := map (fun a => (oz (fst a), snd a)) g.

(* encoder/site/info/field/value.rs write_value *)
Definition enc_info_val (ov : option value) : res (list N) :=
  match ov with
  | None => enc_info_missing
  | Some (VInteger z) => enc_info_int z
  | Some (VFloat b) => enc_info_float (Z.of_N b)
  | Some VFlag => enc_info_missing
  | Some (VCharacter c) => enc_info_char c
  | Some (VString s) => enc_info_string s
  | Some (VIntArr l) => enc_info_ints l
  | Some (VFloatArr l) => enc_info_floats (map oz l)
  | Some (VCharArr l) => enc_info_chars l
  | Some (VStrArr l) => enc_info_strs l
  | Some (VGenotype _) => ErrInput
  end.

(* the j-th value of every sample *)
Definition column (j : nat) (rows : list (list (option value))) : list (option value) :=
  map (fun row => nth j row None) rows.

(* the values of a series: a missing sample, the expected variant, or `type mismatch` *)
Definition col_conv {A} (f : value -> option A) (c : list (option value)) : res (list (option A)) :=
  map_res (fun o => match o with
                    | None => Ok None
                    | Some v => match f v with Some a => Ok (Some a) | None => ErrInput end
                    end) c.

Definition as_int (v : value) := match v with VInteger z => Some z | _ => None end.
Definition as_float (v : value) := match v with VFloat b => Some (Z.of_N b) | _ => None end.
Definition as_char (v : value) := match v with VCharacter c => Some c | _ => None end.
Definition as_str (v : value) := match v with VString s => Some s | _ => None end.
Definition as_ints (v : value) := match v with VIntArr l => Some l | _ => None end.
Definition as_floats (v : value) := match v with VFloatArr l => Some (map oz l) | _ => None end.
Definition as_chars (v : value) := match v with VCharArr l => Some l | _ => None end.
Definition as_strs (v : value) := match v with VStrArr l => Some l | _ => None end.

(* write_values *)
Definition enc_fmt_col (k : fkind) (c : list (option value)) : res (list N) :=
  match k with
  | FInt true => bind (col_conv as_int c) enc_fmt_int
  | FInt false => bind (col_conv as_ints c) enc_fmt_ints
  | FFloat true => bind (col_conv as_float c) enc_fmt_float
  | FFloat false => bind (col_conv as_floats c) enc_fmt_floats
  | FChar true => bind (col_conv as_char c) enc_fmt_chars
  | FChar false => bind (col_conv as_chars c) enc_fmt_char_arrays
  | FStr true => bind (col_conv as_str c) enc_fmt_strings
  | FStr false => bind (col_conv as_strs c) enc_fmt_str_arrays
  end.

(* write_genotype_values: every sample must hold a genotype (a missing one is InvalidInput); the
   samples are encoded in order, so the first failing sample decides the error *)
Definition enc_gt_col (c : list (option value)) : res (list N) :=
  bind (map_res (fun o => match o with
                          | Some (VGenotype g) => map_res enc_allele (gz g)
                          | _ => ErrInput
                          end) c) (fun raws =>
  let m := gt_max_len raws in
  bind (enc_type 1 (Z.of_nat m)) (fun d =>
  bind (map_res (gt_sample_bytes m) raws) (fun bl => Ok (d ++ concat bl)))).

Fixpoint indexed {A} (i : nat) (l : list A) : list (nat * A) :=
  match l with [] => [] | x :: t => (i, x) :: indexed (S i) t end.

(* write_samples: one field per key *)
Definition fmt_field (h : hctx) (rows : list (list (option value))) (jk : nat * name) : field :=
  (snd jk,
   match fkw_of h (snd jk) with
   | None => ErrData                                      (* missing FORMAT header record *)
   | Some kd =>
     if name_eqb (snd jk) GT then enc_gt_col (column (fst jk) rows)
     else enc_fmt_col kd (column (fst jk) rows)
   end).

Definition site_of (h : hctx) (rlen : Z) (r : vrec) : site :=
  {| s_chrom := r_chrom r;
     s_pos := if N.eqb (r_pos r) 0 then None else Some (Z.of_N (r_pos r));
     s_rlen := rlen;
     s_qual := oz (r_qual r);
     s_ids := r_ids r; s_ref := r_ref r; s_alts := r_alts r; s_filters := r_filters r;
     s_n_sample := Z.of_nat (h_nsamples h) |}.

Definition info_fields (r : vrec) : list field :=
  map (fun kv => (fst kv, enc_info_val (snd kv))) (r_info r).
Definition fmt_fields (h : hctx) (r : vrec) : list field :=
  map (fmt_field h (r_samples r)) (indexed 0 (r_keys r)).
Definition has_rows (r : vrec) : bool := match r_samples r with [] => false | _ => true end.

(* bcf::io::Writer::write_variant_record on a RecordBuf *)
Definition bcf_write (strings contigs : smap) (h : hctx) (rlen : Z) (r : vrec) : res (list N) :=
  enc_record_w strings contigs (site_of h rlen r) (info_fields r) (fmt_fields h r) (has_rows r).

(* ------------------------------------------------------------------ the reader *)
Definition on (o : option Z) : option N := option_map Z.to_N o.
Definition gn (g : genotype) : list (option N * bool) := map (fun a => (on (fst a), snd a)) g.

Definition value_of_ival (v : RecordTyped.ival) : option value :=
  match v with
  | IV RNone => None
  | IV (RInt n) => Some (VInteger n)
  | IV (RInts l) => Some (VIntArr l)
  | IV (RFloat b) => Some (VFloat (Z.to_N b))
  | IV (RFloats l) => Some (VFloatArr (map on l))
  | IS SNone => None
  | IS (SChar c) => Some (VCharacter c)
  | IS (SStr s) => Some (VString s)
  | IS (SChars l) => Some (VCharArr l)
  | IS (SStrs l) => Some (VStrArr l)
  | IFlagV => Some VFlag
  end.

Definition value_of_cell (c : cellv) : option value :=
  match c with
  | CI o => option_map VInteger o
  | CIV s => option_map VIntArr s
  | CF o => option_map (fun b => VFloat (Z.to_N b)) o
  | CFV s => option_map (fun l => VFloatArr (map on l)) s
  | CC o => option_map VCharacter o
  | CCV o => option_map VCharArr o
  | CS o => option_map VString o
  | CSV o => option_map VStrArr o
  | CG o => option_map (fun g => VGenotype (gn g)) o
  end.

(* the RecordBuf read_record_buf fills *)
Definition vrec_of (t : trecord) : vrec :=
  {| r_chrom := h_chrom (t_head t);
     r_pos := match h_pos (t_head t) with Some p => Z.to_N p | None => 0%N end;
     r_ids := h_ids (t_head t);
     r_ref := h_ref (t_head t);
     r_alts := h_alts (t_head t);
     r_qual := on (h_qual (t_head t));
     r_filters := h_filters (t_head t);
     r_info := map (fun kv => (fst kv, value_of_ival (snd kv))) (t_info t);
     r_keys := t_keys t;
     r_samples := map (map value_of_cell) (t_rows t) |}.

Definition bcf_read (strings contigs : smap) (h : hctx) (bs : list N) : rres vrec :=
  rbind (dec_record_typed strings contigs (ik_of h) (fk_of h) (Z.of_nat (h_nsamples h)) bs)
        (fun t => ROk (vrec_of t)).

(* ------------------------------------------------------------------ a REUSED RecordBuf *)
(* read_record_buf(header, &mut record) on a RecordBuf that still holds the previous record [prev]
   (also the record_bufs() iterator).  decoder.rs read_site ASSIGNS the reference sequence name, the
   position, the quality score, the IDs, REF, ALT and the FILTERs (`*record.x_mut() = ...`);
   decoder/info.rs read_info works on the buffer's own Info map: `info.clear()`, then one
   `info.insert(key, value)` per field, a key that is already in the map being DuplicateKey;
   io/reader/record_buf.rs assigns the samples.  The buffer is threaded through in that order. *)
Fixpoint has_name (k : name) (m : list (name * option value)) : bool :=
  match m with [] => false | (k', _) :: t => name_eqb k k' || has_name k t end.

Fixpoint insert_fields (m fs : list (name * option value)) : option (list (name * option value)) :=
  match fs with
  | [] => Some m
  | (k, v) :: t => if has_name k m then None else insert_fields (m ++ [(k, v)]) t
  end.

(* info.clear() *)
Definition clear_info (m : list (name * option value)) : list (name * option value) := [].

Definition fill_into (prev : vrec) (t : trecord) : option vrec :=
  let n := vrec_of t in
  let b1 := {| r_chrom := r_chrom n; r_pos := r_pos prev; r_ids := r_ids prev; r_ref := r_ref prev;
               r_alts := r_alts prev; r_qual := r_qual prev; r_filters := r_filters prev;
               r_info := r_info prev; r_keys := r_keys prev; r_samples := r_samples prev |} in
  let b2 := {| r_chrom := r_chrom b1; r_pos := r_pos n; r_ids := r_ids b1; r_ref := r_ref b1;
               r_alts := r_alts b1; r_qual := r_qual n; r_filters := r_filters b1;
               r_info := r_info b1; r_keys := r_keys b1; r_samples := r_samples b1 |} in
  let b3 := {| r_chrom := r_chrom b2; r_pos := r_pos b2; r_ids := r_ids n; r_ref := r_ref n;
               r_alts := r_alts n; r_qual := r_qual b2; r_filters := r_filters n;
               r_info := r_info b2; r_keys := r_keys b2; r_samples := r_samples b2 |} in
  match insert_fields (clear_info (r_info b3)) (r_info n) with
  | None => None
  | Some info =>
    Some {| r_chrom := r_chrom b3; r_pos := r_pos b3; r_ids := r_ids b3; r_ref := r_ref b3;
            r_alts := r_alts b3; r_qual := r_qual b3; r_filters := r_filters b3;
            r_info := info; r_keys := r_keys n; r_samples := r_samples n |}
  end.

Definition bcf_read_into (prev : vrec) (strings contigs : smap) (h : hctx) (bs : list N) : rres vrec :=
  rbind (dec_record_typed strings contigs (ik_of h) (fk_of h) (Z.of_nat (h_nsamples h)) bs)
        (fun t => match fill_into prev t with Some r => ROk r | None => RErr end).

(* ------------------------------------------------------------------ the class string-special-chars *)
(* BCF stores Character / String values raw: an INFO String that is empty IS the missing value;
   vectors are joined with ',' and use "." for a missing element (so the INFO vector [""] is the
   missing value as well); per-sample values live in NUL padded cells where "." is the missing
   sample.  The class is EXACT: outside it every value is read back as itself
   (c10_bcf_vcf_agree), and no byte string at all is read back as a member of it
   (c10_special_unrepresentable). *)
Definition has_byte (b : N) (t : list N) : bool := existsb (N.eqb b) t.

(* INFO vector elements *)
Definition chr_special_i (c : N) : bool := N.eqb c Strings.dot || N.eqb c comma.
Definition elt_special_i (t : list N) : bool := bytes_eqb t [Strings.dot] || has_byte comma t.
(* per-sample vector elements *)
Definition chr_special (c : N) : bool := N.eqb c Strings.dot || N.eqb c comma || N.eqb c nul.
Definition elt_special (t : list N) : bool :=
  bytes_eqb t [Strings.dot] || has_byte comma t || has_byte nul t.

Definition any_some {A} (f : A -> bool) (l : list (option A)) : bool :=
  existsb (fun o => match o with Some a => f a | None => false end) l.

(* an INFO value *)
Definition info_special (v : value) : bool :=
  match v with
  | VString s => match s with [] => true | _ => false end
  | VCharArr l => any_some chr_special_i l
  | VStrArr l => match l with [Some []] => true | _ => false end || any_some elt_special_i l
  | _ => false
  end.

(* a per-sample value *)
Definition fmt_special (v : value) : bool :=
  match v with
  | VCharacter c => N.eqb c Strings.dot || N.eqb c nul
  | VString s => bytes_eqb s [Strings.dot] || has_byte nul s
  | VCharArr l => any_some chr_special l
  | VStrArr l => any_some elt_special l
  | _ => false
  end.

Definition bcf_special (r : vrec) : bool :=
  existsb (fun kv => match snd kv with Some v => info_special v | None => false end) (r_info r)
  || existsb (existsb (fun o => match o with Some v => fmt_special v | None => false end)) (r_samples r).

(* ------------------------------------------------------------------ the content of a record *)
(* What a VCF re-read and a BCF re-read of one RecordBuf are compared by.  The normal form
   identifies exactly: REF bases that the VCF writer resolves (IUPAC codes, reference_bases.rs
   resolve_base); trailing missing values of a sample (VCF text may omit them, BCF always has one
   value per key); before VCF 4.4 the first allele's phasing, which is not in the text and is
   derived from the other alleles; a vector (INFO or per-sample) that is one missing entry, which is
   the text "." = the missing value; and before VCF 4.4 the haploid genotype whose allele is
   missing, whose text is "." as well. *)
Definition cbase (b : N) : N := match resolve_base b with Some x => x | None => b end.

Definition first_phase (g : list (option N * bool)) : list (option N * bool) :=
  match g with
  | [] => []
  | (p, _) :: t => (p, negb (existsb (fun a => negb (snd a)) t)) :: t
  end.

(* a vector that is one missing entry has the text "." = the missing value *)
Definition lone_missing (v : value) : bool :=
  match v with
  | VIntArr [None] | VFloatArr [None] | VCharArr [None] | VStrArr [None] => true
  | _ => false
  end.

Definition norm_val (o : option value) : option value :=
  match o with
  | Some v => if lone_missing v then None else o
  | None => None
  end.

Definition norm_cell (v44 : bool) (o : option value) : option value :=
  match norm_val o with
  | Some (VGenotype g) =>
    if v44 then o
    else match g with
         | [(None, _)] => None
         | _ => Some (VGenotype (first_phase g))
         end
  | x => x
  end.

Fixpoint strip_missing (l : list (option value)) : list (option value) :=
  match l with
  | [] => []
  | x :: t =>
    match strip_missing t, x with
    | [], None => []
    | t', _ => x :: t'
    end
  end.

Definition content (v44 : bool) (r : vrec) : vrec :=
  {| r_chrom := r_chrom r; r_pos := r_pos r; r_ids := r_ids r; r_ref := map cbase (r_ref r);
     r_alts := r_alts r; r_qual := r_qual r; r_filters := r_filters r;
     r_info := map (fun kv => (fst kv, norm_val (snd kv))) (r_info r);
     r_keys := r_keys r;
     r_samples := map (fun row => strip_missing (map (norm_cell v44) row)) (r_samples r) |}.
