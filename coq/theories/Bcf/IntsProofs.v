(* Proofs about NV.Bcf.Ints: sentinel classification, width selection, byte images. *)
From Coq Require Import ZArith NArith List Bool Lia ZifyBool ZifyNat ZifyN.
From NV Require Import Bcf.Ints.
Import ListNotations.
Open Scope Z_scope.

(* ---------------------------------------------------------------- classification *)
Lemma classify_value_iff : forall w n,
  classify w n = IValue n <-> min_value w <= n.
Proof.
  intros w n. unfold classify, min_value.
  destruct (n =? wmin w) eqn:E1; [split; [discriminate|intros Hx; exfalso; lia]|].
  destruct (n =? wmin w + 1) eqn:E2; [split; [discriminate|intros Hx; exfalso; lia]|].
  destruct (n <=? wmin w + 7) eqn:E3; [split; [discriminate|intros Hx; exfalso; lia]|].
  split; [lia|reflexivity].
Qed.

Lemma classify_value : forall w n, min_value w <= n -> classify w n = IValue n.
Proof. intros w n H. apply classify_value_iff. exact H. Qed.

Lemma classify_missing : forall w, classify w (wmin w) = IMissing.
Proof. intros []; reflexivity. Qed.

Lemma classify_eov : forall w, classify w (wmin w + 1) = IEov.
Proof. intros []; reflexivity. Qed.

Lemma raw_of_classify : forall w n, raw_of w (classify w n) = n.
Proof.
  intros w n. unfold classify, raw_of.
  destruct (n =? wmin w) eqn:E1; [lia|].
  destruct (n =? wmin w + 1) eqn:E2; [lia|].
  destruct (n <=? wmin w + 7); reflexivity.
Qed.

(* the four classes partition the representable range exactly as the specification says *)
Lemma classify_spec : forall w n, wmin w <= n <= wmax w ->
  (n = wmin w /\ classify w n = IMissing) \/
  (n = wmin w + 1 /\ classify w n = IEov) \/
  (wmin w + 2 <= n <= wmin w + 7 /\ classify w n = IReserved n) \/
  (wmin w + 8 <= n /\ classify w n = IValue n).
Proof.
  intros w n H. unfold classify.
  destruct (n =? wmin w) eqn:E1; [left; split; [lia|reflexivity]|].
  destruct (n =? wmin w + 1) eqn:E2; [right; left; split; [lia|reflexivity]|].
  destruct (n <=? wmin w + 7) eqn:E3;
    [right; right; left; split; [lia|reflexivity]|right; right; right; split; [lia|reflexivity]].
Qed.

(* exhaustive sweeps of the two small widths (vm_compute over the whole domain) *)
Definition check_classify (w : width) (n : Z) : bool :=
  match classify w n with
  | IMissing => n =? wmin w
  | IEov => n =? wmin w + 1
  | IReserved m => (m =? n) && (wmin w + 2 <=? n) && (n <=? wmin w + 7)
  | IValue m => (m =? n) && (wmin w + 8 <=? n)
  end && (raw_of w (classify w n) =? n).

Fixpoint zrange (lo : Z) (len : nat) : list Z :=
  match len with O => [] | S k => lo :: zrange (lo + 1) k end.

Lemma int8_classify_exhaustive : forallb (check_classify W8) (zrange (-128) (Z.to_nat 256)) = true.
Proof. vm_compute. reflexivity. Qed.

Lemma int16_classify_exhaustive :
  forallb (check_classify W16) (zrange (-32768) (Z.to_nat 65536)) = true.
Proof. vm_compute. reflexivity. Qed.

Lemma in_zrange : forall len lo n, lo <= n < lo + Z.of_nat len -> In n (zrange lo len).
Proof.
  induction len as [|k IH]; intros lo n H; [lia|].
  cbn [zrange]. destruct (Z.eq_dec lo n) as [E|E]; [left; exact E|right].
  apply IH. lia.
Qed.

Lemma int8_classify_all : forall n, -128 <= n <= 127 -> check_classify W8 n = true.
Proof.
  intros n H. pose proof int8_classify_exhaustive as E. rewrite forallb_forall in E.
  apply E. apply in_zrange. lia.
Qed.

Lemma int16_classify_all : forall n, -32768 <= n <= 32767 -> check_classify W16 n = true.
Proof.
  intros n H. pose proof int16_classify_exhaustive as E. rewrite forallb_forall in E.
  apply E. apply in_zrange. lia.
Qed.

(* ---------------------------------------------------------------- width selection *)
Lemma select_scalar_sound : forall n w, n <= 2147483647 -> select_scalar n = Some w ->
  min_value w <= n <= wmax w.
Proof.
  intros n w Hi. unfold select_scalar, min_value.
  destruct (0 <=? n) eqn:E0.
  - destruct (n <=? 127) eqn:E1; [intros H; inversion H; subst; cbn; lia|].
    destruct (n <=? 32767) eqn:E2; intros H; inversion H; subst; cbn; lia.
  - destruct (-120 <=? n) eqn:E1; [intros H; inversion H; subst; cbn; lia|].
    destruct (-32760 <=? n) eqn:E2; [intros H; inversion H; subst; cbn; lia|].
    destruct (-2147483640 <=? n) eqn:E3; intros H; inversion H; subst; cbn; lia.
Qed.

Lemma select_scalar_total : forall n, -2147483640 <= n <= 2147483647 ->
  exists w, select_scalar n = Some w.
Proof.
  intros n H. unfold select_scalar.
  destruct (0 <=? n); [destruct (n <=? 127); [|destruct (n <=? 32767)]; eauto|].
  destruct (-120 <=? n); [eauto|]. destruct (-32760 <=? n); [eauto|].
  destruct (-2147483640 <=? n) eqn:E; [eauto|lia].
Qed.

Lemma select_scalar_err : forall n, n < -2147483640 -> select_scalar n = None.
Proof.
  intros n H. unfold select_scalar.
  destruct (0 <=? n) eqn:E0; [lia|]. destruct (-120 <=? n) eqn:E1; [lia|].
  destruct (-32760 <=? n) eqn:E2; [lia|]. destruct (-2147483640 <=? n) eqn:E3; [lia|reflexivity].
Qed.

(* the narrowest width is chosen *)
Lemma select_scalar_minimal : forall n w w', select_scalar n = Some w ->
  min_value w' <= n <= wmax w' -> (wbytes w <= wbytes w')%nat.
Proof.
  intros n w w' H H'. revert H.
  unfold select_scalar, min_value in *.
  destruct (0 <=? n) eqn:E0.
  - destruct (n <=? 127) eqn:E1; [intros H; inversion H; destruct w'; cbn; lia|].
    destruct (n <=? 32767) eqn:E2; intros H; inversion H; subst; destruct w'; cbn in *; lia.
  - destruct (-120 <=? n) eqn:E1; [intros H; inversion H; destruct w'; cbn; lia|].
    destruct (-32760 <=? n) eqn:E2; [intros H; inversion H; subst; destruct w'; cbn in *; lia|].
    destruct (-2147483640 <=? n) eqn:E3; intros H; inversion H; subst; destruct w'; cbn in *; lia.
Qed.

(* scan bounds: every entry lies between the scanned min and max; a missing entry pulls 0 in *)
Lemma scan_cons : forall acc v vs, scan acc (v :: vs) = scan (scan_step acc v) vs.
Proof. reflexivity. Qed.

Lemma scan_step_mono : forall vs acc, fst (scan acc vs) <= fst acc /\ snd acc <= snd (scan acc vs).
Proof.
  induction vs as [|v vs IH]; intros acc.
  - unfold scan. cbn [fold_left]. lia.
  - rewrite scan_cons. specialize (IH (scan_step acc v)).
    assert (fst (scan_step acc v) <= fst acc /\ snd acc <= snd (scan_step acc v)) as S
      by (unfold scan_step; cbn [fst snd]; lia).
    lia.
Qed.

Lemma scan_bounds : forall vs acc n, In (Some n) vs ->
  fst (scan acc vs) <= n <= snd (scan acc vs).
Proof.
  induction vs as [|v vs IH]; intros acc n HIn; [destruct HIn|].
  rewrite scan_cons. destruct HIn as [E|HIn].
  - subst v. pose proof (scan_step_mono vs (scan_step acc (Some n))) as M.
    assert (fst (scan_step acc (Some n)) <= n <= snd (scan_step acc (Some n))) as S
      by (unfold scan_step; cbn [fst snd]; lia).
    lia.
  - apply (IH (scan_step acc v) n HIn).
Qed.

Lemma scan_missing : forall vs acc, In None vs -> fst (scan acc vs) <= 0 <= snd (scan acc vs).
Proof.
  induction vs as [|v vs IH]; intros acc HIn; [destruct HIn|].
  rewrite scan_cons. destruct HIn as [E|HIn].
  - subst v. pose proof (scan_step_mono vs (scan_step acc None)) as M.
    assert (fst (scan_step acc None) <= 0 <= snd (scan_step acc None)) as S
      by (unfold scan_step; cbn [fst snd]; lia).
    lia.
  - apply (IH (scan_step acc v) HIn).
Qed.

(* the scan result of i32 entries is an i32 pair (or the untouched initial pair) *)
Lemma scan_range : forall vs acc,
  (forall n, In (Some n) vs -> -2147483648 <= n <= 2147483647) ->
  -2147483648 <= fst acc -> snd acc <= 2147483647 ->
  -2147483648 <= fst (scan acc vs) /\ snd (scan acc vs) <= 2147483647.
Proof.
  induction vs as [|v vs IH]; intros acc H Ha Hb; [unfold scan; cbn [fold_left]; lia|].
  rewrite scan_cons. apply IH.
  - intros n Hn. apply H. right. exact Hn.
  - destruct v as [n|]; unfold scan_step; cbn [fst snd]; [specialize (H n (or_introl eq_refl))|]; lia.
  - destruct v as [n|]; unfold scan_step; cbn [fst snd]; [specialize (H n (or_introl eq_refl))|]; lia.
Qed.

Lemma select_minmax_sound : forall mn mx w, mx <= 2147483647 -> select_minmax mn mx = Some w ->
  min_value w <= mn /\ mx <= wmax w.
Proof.
  intros mn mx w Hmx. unfold select_minmax, min_value.
  destruct (-120 <=? mn) eqn:E0.
  - destruct (mx <=? 127) eqn:E1; [intros H; inversion H; subst; cbn; lia|].
    destruct (mx <=? 32767) eqn:E2; intros H; inversion H; subst; cbn; lia.
  - destruct (-32760 <=? mn) eqn:E1.
    + destruct (mx <=? 32767) eqn:E2; intros H; inversion H; subst; cbn; lia.
    + destruct (-2147483640 <=? mn) eqn:E3; intros H; inversion H; subst; cbn; lia.
Qed.

Lemma select_minmax_total : forall mn mx, -2147483640 <= mn -> exists w, select_minmax mn mx = Some w.
Proof.
  intros mn mx H. unfold select_minmax.
  destruct (-120 <=? mn); [destruct (mx <=? 127); [|destruct (mx <=? 32767)]; eauto|].
  destruct (-32760 <=? mn); [destruct (mx <=? 32767); eauto|].
  destruct (-2147483640 <=? mn) eqn:E; [eauto|lia].
Qed.

Lemma select_minmax_err : forall mn mx, mn < -2147483640 -> select_minmax mn mx = None.
Proof.
  intros mn mx H. unfold select_minmax.
  destruct (-120 <=? mn) eqn:E0; [lia|]. destruct (-32760 <=? mn) eqn:E1; [lia|].
  destruct (-2147483640 <=? mn) eqn:E2; [lia|reflexivity].
Qed.

(* ---------------------------------------------------------------- byte images *)
Lemma le_bytes_length : forall k u, length (le_bytes k u) = k.
Proof. induction k as [|k IH]; intros u; cbn [le_bytes length]; [reflexivity|]. rewrite IH. reflexivity. Qed.

Lemma le_val_le_bytes : forall k u, le_val (le_bytes k u) = u mod 256 ^ Z.of_nat k.
Proof.
  induction k as [|k IH]; intros u.
  - cbn. rewrite Z.mod_1_r. reflexivity.
  - cbn [le_bytes le_val]. rewrite IH.
    rewrite Nat2Z.inj_succ, Z.pow_succ_r by lia.
    rewrite Z.rem_mul_r by lia.
    rewrite Z2N.id by (apply Z.mod_pos_bound; lia). reflexivity.
Qed.

Lemma wmod_pow : forall w, wmod w = 256 ^ Z.of_nat (wbytes w).
Proof. intros []; reflexivity. Qed.

Lemma enc_int_length : forall w n, length (enc_int w n) = wbytes w.
Proof. intros w n. apply le_bytes_length. Qed.

Lemma dec_enc_int : forall w n, wmin w <= n <= wmax w -> dec_int w (enc_int w n) = n.
Proof.
  intros w n H. unfold dec_int, enc_int. rewrite le_val_le_bytes, <- wmod_pow.
  rewrite Z.mod_mod by (destruct w; cbn; lia).
  unfold to_signed. destruct (Z_le_gt_dec 0 n) as [Hp|Hn].
  - rewrite Z.mod_small by (destruct w; cbn in *; lia).
    destruct (n <=? wmax w) eqn:E; lia.
  - replace (n mod wmod w) with (n + wmod w).
    + destruct (n + wmod w <=? wmax w) eqn:E; destruct w; cbn in *; lia.
    + symmetry. rewrite <- (Z.mod_add n 1 (wmod w)) by (destruct w; cbn; lia).
      rewrite Z.mul_1_l. apply Z.mod_small. destruct w; cbn in *; lia.
Qed.

Lemma znat_id : forall cap x, (x <= cap)%nat -> znat cap (Z.of_nat x) = x.
Proof.
  induction cap as [|c IH]; intros x H; [cbn [znat]; lia|]. cbn [znat].
  destruct x as [|x']; [reflexivity|].
  destruct (Z.of_nat (S x') <=? 0) eqn:E; [lia|].
  replace (Z.of_nat (S x') - 1) with (Z.of_nat x') by lia. rewrite IH by lia. reflexivity.
Qed.

Lemma znat_app : forall x (p rest : list N), (x <= length p)%nat ->
  znat (S (length (p ++ rest))) (Z.of_nat x) = x.
Proof. intros x p rest H. apply znat_id. rewrite app_length. lia. Qed.

Lemma flat_map_len_const : forall {A} (f : A -> list N) k l,
  (forall x, In x l -> length (f x) = k) -> length (flat_map f l) = (length l * k)%nat.
Proof.
  intros A f k. induction l as [|x l IH]; intros H; [reflexivity|].
  cbn [flat_map length]. rewrite app_length. rewrite (H x (or_introl eq_refl)).
  rewrite IH by (intros y Hy; apply H; right; exact Hy). lia.
Qed.

Lemma take_app : forall k (x r : list N), length x = k -> take k (x ++ r) = Some (x, r).
Proof.
  intros k x r H. unfold take. rewrite app_length.
  destruct (k <=? length x + length r)%nat eqn:E; [|apply Nat.leb_gt in E; lia].
  subst k. rewrite firstn_app, skipn_app, Nat.sub_diag, firstn_all, skipn_all. cbn.
  rewrite app_nil_r. reflexivity.
Qed.
