(* Proofs about NV.Bcf.Lazy, part 5: genotypes, and one whole FORMAT column: the values
   Series::get(header, i) returns for i = 0..n_sample-1 are the column the eager read_values /
   read_genotype_values decode from the same series, up to the normal form [cell_norm], for every kind
   of series (also GT without values and String arrays since a1ba5e6 / 0b0f2ab).  The condition
   [fmt_ascii] concerns Character series only and is the eager model's assumption that a Character is
   one byte. *)
From Coq Require Import ZArith NArith List Bool Lia ZifyBool ZifyNat ZifyN.
From NV Require Import Bcf.Ints Bcf.IntsProofs Bcf.Typed Bcf.Strings Bcf.StringsProofs Bcf.Genotype Bcf.StringMap
  Bcf.StringMapProofs Bcf.Record Bcf.RecordTyped Bcf.NeverPanics Bcf.Lazy Bcf.LazyProofs Bcf.LazySiteProofs
  Bcf.LazyInfoProofs Bcf.LazyFmtProofs.
Import ListNotations.
Open Scope Z_scope.
Ltac Zify.zify_post_hook ::= Z.div_mod_to_equations.

Lemma rbind_assoc : forall {A B C} (m : rres A) (f : A -> rres B) (g : B -> rres C),
  rbind (rbind m f) g = rbind m (fun x => rbind (f x) g).
Proof. intros A B C m f g. destruct m; reflexivity. Qed.

(* ---------------------------------------------------------------- genotypes *)
Lemma gt_phased_mod : forall b, gt_phased b = (Z.of_N b mod 2 =? 1).
Proof.
  intros b. unfold gt_phased. destruct b as [|[p|p|]]; try reflexivity.
  - change (N.odd (N.pos p~1)) with true. cbn [Z.of_N]. rewrite Pos2Z.inj_xI.
    assert ((2 * Z.pos p + 1) mod 2 = 1) as E by (rewrite Z.add_comm, Z.mul_comm, Z.mod_add by lia; reflexivity).
    rewrite E. reflexivity.
  - change (N.odd (N.pos p~0)) with false. cbn [Z.of_N]. rewrite Pos2Z.inj_xO.
    assert ((2 * Z.pos p) mod 2 = 0) as E by (rewrite Z.mul_comm; apply Z.mod_mul; lia).
    rewrite E. reflexivity.
Qed.

Definition gt_allele (b : N) : allele := (gt_position b, gt_phased b).

Lemma dec_int8_byte : forall b, (b < 256)%N ->
  dec_int W8 [b] = if (b <=? 127)%N then Z.of_N b else Z.of_N b - 256.
Proof.
  intros b H. unfold dec_int, to_signed. cbn [le_val wmax wmod].
  destruct (b <=? 127)%N eqn:E; destruct (Z.of_N b + 256 * 0 <=? 127) eqn:E2; lia.
Qed.

(* parse_genotype_values on the bytes of one sample = the lazy view's alleles *)
Lemma parse_gt_cell : forall cell g, byte_list cell ->
  parse_gt (map (fun b => dec_int W8 [b]) cell) = ROk g -> g = map gt_allele (gt_values cell).
Proof.
  induction cell as [|b cell IH]; intros g Hb H; cbn [map parse_gt] in H.
  - injection H as Hg. subst g. reflexivity.
  - inversion Hb as [|? ? Hb1 Hb2]. subst. rewrite (dec_int8_byte b Hb1) in H.
    cbn [gt_values]. unfold is_value8.
    destruct (b <=? 127)%N eqn:E.
    + assert (classify W8 (Z.of_N b) = IValue (Z.of_N b)) as Hc by (apply classify_value; unfold min_value; cbn; lia).
      rewrite Hc in H.
      destruct (Z.of_N b / 2 - 1 <? -1) eqn:Ej; [lia|].
      destruct (parse_gt (map (fun b0 => dec_int W8 [b0]) cell)) as [l| |] eqn:Ep; try discriminate.
      cbn [rbind] in H. injection H as Hg. subst g.
      replace ((128 <=? b) && (b <=? 135))%N with false by lia. cbn [negb map].
      rewrite (IH l Hb2 eq_refl). f_equal. unfold gt_allele, gt_position. rewrite gt_phased_mod.
      pose proof (N2Z.inj_div b 2) as Hdiv. change (Z.of_N 2) with 2 in Hdiv.
      f_equal. destruct (b / 2 =? 0)%N eqn:E0; destruct (Z.of_N b / 2 - 1 =? -1) eqn:E1; try lia.
      f_equal. rewrite Hdiv. reflexivity.
    + unfold classify in H. cbn [wmin] in H.
      destruct (Z.of_N b - 256 =? -128) eqn:E1.
      { destruct (-128 / 2 - 1 <? -1) eqn:Ej; [|lia]. replace (Z.of_N b - 256) with (-128) in H by lia.
        cbn in H. discriminate. }
      destruct (Z.of_N b - 256 =? -128 + 1) eqn:E2.
      { injection H as Hg. subst g. replace ((128 <=? b) && (b <=? 135))%N with true by lia. reflexivity. }
      assert ((Z.of_N b - 256) / 2 - 1 <? -1 = true) as Ej by lia.
      destruct (Z.of_N b - 256 <=? -128 + 7); rewrite Ej in H; discriminate.
Qed.

Lemma gt_values_head : forall cell b r, gt_values cell = b :: r -> exists t, cell = b :: t.
Proof.
  intros cell b r H. destruct cell as [|c t]; [discriminate|]. cbn [gt_values] in H.
  destruct (is_value8 c); [|discriminate]. injection H as Hc _. subst c. exists t. reflexivity.
Qed.

Lemma genotype_norm_agree : forall v44 cell,
  gt_norm v44 (lz_genotype v44 cell) = gt_norm v44 (map gt_allele (gt_values cell)).
Proof.
  intros v44 cell. unfold lz_genotype. destruct (gt_values cell) as [|b r] eqn:E; [reflexivity|].
  cbn [map]. unfold gt_norm. destruct v44.
  - destruct (gt_values_head _ _ _ E) as [t Ht]. subst cell. unfold first_allele_phase. reflexivity.
  - reflexivity.
Qed.

Lemma singles : forall l bs xs r, chunks l 1 bs = Some (xs, r) -> xs = map (fun b => [b]) (concat xs).
Proof.
  intros l bs xs r H. destruct (chunks_concat _ _ _ _ _ H) as [_ [_ Hall]].
  clear H. induction Hall as [|x xs Hx Hxs IH]; [reflexivity|].
  destruct x as [|b [|c x]]; try discriminate. cbn [concat app map]. rewrite <- IH. reflexivity.
Qed.

Lemma byte_list_app : forall a b, byte_list (a ++ b) <-> byte_list a /\ byte_list b.
Proof. intros a b. unfold byte_list. apply Forall_app. Qed.

Lemma gt_samples_cells : forall v44 ns l pay gs, byte_list pay -> dec_gt_samples ns l pay = ROk gs ->
  exists cells r cs, chunks ns (1 * l) pay = Some (cells, r) /\
    map_rres (fun x => ROk (CG (Some (lz_genotype v44 x)))) cells = ROk cs /\
    map (cell_norm v44) cs = map (cell_norm v44) (map CG gs).
Proof.
  intros v44. induction ns as [|ns IH]; intros l pay gs Hb H; cbn [dec_gt_samples] in H.
  - injection H as Hg. subst gs. exists [], pay, []. repeat split.
  - destruct (chunks l 1 pay) as [[xs r1]|] eqn:Ec; [|discriminate].
    destruct (parse_gt (map (dec_int W8) xs)) as [g| |] eqn:Ep; try discriminate. cbn [rbind] in H.
    destruct (dec_gt_samples ns l r1) as [rest| |] eqn:Ed; try discriminate. cbn [rbind] in H.
    injection H as Hg. subst gs.
    destruct (chunks_concat _ _ _ _ _ Ec) as [Hpay _].
    rewrite Hpay in Hb. apply byte_list_app in Hb. destruct Hb as [Hb1 Hb2].
    destruct (IH l r1 rest Hb2 Ed) as [cells [r [cs [Hc [Hm Hn]]]]].
    destruct (chunks_cell _ _ _ _ _ Ec) as [Ht _].
    exists (concat xs :: cells), r, (CG (Some (lz_genotype v44 (concat xs))) :: cs).
    cbn [chunks]. rewrite Ht, Hc. split; [reflexivity|]. split; [cbn [map_rres rbind]; rewrite Hm; reflexivity|].
    cbn [map]. rewrite Hn. f_equal. cbn [cell_norm]. f_equal. f_equal.
    rewrite (singles _ _ _ _ Ec) in Ep. rewrite map_map in Ep.
    rewrite (parse_gt_cell _ _ Hb1 Ep). apply genotype_norm_agree.
Qed.

(* ---------------------------------------------------------------- the class of one series *)
Definition cells_all (P : list N -> bool) (ns k : nat) (pay : list N) : bool :=
  match chunks ns k pay with Some (cells, _) => forallb P cells | None => true end.

Definition fmt_ascii (fk : name -> option fkind) (ns : nat) (kv : name * list N) : bool :=
  match read_type (snd kv) with
  | Some (code, len, pay) =>
    let l := znat (S (length pay)) len in
    if name_eqb (fst kv) GT then true
    else match fk (fst kv) with
         | Some (FChar true) => cells_all cell_first_ascii ns l pay
         | Some (FChar false) => cells_all cell_pieces_first_ascii ns l pay
         | _ => true
         end
  | None => true
  end.

Lemma map_const_seq : forall {A} (c : A) n s, map (fun _ : nat => c) (seq s n) = repeat c n.
Proof. intros A c. induction n as [|n IH]; intros s; [reflexivity|]. cbn [seq map repeat]. rewrite IH. reflexivity. Qed.

Lemma lz_get_mul : forall size i l pay, lz_get (size * i * l) (size * l) pay = lz_get (i * (size * l)) (size * l) pay.
Proof. intros size i l pay. f_equal. rewrite (Nat.mul_comm size i). symmetry. apply Nat.mul_assoc. Qed.

Definition mk_series (id code len : Z) (pay : list N) : series :=
  {| se_id := id; se_code := code; se_len := len; se_pay := pay |}.

(* the eager column of one FORMAT field *)
Definition eager_column (fk : name -> option fkind) (ns : nat) (kv : name * list N) : rres (list cellv) :=
  match fk (fst kv) with
  | None => RErr
  | Some k => if name_eqb (fst kv) GT then dec_gt_col ns (snd kv) else dec_fmt_kind k ns (snd kv)
  end.

Lemma cells_all_ok : forall P ns k pay cells r, chunks ns k pay = Some (cells, r) ->
  cells_all P ns k pay = true -> forallb P cells = true.
Proof. intros P ns k pay cells r H Ha. unfold cells_all in Ha. rewrite H in Ha. exact Ha. Qed.

Lemma column_agree : forall v44 fk ns k vb id code len pay ecol,
  byte_list pay ->
  read_type vb = Some (code, len, pay) ->
  eager_column fk ns (k, vb) = ROk ecol ->
  fmt_ascii fk ns (k, vb) = true ->
  exists lcol, lz_column v44 fk ns k (mk_series id code len pay) = ROk lcol /\
               map (cell_norm v44) lcol = map (cell_norm v44) ecol.
Proof.
  intros v44 fk ns k vb id code len pay ecol Hb Hr He Hp.
  unfold eager_column in He. cbn [fst snd] in He. unfold fmt_ascii in Hp. cbn [fst snd] in Hp. rewrite Hr in Hp. cbv zeta in Hp.
  unfold lz_column. destruct (fk k) as [kd|] eqn:Ek; [|discriminate].
  remember (znat (S (length pay)) len) as l eqn:El.
  destruct (name_eqb k GT) eqn:Eg.
  - (* GT *)
    unfold dec_gt_col in He. rewrite Hr in He.
    destruct (code =? 1) eqn:E1; [|cbn [andb] in He; unfold dec_gt in He; rewrite Hr, E1 in He; discriminate].
    destruct (len =? 0) eqn:E0; cbn [andb] in He.
    { (* a series without values: the missing value for every sample, in both readers *)
      injection He as Hec. subst ecol. exists (repeat (CG None) ns). split; [|reflexivity].
      rewrite <- (map_const_seq (CG None) ns 0). apply map_rres_ok_map. intros i _.
      unfold lz_cell. cbn [mk_series se_pay se_len se_code]. cbv zeta. rewrite E1, E0. reflexivity. }
    unfold dec_gt in He. rewrite Hr in He. rewrite E1, E0 in He.
    rewrite <- El in He.
    destruct (dec_gt_samples ns l pay) as [gs| |] eqn:Ed; try discriminate. cbn [rbind] in He. injection He as Hec. subst ecol.
    destruct (gt_samples_cells v44 ns l pay gs Hb Ed) as [cells [r [cs [Hc [Hm Hn]]]]].
    exists cs. split; [|exact Hn]. rewrite <- Hm.
    apply (column_by_cells _ _ ns (1 * l)%nat pay cells r Hc).
    intros i Hi. unfold lz_cell. cbn [mk_series se_pay se_len se_code]. cbv zeta. rewrite <- El. rewrite E1, E0.
    rewrite lz_get_mul. destruct (lz_get (i * (1 * l)) (1 * l) pay); reflexivity.
  - destruct kd as [sc|sc|sc|sc]; cbn [dec_fmt_kind] in He.
    + (* Integer *)
      unfold dec_fmt_int_gen in He. rewrite Hr in He.
      destruct (code =? 0) eqn:E0; [discriminate|].
      destruct ((len =? 0) && negb (code =? 7)) eqn:Ez; [discriminate|].
      destruct (width_of_code code) as [w|] eqn:Ew; [|discriminate]. rewrite <- El in He.
      destruct (sc && (len =? 1)) eqn:Esc.
      * destruct (dec_scalars w ns pay) as [lv| |] eqn:Ed; try discriminate. cbn [rbind] in He. injection He as Hec. subst ecol.
        destruct (int_scalars_cells w ns pay lv Ed) as [cells [r [Hc Hm]]].
        exists (map CI lv). split; [|reflexivity]. rewrite <- Hm.
        assert (l = 1%nat) as Hl1 by (subst l; rewrite znat_min; lia).
        replace (wbytes w) with (wbytes w * l)%nat in Hc by lia.
        apply (column_by_cells _ _ ns (wbytes w * l)%nat pay cells r Hc).
        intros i Hi. unfold lz_cell. cbn [mk_series se_pay se_len se_code]. cbv zeta. rewrite <- El. rewrite Ez, Ew, Esc.
        rewrite lz_get_mul. reflexivity.
      * destruct (dec_samples w ns l pay) as [ss| |] eqn:Ed; try discriminate. cbn [rbind] in He. injection He as Hec. subst ecol.
        destruct (int_samples_cells v44 w ns l pay ss Ed) as [cells [r [cs [Hc [Hm Hn]]]]].
        exists cs. split; [|exact Hn]. rewrite <- Hm.
        apply (column_by_cells _ _ ns (wbytes w * l)%nat pay cells r Hc).
        intros i Hi. unfold lz_cell. cbn [mk_series se_pay se_len se_code]. cbv zeta. rewrite <- El. rewrite Ez, Ew, Esc.
        rewrite lz_get_mul. reflexivity.
    + (* Float *)
      unfold dec_fmt_float_gen in He. rewrite Hr in He.
      destruct (code =? 0) eqn:E0; [discriminate|].
      destruct ((len =? 0) && negb (code =? 7)) eqn:Ez; [discriminate|].
      destruct (code =? 5) eqn:E5; [|discriminate]. rewrite <- El in He.
      assert (width_of_code code = None) as Ew by (replace code with 5 by lia; reflexivity).
      destruct (sc && (len =? 1)) eqn:Esc.
      * destruct (dec_fscalars ns pay) as [lv| |] eqn:Ed; try discriminate. cbn [rbind] in He. injection He as Hec. subst ecol.
        destruct (float_scalars_cells ns pay lv Ed) as [cells [r [Hc Hm]]].
        exists (map CF lv). split; [|reflexivity]. rewrite <- Hm.
        assert (l = 1%nat) as Hl1 by (subst l; rewrite znat_min; lia).
        replace 4%nat with (4 * l)%nat in Hc by lia.
        apply (column_by_cells _ _ ns (4 * l)%nat pay cells r Hc).
        intros i Hi. unfold lz_cell. cbn [mk_series se_pay se_len se_code]. cbv zeta. rewrite <- El. rewrite Ez, Ew, E5, Esc.
        rewrite lz_get_mul. reflexivity.
      * destruct (dec_fsamples ns l pay) as [ss| |] eqn:Ed; try discriminate. cbn [rbind] in He. injection He as Hec. subst ecol.
        destruct (float_samples_cells v44 ns l pay ss Ed) as [cells [r [cs [Hc [Hm Hn]]]]].
        exists cs. split; [|exact Hn]. rewrite <- Hm.
        apply (column_by_cells _ _ ns (4 * l)%nat pay cells r Hc).
        intros i Hi. unfold lz_cell. cbn [mk_series se_pay se_len se_code]. cbv zeta. rewrite <- El. rewrite Ez, Ew, E5, Esc.
        rewrite lz_get_mul. reflexivity.
    + (* Character *)
      assert (forall body, rbind (dec_fmt_cells ns vb) body = ROk ecol ->
        exists cells r, code =? 7 = true /\ ((len =? 0) && negb (code =? 7)) = false /\
          chunks ns (1 * l) pay = Some (cells, r) /\ Forall (fun x => utf8_valid (until_nul x) = true) cells /\
          body (map until_nul cells) = ROk ecol) as Hcells.
      { intros body Hbd. unfold dec_fmt_cells in Hbd. rewrite Hr in Hbd.
        destruct (code =? 0); [discriminate|].
        destruct ((len =? 0) && negb (code =? 7)) eqn:Ez; [discriminate|].
        destruct (code =? 7) eqn:E7; [|discriminate]. rewrite <- El in Hbd.
        destruct (dec_cells ns l pay) as [xs|] eqn:Ed; [|discriminate]. cbn [rbind] in Hbd.
        destruct (str_cells ns l pay xs Ed) as [cells [r [Hc [Hx Hv]]]]. subst xs.
        exists cells, r. replace (1 * l)%nat with l by lia. repeat split; assumption. }
      assert (forall F, (forall i, (i < ns)%nat ->
          lz_cell v44 false (Some (FChar sc)) (mk_series id code len pay) i =
          match lz_get (i * (1 * l)) (1 * l) pay with Some x => F x | None => RErr end) ->
          code =? 7 = true -> True) as _ by (intros; exact I).
      destruct sc.
      * unfold dec_fmt_chars in He. rewrite rbind_assoc in He. destruct (Hcells _ He) as [cells [r [E7 [Ez [Hc [Hv Hbody]]]]]].
        pose proof (cells_all_ok cell_first_ascii _ _ _ _ _ Hc) as Hall. replace (1 * l)%nat with l in Hall by lia. specialize (Hall Hp).
        destruct (map_rres first_char (map until_nul cells)) as [l0| |] eqn:Hb0; try discriminate Hbody. cbn [rbind] in Hbody. injection Hbody as Hec. subst ecol.
        exists (map CC l0). split; [|reflexivity].
        rewrite <- (fmt_chars_cells cells l0 Hb0 Hv Hall).
        apply (column_by_cells _ _ ns (1 * l)%nat pay cells r Hc).
        intros i Hi. unfold lz_cell. cbn [mk_series se_pay se_len se_code]. cbv zeta. rewrite <- El. rewrite Ez.
        assert (width_of_code code = None) as Ew by (replace code with 7 by lia; reflexivity). rewrite Ew, E7.
        rewrite lz_get_mul. reflexivity.
      * unfold dec_fmt_char_arrays in He. rewrite rbind_assoc in He. destruct (Hcells _ He) as [cells [r [E7 [Ez [Hc [Hv Hbody]]]]]].
        pose proof (cells_all_ok cell_pieces_first_ascii _ _ _ _ _ Hc) as Hall. replace (1 * l)%nat with l in Hall by lia. specialize (Hall Hp).
        match type of Hbody with rbind ?m _ = _ => destruct m as [l0| |] eqn:Hb0; try discriminate Hbody end. cbn [rbind] in Hbody. injection Hbody as Hec. subst ecol.
        exists (map CCV l0). split; [|reflexivity].
        rewrite <- (fmt_char_arrays_cells cells l0 Hb0 Hv Hall).
        apply (column_by_cells _ _ ns (1 * l)%nat pay cells r Hc).
        intros i Hi. unfold lz_cell. cbn [mk_series se_pay se_len se_code]. cbv zeta. rewrite <- El. rewrite Ez.
        assert (width_of_code code = None) as Ew by (replace code with 7 by lia; reflexivity). rewrite Ew, E7.
        rewrite lz_get_mul. reflexivity.
    + (* String *)
      assert (forall body, rbind (dec_fmt_cells ns vb) body = ROk ecol ->
        exists cells r, code =? 7 = true /\ ((len =? 0) && negb (code =? 7)) = false /\
          chunks ns (1 * l) pay = Some (cells, r) /\ Forall (fun x => utf8_valid (until_nul x) = true) cells /\
          body (map until_nul cells) = ROk ecol) as Hcells.
      { intros body Hbd. unfold dec_fmt_cells in Hbd. rewrite Hr in Hbd.
        destruct (code =? 0); [discriminate|].
        destruct ((len =? 0) && negb (code =? 7)) eqn:Ez; [discriminate|].
        destruct (code =? 7) eqn:E7; [|discriminate]. rewrite <- El in Hbd.
        destruct (dec_cells ns l pay) as [xs|] eqn:Ed; [|discriminate]. cbn [rbind] in Hbd.
        destruct (str_cells ns l pay xs Ed) as [cells [r [Hc [Hx Hv]]]]. subst xs.
        exists cells, r. replace (1 * l)%nat with l by lia. repeat split; assumption. }
      destruct sc.
      * unfold dec_fmt_strings in He. rewrite rbind_assoc in He. destruct (Hcells _ He) as [cells [r [E7 [Ez [Hc [Hv Hbody]]]]]].
        cbn [rbind] in Hbody. injection Hbody as Hec. subst ecol.
        exists (map CS (map str_of_piece (map until_nul cells))). split; [|reflexivity].
        rewrite <- (fmt_strings_cells cells Hv).
        apply (column_by_cells _ _ ns (1 * l)%nat pay cells r Hc).
        intros i Hi. unfold lz_cell. cbn [mk_series se_pay se_len se_code]. cbv zeta. rewrite <- El. rewrite Ez.
        assert (width_of_code code = None) as Ew by (replace code with 7 by lia; reflexivity). rewrite Ew, E7.
        rewrite lz_get_mul. reflexivity.
      * unfold dec_fmt_str_arrays in He. rewrite rbind_assoc in He. destruct (Hcells _ He) as [cells [r [E7 [Ez [Hc [Hv Hbody]]]]]].
        cbn [rbind] in Hbody. injection Hbody as Hec. subst ecol.
        exists (map CSV (map cell_strs (map until_nul cells))). split; [|reflexivity].
        rewrite <- (fmt_str_arrays_cells cells Hv).
        apply (column_by_cells _ _ ns (1 * l)%nat pay cells r Hc).
        intros i Hi. unfold lz_cell. cbn [mk_series se_pay se_len se_code]. cbv zeta. rewrite <- El. rewrite Ez.
        assert (width_of_code code = None) as Ew by (replace code with 7 by lia; reflexivity). rewrite Ew, E7.
        rewrite lz_get_mul. reflexivity.
Qed.
