(* Proofs about NV.Bcf.Typed: descriptor round trip, INFO Integer / Float scalar round trips. *)
From Coq Require Import ZArith NArith List Bool Lia ZifyBool ZifyNat ZifyN.
From NV Require Import Bcf.Ints Bcf.IntsProofs Bcf.Typed.
Import ListNotations.
Open Scope Z_scope.

Lemma valid_code_range : forall c, valid_code c = true -> 0 <= c <= 7.
Proof. intros c H. unfold valid_code in H. lia. Qed.

Lemma desc_byte_val : forall code l, 0 <= code <= 7 -> 0 <= l <= 15 ->
  Z.of_N (desc_byte code l) = l * 16 + code.
Proof. intros code l Hc Hl. unfold desc_byte. rewrite Z.min_l by lia. rewrite Z2N.id by lia. reflexivity. Qed.

Lemma dec_type_simple : forall f code l r, valid_code code = true -> 0 <= l < 15 ->
  dec_type (S f) (desc_byte code l :: r) = Some (code, l, r).
Proof.
  intros f code l r Hv Hl. pose proof (valid_code_range _ Hv) as Hc.
  cbn [dec_type]. rewrite desc_byte_val by lia.
  replace ((l * 16 + code) mod 16) with code by (symmetry; rewrite Z.add_comm, Z.mod_add by lia; apply Z.mod_small; lia).
  replace ((l * 16 + code) / 16) with l by (symmetry; rewrite Z.add_comm, Z.div_add by lia; rewrite Z.div_small by lia; lia).
  destruct (l =? 15) eqn:E; [lia|]. rewrite Hv. reflexivity.
Qed.

Lemma dec_type_overflow : forall f code w len rest,
  valid_code code = true -> 0 <= len -> min_value w <= len <= wmax w ->
  dec_type (S (S f)) (desc_byte code 15 :: desc_byte (wcode w) 1 :: enc_int w len ++ rest)
  = Some (code, len, rest).
Proof.
  intros f code w len rest Hv H0 Hr. pose proof (valid_code_range _ Hv) as Hc.
  remember (S f) as f1 eqn:Ef. cbn [dec_type]. rewrite desc_byte_val by lia.
  replace ((15 * 16 + code) mod 16) with code by (symmetry; rewrite Z.add_comm, Z.mod_add by lia; apply Z.mod_small; lia).
  replace ((15 * 16 + code) / 16) with 15 by (symmetry; rewrite Z.add_comm, Z.div_add by lia; rewrite Z.div_small by lia; lia).
  cbn [Z.eqb Pos.eqb]. subst f1.
  rewrite dec_type_simple by (destruct w; cbn; lia || reflexivity).
  assert (width_of_code (wcode w) = Some w) as Ew by (destruct w; reflexivity). rewrite Ew.
  cbn [Z.eqb Pos.eqb]. rewrite take_app by apply enc_int_length.
  rewrite dec_enc_int by (unfold min_value in Hr; lia).
  rewrite classify_value by lia.
  destruct (0 <=? len) eqn:E0; [|lia].
  assert (Z.of_N (desc_byte (wcode w) 1) / 16 =? 15 = false) as Ec by (destruct w; reflexivity).
  rewrite Ec. rewrite Hv. reflexivity.
Qed.

(* bcf_descriptor_roundtrip: every type code and every length 0..2^31-1 *)
Lemma descriptor_roundtrip : forall code len rest,
  valid_code code = true -> 0 <= len <= 2147483647 ->
  exists bs, enc_type code len = Ok bs /\ read_type (bs ++ rest) = Some (code, len, rest).
Proof.
  intros code len rest Hv Hl. unfold enc_type, read_type.
  destruct (len <? 15) eqn:E1.
  - eexists; split; [reflexivity|]. cbn [app length]. apply dec_type_simple; [exact Hv|lia].
  - destruct (len <=? 127) eqn:E2.
    + eexists; split; [reflexivity|]. cbn [app length].
      apply (dec_type_overflow _ code W8); [exact Hv|lia|unfold min_value; cbn; lia].
    + destruct (len <=? 32767) eqn:E3.
      * eexists; split; [reflexivity|]. cbn [app length].
        apply (dec_type_overflow _ code W16); [exact Hv|lia|unfold min_value; cbn; lia].
      * destruct (len <=? 2147483647) eqn:E4; [|lia].
        eexists; split; [reflexivity|]. cbn [app length].
        apply (dec_type_overflow _ code W32); [exact Hv|lia|unfold min_value; cbn; lia].
Qed.

Lemma enc_type_err : forall code len, 2147483647 < len -> enc_type code len = ErrInput.
Proof.
  intros code len H. unfold enc_type.
  destruct (len <? 15) eqn:E1; [lia|]. destruct (len <=? 127) eqn:E2; [lia|].
  destruct (len <=? 32767) eqn:E3; [lia|]. destruct (len <=? 2147483647) eqn:E4; [lia|reflexivity].
Qed.

(* read_type does not depend on the fuel once it is at least 2 for writer-made descriptors: used
   below with the fuel read_type supplies *)
Lemma read_type_cons : forall b r, read_type (b :: r) = dec_type (S (S (length r))) (b :: r).
Proof. reflexivity. Qed.

(* ---------------------------------------------------------------- INFO Integer scalar *)
(* bcf_int_width_sound *)
Lemma int_width_sound : forall n, -2147483640 <= n <= 2147483647 ->
  exists w bs,
    select_scalar n = Some w /\
    min_value w <= n <= wmax w /\
    classify w n = IValue n /\
    enc_info_int n = Ok bs /\
    dec_info_int bs = ROk (RInt n).
Proof.
  intros n H. destruct (select_scalar_total n H) as [w Hw].
  pose proof (select_scalar_sound n w (proj2 H) Hw) as Hs.
  exists w. eexists. split; [exact Hw|]. split; [exact Hs|].
  split; [apply classify_value; lia|].
  unfold enc_info_int. rewrite Hw. split; [reflexivity|].
  unfold dec_info_int, dec_info_int_gen. rewrite read_type_cons.
  rewrite dec_type_simple by (destruct w; cbn; lia || reflexivity).
  assert (wcode w =? 0 = false) as E0 by (destruct w; reflexivity). rewrite E0.
  assert (width_of_code (wcode w) = Some w) as Ew by (destruct w; reflexivity). rewrite Ew.
  cbn [Z.eqb Pos.eqb].
  rewrite <- (app_nil_r (enc_int w n)). rewrite take_app by apply enc_int_length.
  rewrite dec_enc_int by (unfold min_value in Hs; lia).
  rewrite classify_value by lia. reflexivity.
Qed.

Lemma int_below_min_is_error : forall n, n < -2147483640 -> enc_info_int n = ErrInput.
Proof. intros n H. unfold enc_info_int. rewrite select_scalar_err by exact H. reflexivity. Qed.

(* ---------------------------------------------------------------- floats *)
Definition reserved_nan (b : Z) : Prop := 2139095041 <= b <= 2139095047.

Lemma classify_f_value : forall b, ~ reserved_nan b -> classify_f b = FValue b.
Proof.
  intros b H. unfold reserved_nan in H. unfold classify_f, f_missing, f_eov.
  destruct (b =? 2139095041) eqn:E1; [lia|]. destruct (b =? 2139095042) eqn:E2; [lia|].
  destruct ((2139095043 <=? b) && (b <=? 2139095047)) eqn:E3; [lia|reflexivity].
Qed.

Lemma le_val_enc_f32 : forall b, 0 <= b < 4294967296 -> le_val (enc_f32 b) = b.
Proof.
  intros b H. unfold enc_f32. rewrite le_val_le_bytes.
  change (256 ^ Z.of_nat 4) with 4294967296. apply Z.mod_small. exact H.
Qed.

(* bcf_float_roundtrip (INFO scalar): every bit pattern outside the reserved NaNs, including the
   canonical NaN 0x7fc00000 and any other NaN payload *)
Lemma float_roundtrip : forall b, 0 <= b < 4294967296 -> ~ reserved_nan b ->
  exists bs, enc_info_float b = Ok bs /\ dec_info_float bs = ROk (RFloat b).
Proof.
  intros b Hb Hr. eexists. split; [reflexivity|].
  unfold dec_info_float, dec_info_float_gen. rewrite read_type_cons.
  rewrite dec_type_simple by (reflexivity || lia).
  cbn [Z.eqb Pos.eqb]. rewrite <- (app_nil_r (enc_f32 b)).
  rewrite take_app by apply le_bytes_length.
  rewrite le_val_enc_f32 by exact Hb. rewrite classify_f_value by exact Hr. reflexivity.
Qed.

(* the missing pattern given as a value is read back as missing: outside the reserved NaNs is
   necessary *)
Lemma float_missing_pattern_refuted :
  exists b bs, enc_info_float b = Ok bs /\ dec_info_float bs = ROk RNone.
Proof. exists f_missing. eexists. split; [reflexivity|]. vm_compute. reflexivity. Qed.

(* ---------------------------------------------------------------- vectors of entries *)
Lemma chunks_flat_map : forall w raws rest,
  chunks (length raws) (wbytes w) (flat_map (enc_int w) raws ++ rest)
  = Some (map (enc_int w) raws, rest).
Proof.
  induction raws as [|x raws IH]; intros rest; [reflexivity|].
  cbn [length chunks flat_map map]. rewrite <- app_assoc.
  rewrite take_app by apply enc_int_length. rewrite IH. reflexivity.
Qed.

Lemma sample_entries_pad : forall w k, sample_entries w (map (enc_int w) (repeat (wmin w + 1) k)) = ROk [].
Proof.
  induction k as [|k IH]; [reflexivity|].
  cbn [repeat map sample_entries]. rewrite dec_enc_int by (destruct w; cbn; lia).
  rewrite classify_eov. exact IH.
Qed.

Definition entry_raw (w : width) (v : option Z) : Z := match v with Some n => n | None => wmin w end.

Lemma sample_entries_values : forall w vs tail,
  (forall n, In (Some n) vs -> min_value w <= n <= wmax w) ->
  sample_entries w (map (enc_int w) (map (entry_raw w) vs ++ tail))
  = rbind (sample_entries w (map (enc_int w) tail)) (fun l => ROk (vs ++ l)).
Proof.
  induction vs as [|v vs IH]; intros tail H.
  - cbn [map app]. destruct (sample_entries w (map (enc_int w) tail)); reflexivity.
  - cbn [map app sample_entries].
    assert (forall n, In (Some n) vs -> min_value w <= n <= wmax w) as H' by (intros n Hn; apply H; right; exact Hn).
    destruct v as [n|]; cbn [entry_raw].
    + specialize (H n (or_introl eq_refl)).
      rewrite dec_enc_int by (unfold min_value in H; lia).
      rewrite classify_value by lia. rewrite IH by exact H'.
      destruct (sample_entries w (map (enc_int w) tail)); reflexivity.
    + rewrite dec_enc_int by (destruct w; cbn; lia). rewrite classify_missing.
      rewrite IH by exact H'. destruct (sample_entries w (map (enc_int w) tail)); reflexivity.
Qed.

Lemma sample_raws_length : forall w m s, (sample_len s <= m)%nat ->
  length (sample_raws w m s) = m.
Proof.
  intros w m s Hl. destruct s as [vs|]; cbn [sample_raws sample_len] in *.
  - rewrite app_length, map_length, repeat_length. lia.
  - cbn [length]. rewrite repeat_length. lia.
Qed.

Definition sample_fits (w : width) (s : sample) : Prop :=
  forall vs n, s = Some vs -> In (Some n) vs -> min_value w <= n <= wmax w.

(* one sample: its entries, then EndOfVector padding up to m, read back as the entries alone;
   a missing sample reads back as one missing entry *)
Lemma sample_roundtrip : forall w m s,
  sample_fits w s ->
  sample_entries w (map (enc_int w) (sample_raws w m s))
  = ROk (match s with Some vs => vs | None => [None] end).
Proof.
  intros w m s H. destruct s as [vs|]; cbn [sample_raws].
  - change (map (fun v => match v with Some n => n | None => wmin w end) vs) with (map (entry_raw w) vs).
    rewrite sample_entries_values by (intros n Hn; apply (H vs n eq_refl Hn)).
    rewrite sample_entries_pad. cbn [rbind]. rewrite app_nil_r. reflexivity.
  - cbn [map sample_entries]. rewrite dec_enc_int by (destruct w; cbn; lia).
    rewrite classify_missing. rewrite sample_entries_pad. reflexivity.
Qed.

Definition norm (s : sample) : sample := match s with Some vs => norm_sample vs | None => None end.

(* the whole series, for ANY width that fits every value and ANY common length m that is at
   least every sample's length (a missing sample has length 1): samples of unequal length come
   back with their own lengths *)
Lemma series_roundtrip : forall w m vals rest,
  (forall s, In s vals -> sample_fits w s) ->
  (forall s, In s vals -> (sample_len s <= m)%nat) ->
  dec_samples w (length vals) m
    (flat_map (fun s => flat_map (enc_int w) (sample_raws w m s)) vals ++ rest)
  = ROk (map norm vals).
Proof.
  induction vals as [|s vals IH]; intros rest Hf Hl; [reflexivity|].
  cbn [length dec_samples flat_map map]. rewrite <- app_assoc.
  pose proof (sample_raws_length w m s (Hl s (or_introl eq_refl))) as Len.
  rewrite <- Len at 1. rewrite chunks_flat_map.
  rewrite sample_roundtrip by (apply Hf; left; reflexivity).
  cbn [rbind]. rewrite IH.
  - cbn [rbind]. destruct s as [vs|]; reflexivity.
  - intros s' Hs'. apply Hf. right. exact Hs'.
  - intros s' Hs'. apply Hl. right. exact Hs'.
Qed.

(* a concrete series through the writer's own width / length selection *)
Example series_example :
  exists bs, enc_fmt_ints [Some [Some 1; None; Some (-121)]; None; Some [Some 300]] = Ok bs /\
             dec_fmt_ints 3 bs = ROk (BVectors [Some [Some 1; None; Some (-121)]; None; Some [Some 300]]).
Proof. eexists. split; [vm_compute; reflexivity|]. vm_compute. reflexivity. Qed.

(* ---------------------------------------------------------------- the writer's own choice of
   width and common length satisfies the premises of series_roundtrip *)
Lemma fold_max_ge : forall vals m0,
  (m0 <= fold_left (fun m s => Nat.max m (sample_len s)) vals m0)%nat /\
  (forall s, In s vals -> (sample_len s <= fold_left (fun m s => Nat.max m (sample_len s)) vals m0)%nat).
Proof.
  induction vals as [|s vals IH]; intros m0; cbn [fold_left]; [split; [lia|intros s []]|].
  destruct (IH (Nat.max m0 (sample_len s))) as [A B]. split; [lia|].
  intros s' [E|Hs']; [subst s'; lia|apply B; exact Hs'].
Qed.

Lemma scan_within : forall lo hi vs acc, lo <= 0 <= hi ->
  (forall n, In (Some n) vs -> lo <= n <= hi) -> lo <= fst acc -> snd acc <= hi ->
  lo <= fst (scan acc vs) /\ snd (scan acc vs) <= hi.
Proof.
  intros lo hi. induction vs as [|v vs IH]; intros acc Hz H Ha Hb; [unfold scan; cbn [fold_left]; lia|].
  rewrite scan_cons. apply IH; [exact Hz|intros n Hn; apply H; right; exact Hn| |].
  - destruct v as [n|]; unfold scan_step; cbn [fst snd]; [specialize (H n (or_introl eq_refl))|]; lia.
  - destruct v as [n|]; unfold scan_step; cbn [fst snd]; [specialize (H n (or_introl eq_refl))|]; lia.
Qed.

Definition entries_within (lo hi : Z) (vals : list sample) : Prop :=
  forall vs n, In (Some vs) vals -> In (Some n) vs -> lo <= n <= hi.

Lemma scan_samples_within : forall lo hi vals acc, lo <= 0 <= hi ->
  entries_within lo hi vals -> lo <= fst acc -> snd acc <= hi ->
  lo <= fst (fold_left scan_sample vals acc) /\ snd (fold_left scan_sample vals acc) <= hi.
Proof.
  intros lo hi. induction vals as [|s vals IH]; intros acc Hz H Ha Hb; cbn [fold_left]; [lia|].
  assert (entries_within lo hi vals) as H' by (intros vs n Hv Hn; apply (H vs n); [right; exact Hv|exact Hn]).
  destruct s as [vs|]; cbn [scan_sample]; [|apply IH; assumption].
  destruct (scan_within lo hi vs acc Hz) as [A B]; [intros n Hn; apply (H vs n); [left; reflexivity|exact Hn]|exact Ha|exact Hb|].
  apply IH; assumption.
Qed.

Lemma scan_samples_mono : forall vals acc,
  fst (fold_left scan_sample vals acc) <= fst acc /\ snd acc <= snd (fold_left scan_sample vals acc).
Proof.
  induction vals as [|s vals IH]; intros acc; cbn [fold_left]; [lia|].
  specialize (IH (scan_sample acc s)).
  assert (fst (scan_sample acc s) <= fst acc /\ snd acc <= snd (scan_sample acc s)) as S
    by (destruct s as [vs|]; cbn [scan_sample]; [apply scan_step_mono|lia]).
  lia.
Qed.

Lemma scan_samples_bounds : forall vals acc vs n, In (Some vs) vals -> In (Some n) vs ->
  fst (fold_left scan_sample vals acc) <= n <= snd (fold_left scan_sample vals acc).
Proof.
  induction vals as [|s vals IH]; intros acc vs n Hv Hn; [destruct Hv|].
  cbn [fold_left]. destruct Hv as [E|Hv]; [|apply (IH _ vs n Hv Hn)].
  subst s. cbn [scan_sample]. pose proof (scan_bounds vs acc n Hn) as B.
  pose proof (scan_samples_mono vals (scan acc vs)) as M. lia.
Qed.

(* bcf_int_vector_roundtrip: per-sample Integer vectors with missing entries, missing samples and
   unequal lengths, through the writer's own width and length selection *)
Lemma fmt_int_vector_roundtrip : forall vals,
  entries_within (-2147483640) 2147483647 vals ->
  (1 <= max_len vals)%nat -> Z.of_nat (max_len vals) <= 2147483647 ->
  exists bs, enc_fmt_ints vals = Ok bs /\
             dec_fmt_ints (length vals) bs = ROk (BVectors (map norm vals)).
Proof.
  intros vals Hw Hm1 Hm2. unfold enc_fmt_ints.
  destruct (scan_samples_within (-2147483640) 2147483647 vals scan_init ltac:(lia) Hw
              ltac:(cbn; lia) ltac:(cbn; lia)) as [Lo Hi].
  fold (scan_samples vals) in Lo, Hi.
  destruct (select_minmax_total (fst (scan_samples vals)) (snd (scan_samples vals)) Lo) as [w Ew].
  rewrite Ew. pose proof (select_minmax_sound _ _ w Hi Ew) as [S1 S2].
  destruct (descriptor_roundtrip (wcode w) (Z.of_nat (max_len vals))
              (flat_map (fun s => flat_map (enc_int w) (sample_raws w (max_len vals) s)) vals))
    as [d [Ed Rd]]; [destruct w; reflexivity|lia|].
  rewrite Ed. cbn [bind]. eexists. split; [reflexivity|].
  unfold dec_fmt_ints, dec_fmt_int_gen. rewrite Rd.
  assert (wcode w =? 0 = false) as E0 by (destruct w; reflexivity). rewrite E0.
  assert (Z.of_nat (max_len vals) =? 0 = false) as E1 by lia. rewrite E1. cbn [andb].
  assert (width_of_code (wcode w) = Some w) as Ew' by (destruct w; reflexivity). rewrite Ew'.
  assert (forall s, In s vals -> (sample_len s <= max_len vals)%nat) as Hall
    by (intros s Hs; apply (proj2 (fold_max_ge vals 0%nat)); exact Hs).
  rewrite znat_id.
  2:{ rewrite (flat_map_len_const _ (max_len vals * wbytes w)%nat).
      - destruct vals as [|s0 vals']; [cbn in Hm1; lia|]. cbn [length]. destruct w; cbn [wbytes]; nia.
      - intros s Hs. rewrite (flat_map_len_const (enc_int w) (wbytes w)) by (intros x _; apply enc_int_length).
        rewrite sample_raws_length by (apply Hall; exact Hs). reflexivity. }
  rewrite <- (app_nil_r (flat_map _ vals)).
  rewrite series_roundtrip; [reflexivity| |].
  - intros s Hs vs n E Hn. subst s.
    pose proof (scan_samples_bounds vals scan_init vs n Hs Hn) as B.
    fold (scan_samples vals) in B. lia.
  - intros s Hs. apply (proj2 (fold_max_ge vals 0%nat)). exact Hs.
Qed.

(* a value below MIN+8 anywhere in the series is an error *)
Lemma fmt_int_vector_below_min_is_error : forall vals vs n,
  In (Some vs) vals -> In (Some n) vs -> n < -2147483640 -> enc_fmt_ints vals = ErrInput.
Proof.
  intros vals vs n Hv Hn Hlt. unfold enc_fmt_ints.
  pose proof (scan_samples_bounds vals scan_init vs n Hv Hn) as B. fold (scan_samples vals) in B.
  rewrite select_minmax_err by lia. reflexivity.
Qed.

(* ---------------------------------------------------------------- the all-missing series
   (`GT:AD 0/1:. 0/0:.`): one missing entry per sample, read back as missing samples *)
Lemma max_len_all_none : forall vals m0, (forall s, In s vals -> s = None) ->
  fold_left (fun m s => Nat.max m (sample_len s)) vals m0
  = match vals with [] => m0 | _ => Nat.max m0 1 end.
Proof.
  induction vals as [|s vals IH]; intros m0 H; [reflexivity|].
  cbn [fold_left]. rewrite (H s (or_introl eq_refl)). cbn [sample_len].
  rewrite IH by (intros s' Hs'; apply H; right; exact Hs').
  destruct vals; [reflexivity|lia].
Qed.

Lemma map_norm_all_none : forall vals, (forall s, In s vals -> s = None) -> map norm vals = vals.
Proof.
  induction vals as [|s vals IH]; intros H; [reflexivity|].
  cbn [map]. rewrite IH by (intros s' Hs'; apply H; right; exact Hs').
  rewrite (H s (or_introl eq_refl)). reflexivity.
Qed.

Lemma all_missing_series_roundtrip : forall vals, vals <> [] -> (forall s, In s vals -> s = None) ->
  exists bs, enc_fmt_ints vals = Ok bs /\ dec_fmt_ints (length vals) bs = ROk (BVectors vals).
Proof.
  intros vals Hne H.
  assert (max_len vals = 1%nat) as M
    by (unfold max_len; rewrite max_len_all_none by exact H; destruct vals; [contradiction|reflexivity]).
  destruct (fmt_int_vector_roundtrip vals) as [bs [E D]].
  - intros vs n Hv Hn. specialize (H _ Hv). discriminate H.
  - lia.
  - lia.
  - exists bs. split; [exact E|]. rewrite map_norm_all_none in D by exact H. exact D.
Qed.

(* ---------------------------------------------------------------- INFO field with a missing
   value (`DP=.`): written as the typed MISSING value, read back as missing for every type *)
Lemma info_missing_roundtrip :
  exists bs, enc_info_missing = Ok bs /\
    dec_info_int bs = ROk RNone /\ dec_info_ints bs = ROk RNone /\
    dec_info_float bs = ROk RNone /\ dec_info_floats bs = ROk RNone /\
    dec_info_string bs = ROk None.
Proof. eexists. split; [reflexivity|]. vm_compute. repeat split; reflexivity. Qed.

(* ---------------------------------------------------------------- end-of-vector / reserved
   float patterns are rejected by the vector and per-sample writers (no panic, no bytes) *)
Definition eov_or_reserved (b : Z) : Prop := 2139095042 <= b <= 2139095047.

Lemma classify_f_eov_or_reserved : forall b, eov_or_reserved b ->
  classify_f b = FEov \/ exists c, classify_f b = FReserved c.
Proof.
  intros b H. unfold eov_or_reserved in H. unfold classify_f, f_missing, f_eov.
  destruct (b =? 2139095041) eqn:E1; [lia|].
  destruct (b =? 2139095042) eqn:E2; [left; reflexivity|].
  destruct ((2139095043 <=? b) && (b <=? 2139095047)) eqn:E3; [right; eexists; reflexivity|lia].
Qed.

Lemma float_eov_or_reserved_is_error : forall b, eov_or_reserved b ->
  enc_info_floats [Some b] = ErrInput /\ enc_fmt_float [Some b] = ErrInput /\
  enc_fmt_floats [Some [Some b]] = ErrInput.
Proof.
  intros b H. unfold enc_info_floats, enc_fmt_float, enc_fmt_floats.
  cbn [map_res info_fentry fentry has_vector existsb orb fsample_raws]. unfold validate_float.
  destruct (classify_f_eov_or_reserved b H) as [E|[c E]]; rewrite E; cbn; repeat split; reflexivity.
Qed.
