(* Proofs about NV.Bcf.Bridge: every INFO field a RecordBuf can hold is read back from BCF through
   the header's Number/Type dispatch as itself outside the class string-special-chars; a sites-only
   record (no FORMAT keys, no samples, header without samples) written by bcf_write is read back by
   bcf_read as itself, and the VCF re-read (C09's line theorem) has the same content. *)
From Coq Require Import ZArith NArith List Bool Lia ZifyBool ZifyNat ZifyN.
From NV Require Import Base.Percent Text.TextBase Text.TextBaseProofs Vcf.Values Vcf.Line.
From NV Require Import Bcf.Ints Bcf.IntsProofs Bcf.Typed Bcf.TypedProofs Bcf.VectorsProofs
  Bcf.Strings Bcf.StringsProofs Bcf.StringMap Bcf.StringMapProofs Bcf.Record Bcf.RecordProofs
  Bcf.Genotype Bcf.GenotypeProofs Bcf.BlockProofs Bcf.RecordTyped Bcf.StringsExact Bcf.Bridge.
Import ListNotations.
Open Scope Z_scope.

(* ---------------------------------------------------------------- the special class, as Props *)
Lemma existsb_false_in : forall (b : N) (t : list N), existsb (N.eqb b) t = false -> ~ In b t.
Proof.
  intros b t H Hi. assert (existsb (N.eqb b) t = true) as X.
  { apply existsb_exists. exists b. split; [exact Hi|apply N.eqb_refl]. }
  rewrite X in H. discriminate.
Qed.

Lemma any_some_false : forall A (f : A -> bool) l a, any_some f l = false -> In (Some a) l -> f a = false.
Proof.
  intros A f l a H Hi. unfold any_some in H.
  destruct (f a) eqn:E; [|reflexivity].
  assert (existsb (fun o : option A => match o with Some a0 => f a0 | None => false end) l = true) as X.
  { apply existsb_exists. exists (Some a). split; [exact Hi|exact E]. }
  rewrite X in H. discriminate.
Qed.

Lemma chr_plain : forall c, chr_special c = false -> plain_char c.
Proof.
  intros c H. unfold chr_special in H. unfold plain_char.
  destruct (N.eqb c Strings.dot) eqn:E1; [discriminate|]. destruct (N.eqb c comma) eqn:E2; [discriminate|].
  destruct (N.eqb c nul) eqn:E3; [discriminate|].
  apply N.eqb_neq in E1. apply N.eqb_neq in E2. apply N.eqb_neq in E3. repeat split; assumption.
Qed.

Lemma elt_f : forall t, elt_special t = false -> elem_f t.
Proof.
  intros t H. unfold elt_special, has_byte in H. unfold elem_f.
  destruct (bytes_eqb t [Strings.dot]) eqn:E1; [discriminate|]. cbn [orb] in H.
  destruct (existsb (N.eqb comma) t) eqn:E2; [discriminate|]. cbn [orb] in H.
  split.
  - intro X. rewrite X in E1. rewrite bytes_eqb_refl in E1. discriminate.
  - split; apply existsb_false_in; assumption.
Qed.

Lemma chr_i : forall c, chr_special_i c = false -> char_i c.
Proof.
  intros c H. unfold chr_special_i in H. unfold char_i.
  destruct (N.eqb c Strings.dot) eqn:E1; [discriminate|]. destruct (N.eqb c comma) eqn:E2; [discriminate|].
  apply N.eqb_neq in E1. apply N.eqb_neq in E2. split; assumption.
Qed.

Lemma elt_i : forall t, elt_special_i t = false -> elem_i t.
Proof.
  intros t H. unfold elt_special_i, has_byte in H. unfold elem_i.
  destruct (bytes_eqb t [Strings.dot]) eqn:E1; [discriminate|]. cbn [orb] in H.
  split.
  - intro X. rewrite X in E1. rewrite bytes_eqb_refl in E1. discriminate.
  - apply existsb_false_in; assumption.
Qed.

(* ---------------------------------------------------------------- INFO values *)
Definition fbits_ok (b : N) : Prop := Z.of_N b < 4294967296 /\ ~ reserved_nan (Z.of_N b).

(* the ranges BCF can hold (what the writer does outside them is an error: the *_is_error theorems) *)
Definition bval_ok (v : value) : Prop :=
  match v with
  | VInteger z => -2147483640 <= z <= 2147483647
  | VFloat b => fbits_ok b
  | VFlag => True
  | VCharacter c => (c < 128)%N
  | VString s => utf8_valid s = true /\ Z.of_nat (length s) <= 2147483647
  | VIntArr l => l <> [] /\ l <> [None] /\ (forall n, In (Some n) l -> -2147483640 <= n <= 2147483647) /\
                 Z.of_nat (length l) <= 2147483647
  | VFloatArr l => l <> [] /\ l <> [None] /\ (forall b, In (Some b) l -> fbits_ok b) /\
                   Z.of_nat (length l) <= 2147483647
  | VCharArr l => l <> [] /\ utf8_valid (Strings.join comma (map char_piece l)) = true /\
                  Z.of_nat (length (Strings.join comma (map char_piece l))) <= 2147483647
  | VStrArr l => l <> [] /\ utf8_valid (Strings.join comma (map str_piece l)) = true /\
                 Z.of_nat (length (Strings.join comma (map str_piece l))) <= 2147483647
  | VGenotype _ => False
  end.

(* the value is of the variant the header kind describes *)
Definition ikind_val (kd : ikind) (v : value) : Prop :=
  match kd, v with
  | KInt false, VInteger _ | KInt true, VIntArr _
  | KFloat false, VFloat _ | KFloat true, VFloatArr _
  | KFlag, VFlag
  | KChar false, VCharacter _ | KChar true, VCharArr _
  | KStr false, VString _ | KStr true, VStrArr _ => True
  | _, _ => False
  end.

Lemma map_on_oz : forall l, map on (map oz l) = l.
Proof.
  induction l as [|[b|] l IH]; cbn [map oz on option_map]; [reflexivity| |]; rewrite IH; [|reflexivity].
  now rewrite N2Z.id.
Qed.

Lemma sd_string : forall s vb, enc_info_string s = Ok vb -> sd false 1 vb.
Proof. exact sd_info_string. Qed.

Theorem info_val_rt : forall kd v,
  ikind_val kd v -> bval_ok v -> info_special v = false ->
  exists vb iv, enc_info_val (Some v) = Ok vb /\ sd false 1 vb /\
                dec_info_kind kd vb = ROk iv /\ value_of_ival iv = Some v.
Proof.
  intros kd v Hk Hok Hsp.
  destruct v as [z|b| |c|s|l|l|l|l|g]; cbn [bval_ok] in Hok; try contradiction;
    destruct kd as [[|]|[|]| |[|]|[|]]; cbn [ikind_val] in Hk; try contradiction; cbn [enc_info_val].
  - (* Integer *)
    destruct (int_width_sound z Hok) as (w & bs & _ & _ & _ & E & D).
    exists bs, (IV (RInt z)). split; [exact E|]. split; [exact (sd_info_int z bs E)|].
    unfold dec_info_int in D. cbn [dec_info_kind]. rewrite D. split; reflexivity.
  - (* Float *)
    destruct Hok as [Hb Hr].
    destruct (float_roundtrip (Z.of_N b) (conj (N2Z.is_nonneg b) Hb) Hr) as (bs & E & D).
    exists bs, (IV (RFloat (Z.of_N b))). split; [exact E|]. split; [exact (sd_info_float _ bs E)|].
    unfold dec_info_float in D. cbn [dec_info_kind]. rewrite D. cbn [rbind value_of_ival].
    split; [reflexivity|]. now rewrite N2Z.id.
  - (* Flag *)
    exists [0%N], IFlagV. split; [reflexivity|]. split; [exact (sd_info_missing _ eq_refl)|].
    split; reflexivity.
  - (* Character *)
    destruct (info_char_roundtrip c Hok) as (bs & E & D).
    exists bs, (IS (SChar c)). split; [exact E|]. split; [exact (sd_string _ _ E)|].
    cbn [dec_info_kind]. rewrite D. split; reflexivity.
  - (* String *)
    destruct Hok as [Hu Hl]. cbn [info_special] in Hsp.
    assert (s <> []) as Hne by (destruct s; [discriminate|discriminate]).
    destruct (info_str_roundtrip s Hne Hu Hl) as (bs & E & D).
    exists bs, (IS (SStr s)). split; [exact E|]. split; [exact (sd_string _ _ E)|].
    cbn [dec_info_kind]. rewrite D. split; reflexivity.
  - (* Integer vector *)
    destruct Hok as (Hne & Hn1 & Hr & Hl).
    destruct (info_int_vector_roundtrip l Hne Hr Hl) as (bs & E & D).
    exists bs, (IV (RInts l)). split; [exact E|]. split; [exact (sd_info_ints l bs E)|].
    unfold dec_info_ints in D. cbn [dec_info_kind]. rewrite D.
    assert (norm_info_ints l = RInts l) as X.
    { unfold norm_info_ints. destruct l as [|[x|] [|y t]]; try reflexivity. contradiction. }
    rewrite X. split; reflexivity.
  - (* Float vector *)
    destruct Hok as (Hne & Hn1 & Hr & Hl).
    assert (map oz l <> []) as Hne' by (destruct l; [contradiction|discriminate]).
    assert (floats_ok (map oz l)) as Hf.
    { intros b Hb. apply in_map_iff in Hb. destruct Hb as ([x|] & Ex & Hx); cbn [oz option_map] in Ex; [|discriminate].
      inversion Ex; subst b. destruct (Hr x Hx) as [A B]. split; [split; [apply N2Z.is_nonneg|exact A]|exact B]. }
    assert (Z.of_nat (length (map oz l)) <= 2147483647) as Hl' by (rewrite map_length; exact Hl).
    destruct (info_float_vector_roundtrip (map oz l) Hne' Hf Hl') as (bs & E & D).
    exists bs, (IV (RFloats (map oz l))). split; [exact E|]. split; [exact (sd_info_floats _ bs E)|].
    unfold dec_info_floats in D. cbn [dec_info_kind]. rewrite D.
    assert (norm_info_floats (map oz l) = RFloats (map oz l)) as X.
    { unfold norm_info_floats. destruct l as [|[x|] [|y t]]; try reflexivity. contradiction. }
    rewrite X. cbn [rbind value_of_ival]. split; [reflexivity|]. now rewrite map_on_oz.
  - (* Character vector *)
    destruct Hok as (Hne & Hu & Hl). cbn [info_special] in Hsp.
    assert (chars_i l) as Hc by (intros c Hc; apply chr_i; exact (any_some_false _ _ _ _ Hsp Hc)).
    destruct (info_chars_roundtrip_x l Hne Hc Hu Hl) as (bs & E & D).
    exists bs, (IS (SChars l)). split; [exact E|]. split; [exact (sd_string _ _ E)|].
    cbn [dec_info_kind]. rewrite D. split; reflexivity.
  - (* String vector *)
    destruct Hok as (Hne & Hu & Hl). cbn [info_special] in Hsp.
    apply orb_false_iff in Hsp. destruct Hsp as [Hs1 Hsp].
    assert (l <> [Some []]) as Hn1 by (intro X; subst l; discriminate Hs1).
    assert (strs_i l) as Hc by (intros t Ht; apply elt_i; exact (any_some_false _ _ _ _ Hsp Ht)).
    destruct (info_strs_roundtrip_x l Hne Hn1 Hc Hu Hl) as (bs & E & D).
    exists bs, (IS (SStrs l)). split; [exact E|]. split; [exact (sd_string _ _ E)|].
    cbn [dec_info_kind]. rewrite D. split; reflexivity.
Qed.

(* a field whose value is missing (`K=.`), under every kind but Flag *)
Theorem info_none_rt : forall kd, kd <> KFlag ->
  exists vb iv, enc_info_val None = Ok vb /\ sd false 1 vb /\
                dec_info_kind kd vb = ROk iv /\ value_of_ival iv = None.
Proof.
  intros kd Hk. exists [0%N].
  destruct kd as [[|]|[|]| |[|]|[|]]; try contradiction;
    (eexists; split; [reflexivity|]; split; [exact (sd_info_missing _ eq_refl)|]; split; reflexivity).
Qed.

(* under a Flag key the missing value is read back as the Flag being set *)
Theorem info_flag_missing_refuted :
  exists vb, enc_info_val None = Ok vb /\ dec_info_kind KFlag vb = ROk IFlagV /\
             value_of_ival IFlagV = Some VFlag.
Proof. exists [0%N]. repeat split. Qed.

(* ---------------------------------------------------------------- the INFO block *)
(* an INFO field of the record: its key is defined in the header with a (Number, Type) the reader
   accepts, and its value is of that variant, in BCF's range and outside string-special-chars; a
   missing value is under any key but a Flag *)
Definition info_field_ok (h : hctx) (kv : name * option value) : Prop :=
  exists kd, ik_of h (fst kv) = Some kd /\
    match snd kv with
    | Some v => ikind_val kd v /\ bval_ok v /\ info_special v = false
    | None => kd <> KFlag
    end.

Definition dec_info_field (h : hctx) (kv : name * list N) : rres (name * RecordTyped.ival) :=
  match ik_of h (fst kv) with
  | None => RErr
  | Some k => rbind (dec_info_kind k (snd kv)) (fun v => ROk (fst kv, v))
  end.

Lemma info_fields_rt : forall h l, Forall (info_field_ok h) l ->
  exists (blocks : list (name * list N)) ivs,
    map fst blocks = map fst l /\
    map (fun kv => (fst kv, enc_info_val (snd kv))) l = map lift blocks /\
    (forall k vb, In (k, vb) blocks -> sd false 1 vb) /\
    map_rres (dec_info_field h) blocks = ROk ivs /\
    map (fun kv : name * RecordTyped.ival => (fst kv, value_of_ival (snd kv))) ivs = l.
Proof.
  intros h. induction l as [|[k ov] l IH]; intros Hall.
  - exists [], []. repeat split. intros k vb [].
  - inversion Hall as [|? ? Hkv Hl]; subst.
    destruct (IH Hl) as (blocks & ivs & Ek & El & Hsd & Hd & Hb).
    destruct Hkv as (kd & Ekd & Hv). cbn [fst snd] in Ekd, Hv.
    assert (exists vb iv, enc_info_val ov = Ok vb /\ sd false 1 vb /\
                          dec_info_kind kd vb = ROk iv /\ value_of_ival iv = ov) as (vb & iv & E & S & D & V).
    { destruct ov as [v|].
      - destruct Hv as (A & B & C). exact (info_val_rt kd v A B C).
      - exact (info_none_rt kd Hv). }
    exists ((k, vb) :: blocks), ((k, iv) :: ivs). cbn [map fst snd].
    split; [now rewrite Ek|]. split; [rewrite El, E; reflexivity|]. split.
    + intros k' vb' [X|X]; [inversion X; subst; exact S|exact (Hsd k' vb' X)].
    + split.
      * cbn [map_rres]. unfold dec_info_field at 1. cbn [fst snd]. rewrite Ekd, D. cbn [rbind].
        rewrite Hd. reflexivity.
      * now rewrite V, Hb.
Qed.

(* ---------------------------------------------------------------- sets *)
Lemma mem_name_in : forall k l, mem_name k l = true <-> In k l.
Proof.
  intros k. induction l as [|x l IH]; cbn [mem_name In]; [split; [discriminate|contradiction]|].
  rewrite orb_true_iff, IH, name_eqb_eq. split; intros [A|A]; auto.
Qed.

Lemma dedup_from_nodup : forall l seen, NoDup l -> (forall x, In x l -> ~ In x seen) ->
  dedup_from seen l = l.
Proof.
  induction l as [|x l IH]; intros seen Hnd Hs; [reflexivity|]. cbn [dedup_from].
  inversion Hnd as [|? ? Hx Hl]; subst.
  destruct (mem_name x seen) eqn:E; [apply mem_name_in in E; exfalso; exact (Hs x (or_introl eq_refl) E)|].
  f_equal. apply IH; [exact Hl|]. intros y Hy [X|X]; [subst y; contradiction|exact (Hs y (or_intror Hy) X)].
Qed.

Lemma dedup_nodup : forall l, NoDup l -> dedup l = l.
Proof. intros l H. apply dedup_from_nodup; [exact H|intros x _ []]. Qed.

(* ---------------------------------------------------------------- sites-only records *)
(* no FORMAT keys, no samples, and a header without samples *)
Definition sites_only (h : hctx) (r : vrec) : Prop :=
  h_nsamples h = O /\ r_keys r = [] /\ r_samples r = [].

(* what the BCF writer needs of the record (all of it is checked by the writer or is a range of the
   format: the *_is_error theorems) plus the two set conditions of a RecordBuf read back *)
Definition bcf_site_ok (strings contigs : smap) (h : hctx) (rlen : Z) (r : vrec) : Prop :=
  site_ok strings contigs (site_of h rlen r) (Z.of_nat (length (r_info r))) (Z.of_nat (length (r_keys r))) /\
  NoDup (r_ids r) /\ NoDup (r_filters r) /\
  (forall kv, In kv (r_info r) -> exists i, get_index_of strings (fst kv) = Some i /\ Z.of_nat i <= 2147483647) /\
  NoDup (map fst (r_info r)) /\
  Forall (info_field_ok h) (r_info r).

Lemma on_oz : forall q, on (oz q) = q.
Proof. intros [b|]; cbn [on oz option_map]; [now rewrite N2Z.id|reflexivity]. Qed.

Theorem bcf_sites_roundtrip : forall strings contigs h rlen r rest,
  wf strings -> wf contigs -> sites_only h r -> bcf_site_ok strings contigs h rlen r ->
  (forall sb, enc_site strings contigs (site_of h rlen r) (info_fields r) 0 = Ok sb ->
     Z.of_nat (length sb) <= 4294967295) ->
  exists bs, bcf_write strings contigs h rlen r = Ok bs /\
             bcf_read strings contigs h (bs ++ rest) = ROk r.
Proof.
  intros strings contigs h rlen r rest Ws Wc (Hns & Hk & Hr) (Hsite & Hids & Hfl & Hkeys & Hnd & Hinfo) Hsb.
  destruct (info_fields_rt h (r_info r) Hinfo) as (blocks & ivs & Ek & El & Hsd & Hd & Hb).
  assert (length blocks = length (r_info r)) as Hlen
    by (rewrite <- (map_length fst blocks), Ek, map_length; reflexivity).
  unfold bcf_write, enc_record_w, fmt_fields, has_rows. rewrite Hk, Hr. cbn [indexed map].
  assert ((if fix11_nfmt_zero_without_rows && negb false then @nil field else []) = []) as Hsw
    by (destruct fix11_nfmt_zero_without_rows; reflexivity).
  rewrite Hsw. clear Hsw.
  assert (info_fields r = map lift blocks) as El' by (unfold info_fields; exact El).
  rewrite El'. rewrite El' in Hsb.
  rewrite Hk in Hsite. cbn [length] in Hsite. rewrite <- Hlen in Hsite.
  destruct (record_full_roundtrip strings contigs (site_of h rlen r) blocks [] false
              (Z.of_nat (h_nsamples h)) rest Ws Wc) as (bs & E & D).
  - cbn [site_of s_n_sample]. lia.
  - exact Hsite.
  - intros k vb Hin. rewrite app_nil_r in Hin.
    assert (In k (map fst blocks)) as Hin' by (apply in_map_iff; exists (k, vb); split; [reflexivity|exact Hin]).
    rewrite Ek in Hin'.
    apply in_map_iff in Hin'. destruct Hin' as (kv & Ekv & Hkv). subst k. exact (Hkeys kv Hkv).
  - exact Hsd.
  - rewrite Ek. exact Hnd.
  - intros k vb [].
  - right. reflexivity.
  - exact Hsb.
  - intros fb Efb. cbn in Efb. inversion Efb. cbn. lia.
  - exists bs. split; [exact E|].
    unfold bcf_read, dec_record_typed. rewrite (dec_record_k_of_dec_record _ _ _ _ _ D).
    cbn [head_of h_n_sample site_of s_n_sample].
    change (map_rres (fun kv : name * list N => match ik_of h (fst kv) with
              | Some k => rbind (dec_info_kind k (snd kv)) (fun v => ROk (fst kv, v)) | None => RErr end) blocks)
      with (map_rres (dec_info_field h) blocks).
    rewrite Hd. cbn [rbind map_rres map]. rewrite Hns. cbn [Z.of_nat Z.to_nat repeat fold_left].
    unfold vrec_of. cbn [t_head t_info t_keys t_rows h_chrom h_pos h_qual h_ids h_ref h_alts h_filters
                         s_chrom s_pos s_qual s_ids s_ref s_alts s_filters map].
    unfold head_of, site_of. cbn [h_chrom h_pos h_qual h_ids h_ref h_alts h_filters
                         s_chrom s_pos s_qual s_ids s_ref s_alts s_filters].
    rewrite Hb, (dedup_nodup _ Hids), (dedup_nodup _ Hfl), on_oz.
    assert (match (if N.eqb (r_pos r) 0 then None else Some (Z.of_N (r_pos r))) with
            | Some p => Z.to_N p | None => 0%N end = r_pos r) as Hp.
    { destruct (N.eqb (r_pos r) 0) eqn:E0; [apply N.eqb_eq in E0; now rewrite E0|now rewrite N2Z.id]. }
    rewrite Hp. destruct r; cbn in *. subst. reflexivity.
Qed.

(* ---------------------------------------------------------------- agreement with the VCF text *)
From NV Require Import Vcf.ValuesProofs Vcf.SampleProofs Vcf.LineProofs.
Open Scope Z_scope.

Lemma resolve_base_idem : forall b x, resolve_base b = Some x -> resolve_base x = Some x.
Proof.
  intros b x H. unfold resolve_base in H.
  repeat match type of H with
         | context [if ?c then _ else _] => destruct c
         end; cbn [option_map] in H; try discriminate; inversion H; reflexivity.
Qed.

Lemma cbase_idem : forall b, cbase (cbase b) = cbase b.
Proof.
  intros b. unfold cbase at 2 3. destruct (resolve_base b) as [x|] eqn:E.
  - unfold cbase. now rewrite (resolve_base_idem b x E).
  - unfold cbase. now rewrite E.
Qed.

Lemma cbase_canon_base : forall s, map cbase (map canon_base s) = map cbase s.
Proof.
  intros s. rewrite map_map. apply map_ext. intros b. change (canon_base b) with (cbase b). apply cbase_idem.
Qed.

(* the VCF re-read of a record and the record itself have the same content when the record has no
   samples (REF is the only column the VCF writer changes) *)
Lemma content_canon_sites : forall v44 h r, r_samples r = [] -> content v44 (canon h r) = content v44 r.
Proof.
  intros v44 h r Hr. unfold content, canon.
  cbn [r_chrom r_pos r_ids r_ref r_alts r_qual r_filters r_info r_keys r_samples].
  rewrite Hr, cbase_canon_base. reflexivity.
Qed.

(* c10_bcf_vcf_agree, sites-only records: ONE record written as VCF text and as BCF: both are
   accepted, both re-reads succeed, and they have the same content *)
Theorem bcf_vcf_agree_sites :
  forall fmt_float prs_float (FOK : N -> Prop),
  (forall b, FOK b -> prs_float (fmt_float b) = Some b) ->
  (forall b x, FOK b -> In x (fmt_float b) -> x <> 44 /\ x <> 9 /\ x <> 10 /\ x <> 59 /\ x <> 58)%N ->
  (forall b, FOK b -> fmt_float b <> Values.dot) ->
  (forall b, FOK b -> fmt_float b <> []) ->
  forall strings contigs h rlen r t rest,
  wf strings -> wf contigs -> sites_only h r ->
  rec_ok fmt_float FOK h r -> write_line fmt_float h r = Some t ->
  bcf_site_ok strings contigs h rlen r ->
  (forall sb, enc_site strings contigs (site_of h rlen r) (info_fields r) 0 = Ok sb ->
     Z.of_nat (length sb) <= 4294967295) ->
  exists bs a b,
    bcf_write strings contigs h rlen r = Ok bs /\
    read_eager prs_float h t = Some a /\
    bcf_read strings contigs h (bs ++ rest) = ROk b /\
    content (h_v44 h) a = content (h_v44 h) b.
Proof.
  intros fmt_float prs_float FOK F1 F2 F3 F4 strings contigs h rlen r t rest Ws Wc Hso Hok Hw Hb Hsb.
  destruct (line_roundtrip fmt_float prs_float FOK F1 F2 F3 F4 h r t Hok Hw) as (He & _ & _).
  destruct (bcf_sites_roundtrip strings contigs h rlen r rest Ws Wc Hso Hb Hsb) as (bs & Ew & Er).
  exists bs, (canon h r), r. repeat split; try assumption.
  apply content_canon_sites. destruct Hso as (_ & _ & Hr). exact Hr.
Qed.

(* ---------------------------------------------------------------- a reused RecordBuf *)
Lemma has_key_in : forall k l, has_key k l = false -> ~ In k (map fst l).
Proof.
  intros k. induction l as [|[k' v] l IH]; intros H; cbn [has_key map fst In] in *; [tauto|].
  apply orb_false_iff in H. destruct H as [H1 H2]. apply name_eqb_neq in H1.
  intros [X|X]; [apply H1; now symmetry|exact (IH H2 X)].
Qed.

Lemma dec_fields_k_nodup : forall m mult n bs l r,
  dec_fields_k m mult true n bs = Some (l, r) -> NoDup (map fst l).
Proof.
  intros m mult. induction n as [|n IH]; intros bs l r H; cbn [dec_fields_k] in H.
  - inversion H. constructor.
  - destruct (dec_index bs) as [[i r0]|]; [|discriminate].
    destruct (get_index m (znat (length (entries m)) i)) as [k|]; [|discriminate].
    destruct (split_typed (negb true && negb (name_eqb k key_GT)) mult r0) as [[vb r1]|]; [|discriminate].
    destruct (dec_fields_k m mult true n r1) as [[l' r2]|] eqn:E; [|discriminate].
    cbn [andb] in H. destruct (has_key k l') eqn:Hk; [discriminate|].
    inversion H; subst. cbn [map fst]. constructor; [exact (has_key_in _ _ Hk)|exact (IH _ _ _ E)].
Qed.

Lemma map_rres_fst : forall A B C (f : A * B -> rres (A * C)) l out,
  (forall x y, f x = ROk y -> fst y = fst x) ->
  map_rres f l = ROk out -> map fst out = map fst l.
Proof.
  intros A B C f. induction l as [|x l IH]; intros out Hf H; cbn [map_rres] in H.
  - inversion H. reflexivity.
  - destruct (f x) as [y| |] eqn:E; cbn [rbind] in H; try discriminate.
    destruct (map_rres f l) as [ys| |] eqn:E2; cbn [rbind] in H; try discriminate.
    inversion H; subst. cbn [map]. rewrite (Hf x y E), (IH ys Hf eq_refl). reflexivity.
Qed.

Lemma typed_info_nodup : forall strings contigs ik fk hs bs t,
  dec_record_typed strings contigs ik fk hs bs = ROk t -> NoDup (map fst (t_info t)).
Proof.
  intros strings contigs ik fk hs bs t H. unfold dec_record_typed in H.
  destruct (dec_record_k strings contigs hs bs) as [[[[hd infos] fmts] rest]|] eqn:E; [|discriminate].
  unfold dec_record_k in E.
  destruct (dec_frame bs) as [[[sb ib] rest']|]; [|discriminate].
  destruct (dec_head strings contigs sb) as [[h' ibs]|]; [|discriminate].
  destruct (hs <? h_n_sample h'); [discriminate|].
  destruct (dec_fields_k strings 1 true (Z.to_nat (h_n_info h')) ibs) as [[infos' r1]|] eqn:E1; [|discriminate].
  destruct (dec_fields_k strings (Z.to_nat (h_n_sample h')) false (Z.to_nat (h_n_fmt h')) ib) as [[fmts' r2]|]; [|discriminate].
  inversion E; subst. apply dec_fields_k_nodup in E1.
  match type of H with rbind (map_rres ?f infos) _ = _ => destruct (map_rres f infos) as [ivs| |] eqn:Ei end;
    cbn [rbind] in H; try discriminate.
  match type of H with rbind (map_rres ?f fmts) _ = _ => destruct (map_rres f fmts) as [cols| |] end;
    cbn [rbind] in H; try discriminate.
  inversion H; subst t. cbn [t_info].
  assert (map fst ivs = map fst infos) as Hm.
  2:{ rewrite Hm. exact E1. }
  eapply map_rres_fst; [|exact Ei].
  intros x y Hx. cbv beta in Hx. destruct (ik (fst x)) as [k|]; [|discriminate].
  destruct (dec_info_kind k (snd x)) as [v| |]; cbn [rbind] in Hx; try discriminate.
  inversion Hx. reflexivity.
Qed.

Lemma has_name_in : forall k m, has_name k m = false <-> ~ In k (map fst m).
Proof.
  intros k. induction m as [|[k' v] m IH]; cbn [has_name map fst In]; [split; [tauto|reflexivity]|].
  rewrite orb_false_iff, IH, name_eqb_neq. split.
  - intros [A B] [X|X]; [apply A; now symmetry|exact (B X)].
  - intros H. split; [intro X; apply H; left; now symmetry|intro X; apply H; right; exact X].
Qed.

Lemma insert_fields_nodup : forall fs m, NoDup (map fst (m ++ fs)) -> insert_fields m fs = Some (m ++ fs).
Proof.
  induction fs as [|[k v] fs IH]; intros m H; cbn [insert_fields]; [now rewrite app_nil_r|].
  assert (has_name k m = false) as Hk.
  { apply has_name_in. intro X. rewrite map_app in H. cbn [map fst] in H.
    apply NoDup_remove_2 in H. apply H. apply in_or_app. left. exact X. }
  rewrite Hk. rewrite IH; [now rewrite <- app_assoc|]. rewrite <- app_assoc. exact H.
Qed.

(* read_record_buf into a RecordBuf that still holds ANY previous record returns what a fresh
   buffer returns (results and errors alike) *)
Theorem reused_recordbuf_independent : forall prev strings contigs h bs,
  bcf_read_into prev strings contigs h bs = bcf_read strings contigs h bs.
Proof.
  intros prev strings contigs h bs. unfold bcf_read_into, bcf_read.
  destruct (dec_record_typed strings contigs (ik_of h) (fk_of h) (Z.of_nat (h_nsamples h)) bs) as [t| |] eqn:E;
    cbn [rbind]; try reflexivity.
  apply typed_info_nodup in E. unfold fill_into, clear_info.
  cbn [r_chrom r_pos r_ids r_ref r_alts r_qual r_filters r_info r_keys r_samples].
  rewrite insert_fields_nodup.
  - cbn [app]. destruct (vrec_of t); reflexivity.
  - cbn [app]. unfold vrec_of. cbn [r_info]. rewrite map_map. cbn [fst]. exact E.
Qed.

(* ---------------------------------------------------------------- FORMAT keys without sample rows *)
(* the former class format-keys-without-sample-rows (repaired in e6b6f67): a RecordBuf with FORMAT
   keys but no sample row, under a header without samples, is written with n_fmt = 0 -- exactly as
   the same record without its keys -- and is read back as that record (what the VCF writer and
   reader make of it as well) *)
Definition drop_keys (r : vrec) : vrec :=
  {| r_chrom := r_chrom r; r_pos := r_pos r; r_ids := r_ids r; r_ref := r_ref r; r_alts := r_alts r;
     r_qual := r_qual r; r_filters := r_filters r; r_info := r_info r; r_keys := [];
     r_samples := r_samples r |}.

Lemma write_without_rows : forall strings contigs h rlen r, r_samples r = [] ->
  bcf_write strings contigs h rlen r = bcf_write strings contigs h rlen (drop_keys r).
Proof.
  intros strings contigs h rlen r Hr. unfold bcf_write, enc_record_w, has_rows, drop_keys.
  cbn [r_samples]. rewrite Hr. unfold fix11_nfmt_zero_without_rows. cbn [andb negb]. reflexivity.
Qed.

Theorem keys_without_rows_roundtrip : forall strings contigs h rlen r rest,
  wf strings -> wf contigs -> h_nsamples h = O -> r_samples r = [] ->
  bcf_site_ok strings contigs h rlen (drop_keys r) ->
  (forall sb, enc_site strings contigs (site_of h rlen r) (info_fields r) 0 = Ok sb ->
     Z.of_nat (length sb) <= 4294967295) ->
  exists bs, bcf_write strings contigs h rlen r = Ok bs /\
             bcf_read strings contigs h (bs ++ rest) = ROk (drop_keys r).
Proof.
  intros strings contigs h rlen r rest Ws Wc Hns Hr Hok Hsb.
  rewrite (write_without_rows _ _ _ _ _ Hr).
  apply bcf_sites_roundtrip; try assumption.
  repeat split; [exact Hns|exact Hr].
Qed.
