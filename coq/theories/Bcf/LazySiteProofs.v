(* Proofs about NV.Bcf.Lazy, part 2: LAZY = EAGER on the site block.  Whenever the eager read_site
   (NV.Bcf.Record.dec_head) accepts a site block, Fields::index
   succeeds and every lazy view of the site (reference sequence name, position, quality, ids,
   reference bases, alternate bases, filters, the three counts, the INFO bytes) is what read_site
   decoded. *)
From Coq Require Import ZArith NArith List Bool Lia ZifyBool ZifyNat ZifyN.
From NV Require Import Bcf.Ints Bcf.IntsProofs Bcf.Typed Bcf.Strings Bcf.Genotype Bcf.StringMap Bcf.Record
  Bcf.RecordTyped Bcf.NeverPanics Bcf.Lazy Bcf.LazyProofs.
Import ListNotations.
Open Scope Z_scope.

(* ---------------------------------------------------------------- lengths taken from the bytes *)
Lemma lz_wbytes_pos : forall w, (1 <= wbytes w)%nat.
Proof. intros [| |]; cbn; lia. Qed.

Lemma znat_min : forall cap z, znat cap z = Nat.min cap (Z.to_nat z).
Proof.
  induction cap as [|c IH]; intros z; cbn [znat]; [reflexivity|].
  destruct (z <=? 0) eqn:E.
  - replace (Z.to_nat z) with 0%nat by lia. reflexivity.
  - rewrite IH. lia.
Qed.

Lemma read_type_nonneg : forall bs c l r, read_type bs = Some (c, l, r) -> 0 <= l.
Proof.
  intros bs c l r H. destruct bs as [|b t]; [discriminate|].
  rewrite read_type_two in H. cbn [dec_type] in H. cbv zeta in H.
  lpeel_all H; injection H as _ Hl _; subst l.
  - match goal with E : ((0 <=? _) && _) = true |- _ => apply andb_prop in E; destruct E as [E _]; lia end.
  - apply Z.div_pos; lia.
Qed.

(* ---------------------------------------------------------------- typed strings *)
(* read_value on a typed string is local as well *)
Lemma dec_str_local : forall bs o r, dec_str bs = Some (o, r) ->
  exists d, bs = d ++ r /\ d <> [] /\ forall r', dec_str (d ++ r') = Some (o, r').
Proof.
  intros bs o r H. unfold dec_str in H.
  destruct (read_type bs) as [[[c l] r0]|] eqn:Er; [|discriminate].
  pose proof (read_type_nonneg _ _ _ _ Er) as Hl0.
  destruct (read_type_local _ _ _ _ Er) as [d0 [Hb [Hd Hloc]]].
  destruct (c =? 7) eqn:E7; [|discriminate].
  destruct (l =? 0) eqn:E0.
  - injection H as Ho Hr. subst o r0. exists d0. split; [exact Hb|]. split; [exact Hd|].
    intros r'. unfold dec_str. rewrite Hloc, E7, E0. reflexivity.
  - destruct (take (znat (S (length r0)) l) r0) as [[x r1]|] eqn:Et; [|discriminate].
    destruct (utf8_valid x) eqn:Eu; [|discriminate]. injection H as Ho Hr. subst o r1.
    apply lz_take_len in Et. destruct Et as [Hr0 Hx]. rewrite znat_min in Hx.
    assert (length r0 = (length x + length r)%nat) as Hlen by (rewrite Hr0 at 1; apply app_length).
    assert (length x = Z.to_nat l) as Hxl by lia.
    exists (d0 ++ x). split; [rewrite Hb, Hr0, app_assoc; reflexivity|].
    split; [destruct d0; [contradiction|discriminate]|].
    intros r'. unfold dec_str. rewrite <- app_assoc. rewrite Hloc, E7, E0.
    rewrite znat_min. replace (Nat.min (S (length (x ++ r'))) (Z.to_nat l)) with (length x)
      by (rewrite app_length; lia).
    rewrite lz_take_app by reflexivity. rewrite Eu. reflexivity.
Qed.

(* what index() stores for a typed string the eager reader accepts: the range of its payload *)
Lemma consume_string_of_dec_str : forall sb off o r, (off <= length sb)%nat ->
  dec_str (skipn off sb) = Some (o, r) ->
  exists s e, consume_string (skipn off sb) off = Some (s, e, r) /\
    firstn (e - s) (skipn s sb) = match o with Some x => x | None => [] end /\
    match o with Some x => x <> [] /\ utf8_valid x = true | None => e = s end.
Proof.
  intros sb off o r Hoff H. unfold dec_str in H. unfold consume_string.
  destruct (read_type (skipn off sb)) as [[[c l] r0]|] eqn:Er; [|discriminate].
  pose proof (read_type_nonneg _ _ _ _ Er) as Hl0.
  destruct (read_type_local _ _ _ _ Er) as [d0 [Hb [Hd _]]].
  assert (length (skipn off sb) = (length d0 + length r0)%nat) as Hsum by (rewrite Hb at 1; apply app_length).
  assert (r0 = skipn (off + length d0) sb) as Hr0.
  { rewrite <- skipn_skipn_add. rewrite Hb. symmetry. apply skipn_app_len. }
  destruct (c =? 7) eqn:E7; [|discriminate]. cbv zeta.
  replace (off + (length (skipn off sb) - length r0))%nat with (off + length d0)%nat by lia.
  destruct (l =? 0) eqn:E0.
  - injection H as Ho Hr. subst o r.
    replace l with 0 by lia. cbn [znat]. cbn [Nat.leb skipn].
    exists (off + length d0)%nat, (off + length d0 + 0)%nat. split; [reflexivity|].
    split; [replace (off + length d0 + 0 - (off + length d0))%nat with 0%nat by lia; reflexivity|lia].
  - remember (znat (S (length r0)) l) as n eqn:En.
    destruct (take n r0) as [[x r1]|] eqn:Et; [|discriminate].
    destruct (utf8_valid x) eqn:Eu; [|discriminate]. injection H as Ho Hr. subst o r1.
    unfold take in Et. destruct (n <=? length r0)%nat eqn:El; [|discriminate].
    injection Et as Hx Hr.
    exists (off + length d0)%nat, (off + length d0 + n)%nat. rewrite Hr. split; [reflexivity|].
    split.
    + replace (off + length d0 + n - (off + length d0))%nat with n by lia. rewrite <- Hr0. exact Hx.
    + split; [|exact Eu]. intro Hn. subst x. apply Nat.leb_le in El.
      assert (length (firstn n r0) = n) as Hf by (apply firstn_length_le; exact El).
      rewrite Hn in Hf. cbn [length] in Hf. rewrite znat_min in En. lia.
Qed.

(* ---------------------------------------------------------------- alleles *)
(* (an allele that is the empty typed string is `.` in both readers since 0ba8d0b) *)
Lemma alts_agree : forall sb n off l r, (off <= length sb)%nat ->
  dec_alleles n (skipn off sb) = Some (l, r) ->
  exists e, consume_alts n (skipn off sb) off = Some (e, r) /\
            lz_alt_values n (firstn (e - off) (skipn off sb)) = ROk l.
Proof.
  intros sb. induction n as [|n IH]; intros off l r Hoff H; cbn [dec_alleles] in H.
  - injection H as Hl Hr. subst l r. exists off. split; reflexivity.
  - destruct (dec_str (skipn off sb)) as [[o r1]|] eqn:Ed; [|discriminate].
    destruct (dec_alleles n r1) as [[l1 r2]|] eqn:Ea; [|discriminate]. injection H as Hl Hr. subst l r2.
    destruct (dec_str_local _ _ _ Ed) as [d [Hb [Hd Hloc]]].
    destruct (consume_string_of_dec_str sb off _ _ Hoff Ed) as [s [e1 [Hc _]]].
    pose proof (consume_string_bounds sb off s e1 r1 Hoff Hc) as [B1 [B2 [B3 B4]]].
    subst r1. destruct (IH e1 l1 r B3 Ea) as [e [He Hv]].
    pose proof (consume_alts_bounds sb n e1 e r B3 He) as [C1 [C2 C3]].
    exists e. cbn [consume_alts]. rewrite Hc. split; [exact He|].
    cbn [lz_alt_values].
    assert (length (skipn off sb) = (length d + length (skipn e1 sb))%nat) as Hsum by (rewrite Hb at 1; apply app_length).
    rewrite !skipn_length in Hsum.
    assert (firstn (e - off) (skipn off sb) = d ++ firstn (e - e1) (skipn e1 sb)) as Hp.
    { rewrite Hb. rewrite firstn_app. rewrite firstn_all2 by lia. f_equal. f_equal. lia. }
    rewrite Hp. rewrite Hloc. rewrite Hv. reflexivity.
Qed.

(* ---------------------------------------------------------------- filters *)
Lemma chunks_concat : forall n k bs xs r, chunks n k bs = Some (xs, r) ->
  bs = concat xs ++ r /\ length xs = n /\ Forall (fun x => length x = k) xs.
Proof.
  induction n as [|n IH]; intros k bs xs r H; cbn [chunks] in H.
  - injection H as Hx Hr. subst xs r. repeat split. constructor.
  - destruct (take k bs) as [[x r1]|] eqn:Et; [|discriminate].
    destruct (chunks n k r1) as [[xs1 r2]|] eqn:Ec; [|discriminate]. injection H as Hx Hr. subst xs r2.
    apply lz_take_len in Et. destruct Et as [Hb Hk]. destruct (IH _ _ _ _ Ec) as [H1 [H2 H3]].
    split; [cbn [concat]; rewrite <- app_assoc, <- H1; exact Hb|]. split; [cbn [length]; lia|].
    constructor; assumption.
Qed.

Lemma filter_entries_chunks : forall w xs fuel, Forall (fun x => length x = wbytes w) xs ->
  all_nonneg (map (dec_int w) xs) = true -> (length xs <= fuel)%nat ->
  lz_filter_entries w fuel (concat xs) = ROk (map (dec_int w) xs).
Proof.
  intros w. induction xs as [|x xs IH]; intros fuel Hf Hn Hfuel.
  - cbn [concat]. destruct fuel; reflexivity.
  - inversion Hf as [|x' xs' Hx Hxs]. subst x' xs'.
    cbn [map all_nonneg] in Hn. apply andb_prop in Hn. destruct Hn as [Hn1 Hn2].
    destruct fuel as [|f]; [cbn [length] in Hfuel; lia|].
    cbn [concat].
    assert (x <> []) as Hxne by (destruct x; [destruct w; discriminate|discriminate]).
    destruct (x ++ concat xs) as [|y ys] eqn:Exy; [destruct x; [contradiction|discriminate]|].
    rewrite <- Exy. cbn [lz_filter_entries].
    rewrite Exy at 1. rewrite lz_take_app by exact Hx.
    destruct (dec_int w x <? 0) eqn:E; [lia|].
    rewrite IH by (try assumption; cbn [length] in Hfuel; lia). reflexivity.
Qed.

Lemma resolve_agree : forall m l ns, resolve_all m l = Some ns -> lz_resolve m l = ROk ns.
Proof.
  intros m. induction l as [|i l IH]; intros ns H; cbn [resolve_all] in H; cbn [lz_resolve].
  - injection H as Hn. subst ns. reflexivity.
  - destruct (get_index m (znat (length (entries m)) i)) as [n|]; [|discriminate].
    destruct (resolve_all m l) as [ns1|]; [|discriminate]. injection H as Hn. subst ns.
    rewrite (IH ns1 eq_refl). reflexivity.
Qed.

Lemma wbytes_code : forall c w n, width_of_code c = Some w ->
  (if c =? 1 then Some n else if c =? 2 then Some (2 * n)%nat
   else if c =? 3 then Some (4 * n)%nat else None) = Some (wbytes w * n)%nat.
Proof.
  intros c w n H. unfold width_of_code in H.
  destruct (c =? 1) eqn:E1; [injection H as Hw; subst w; cbn; f_equal; lia|].
  destruct (c =? 2) eqn:E2; [injection H as Hw; subst w; cbn; f_equal; lia|].
  destruct (c =? 3) eqn:E3; [injection H as Hw; subst w; cbn; f_equal; lia|discriminate].
Qed.

Lemma filters_agree : forall sb off fi r, (off <= length sb)%nat ->
  dec_indices (skipn off sb) = Some (fi, r) ->
  exists e, consume_integers (skipn off sb) off = Some e /\ r = skipn e sb /\
            lz_filter_indices (firstn (e - off) (skipn off sb)) = ROk fi.
Proof.
  intros sb off fi r Hoff H. unfold dec_indices in H. unfold consume_integers.
  destruct (read_type (skipn off sb)) as [[[c l] r0]|] eqn:Er; [|discriminate].
  pose proof (read_type_nonneg _ _ _ _ Er) as Hl0.
  destruct (read_type_local _ _ _ _ Er) as [d0 [Hb [Hd Hloc]]].
  assert (length (skipn off sb) = (length d0 + length r0)%nat) as Hsum by (rewrite Hb at 1; apply app_length).
  assert (r0 = skipn (off + length d0) sb) as Hr0.
  { rewrite <- skipn_skipn_add. rewrite Hb. symmetry. apply skipn_app_len. }
  cbv zeta.
  replace (off + (length (skipn off sb) - length r0))%nat with (off + length d0)%nat by lia.
  assert (forall pl, (pl <= length r0)%nat ->
    firstn (off + length d0 + pl - off) (skipn off sb) = d0 ++ firstn pl r0) as Hslice.
  { intros pl Hpl. rewrite Hb. rewrite firstn_app. rewrite firstn_all2 by lia. f_equal. f_equal. lia. }
  destruct (c =? 0) eqn:E0.
  - injection H as Hf Hr. subst fi r.
    exists (off + length d0 + 0)%nat. cbn [Nat.leb]. split; [reflexivity|].
    split; [rewrite Hr0; f_equal; lia|].
    rewrite Hslice by lia. cbn [firstn]. unfold lz_filter_indices. rewrite Hloc, E0. reflexivity.
  - destruct (width_of_code c) as [w|] eqn:Ew; [|discriminate].
    cbv iota. rewrite (wbytes_code c w _ Ew).
    destruct (l =? 0) eqn:El0; [discriminate|].
    destruct (l =? 1) eqn:El1.
    + destruct (take (wbytes w) r0) as [[x r1]|] eqn:Et; [|discriminate].
      destruct (classify w (dec_int w x)) as [n| | |] eqn:Ec; try discriminate.
      destruct (0 <=? n) eqn:En; [|discriminate]. injection H as Hf Hr. subst fi r1.
      assert (n = dec_int w x) as Hn.
      { unfold classify in Ec. lpeel_all Ec. injection Ec as Hn. symmetry. exact Hn. }
      replace l with 1 by lia. cbn [znat]. cbn [Z.leb Z.compare]. replace (1 - 1) with 0 by lia.
      replace (znat (length r0) 0) with 0%nat by (destruct (length r0); reflexivity).
      apply lz_take_len in Et. destruct Et as [Hr0x Hx].
      assert (length r0 = (length x + length r)%nat) as Hlr by (rewrite Hr0x at 1; apply app_length).
      replace (wbytes w * 1)%nat with (wbytes w) by lia.
      destruct (wbytes w <=? length r0)%nat eqn:Ele; [|apply Nat.leb_gt in Ele; lia].
      exists (off + length d0 + wbytes w)%nat. split; [reflexivity|].
      split.
      { rewrite Hr0 in Hr0x.
        assert (skipn (wbytes w) (skipn (off + length d0) sb) = r) as Hs.
        { rewrite Hr0x. rewrite <- Hx. apply skipn_app_len. }
        rewrite skipn_skipn_add in Hs. symmetry. exact Hs. }
      rewrite Hslice by lia. unfold lz_filter_indices. rewrite Hloc, E0, Ew.
      rewrite Hr0x. rewrite <- Hx. rewrite firstn_app_len.
      pose proof (filter_entries_chunks w [x] (length x) ) as Hfe. cbn [concat map all_nonneg length] in Hfe.
      rewrite app_nil_r in Hfe. rewrite Hfe; [rewrite Hn; reflexivity| | |].
      * constructor; [exact Hx|constructor].
      * rewrite <- Hn. rewrite En. reflexivity.
      * pose proof (lz_wbytes_pos w). lia.
    + destruct (chunks (znat (S (length r0)) l) (wbytes w) r0) as [[xs r1]|] eqn:Ech; [|discriminate].
      destruct (all_nonneg (map (dec_int w) xs)) eqn:Ean; [|discriminate]. injection H as Hf Hr. subst fi r1.
      apply chunks_concat in Ech. destruct Ech as [Hr0x [Hlen Hall]].
      assert (length (concat xs) = (wbytes w * length xs)%nat) as Hcl.
      { clear -Hall. induction Hall as [|x xs Hx Hxs IH]; [cbn; lia|].
        cbn [concat length]. rewrite app_length, IH, Hx. lia. }
      assert (length r0 = (length (concat xs) + length r)%nat) as Hlr by (rewrite Hr0x at 1; apply app_length).
      rewrite <- Hlen.
      destruct (wbytes w * length xs <=? length r0)%nat eqn:Ele; [|apply Nat.leb_gt in Ele; lia].
      exists (off + length d0 + wbytes w * length xs)%nat. split; [reflexivity|].
      split.
      { rewrite Hr0 in Hr0x.
        assert (skipn (length (concat xs)) (skipn (off + length d0) sb) = r) as Hs.
        { rewrite Hr0x. apply skipn_app_len. }
        rewrite skipn_skipn_add in Hs. rewrite Hcl in Hs. symmetry. exact Hs. }
      rewrite Hslice by lia. unfold lz_filter_indices. rewrite Hloc, E0, Ew.
      rewrite Hr0x. rewrite <- Hcl. rewrite firstn_app_len.
      apply filter_entries_chunks; [exact Hall|exact Ean|].
      rewrite Hcl. pose proof (lz_wbytes_pos w). nia.
Qed.

(* ---------------------------------------------------------------- the site as a whole *)
Ltac Zify.zify_post_hook ::= Z.div_mod_to_equations.

(* bytes are bytes (needed where n_fmt << 24 | n_sample is split) *)
Definition byte_list (l : list N) : Prop := Forall (fun b => (b < 256)%N) l.

Record site_views (strings contigs : smap) (sb : list N) (h : head) (info_bytes : list N) (bd : bounds) : Prop := {
  sv_index : lz_index sb = ROk bd;
  sv_chrom : lz_chrom contigs sb = ROk (h_chrom h);
  sv_pos : lz_pos sb = ROk (h_pos h);
  sv_qual : lz_qual sb = ROk (h_qual h);
  sv_ids : lz_ids bd sb = ROk (h_ids h);
  sv_ref : lz_ref bd sb = ROk (h_ref h);
  sv_alts : lz_alts bd sb = ROk (h_alts h);
  sv_filters : lz_filters strings bd sb = ROk (h_filters h);
  sv_info : lz_slice (b_filters_end bd) (length sb) sb = ROk info_bytes;
  sv_ninfo : lz_u16 16 sb = ROk (h_n_info h);
  sv_nfmt : lz_format_count sb = ROk (h_n_fmt h);
  sv_nsample : lz_sample_count sb = ROk (h_n_sample h);
}.

Ltac len_explicit x n :=
  match n with
  | 2%nat => destruct x as [|? [|? [|? ?]]]; try discriminate
  | 4%nat => destruct x as [|? [|? [|? [|? [|? ?]]]]]; try discriminate
  end.

(* the part of dec_head after the quality score *)
Lemma site_tail : forall strings contigs sb c p l q r0 cname qv h info_bytes,
  byte_list sb ->
  sb = concat [c; p; l; q] ++ r0 -> Forall (fun x : list N => length x = 4%nat) [c; p; l; q] ->
  (dec_int W32 c <? 0) || (dec_int W32 p <? -1) || (dec_int W32 l <? 0) = false ->
  get_index contigs (znat (length (entries contigs)) (dec_int W32 c)) = Some cname ->
  lz_qual sb = ROk qv ->
  match take 2 r0 with
  | Some (ni, r1) =>
    match take 2 r1 with
    | Some (na, r2) =>
      match take 4 r2 with
      | Some (fs, r3) =>
        match dec_str r3 with
        | Some (ids, r4) =>
          if le_val na =? 0 then None
          else match dec_alleles (Z.to_nat (le_val na)) r4 with
               | Some (ra :: alts, r5) =>
                 match dec_indices r5 with
                 | Some (fi, r6) =>
                   match resolve_all strings fi with
                   | Some fnames =>
                     Some ({| h_chrom := cname;
                              h_pos := if dec_int W32 p =? -1 then None else Some (dec_int W32 p + 1);
                              h_qual := qv;
                              h_ids := match ids with Some s => split_on semicolon s | None => [] end;
                              h_ref := ra; h_alts := alts; h_filters := fnames;
                              h_n_info := le_val ni;
                              h_n_fmt := le_val fs / 16777216;
                              h_n_sample := le_val fs mod 16777216 |}, r6)
                   | None => None
                   end
                 | None => None
                 end
               | _ => None
               end
        | None => None
        end
      | None => None
      end
    | None => None
    end
  | None => None
  end = Some (h, info_bytes) ->
  exists bd, site_views strings contigs sb h info_bytes bd.
Proof.
  intros strings contigs sb c p l q r0 cname qv h info_bytes Hbytes Hsb Hall Hneg Hcn Hq H.
  destruct (take 2 r0) as [[ni r1]|] eqn:E1; [|discriminate].
  destruct (take 2 r1) as [[na r2]|] eqn:E2; [|discriminate].
  destruct (take 4 r2) as [[fs r3]|] eqn:E3; [|discriminate].
  destruct (dec_str r3) as [[ids r4]|] eqn:E4; [|discriminate].
  destruct (le_val na =? 0) eqn:Ena; [discriminate|].
  destruct (dec_alleles (Z.to_nat (le_val na)) r4) as [[[|ra alts] r5]|] eqn:E5; try discriminate.
  destruct (dec_indices r5) as [[fi r6]|] eqn:E6; [|discriminate].
  destruct (resolve_all strings fi) as [fnames|] eqn:E7; [|discriminate].
  injection H as Hh Hib. subst info_bytes.
  apply lz_take_len in E1. destruct E1 as [Hr0 Lni].
  apply lz_take_len in E2. destruct E2 as [Hr1 Lna].
  apply lz_take_len in E3. destruct E3 as [Hr2 Lfs].
  inversion Hall as [|? ? Lc Hall1]. inversion Hall1 as [|? ? Lp Hall2].
  inversion Hall2 as [|? ? Ll Hall3]. inversion Hall3 as [|? ? Lq _]. subst.
  len_explicit c 4%nat. len_explicit p 4%nat. len_explicit l 4%nat. len_explicit q 4%nat.
  len_explicit ni 2%nat. len_explicit na 2%nat. len_explicit fs 4%nat.
  cbn [concat app] in *.
  remember (n :: n0 :: n1 :: n2 :: n3 :: n4 :: n5 :: n6 :: n7 :: n8 :: n9 :: n10 :: n11 :: n12 :: n13 :: n14
            :: n15 :: n16 :: n17 :: n18 :: n19 :: n20 :: n21 :: n22 :: r3) as sb eqn:Hsb.
  assert (24 <= length sb)%nat as H24 by (subst sb; cbn [length]; lia).
  assert (skipn 24 sb = r3) as Hsk by (subst sb; reflexivity).
  assert (allele_count sb = le_val [n17; n18]) as Hac by (subst sb; reflexivity).
  (* ids *)
  rewrite <- Hsk in E4.
  destruct (consume_string_of_dec_str sb 24 ids r4 H24 E4) as [s1 [e1 [Hc1 [Hp1 Hu1]]]].
  pose proof (consume_string_bounds sb 24 s1 e1 r4 H24 Hc1) as [A1 [A2 [A3 A4]]].
  (* the reference bases *)
  assert (0 <= le_val [n17; n18]) as Hna0 by (cbn [le_val]; lia).
  destruct (Z.to_nat (le_val [n17; n18])) as [|na'] eqn:Ena'; [lia|].
  cbn [dec_alleles] in E5.
  destruct (dec_str r4) as [[o r4']|] eqn:E8; [|discriminate].
  destruct (dec_alleles na' r4') as [[alts' r5']|] eqn:E9; [|discriminate].
  injection E5 as Hra Halts Hr5. subst alts' r5'. subst ra.
  rewrite A4 in E8.
  destruct (consume_string_of_dec_str sb e1 o r4' A3 E8) as [s2 [e2 [Hc2 [Hp2 Hux]]]].
  pose proof (consume_string_bounds sb e1 s2 e2 r4' A3 Hc2) as [B1 [B2 [B3 B4]]].
  rewrite B4 in E9.
  destruct (alts_agree sb na' e2 alts r5 B3 E9) as [e3 [Hc3 Hv3]].
  pose proof (consume_alts_bounds sb na' e2 e3 r5 B3 Hc3) as [C1 [C2 C3]].
  rewrite C3 in E6.
  destruct (filters_agree sb e3 fi r6 C2 E6) as [e4 [Hc4 [Hr6 Hf4]]].
  pose proof (consume_integers_bounds sb e3 e4 C2 Hc4) as [D1 [D2 _]].
  exists {| b_ids := (s1, e1); b_ref := (s2, e2); b_alt_end := e3; b_filters_end := e4 |}.
  assert (index_bounds sb = Some {| b_ids := (s1, e1); b_ref := (s2, e2); b_alt_end := e3; b_filters_end := e4 |}) as Hidx.
  { unfold index_bounds. destruct (length sb <? 24)%nat eqn:El; [apply Nat.ltb_lt in El; lia|].
    rewrite Hac, Ena. rewrite Hc1. rewrite A4. rewrite Hc2. rewrite B4.
    replace (Z.to_nat (le_val [n17; n18] - 1)) with na' by lia. rewrite Hc3. rewrite C3. rewrite Hc4. reflexivity. }
  constructor; cbn [b_ids b_ref b_alt_end b_filters_end fst snd].
  - unfold lz_index. rewrite Hidx. cbn [b_ids fst snd]. rewrite lz_slice_ok by lia. cbn [rbind]. rewrite Hp1.
    destruct ids as [xi|]; [destruct Hu1 as [_ Hu]; rewrite Hu; reflexivity|reflexivity].
  - subst sb. unfold lz_chrom. cbn [lz_slice length Nat.leb andb Nat.sub skipn firstn rbind h_chrom].
    apply orb_false_iff in Hneg. destruct Hneg as [Hneg _]. apply orb_false_iff in Hneg. destruct Hneg as [Hn1 _].
    rewrite Hn1. rewrite Hcn. reflexivity.
  - subst sb. unfold lz_pos. cbn [lz_slice length Nat.leb andb Nat.sub skipn firstn rbind h_pos].
    apply orb_false_iff in Hneg. destruct Hneg as [Hneg _]. apply orb_false_iff in Hneg. destruct Hneg as [_ Hn2].
    destruct (dec_int W32 [n3; n4; n5; n6] =? -1) eqn:Em; [reflexivity|].
    destruct (dec_int W32 [n3; n4; n5; n6] <? 0) eqn:Ez; [lia|reflexivity].
  - cbn [h_qual]. exact Hq.
  - cbn [h_ids]. unfold lz_ids. cbn [b_ids fst snd]. rewrite lz_slice_ok by lia. cbn [rbind]. rewrite Hp1.
    destruct ids as [xi|]; [|reflexivity]. destruct Hu1 as [Hne1 _]. destruct xi; [contradiction|reflexivity].
  - cbn [h_ref]. unfold lz_ref. cbn [b_ref fst snd]. rewrite lz_slice_ok by lia. cbn [rbind]. rewrite Hp2.
    destruct o as [x|]; [|reflexivity]. destruct Hux as [Hxne Hux]. cbv zeta.
    destruct x as [|x0 x]; [contradiction|]. rewrite Hux. reflexivity.
  - cbn [h_alts]. unfold lz_alts. cbn [b_ref b_alt_end fst snd]. rewrite lz_slice_ok by lia. cbn [rbind].
    assert (lz_u16 18 sb = ROk (le_val [n17; n18])) as Hu by (subst sb; reflexivity). rewrite Hu. cbn [rbind].
    rewrite Ena. replace (Z.to_nat (le_val [n17; n18] - 1)) with na' by lia. exact Hv3.
  - cbn [h_filters]. unfold lz_filters. cbn [b_alt_end b_filters_end]. rewrite lz_slice_ok by lia. cbn [rbind].
    rewrite Hf4. cbn [rbind]. apply resolve_agree. exact E7.
  - rewrite lz_slice_ok by lia. rewrite firstn_all2 by (rewrite skipn_length; lia). rewrite Hr6. reflexivity.
  - subst sb. reflexivity.
  - subst sb. unfold lz_format_count. cbn [nth_error h_n_fmt]. f_equal.
    inversion Hbytes as [|? ? _ Hb1]. do 19 (inversion Hb1 as [|? ? _ Hb2]; clear Hb1; rename Hb2 into Hb1).
    inversion Hb1 as [|? ? F0 Hb2]. inversion Hb2 as [|? ? F1 Hb3]. inversion Hb3 as [|? ? F2 _].
    cbn [le_val]. lia.
  - subst sb. unfold lz_sample_count. cbn [lz_slice length Nat.leb andb Nat.sub skipn firstn rbind h_n_sample]. f_equal.
    inversion Hbytes as [|? ? _ Hb1]. do 19 (inversion Hb1 as [|? ? _ Hb2]; clear Hb1; rename Hb2 into Hb1).
    inversion Hb1 as [|? ? F0 Hb2]. inversion Hb2 as [|? ? F1 Hb3]. inversion Hb3 as [|? ? F2 _].
    cbn [le_val]. lia.
Qed.

(* LAZY = EAGER on the site: whatever read_site decodes, the lazy views return *)
Theorem site_agree : forall strings contigs sb h info_bytes,
  byte_list sb ->
  dec_head strings contigs sb = Some (h, info_bytes) ->
  exists bd, site_views strings contigs sb h info_bytes bd.
Proof.
  intros strings contigs sb h info_bytes Hbytes H. unfold dec_head in H.
  destruct (chunks 4 4 sb) as [[l0 r0]|] eqn:Ech; [|discriminate].
  apply chunks_concat in Ech. destruct Ech as [Hsb [Hl0 Hall]].
  destruct l0 as [|c [|p [|l [|q [|]]]]]; try discriminate Hl0.
  destruct ((dec_int W32 c <? 0) || (dec_int W32 p <? -1) || (dec_int W32 l <? 0)) eqn:Hneg; [discriminate|].
  destruct (get_index contigs (znat (length (entries contigs)) (dec_int W32 c))) as [cname|] eqn:Hcn; [|discriminate].
  assert (forall qv, (match classify_f (le_val q) with FValue b => ROk (Some b) | FMissing => ROk None | _ => RErr end) = ROk qv ->
          lz_qual sb = ROk qv) as Hq.
  { intros qv Hc. unfold lz_qual.
    inversion Hall as [|? ? Lc Hall1]. inversion Hall1 as [|? ? Lp Hall2].
    inversion Hall2 as [|? ? Ll Hall3]. inversion Hall3 as [|? ? Lq _]. subst.
    len_explicit c 4%nat. len_explicit p 4%nat. len_explicit l 4%nat. len_explicit q 4%nat.
    cbn [concat app lz_slice length Nat.leb andb Nat.sub skipn firstn rbind]. exact Hc. }
  destruct (classify_f (le_val q)) as [b| | |] eqn:Eq; try discriminate.
  - apply (site_tail strings contigs sb c p l q r0 cname (Some b) h info_bytes Hbytes Hsb Hall Hneg Hcn (Hq _ eq_refl) H).
  - apply (site_tail strings contigs sb c p l q r0 cname None h info_bytes Hbytes Hsb Hall Hneg Hcn (Hq _ eq_refl) H).
Qed.
