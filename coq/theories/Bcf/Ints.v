(* BCF typed integers (noodles-bcf record/codec/value/{int8,int16,int32}.rs), width selection
   (encoder/site/info/field/value.rs write_integer_value / write_integer_array_value and
   encoder/samples/values.rs write_integer_values / write_integer_array_values) and the little
   endian byte images.  Model: definitions only. *)
From Coq Require Import ZArith NArith List Bool.
Import ListNotations.
Open Scope Z_scope.

Inductive width := W8 | W16 | W32.

Definition wbytes (w : width) : nat := match w with W8 => 1%nat | W16 => 2%nat | W32 => 4%nat end.
Definition wmod (w : width) : Z := match w with W8 => 256 | W16 => 65536 | W32 => 4294967296 end.
Definition wmin (w : width) : Z := match w with W8 => -128 | W16 => -32768 | W32 => -2147483648 end.
Definition wmax (w : width) : Z := match w with W8 => 127 | W16 => 32767 | W32 => 2147483647 end.
(* the BCF type code of the width *)
Definition wcode (w : width) : Z := match w with W8 => 1 | W16 => 2 | W32 => 3 end.

(* IntN: Value | Missing = MIN | EndOfVector = MIN+1 | Reserved = MIN+2..MIN+7 *)
Inductive ival := IValue (n : Z) | IMissing | IEov | IReserved (n : Z).

(* impl From<iN> for IntN *)
Definition classify (w : width) (n : Z) : ival :=
  if n =? wmin w then IMissing
  else if n =? wmin w + 1 then IEov
  else if n <=? wmin w + 7 then IReserved n
  else IValue n.

(* impl From<IntN> for iN *)
Definition raw_of (w : width) (v : ival) : Z :=
  match v with IMissing => wmin w | IEov => wmin w + 1 | IValue n | IReserved n => n end.

(* IntN::MIN_VALUE *)
Definition min_value (w : width) : Z := wmin w + 8.

Definition in_range (w : width) (n : Z) : bool := (wmin w <=? n) && (n <=? wmax w).

(* results of the writer: Ok | Err(InvalidInput) | Err(InvalidData) | panic *)
Inductive res (A : Type) := Ok (a : A) | ErrInput | ErrData | Panic.
Arguments Ok {A} a. Arguments ErrInput {A}. Arguments ErrData {A}. Arguments Panic {A}.

Definition bind {A B} (r : res A) (f : A -> res B) : res B :=
  match r with Ok a => f a | ErrInput => ErrInput | ErrData => ErrData | Panic => Panic end.

(* sequential map: the first non-Ok result in list order wins (iterator .collect::<Result>) *)
Fixpoint map_res {A B} (f : A -> res B) (l : list A) : res (list B) :=
  match l with
  | [] => Ok []
  | x :: r => bind (f x) (fun y => bind (map_res f r) (fun ys => Ok (y :: ys)))
  end.

(* write_integer_value: the width of an INFO scalar; None = Err(InvalidInput) *)
Definition select_scalar (n : Z) : option width :=
  if 0 <=? n then
    if n <=? 127 then Some W8 else if n <=? 32767 then Some W16 else Some W32
  else if -120 <=? n then Some W8
  else if -32760 <=? n then Some W16
  else if -2147483640 <=? n then Some W32
  else None.

(* the min/max scan; a missing entry counts as 0 (unwrap_or_default) *)
Definition scan_step (acc : Z * Z) (v : option Z) : Z * Z :=
  let n := match v with Some n => n | None => 0 end in
  (Z.min (fst acc) n, Z.max (snd acc) n).

Definition scan_init : Z * Z := (2147483647, -2147483648).

Definition scan (acc : Z * Z) (vs : list (option Z)) : Z * Z := fold_left scan_step vs acc.

Definition select_minmax (mn mx : Z) : option width :=
  if -120 <=? mn then
    if mx <=? 127 then Some W8 else if mx <=? 32767 then Some W16 else Some W32
  else if -32760 <=? mn then
    if mx <=? 32767 then Some W16 else Some W32
  else if -2147483640 <=? mn then Some W32
  else None.

(* little endian images *)
Fixpoint le_bytes (k : nat) (u : Z) : list N :=
  match k with O => [] | S k' => Z.to_N (u mod 256) :: le_bytes k' (u / 256) end.

Fixpoint le_val (bs : list N) : Z :=
  match bs with [] => 0 | b :: r => Z.of_N b + 256 * le_val r end.

(* two's complement image of a signed value of the width *)
Definition enc_int (w : width) (n : Z) : list N := le_bytes (wbytes w) (n mod wmod w).

Definition to_signed (w : width) (u : Z) : Z := if u <=? wmax w then u else u - wmod w.

Definition dec_int (w : width) (bs : list N) : Z := to_signed w (le_val bs).

(* min(cap, max(z, 0)) as a nat, computed in that many steps.  Lengths and indices taken from the
   bytes are converted with a cap just above what the remaining input can satisfy: Z.to_nat on a
   hostile 2^31 would build a unary numeral of that size, and any value above the cap fails in the
   same way as the cap does *)
Fixpoint znat (cap : nat) (z : Z) : nat :=
  match cap with
  | O => O
  | S c => if z <=? 0 then O else S (znat c (z - 1))
  end.

(* split k bytes off a stream *)
Definition take (k : nat) (bs : list N) : option (list N * list N) :=
  if (k <=? length bs)%nat then Some (firstn k bs, skipn k bs) else None.
