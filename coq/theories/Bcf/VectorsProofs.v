(* Proofs about NV.Bcf.Typed, second part: INFO Integer vectors, INFO Float vectors and per-sample
   FORMAT Float series (scalar and vector), through the writer's own width / length selection. *)
From Coq Require Import ZArith NArith List Bool Lia ZifyBool ZifyNat ZifyN.
From NV Require Import Bcf.Ints Bcf.IntsProofs Bcf.Typed Bcf.TypedProofs.
Import ListNotations.
Open Scope Z_scope.

(* ---------------------------------------------------------------- INFO Integer vectors *)
(* what read_value + resolve_integer_array_value give back for the vector vs: a vector that is
   exactly one missing entry is the typed scalar MISSING, i.e. the missing value (VCF `X=.`) *)
Definition norm_info_ints (vs : list (option Z)) : rvalue :=
  match vs with [None] => RNone | _ => RInts vs end.

Lemma map_res_info_entry : forall w vs,
  (forall n, In (Some n) vs -> min_value w <= n <= wmax w) ->
  map_res (info_entry w) vs = Ok (map (entry_raw w) vs).
Proof.
  induction vs as [|v vs IH]; intros H; [reflexivity|].
  cbn [map_res map]. rewrite IH by (intros n Hn; apply H; right; exact Hn).
  destruct v as [n|]; cbn [info_entry entry_raw bind]; [|reflexivity].
  specialize (H n (or_introl eq_refl)).
  assert (in_range w n = true) as R by (unfold in_range, min_value in *; lia).
  rewrite R. rewrite classify_value by lia. reflexivity.
Qed.

Lemma map_rres_int_entry : forall w vs,
  (forall n, In (Some n) vs -> min_value w <= n <= wmax w) ->
  map_rres (int_entry w) (map (enc_int w) (map (entry_raw w) vs)) = ROk vs.
Proof.
  induction vs as [|v vs IH]; intros H; [reflexivity|].
  cbn [map map_rres]. rewrite IH by (intros n Hn; apply H; right; exact Hn).
  unfold int_entry. destruct v as [n|]; cbn [entry_raw].
  - specialize (H n (or_introl eq_refl)).
    rewrite dec_enc_int by (unfold min_value in H; lia).
    rewrite classify_value by lia. reflexivity.
  - rewrite dec_enc_int by (destruct w; cbn; lia). rewrite classify_missing. reflexivity.
Qed.

Lemma wcode_valid : forall w, valid_code (wcode w) = true.
Proof. destruct w; reflexivity. Qed.

Lemma wcode_nonzero : forall w, wcode w =? 0 = false.
Proof. destruct w; reflexivity. Qed.

Lemma width_of_wcode : forall w, width_of_code (wcode w) = Some w.
Proof. destruct w; reflexivity. Qed.

(* bcf_info_int_vector_roundtrip *)
Lemma info_int_vector_roundtrip : forall vs,
  vs <> [] ->
  (forall n, In (Some n) vs -> -2147483640 <= n <= 2147483647) ->
  Z.of_nat (length vs) <= 2147483647 ->
  exists bs, enc_info_ints vs = Ok bs /\ dec_info_ints bs = ROk (norm_info_ints vs).
Proof.
  intros vs Hne Hr Hl.
  destruct (scan_within (-2147483640) 2147483647 vs scan_init ltac:(lia) Hr
              ltac:(cbn; lia) ltac:(cbn; lia)) as [Lo Hi].
  destruct (select_minmax_total (fst (scan scan_init vs)) (snd (scan scan_init vs)) Lo) as [w Ew].
  pose proof (select_minmax_sound _ _ w Hi Ew) as [S1 S2].
  assert (forall n, In (Some n) vs -> min_value w <= n <= wmax w) as Fit.
  { intros n Hn. pose proof (scan_bounds vs scan_init n Hn) as B. lia. }
  assert (enc_info_ints vs =
          bind (map_res (info_entry w) vs) (fun raws =>
          bind (enc_type (wcode w) (Z.of_nat (length raws))) (fun d =>
          Ok (d ++ flat_map (enc_int w) raws)))) as E.
  { unfold enc_info_ints. destruct vs as [|v0 vs']; [contradiction|]. rewrite Ew. reflexivity. }
  rewrite E. rewrite map_res_info_entry by exact Fit. cbn [bind]. rewrite !map_length.
  destruct (descriptor_roundtrip (wcode w) (Z.of_nat (length vs))
              (flat_map (enc_int w) (map (entry_raw w) vs)))
    as [d [Ed Rd]]; [apply wcode_valid|lia|].
  rewrite Ed. cbn [bind]. eexists. split; [reflexivity|].
  unfold dec_info_ints, dec_info_int_gen. rewrite Rd. rewrite wcode_nonzero, width_of_wcode.
  destruct vs as [|v0 vs']; [contradiction|].
  destruct vs' as [|v1 vs''].
  - (* one entry: the same bytes as a scalar *)
    cbn [length Z.of_nat Pos.of_succ_nat Z.eqb Pos.eqb map flat_map].
    rewrite app_nil_r. rewrite <- (app_nil_r (enc_int w (entry_raw w v0))).
    rewrite take_app by apply enc_int_length.
    destruct v0 as [n|]; cbn [entry_raw norm_info_ints].
    + specialize (Fit n (or_introl eq_refl)).
      rewrite dec_enc_int by (unfold min_value in Fit; lia).
      rewrite classify_value by lia. reflexivity.
    + rewrite dec_enc_int by (destruct w; cbn; lia). rewrite classify_missing. reflexivity.
  - remember (v0 :: v1 :: vs'') as vs eqn:Evs.
    assert (2 <= Z.of_nat (length vs)) as L2 by (subst vs; cbn [length]; lia).
    destruct (Z.of_nat (length vs) =? 0) eqn:E0; [lia|].
    destruct (Z.of_nat (length vs) =? 1) eqn:E1; [lia|].
    rewrite znat_id by (rewrite (flat_map_len_const (enc_int w) (wbytes w)) by (intros x _; apply enc_int_length);
                        rewrite map_length; destruct w; cbn [wbytes]; lia).
    rewrite <- (map_length (entry_raw w) vs).
    rewrite <- (app_nil_r (flat_map _ _)). rewrite chunks_flat_map.
    rewrite map_rres_int_entry by exact Fit. cbn [rbind].
    subst vs. destruct v0; reflexivity.
Qed.

Lemma info_int_vector_below_min_is_error : forall vs n,
  In (Some n) vs -> n < -2147483640 -> enc_info_ints vs = ErrInput.
Proof.
  intros vs n Hn Hlt. unfold enc_info_ints. destruct vs as [|v0 vs']; [reflexivity|].
  pose proof (scan_bounds (v0 :: vs') scan_init n Hn) as B.
  rewrite select_minmax_err by lia. reflexivity.
Qed.

Lemma info_int_vector_empty_is_error : enc_info_ints [] = ErrInput.
Proof. reflexivity. Qed.

(* ---------------------------------------------------------------- float entries *)
Definition fentry_raw (v : option Z) : Z := match v with Some b => b | None => f_missing end.

Definition floats_ok (vs : list (option Z)) : Prop :=
  forall b, In (Some b) vs -> 0 <= b < 4294967296 /\ ~ reserved_nan b.

Lemma enc_f32_length : forall b, length (enc_f32 b) = 4%nat.
Proof. intros b. apply le_bytes_length. Qed.

Lemma classify_f_missing : classify_f f_missing = FMissing.
Proof. reflexivity. Qed.

Lemma classify_f_eov : classify_f f_eov = FEov.
Proof. reflexivity. Qed.

Lemma le_val_f_missing : le_val (enc_f32 f_missing) = f_missing.
Proof. reflexivity. Qed.

Lemma le_val_f_eov : le_val (enc_f32 f_eov) = f_eov.
Proof. reflexivity. Qed.

Lemma floats_ok_tail : forall v vs, floats_ok (v :: vs) -> floats_ok vs.
Proof. intros v vs H b Hb. apply H. right. exact Hb. Qed.

Lemma map_res_info_fentry : forall vs, floats_ok vs ->
  map_res info_fentry vs = Ok (map fentry_raw vs).
Proof.
  induction vs as [|v vs IH]; intros H; [reflexivity|].
  cbn [map_res map]. rewrite IH by (eapply floats_ok_tail; exact H).
  destruct v as [b|]; cbn [info_fentry fentry_raw bind]; [|reflexivity].
  destruct (H b (or_introl eq_refl)) as [_ Hn]. rewrite classify_f_value by exact Hn. reflexivity.
Qed.

Lemma map_res_fentry : forall vs, floats_ok vs ->
  map_res fentry vs = Ok (map fentry_raw vs).
Proof.
  induction vs as [|v vs IH]; intros H; [reflexivity|].
  cbn [map_res map]. rewrite IH by (eapply floats_ok_tail; exact H).
  destruct v as [b|]; cbn [fentry fentry_raw bind]; [|reflexivity].
  destruct (H b (or_introl eq_refl)) as [_ Hn]. unfold validate_float.
  rewrite classify_f_value by exact Hn. reflexivity.
Qed.

Lemma chunks_flat_map_f : forall raws rest,
  chunks (length raws) 4 (flat_map enc_f32 raws ++ rest) = Some (map enc_f32 raws, rest).
Proof.
  induction raws as [|x raws IH]; intros rest; [reflexivity|].
  cbn [length chunks flat_map map]. rewrite <- app_assoc.
  rewrite take_app by apply enc_f32_length. rewrite IH. reflexivity.
Qed.

Lemma map_rres_float_entry : forall vs, floats_ok vs ->
  map_rres float_entry (map enc_f32 (map fentry_raw vs)) = ROk vs.
Proof.
  induction vs as [|v vs IH]; intros H; [reflexivity|].
  cbn [map map_rres]. rewrite IH by (eapply floats_ok_tail; exact H).
  unfold float_entry. destruct v as [b|]; cbn [fentry_raw].
  - destruct (H b (or_introl eq_refl)) as [Hb Hn].
    rewrite le_val_enc_f32 by exact Hb. rewrite classify_f_value by exact Hn. reflexivity.
  - rewrite le_val_f_missing, classify_f_missing. reflexivity.
Qed.

(* ---------------------------------------------------------------- INFO Float vectors *)
Definition norm_info_floats (vs : list (option Z)) : rvalue :=
  match vs with [None] => RNone | _ => RFloats vs end.

(* bcf_info_float_vector_roundtrip *)
Lemma info_float_vector_roundtrip : forall vs,
  vs <> [] -> floats_ok vs -> Z.of_nat (length vs) <= 2147483647 ->
  exists bs, enc_info_floats vs = Ok bs /\ dec_info_floats bs = ROk (norm_info_floats vs).
Proof.
  intros vs Hne Hok Hl. unfold enc_info_floats.
  rewrite map_res_info_fentry by exact Hok. cbn [bind]. rewrite map_length.
  destruct (descriptor_roundtrip 5 (Z.of_nat (length vs)) (flat_map enc_f32 (map fentry_raw vs)))
    as [d [Ed Rd]]; [reflexivity|lia|].
  rewrite Ed. cbn [bind]. eexists. split; [reflexivity|].
  unfold dec_info_floats, dec_info_float_gen. rewrite Rd.
  cbn [Z.eqb Pos.eqb].
  destruct vs as [|v0 vs']; [contradiction|].
  destruct vs' as [|v1 vs''].
  - cbn [length Z.of_nat Pos.of_succ_nat Z.eqb Pos.eqb map flat_map].
    rewrite app_nil_r. rewrite <- (app_nil_r (enc_f32 (fentry_raw v0))).
    rewrite take_app by apply enc_f32_length.
    destruct v0 as [b|]; cbn [fentry_raw norm_info_floats].
    + destruct (Hok b (or_introl eq_refl)) as [Hb Hn].
      rewrite le_val_enc_f32 by exact Hb. rewrite classify_f_value by exact Hn. reflexivity.
    + rewrite le_val_f_missing, classify_f_missing. reflexivity.
  - remember (v0 :: v1 :: vs'') as vs eqn:Evs.
    assert (2 <= Z.of_nat (length vs)) as L2 by (subst vs; cbn [length]; lia).
    destruct (Z.of_nat (length vs) =? 0) eqn:E0; [lia|].
    destruct (Z.of_nat (length vs) =? 1) eqn:E1; [lia|].
    rewrite znat_id by (rewrite (flat_map_len_const enc_f32 4%nat) by (intros x _; apply enc_f32_length);
                        rewrite map_length; lia).
    rewrite <- (map_length fentry_raw vs).
    rewrite <- (app_nil_r (flat_map _ _)). rewrite chunks_flat_map_f.
    rewrite map_rres_float_entry by exact Hok. cbn [rbind].
    subst vs. destruct v0; reflexivity.
Qed.

(* the missing pattern given as an entry is read back as a missing entry, and an end-of-vector or
   reserved pattern is an error: "outside the reserved NaNs" is necessary *)
Lemma info_float_vector_missing_pattern_refuted :
  exists vs bs, enc_info_floats vs = Ok bs /\ dec_info_floats bs <> ROk (norm_info_floats vs).
Proof.
  exists [Some f_missing; Some 0]. eexists. split; [vm_compute; reflexivity|].
  vm_compute. intros H. discriminate H.
Qed.

(* ---------------------------------------------------------------- FORMAT Float, Number=1 *)
Lemma dec_fscalars_roundtrip : forall vals rest, floats_ok vals ->
  dec_fscalars (length vals) (flat_map enc_f32 (map fentry_raw vals) ++ rest) = ROk vals.
Proof.
  induction vals as [|v vals IH]; intros rest H; [reflexivity|].
  cbn [length dec_fscalars map flat_map]. rewrite <- app_assoc.
  rewrite take_app by apply enc_f32_length.
  destruct v as [b|]; cbn [fentry_raw].
  - destruct (H b (or_introl eq_refl)) as [Hb Hn].
    rewrite le_val_enc_f32 by exact Hb. rewrite classify_f_value by exact Hn.
    rewrite IH by (eapply floats_ok_tail; exact H). reflexivity.
  - rewrite le_val_f_missing, classify_f_missing.
    rewrite IH by (eapply floats_ok_tail; exact H). reflexivity.
Qed.

(* one float per sample, missing samples included *)
Lemma fmt_float_scalar_roundtrip : forall vals, floats_ok vals ->
  exists bs, enc_fmt_float vals = Ok bs /\
             dec_fmt_float (length vals) bs = ROk (BScalars vals).
Proof.
  intros vals H. unfold enc_fmt_float. rewrite map_res_fentry by exact H. cbn [bind].
  eexists. split; [reflexivity|].
  unfold dec_fmt_float, dec_fmt_float_gen. rewrite read_type_cons.
  rewrite dec_type_simple by (reflexivity || lia).
  cbn [Z.eqb Pos.eqb andb negb].
  rewrite <- (app_nil_r (flat_map _ _)). rewrite dec_fscalars_roundtrip by exact H. reflexivity.
Qed.

(* ---------------------------------------------------------------- FORMAT Float series *)
Definition fsample_ok (s : sample) : Prop := forall vs, s = Some vs -> floats_ok vs.

Definition fsample_raw_list (m : nat) (s : sample) : list Z :=
  match s with
  | Some vs => map fentry_raw vs ++ repeat f_eov (m - length vs)
  | None => f_missing :: repeat f_eov (m - 1)
  end.

Lemma fsample_raws_ok : forall m s, fsample_ok s -> fsample_raws m s = Ok (fsample_raw_list m s).
Proof.
  intros m s H. destruct s as [vs|]; cbn [fsample_raws fsample_raw_list]; [|reflexivity].
  rewrite map_res_fentry by (apply H; reflexivity). reflexivity.
Qed.

Lemma map_res_fsample_raws : forall m vals, (forall s, In s vals -> fsample_ok s) ->
  map_res (fsample_raws m) vals = Ok (map (fsample_raw_list m) vals).
Proof.
  induction vals as [|s vals IH]; intros H; [reflexivity|].
  cbn [map_res map]. rewrite fsample_raws_ok by (apply H; left; reflexivity).
  cbn [bind]. rewrite IH by (intros s' Hs'; apply H; right; exact Hs'). reflexivity.
Qed.

Lemma fsample_raw_list_length : forall m s, (sample_len s <= m)%nat ->
  length (fsample_raw_list m s) = m.
Proof.
  intros m s Hl. destruct s as [vs|]; cbn [fsample_raw_list sample_len] in *.
  - rewrite app_length, map_length, repeat_length. lia.
  - cbn [length]. rewrite repeat_length. lia.
Qed.

Lemma fsample_entries_pad : forall k, fsample_entries (map enc_f32 (repeat f_eov k)) = ROk [].
Proof.
  induction k as [|k IH]; [reflexivity|].
  cbn [repeat map fsample_entries]. rewrite le_val_f_eov, classify_f_eov. exact IH.
Qed.

Lemma fsample_entries_values : forall vs tail, floats_ok vs ->
  fsample_entries (map enc_f32 (map fentry_raw vs ++ tail))
  = rbind (fsample_entries (map enc_f32 tail)) (fun l => ROk (vs ++ l)).
Proof.
  induction vs as [|v vs IH]; intros tail H.
  - cbn [map app]. destruct (fsample_entries (map enc_f32 tail)); reflexivity.
  - cbn [map app fsample_entries].
    pose proof (floats_ok_tail _ _ H) as H'.
    destruct v as [b|]; cbn [fentry_raw].
    + destruct (H b (or_introl eq_refl)) as [Hb Hn].
      rewrite le_val_enc_f32 by exact Hb. rewrite classify_f_value by exact Hn.
      rewrite IH by exact H'. destruct (fsample_entries (map enc_f32 tail)); reflexivity.
    + rewrite le_val_f_missing, classify_f_missing.
      rewrite IH by exact H'. destruct (fsample_entries (map enc_f32 tail)); reflexivity.
Qed.

Lemma fsample_roundtrip : forall m s, fsample_ok s ->
  fsample_entries (map enc_f32 (fsample_raw_list m s))
  = ROk (match s with Some vs => vs | None => [None] end).
Proof.
  intros m s H. destruct s as [vs|]; cbn [fsample_raw_list].
  - rewrite fsample_entries_values by (apply H; reflexivity).
    rewrite fsample_entries_pad. cbn [rbind]. rewrite app_nil_r. reflexivity.
  - cbn [map fsample_entries]. rewrite le_val_f_missing, classify_f_missing.
    rewrite fsample_entries_pad. reflexivity.
Qed.

(* the decoder side for ANY common length m that is at least every sample's length (a missing
   sample occupies one entry) *)
Lemma fseries_roundtrip : forall m vals rest,
  (forall s, In s vals -> fsample_ok s) ->
  (forall s, In s vals -> (sample_len s <= m)%nat) ->
  dec_fsamples (length vals) m
    (flat_map (flat_map enc_f32) (map (fsample_raw_list m) vals) ++ rest)
  = ROk (map norm vals).
Proof.
  induction vals as [|s vals IH]; intros rest Hf Hl; [reflexivity|].
  cbn [length dec_fsamples flat_map map]. rewrite <- app_assoc.
  pose proof (fsample_raw_list_length m s (Hl s (or_introl eq_refl))) as Len.
  rewrite <- Len at 1. rewrite chunks_flat_map_f.
  rewrite fsample_roundtrip by (apply Hf; left; reflexivity).
  cbn [rbind]. rewrite IH.
  - cbn [rbind]. destruct s as [vs|]; reflexivity.
  - intros s' Hs'. apply Hf. right. exact Hs'.
  - intros s' Hs'. apply Hl. right. exact Hs'.
Qed.

Lemma fold_fmax_ge : forall vals m0,
  (m0 <= fold_left (fun m s => Nat.max m (fsample_len s)) vals m0)%nat /\
  (forall s, In s vals -> (fsample_len s <= fold_left (fun m s => Nat.max m (fsample_len s)) vals m0)%nat).
Proof.
  induction vals as [|s vals IH]; intros m0; cbn [fold_left]; [split; [lia|intros s []]|].
  destruct (IH (Nat.max m0 (fsample_len s))) as [A B]. split; [lia|].
  intros s' [E|Hs']; [subst s'; lia|apply B; exact Hs'].
Qed.

Definition fentries_ok (vals : list sample) : Prop :=
  forall vs, In (Some vs) vals -> floats_ok vs.

(* bcf_float_series_roundtrip: per-sample Float vectors with missing samples, missing entries and
   unequal lengths (padded with the end-of-vector pattern), through the writer's own length
   computation.  The writer needs one present vector (has_vector; otherwise Err(InvalidInput)) and
   takes the common length from the present vectors only, so a missing sample -- which occupies
   one entry -- needs fmax_len >= 1. *)
Lemma fmt_float_series_roundtrip : forall vals,
  fentries_ok vals -> has_vector vals = true ->
  (1 <= fmax_len vals)%nat -> Z.of_nat (fmax_len vals) <= 2147483647 ->
  exists bs, enc_fmt_floats vals = Ok bs /\
             dec_fmt_floats (length vals) bs = ROk (BVectors (map norm vals)).
Proof.
  intros vals Hok Hv Hm1 Hm2. unfold enc_fmt_floats. rewrite Hv.
  destruct (descriptor_roundtrip 5 (Z.of_nat (fmax_len vals))
              (flat_map (flat_map enc_f32) (map (fsample_raw_list (fmax_len vals)) vals)))
    as [d [Ed Rd]]; [reflexivity|lia|].
  rewrite Ed. cbn [bind].
  rewrite map_res_fsample_raws by (intros s Hs vs E; subst s; apply Hok; exact Hs).
  cbn [bind]. eexists. split; [reflexivity|].
  unfold dec_fmt_floats, dec_fmt_float_gen. rewrite Rd.
  cbn [Z.eqb Pos.eqb andb negb].
  assert (Z.of_nat (fmax_len vals) =? 0 = false) as E1 by lia. rewrite E1. cbn [andb].
  assert (forall s, In s vals -> (sample_len s <= fmax_len vals)%nat) as Hall.
  { intros s Hs. destruct s as [vs|]; cbn [sample_len].
    - apply (proj2 (fold_fmax_ge vals 0%nat) (Some vs) Hs).
    - exact Hm1. }
  rewrite znat_id.
  2:{ rewrite (flat_map_len_const _ (fmax_len vals * 4)%nat).
      - rewrite map_length. destruct vals as [|s0 vals']; [discriminate Hv|]. cbn [length]. nia.
      - intros y Hy. apply in_map_iff in Hy. destruct Hy as [s [Ey Hs]]. subst y.
        rewrite (flat_map_len_const enc_f32 4%nat) by (intros x _; apply enc_f32_length).
        rewrite fsample_raw_list_length by (apply Hall; exact Hs). reflexivity. }
  rewrite <- (app_nil_r (flat_map _ _)).
  rewrite fseries_roundtrip; [reflexivity| |exact Hall].
  intros s Hs vs E. subst s. apply Hok. exact Hs.
Qed.

Lemma has_vector_false : forall vals, has_vector vals = false -> enc_fmt_floats vals = ErrInput.
Proof. intros vals H. unfold enc_fmt_floats. rewrite H. reflexivity. Qed.
