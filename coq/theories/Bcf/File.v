(* C10 -- the BCF FILE: the header block and the record loop.

   Writer   noodles-bcf/src/io/writer.rs Writer::write_header:
              write_file_format (magic "BCF", version 2 2),
              self.string_maps = StringMaps::try_from(header)     (InvalidInput),
              io/writer/header.rs write_header: serialize_header (the VCF header writer,
              NV.Vcf.Header.write_header, each line followed by LF), CString::new (a NUL byte in
              the text = InvalidInput), l_text = u32::try_from(len + 1) (InvalidInput), l_text LE,
              the text, NUL;
            then write_variant_record per record with the writer's OWN string maps
            (NV.Bcf.Bridge.bcf_write).
   Reader   noodles-bcf/src/io/reader/header.rs read_header: read_exact 3 (UnexpectedEof) and
              magic_number::validate (InvalidData), read_exact 2 (the version is NOT checked),
              read_u32_le l_text, then over Take(l_text) the line reader of
              header/vcf_header.rs: a line ends at LF; at the start of a line a NUL byte or the end of
              the Take ends the text; read_line strips the LF and then one CR (a last line without
              LF is handed over as it is); every line goes to vcf::header::Parser::parse_partial
              and StringMaps::insert_entry (both InvalidData); discard_to_end (the repaired
              short-read check: fewer than l_text bytes = UnexpectedEof, AFTER the line loop);
              Parser::finish (Empty / MissingHeader = InvalidData); the header's string maps are
              those built by insert_entry in LINE order.
            then read_record_buf with ONE reused RecordBuf (NV.Bcf.Bridge.bcf_read_into) resp.
            read_record + RecordBuf::try_from_variant_record (NV.Bcf.Lazy.lazy_read_hdr) until
            Ok(0) (no byte left, or l_shared = 0) or an error.
   The VCF header value, writer and parser are C09's (NV.Vcf.Header, NV.Vcf.File.parse_header_chk =
   the parser with its reserved-definition check; hctx_of_header = the lookup tables of the record
   codecs).  Parser::parse_partial line by line followed by finish IS parse_header_chk on the list
   of lines; the only thing the BCF reader adds is the ORDER of the UnexpectedEof check between the
   two, which [parse_text] spells out.  Definitions only. *)
From Coq Require Import ZArith NArith List Bool.
From NV Require Import Text.TextBase Vcf.Values Vcf.Line Vcf.Header Vcf.File.
From NV Require Import Bcf.Ints Bcf.Typed Bcf.Strings Bcf.Genotype Bcf.StringMap Bcf.Record Bcf.RecordTyped
  Bcf.Bridge Bcf.Lazy.
Import ListNotations.
Open Scope Z_scope.

Definition magic : list N := [66; 67; 70]%N.
Definition version : list N := [2; 2]%N.

(* ------------------------------------------------------------------ string maps of a header *)
(* (ID, IDX) of a map line *)
Definition sm_line (m : hmap) : StringMap.line := (m_id m, option_map N.to_nat (m_idx m)).

(* StringMaps::try_from(&Header): contigs; INFO, FILTER, FORMAT.  (strings, contigs) *)
Definition maps_of_header (h : vheader) : option (smap * smap) :=
  match build_contigs (map sm_line (hh_contigs h)) with
  | None => None
  | Some c =>
    match build_strings (map sm_line (hh_infos h ++ hh_filters h ++ hh_formats h)) with
    | Some s => Some (s, c)
    | None => None
    end
  end.

(* ------------------------------------------------------------------ writer *)
(* Writer::write_header; None = Err(InvalidInput) *)
Definition write_prefix (h : vheader) : option (list N) :=
  match maps_of_header h with
  | None => None
  | Some _ =>
    match Header.write_header h with
    | None => None
    | Some ls =>
      let text := with_lf ls in
      if mem 0%N text then None
      else if 4294967295 <? Z.of_nat (length text) + 1 then None
      else Some (magic ++ version ++ le_bytes 4 (Z.of_nat (length text) + 1) ++ text ++ [0%N])
    end
  end.

(* the records, each with its variant_span (an input of bcf_write) *)
Fixpoint write_records (strings contigs : smap) (hc : hctx) (rs : list (Z * vrec)) : res (list N) :=
  match rs with
  | [] => Ok []
  | (rlen, r) :: t =>
    bind (bcf_write strings contigs hc rlen r) (fun b =>
    bind (write_records strings contigs hc t) (fun bt => Ok (b ++ bt)))
  end.

(* write_header, then write_variant_record for each record *)
Definition bcf_write_file (h : vheader) (rs : list (Z * vrec)) : res (list N) :=
  match write_prefix h, maps_of_header h with
  | Some p, Some (strings, contigs) =>
    bind (write_records strings contigs (hctx_of_header h) rs) (fun b => Ok (p ++ b))
  | _, _ => ErrInput
  end.

(* ------------------------------------------------------------------ header reader *)
Inductive fres (A : Type) := FOk (a : A) | FEof | FData.
Arguments FOk {A} a. Arguments FEof {A}. Arguments FData {A}.

(* read_line over header/vcf_header.rs::Reader: [cur] = the line so far, [bol] = is_eol *)
Definition strip_cr (l : list N) : list N := if ends_cr l then removelast l else l.

Fixpoint lines_of (cur : list N) (bol : bool) (bs : list N) : list (list N) :=
  match bs with
  | [] => if bol then [] else [cur]
  | b :: t =>
    if bol && N.eqb b 0 then []
    else if N.eqb b 10 then strip_cr cur :: lines_of [] true t
    else lines_of (cur ++ [b]) false t
  end.

(* the Entry parse_partial returns for a line, as far as insert_entry looks at it:
   (contig map?, (ID, IDX)) *)
Definition sm_entry (l : list N) : option (bool * StringMap.line) :=
  match p_record l with
  | Some (key, v) =>
    if bytes_eqb key k_INFO then option_map (fun m => (false, sm_line m)) (p_map KInfo v)
    else if bytes_eqb key k_FILTER then option_map (fun m => (false, sm_line m)) (p_map KFilter v)
    else if bytes_eqb key k_FORMAT then option_map (fun m => (false, sm_line m)) (p_map KFormat v)
    else if bytes_eqb key k_contig then option_map (fun m => (true, sm_line m)) (p_map KContig v)
    else None
  | None => None
  end.

Fixpoint sm_entries (contig : bool) (ls : list (list N)) : list StringMap.line :=
  match ls with
  | [] => []
  | l :: t =>
    match sm_entry l with
    | Some (c, e) => if Bool.eqb c contig then e :: sm_entries contig t else sm_entries contig t
    | None => sm_entries contig t
    end
  end.

(* insert_entry for every line, in line order: (strings, contigs) *)
Definition maps_of_lines (ls : list (list N)) : option (smap * smap) :=
  match build_strings (sm_entries false ls), build_contigs (sm_entries true ls) with
  | Some s, Some c => Some (s, c)
  | _, _ => None
  end.

(* does parse_partial reach State::Done: a line after the first starts with #CHROM *)
Definition is_chrom_line (l : list N) : bool :=
  match strip_prefix c_CHROM l with Some _ => true | None => false end.
Definition has_chrom_line (ls : list (list N)) : bool := existsb is_chrom_line (tl ls).

(* the line loop, discard_to_end, finish.  [short] = the stream ended before l_text bytes.
   Every parse_partial / insert_entry error comes first (InvalidData), then the short read
   (UnexpectedEof), then finish (InvalidData).  Without a #CHROM line every parse_partial call
   succeeds exactly when the lines followed by a bare #CHROM line parse. *)
Definition parse_text (ls : list (list N)) (short : bool) : fres (vheader * smap * smap) :=
  match ls with
  | [] => if short then FEof else FData                                  (* finish: Empty *)
  | _ =>
    if has_chrom_line ls then
      match parse_header_chk ls, maps_of_lines ls with
      | Some h, Some (s, c) => if short then FEof else FOk (h, s, c)
      | _, _ => FData
      end
    else
      match parse_header_chk (ls ++ [w_columns []]), maps_of_lines ls with
      | Some _, Some _ => if short then FEof else FData                  (* finish: MissingHeader *)
      | _, _ => FData
      end
  end.

(* read_header: the header, its string maps, the unread rest *)
Definition read_prefix (bs : list N) : fres (vheader * smap * smap * list N) :=
  match take 3 bs with
  | None => FEof
  | Some (m, r1) =>
    if negb (bytes_eqb m magic) then FData
    else
      match take 2 r1 with
      | None => FEof
      | Some (_, r2) =>
        match take 4 r2 with
        | None => FEof
        | Some (lb, r3) =>
          let n := znat (length r3) (le_val lb) in
          let short := Z.of_nat (length r3) <? le_val lb in
          match parse_text (lines_of [] true (firstn n r3)) short with
          | FOk (h, s, c) => FOk (h, s, c, skipn n r3)
          | FEof => FEof
          | FData => FData
          end
        end
      end
  end.

(* ------------------------------------------------------------------ record loops *)
Definition rec0 : vrec := Vcf.File.rec0.

(* how the loop ended: Ok(0) or an error *)
Inductive fend := EndEof | EndErr | EndFuel.

(* is the next read Ok(0): nothing left, or l_shared = 0 *)
Definition at_end (bs : list N) : bool :=
  match bs with
  | [] => true
  | _ => match take 4 bs with Some (a, _) => le_val a =? 0 | None => false end
  end.

(* read_record_buf(&header, &mut record) with ONE RecordBuf until Ok(0) or Err *)
Fixpoint read_eager (fuel : nat) (strings contigs : smap) (hc : hctx) (prev : vrec) (bs : list N)
  : list vrec * fend :=
  match fuel with
  | O => ([], EndFuel)
  | S f =>
    if at_end bs then ([], EndEof)
    else
      match dec_frame bs, bcf_read_into prev strings contigs hc bs with
      | Some (_, _, rest), ROk r =>
        let '(rs, e) := read_eager f strings contigs hc r rest in (r :: rs, e)
      | _, _ => ([], EndErr)
      end
  end.

(* read_record(&mut record) + RecordBuf::try_from_variant_record(&header, &record) *)
Fixpoint read_lazy (fuel : nat) (strings contigs : smap) (hc : hctx) (bs : list N)
  : list vrec * fend :=
  match fuel with
  | O => ([], EndFuel)
  | S f =>
    if at_end bs then ([], EndEof)
    else
      match dec_frame bs,
            lazy_read_hdr (h_v44 hc) strings contigs (ik_of hc) (fk_of hc) (Z.of_nat (h_nsamples hc)) bs with
      | Some (_, _, rest), ROk t =>
        let '(rs, e) := read_lazy f strings contigs hc rest in (vrec_of t :: rs, e)
      | _, _ => ([], EndErr)
      end
  end.

(* a record takes at least 8 bytes *)
Definition file_fuel (bs : list N) : nat := S (length bs).

Definition bcf_read_file (bs : list N) : fres (vheader * (list vrec * fend)) :=
  match read_prefix bs with
  | FOk (h, s, c, rest) => FOk (h, read_eager (file_fuel rest) s c (hctx_of_header h) rec0 rest)
  | FEof => FEof
  | FData => FData
  end.

Definition bcf_read_file_lazy (bs : list N) : fres (vheader * (list vrec * fend)) :=
  match read_prefix bs with
  | FOk (h, s, c, rest) => FOk (h, read_lazy (file_fuel rest) s c (hctx_of_header h) rest)
  | FEof => FEof
  | FData => FData
  end.
