(* C10 -- the WRITTEN stream is a list of BYTES (every N below 256), from the writer's INPUT.
   The model's strings are lists of N; the real writer's are &[u8]/&str.  [rec_bytes_ok] is the
   decidable predicate "every string element of the RecordBuf is a byte" (IDs, REF, ALT, the
   Character / String INFO values and their array elements); integers, floats, string-map indices
   and lengths always come out of le_bytes / desc_byte, which produce bytes whatever the number.
   Sub-domain of this file: SITES-ONLY records (no FORMAT keys, no sample rows: [rec_sites_only]);
   the per-sample encoders are not covered.  The header block's text is C09's Header.write_header;
   its byte premise is stated on that text ([hdr_text_bytes], decidable).
   Result: file_roundtrip_lazy_written_no_chars = file_roundtrip_lazy_no_chars without the
   [byte_list bs] premise. *)
From Coq Require Import ZArith NArith List Bool Lia.
From NV Require Import Text.TextBase Vcf.Values Vcf.Line Vcf.Header Vcf.HeaderProofs Vcf.HdrFrameProofs Vcf.File.
From NV Require Import Bcf.Ints Bcf.Typed Bcf.Strings Bcf.Genotype Bcf.StringMap Bcf.Record
  Bcf.RecordTyped Bcf.Bridge Bcf.Lazy Bcf.LazySiteProofs Bcf.LazyColProofs Bcf.LazyEagerProofs Bcf.File Bcf.FileProofs
  Bcf.FileLazyDomain.
Import ListNotations.

(* ------------------------------------------------------------------ the input predicates *)
Definition optb {A} (f : A -> bool) (o : option A) : bool := match o with Some a => f a | None => true end.
Definition byteb (b : N) : bool := (b <? 256)%N.

Definition value_bytes_ok (v : value) : bool :=
  match v with
  | VCharacter c => byteb c
  | VString s => byte_listb s
  | VCharArr l => forallb (optb byteb) l
  | VStrArr l => forallb (optb byte_listb) l
  | _ => true
  end.

Definition rec_bytes_ok (r : vrec) : bool :=
  forallb byte_listb (r_ids r) && byte_listb (r_ref r) && forallb byte_listb (r_alts r)
  && forallb (fun kv => optb value_bytes_ok (snd kv)) (r_info r).

Definition rec_sites_only (r : vrec) : bool :=
  match r_keys r, r_samples r with [], [] => true | _, _ => false end.

Definition hdr_text_bytes (h : vheader) : bool :=
  match Header.write_header h with Some ls => byte_listb (with_lf ls) | None => true end.

(* ------------------------------------------------------------------ primitives *)
Lemma bl_nil : byte_list []. Proof. constructor. Qed.
Lemma bl_cons : forall b l, (b < 256)%N -> byte_list l -> byte_list (b :: l).
Proof. intros. constructor; assumption. Qed.
Lemma bl_app : forall a b, byte_list a -> byte_list b -> byte_list (a ++ b).
Proof. intros a b Ha Hb. apply byte_list_app. split; assumption. Qed.

Lemma byte_listb_iff : forall l, byte_listb l = true <-> byte_list l.
Proof.
  intros l. split; [apply byte_listb_ok|]. intros H. unfold byte_listb. apply forallb_forall.
  intros b Hin. unfold byte_list in H. rewrite Forall_forall in H. apply N.ltb_lt. exact (H b Hin).
Qed.

Lemma bl_le_bytes : forall k u, byte_list (Ints.le_bytes k u).
Proof.
  induction k as [|k IH]; intros u; cbn [Ints.le_bytes]; [apply bl_nil|].
  apply bl_cons; [|apply IH].
  assert (0 <= u mod 256 < 256)%Z by (apply Z.mod_pos_bound; lia). lia.
Qed.

Lemma bl_enc_int : forall w n, byte_list (enc_int w n).
Proof. intros. unfold enc_int. apply bl_le_bytes. Qed.

Lemma bl_enc_f32 : forall b, byte_list (enc_f32 b).
Proof. intros. unfold enc_f32. apply bl_le_bytes. Qed.

Lemma bl_flat_map : forall {A} (f : A -> list N) l, (forall a, In a l -> byte_list (f a)) -> byte_list (flat_map f l).
Proof.
  intros A f. induction l as [|x t IH]; intros H; cbn [flat_map]; [apply bl_nil|].
  apply bl_app; [apply H; left; reflexivity|apply IH; intros a Ha; apply H; right; exact Ha].
Qed.

Lemma desc_lt : forall code len, (0 <= code < 16)%Z -> (desc_byte code len < 256)%N.
Proof. intros code len H. unfold desc_byte. lia. Qed.

Lemma wcode_rng : forall w, (0 <= wcode w < 16)%Z.
Proof. intros []; cbn; lia. Qed.

Lemma bl_enc_type : forall code len d, (0 <= code < 16)%Z -> enc_type code len = Ok d -> byte_list d.
Proof.
  intros code len d Hc H. unfold enc_type in H.
  repeat match type of H with (if ?c then _ else _) = _ => destruct c end;
    try discriminate H; inversion H; subst d;
    repeat (apply bl_cons; [apply desc_lt; lia|]); try apply bl_enc_int; apply bl_nil.
Qed.

Lemma bl_info_string : forall s b, byte_list s -> enc_info_string s = Ok b -> byte_list b.
Proof.
  intros s b Hs H. unfold enc_info_string in H.
  destruct (enc_type 7 (Z.of_nat (length s))) as [d| | |] eqn:Ed; try discriminate H.
  cbn [bind] in H. inversion H; subst b. apply bl_app; [|exact Hs].
  apply (bl_enc_type 7 _ _ ltac:(lia) Ed).
Qed.

Lemma bl_join : forall d ps, (d < 256)%N -> Forall byte_list ps -> byte_list (join d ps).
Proof.
  intros d ps Hd. induction ps as [|p t IH]; intros H; [apply bl_nil|].
  inversion H as [|? ? Hp Ht]; subst. cbn [join]. destruct t as [|q t']; [exact Hp|].
  apply bl_app; [exact Hp|]. apply bl_cons; [exact Hd|]. apply IH. exact Ht.
Qed.

Lemma forallb_Forall_bl : forall l, forallb byte_listb l = true -> Forall byte_list l.
Proof.
  intros l H. rewrite forallb_forall in H. apply Forall_forall. intros x Hx.
  apply byte_listb_iff. exact (H x Hx).
Qed.

(* ------------------------------------------------------------------ INFO values *)
Lemma bl_char_pieces : forall l, forallb (optb byteb) l = true -> Forall byte_list (map char_piece l).
Proof.
  intros l H. rewrite forallb_forall in H. apply Forall_forall. intros p Hp.
  apply in_map_iff in Hp. destruct Hp as (o & <- & Hin). specialize (H o Hin).
  destruct o as [c|]; cbn [char_piece optb] in *.
  - apply bl_cons; [apply N.ltb_lt; exact H|apply bl_nil].
  - apply bl_cons; [unfold dot; lia|apply bl_nil].
Qed.

Lemma bl_str_pieces : forall l, forallb (optb byte_listb) l = true -> Forall byte_list (map str_piece l).
Proof.
  intros l H. rewrite forallb_forall in H. apply Forall_forall. intros p Hp.
  apply in_map_iff in Hp. destruct Hp as (o & <- & Hin). specialize (H o Hin).
  destruct o as [c|]; cbn [str_piece optb] in *.
  - apply byte_listb_iff. exact H.
  - apply bl_cons; [unfold dot; lia|apply bl_nil].
Qed.

Lemma comma_lt : (comma < 256)%N. Proof. unfold comma. lia. Qed.

Lemma bl_info_val : forall ov b, optb value_bytes_ok ov = true -> enc_info_val ov = Ok b -> byte_list b.
Proof.
  intros ov b Hv H. destruct ov as [v|]; cbn [enc_info_val] in H.
  2:{ unfold enc_info_missing in H. inversion H. apply bl_cons; [lia|apply bl_nil]. }
  destruct v; cbn [optb value_bytes_ok] in Hv.
  - (* int *) unfold enc_info_int in H. destruct (select_scalar z) as [w|]; [|discriminate H].
    inversion H. apply bl_cons; [apply desc_lt; apply wcode_rng|apply bl_enc_int].
  - unfold enc_info_float in H. inversion H. apply bl_cons; [apply desc_lt; lia|apply bl_enc_f32].
  - unfold enc_info_missing in H. inversion H. apply bl_cons; [lia|apply bl_nil].
  - unfold enc_info_char in H. apply (bl_info_string _ _ (bl_cons _ _ (proj1 (N.ltb_lt _ _) Hv) bl_nil) H).
  - apply (bl_info_string _ _ (proj1 (byte_listb_iff _) Hv) H).
  - (* ints *) unfold enc_info_ints in H. destruct l as [|x t]; [discriminate H|].
    destruct (select_minmax _ _) as [w|]; [|discriminate H].
    destruct (map_res (info_entry w) (x :: t)) as [raws| | |]; try discriminate H. cbn [bind] in H.
    destruct (enc_type (wcode w) (Z.of_nat (length raws))) as [d| | |] eqn:Ed; try discriminate H.
    cbn [bind] in H. inversion H. apply bl_app.
    + apply (bl_enc_type _ _ _ (wcode_rng w) Ed).
    + apply bl_flat_map. intros; apply bl_enc_int.
  - (* floats *) unfold enc_info_floats in H.
    destruct (map_res info_fentry (map oz l)) as [raws| | |]; try discriminate H. cbn [bind] in H.
    destruct (enc_type 5 (Z.of_nat (length raws))) as [d| | |] eqn:Ed; try discriminate H.
    cbn [bind] in H. inversion H. apply bl_app.
    + apply (bl_enc_type 5 _ _ ltac:(lia) Ed).
    + apply bl_flat_map. intros; apply bl_enc_f32.
  - unfold enc_info_chars in H. apply (bl_info_string _ _ (bl_join _ _ comma_lt (bl_char_pieces _ Hv)) H).
  - unfold enc_info_strs in H. apply (bl_info_string _ _ (bl_join _ _ comma_lt (bl_str_pieces _ Hv)) H).
  - discriminate H.
Qed.

(* ------------------------------------------------------------------ the site block *)
Lemma bl_enc_index : forall i b, enc_index i = Ok b -> byte_list b.
Proof.
  intros i b H. unfold enc_index in H.
  repeat match type of H with (if ?c then _ else _) = _ => destruct c end;
    try discriminate H; inversion H; (apply bl_cons; [apply desc_lt; lia|apply bl_enc_int]).
Qed.

Lemma bl_enc_indices : forall l b, enc_indices l = Ok b -> byte_list b.
Proof.
  intros l b H. unfold enc_indices in H. destruct l as [|i [|j t]].
  - inversion H. apply bl_cons; [lia|apply bl_nil].
  - exact (bl_enc_index _ _ H).
  - remember (i :: j :: t) as l' eqn:El. clear El.
    destruct (2147483647 <? _)%Z; [discriminate H|].
    match type of H with bind (enc_type ?c ?n) _ = _ => destruct (enc_type c n) as [d| | |] eqn:Ed end;
      try discriminate H.
    cbn [bind] in H. injection H as <-. apply bl_app.
    + refine (bl_enc_type _ _ _ _ Ed). apply wcode_rng.
    + apply bl_flat_map. intros; apply bl_enc_int.
Qed.

Lemma bl_enc_strs : forall l b, Forall byte_list l -> enc_strs l = Ok b -> byte_list b.
Proof.
  induction l as [|s t IH]; intros b Hl H; cbn [enc_strs] in H.
  - inversion H. apply bl_nil.
  - inversion Hl as [|? ? Hs Ht]; subst.
    destruct (enc_info_string s) as [a| | |] eqn:Ea; try discriminate H. cbn [bind] in H.
    destruct (enc_strs t) as [c| | |] eqn:Ec; try discriminate H. cbn [bind] in H.
    inversion H. apply bl_app; [exact (bl_info_string _ _ Hs Ea)|exact (IH _ Ht eq_refl)].
Qed.

Definition field_bytes (f : field) : Prop := forall vb, snd f = Ok vb -> byte_list vb.

Lemma bl_enc_fields : forall m fs b, Forall field_bytes fs -> enc_fields m fs = Ok b -> byte_list b.
Proof.
  intros m. induction fs as [|[k v] t IH]; intros b Hf H; cbn [enc_fields] in H.
  - inversion H. apply bl_nil.
  - inversion Hf as [|? ? Hv Ht]; subst.
    destruct (index_of m k) as [i| | |]; try discriminate H. cbn [bind] in H.
    destruct (enc_index i) as [kb| | |] eqn:Ek; try discriminate H. cbn [bind] in H.
    destruct v as [vb| | |]; try discriminate H. cbn [bind] in H.
    destruct (enc_fields m t) as [rest| | |] eqn:Er; try discriminate H. cbn [bind] in H.
    inversion H. apply bl_app; [exact (bl_enc_index _ _ Ek)|].
    apply bl_app; [exact (Hv vb eq_refl)|exact (IH _ Ht eq_refl)].
Qed.

Lemma bl_u16 : forall n b, u16 n = Ok b -> byte_list b.
Proof. intros n b H. unfold u16 in H. destruct (n <=? 65535)%Z; [|discriminate H]. assert (b = Ints.le_bytes 2 n) as -> by congruence. apply bl_le_bytes. Qed.
Lemma bl_u32 : forall n b, u32 n = Ok b -> byte_list b.
Proof. intros n b H. unfold u32 in H. destruct (n <=? 4294967295)%Z; [|discriminate H]. assert (b = Ints.le_bytes 4 n) as -> by congruence. apply bl_le_bytes. Qed.

Lemma semicolon_lt : (semicolon < 256)%N. Proof. unfold semicolon. lia. Qed.

Ltac bstep H :=
  match type of H with
  | bind ?x _ = Ok _ => let E := fresh "E" in destruct x eqn:E; try discriminate H; cbn [bind] in H
  end.

Lemma bl_enc_site : forall strings contigs s infos nf b,
  Forall byte_list (s_ids s) -> byte_list (s_ref s) -> Forall byte_list (s_alts s) ->
  Forall field_bytes infos ->
  enc_site strings contigs s infos nf = Ok b -> byte_list b.
Proof.
  intros strings contigs s infos nf b Hids Href Halts Hinf H. unfold enc_site in H.
  do 13 bstep H.
  match type of H with Ok ?x = Ok _ => assert (b = x) as -> by congruence end. clear H.
  repeat (apply bl_app; [first [apply bl_enc_int | apply bl_enc_f32 | apply bl_le_bytes | idtac]|]).
  - exact (bl_u16 _ _ E3).
  - exact (bl_u16 _ _ E4).
  - refine (bl_info_string _ _ _ E7). apply bl_join; [apply semicolon_lt|exact Hids].
  - refine (bl_enc_strs _ _ _ E8). constructor; assumption.
  - exact (bl_enc_indices _ _ E10).
  - exact (bl_enc_fields _ _ _ Hinf E11).
Qed.

Lemma bl_enc_record_sites : forall strings contigs s infos b,
  Forall byte_list (s_ids s) -> byte_list (s_ref s) -> Forall byte_list (s_alts s) ->
  Forall field_bytes infos ->
  enc_record strings contigs s infos [] false = Ok b -> byte_list b.
Proof.
  intros strings contigs s infos b Hids Href Halts Hinf H. unfold enc_record in H.
  repeat bstep H.
  match type of H with Ok ?x = Ok _ => assert (b = x) as -> by congruence end. clear H.
  apply bl_app; [exact (bl_u32 _ _ E0)|]. apply bl_app; [exact (bl_u32 _ _ E1)|].
  apply bl_app; [exact (bl_enc_site _ _ _ _ _ _ Hids Href Halts Hinf E)|apply bl_nil].
Qed.

(* ------------------------------------------------------------------ write_variant_record *)
Lemma info_fields_bytes : forall r,
  forallb (fun kv => optb value_bytes_ok (snd kv)) (r_info r) = true -> Forall field_bytes (info_fields r).
Proof.
  intros r H. rewrite forallb_forall in H. unfold info_fields. apply Forall_forall. intros f Hf.
  apply in_map_iff in Hf. destruct Hf as (kv & <- & Hin). intros vb E. cbn [snd] in E.
  exact (bl_info_val _ _ (H kv Hin) E).
Qed.

Theorem bcf_write_bytes_sites : forall strings contigs hc rlen r b,
  rec_sites_only r = true -> rec_bytes_ok r = true ->
  bcf_write strings contigs hc rlen r = Ok b -> byte_list b.
Proof.
  intros strings contigs hc rlen r b Hs Hb H. unfold rec_sites_only in Hs.
  destruct (r_keys r) as [|] eqn:Ek; [|discriminate Hs]. destruct (r_samples r) as [|] eqn:Er; [|discriminate Hs].
  unfold rec_bytes_ok in Hb. repeat (apply andb_prop in Hb; destruct Hb as [Hb ?]).
  unfold bcf_write, enc_record_w, has_rows, fmt_fields in H. rewrite Ek, Er in H.
  cbn [indexed map negb andb] in H.
  replace (if fix11_nfmt_zero_without_rows && true then [] else []) with (@nil field) in H
    by (destruct fix11_nfmt_zero_without_rows; reflexivity).
  eapply bl_enc_record_sites; [| | | |exact H]; cbn [site_of s_ids s_ref s_alts].
  - apply forallb_Forall_bl; assumption.
  - apply byte_listb_iff; assumption.
  - apply forallb_Forall_bl; assumption.
  - apply info_fields_bytes; assumption.
Qed.

Lemma write_records_bytes_sites : forall s c hc rs b,
  forallb (fun x => rec_sites_only (snd x) && rec_bytes_ok (snd x)) rs = true ->
  write_records s c hc rs = Ok b -> byte_list b.
Proof.
  intros s c hc. induction rs as [|[rlen r] t IH]; intros b Hrs H; cbn [write_records] in H.
  - inversion H. apply bl_nil.
  - cbn [forallb snd] in Hrs. apply andb_prop in Hrs. destruct Hrs as [Hr Ht].
    apply andb_prop in Hr. destruct Hr as [Hso Hbo].
    destruct (bcf_write s c hc rlen r) as [x| | |] eqn:Ex; try discriminate H. cbn [bind] in H.
    destruct (write_records s c hc t) as [y| | |] eqn:Ey; try discriminate H. cbn [bind] in H.
    inversion H. apply bl_app; [exact (bcf_write_bytes_sites _ _ _ _ _ _ Hso Hbo Ex)|exact (IH _ Ht eq_refl)].
Qed.

(* ------------------------------------------------------------------ the header block *)
Lemma write_prefix_bytes : forall h p, hdr_text_bytes h = true -> write_prefix h = Some p -> byte_list p.
Proof.
  intros h p Hh H. unfold write_prefix in H. unfold hdr_text_bytes in Hh.
  destruct (maps_of_header h); [|discriminate H].
  destruct (Header.write_header h) as [ls|]; [|discriminate H].
  destruct (mem 0%N (with_lf ls)); [discriminate H|].
  destruct (4294967295 <? _)%Z; [discriminate H|].
  match type of H with Some ?x = Some _ => assert (p = x) as -> by congruence end. clear H.
  apply bl_app; [unfold magic; repeat (apply bl_cons; [lia|]); apply bl_nil|].
  apply bl_app; [unfold version; repeat (apply bl_cons; [lia|]); apply bl_nil|].
  apply bl_app; [apply bl_le_bytes|].
  apply bl_app; [apply byte_listb_iff; exact Hh|].
  apply bl_cons; [lia|apply bl_nil].
Qed.

(* the decidable input predicate of the file writer *)
Definition file_bytes_ok (h : vheader) (rs : list (Z * vrec)) : bool :=
  hdr_text_bytes h && forallb (fun x => rec_sites_only (snd x) && rec_bytes_ok (snd x)) rs.

Theorem bcf_write_file_bytes : forall h rs bs,
  file_bytes_ok h rs = true -> bcf_write_file h rs = Ok bs -> byte_list bs.
Proof.
  intros h rs bs Hok H. unfold file_bytes_ok in Hok. apply andb_prop in Hok. destruct Hok as [Hh Hr].
  unfold bcf_write_file in H.
  destruct (write_prefix h) as [p|] eqn:Ep; [|discriminate H].
  destruct (maps_of_header h) as [[s c]|]; [|discriminate H].
  destruct (write_records s c (hctx_of_header h) rs) as [b| | |] eqn:Eb; try discriminate H.
  cbn [bind] in H. inversion H. apply bl_app.
  - exact (write_prefix_bytes _ _ Hh Ep).
  - exact (write_records_bytes_sites _ _ _ _ _ Hr Eb).
Qed.

(* what the correspondence check reports for a written file: the input predicate and the bytes of
   the stream the model writes *)
Definition written_class (h : vheader) (rs : list (Z * vrec)) : bool * option bool :=
  (file_bytes_ok h rs, match bcf_write_file h rs with Ok bs => Some (byte_listb bs) | _ => None end).

Lemma written_class_sound : forall h rs o, written_class h rs = (true, o) -> o = None \/ o = Some true.
Proof.
  intros h rs o H. unfold written_class in H.
  assert (Hok : file_bytes_ok h rs = true) by congruence.
  destruct (bcf_write_file h rs) as [bs| | |] eqn:Ew;
    try (left; congruence).
  right. assert (Ho : o = Some (byte_listb bs)) by congruence. rewrite Ho. f_equal.
  apply byte_listb_iff. exact (bcf_write_file_bytes h rs bs Hok Ew).
Qed.

(* ------------------------------------------------------------------ the file round trip *)
Theorem file_roundtrip_lazy_written_no_chars : forall hd rs backs bs,
  header_ok hd -> hdr_defs_ok hd = true -> hdr_vals_framed hd ->
  hdr_no_chars hd = true ->
  file_bytes_ok hd rs = true ->
  (forall s c, maps_of_header hd = Some (s, c) -> Forall2 (file_rec_dom s c (hctx_of_header hd)) rs backs) ->
  bcf_write_file hd rs = Ok bs ->
  exists lbacks, bcf_read_file_lazy bs = FOk (hd, (lbacks, EndEof)) /\
                 Forall2 (same_content (h_v44 (hctx_of_header hd))) lbacks backs.
Proof.
  intros hd rs backs bs Hok Hd Hfr Hn Hb Hrs Hw.
  exact (file_roundtrip_lazy_no_chars hd rs backs bs Hok Hd Hfr Hn Hrs Hw (bcf_write_file_bytes hd rs bs Hb Hw)).
Qed.
