(* Proofs about NV.Bcf.Strings: Character / String values and series round-trip outside the class
   `string-special-chars` (empty string, ".", a ',' inside a vector element, NUL), and witnesses
   that inside the class they do not. *)
From Coq Require Import ZArith NArith List Bool Lia ZifyBool ZifyNat ZifyN.
From NV Require Import Bcf.Ints Bcf.IntsProofs Bcf.Typed Bcf.TypedProofs Bcf.Strings.
Import ListNotations.
Open Scope Z_scope.

(* ---------------------------------------------------------------- equality, join, split *)
Lemma str_eqb_refl : forall a, str_eqb a a = true.
Proof. induction a as [|x a IH]; [reflexivity|]. cbn [str_eqb]. rewrite N.eqb_refl. exact IH. Qed.

Lemma str_eqb_eq : forall a b, str_eqb a b = true -> a = b.
Proof.
  induction a as [|x a IH]; intros b H; destruct b as [|y b]; cbn [str_eqb] in H; try discriminate; [reflexivity|].
  apply andb_prop in H. destruct H as [H1 H2]. apply N.eqb_eq in H1. subst y.
  rewrite (IH b H2). reflexivity.
Qed.

Lemma str_eqb_neq : forall a b, a <> b -> str_eqb a b = false.
Proof.
  intros a b H. destruct (str_eqb a b) eqn:E; [|reflexivity].
  exfalso. apply H. apply str_eqb_eq. exact E.
Qed.

Lemma split_no_delim : forall d p, ~ In d p -> split_on d p = [p].
Proof.
  induction p as [|b p IH]; intros H; [reflexivity|].
  cbn [split_on]. destruct (N.eqb b d) eqn:E.
  - apply N.eqb_eq in E. exfalso. apply H. left. exact E.
  - rewrite IH by (intros Hin; apply H; right; exact Hin). reflexivity.
Qed.

Lemma split_app : forall d p s, ~ In d p -> split_on d (p ++ d :: s) = p :: split_on d s.
Proof.
  induction p as [|b p IH]; intros s H.
  - cbn [app split_on]. rewrite N.eqb_refl. reflexivity.
  - cbn [app split_on]. destruct (N.eqb b d) eqn:E.
    + apply N.eqb_eq in E. exfalso. apply H. left. exact E.
    + rewrite IH by (intros Hin; apply H; right; exact Hin). reflexivity.
Qed.

(* str::split undoes the writers' join when no piece contains the delimiter *)
Lemma split_join : forall d ps, ps <> [] -> (forall p, In p ps -> ~ In d p) ->
  split_on d (join d ps) = ps.
Proof.
  induction ps as [|p ps IH]; intros Hne H; [contradiction|].
  destruct ps as [|q r].
  - cbn [join]. apply split_no_delim. apply H. left. reflexivity.
  - change (join d (p :: q :: r)) with (p ++ d :: join d (q :: r)).
    rewrite split_app by (apply H; left; reflexivity).
    rewrite IH; [reflexivity|discriminate|intros p' Hp'; apply H; right; exact Hp'].
Qed.

Lemma in_join : forall d ps x, In x (join d ps) -> x = d \/ exists p, In p ps /\ In x p.
Proof.
  induction ps as [|p ps IH]; intros x H; [destruct H|].
  destruct ps as [|q r].
  - right. exists p. split; [left; reflexivity|exact H].
  - change (join d (p :: q :: r)) with (p ++ d :: join d (q :: r)) in H.
    apply in_app_or in H. destruct H as [H|[H|H]].
    + right. exists p. split; [left; reflexivity|exact H].
    + left. symmetry. exact H.
    + destruct (IH x H) as [E|[p' [Hp' Hx]]]; [left; exact E|].
      right. exists p'. split; [right; exact Hp'|exact Hx].
Qed.

Lemma join_nonempty : forall d ps, ps <> [] -> (forall p, In p ps -> p <> []) -> join d ps <> [].
Proof.
  intros d ps Hne H. destruct ps as [|p ps]; [contradiction|].
  assert (p <> []) as Hp by (apply H; left; reflexivity).
  destruct ps as [|q r]; [exact Hp|].
  change (join d (p :: q :: r)) with (p ++ d :: join d (q :: r)).
  destruct p; [contradiction|discriminate].
Qed.

Lemma join_two_has_delim : forall d p q r, In d (join d (p :: q :: r)).
Proof.
  intros d p q r. change (join d (p :: q :: r)) with (p ++ d :: join d (q :: r)).
  apply in_or_app. right. left. reflexivity.
Qed.

(* ---------------------------------------------------------------- UTF-8 *)
Lemma utf8_ascii : forall s, (forall b, In b s -> (b < 128)%N) -> utf8_valid s = true.
Proof.
  induction s as [|b s IH]; intros H; [reflexivity|]. cbn [utf8_valid].
  assert ((b <? 128)%N = true) as E by (apply N.ltb_lt; apply H; left; reflexivity).
  rewrite E. apply IH. intros c Hc. apply H. right. exact Hc.
Qed.

Lemma utf8_ascii1 : forall c, (c < 128)%N -> utf8_valid [c] = true.
Proof. intros c H. apply utf8_ascii. intros b [E|[]]. subst b. exact H. Qed.

(* ---------------------------------------------------------------- INFO: the typed string *)
Lemma info_string_roundtrip : forall s, s <> [] -> utf8_valid s = true ->
  Z.of_nat (length s) <= 2147483647 ->
  exists bs, enc_info_string s = Ok bs /\ dec_info_string bs = ROk (Some s).
Proof.
  intros s Hne Hu Hl. unfold enc_info_string.
  destruct (descriptor_roundtrip 7 (Z.of_nat (length s)) s) as [d [Ed Rd]]; [reflexivity|lia|].
  rewrite Ed. cbn [bind]. eexists. split; [reflexivity|].
  unfold dec_info_string. rewrite Rd. cbn [Z.eqb Pos.eqb].
  assert (Z.of_nat (length s) =? 0 = false) as E0 by (destruct s; [contradiction|cbn [length]; lia]).
  rewrite E0. rewrite znat_id by lia. rewrite <- (app_nil_r s) at 2.
  rewrite take_app by reflexivity. rewrite Hu. reflexivity.
Qed.

(* the empty string is stored as String(0), which reads back as the missing value *)
Lemma info_string_empty_refuted :
  exists s bs, enc_info_string s = Ok bs /\ dec_info_str bs = ROk SNone.
Proof. exists []. eexists. split; [reflexivity|]. vm_compute. reflexivity. Qed.

Lemma info_str_roundtrip : forall s, s <> [] -> utf8_valid s = true ->
  Z.of_nat (length s) <= 2147483647 ->
  exists bs, enc_info_string s = Ok bs /\ dec_info_str bs = ROk (SStr s).
Proof.
  intros s Hne Hu Hl. destruct (info_string_roundtrip s Hne Hu Hl) as [bs [E D]].
  exists bs. split; [exact E|]. unfold dec_info_str. rewrite D. reflexivity.
Qed.

Lemma info_char_roundtrip : forall c, (c < 128)%N ->
  exists bs, enc_info_char c = Ok bs /\ dec_info_char bs = ROk (SChar c).
Proof.
  intros c Hc. destruct (info_string_roundtrip [c]) as [bs [E D]]; [discriminate|apply utf8_ascii1; exact Hc|cbn; lia|].
  exists bs. split; [exact E|]. unfold dec_info_char. rewrite D. reflexivity.
Qed.

(* a Character that is not '.' or ',' *)
Definition plain_char (c : N) : Prop := c <> dot /\ c <> comma /\ c <> nul.
(* a vector element that is not empty, not ".", and holds no ',' and no NUL *)
Definition plain_elem (t : str) : Prop := t <> [] /\ t <> [dot] /\ ~ In comma t /\ ~ In nul t.

Definition chars_ok (vs : list (option N)) : Prop := forall c, In (Some c) vs -> plain_char c.
Definition strs_ok (vs : list (option str)) : Prop := forall t, In (Some t) vs -> plain_elem t.

Lemma char_pieces_no_comma : forall vs, chars_ok vs ->
  forall p, In p (map char_piece vs) -> ~ In comma p.
Proof.
  intros vs H p Hp. apply in_map_iff in Hp. destruct Hp as [v [E Hv]]. subst p.
  destruct v as [c|]; cbn [char_piece]; intros [X|[]].
  - destruct (H c Hv) as [_ [Hc _]]. apply Hc. exact X.
  - discriminate X.
Qed.

Lemma str_pieces_no_comma : forall vs, strs_ok vs ->
  forall p, In p (map str_piece vs) -> ~ In comma p.
Proof.
  intros vs H p Hp. apply in_map_iff in Hp. destruct Hp as [v [E Hv]]. subst p.
  destruct v as [t|]; cbn [str_piece].
  - destruct (H t Hv) as [_ [_ [Hc _]]]. exact Hc.
  - intros [X|[]]. discriminate X.
Qed.

Lemma char_pieces_nonempty : forall vs p, In p (map char_piece vs) -> p <> [].
Proof.
  intros vs p Hp. apply in_map_iff in Hp. destruct Hp as [v [E _]]. subst p.
  destruct v; discriminate.
Qed.

Lemma str_pieces_nonempty : forall vs, strs_ok vs -> forall p, In p (map str_piece vs) -> p <> [].
Proof.
  intros vs H p Hp. apply in_map_iff in Hp. destruct Hp as [v [E Hv]]. subst p.
  destruct v as [t|]; cbn [str_piece]; [|discriminate].
  destruct (H t Hv) as [Ht _]. exact Ht.
Qed.

Lemma chars_back : forall vs, chars_ok vs ->
  map char_of_byte (concat (map char_piece vs)) = vs.
Proof.
  induction vs as [|v vs IH]; intros H; [reflexivity|].
  cbn [map concat]. rewrite map_app. rewrite IH by (intros c Hc; apply H; right; exact Hc).
  destruct v as [c|]; cbn [char_piece map app]; [|reflexivity].
  unfold char_of_byte. destruct (H c (or_introl eq_refl)) as [Hd _].
  destruct (N.eqb c dot) eqn:E; [apply N.eqb_eq in E; contradiction|reflexivity].
Qed.

Lemma strs_back : forall vs, strs_ok vs -> map str_of_piece (map str_piece vs) = vs.
Proof.
  induction vs as [|v vs IH]; intros H; [reflexivity|].
  cbn [map]. rewrite IH by (intros t Ht; apply H; right; exact Ht).
  destruct v as [t|]; cbn [str_piece]; [|reflexivity].
  unfold str_of_piece. destruct (H t (or_introl eq_refl)) as [_ [Hd _]].
  rewrite str_eqb_neq by exact Hd. reflexivity.
Qed.

(* bcf_info_char_vector_roundtrip *)
Lemma info_chars_roundtrip : forall vs, vs <> [] -> chars_ok vs ->
  utf8_valid (join comma (map char_piece vs)) = true ->
  Z.of_nat (length (join comma (map char_piece vs))) <= 2147483647 ->
  exists bs, enc_info_chars vs = Ok bs /\ dec_info_chars bs = ROk (SChars vs).
Proof.
  intros vs Hne Hok Hu Hl.
  assert (map char_piece vs <> []) as Hne' by (destruct vs; [contradiction|discriminate]).
  destruct (info_string_roundtrip (join comma (map char_piece vs))) as [bs [E D]];
    [apply join_nonempty; [exact Hne'|apply char_pieces_nonempty]|exact Hu|exact Hl|].
  exists bs. split; [exact E|]. unfold dec_info_chars. rewrite D. cbn [rbind].
  rewrite split_join by (exact Hne' || apply char_pieces_no_comma; exact Hok).
  rewrite chars_back by exact Hok. reflexivity.
Qed.

(* bcf_info_string_vector_roundtrip *)
Lemma info_strs_roundtrip : forall vs, vs <> [] -> strs_ok vs ->
  utf8_valid (join comma (map str_piece vs)) = true ->
  Z.of_nat (length (join comma (map str_piece vs))) <= 2147483647 ->
  exists bs, enc_info_strs vs = Ok bs /\ dec_info_strs bs = ROk (SStrs vs).
Proof.
  intros vs Hne Hok Hu Hl.
  assert (map str_piece vs <> []) as Hne' by (destruct vs; [contradiction|discriminate]).
  destruct (info_string_roundtrip (join comma (map str_piece vs))) as [bs [E D]];
    [apply join_nonempty; [exact Hne'|apply str_pieces_nonempty; exact Hok]|exact Hu|exact Hl|].
  exists bs. split; [exact E|]. unfold dec_info_strs. rewrite D. cbn [rbind].
  rewrite split_join by (exact Hne' || apply str_pieces_no_comma; exact Hok).
  rewrite strs_back by exact Hok. reflexivity.
Qed.

(* inside the class: a ',' inside an element splits it, "." becomes a missing element, an empty
   element alone becomes the missing value *)
Lemma info_strs_special_refuted :
  (exists vs bs, enc_info_strs vs = Ok bs /\ dec_info_strs bs = ROk (SStrs [Some [97%N]; Some [98%N]])
                 /\ vs = [Some [97%N; comma; 98%N]]) /\
  (exists vs bs, enc_info_strs vs = Ok bs /\ dec_info_strs bs = ROk (SStrs [None; Some [97%N]])
                 /\ vs = [Some [dot]; Some [97%N]]) /\
  (exists vs bs, enc_info_strs vs = Ok bs /\ dec_info_strs bs = ROk SNone /\ vs = [Some []]).
Proof.
  split; [|split]; eexists; eexists; (split; [|split; [|reflexivity]]); vm_compute; reflexivity.
Qed.

Lemma info_chars_special_refuted :
  exists vs bs, enc_info_chars vs = Ok bs /\ dec_info_chars bs = ROk (SChars [Some 97%N; Some 98%N])
                /\ vs = [Some 97%N; Some comma; Some 98%N].
Proof. eexists; eexists; (split; [|split; [|reflexivity]]); vm_compute; reflexivity. Qed.

(* ---------------------------------------------------------------- FORMAT: cells *)
Lemma until_nul_pad : forall k, until_nul (repeat nul k) = [].
Proof. destruct k; reflexivity. Qed.

Lemma until_nul_cell : forall m s, ~ In nul s -> until_nul (cell m s) = s.
Proof.
  intros m s. unfold cell. generalize (m - length s)%nat as k.
  induction s as [|b s IH]; intros k H.
  - cbn [app]. apply until_nul_pad.
  - cbn [app until_nul]. destruct (N.eqb b nul) eqn:E.
    + apply N.eqb_eq in E. exfalso. apply H. left. exact E.
    + rewrite IH by (intros Hin; apply H; right; exact Hin). reflexivity.
Qed.

Lemma cell_length : forall m s, (length s <= m)%nat -> length (cell m s) = m.
Proof. intros m s H. unfold cell. rewrite app_length, repeat_length. lia. Qed.

Definition cell_ok (m : nat) (s : str) : Prop := (length s <= m)%nat /\ ~ In nul s /\ utf8_valid s = true.

Lemma dec_cells_roundtrip : forall m ss rest, (forall s, In s ss -> cell_ok m s) ->
  dec_cells (length ss) m (flat_map (cell m) ss ++ rest) = Some ss.
Proof.
  induction ss as [|s ss IH]; intros rest H; [reflexivity|].
  cbn [length dec_cells flat_map]. rewrite <- app_assoc.
  destruct (H s (or_introl eq_refl)) as [Hl [Hn Hu]].
  rewrite take_app by (apply cell_length; exact Hl).
  rewrite IH by (intros s' Hs'; apply H; right; exact Hs').
  rewrite until_nul_cell by exact Hn. rewrite Hu. reflexivity.
Qed.

(* one descriptor String(m) and one NUL-padded cell per sample: read back as the cells *)
Lemma cells_frame : forall m ss, (forall s, In s ss -> cell_ok m s) -> Z.of_nat m <= 2147483647 ->
  exists d, enc_type 7 (Z.of_nat m) = Ok d /\
            dec_fmt_cells (length ss) (d ++ flat_map (cell m) ss) = ROk ss.
Proof.
  intros m ss H Hm.
  destruct (descriptor_roundtrip 7 (Z.of_nat m) (flat_map (cell m) ss)) as [d [Ed Rd]]; [reflexivity|lia|].
  exists d. split; [exact Ed|]. unfold dec_fmt_cells. rewrite Rd.
  cbn [Z.eqb Pos.eqb negb]. rewrite andb_false_r.
  destruct ss as [|s0 ss']; [reflexivity|].
  rewrite znat_id.
  2:{ rewrite (flat_map_len_const (cell m) m) by (intros s Hs; apply cell_length; apply (H s Hs)).
      cbn [length]. nia. }
  rewrite <- (app_nil_r (flat_map _ _)). rewrite dec_cells_roundtrip by exact H. reflexivity.
Qed.

Lemma fold_max_ge : forall l m0 x, In x l -> (x <= fold_left Nat.max l m0)%nat.
Proof.
  induction l as [|y l IH]; intros m0 x H; [destruct H|]. cbn [fold_left].
  destruct H as [E|H]; [subst y|apply IH; exact H].
  assert (forall l m, (m <= fold_left Nat.max l m)%nat) as Mono.
  { clear. induction l as [|y l IH]; intros m; cbn [fold_left]; [lia|]. specialize (IH (Nat.max m y)). lia. }
  specialize (Mono l (Nat.max m0 x)). lia.
Qed.

Lemma fold_max_le : forall l m0 b, (m0 <= b)%nat -> (forall x, In x l -> (x <= b)%nat) ->
  (fold_left Nat.max l m0 <= b)%nat.
Proof.
  induction l as [|y l IH]; intros m0 b H0 H; cbn [fold_left]; [exact H0|].
  apply IH; [specialize (H y (or_introl eq_refl)); lia|intros x Hx; apply H; right; exact Hx].
Qed.

Lemma in_present_lens : forall vals v, In v vals ->
  In (match v with Some s => length s | None => 1%nat end) (present_lens vals).
Proof.
  intros vals v H. unfold present_lens.
  apply (in_map (fun v => match v with Some s => length s | None => 1%nat end)). exact H.
Qed.

Lemma present_lens_in : forall vals x, In x (present_lens vals) ->
  (exists s, In (Some s) vals /\ x = length s) \/ x = 1%nat.
Proof.
  intros vals x H. unfold present_lens in H. apply in_map_iff in H. destruct H as [v [E Hv]].
  destruct v as [s|]; [left; exists s; split; [exact Hv|symmetry; exact E]|right; symmetry; exact E].
Qed.

Lemma cells_eq : forall m (vals : list (option str)),
  flat_map (fun v => match v with Some s => cell m s | None => dot :: repeat nul (m - 1) end) vals
  = flat_map (cell m) (map str_piece vals).
Proof.
  intros m. induction vals as [|v vals IH]; [reflexivity|]. cbn [flat_map map]. rewrite IH.
  destruct v; reflexivity.
Qed.

(* what every present string needs for its cell to be read back whole (no NUL), and the bound
   that makes the descriptor writable *)
Definition fmt_str_ok (s : str) : Prop :=
  ~ In nul s /\ utf8_valid s = true /\ Z.of_nat (length s) <= 2147483647.

(* write_string_values then the cell reader: every sample's cell comes back ('.' for a missing
   sample) *)
Lemma fmt_strings_cells : forall vals,
  vals <> [] -> (forall s, In (Some s) vals -> fmt_str_ok s) ->
  exists bs, enc_fmt_strings vals = Ok bs /\
             dec_fmt_cells (length vals) bs = ROk (map str_piece vals).
Proof.
  intros vals Hne Hok.
  assert (enc_fmt_strings vals =
          let m := fold_left Nat.max (present_lens vals) 0%nat in
          bind (enc_type 7 (Z.of_nat m)) (fun d =>
          Ok (d ++ flat_map (fun v => match v with
                                      | Some s => cell m s
                                      | None => dot :: repeat nul (m - 1)
                                      end) vals))) as Eenc.
  { unfold enc_fmt_strings. destruct vals as [|v0 vals']; [contradiction|reflexivity]. }
  rewrite Eenc. cbv zeta.
  set (m := fold_left Nat.max (present_lens vals) 0%nat).
  assert (Z.of_nat m <= 2147483647) as Hm2.
  { assert (m <= Z.to_nat 2147483647)%nat as B; [|lia]. apply fold_max_le; [lia|].
    intros x Hx. destruct (present_lens_in vals x Hx) as [[s [Hs E]]|E]; subst x; [|lia].
    destruct (Hok s Hs) as [_ [_ Hb]]. lia. }
  rewrite (cells_eq m vals).
  destruct (cells_frame m (map str_piece vals)) as [d [Ed Dd]]; [|exact Hm2|].
  - intros s Hs. apply in_map_iff in Hs. destruct Hs as [v [E Hv]]. subst s.
    pose proof (fold_max_ge (present_lens vals) 0%nat _ (in_present_lens vals v Hv)) as G. fold m in G.
    destruct v as [s|]; cbn [str_piece].
    + split; [exact G|]. destruct (Hok s Hv) as [Hn [Hu _]]. split; [exact Hn|exact Hu].
    + split; [cbn [length]; exact G|]. split; [intros [X|[]]; discriminate X|reflexivity].
  - rewrite Ed. cbn [bind]. eexists. split; [reflexivity|].
    rewrite map_length in Dd. exact Dd.
Qed.

(* ---------------------------------------------------------------- FORMAT String, Number=1 *)
Lemma fmt_strings_roundtrip : forall vals,
  vals <> [] ->
  (forall s, In (Some s) vals -> fmt_str_ok s /\ s <> [dot]) ->
  exists bs, enc_fmt_strings vals = Ok bs /\ dec_fmt_strings (length vals) bs = ROk vals.
Proof.
  intros vals Hne Hok.
  destruct (fmt_strings_cells vals Hne) as [bs [E D]]; [intros s Hs; apply (Hok s Hs)|].
  exists bs. split; [exact E|]. unfold dec_fmt_strings. rewrite D. cbn [rbind]. f_equal.
  clear E D Hne. induction vals as [|v vals IH]; [reflexivity|].
  cbn [map]. rewrite IH by (intros s Hs; apply Hok; right; exact Hs).
  destruct v as [s|]; cbn [str_piece]; [|reflexivity].
  unfold str_of_piece. rewrite str_eqb_neq by (apply (Hok s (or_introl eq_refl))). reflexivity.
Qed.

(* inside the class: "." as a value is read back as a missing sample *)
Lemma fmt_strings_dot_refuted :
  exists vals bs, enc_fmt_strings vals = Ok bs /\ dec_fmt_strings (length vals) bs = ROk [None; Some [97%N]]
                  /\ vals = [Some [dot]; Some [97%N]].
Proof. eexists; eexists; (split; [|split; [|reflexivity]]); vm_compute; reflexivity. Qed.

(* no sample at all: the writer refuses *)
Lemma fmt_strings_no_sample_is_error : enc_fmt_strings [] = ErrInput.
Proof. reflexivity. Qed.

(* ---------------------------------------------------------------- FORMAT Character, Number=1 *)
Lemma fmt_chars_roundtrip : forall vals,
  vals <> [] -> (forall c, In (Some c) vals -> c <> dot /\ c <> nul /\ (c < 128)%N) ->
  exists bs, enc_fmt_chars vals = Ok bs /\ dec_fmt_chars (length vals) bs = ROk vals.
Proof.
  intros vals Hne Hok. unfold enc_fmt_chars.
  destruct (fmt_strings_cells (map (option_map (fun c => [c])) vals)) as [bs [E D]].
  - destruct vals; [contradiction|discriminate].
  - intros s Hs. apply in_map_iff in Hs. destruct Hs as [v [Ev Hv]].
    destruct v as [c|]; cbn [option_map] in Ev; [|discriminate]. inversion Ev. subst s.
    destruct (Hok c Hv) as [_ [Hn Ha]]. split; [|split; [apply utf8_ascii1; exact Ha|cbn; lia]].
    intros [X|[]]. apply Hn. exact X.
  - exists bs. split; [exact E|]. unfold dec_fmt_chars. rewrite map_length in D. rewrite D. cbn [rbind].
    clear E D Hne. induction vals as [|v vals IH]; [reflexivity|].
    cbn [map map_rres]. rewrite IH by (intros c Hc; apply Hok; right; exact Hc).
    destruct v as [c|]; cbn [option_map str_piece first_char rbind].
    + unfold char_of_byte. destruct (Hok c (or_introl eq_refl)) as [Hd _].
      destruct (N.eqb c dot) eqn:Ec; [apply N.eqb_eq in Ec; contradiction|reflexivity].
    + reflexivity.
Qed.

(* ---------------------------------------------------------------- FORMAT Character vectors *)
Definition char_arr_back (v : option (list (option N))) : option (list (option N)) :=
  Some (match v with Some cs => cs | None => [None] end).

Lemma first_chars_pieces : forall cs, chars_ok cs ->
  map_rres first_char (map char_piece cs) = ROk cs.
Proof.
  induction cs as [|c cs IH]; intros H; [reflexivity|].
  cbn [map map_rres]. rewrite IH by (intros c' Hc'; apply H; right; exact Hc').
  destruct c as [c|]; cbn [char_piece first_char rbind]; [|reflexivity].
  unfold char_of_byte. destruct (H c (or_introl eq_refl)) as [Hd _].
  destruct (N.eqb c dot) eqn:Ec; [apply N.eqb_eq in Ec; contradiction|reflexivity].
Qed.

Lemma join_chars_no_nul : forall cs, chars_ok cs -> ~ In nul (join comma (map char_piece cs)).
Proof.
  intros cs H Hin. apply in_join in Hin. destruct Hin as [E|[p [Hp Hx]]]; [discriminate E|].
  apply in_map_iff in Hp. destruct Hp as [v [Ev Hv]]. subst p.
  destruct v as [c|]; cbn [char_piece] in Hx; destruct Hx as [X|[]]; [|discriminate X].
  destruct (H c Hv) as [_ [_ Hn]]. apply Hn. exact X.
Qed.

(* the read-back never yields a missing sample: `.` comes back as the one-element vector [missing]
   (the same VCF text) *)
Lemma fmt_char_arrays_roundtrip : forall vals,
  vals <> [] ->
  (forall cs, In (Some cs) vals -> cs <> [] /\ chars_ok cs /\
     utf8_valid (join comma (map char_piece cs)) = true /\
     Z.of_nat (length (join comma (map char_piece cs))) <= 2147483647) ->
  exists bs, enc_fmt_char_arrays vals = Ok bs /\
             dec_fmt_char_arrays (length vals) bs = ROk (map char_arr_back vals).
Proof.
  intros vals Hne0 Hok. unfold enc_fmt_char_arrays.
  set (ser := fun cs : list (option N) => join comma (map char_piece cs)).
  destruct (fmt_strings_cells (map (option_map ser) vals)) as [bs [E D]].
  - destruct vals; [contradiction|discriminate].
  - intros s Hs. apply in_map_iff in Hs. destruct Hs as [v [Ev Hv]].
    destruct v as [cs|]; cbn [option_map] in Ev; [|discriminate]. inversion Ev. subst s.
    destruct (Hok cs Hv) as [Hne [Hc [Hu Hl]]]. split; [apply join_chars_no_nul; exact Hc|split; [exact Hu|exact Hl]].
  - exists bs. split; [exact E|]. unfold dec_fmt_char_arrays. rewrite map_length in D. rewrite D. cbn [rbind].
    clear E D Hne0. induction vals as [|v vals IH]; [reflexivity|].
    cbn [map map_rres]. rewrite IH by (intros cs Hcs; apply Hok; right; exact Hcs).
    destruct v as [cs|]; cbn [option_map str_piece char_arr_back].
    + destruct (Hok cs (or_introl eq_refl)) as [Hne [Hc _]]. unfold ser.
      rewrite split_join by ((destruct cs; [contradiction|discriminate]) || apply char_pieces_no_comma; exact Hc).
      rewrite first_chars_pieces by exact Hc. reflexivity.
    + reflexivity.
Qed.

(* ---------------------------------------------------------------- FORMAT String vectors *)
Definition norm_strs (v : option (list (option str))) : option (list (option str)) :=
  match v with Some [None] => None | _ => v end.

Lemma join_strs_no_nul : forall vs, strs_ok vs -> ~ In nul (join comma (map str_piece vs)).
Proof.
  intros vs H Hin. apply in_join in Hin. destruct Hin as [E|[p [Hp Hx]]]; [discriminate E|].
  apply in_map_iff in Hp. destruct Hp as [v [Ev Hv]]. subst p.
  destruct v as [t|]; cbn [str_piece] in Hx.
  - destruct (H t Hv) as [_ [_ [_ Hn]]]. apply Hn. exact Hx.
  - destruct Hx as [X|[]]. discriminate X.
Qed.

Lemma cell_strs_ser : forall v,
  (forall vs, v = Some vs -> vs <> [] /\ strs_ok vs) -> cell_strs (ser_strs v) = norm_strs v.
Proof.
  intros v H. destruct v as [vs|]; [|reflexivity].
  destruct (H vs eq_refl) as [Hne Hok]. cbn [ser_strs]. unfold cell_strs.
  destruct vs as [|v0 vs']; [contradiction|]. destruct vs' as [|v1 vs''].
  - cbn [map join]. destruct v0 as [t|]; cbn [str_piece norm_strs].
    + destruct (Hok t (or_introl eq_refl)) as [_ [Hd [Hc _]]]. rewrite str_eqb_neq by exact Hd.
      rewrite split_no_delim by exact Hc. cbn [map]. unfold str_of_piece.
      rewrite str_eqb_neq by exact Hd. reflexivity.
    + rewrite str_eqb_refl. reflexivity.
  - assert (str_eqb (join comma (map str_piece (v0 :: v1 :: vs''))) [dot] = false) as Ne.
    { apply str_eqb_neq. intros X. cbn [map] in X.
      pose proof (join_two_has_delim comma (str_piece v0) (str_piece v1) (map str_piece vs'')) as Hin.
      rewrite X in Hin. destruct Hin as [Y|[]]. discriminate Y. }
    rewrite Ne. rewrite split_join by (discriminate || apply str_pieces_no_comma; exact Hok).
    rewrite strs_back by exact Hok. destruct v0; reflexivity.
Qed.

Lemma fmt_str_arrays_roundtrip : forall vals,
  vals <> [] ->
  (forall vs, In (Some vs) vals -> vs <> [] /\ strs_ok vs /\
     utf8_valid (join comma (map str_piece vs)) = true /\
     Z.of_nat (length (join comma (map str_piece vs))) <= 2147483647) ->
  exists bs, enc_fmt_str_arrays vals = Ok bs /\
             dec_fmt_str_arrays (length vals) bs = ROk (map norm_strs vals).
Proof.
  intros vals Hne Hok.
  assert (enc_fmt_str_arrays vals =
          let ss := map ser_strs vals in
          let m := fold_left Nat.max (map (@length N) ss) 0%nat in
          bind (enc_type 7 (Z.of_nat m)) (fun d => Ok (d ++ flat_map (cell m) ss))) as E.
  { unfold enc_fmt_str_arrays. destruct vals; [contradiction|reflexivity]. }
  rewrite E. cbv zeta.
  set (ss := map ser_strs vals). set (m := fold_left Nat.max (map (@length N) ss) 0%nat).
  destruct (cells_frame m ss) as [d [Ed Dd]].
  - intros s Hs. split; [apply (fold_max_ge (map (@length N) ss) 0%nat); apply in_map; exact Hs|].
    unfold ss in Hs. apply in_map_iff in Hs. destruct Hs as [v [Ev Hv]]. subst s.
    destruct v as [vs|]; cbn [ser_strs].
    + split; [apply join_strs_no_nul; apply (Hok vs Hv)|apply (Hok vs Hv)].
    + split; [intros [X|[]]; discriminate X|reflexivity].
  - assert (m <= Z.to_nat 2147483647)%nat as B; [|lia]. apply fold_max_le; [lia|].
    intros x Hx. apply in_map_iff in Hx. destruct Hx as [s [Es Hs]]. subst x.
    unfold ss in Hs. apply in_map_iff in Hs. destruct Hs as [v [Ev Hv]]. subst s.
    destruct v as [vs|]; cbn [ser_strs]; [|cbn [length]; lia].
    destruct (Hok vs Hv) as [_ [_ [_ Hl]]]. lia.
  - rewrite Ed. cbn [bind]. eexists. split; [reflexivity|].
    unfold dec_fmt_str_arrays. unfold ss in Dd at 1. rewrite map_length in Dd. rewrite Dd. cbn [rbind].
    f_equal. unfold ss. rewrite map_map. apply map_ext_in. intros v Hv. apply cell_strs_ser.
    intros vs Ev. subst v. destruct (Hok vs Hv) as [A [B _]]. split; assumption.
Qed.

(* inside the class: a ',' inside an element of a per-sample vector splits it *)
Lemma fmt_str_arrays_special_refuted :
  exists vals bs, enc_fmt_str_arrays vals = Ok bs /\
    dec_fmt_str_arrays (length vals) bs = ROk [Some [Some [97%N]; Some [98%N]]]
    /\ vals = [Some [Some [97%N; comma; 98%N]]].
Proof. eexists; eexists; (split; [|split; [|reflexivity]]); vm_compute; reflexivity. Qed.
