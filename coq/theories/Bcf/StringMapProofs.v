(* Proofs about NV.Bcf.StringMap: the BCF dictionary of strings stays a bijection between names
   and indices as long as no explicit IDX overwrites a slot held by another name; counterexample
   when it does. *)
From Coq Require Import NArith List Bool Arith Lia ZifyBool ZifyNat ZifyN.
From NV Require Import Bcf.StringMap.
Import ListNotations.

Definition wf (m : smap) : Prop :=
  (forall n i, get_index_of m n = Some i -> get_index m i = Some n) /\
  (forall i n, get_index m i = Some n -> get_index_of m n = Some i).

Lemma some_inj : forall (A : Type) (a b : A), Some a = Some b -> a = b.
Proof. intros A a b H. inversion H as [H1]. reflexivity. Qed.

(* ---------- name equality ---------- *)

Lemma name_eqb_refl : forall a, name_eqb a a = true.
Proof.
  induction a as [|x a IH]; cbn [name_eqb]; [reflexivity|].
  rewrite N.eqb_refl, IH. reflexivity.
Qed.

Lemma name_eqb_eq : forall a b, name_eqb a b = true <-> a = b.
Proof.
  induction a as [|x a IH]; intros [|y b]; cbn [name_eqb]; split; intro H;
    try reflexivity; try discriminate.
  - apply andb_true_iff in H. destruct H as [H1 H2].
    apply N.eqb_eq in H1. apply IH in H2. subst. reflexivity.
  - inversion H as [[Hx Ha]]. subst. rewrite N.eqb_refl. cbn [andb]. apply name_eqb_refl.
Qed.

Lemma name_eqb_neq : forall a b, name_eqb a b = false <-> a <> b.
Proof.
  intros a b. split.
  - intros H E. apply name_eqb_eq in E. rewrite E in H. discriminate.
  - intros H. destruct (name_eqb a b) eqn:E; [|reflexivity].
    apply name_eqb_eq in E. contradiction.
Qed.

(* ---------- slots ---------- *)

Lemma slot_lt : forall es i n, slot es i = Some n -> i < length es.
Proof.
  intros es i n H. unfold slot in H. apply nth_error_Some.
  destruct (nth_error es i) as [o|]; [discriminate|discriminate].
Qed.

Lemma slot_ge : forall es i, length es <= i -> slot es i = None.
Proof.
  intros es i H. unfold slot. apply nth_error_None in H. rewrite H. reflexivity.
Qed.

Lemma nth_error_repeat_none : forall k j,
  nth_error (repeat (@None name) k) j = None \/ nth_error (repeat (@None name) k) j = Some None.
Proof.
  induction k as [|k IH]; intros [|j]; cbn [repeat nth_error]; auto.
Qed.

Lemma slot_app_l : forall es es' i, i < length es -> slot (es ++ es') i = slot es i.
Proof. intros es es' i H. unfold slot. rewrite nth_error_app1 by exact H. reflexivity. Qed.

Lemma slot_pad : forall es k i, slot (es ++ repeat None k) i = slot es i.
Proof.
  intros es k i. destruct (lt_dec i (length es)) as [Hl|Hl].
  - apply slot_app_l. exact Hl.
  - rewrite (slot_ge es i) by lia. unfold slot. rewrite nth_error_app2 by lia.
    destruct (nth_error_repeat_none k (i - length es)) as [E|E]; rewrite E; reflexivity.
Qed.

Lemma slot_snoc : forall es v, slot (es ++ [Some v]) (length es) = Some v.
Proof.
  intros es v. unfold slot. rewrite nth_error_app2 by lia. rewrite Nat.sub_diag. reflexivity.
Qed.

Lemma slot_snoc_gt : forall es v i, length es < i -> slot (es ++ [Some v]) i = None.
Proof. intros es v i H. apply slot_ge. rewrite app_length. cbn [length]. lia. Qed.

Lemma slot_set_eq : forall es i v, i < length es -> slot (set_nth i (Some v) es) i = Some v.
Proof.
  induction es as [|h t IH]; intros i v H; cbn [length] in H; [lia|].
  destruct i as [|i]; cbn [set_nth]; [reflexivity|].
  unfold slot. cbn [nth_error]. apply IH. lia.
Qed.

Lemma slot_set_neq : forall es i j x, i <> j -> slot (set_nth i x es) j = slot es j.
Proof.
  induction es as [|h t IH]; intros i j x H; [destruct i; reflexivity|].
  destruct i as [|i]; destruct j as [|j]; cbn [set_nth]; try reflexivity; [lia|].
  unfold slot. cbn [nth_error]. apply IH. lia.
Qed.

Lemma slot_set_same : forall es i v j,
  slot es i = Some v -> slot (set_nth i (Some v) es) j = slot es j.
Proof.
  intros es i v j H. destruct (Nat.eq_dec i j) as [E|E].
  - subst j. rewrite H. apply slot_set_eq. apply slot_lt in H. exact H.
  - apply slot_set_neq. exact E.
Qed.

Lemma grow_slot : forall es i j, slot (grow es i) j = slot es j.
Proof.
  intros es i j. unfold grow, resize_none. destruct (length es <=? i) eqn:E; [|reflexivity].
  apply Nat.leb_le in E. rewrite firstn_all2 by lia. apply slot_pad.
Qed.

Lemma grow_length : forall es i, i < length (grow es i).
Proof.
  intros es i. unfold grow, resize_none. destruct (length es <=? i) eqn:E.
  - apply Nat.leb_le in E. rewrite firstn_all2 by lia. rewrite app_length, repeat_length. lia.
  - apply Nat.leb_gt in E. exact E.
Qed.

(* ---------- the operations, as equations on get_index / get_index_of ---------- *)

Lemma insert_at_index : forall m i v j,
  get_index (snd (insert_at m i v)) j = if i =? j then Some v else get_index m j.
Proof.
  intros m i v j. unfold insert_at, get_index. cbn [snd entries].
  destruct (i =? j) eqn:E.
  - apply Nat.eqb_eq in E. subst j. apply slot_set_eq. apply grow_length.
  - apply Nat.eqb_neq in E. rewrite slot_set_neq by exact E. apply grow_slot.
Qed.

Lemma insert_at_index_of : forall m i v n,
  get_index_of (snd (insert_at m i v)) n = if name_eqb n v then Some i else get_index_of m n.
Proof. intros m i v n. reflexivity. Qed.

Lemma push_index : forall m v j,
  get_index m (length (entries m)) = None /\
  get_index (snd (push m v)) j = if length (entries m) =? j then Some v else get_index m j.
Proof.
  intros m v j. unfold push, get_index. cbn [snd entries]. split.
  - apply slot_ge. lia.
  - destruct (length (entries m) =? j) eqn:E.
    + apply Nat.eqb_eq in E. subst j. apply slot_snoc.
    + apply Nat.eqb_neq in E. destruct (lt_dec j (length (entries m))) as [Hl|Hl].
      * apply slot_app_l. exact Hl.
      * rewrite slot_snoc_gt by lia. rewrite slot_ge by lia. reflexivity.
Qed.

Lemma push_index_of : forall m v n,
  get_index_of (snd (push m v)) n
  = if name_eqb n v then Some (length (entries m)) else get_index_of m n.
Proof. intros m v n. reflexivity. Qed.

Lemma sm_insert_new : forall m v, get_index_of m v = None -> sm_insert m v = snd (push m v).
Proof. intros m v H. unfold sm_insert, insert_full. rewrite H. reflexivity. Qed.

Lemma sm_insert_old_index : forall m v i j,
  get_index_of m v = Some i -> get_index m i = Some v ->
  get_index (sm_insert m v) j = get_index m j.
Proof.
  intros m v i j H Hs. unfold sm_insert, insert_full. rewrite H. cbn [snd].
  unfold get_index. cbn [entries]. apply slot_set_same. exact Hs.
Qed.

Lemma sm_insert_old_index_of : forall m v i n,
  get_index_of m v = Some i -> get_index_of (sm_insert m v) n = get_index_of m n.
Proof. intros m v i n H. unfold sm_insert, insert_full. rewrite H. reflexivity. Qed.

(* ---------- wf preservation ---------- *)

Lemma wf_extend : forall m m' v i,
  wf m -> get_index_of m v = None -> get_index m i = None ->
  (forall j, get_index m' j = if i =? j then Some v else get_index m j) ->
  (forall n, get_index_of m' n = if name_eqb n v then Some i else get_index_of m n) ->
  wf m'.
Proof.
  intros m m' v i [Hw1 Hw2] Hv Hi Hidx Hof. split.
  - intros n k H. rewrite Hof in H. rewrite Hidx. destruct (name_eqb n v) eqn:E.
    + apply name_eqb_eq in E. inversion H as [Hk]. subst. rewrite Nat.eqb_refl. reflexivity.
    + destruct (i =? k) eqn:E2.
      * apply Nat.eqb_eq in E2. subst k. apply Hw1 in H. rewrite Hi in H. discriminate.
      * apply Hw1. exact H.
  - intros k n H. rewrite Hidx in H. rewrite Hof. destruct (i =? k) eqn:E2.
    + inversion H as [Hn]. subst n. rewrite name_eqb_refl. apply Nat.eqb_eq in E2.
      f_equal. exact E2.
    + destruct (name_eqb n v) eqn:E.
      * apply name_eqb_eq in E. subst n. apply Hw2 in H. rewrite Hv in H. discriminate.
      * apply Hw2. exact H.
Qed.

Lemma wf_empty : wf empty_map.
Proof.
  split.
  - intros n i H. discriminate H.
  - intros i n H. unfold get_index, slot in H. cbn [entries empty_map] in H.
    destruct i; discriminate H.
Qed.

Lemma sm_insert_wf : forall m v, wf m -> wf (sm_insert m v).
Proof.
  intros m v Hw. destruct (get_index_of m v) as [i|] eqn:E.
  - pose proof Hw as [Hw1 Hw2]. pose proof (Hw1 _ _ E) as Hs. split.
    + intros n k H. rewrite (sm_insert_old_index_of _ _ _ _ E) in H.
      rewrite (sm_insert_old_index _ _ _ _ E Hs). apply Hw1. exact H.
    + intros k n H. rewrite (sm_insert_old_index _ _ _ _ E Hs) in H.
      rewrite (sm_insert_old_index_of _ _ _ _ E). apply Hw2. exact H.
  - rewrite sm_insert_new by exact E.
    apply (wf_extend m _ v (length (entries m)) Hw E).
    + apply (push_index m v 0).
    + intros j. apply (push_index m v j).
    + intros n. apply push_index_of.
Qed.

Lemma wf_default_strings : wf default_strings.
Proof. unfold default_strings. apply sm_insert_wf. apply wf_empty. Qed.

Lemma default_strings_PASS : get_index_of default_strings PASS = Some 0.
Proof. reflexivity. Qed.

Lemma default_strings_PASS_index : get_index default_strings 0 = Some PASS.
Proof. reflexivity. Qed.

(* under wf, get_full is defined exactly on the keys, and returns the key itself *)
Lemma wf_get_full_some : forall m id j, wf m -> get_index_of m id = Some j -> get_full m id = Some (j, id).
Proof.
  intros m id j [Hw1 Hw2] H. unfold get_full. rewrite H. rewrite (Hw1 _ _ H). reflexivity.
Qed.

Lemma get_full_none_of_none : forall m id, get_index_of m id = None -> get_full m id = None.
Proof. intros m id H. unfold get_full. rewrite H. reflexivity. Qed.

Lemma wf_get_full_none : forall m id, wf m -> get_full m id = None -> get_index_of m id = None.
Proof.
  intros m id Hw H. destruct (get_index_of m id) as [j|] eqn:E; [|reflexivity].
  rewrite (wf_get_full_some _ _ _ Hw E) in H. discriminate.
Qed.

Lemma clobbers_false_slot : forall m id i,
  wf m -> get_index_of m id = None -> clobbers m id (Some i) = false -> get_index m i = None.
Proof.
  intros m id i [Hw1 Hw2] Hn Hc. unfold clobbers in Hc. rewrite Hn in Hc.
  destruct (get_index m i) as [e|] eqn:E; [|reflexivity].
  apply negb_false_iff in Hc. apply name_eqb_eq in Hc. subst e.
  apply Hw2 in E. rewrite Hn in E. discriminate.
Qed.

(* 2 *)
Lemma insert_wf : forall m id idx m',
  wf m -> clobbers m id idx = false -> insert m id idx = Some m' -> wf m'.
Proof.
  intros m id idx m' Hw Hc Hi. unfold insert in Hi. destruct idx as [i|].
  - destruct (get_full m id) as [[j e]|] eqn:Ef.
    + destruct (Nat.eqb i j && name_eqb id e); [|discriminate].
      inversion Hi as [Hm]. subst m'. exact Hw.
    + destruct (get_index m i) as [occ|] eqn:Eocc; [discriminate|].
      apply some_inj in Hi. subst m'.
      pose proof (wf_get_full_none _ _ Hw Ef) as Hn.
      pose proof (clobbers_false_slot _ _ _ Hw Hn Hc) as Hs.
      apply (wf_extend m _ id i Hw Hn Hs).
      * intros j. apply insert_at_index.
      * intros n. apply insert_at_index_of.
  - apply some_inj in Hi. subst m'. apply sm_insert_wf. exact Hw.
Qed.

(* 3 *)
Lemma insert_keeps : forall m id idx m' n i,
  wf m -> clobbers m id idx = false -> insert m id idx = Some m' ->
  get_index_of m n = Some i -> get_index_of m' n = Some i.
Proof.
  intros m id idx m' n i Hw Hc Hi Hn. unfold insert in Hi. destruct idx as [k|].
  - destruct (get_full m id) as [[j e]|] eqn:Ef.
    + destruct (Nat.eqb k j && name_eqb id e); [|discriminate].
      inversion Hi as [Hm]. subst m'. exact Hn.
    + destruct (get_index m k) as [occ|] eqn:Eocc; [discriminate|].
      apply some_inj in Hi. subst m'. rewrite insert_at_index_of.
      pose proof (wf_get_full_none _ _ Hw Ef) as Hnone.
      destruct (name_eqb n id) eqn:E; [|exact Hn].
      apply name_eqb_eq in E. subst n. rewrite Hnone in Hn. discriminate.
  - apply some_inj in Hi. subst m'. destruct (get_index_of m id) as [j|] eqn:E.
    + rewrite (sm_insert_old_index_of _ _ _ _ E). exact Hn.
    + rewrite sm_insert_new by exact E. rewrite push_index_of.
      destruct (name_eqb n id) eqn:E2; [|exact Hn].
      apply name_eqb_eq in E2. subst n. rewrite E in Hn. discriminate.
Qed.

Lemma insert_binds : forall m id idx m',
  wf m -> clobbers m id idx = false -> insert m id idx = Some m' ->
  exists i, get_index_of m' id = Some i /\ (forall k, idx = Some k -> i = k).
Proof.
  intros m id idx m' Hw Hc Hi. unfold insert in Hi. destruct idx as [k|].
  - destruct (get_full m id) as [[j e]|] eqn:Ef.
    + destruct (Nat.eqb k j && name_eqb id e) eqn:Eb; [|discriminate].
      inversion Hi as [Hm]. subst m'. apply andb_true_iff in Eb. destruct Eb as [Eb1 Eb2].
      apply Nat.eqb_eq in Eb1. subst j. exists k. split.
      * unfold get_full in Ef. destruct (get_index_of m id) as [j|]; [|discriminate].
        destruct (get_index m j); [|discriminate]. inversion Ef as [[Hj He]]. reflexivity.
      * intros k' Hk. inversion Hk as [Hk']. reflexivity.
    + destruct (get_index m k) as [occ|] eqn:Eocc; [discriminate|].
      apply some_inj in Hi. subst m'. exists k. split.
      * rewrite insert_at_index_of. rewrite name_eqb_refl. reflexivity.
      * intros k' Hk. inversion Hk as [Hk']. reflexivity.
  - apply some_inj in Hi. subst m'. destruct (get_index_of m id) as [j|] eqn:E.
    + exists j. split; [|intros k Hk; discriminate].
      rewrite (sm_insert_old_index_of _ _ _ _ E). exact E.
    + exists (length (entries m)). split; [|intros k Hk; discriminate].
      rewrite sm_insert_new by exact E. rewrite push_index_of. rewrite name_eqb_refl. reflexivity.
Qed.

(* ---------- the fold ---------- *)

Lemma build_from_cons : forall m id idx t,
  build_from m ((id, idx) :: t)
  = match insert m id idx with Some m' => build_from m' t | None => None end.
Proof. reflexivity. Qed.

Lemma no_clobber_from_cons : forall m id idx t,
  no_clobber_from m ((id, idx) :: t)
  = negb (clobbers m id idx) &&
    match insert m id idx with Some m' => no_clobber_from m' t | None => false end.
Proof. reflexivity. Qed.

(* 4: main theorem *)
Theorem string_map_resolve : forall m0 ls m,
  wf m0 -> build_from m0 ls = Some m -> no_clobber_from m0 ls = true ->
  wf m /\
  (forall id idx, In (id, idx) ls ->
     exists i, get_index_of m id = Some i /\ get_index m i = Some id /\
               (forall k, idx = Some k -> i = k)) /\
  (forall n i, get_index_of m0 n = Some i -> get_index_of m n = Some i).
Proof.
  intros m0 ls. revert m0. induction ls as [|[id idx] t IH]; intros m0 m Hw Hb Hc.
  - cbn [build_from] in Hb. inversion Hb as [Hm]. subst m. split; [exact Hw|]. split.
    + intros id idx Hin. destruct Hin.
    + intros n i H. exact H.
  - rewrite build_from_cons in Hb. rewrite no_clobber_from_cons in Hc.
    apply andb_true_iff in Hc. destruct Hc as [Hc1 Hc2]. apply negb_true_iff in Hc1.
    destruct (insert m0 id idx) as [m1|] eqn:Ei; [|discriminate].
    pose proof (insert_wf _ _ _ _ Hw Hc1 Ei) as Hw1.
    destruct (IH m1 m Hw1 Hb Hc2) as [Hwm [Hall Hkeep]].
    split; [exact Hwm|]. split.
    + intros id' idx' Hin. destruct Hin as [Heq|Hin].
      * inversion Heq as [[Hid Hidx]]. subst id' idx'.
        destruct (insert_binds _ _ _ _ Hw Hc1 Ei) as [i [Hi Hk]].
        exists i. pose proof (Hkeep _ _ Hi) as Hmi. split; [exact Hmi|]. split; [|exact Hk].
        destruct Hwm as [Hwm1 Hwm2]. apply Hwm1. exact Hmi.
      * apply Hall. exact Hin.
    + intros n i H. apply Hkeep. apply (insert_keeps _ _ _ _ _ _ Hw Hc1 Ei). exact H.
Qed.

(* 5: corollaries *)
Corollary build_strings_resolve : forall ls m,
  build_strings ls = Some m -> no_clobber_from default_strings ls = true ->
  wf m /\
  (forall id idx, In (id, idx) ls ->
     exists i, get_index_of m id = Some i /\ get_index m i = Some id /\
               (forall k, idx = Some k -> i = k)) /\
  get_index_of m PASS = Some 0 /\ get_index m 0 = Some PASS.
Proof.
  intros ls m Hb Hc.
  destruct (string_map_resolve _ _ _ wf_default_strings Hb Hc) as [Hw [Hall Hkeep]].
  split; [exact Hw|]. split; [exact Hall|].
  pose proof (Hkeep _ _ default_strings_PASS) as Hp. split; [exact Hp|].
  destruct Hw as [Hw1 Hw2]. apply Hw1. exact Hp.
Qed.

Corollary build_contigs_resolve : forall ls m,
  build_contigs ls = Some m -> no_clobber_from empty_map ls = true ->
  wf m /\
  (forall id idx, In (id, idx) ls ->
     exists i, get_index_of m id = Some i /\ get_index m i = Some id /\
               (forall k, idx = Some k -> i = k)).
Proof.
  intros ls m Hb Hc.
  destruct (string_map_resolve _ _ _ wf_empty Hb Hc) as [Hw [Hall Hkeep]].
  split; [exact Hw|exact Hall].
Qed.

(* 6 (after fix 09): an explicit IDX that names a slot held by a different ID is an error, so a
   successful build never clobbers and the no-clobber premise follows from success *)
Lemma insert_conflict_is_error : forall m id i e,
  get_index_of m id = None -> get_index m i = Some e -> insert m id (Some i) = None.
Proof.
  intros m id i e Hn Hs. unfold insert. rewrite (get_full_none_of_none _ _ Hn). rewrite Hs. reflexivity.
Qed.

Lemma insert_some_no_clobber : forall m id idx m',
  insert m id idx = Some m' -> clobbers m id idx = false.
Proof.
  intros m id idx m' Hi. unfold clobbers. destruct idx as [i|]; [|reflexivity].
  destruct (get_index_of m id) as [j|] eqn:En; [reflexivity|].
  destruct (get_index m i) as [e|] eqn:Es; [|reflexivity].
  rewrite (insert_conflict_is_error m id i e En Es) in Hi. discriminate Hi.
Qed.

Lemma build_no_clobber : forall ls m0 m, build_from m0 ls = Some m -> no_clobber_from m0 ls = true.
Proof.
  induction ls as [|[id idx] t IH]; intros m0 m Hb; [reflexivity|].
  rewrite build_from_cons in Hb. rewrite no_clobber_from_cons.
  destruct (insert m0 id idx) as [m1|] eqn:Ei; [|discriminate].
  rewrite (insert_some_no_clobber _ _ _ _ Ei). cbn [negb andb]. apply (IH m1 m Hb).
Qed.

Theorem string_map_resolve_built : forall m0 ls m,
  wf m0 -> build_from m0 ls = Some m ->
  wf m /\
  (forall id idx, In (id, idx) ls ->
     exists i, get_index_of m id = Some i /\ get_index m i = Some id /\
               (forall k, idx = Some k -> i = k)) /\
  (forall n i, get_index_of m0 n = Some i -> get_index_of m n = Some i).
Proof.
  intros m0 ls m Hw Hb. apply (string_map_resolve m0 ls m Hw Hb (build_no_clobber ls m0 m Hb)).
Qed.

Corollary build_strings_resolve_built : forall ls m,
  build_strings ls = Some m ->
  wf m /\
  (forall id idx, In (id, idx) ls ->
     exists i, get_index_of m id = Some i /\ get_index m i = Some id /\
               (forall k, idx = Some k -> i = k)) /\
  get_index_of m PASS = Some 0 /\ get_index m 0 = Some PASS.
Proof. intros ls m Hb. apply (build_strings_resolve ls m Hb (build_no_clobber _ _ _ Hb)). Qed.

Corollary build_contigs_resolve_built : forall ls m,
  build_contigs ls = Some m ->
  wf m /\
  (forall id idx, In (id, idx) ls ->
     exists i, get_index_of m id = Some i /\ get_index m i = Some id /\
               (forall k, idx = Some k -> i = k)).
Proof. intros ls m Hb. apply (build_contigs_resolve ls m Hb (build_no_clobber _ _ _ Hb)). Qed.

(* the former class header-idx-conflict-accepted: two IDs with one IDX, and an IDX that names
   the slot an earlier line got by order of appearance, are errors *)
Theorem string_map_conflict_is_error :
  build_strings [([65%N], Some 1); ([66%N], Some 1)] = None /\
  build_strings [([65%N], None); ([66%N], Some 1)] = None /\
  build_contigs [([65%N], Some 1); ([66%N], Some 1)] = None.
Proof. repeat split; reflexivity. Qed.

(* non-vacuity: mixed explicit / implicit positions (test_from_str_with_mixed_positions):
   NS IDX=1, PASS IDX=0, q10 IDX=3, q15 IDX=4, q20, NS *)
Example build_strings_mixed :
  build_strings [([78; 83]%N, Some 1); (PASS, Some 0); ([113; 49; 48]%N, Some 3);
                 ([113; 49; 53]%N, Some 4); ([113; 50; 48]%N, None); ([78; 83]%N, None)]
  = Some {| entries := [Some PASS; Some [78; 83]%N; None; Some [113; 49; 48]%N;
                        Some [113; 49; 53]%N; Some [113; 50; 48]%N];
            indices := [([113; 50; 48]%N, 5); ([113; 49; 53]%N, 4); ([113; 49; 48]%N, 3);
                        ([78; 83]%N, 1); (PASS, 0)] |}
  /\ no_clobber_from default_strings
       [([78; 83]%N, Some 1); (PASS, Some 0); ([113; 49; 48]%N, Some 3);
        ([113; 49; 53]%N, Some 4); ([113; 50; 48]%N, None); ([78; 83]%N, None)] = true.
Proof. split; vm_compute; reflexivity. Qed.

(* a position mismatch is an error: PASS with IDX=8 *)
Example build_strings_mismatch : build_strings [(PASS, Some 8)] = None.
Proof. reflexivity. Qed.

(* the clobbering input is flagged by the computed check *)
Example no_clobber_flags :
  no_clobber_from default_strings [([65%N], Some 1); ([66%N], Some 1)] = false.
Proof. reflexivity. Qed.

(* ---------- 7: input-only sufficient conditions ---------- *)

Definition all_idx_none (ls : list line) : Prop :=
  forall id idx, In (id, idx) ls -> idx = None.
Definition all_idx_some (ls : list line) : Prop :=
  forall id idx, In (id, idx) ls -> exists k, idx = Some k.
Definition idx_functional (ls : list line) : Prop :=
  forall id k1 k2, In (id, Some k1) ls -> In (id, Some k2) ls -> k1 = k2.
Definition idx_injective (ls : list line) : Prop :=
  forall id1 id2 k, In (id1, Some k) ls -> In (id2, Some k) ls -> id1 = id2.
(* every line either restates a binding of m0 (e.g. PASS at 0) or uses a name and a slot that
   m0 does not use *)
Definition fresh_for (m0 : smap) (ls : list line) : Prop :=
  forall id k, In (id, Some k) ls ->
    get_index_of m0 id = Some k \/ (get_index_of m0 id = None /\ get_index m0 k = None).

Lemma no_idx_no_clobber : forall ls m0,
  all_idx_none ls -> no_clobber_from m0 ls = true /\ build_from m0 ls <> None.
Proof.
  induction ls as [|[id idx] t IH]; intros m0 Hall.
  - split; [reflexivity|discriminate].
  - assert (idx = None) as Hidx by (apply (Hall id); left; reflexivity). subst idx.
    rewrite no_clobber_from_cons, build_from_cons. cbn [clobbers insert negb andb].
    apply IH. intros id' idx' Hin. apply (Hall id'). right. exact Hin.
Qed.

Lemma explicit_idx_no_clobber : forall ls m0,
  wf m0 -> all_idx_some ls -> idx_functional ls -> idx_injective ls -> fresh_for m0 ls ->
  no_clobber_from m0 ls = true /\ build_from m0 ls <> None.
Proof.
  induction ls as [|[id idx] t IH]; intros m0 Hw Hsome Hfun Hinj Hfresh.
  - split; [reflexivity|discriminate].
  - destruct (Hsome id idx (or_introl eq_refl)) as [k Hk]. subst idx.
    rewrite no_clobber_from_cons, build_from_cons.
    assert (all_idx_some t) as Hsome' by (intros a b Hin; apply (Hsome a b); right; exact Hin).
    assert (idx_functional t) as Hfun'
      by (intros a k1 k2 H1 H2; apply (Hfun a k1 k2); right; assumption).
    assert (idx_injective t) as Hinj'
      by (intros a b k0 H1 H2; apply (Hinj a b k0); right; assumption).
    destruct (Hfresh id k (or_introl eq_refl)) as [Hold|[Hn Hs]].
    + (* restates an existing binding: the map is unchanged *)
      assert (clobbers m0 id (Some k) = false) as Hc by (unfold clobbers; rewrite Hold; reflexivity).
      assert (insert m0 id (Some k) = Some m0) as Hi.
      { unfold insert. rewrite (wf_get_full_some _ _ _ Hw Hold).
        rewrite Nat.eqb_refl, name_eqb_refl. reflexivity. }
      rewrite Hc, Hi. cbn [negb andb]. apply IH; try assumption.
      intros a b Hin. apply Hfresh. right. exact Hin.
    + assert (clobbers m0 id (Some k) = false) as Hc
        by (unfold clobbers; rewrite Hn, Hs; reflexivity).
      assert (insert m0 id (Some k) = Some (snd (insert_at m0 k id))) as Hi.
      { unfold insert. rewrite (get_full_none_of_none _ _ Hn). rewrite Hs. reflexivity. }
      rewrite Hc, Hi. cbn [negb andb].
      apply IH; try assumption.
      * apply (insert_wf _ _ _ _ Hw Hc Hi).
      * intros a b Hin. rewrite insert_at_index_of, insert_at_index.
        destruct (name_eqb a id) eqn:Ea.
        -- apply name_eqb_eq in Ea. subst a. left. f_equal.
           apply (Hfun id k b); [left; reflexivity|right; exact Hin].
        -- destruct (k =? b) eqn:Eb.
           ++ apply Nat.eqb_eq in Eb. subst b. apply name_eqb_neq in Ea. exfalso. apply Ea.
              apply (Hinj a id k); [right; exact Hin|left; reflexivity].
           ++ apply Hfresh. right. exact Hin.
Qed.

(* instances: with explicit, functional, injective IDX values in which only PASS may use
   index 0, the dictionary of strings builds without clobbering *)
Corollary build_strings_explicit_ok : forall ls,
  all_idx_some ls -> idx_functional ls -> idx_injective ls -> fresh_for default_strings ls ->
  exists m, build_strings ls = Some m /\ wf m /\
    (forall id k, In (id, Some k) ls -> get_index_of m id = Some k /\ get_index m k = Some id) /\
    get_index_of m PASS = Some 0.
Proof.
  intros ls Hs Hf Hi Hfr.
  destruct (explicit_idx_no_clobber ls _ wf_default_strings Hs Hf Hi Hfr) as [Hc Hb].
  unfold build_strings. destruct (build_from default_strings ls) as [m|] eqn:E; [|contradiction].
  exists m. split; [reflexivity|].
  destruct (build_strings_resolve ls m E Hc) as [Hw [Hall [Hp Hp0]]].
  split; [exact Hw|]. split; [|exact Hp].
  intros id k Hin. destruct (Hall _ _ Hin) as [i [H1 [H2 H3]]].
  specialize (H3 k eq_refl). subst i. split; assumption.
Qed.

Corollary build_strings_no_idx_ok : forall ls,
  all_idx_none ls ->
  exists m, build_strings ls = Some m /\ wf m /\
    (forall id idx, In (id, idx) ls -> exists i, get_index_of m id = Some i /\ get_index m i = Some id) /\
    get_index_of m PASS = Some 0.
Proof.
  intros ls Hn. destruct (no_idx_no_clobber ls default_strings Hn) as [Hc Hb].
  unfold build_strings. destruct (build_from default_strings ls) as [m|] eqn:E; [|contradiction].
  exists m. split; [reflexivity|].
  destruct (build_strings_resolve ls m E Hc) as [Hw [Hall [Hp Hp0]]].
  split; [exact Hw|]. split; [|exact Hp].
  intros id idx Hin. destruct (Hall _ _ Hin) as [i [H1 [H2 H3]]].
  exists i. split; assumption.
Qed.
