(* The FORMAT half of the VCF <-> BCF bridge: a column of per-sample values through the writer's
   dispatch (Bridge.enc_fmt_col / enc_gt_col) and the reader's dispatch (RecordTyped.dec_fmt_kind /
   dec_gt_col), the transposition of the columns into rows (push_col), the typed round trip of a
   whole record with samples, and its agreement with the VCF re-read (C09's line theorem). *)
From Coq Require Import ZArith NArith List Bool Lia ZifyBool ZifyNat ZifyN.
From NV Require Import Base.Percent Text.TextBase Text.TextBaseProofs Vcf.Values Vcf.Line.
From NV Require Import Bcf.Ints Bcf.IntsProofs Bcf.Typed Bcf.TypedProofs Bcf.VectorsProofs
  Bcf.Strings Bcf.StringsProofs Bcf.StringMap Bcf.StringMapProofs Bcf.Record Bcf.RecordProofs
  Bcf.Genotype Bcf.GenotypeProofs Bcf.BlockProofs Bcf.RecordTyped Bcf.StringsExact Bcf.Bridge Bcf.BridgeProofs.
Import ListNotations.
Open Scope Z_scope.

(* ---------------------------------------------------------------- FORMAT Integer, Number = 1 *)
Lemma dec_scalars_roundtrip : forall w vals rest,
  (forall n, In (Some n) vals -> min_value w <= n <= wmax w) ->
  dec_scalars w (length vals)
    (flat_map (fun v => enc_int w (match v with Some n => n | None => wmin w end)) vals ++ rest)
  = ROk vals.
Proof.
  intros w. induction vals as [|v vals IH]; intros rest H; [reflexivity|].
  cbn [length dec_scalars flat_map]. rewrite <- app_assoc.
  rewrite take_app by apply enc_int_length.
  assert (forall n, In (Some n) vals -> min_value w <= n <= wmax w) as H' by (intros n Hn; apply H; right; exact Hn).
  destruct v as [n|].
  - specialize (H n (or_introl eq_refl)).
    rewrite dec_enc_int by (unfold min_value in H; lia).
    rewrite classify_value by lia. rewrite IH by exact H'. reflexivity.
  - rewrite dec_enc_int by (destruct w; cbn; lia).
    rewrite classify_missing. rewrite IH by exact H'. reflexivity.
Qed.

(* bcf_int_scalar_series_roundtrip: one Integer per sample (missing samples included), any values in
   -2^31+8..2^31-1, through the writer's min/max scan and width choice *)
Lemma fmt_int_scalar_roundtrip : forall vals,
  (forall n, In (Some n) vals -> -2147483640 <= n <= 2147483647) ->
  exists bs, enc_fmt_int vals = Ok bs /\ dec_fmt_int (length vals) bs = ROk (BScalars vals).
Proof.
  intros vals Hw. unfold enc_fmt_int.
  destruct (scan_within (-2147483640) 2147483647 vals scan_init ltac:(lia) Hw
              ltac:(cbn; lia) ltac:(cbn; lia)) as [Lo Hi].
  destruct (select_minmax_total (fst (scan scan_init vals)) (snd (scan scan_init vals)) Lo) as [w Ew].
  rewrite Ew. pose proof (select_minmax_sound _ _ w Hi Ew) as [S1 S2].
  eexists. split; [reflexivity|].
  unfold dec_fmt_int, dec_fmt_int_gen.
  match goal with |- context [read_type (?b :: ?r)] =>
    change (b :: r) with ([b] ++ r) end.
  rewrite (read_type_of_enc (wcode w) 1 [desc_byte (wcode w) 1]);
    [|destruct w; reflexivity|lia|reflexivity].
  assert (wcode w =? 0 = false) as E0 by (destruct w; reflexivity). rewrite E0.
  cbn [Z.eqb andb Pos.eqb].
  assert (width_of_code (wcode w) = Some w) as Ew' by (destruct w; reflexivity). rewrite Ew'.
  rewrite <- (app_nil_r (flat_map _ vals)).
  rewrite dec_scalars_roundtrip; [reflexivity|].
  intros n Hn. pose proof (scan_bounds vals scan_init n Hn). lia.
Qed.

(* ---------------------------------------------------------------- columns: conversion *)
Definition ob {A} (f : value -> option A) (o : option value) : option A :=
  match o with Some v => f v | None => None end.

Lemma col_conv_ok : forall A (f : value -> option A) c,
  (forall v, In (Some v) c -> f v <> None) -> col_conv f c = Ok (map (ob f) c).
Proof.
  intros A f. induction c as [|o c IH]; intros H; [reflexivity|].
  unfold col_conv in *. cbn [map_res map].
  rewrite IH by (intros v Hv; apply H; right; exact Hv).
  destruct o as [v|]; cbn [ob]; [|reflexivity].
  specialize (H v (or_introl eq_refl)). destruct (f v) as [a|]; [reflexivity|contradiction].
Qed.

Lemma map_cells : forall A (g : option A -> option value) (f : value -> option A) (bn : option value -> option value) c,
  (forall o, In o c -> g (ob f o) = bn o) -> map g (map (ob f) c) = map bn c.
Proof. intros A g f bn c H. rewrite map_map. apply map_ext_in. exact H. Qed.

Lemma in_ob : forall A (f : value -> option A) c a, In (Some a) (map (ob f) c) ->
  exists v, In (Some v) c /\ f v = Some a.
Proof.
  intros A f c a H. apply in_map_iff in H. destruct H as ([v|] & E & Hv); cbn [ob] in E; [|discriminate].
  exists v. split; assumption.
Qed.

(* the value is of the variant the FORMAT kind describes *)
Definition fkind_match (kd : fkind) (v : value) : Prop :=
  match kd, v with
  | FInt true, VInteger _ | FInt false, VIntArr _
  | FFloat true, VFloat _ | FFloat false, VFloatArr _
  | FChar true, VCharacter _ | FChar false, VCharArr _
  | FStr true, VString _ | FStr false, VStrArr _ => True
  | _, _ => False
  end.

Definition fcell_ok (kd : fkind) (o : option value) : Prop :=
  match o with
  | None => True
  | Some v => fkind_match kd v /\ bval_ok v /\ fmt_special v = false
  end.

(* a column of a key other than GT: one cell per sample (at least one sample), every cell missing or
   of the key's kind, in range and outside string-special-chars; a Float vector series needs one
   present vector (bcf_float_series_all_missing_is_error) *)
Definition fcol_ok (kd : fkind) (c : list (option value)) : Prop :=
  c <> [] /\ (forall o, In o c -> fcell_ok kd o) /\
  (kd = FFloat false -> exists l, In (Some (VFloatArr l)) c).

(* what BCF gives back for a cell: a missing sample of a Character vector series is the vector
   [missing]; a String vector that is one missing entry is the missing sample *)
Definition bnorm (kd : fkind) (o : option value) : option value :=
  match kd, o with
  | FChar false, None => Some (VCharArr [None])
  | FStr false, Some (VStrArr [None]) => None
  | _, _ => o
  end.

Lemma fold_max_bound : forall A (g : A -> nat) l m0 b, (m0 <= b)%nat -> (forall x, In x l -> (g x <= b)%nat) ->
  (fold_left (fun m s => Nat.max m (g s)) l m0 <= b)%nat.
Proof.
  intros A g. induction l as [|x l IH]; intros m0 b H0 H; cbn [fold_left]; [exact H0|].
  apply IH; [specialize (H x (or_introl eq_refl)); lia|intros y Hy; apply H; right; exact Hy].
Qed.

Lemma fold_max_lower : forall A (g : A -> nat) l m0 x, In x l ->
  (g x <= fold_left (fun m s => Nat.max m (g s)) l m0)%nat.
Proof.
  intros A g. induction l as [|y l IH]; intros m0 x Hx; [destruct Hx|]. cbn [fold_left].
  destruct Hx as [E|Hx]; [subst y|exact (IH _ x Hx)].
  assert (forall l m, (m <= fold_left (fun m s => Nat.max m (g s)) l m)%nat) as Mono.
  { induction l0 as [|z l0 IH0]; intros m; cbn [fold_left]; [lia|]. specialize (IH0 (Nat.max m (g z))). lia. }
  specialize (Mono l (Nat.max m0 (g x))). lia.
Qed.

(* from a fact about an element of the converted column to the cell it comes from *)
Ltac cell_of Ha Hc :=
  let v := fresh "v" in let Hv := fresh "Hv" in let Ea := fresh "Ea" in
  let Hm := fresh "Hm" in let Hb := fresh "Hb" in let Hs := fresh "Hs" in
  destruct (in_ob _ _ _ _ Ha) as (v & Hv & Ea);
  pose proof (Hc _ Hv) as Hm; cbn [fcell_ok] in Hm; destruct Hm as (Hm & Hb & Hs);
  destruct v; cbn [fkind_match] in Hm; try contradiction;
  cbn [as_int as_float as_char as_str as_ints as_floats as_chars as_strs] in Ea;
  inversion Ea; subst; cbn [bval_ok fmt_special] in Hb, Hs.

Ltac use_dec D :=
  match type of D with _ = ?rhs =>
    match goal with |- rbind ?x _ = _ /\ _ => replace x with rhs by (symmetry; exact D) end
  end.

Lemma conv_defined : forall A (f : value -> option A) kd c,
  (forall o, In o c -> fcell_ok kd o) ->
  (forall v, fkind_match kd v -> f v <> None) ->
  forall v, In (Some v) c -> f v <> None.
Proof. intros A f kd c H Hf v Hv. apply Hf. exact (proj1 (H _ Hv)). Qed.

Lemma len_pos : forall A (l : list A), l <> [] -> (1 <= length l)%nat.
Proof. intros A [|x l] H; [contradiction|cbn [length]; lia]. Qed.

Lemma norm_sample_id : forall l, l <> [None] -> norm_sample l = Some l.
Proof. intros l H. unfold norm_sample. destruct l as [|[x|] [|y t]]; try reflexivity. contradiction. Qed.

Theorem fmt_col_rt : forall kd c, fcol_ok kd c ->
  exists vb cells, enc_fmt_col kd c = Ok vb /\ sd true (length c) vb /\
    dec_fmt_kind kd (length c) vb = ROk cells /\ map value_of_cell cells = map (bnorm kd) c.
Proof.
  intros kd c (Hne & Hc & Hfv).
  destruct kd as [[|]|[|]|[|]|[|]]; cbn [enc_fmt_col dec_fmt_kind].
  - (* Integer scalars *)
    rewrite (col_conv_ok _ as_int c) by (apply (conv_defined _ _ (FInt true) c Hc); intros [] X; cbn in X; try contradiction; discriminate).
    cbn [bind]. set (vals := map (ob as_int) c).
    assert (length vals = length c) as Hl by apply map_length.
    destruct (fmt_int_scalar_roundtrip vals) as (bs & E & D).
    { intros n Ha. cell_of Ha Hc. exact Hb. }
    exists bs, (map CI vals). split; [exact E|]. split; [rewrite <- Hl; exact (sd_fmt_int _ _ E)|].
    rewrite <- Hl. unfold dec_fmt_int in D. rewrite D. cbn [rbind cells_of_back]. split; [reflexivity|].
    rewrite map_map. unfold vals. apply map_cells. intros o Ho. specialize (Hc o Ho).
    destruct o as [v|]; [|reflexivity]. destruct Hc as (Hm & _). destruct v; cbn in Hm; try contradiction. reflexivity.
  - (* Integer vectors *)
    rewrite (col_conv_ok _ as_ints c) by (apply (conv_defined _ _ (FInt false) c Hc); intros [] X; cbn in X; try contradiction; discriminate).
    cbn [bind]. set (vals := map (ob as_ints) c).
    assert (length vals = length c) as Hl by apply map_length.
    assert (forall s, In s vals -> (1 <= sample_len s)%nat /\ Z.of_nat (sample_len s) <= 2147483647) as Hlen.
    { intros [l|] Ha; cbn [sample_len]; [|lia]. cell_of Ha Hc. destruct Hb as (A & _ & _ & D0).
      pose proof (len_pos _ _ A). lia. }
    assert ((1 <= max_len vals)%nat) as Hm1.
    { destruct vals as [|s0 vals'] eqn:Ev; [apply (f_equal (@length _)) in Ev; rewrite Hl in Ev; destruct c; [contradiction|discriminate]|].
      pose proof (fold_max_lower _ sample_len (s0 :: vals') 0%nat s0 (or_introl eq_refl)) as X.
      destruct (Hlen s0 (or_introl eq_refl)). unfold max_len. lia. }
    assert (Z.of_nat (max_len vals) <= 2147483647) as Hm2.
    { assert ((max_len vals <= Z.to_nat 2147483647)%nat); [|lia]. apply fold_max_bound; [lia|].
      intros s Hs. destruct (Hlen s Hs). lia. }
    destruct (fmt_int_vector_roundtrip vals) as (bs & E & D); [|exact Hm1|exact Hm2|].
    { intros l n Ha Hn. cell_of Ha Hc. destruct Hb as (_ & _ & R & _). exact (R n Hn). }
    exists bs, (map CIV (map norm vals)). split; [exact E|]. split; [rewrite <- Hl; exact (sd_fmt_ints _ _ Hm1 E)|].
    rewrite <- Hl. unfold dec_fmt_ints in D.
    match goal with |- rbind ?x _ = _ /\ _ => replace x with (ROk (BVectors (map norm vals))) by (symmetry; exact D) end.
    cbn [rbind cells_of_back]. split; [reflexivity|].
    rewrite !map_map. unfold vals. rewrite map_map. apply map_ext_in. intros o Ho. specialize (Hc o Ho).
    destruct o as [v|]; [|reflexivity]. destruct Hc as (Hm & Hb & _). destruct v; cbn in Hm; try contradiction.
    cbn [ob as_ints norm]. cbn [bval_ok] in Hb. destruct Hb as (_ & N1 & _). rewrite norm_sample_id by exact N1. reflexivity.
  - (* Float scalars *)
    rewrite (col_conv_ok _ as_float c) by (apply (conv_defined _ _ (FFloat true) c Hc); intros [] X; cbn in X; try contradiction; discriminate).
    cbn [bind]. set (vals := map (ob as_float) c).
    assert (length vals = length c) as Hl by apply map_length.
    destruct (fmt_float_scalar_roundtrip vals) as (bs & E & D).
    { intros b Ha. cell_of Ha Hc. destruct Hb as [A B]. split; [split; [apply N2Z.is_nonneg|exact A]|exact B]. }
    exists bs, (map CF vals). split; [exact E|]. split; [rewrite <- Hl; exact (sd_fmt_float _ _ E)|].
    rewrite <- Hl. unfold dec_fmt_float in D. rewrite D. cbn [rbind cells_of_back]. split; [reflexivity|].
    rewrite map_map. unfold vals. apply map_cells. intros o Ho. specialize (Hc o Ho).
    destruct o as [v|]; [|reflexivity]. destruct Hc as (Hm & _). destruct v; cbn in Hm; try contradiction.
    cbn. now rewrite N2Z.id.
  - (* Float vectors *)
    rewrite (col_conv_ok _ as_floats c) by (apply (conv_defined _ _ (FFloat false) c Hc); intros [] X; cbn in X; try contradiction; discriminate).
    cbn [bind]. set (vals := map (ob as_floats) c).
    assert (length vals = length c) as Hl by apply map_length.
    assert (forall l, In (Some l) vals -> (1 <= length l)%nat /\ Z.of_nat (length l) <= 2147483647 /\ l <> [None] /\ floats_ok l) as Hlen.
    { intros l Ha. cell_of Ha Hc. destruct Hb as (A & B & R & D0). rewrite map_length.
      split; [exact (len_pos _ _ A)|]. split; [exact D0|]. split.
      - intro X. apply B. clear - X.
        match type of X with map oz ?l = _ => destruct l as [|[x|] [|y t]]; cbn in X; try discriminate; reflexivity end.
      - intros b Hb'. apply in_map_iff in Hb'. destruct Hb' as ([x|] & Ex & Hx); cbn [oz option_map] in Ex; [|discriminate].
        inversion Ex; subst b. destruct (R x Hx) as [P Q]. split; [split; [apply N2Z.is_nonneg|exact P]|exact Q]. }
    destruct (Hfv eq_refl) as (l1 & Hl1).
    assert (In (Some (map oz l1)) vals) as Hin1 by (unfold vals; apply in_map_iff; exists (Some (VFloatArr l1)); split; [reflexivity|exact Hl1]).
    assert (has_vector vals = true) as Hhv.
    { unfold has_vector. apply existsb_exists. exists (Some (map oz l1)). split; [exact Hin1|reflexivity]. }
    assert ((1 <= fmax_len vals)%nat) as Hm1.
    { pose proof (fold_max_lower _ fsample_len vals 0%nat _ Hin1) as X. cbn [fsample_len] in X.
      destruct (Hlen _ Hin1) as (A & _). unfold fmax_len. lia. }
    assert (Z.of_nat (fmax_len vals) <= 2147483647) as Hm2.
    { assert ((fmax_len vals <= Z.to_nat 2147483647)%nat); [|lia]. apply fold_max_bound; [lia|].
      intros [l|] Hs; cbn [fsample_len]; [|lia]. destruct (Hlen l Hs) as (_ & B & _). lia. }
    destruct (fmt_float_series_roundtrip vals) as (bs & E & D); [|exact Hhv|exact Hm1|exact Hm2|].
    { intros l Ha. exact (proj2 (proj2 (proj2 (Hlen l Ha)))). }
    exists bs, (map CFV (map norm vals)). split; [exact E|]. split; [rewrite <- Hl; exact (sd_fmt_floats _ _ Hm1 E)|].
    rewrite <- Hl. unfold dec_fmt_floats in D.
    match goal with |- rbind ?x _ = _ /\ _ => replace x with (ROk (BVectors (map norm vals))) by (symmetry; exact D) end.
    cbn [rbind cells_of_back]. split; [reflexivity|].
    rewrite !map_map. unfold vals. rewrite map_map. apply map_ext_in. intros o Ho. pose proof (Hc o Ho) as Hco.
    destruct o as [v|]; [|reflexivity]. destruct Hco as (Hm & Hb & _). destruct v; cbn in Hm; try contradiction.
    cbn [ob as_floats norm].
    assert (In (Some (map oz l)) vals) as Hin by (unfold vals; apply in_map_iff; exists (Some (VFloatArr l)); split; [reflexivity|exact Ho]).
    destruct (Hlen _ Hin) as (_ & _ & N1 & _). rewrite norm_sample_id by exact N1.
    cbn [value_of_cell option_map bnorm]. now rewrite map_on_oz.
  - (* Character scalars *)
    rewrite (col_conv_ok _ as_char c) by (apply (conv_defined _ _ (FChar true) c Hc); intros [] X; cbn in X; try contradiction; discriminate).
    cbn [bind]. set (vals := map (ob as_char) c).
    assert (length vals = length c) as Hl by apply map_length.
    assert (vals <> []) as Hvne by (intro X; apply (f_equal (@length _)) in X; rewrite Hl in X; destruct c; [contradiction|discriminate]).
    destruct (fmt_chars_roundtrip vals Hvne) as (bs & E & D).
    { intros ch Ha. cell_of Ha Hc. apply orb_false_iff in Hs. destruct Hs as [S1 S2].
      apply N.eqb_neq in S1. apply N.eqb_neq in S2. repeat split; assumption. }
    exists bs, (map CC vals). split; [exact E|]. split; [rewrite <- Hl; exact (sd_fmt_chars _ _ E)|].
    rewrite <- Hl. use_dec D. cbn [rbind]. split; [reflexivity|].
    rewrite map_map. unfold vals. apply map_cells. intros o Ho. specialize (Hc o Ho).
    destruct o as [v|]; [|reflexivity]. destruct Hc as (Hm & _). destruct v; cbn in Hm; try contradiction. reflexivity.
  - (* Character vectors *)
    rewrite (col_conv_ok _ as_chars c) by (apply (conv_defined _ _ (FChar false) c Hc); intros [] X; cbn in X; try contradiction; discriminate).
    cbn [bind]. set (vals := map (ob as_chars) c).
    assert (length vals = length c) as Hl by apply map_length.
    assert (vals <> []) as Hvne by (intro X; apply (f_equal (@length _)) in X; rewrite Hl in X; destruct c; [contradiction|discriminate]).
    destruct (fmt_char_arrays_roundtrip vals Hvne) as (bs & E & D).
    { intros cs Ha. cell_of Ha Hc. destruct Hb as (A & B & D0). split; [exact A|]. split; [|split; assumption].
      intros ch Hch. apply chr_plain. exact (any_some_false _ _ _ _ Hs Hch). }
    exists bs, (map CCV (map char_arr_back vals)). split; [exact E|]. split; [rewrite <- Hl; exact (sd_fmt_char_arrays _ _ E)|].
    rewrite <- Hl. use_dec D. cbn [rbind]. split; [reflexivity|].
    rewrite !map_map. unfold vals. rewrite map_map. apply map_ext_in. intros o Ho. specialize (Hc o Ho).
    destruct o as [v|]; [|reflexivity]. destruct Hc as (Hm & _). destruct v; cbn in Hm; try contradiction. reflexivity.
  - (* String scalars *)
    rewrite (col_conv_ok _ as_str c) by (apply (conv_defined _ _ (FStr true) c Hc); intros [] X; cbn in X; try contradiction; discriminate).
    cbn [bind]. set (vals := map (ob as_str) c).
    assert (length vals = length c) as Hl by apply map_length.
    assert (vals <> []) as Hvne by (intro X; apply (f_equal (@length _)) in X; rewrite Hl in X; destruct c; [contradiction|discriminate]).
    destruct (fmt_strings_roundtrip vals Hvne) as (bs & E & D).
    { intros s Ha. cell_of Ha Hc. destruct Hb as [U L]. apply orb_false_iff in Hs. destruct Hs as [S1 S2].
      split; [split; [exact (existsb_false_in _ _ S2)|split; assumption]|].
      intro X. rewrite X in S1. rewrite bytes_eqb_refl in S1. discriminate. }
    exists bs, (map CS vals). split; [exact E|]. split; [rewrite <- Hl; exact (sd_fmt_strings _ _ E)|].
    rewrite <- Hl. use_dec D. cbn [rbind]. split; [reflexivity|].
    rewrite map_map. unfold vals. apply map_cells. intros o Ho. specialize (Hc o Ho).
    destruct o as [v|]; [|reflexivity]. destruct Hc as (Hm & _). destruct v; cbn in Hm; try contradiction. reflexivity.
  - (* String vectors *)
    rewrite (col_conv_ok _ as_strs c) by (apply (conv_defined _ _ (FStr false) c Hc); intros [] X; cbn in X; try contradiction; discriminate).
    cbn [bind]. set (vals := map (ob as_strs) c).
    assert (length vals = length c) as Hl by apply map_length.
    assert (vals <> []) as Hvne by (intro X; apply (f_equal (@length _)) in X; rewrite Hl in X; destruct c; [contradiction|discriminate]).
    destruct (fmt_str_arrays_roundtrip_x vals Hvne) as (bs & E & D).
    { intros vs Ha. cell_of Ha Hc. destruct Hb as (A & B & D0). split; [exact A|]. split; [|split; assumption].
      intros t Ht. apply elt_f. exact (any_some_false _ _ _ _ Hs Ht). }
    exists bs, (map CSV (map norm_strs vals)). split; [exact E|]. split; [rewrite <- Hl; exact (sd_fmt_str_arrays _ _ E)|].
    rewrite <- Hl. use_dec D. cbn [rbind]. split; [reflexivity|].
    rewrite !map_map. unfold vals. rewrite map_map. apply map_ext_in. intros o Ho. specialize (Hc o Ho).
    destruct o as [v|]; [|reflexivity]. destruct Hc as (Hm & _). destruct v; cbn in Hm; try contradiction.
    cbn [ob as_strs norm_strs bnorm]. destruct l as [|[x|] [|y t]]; reflexivity.
Qed.

(* ---------------------------------------------------------------- the GT column *)
(* every sample holds a genotype with at least one allele, allele indices at most 62 *)
Definition gtcol_ok (c : list (option value)) : Prop :=
  c <> [] /\
  forall o, In o c -> exists g, o = Some (VGenotype g) /\ g <> [] /\
    Z.of_nat (length g) <= 2147483647 /\ forall p ph, In (Some p, ph) g -> (p <= 62)%N.

Definition vgt (g : list (option N * bool)) : option value := Some (VGenotype g).

Lemma enc_gt_col_eq : forall gs0, enc_gt_col (map vgt gs0) = enc_gt (map gz gs0).
Proof.
  intros gs0. unfold enc_gt_col, enc_gt.
  assert (map_res (fun o : option value => match o with
                     | Some (VGenotype g) => map_res enc_allele (gz g) | _ => ErrInput end) (map vgt gs0)
          = map_res (map_res enc_allele) (map gz gs0)) as X.
  { induction gs0 as [|g gs0 IH]; [reflexivity|]. cbn [map map_res vgt]. rewrite IH. reflexivity. }
  rewrite X. reflexivity.
Qed.

Lemma gn_gz : forall g, gn (gz g) = g.
Proof.
  intros g. unfold gn, gz. rewrite map_map. rewrite <- (map_id g) at 2. apply map_ext.
  intros [[p|] ph]; cbn [fst snd oz on option_map]; [now rewrite N2Z.id|reflexivity].
Qed.

Theorem gt_col_rt : forall c, gtcol_ok c ->
  exists vb cells, enc_gt_col c = Ok vb /\ sd true (length c) vb /\
    dec_gt_col (length c) vb = ROk cells /\ map value_of_cell cells = c.
Proof.
  intros c (Hne & Hc).
  set (gs0 := map (fun o => match o with Some (VGenotype g) => g | _ => [] end) c).
  assert (c = map vgt gs0) as Ec.
  { unfold gs0. rewrite map_map. rewrite <- (map_id c) at 1. apply map_ext_in. intros o Ho.
    destruct (Hc o Ho) as (g & -> & _). reflexivity. }
  assert (forall g, In g gs0 -> g <> [] /\ Z.of_nat (length g) <= 2147483647 /\
            forall p ph, In (Some p, ph) g -> (p <= 62)%N) as Hg.
  { intros g Hin. unfold gs0 in Hin. apply in_map_iff in Hin. destruct Hin as (o & Eo & Ho).
    destruct (Hc o Ho) as (g' & -> & A). subst g. exact A. }
  set (gs := map gz gs0).
  assert (length gs = length c) as Hl by (unfold gs, gs0; now rewrite !map_length).
  assert (forall g a, In g gs -> In a g -> allele_valid a) as Hv.
  { intros g a Hin Ha. unfold gs in Hin. apply in_map_iff in Hin. destruct Hin as (g0 & <- & Hg0).
    unfold gz in Ha. apply in_map_iff in Ha. destruct Ha as ([p ph] & <- & Hp). unfold allele_valid. cbn [fst snd].
    destruct p as [p|]; cbn [oz option_map]; [|exact I].
    pose proof (proj2 (proj2 (Hg g0 Hg0)) p ph Hp). lia. }
  assert (gs0 <> []) as Hne0 by (intro X; rewrite X in Ec; cbn in Ec; contradiction).
  assert ((1 <= gt_max_len (map (map code) gs))%nat) as Hm1.
  { destruct gs0 as [|g0 gs0'] eqn:Eg; [contradiction|].
    destruct (Hg g0 (or_introl eq_refl)) as (A & _).
    pose proof (proj2 (fold_max_length_ge (map (map code) gs) 0%nat) (map code (gz g0))) as Q.
    unfold gt_max_len. rewrite !map_length in Q.
    assert (In (map code (gz g0)) (map (map code) gs)) as Hin by (unfold gs; cbn [map]; left; reflexivity).
    specialize (Q Hin). unfold gz in Q. rewrite map_length in Q. pose proof (len_pos _ _ A). lia. }
  assert (Z.of_nat (gt_max_len (map (map code) gs)) <= 2147483647) as Hm2.
  { assert ((gt_max_len (map (map code) gs) <= Z.to_nat 2147483647)%nat); [|lia].
    unfold gt_max_len. apply fold_max_bound; [lia|]. intros raw Hr.
    apply in_map_iff in Hr. destruct Hr as (g & <- & Hin). unfold gs in Hin.
    apply in_map_iff in Hin. destruct Hin as (g0 & <- & Hg0). unfold gz. rewrite !map_length.
    destruct (Hg g0 Hg0) as (_ & B & _). lia. }
  destruct (genotype_roundtrip gs Hv Hm1 Hm2) as (bs & E & D).
  exists bs, (map CG (map Some gs)).
  split; [rewrite Ec, enc_gt_col_eq; exact E|]. split.
  - rewrite <- Hl. apply (sd_gt gs (map (map code) gs) bs); [|exact Hm1|exact E].
    apply map_res_ok. intros g Hin. apply map_res_ok. intros a Ha. apply (enc_allele_valid a (Hv g a Hin Ha)).
  - split.
    + rewrite <- Hl. unfold dec_gt_col. pose proof D as D'. unfold dec_gt in D'.
      destruct (read_type bs) as [[[code len] r]|]; [|discriminate].
      destruct ((code =? 1) && (len =? 0)) eqn:Ecl.
      * apply andb_true_iff in Ecl. destruct Ecl as [C1 C2]. rewrite C1, C2 in D'.
        exfalso. inversion D' as [X]. destruct gs as [|g gs']; [cbn in Hm1; lia|]. cbn in X. discriminate.
      * match goal with |- rbind ?x _ = _ => replace x with (ROk (map Some gs)) by (symmetry; exact D) end.
        reflexivity.
    + etransitivity; [|symmetry; exact Ec]. rewrite !map_map. unfold gs. rewrite map_map. apply map_ext. intros g.
      cbn [value_of_cell option_map vgt]. now rewrite gn_gz.
Qed.

(* ---------------------------------------------------------------- columns into rows *)
Fixpoint push {A} (rows : list (list A)) (vals : list A) : list (list A) :=
  match rows, vals with
  | r :: rs, v :: vs => (r ++ [v]) :: push rs vs
  | rs, _ => rs
  end.

Lemma push_col_push : forall rows vals, push_col rows vals = push rows vals.
Proof. induction rows as [|r rs IH]; intros [|v vs]; cbn [push_col push]; try reflexivity. now rewrite IH. Qed.

Lemma map_push : forall A B (g : A -> B) rows vals,
  map (map g) (push rows vals) = push (map (map g) rows) (map g vals).
Proof.
  intros A B g. induction rows as [|r rs IH]; intros [|v vs]; cbn [push map]; try reflexivity.
  rewrite map_app, IH. reflexivity.
Qed.

Lemma map_fold_push : forall A B (g : A -> B) cols acc,
  map (map g) (fold_left push cols acc) = fold_left push (map (map g) cols) (map (map g) acc).
Proof.
  intros A B g. induction cols as [|c cols IH]; intros acc; cbn [fold_left map]; [reflexivity|].
  rewrite IH, map_push. reflexivity.
Qed.

Lemma push_length : forall A (rows : list (list A)) vals, length (push rows vals) = length rows.
Proof. intros A. induction rows as [|r rs IH]; intros [|v vs]; cbn [push length]; try reflexivity. now rewrite IH. Qed.

Lemma push_nth : forall A (d : A) (rows : list (list A)) vals i, length vals = length rows -> (i < length rows)%nat ->
  nth i (push rows vals) [] = nth i rows [] ++ [nth i vals d].
Proof.
  intros A d. induction rows as [|r rs IH]; intros [|v vs] i Hl Hi; cbn [length] in *; try lia.
  cbn [push]. destruct i as [|i]; [reflexivity|]. cbn [nth]. apply IH; lia.
Qed.

Lemma map_seq_nth : forall A (l : list A) d, map (fun i => nth i l d) (seq 0 (length l)) = l.
Proof.
  intros A l d. apply (nth_ext _ _ d d); [now rewrite map_length, seq_length|].
  intros i Hi. rewrite map_length, seq_length in Hi.
  rewrite (nth_indep _ d (nth 0 l d)) by (now rewrite map_length, seq_length).
  rewrite (map_nth (fun i => nth i l d) (seq 0 (length l)) 0%nat i). rewrite seq_nth by exact Hi. reflexivity.
Qed.

Lemma fold_push_spec : forall A (d : A) n cols acc, length acc = n ->
  (forall c, In c cols -> length c = n) ->
  fold_left push cols acc = map (fun i => nth i acc [] ++ map (fun c => nth i c d) cols) (seq 0 n).
Proof.
  intros A d n. induction cols as [|c cols IH]; intros acc Ha Hc; cbn [fold_left].
  - cbn [map]. rewrite <- (map_seq_nth _ acc []) at 1. rewrite Ha. apply map_ext. intros i. now rewrite app_nil_r.
  - rewrite (IH (push acc c)); [|rewrite push_length; exact Ha|intros c' Hc'; apply Hc; right; exact Hc'].
    apply map_ext_in. intros i Hi. apply in_seq in Hi. cbn [map].
    rewrite (push_nth _ d) by (rewrite ?(Hc c (or_introl eq_refl)); lia).
    rewrite <- app_assoc. reflexivity.
Qed.

(* the columns of a table, column jk being row |-> F jk row, transposed back into rows *)
Lemma transpose_table : forall A R J (d : A) (F : J -> R -> A) (rows : list R) (jks : list J),
  fold_left push (map (fun jk => map (F jk) rows) jks) (repeat [] (length rows))
  = map (fun row => map (fun jk => F jk row) jks) rows.
Proof.
  intros A R J d F rows jks.
  rewrite (fold_push_spec _ d (length rows)); [|apply repeat_length|].
  2:{ intros c Hc. apply in_map_iff in Hc. destruct Hc as (jk & <- & _). apply map_length. }
  destruct rows as [|r0 rows']; [reflexivity|]. set (rows := r0 :: rows') in *.
  transitivity (map (fun row => map (fun jk => F jk row) jks) (map (fun i => nth i rows r0) (seq 0 (length rows))));
    [|now rewrite map_seq_nth].
  rewrite map_map. apply map_ext_in. intros i Hi. apply in_seq in Hi.
  assert (nth i (repeat (@nil A) (length rows)) [] = []) as X.
  { destruct (nth_in_or_default i (repeat (@nil A) (length rows)) []) as [Y|Y]; [apply repeat_spec in Y; exact Y|exact Y]. }
  rewrite X. cbn [app]. rewrite map_map. apply map_ext. intros jk.
  rewrite (nth_indep _ d (F jk r0)) by (rewrite map_length; lia). apply map_nth.
Qed.

(* ---------------------------------------------------------------- the FORMAT block *)
Lemma fkw_of_fk : forall h k kd, fk_of h k = Some kd -> fkw_of h k = Some kd.
Proof.
  intros h k kd H. unfold fk_of, fkw_of in *. destruct (Line.assoc k (h_formats h)) as [d|]; [|discriminate].
  unfold fkind_of, fkind_w in *. destruct (num_is 0 (fst d)); [discriminate|exact H].
Qed.

(* a FORMAT key of the record: in the dictionary, defined in the header with a (Number, Type) the
   reader accepts, and its column of per-sample values is one the writer accepts *)
Definition fmt_key_ok (strings : smap) (h : hctx) (rows : list (list (option value))) (jk : nat * name) : Prop :=
  (exists i, get_index_of strings (snd jk) = Some i /\ Z.of_nat i <= 2147483647) /\
  exists kd, fk_of h (snd jk) = Some kd /\
    if name_eqb (snd jk) GT then gtcol_ok (column (fst jk) rows)
    else fcol_ok kd (column (fst jk) rows).

(* what read_samples does with one FORMAT field *)
Definition dec_fmt_field (h : hctx) (ns : nat) (kv : name * list N) : rres (list cellv) :=
  match fk_of h (fst kv) with
  | None => RErr
  | Some k => if name_eqb (fst kv) GT then dec_gt_col ns (snd kv) else dec_fmt_kind k ns (snd kv)
  end.

(* the value BCF gives back for the cell of key jk in a row *)
Definition bcell (h : hctx) (jk : nat * name) (o : option value) : option value :=
  if name_eqb (snd jk) GT then o
  else match fk_of h (snd jk) with Some kd => bnorm kd o | None => o end.

Lemma fmt_fields_rt : forall strings h rows jks,
  Forall (fmt_key_ok strings h rows) jks ->
  exists (fblocks : list (name * list N)) cols,
    map (fmt_field h rows) jks = map lift fblocks /\
    map fst fblocks = map snd jks /\
    (forall k vb, In (k, vb) fblocks -> sd true (length rows) vb) /\
    map_rres (dec_fmt_field h (length rows)) fblocks = ROk cols /\
    map (map value_of_cell) cols
    = map (fun jk => map (fun row => bcell h jk (nth (fst jk) row None)) rows) jks.
Proof.
  intros strings h rows. induction jks as [|[j k] jks IH]; intros Hall.
  - exists [], []. repeat split. intros k vb [].
  - inversion Hall as [|? ? Hjk Hl]; subst.
    destruct (IH Hl) as (fblocks & cols & Ef & Ek & Hsd & Hd & Hv).
    destruct Hjk as (_ & kd & Ekd & Hcol). cbn [fst snd] in Ekd, Hcol.
    assert (length (column j rows) = length rows) as Hlc by (unfold column; apply map_length).
    assert (exists vb cells, (if name_eqb k GT then enc_gt_col (column j rows) else enc_fmt_col kd (column j rows)) = Ok vb /\
              sd true (length rows) vb /\
              (if name_eqb k GT then dec_gt_col (length rows) vb else dec_fmt_kind kd (length rows) vb) = ROk cells /\
              map value_of_cell cells = map (fun row => bcell h (j, k) (nth j row None)) rows)
      as (vb & cells & E & S & D & V).
    { unfold bcell. cbn [fst snd]. rewrite Ekd. destruct (name_eqb k GT).
      - destruct (gt_col_rt _ Hcol) as (vb & cells & E & S & D & V). rewrite Hlc in S, D.
        exists vb, cells. repeat split; assumption.
      - destruct (fmt_col_rt kd _ Hcol) as (vb & cells & E & S & D & V). rewrite Hlc in S, D.
        exists vb, cells. repeat split; try assumption. rewrite V. unfold column. now rewrite map_map. }
    exists ((k, vb) :: fblocks), (cells :: cols). cbn [map fst snd].
    split; [unfold fmt_field at 1; cbn [fst snd]; rewrite (fkw_of_fk _ _ _ Ekd), E, Ef; reflexivity|].
    split; [now rewrite Ek|]. split.
    + intros k' vb' [X|X]; [inversion X; subst; exact S|exact (Hsd k' vb' X)].
    + split.
      * cbn [map_rres]. unfold dec_fmt_field at 1. cbn [fst snd]. rewrite Ekd, D. cbn [rbind]. rewrite Hd. reflexivity.
      * now rewrite V, Hv.
Qed.

Lemma indexed_snd : forall A (l : list A) i, map snd (indexed i l) = l.
Proof. induction l as [|x l IH]; intros i; cbn [indexed map snd]; [reflexivity|now rewrite IH]. Qed.

Lemma indexed_length : forall A (l : list A) i, length (indexed i l) = length l.
Proof. induction l as [|x l IH]; intros i; cbn [indexed length]; [reflexivity|now rewrite IH]. Qed.

(* ---------------------------------------------------------------- the domain, without the class *)
Definition info_field_dom (h : hctx) (kv : name * option value) : Prop :=
  exists kd, ik_of h (fst kv) = Some kd /\
    match snd kv with
    | Some v => ikind_val kd v /\ bval_ok v
    | None => kd <> KFlag
    end.

Definition fcell_dom (kd : fkind) (o : option value) : Prop :=
  match o with None => True | Some v => fkind_match kd v /\ bval_ok v end.

Definition fcol_dom (kd : fkind) (c : list (option value)) : Prop :=
  c <> [] /\ (forall o, In o c -> fcell_dom kd o) /\
  (kd = FFloat false -> exists l, In (Some (VFloatArr l)) c).

Definition fmt_key_dom (strings : smap) (h : hctx) (rows : list (list (option value))) (jk : nat * name) : Prop :=
  (exists i, get_index_of strings (snd jk) = Some i /\ Z.of_nat i <= 2147483647) /\
  exists kd, fk_of h (snd jk) = Some kd /\
    if name_eqb (snd jk) GT then gtcol_ok (column (fst jk) rows)
    else fcol_dom kd (column (fst jk) rows).

Lemma existsb_false_all : forall A (f : A -> bool) l x, existsb f l = false -> In x l -> f x = false.
Proof.
  intros A f l x H Hx. destruct (f x) eqn:E; [|reflexivity].
  assert (existsb f l = true) as X by (apply existsb_exists; exists x; split; assumption).
  rewrite X in H. discriminate.
Qed.

Lemma special_info : forall r kv v, bcf_special r = false -> In kv (r_info r) -> snd kv = Some v ->
  info_special v = false.
Proof.
  intros r kv v H Hin Ev. unfold bcf_special in H. apply orb_false_iff in H. destruct H as [H _].
  pose proof (existsb_false_all _ _ _ kv H Hin) as X. cbv beta in X. rewrite Ev in X. exact X.
Qed.

Lemma special_cell : forall r row v, bcf_special r = false -> In row (r_samples r) -> In (Some v) row ->
  fmt_special v = false.
Proof.
  intros r row v H Hrow Hv. unfold bcf_special in H. apply orb_false_iff in H. destruct H as [_ H].
  pose proof (existsb_false_all _ _ _ row H Hrow) as X. cbv beta in X.
  exact (existsb_false_all _ _ _ (Some v) X Hv).
Qed.

Lemma info_dom_ok : forall h r, bcf_special r = false ->
  Forall (info_field_dom h) (r_info r) -> Forall (info_field_ok h) (r_info r).
Proof.
  intros h r Hs H. rewrite Forall_forall in *. intros kv Hin.
  destruct (H kv Hin) as (kd & Ek & Hv). exists kd. split; [exact Ek|].
  destruct (snd kv) as [v|] eqn:Ev; [|exact Hv]. destruct Hv as [A B].
  split; [exact A|]. split; [exact B|]. exact (special_info r kv v Hs Hin Ev).
Qed.

Lemma fmt_dom_ok : forall strings h r jks, bcf_special r = false ->
  Forall (fmt_key_dom strings h (r_samples r)) jks -> Forall (fmt_key_ok strings h (r_samples r)) jks.
Proof.
  intros strings h r jks Hs H. rewrite Forall_forall in *. intros jk Hin.
  destruct (H jk Hin) as (Hd & kd & Ek & Hc). split; [exact Hd|]. exists kd. split; [exact Ek|].
  destruct (name_eqb (snd jk) GT); [exact Hc|].
  destruct Hc as (Hne & Hcell & Hfv). split; [exact Hne|]. split; [|exact Hfv].
  intros o Ho. specialize (Hcell o Ho). destruct o as [v|]; [|exact I]. destruct Hcell as [A B].
  split; [exact A|]. split; [exact B|].
  unfold column in Ho. apply in_map_iff in Ho. destruct Ho as (row & Er & Hrow).
  destruct (nth_in_or_default (fst jk) row None) as [Y|Y]; [|rewrite Y in Er; discriminate].
  rewrite Er in Y. exact (special_cell r row v Hs Hrow Y).
Qed.

(* ---------------------------------------------------------------- records with samples *)
Definition bcf_samples_dom (strings contigs : smap) (h : hctx) (rlen : Z) (r : vrec) : Prop :=
  site_ok strings contigs (site_of h rlen r) (Z.of_nat (length (r_info r))) (Z.of_nat (length (r_keys r))) /\
  NoDup (r_ids r) /\ NoDup (r_filters r) /\
  (forall kv, In kv (r_info r) -> exists i, get_index_of strings (fst kv) = Some i /\ Z.of_nat i <= 2147483647) /\
  NoDup (map fst (r_info r)) /\
  Forall (info_field_dom h) (r_info r) /\
  r_samples r <> [] /\ length (r_samples r) = h_nsamples h /\ NoDup (r_keys r) /\
  Forall (fmt_key_dom strings h (r_samples r)) (indexed 0 (r_keys r)).

(* the record BCF gives back: every sample has one value per key *)
Definition bback (h : hctx) (r : vrec) : vrec :=
  {| r_chrom := r_chrom r; r_pos := r_pos r; r_ids := r_ids r; r_ref := r_ref r; r_alts := r_alts r;
     r_qual := r_qual r; r_filters := r_filters r; r_info := r_info r; r_keys := r_keys r;
     r_samples := map (fun row => map (fun jk => bcell h jk (nth (fst jk) row None)) (indexed 0 (r_keys r)))
                      (r_samples r) |}.

Lemma fold_left_ext : forall A B (f g : A -> B -> A) l a, (forall a b, f a b = g a b) ->
  fold_left f l a = fold_left g l a.
Proof. intros A B f g. induction l as [|x l IH]; intros a H; cbn [fold_left]; [reflexivity|]. rewrite H. now apply IH. Qed.

Lemma map_repeat_nil : forall A B (g : A -> B) n, map (map g) (repeat [] n) = repeat [] n.
Proof. intros A B g. induction n as [|n IH]; cbn [repeat map]; [reflexivity|now rewrite IH]. Qed.

Theorem bcf_samples_roundtrip : forall strings contigs h rlen r rest,
  wf strings -> wf contigs -> bcf_samples_dom strings contigs h rlen r -> bcf_special r = false ->
  (forall sb, enc_site strings contigs (site_of h rlen r) (info_fields r) (Z.of_nat (length (r_keys r))) = Ok sb ->
     Z.of_nat (length sb) <= 4294967295) ->
  (forall fb, enc_fields strings (fmt_fields h r) = Ok fb -> Z.of_nat (length fb) <= 4294967295) ->
  exists bs, bcf_write strings contigs h rlen r = Ok bs /\
             bcf_read strings contigs h (bs ++ rest) = ROk (bback h r).
Proof.
  intros strings contigs h rlen r rest Ws Wc
    (Hsite & Hids & Hfl & Hkeys & Hnd & Hinfo & Hrne & Hns & Hkn & Hfmt) Hsp Hsb Hfb.
  destruct (info_fields_rt h (r_info r) (info_dom_ok h r Hsp Hinfo)) as (blocks & ivs & Ek & El & Hsd & Hd & Hb).
  destruct (fmt_fields_rt strings h (r_samples r) (indexed 0 (r_keys r)) (fmt_dom_ok strings h r _ Hsp Hfmt))
    as (fblocks & cols & Ef & Efk & Hfsd & Hfd & Hfv).
  rewrite indexed_snd in Efk.
  assert (length blocks = length (r_info r)) as Hlen
    by (rewrite <- (map_length fst blocks), Ek, map_length; reflexivity).
  assert (length fblocks = length (r_keys r)) as Hflen
    by (rewrite <- (map_length fst fblocks), Efk; reflexivity).
  assert (info_fields r = map lift blocks) as El' by (unfold info_fields; exact El).
  assert (fmt_fields h r = map lift fblocks) as Ef' by (unfold fmt_fields; exact Ef).
  assert (has_rows r = true) as Hhr by (unfold has_rows; destruct (r_samples r); [contradiction|reflexivity]).
  unfold bcf_write, enc_record_w. rewrite Hhr.
  assert ((if fix11_nfmt_zero_without_rows && negb true then @nil field else fmt_fields h r) = fmt_fields h r) as Hsw
    by (destruct fix11_nfmt_zero_without_rows; reflexivity).
  rewrite Hsw. clear Hsw. rewrite El', Ef'. rewrite El' in Hsb. rewrite Ef' in Hfb.
  rewrite <- Hlen, <- Hflen in Hsite. rewrite <- Hflen in Hsb.
  destruct (record_full_roundtrip strings contigs (site_of h rlen r) blocks fblocks true
              (Z.of_nat (h_nsamples h)) rest Ws Wc) as (bs & E & D).
  - cbn [site_of s_n_sample]. lia.
  - exact Hsite.
  - intros k vb Hin. apply in_app_or in Hin. destruct Hin as [Hin|Hin].
    + assert (In k (map fst blocks)) as Hin' by (apply in_map_iff; exists (k, vb); split; [reflexivity|exact Hin]).
      rewrite Ek in Hin'. apply in_map_iff in Hin'. destruct Hin' as (kv & Ekv & Hkv). subst k. exact (Hkeys kv Hkv).
    + assert (In k (map fst fblocks)) as Hin' by (apply in_map_iff; exists (k, vb); split; [reflexivity|exact Hin]).
      rewrite Efk in Hin'. rewrite Forall_forall in Hfmt.
      rewrite <- (indexed_snd _ (r_keys r) 0%nat) in Hin'. apply in_map_iff in Hin'. destruct Hin' as (jk & Ejk & Hjk).
      subst k. exact (proj1 (Hfmt jk Hjk)).
  - exact Hsd.
  - rewrite Ek. exact Hnd.
  - cbn [site_of s_n_sample]. rewrite Nat2Z.id, <- Hns. exact Hfsd.
  - left. reflexivity.
  - exact Hsb.
  - exact Hfb.
  - exists bs. split; [exact E|].
    unfold bcf_read, dec_record_typed. rewrite (dec_record_k_of_dec_record _ _ _ _ _ D).
    cbn [head_of h_n_sample site_of s_n_sample]. rewrite Nat2Z.id, <- Hns.
    change (map_rres (fun kv : name * list N => match ik_of h (fst kv) with
              | Some k => rbind (dec_info_kind k (snd kv)) (fun v => ROk (fst kv, v)) | None => RErr end) blocks)
      with (map_rres (dec_info_field h) blocks).
    rewrite Hd. cbn [rbind].
    change (map_rres (fun kv : name * list N => match fk_of h (fst kv) with
              | Some k => if name_eqb (fst kv) GT then dec_gt_col (length (r_samples r)) (snd kv)
                          else dec_fmt_kind k (length (r_samples r)) (snd kv)
              | None => RErr end) fblocks)
      with (map_rres (dec_fmt_field h (length (r_samples r))) fblocks).
    rewrite Hfd. cbn [rbind].
    unfold vrec_of. cbn [t_head t_info t_keys t_rows].
    unfold head_of, site_of. cbn [h_chrom h_pos h_qual h_ids h_ref h_alts h_filters
                                  s_chrom s_pos s_qual s_ids s_ref s_alts s_filters].
    rewrite Hb, (dedup_nodup _ Hids), (dedup_nodup _ Hfl), on_oz, Efk, (dedup_nodup _ Hkn).
    rewrite (fold_left_ext _ _ push_col push _ _ push_col_push).
    rewrite map_fold_push, map_repeat_nil, Hfv.
    rewrite (transpose_table _ _ _ None (fun jk row => bcell h jk (nth (fst jk) row None))).
    assert (match (if N.eqb (r_pos r) 0 then None else Some (Z.of_N (r_pos r))) with
            | Some p => Z.to_N p | None => 0%N end = r_pos r) as Hp.
    { destruct (N.eqb (r_pos r) 0) eqn:E0; [apply N.eqb_eq in E0; now rewrite E0|now rewrite N2Z.id]. }
    rewrite Hp. reflexivity.
Qed.

(* ---------------------------------------------------------------- agreement with the VCF text *)
From NV Require Import Vcf.ValuesProofs Vcf.GenotypeProofs Vcf.SampleProofs Vcf.LineProofs.
From NV Require Import Bcf.Ints Bcf.Typed Bcf.Strings Bcf.Genotype Bcf.StringMap Bcf.Record Bcf.RecordTyped.
Open Scope Z_scope.

Lemma nc_bnorm : forall v44 kd o, norm_cell v44 (bnorm kd o) = norm_cell v44 o.
Proof.
  intros v44 kd o. destruct kd as [[|]|[|]|[|]|[|]]; cbn [bnorm]; try reflexivity.
  - destruct o; reflexivity.
  - destruct o as [[]|]; try reflexivity. destruct l as [|[x|] [|y t]]; reflexivity.
Qed.

Lemma first_phase_idem : forall g, first_phase (first_phase g) = first_phase g.
Proof. intros [|[p ph] t]; reflexivity. Qed.

Lemma nc_norm_value : forall v44 o, norm_cell v44 (option_map (norm_value v44) o) = norm_cell v44 o.
Proof.
  intros v44 [v|]; [|reflexivity]. destruct v; try reflexivity.
  cbn [option_map norm_value]. destruct v44; [reflexivity|].
  change (normalize_first g) with (first_phase g).
  unfold norm_cell. cbn [norm_val lone_missing]. rewrite first_phase_idem.
  destruct g as [|[[p|] ph] [|a t]]; reflexivity.
Qed.

Lemma strip_nones : forall k, strip_missing (repeat None k) = [].
Proof. induction k as [|k IH]; cbn [repeat strip_missing]; [reflexivity|now rewrite IH]. Qed.

Lemma strip_app_nones : forall l k, strip_missing (l ++ repeat None k) = strip_missing l.
Proof.
  induction l as [|x l IH]; intros k; cbn [app]; [rewrite strip_nones; reflexivity|].
  cbn [strip_missing]. now rewrite IH.
Qed.

Lemma strip_canon_row : forall v44 row,
  strip_missing (map (norm_cell v44) (canon_row v44 row)) = strip_missing (map (norm_cell v44) row).
Proof.
  intros v44 row. unfold canon_row.
  assert (map (norm_cell v44) (map (option_map (norm_value v44)) row) = map (norm_cell v44) row) as X
    by (rewrite map_map; apply map_ext; intros o; apply nc_norm_value).
  destruct row as [|[v|] [|y t]]; try (rewrite X; reflexivity); reflexivity.
Qed.

Lemma indexed_fst : forall A (l : list A) i, map fst (indexed i l) = seq i (length l).
Proof. induction l as [|x l IH]; intros i; cbn [indexed map fst length seq]; [reflexivity|now rewrite IH]. Qed.

Lemma pad_row : forall A (d : A) row k,
  map (fun j => nth j row d) (seq 0 (length row + k)) = row ++ repeat d k.
Proof.
  intros A d row k. rewrite seq_app, map_app, map_seq_nth. f_equal. cbn [plus].
  induction k as [|k IH] in row |- *; [reflexivity|].
  assert (forall m, map (fun j => nth j row d) (seq (length row + m) k) = repeat d k) as G.
  { clear IH. induction k as [|k IHk]; intros m; [reflexivity|]. cbn [seq map repeat].
    rewrite nth_overflow by lia. f_equal. replace (S (length row + m)) with (length row + S m)%nat by lia. apply IHk. }
  cbn [seq map repeat]. rewrite nth_overflow by lia. f_equal.
  replace (S (length row)) with (length row + 1)%nat by lia. apply G.
Qed.

Lemma row_content : forall v44 h keys row, (length row <= length keys)%nat ->
  strip_missing (map (norm_cell v44) (map (fun jk => bcell h jk (nth (fst jk) row None)) (indexed 0 keys)))
  = strip_missing (map (norm_cell v44) row).
Proof.
  intros v44 h keys row Hl. rewrite map_map.
  assert (map (fun jk => norm_cell v44 (bcell h jk (nth (fst jk) row None))) (indexed 0 keys)
          = map (norm_cell v44) (map (fun j => nth j row None) (map fst (indexed 0 keys)))) as X.
  { rewrite !map_map. apply map_ext. intros jk. unfold bcell.
    destruct (name_eqb (snd jk) GT); [reflexivity|]. destruct (fk_of h (snd jk)); [apply nc_bnorm|reflexivity]. }
  rewrite X, indexed_fst.
  replace (length keys) with (length row + (length keys - length row))%nat by lia.
  rewrite pad_row, map_app.
  assert (map (norm_cell v44) (repeat None (length keys - length row)) = repeat None (length keys - length row)) as Y
    by (induction (length keys - length row)%nat as [|n IH]; cbn [repeat map]; [reflexivity|now rewrite IH]).
  rewrite Y. apply strip_app_nones.
Qed.

(* the BCF side of the domain: what the BCF writer / reader need beyond C09's rec_ok (which already
   gives the set conditions and the row count) *)
Definition bcf_dom (strings contigs : smap) (h : hctx) (rlen : Z) (r : vrec) : Prop :=
  site_ok strings contigs (site_of h rlen r) (Z.of_nat (length (r_info r))) (Z.of_nat (length (r_keys r))) /\
  (forall kv, In kv (r_info r) -> exists i, get_index_of strings (fst kv) = Some i /\ Z.of_nat i <= 2147483647) /\
  Forall (info_field_dom h) (r_info r) /\
  Forall (fmt_key_dom strings h (r_samples r)) (indexed 0 (r_keys r)).

Lemma content_samples : forall fmt_float FOK h r,
  rec_ok fmt_float FOK h r -> content (h_v44 h) (canon h r) = content (h_v44 h) (bback h r).
Proof.
  intros fmt_float FOK h r Hok. unfold content, canon, bback.
  cbn [r_chrom r_pos r_ids r_ref r_alts r_qual r_filters r_info r_keys r_samples].
  rewrite cbase_canon_base. f_equal. rewrite !map_map. apply map_ext_in. intros row Hrow.
  rewrite strip_canon_row. symmetry. apply row_content.
  destruct Hok as (_ & _ & _ & _ & _ & _ & _ & Hs).
  destruct (r_samples r) as [|r0 rows] eqn:Er; [destruct Hrow|].
  destruct Hs as (_ & _ & Hf). rewrite Forall_forall in Hf. destruct (Hf row Hrow) as [Hfit _].
  pose proof (fits_length _ _ _ _ Hfit) as L. rewrite map_length in L. exact L.
Qed.

(* c10_bcf_vcf_agree: ONE record written as VCF text and as BCF, for every record of C09's rec_ok
   that the VCF writer accepts and that is in BCF's domain, outside string-special-chars: the BCF
   writer accepts it too, both re-reads succeed, and they have the same content *)
Theorem bcf_vcf_agree :
  forall fmt_float prs_float (FOK : N -> Prop),
  (forall b, FOK b -> prs_float (fmt_float b) = Some b) ->
  (forall b x, FOK b -> In x (fmt_float b) -> x <> 44 /\ x <> 9 /\ x <> 10 /\ x <> 59 /\ x <> 58)%N ->
  (forall b, FOK b -> fmt_float b <> Values.dot) ->
  (forall b, FOK b -> fmt_float b <> []) ->
  forall strings contigs h rlen r t rest,
  wf strings -> wf contigs ->
  rec_ok fmt_float FOK h r -> write_line fmt_float h r = Some t ->
  bcf_dom strings contigs h rlen r -> bcf_special r = false ->
  (forall sb, enc_site strings contigs (site_of h rlen r) (info_fields r) (Z.of_nat (length (r_keys r))) = Ok sb ->
     Z.of_nat (length sb) <= 4294967295) ->
  (forall fb, enc_fields strings (fmt_fields h r) = Ok fb -> Z.of_nat (length fb) <= 4294967295) ->
  exists bs a b,
    bcf_write strings contigs h rlen r = Ok bs /\
    read_eager prs_float h t = Some a /\
    bcf_read strings contigs h (bs ++ rest) = ROk b /\
    content (h_v44 h) a = content (h_v44 h) b.
Proof.
  intros fmt_float prs_float FOK F1 F2 F3 F4 strings contigs h rlen r t rest Ws Wc Hok Hw
    (Hsite & Hkeys & Hinfo & Hfmt) Hsp Hsb Hfb.
  destruct (line_roundtrip fmt_float prs_float FOK F1 F2 F3 F4 h r t Hok Hw) as (He & _ & _).
  pose proof Hok as Hok'.
  destruct Hok' as (_ & (_ & _ & Hids) & _ & _ & _ & (_ & _ & Hfl) & (Hnd & _) & Hs).
  destruct (r_samples r) as [|r0 rows] eqn:Er.
  - (* no samples: a sites-only record *)
    destruct Hs as (Hk & Hns).
    assert (sites_only h r) as Hso by (repeat split; assumption).
    assert (bcf_site_ok strings contigs h rlen r) as Hb.
    { unfold bcf_site_ok. split; [exact Hsite|]. split; [exact Hids|]. split; [exact Hfl|]. split; [exact Hkeys|].
      split; [exact Hnd|]. exact (info_dom_ok h r Hsp Hinfo). }
    rewrite Hk in Hsb. cbn [length Z.of_nat] in Hsb.
    destruct (bcf_sites_roundtrip strings contigs h rlen r rest Ws Wc Hso Hb Hsb) as (bs & Ew & Erd).
    exists bs, (canon h r), r. repeat split; try assumption. apply content_canon_sites. exact Er.
  - destruct Hs as (Hns & Hkn & _).
    assert (bcf_samples_dom strings contigs h rlen r) as Hd.
    { rewrite <- Er in Hns, Hfmt. unfold bcf_samples_dom. split; [exact Hsite|]. split; [exact Hids|]. split; [exact Hfl|].
      split; [exact Hkeys|]. split; [exact Hnd|]. split; [exact Hinfo|]. split; [rewrite Er; discriminate|].
      split; [exact Hns|]. split; [exact Hkn|exact Hfmt]. }
    destruct (bcf_samples_roundtrip strings contigs h rlen r rest Ws Wc Hd Hsp Hsb Hfb) as (bs & Ew & Erd).
    exists bs, (canon h r), (bback h r). repeat split; try assumption.
    exact (content_samples fmt_float FOK h r Hok).
Qed.

(* ---------------------------------------------------------------- the class is exact *)
(* No byte string at all is read back as a member of string-special-chars: whatever bytes stand
   where the value of an INFO key / the series of a FORMAT key stands, the typed reader never
   returns such a value.  Together with bcf_vcf_agree (outside the class every record is read back
   as written) the class is exactly what BCF cannot represent. *)
Lemma any_some_true : forall A (f : A -> bool) l, any_some f l = true -> exists a, In (Some a) l /\ f a = true.
Proof.
  intros A f l H. unfold any_some in H. apply existsb_exists in H. destruct H as ([a|] & Hin & Hf); [|discriminate].
  exists a. split; assumption.
Qed.

Lemma has_byte_in : forall b t, has_byte b t = true -> In b t.
Proof.
  intros b t H. unfold has_byte in H. apply existsb_exists in H. destruct H as (x & Hx & E).
  apply N.eqb_eq in E. subst x. exact Hx.
Qed.

Theorem info_special_unrepresentable : forall kd v vb iv,
  info_special v = true -> ikind_val kd v -> dec_info_kind kd vb = ROk iv -> value_of_ival iv <> Some v.
Proof.
  intros kd v vb iv Hs Hk Hd Hv.
  destruct v as [z|b| |c|s|l|l|l|l|g]; cbn [info_special] in Hs; try discriminate;
    destruct kd as [[|]|[|]| |[|]|[|]]; cbn [ikind_val] in Hk; try contradiction; cbn [dec_info_kind] in Hd.
  - (* String *)
    destruct (dec_info_str vb) as [sv| |] eqn:E; cbn [rbind] in Hd; try discriminate. inversion Hd; subst iv.
    destruct sv; cbn [value_of_ival] in Hv; try discriminate. inversion Hv; subst.
    destruct s; [|discriminate]. exact (dec_info_str_range _ _ E eq_refl).
  - (* Character vector *)
    destruct (dec_info_chars vb) as [sv| |] eqn:E; cbn [rbind] in Hd; try discriminate. inversion Hd; subst iv.
    destruct sv; cbn [value_of_ival] in Hv; try discriminate. inversion Hv; subst.
    destruct (any_some_true _ _ _ Hs) as (c & Hc & Hf). destruct (dec_info_chars_range _ _ _ E Hc) as [A B].
    unfold chr_special_i in Hf. apply orb_true_iff in Hf. destruct Hf as [F|F]; apply N.eqb_eq in F; contradiction.
  - (* String vector *)
    destruct (dec_info_strs vb) as [sv| |] eqn:E; cbn [rbind] in Hd; try discriminate. inversion Hd; subst iv.
    destruct sv; cbn [value_of_ival] in Hv; try discriminate. inversion Hv; subst.
    destruct (dec_info_strs_range _ _ E) as [N1 R]. apply orb_true_iff in Hs. destruct Hs as [Hs|Hs].
    + apply N1. destruct l as [|[[|]|] [|]]; try discriminate Hs. reflexivity.
    + destruct (any_some_true _ _ _ Hs) as (t & Ht & Hf). destruct (R t Ht) as [A B].
      unfold elt_special_i in Hf. apply orb_true_iff in Hf. destruct Hf as [F|F].
      * apply bytes_eqb_eq in F. contradiction.
      * exact (B (has_byte_in _ _ F)).
Qed.

Theorem fmt_special_unrepresentable : forall kd ns vb cells v,
  fmt_special v = true -> fkind_match kd v -> dec_fmt_kind kd ns vb = ROk cells ->
  ~ In (Some v) (map value_of_cell cells).
Proof.
  intros kd ns vb cells v Hs Hk Hd Hin.
  destruct v as [z|b| |c|s|l|l|l|l|g]; cbn [fmt_special] in Hs; try discriminate;
    destruct kd as [[|]|[|]|[|]|[|]]; cbn [fkind_match] in Hk; try contradiction; cbn [dec_fmt_kind] in Hd.
  - (* Character *)
    destruct (dec_fmt_chars ns vb) as [xs| |] eqn:E; cbn [rbind] in Hd; try discriminate. inversion Hd; subst cells.
    rewrite map_map in Hin. apply in_map_iff in Hin. destruct Hin as ([c'|] & Ec & Hc); cbn in Ec; [|discriminate].
    inversion Ec; subst c'. destruct (dec_fmt_chars_range _ _ _ _ E Hc) as [A B].
    apply orb_true_iff in Hs. destruct Hs as [F|F]; apply N.eqb_eq in F; contradiction.
  - (* String *)
    destruct (dec_fmt_strings ns vb) as [xs| |] eqn:E; cbn [rbind] in Hd; try discriminate. inversion Hd; subst cells.
    rewrite map_map in Hin. apply in_map_iff in Hin. destruct Hin as ([s'|] & Ec & Hc); cbn in Ec; [|discriminate].
    inversion Ec; subst s'. destruct (dec_fmt_strings_range _ _ _ _ E Hc) as [A B].
    apply orb_true_iff in Hs. destruct Hs as [F|F]; [apply bytes_eqb_eq in F; contradiction|exact (B (has_byte_in _ _ F))].
  - (* Character vector *)
    destruct (dec_fmt_char_arrays ns vb) as [xs| |] eqn:E; cbn [rbind] in Hd; try discriminate. inversion Hd; subst cells.
    rewrite map_map in Hin. apply in_map_iff in Hin. destruct Hin as ([cs|] & Ec & Hc); cbn in Ec; [|discriminate].
    inversion Ec; subst cs. destruct (any_some_true _ _ _ Hs) as (c & Hcc & Hf).
    destruct (dec_fmt_char_arrays_range _ _ _ _ _ E Hc Hcc) as (A & B & C).
    unfold chr_special in Hf. apply orb_true_iff in Hf. destruct Hf as [Hf|F]; [apply orb_true_iff in Hf; destruct Hf as [F|F]|];
      apply N.eqb_eq in F; contradiction.
  - (* String vector *)
    destruct (dec_fmt_str_arrays ns vb) as [xs| |] eqn:E; cbn [rbind] in Hd; try discriminate. inversion Hd; subst cells.
    rewrite map_map in Hin. apply in_map_iff in Hin. destruct Hin as ([vs|] & Ec & Hc); cbn in Ec; [|discriminate].
    inversion Ec; subst vs. destruct (any_some_true _ _ _ Hs) as (t & Ht & Hf).
    destruct (dec_fmt_str_arrays_range _ _ _ _ _ E Hc Ht) as (A & B & C).
    unfold elt_special in Hf. apply orb_true_iff in Hf. destruct Hf as [Hf|F]; [apply orb_true_iff in Hf; destruct Hf as [F|F]|].
    + apply bytes_eqb_eq in F. contradiction.
    + exact (B (has_byte_in _ _ F)).
    + exact (C (has_byte_in _ _ F)).
Qed.
