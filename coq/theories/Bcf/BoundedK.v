(* The bounds of NV.Hostile.TotalBcf (C15: dec_fields_bounded, dec_record_bounded) restated for the
   block walk the typed reader really uses, NV.Bcf.Record.dec_fields_k / dec_record_k (the walk with
   the GT exemption of read_genotype_values): for EVERY byte string, n accepted fields cost at least
   3 n bytes, exactly n fields are returned, and an accepted record has its blocks inside the input
   and at most as many samples as the header.  Proofs only. *)
From Coq Require Import List NArith ZArith Bool Lia.
From Coq Require Import ZifyBool ZifyNat ZifyN.
From NV Require Import Bcf.Ints Bcf.Typed Bcf.StringMap Bcf.Record Hostile.TotalBcf.
Import ListNotations.
Open Scope Z_scope.

Theorem dec_fields_k_bounded : forall m mult dup n bs l r,
  dec_fields_k m mult dup n bs = Some (l, r) ->
  (3 * n + length r <= length bs)%nat /\ length l = n.
Proof.
  intros m mult dup. induction n as [|n IH]; intros bs l r H; cbn [dec_fields_k] in H.
  - injection H as Hl Hr. subst l r. split; [lia|reflexivity].
  - destruct (dec_index bs) as [[i r0]|] eqn:E0; [|discriminate]. apply dec_index_consumes in E0.
    destruct (get_index m (znat (length (entries m)) i)) as [k|]; [|discriminate].
    destruct (split_typed (negb dup && negb (name_eqb k key_GT)) mult r0) as [[vb r1]|] eqn:E1; [|discriminate].
    apply split_typed_consumes in E1.
    destruct (dec_fields_k m mult dup n r1) as [[l' r2]|] eqn:E2; [|discriminate]. apply IH in E2.
    destruct (dup && has_key k l'); [discriminate|].
    injection H as Hl Hr. subst l r. cbn [length]. lia.
Qed.

Theorem dec_record_k_bounded : forall strings contigs hs bs h infos fmts rest,
  dec_record_k strings contigs hs bs = Some (h, infos, fmts, rest) ->
  (8 + 3 * length fmts + length rest <= length bs)%nat /\ h_n_sample h <= hs /\
  length infos = Z.to_nat (h_n_info h) /\ length fmts = Z.to_nat (h_n_fmt h).
Proof.
  intros strings contigs hs bs h infos fmts rest H. unfold dec_record_k in H.
  destruct (dec_frame bs) as [[[sb ib] rest']|] eqn:E0; [|discriminate]. apply dec_frame_bounded in E0.
  destruct (dec_head strings contigs sb) as [[h' info_bytes]|] eqn:E1; [|discriminate].
  destruct (hs <? h_n_sample h') eqn:S; [discriminate|].
  destruct (dec_fields_k strings 1 true (Z.to_nat (h_n_info h')) info_bytes) as [[infos' r1]|] eqn:E2; [|discriminate].
  destruct (dec_fields_k strings (Z.to_nat (h_n_sample h')) false (Z.to_nat (h_n_fmt h')) ib) as [[fmts' r2]|] eqn:E3; [|discriminate].
  injection H as Hh Hi Hf Hr. subst h' infos' fmts' rest'.
  apply dec_fields_k_bounded in E3. apply dec_fields_k_bounded in E2. lia.
Qed.
