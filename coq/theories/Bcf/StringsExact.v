(* The class string-special-chars, exactly.  NV.Bcf.StringsProofs proves the Character / String
   round trips under plain_char / plain_elem, which exclude a little more than necessary (a NUL in
   an INFO vector element, an empty String element).  Here the round trips are proved under the
   weakest conditions, and the converse: a value that violates them is never read back as itself. *)
From Coq Require Import ZArith NArith List Bool Lia ZifyBool ZifyNat ZifyN.
From NV Require Import Bcf.Ints Bcf.IntsProofs Bcf.Typed Bcf.TypedProofs Bcf.Strings Bcf.StringsProofs.
Import ListNotations.
Open Scope Z_scope.

(* ---------------------------------------------------------------- INFO Character vectors *)
Definition char_i (c : N) : Prop := c <> dot /\ c <> comma.
Definition chars_i (vs : list (option N)) : Prop := forall c, In (Some c) vs -> char_i c.

Lemma char_pieces_no_comma_i : forall vs, chars_i vs ->
  forall p, In p (map char_piece vs) -> ~ In comma p.
Proof.
  intros vs H p Hp. apply in_map_iff in Hp. destruct Hp as [v [E Hv]]. subst p.
  destruct v as [c|]; cbn [char_piece]; intros [X|[]].
  - destruct (H c Hv) as [_ Hc]. apply Hc. exact X.
  - discriminate X.
Qed.

Lemma chars_back_i : forall vs, chars_i vs -> map char_of_byte (concat (map char_piece vs)) = vs.
Proof.
  induction vs as [|v vs IH]; intros H; [reflexivity|].
  cbn [map concat]. rewrite map_app. rewrite IH by (intros c Hc; apply H; right; exact Hc).
  destruct v as [c|]; cbn [char_piece map app]; [|reflexivity].
  unfold char_of_byte. destruct (H c (or_introl eq_refl)) as [Hd _].
  destruct (N.eqb c dot) eqn:E; [apply N.eqb_eq in E; contradiction|reflexivity].
Qed.

Lemma info_chars_roundtrip_x : forall vs, vs <> [] -> chars_i vs ->
  utf8_valid (join comma (map char_piece vs)) = true ->
  Z.of_nat (length (join comma (map char_piece vs))) <= 2147483647 ->
  exists bs, enc_info_chars vs = Ok bs /\ dec_info_chars bs = ROk (SChars vs).
Proof.
  intros vs Hne Hok Hu Hl.
  assert (map char_piece vs <> []) as Hne' by (destruct vs; [contradiction|discriminate]).
  destruct (info_string_roundtrip (join comma (map char_piece vs))) as [bs [E D]];
    [apply join_nonempty; [exact Hne'|apply char_pieces_nonempty]|exact Hu|exact Hl|].
  exists bs. split; [exact E|]. unfold dec_info_chars. rewrite D. cbn [rbind].
  rewrite split_join by (exact Hne' || apply char_pieces_no_comma_i; exact Hok).
  rewrite chars_back_i by exact Hok. reflexivity.
Qed.

(* ---------------------------------------------------------------- INFO String vectors *)
Definition elem_i (t : str) : Prop := t <> [dot] /\ ~ In comma t.
Definition strs_i (vs : list (option str)) : Prop := forall t, In (Some t) vs -> elem_i t.

Lemma str_pieces_no_comma_i : forall vs, strs_i vs -> forall p, In p (map str_piece vs) -> ~ In comma p.
Proof.
  intros vs H p Hp. apply in_map_iff in Hp. destruct Hp as [v [E Hv]]. subst p.
  destruct v as [t|]; cbn [str_piece].
  - destruct (H t Hv) as [_ Hc]. exact Hc.
  - intros [X|[]]. discriminate X.
Qed.

Lemma strs_back_i : forall vs, strs_i vs -> map str_of_piece (map str_piece vs) = vs.
Proof.
  induction vs as [|v vs IH]; intros H; [reflexivity|].
  cbn [map]. rewrite IH by (intros t Ht; apply H; right; exact Ht).
  destruct v as [t|]; cbn [str_piece]; [|reflexivity].
  unfold str_of_piece. destruct (H t (or_introl eq_refl)) as [Hd _].
  rewrite str_eqb_neq by exact Hd. reflexivity.
Qed.

Lemma join_nil_single : forall d (ps : list str), ps <> [] -> join d ps = [] -> ps = [[]].
Proof.
  intros d ps Hne H. destruct ps as [|p [|q r]]; [contradiction| |].
  - cbn [join] in H. now rewrite H.
  - cbn [join] in H. destruct p; discriminate H.
Qed.

Lemma info_strs_roundtrip_x : forall vs, vs <> [] -> vs <> [Some []] -> strs_i vs ->
  utf8_valid (join comma (map str_piece vs)) = true ->
  Z.of_nat (length (join comma (map str_piece vs))) <= 2147483647 ->
  exists bs, enc_info_strs vs = Ok bs /\ dec_info_strs bs = ROk (SStrs vs).
Proof.
  intros vs Hne Hn1 Hok Hu Hl.
  assert (map str_piece vs <> []) as Hne' by (destruct vs; [contradiction|discriminate]).
  assert (join comma (map str_piece vs) <> []) as Hj.
  { intro X. apply (join_nil_single _ _ Hne') in X. apply Hn1.
    destruct vs as [|[t|] [|w r]]; cbn [map str_piece] in X; try discriminate X.
    inversion X. reflexivity. }
  destruct (info_string_roundtrip (join comma (map str_piece vs)) Hj Hu Hl) as [bs [E D]].
  exists bs. split; [exact E|]. unfold dec_info_strs. rewrite D. cbn [rbind].
  rewrite split_join by (exact Hne' || apply str_pieces_no_comma_i; exact Hok).
  rewrite strs_back_i by exact Hok. reflexivity.
Qed.

(* ---------------------------------------------------------------- FORMAT String vectors *)
Definition elem_f (t : str) : Prop := t <> [dot] /\ ~ In comma t /\ ~ In nul t.
Definition strs_f (vs : list (option str)) : Prop := forall t, In (Some t) vs -> elem_f t.

Lemma strs_f_i : forall vs, strs_f vs -> strs_i vs.
Proof. intros vs H t Ht. destruct (H t Ht) as (A & B & _). split; assumption. Qed.

Lemma join_strs_no_nul_f : forall vs, strs_f vs -> ~ In nul (join comma (map str_piece vs)).
Proof.
  intros vs H Hin. apply in_join in Hin. destruct Hin as [E|[p [Hp Hx]]]; [discriminate E|].
  apply in_map_iff in Hp. destruct Hp as [v [Ev Hv]]. subst p.
  destruct v as [t|]; cbn [str_piece] in Hx.
  - destruct (H t Hv) as [_ [_ Hn]]. apply Hn. exact Hx.
  - destruct Hx as [X|[]]. discriminate X.
Qed.

Lemma cell_strs_ser_f : forall v,
  (forall vs, v = Some vs -> vs <> [] /\ strs_f vs) -> cell_strs (ser_strs v) = norm_strs v.
Proof.
  intros v H. destruct v as [vs|]; [|reflexivity].
  destruct (H vs eq_refl) as [Hne Hok]. cbn [ser_strs]. unfold cell_strs.
  destruct vs as [|v0 vs']; [contradiction|]. destruct vs' as [|v1 vs''].
  - cbn [map join]. destruct v0 as [t|]; cbn [str_piece norm_strs].
    + destruct (Hok t (or_introl eq_refl)) as [Hd [Hc _]]. rewrite str_eqb_neq by exact Hd.
      rewrite split_no_delim by exact Hc. cbn [map]. unfold str_of_piece.
      rewrite str_eqb_neq by exact Hd. reflexivity.
    + rewrite str_eqb_refl. reflexivity.
  - assert (str_eqb (join comma (map str_piece (v0 :: v1 :: vs''))) [dot] = false) as Ne.
    { apply str_eqb_neq. intros X. cbn [map] in X.
      pose proof (join_two_has_delim comma (str_piece v0) (str_piece v1) (map str_piece vs'')) as Hin.
      rewrite X in Hin. destruct Hin as [Y|[]]. discriminate Y. }
    rewrite Ne. rewrite split_join by (discriminate || apply str_pieces_no_comma_i; apply strs_f_i; exact Hok).
    rewrite strs_back_i by (apply strs_f_i; exact Hok). destruct v0; reflexivity.
Qed.

Lemma fmt_str_arrays_roundtrip_x : forall vals,
  vals <> [] ->
  (forall vs, In (Some vs) vals -> vs <> [] /\ strs_f vs /\
     utf8_valid (join comma (map str_piece vs)) = true /\
     Z.of_nat (length (join comma (map str_piece vs))) <= 2147483647) ->
  exists bs, enc_fmt_str_arrays vals = Ok bs /\
             dec_fmt_str_arrays (length vals) bs = ROk (map norm_strs vals).
Proof.
  intros vals Hne Hok.
  assert (enc_fmt_str_arrays vals =
          let ss := map ser_strs vals in
          let m := fold_left Nat.max (map (@length N) ss) 0%nat in
          bind (enc_type 7 (Z.of_nat m)) (fun d => Ok (d ++ flat_map (cell m) ss))) as E.
  { unfold enc_fmt_str_arrays. destruct vals; [contradiction|reflexivity]. }
  rewrite E. cbv zeta.
  set (ss := map ser_strs vals). set (m := fold_left Nat.max (map (@length N) ss) 0%nat).
  destruct (cells_frame m ss) as [d [Ed Dd]].
  - intros s Hs. split; [apply (fold_max_ge (map (@length N) ss) 0%nat); apply in_map; exact Hs|].
    unfold ss in Hs. apply in_map_iff in Hs. destruct Hs as [v [Ev Hv]]. subst s.
    destruct v as [vs|]; cbn [ser_strs].
    + split; [apply join_strs_no_nul_f; apply (Hok vs Hv)|apply (Hok vs Hv)].
    + split; [intros [X|[]]; discriminate X|reflexivity].
  - assert (m <= Z.to_nat 2147483647)%nat as B; [|lia]. apply fold_max_le; [lia|].
    intros x Hx. apply in_map_iff in Hx. destruct Hx as [s [Es Hs]]. subst x.
    unfold ss in Hs. apply in_map_iff in Hs. destruct Hs as [v [Ev Hv]]. subst s.
    destruct v as [vs|]; cbn [ser_strs]; [|cbn [length]; lia].
    destruct (Hok vs Hv) as [_ [_ [_ Hl]]]. lia.
  - rewrite Ed. cbn [bind]. eexists. split; [reflexivity|].
    unfold dec_fmt_str_arrays. unfold ss in Dd at 1. rewrite map_length in Dd. rewrite Dd. cbn [rbind].
    f_equal. unfold ss. rewrite map_map. apply map_ext_in. intros v Hv. apply cell_strs_ser_f.
    intros vs Ev. subst v. destruct (Hok vs Hv) as [A [B _]]. split; assumption.
Qed.

(* ================================================================ the converse *)
(* What the decoders can return, for ANY bytes: never a member of the class.  BCF has no byte
   string that reads back as such a value -- the class is exactly what BCF cannot represent. *)
Ltac peel H :=
  match type of H with
  | (match ?x with _ => _ end) = _ => destruct x eqn:?; try discriminate H
  | (if ?c then _ else _) = _ => destruct c eqn:?; try discriminate H
  end.
Ltac peel_all H := cbv zeta in H; repeat (peel H; cbv zeta in H).

Lemma dec_type_len_nonneg : forall f bs c l r, dec_type f bs = Some (c, l, r) -> 0 <= l.
Proof.
  induction f as [|f IH]; intros bs c l r H; cbn [dec_type] in H; [discriminate|].
  destruct bs as [|b t]; [discriminate|]. cbv zeta in H.
  destruct (Z.of_N b / 16 =? 15) eqn:E15.
  - peel_all H. inversion H; subst.
    repeat match goal with Hb : _ && _ = true |- _ => apply andb_true_iff in Hb; destruct Hb end. lia.
  - peel_all H. inversion H; subst. apply Z.div_pos; lia.
Qed.

Lemma znat_pos : forall cap z, 0 < z -> (1 <= znat (S cap) z)%nat.
Proof. intros cap z H. cbn [znat]. destruct (z <=? 0) eqn:E; lia. Qed.

Lemma dec_info_string_nonempty : forall bs x, dec_info_string bs = ROk (Some x) -> x <> [].
Proof.
  intros bs x H. unfold dec_info_string in H.
  destruct (read_type bs) as [[[code len] r]|] eqn:Er; [|discriminate].
  pose proof (dec_type_len_nonneg _ _ _ _ _ Er) as Hl.
  destruct (code =? 0); [discriminate|]. destruct (code =? 7); [|discriminate].
  destruct (len =? 0) eqn:E0; [discriminate|].
  pose proof (znat_pos (length r) len ltac:(lia)) as P.
  remember (znat (S (length r)) len) as k eqn:Ek0. clear Ek0.
  destruct (take k r) as [[y r']|] eqn:Et; [|discriminate].
  destruct (utf8_valid y); [|discriminate]. inversion H; subst y.
  unfold take in Et. destruct (k <=? length r)%nat eqn:Ek; [|discriminate].
  inversion Et as [[X Y]]. apply Nat.leb_le in Ek. intro Z0.
  assert (firstn k r = []) as F by congruence.
  apply (f_equal (@length N)) in F. rewrite firstn_length in F. cbn [length] in F. lia.
Qed.

Lemma split_pieces_no_delim : forall d s p, In p (split_on d s) -> ~ In d p.
Proof.
  intros d. induction s as [|b s IH]; intros p Hp; cbn [split_on] in Hp.
  - destruct Hp as [<-|[]]. intros [].
  - destruct (N.eqb b d) eqn:E.
    + destruct Hp as [<-|Hp]; [intros []|exact (IH p Hp)].
    + apply N.eqb_neq in E. destruct (split_on d s) as [|q qs] eqn:Es.
      * destruct Hp as [<-|[]]. intros [X|[]]. congruence.
      * destruct Hp as [<-|Hp].
        -- intros [X|X]; [congruence|]. exact (IH q (or_introl eq_refl) X).
        -- exact (IH p (or_intror Hp)).
Qed.

Lemma split_pieces_sub : forall d s q, In q (split_on d s) -> forall y, In y q -> In y s.
Proof.
  intros d. induction s as [|z s IH]; intros q0 Hq0 y Hy; cbn [split_on] in Hq0.
  - destruct Hq0 as [<-|[]]. destruct Hy.
  - destruct (N.eqb z d).
    + destruct Hq0 as [<-|Hq0]; [destruct Hy|right; exact (IH q0 Hq0 y Hy)].
    + destruct (split_on d s) as [|q1 qs] eqn:Es.
      * destruct Hq0 as [<-|[]]. destruct Hy as [<-|[]]. left; reflexivity.
      * destruct Hq0 as [<-|Hq0].
        -- destruct Hy as [<-|Hy]; [left; reflexivity|right; exact (IH q1 (or_introl eq_refl) y Hy)].
        -- right. exact (IH q0 (or_intror Hq0) y Hy).
Qed.

Lemma split_empty_only : forall d s, split_on d s = [[]] -> s = [].
Proof.
  intros d [|b s] H; [reflexivity|]. cbn [split_on] in H.
  destruct (N.eqb b d); [|destruct (split_on d s); discriminate H].
  inversion H as [X]. destruct s as [|c s']; cbn [split_on] in X; [discriminate|].
  destruct (N.eqb c d); [discriminate|destruct (split_on d s'); discriminate].
Qed.

Lemma char_of_byte_not_dot : forall b c, char_of_byte b = Some c -> c <> dot /\ c = b.
Proof.
  intros b c H. unfold char_of_byte in H. destruct (N.eqb b dot) eqn:E; [discriminate|].
  inversion H; subst. apply N.eqb_neq in E. split; [exact E|reflexivity].
Qed.

Lemma str_of_piece_not_dot : forall p t, str_of_piece p = Some t -> t <> [dot] /\ t = p.
Proof.
  intros p t H. unfold str_of_piece in H. destruct (str_eqb p [dot]) eqn:E; [discriminate|].
  inversion H; subst. split; [|reflexivity]. intro X. rewrite X, str_eqb_refl in E. discriminate.
Qed.

(* INFO Character vector: no element '.' or ',' is ever read *)
Theorem dec_info_chars_range : forall bs l c, dec_info_chars bs = ROk (SChars l) -> In (Some c) l ->
  c <> dot /\ c <> comma.
Proof.
  intros bs l c H Hc. unfold dec_info_chars in H.
  destruct (dec_info_string bs) as [[s|]| |]; cbn [rbind] in H; try discriminate. inversion H; subst l.
  apply in_map_iff in Hc. destruct Hc as (b & Eb & Hb). apply char_of_byte_not_dot in Eb. destruct Eb as [A ->].
  split; [exact A|]. apply in_concat in Hb. destruct Hb as (p & Hp & Hbp).
  intro X. subst b. exact (split_pieces_no_delim _ _ _ Hp Hbp).
Qed.

(* INFO String vector: no element "." or holding ',' is ever read, nor the vector [""] *)
Theorem dec_info_strs_range : forall bs l, dec_info_strs bs = ROk (SStrs l) ->
  l <> [Some []] /\ forall t, In (Some t) l -> t <> [dot] /\ ~ In comma t.
Proof.
  intros bs l H. unfold dec_info_strs in H.
  destruct (dec_info_string bs) as [[s|]| |] eqn:Es; cbn [rbind] in H; try discriminate. inversion H; subst l.
  split.
  - intro X. assert (split_on comma s = [[]]) as Y.
    { destruct (split_on comma s) as [|p [|q r]]; cbn [map] in X; try discriminate X.
      inversion X as [Z]. unfold str_of_piece in Z. destruct (str_eqb p [dot]); [discriminate|]. inversion Z. reflexivity. }
    apply split_empty_only in Y. exact (dec_info_string_nonempty _ _ Es Y).
  - intros t Ht. apply in_map_iff in Ht. destruct Ht as (p & Ep & Hp). apply str_of_piece_not_dot in Ep.
    destruct Ep as [A ->]. split; [exact A|exact (split_pieces_no_delim _ _ _ Hp)].
Qed.

(* INFO String: the empty string is never read *)
Theorem dec_info_str_range : forall bs s, dec_info_str bs = ROk (SStr s) -> s <> [].
Proof.
  intros bs s H. unfold dec_info_str in H.
  destruct (dec_info_string bs) as [[x|]| |] eqn:Es; cbn [rbind] in H; try discriminate. inversion H; subst x.
  exact (dec_info_string_nonempty _ _ Es).
Qed.

(* ---- FORMAT: cells *)
Lemma until_nul_no_nul : forall x, ~ In nul (until_nul x).
Proof.
  induction x as [|b x IH]; cbn [until_nul]; [intros []|].
  destruct (N.eqb b nul) eqn:E; [intros []|]. apply N.eqb_neq in E. intros [X|X]; [congruence|exact (IH X)].
Qed.

Lemma dec_cells_no_nul : forall ns len bs xs, dec_cells ns len bs = Some xs -> forall x, In x xs -> ~ In nul x.
Proof.
  induction ns as [|ns IH]; intros len bs xs H x Hx; cbn [dec_cells] in H; [inversion H; subst; destruct Hx|].
  destruct (take len bs) as [[y r]|]; [|discriminate]. destruct (utf8_valid (until_nul y)); [|discriminate].
  destruct (dec_cells ns len r) as [ys|] eqn:E; [|discriminate]. inversion H; subst xs.
  destruct Hx as [<-|Hx]; [apply until_nul_no_nul|exact (IH _ _ _ E x Hx)].
Qed.

Lemma dec_fmt_cells_no_nul : forall ns bs xs, dec_fmt_cells ns bs = ROk xs -> forall x, In x xs -> ~ In nul x.
Proof.
  intros ns bs xs H. unfold dec_fmt_cells in H.
  destruct (read_type bs) as [[[code len] r]|]; [|discriminate].
  destruct (code =? 0); [discriminate|]. destruct ((len =? 0) && negb (code =? 7)); [discriminate|].
  destruct (code =? 7); [|discriminate].
  destruct (dec_cells ns (znat (S (length r)) len) r) as [ys|] eqn:E; [|discriminate]. inversion H; subst ys.
  exact (dec_cells_no_nul _ _ _ _ E).
Qed.

Lemma map_rres_in : forall A B (f : A -> rres B) l out y, map_rres f l = ROk out -> In y out ->
  exists x, In x l /\ f x = ROk y.
Proof.
  intros A B f. induction l as [|x l IH]; intros out y H Hy; cbn [map_rres] in H.
  - inversion H; subst. destruct Hy.
  - destruct (f x) as [b| |] eqn:E; cbn [rbind] in H; try discriminate.
    destruct (map_rres f l) as [bs| |] eqn:E2; cbn [rbind] in H; try discriminate. inversion H; subst out.
    destruct Hy as [<-|Hy]; [exists x; split; [left; reflexivity|exact E]|].
    destruct (IH bs y eq_refl Hy) as (x' & Hx' & Ex'). exists x'. split; [right; exact Hx'|exact Ex'].
Qed.

(* FORMAT Character: '.' and NUL are never read *)
Theorem dec_fmt_chars_range : forall ns bs l c, dec_fmt_chars ns bs = ROk l -> In (Some c) l ->
  c <> dot /\ c <> nul.
Proof.
  intros ns bs l c H Hc. unfold dec_fmt_chars in H.
  destruct (dec_fmt_cells ns bs) as [xs| |] eqn:E; cbn [rbind] in H; try discriminate.
  destruct (map_rres_in _ _ _ _ _ _ H Hc) as (x & Hx & Ex).
  unfold first_char in Ex. destruct x as [|b t]; [discriminate|]. inversion Ex as [Y].
  apply char_of_byte_not_dot in Y. destruct Y as [A ->]. split; [exact A|].
  intro X. subst b. exact (dec_fmt_cells_no_nul _ _ _ E _ Hx (or_introl eq_refl)).
Qed.

(* FORMAT String: "." and strings holding NUL are never read *)
Theorem dec_fmt_strings_range : forall ns bs l s, dec_fmt_strings ns bs = ROk l -> In (Some s) l ->
  s <> [dot] /\ ~ In nul s.
Proof.
  intros ns bs l s H Hs. unfold dec_fmt_strings in H.
  destruct (dec_fmt_cells ns bs) as [xs| |] eqn:E; cbn [rbind] in H; try discriminate. inversion H; subst l.
  apply in_map_iff in Hs. destruct Hs as (p & Ep & Hp). apply str_of_piece_not_dot in Ep. destruct Ep as [A ->].
  split; [exact A|exact (dec_fmt_cells_no_nul _ _ _ E _ Hp)].
Qed.

(* FORMAT Character vectors: elements '.', ',' and NUL are never read *)
Theorem dec_fmt_char_arrays_range : forall ns bs l cs c, dec_fmt_char_arrays ns bs = ROk l ->
  In (Some cs) l -> In (Some c) cs -> c <> dot /\ c <> comma /\ c <> nul.
Proof.
  intros ns bs l cs c H Hcs Hc. unfold dec_fmt_char_arrays in H.
  destruct (dec_fmt_cells ns bs) as [xs| |] eqn:E; cbn [rbind] in H; try discriminate.
  destruct (map_rres_in _ _ _ _ _ _ H Hcs) as (x & Hx & Ex).
  destruct (map_rres first_char (split_on comma x)) as [ys| |] eqn:E2; cbn [rbind] in Ex; try discriminate.
  inversion Ex; subst ys.
  destruct (map_rres_in _ _ _ _ _ _ E2 Hc) as (p & Hp & Ep).
  unfold first_char in Ep. destruct p as [|b t]; [discriminate|]. inversion Ep as [Y].
  apply char_of_byte_not_dot in Y. destruct Y as [A ->]. split; [exact A|].
  split; intro X.
  - apply (split_pieces_no_delim _ _ _ Hp). left. exact X.
  - apply (dec_fmt_cells_no_nul _ _ _ E _ Hx). apply (split_pieces_sub comma x _ Hp). left. exact X.
Qed.

(* FORMAT String vectors: elements "." and elements holding ',' or NUL are never read *)
Theorem dec_fmt_str_arrays_range : forall ns bs l vs t, dec_fmt_str_arrays ns bs = ROk l ->
  In (Some vs) l -> In (Some t) vs -> t <> [dot] /\ ~ In comma t /\ ~ In nul t.
Proof.
  intros ns bs l vs t H Hvs Ht. unfold dec_fmt_str_arrays in H.
  destruct (dec_fmt_cells ns bs) as [xs| |] eqn:E; cbn [rbind] in H; try discriminate. inversion H; subst l.
  apply in_map_iff in Hvs. destruct Hvs as (x & Ex & Hx). unfold cell_strs in Ex.
  destruct (str_eqb x [dot]); [discriminate|]. inversion Ex; subst vs.
  apply in_map_iff in Ht. destruct Ht as (p & Ep & Hp). apply str_of_piece_not_dot in Ep. destruct Ep as [A ->].
  split; [exact A|]. split; [exact (split_pieces_no_delim _ _ _ Hp)|].
  intro X. apply (dec_fmt_cells_no_nul _ _ _ E _ Hx). exact (split_pieces_sub comma x _ Hp _ X).
Qed.
