(* C10 -- proofs about NV.Bcf.File: the header block written by Writer::write_header is read back
   by read_header as the same header, with the same string maps (the reader's insert_entry in line
   order = the writer's StringMaps::try_from), and the unread rest is what follows the block; the
   record loops (one reused RecordBuf; lazy Record + try_from_variant_record) return the records
   one by one and end with Ok(0); the whole file. *)
From Coq Require Import ZArith NArith List Bool Lia ZifyBool ZifyNat ZifyN.
From NV Require Import Text.TextBase Text.TextBaseProofs Vcf.Values Vcf.Line Vcf.FrameProofs
  Vcf.Header Vcf.HeaderProofs Vcf.HdrFrameProofs Vcf.File.
From NV Require Vcf.FileProofs.
From NV Require Import Bcf.Ints Bcf.IntsProofs Bcf.Typed Bcf.Strings Bcf.Genotype Bcf.StringMap
  Bcf.StringMapProofs Bcf.Record Bcf.RecordProofs Bcf.RecordTyped Bcf.Bridge Bcf.BridgeProofs
  Bcf.ColumnProofs Bcf.Lazy Bcf.LazySiteProofs Bcf.LazyEagerProofs Bcf.File.
Import ListNotations.
Open Scope Z_scope.

(* ------------------------------------------------------------------ the line reader *)
Lemma strip_cr_framed : forall l, ends_cr l = false -> strip_cr l = l.
Proof. intros l H. unfold strip_cr. rewrite H. reflexivity. Qed.

Lemma lines_of_mid : forall l cur X, ~ In 10%N l ->
  lines_of cur false (l ++ 10%N :: X) = strip_cr (cur ++ l) :: lines_of [] true X.
Proof.
  induction l as [|b l IH]; intros cur X Hn.
  - cbn [app lines_of andb N.eqb Pos.eqb]. rewrite app_nil_r. reflexivity.
  - cbn [app lines_of andb].
    assert (Hb : N.eqb b 10 = false).
    { apply N.eqb_neq. intro E. apply Hn. left. exact E. }
    rewrite Hb. rewrite IH by (intro H; apply Hn; right; exact H).
    rewrite <- app_assoc. reflexivity.
Qed.

Definition hline (l : list N) : Prop := (exists t, l = 35%N :: t) /\ line_framed l.

Lemma lines_of_written : forall ls X, Forall hline ls ->
  lines_of [] true (with_lf ls ++ 0%N :: X) = ls.
Proof.
  induction ls as [|l ls IH]; intros X H.
  - reflexivity.
  - inversion H as [|? ? [[t Et] [Hlf Hcr]] Hrest]; subst.
    rewrite Vcf.FileProofs.with_lf_cons. cbn [app lines_of andb N.eqb Pos.eqb].
    assert (Ht : ~ In 10%N t) by (intro Hi; apply Hlf; right; exact Hi).
    replace ((t ++ 10%N :: with_lf ls) ++ 0%N :: X) with (t ++ 10%N :: (with_lf ls ++ 0%N :: X))
      by (rewrite <- app_assoc; reflexivity).
    rewrite (lines_of_mid t _ _ Ht). cbn [app].
    rewrite (strip_cr_framed _ Hcr). f_equal. apply IH. exact Hrest.
Qed.

(* ------------------------------------------------------------------ string-map entries of the written lines *)
Lemma sm_entries_app : forall c a b, sm_entries c (a ++ b) = sm_entries c a ++ sm_entries c b.
Proof.
  intros c a b. induction a as [|l a IH]; [reflexivity|].
  cbn [app sm_entries]. destruct (sm_entry l) as [[c' e]|]; [|exact IH].
  destruct (Bool.eqb c' c); [cbn [app]; f_equal; exact IH|exact IH].
Qed.

Definition kind_map (k : mkind) : option bool :=
  match k with KInfo | KFilter | KFormat => Some false | KContig => Some true | KAlt => None end.

Lemma sm_entry_map_line : forall k m, map_ok k m ->
  sm_entry (w_map_line k m) = option_map (fun c => (c, sm_line m)) (kind_map k).
Proof.
  intros k m Hok. unfold sm_entry, w_map_line.
  rewrite (p_record_line (kind_key k) _ (kind_key_no_eq k)).
  pose proof (map_line_roundtrip k m [] Hok) as Hp.
  destruct k; cbn [kind_key bytes_eqb k_fileformat k_INFO k_FILTER k_FORMAT k_ALT k_contig N.eqb Pos.eqb andb kind_map option_map] in *;
    try rewrite Hp; reflexivity.
Qed.

Lemma sm_entries_map_lines : forall c k ms, Forall (map_ok k) ms ->
  sm_entries c (map (w_map_line k) ms) =
  match kind_map k with Some c' => if Bool.eqb c' c then map sm_line ms else [] | None => [] end.
Proof.
  intros c k ms H. induction H as [|m ms Hm _ IH].
  - destruct (kind_map k) as [c'|]; [destruct (Bool.eqb c' c)|]; reflexivity.
  - cbn [map sm_entries]. rewrite (sm_entry_map_line k m Hm).
    destruct (kind_map k) as [c'|]; cbn [option_map]; [|exact IH].
    destruct (Bool.eqb c' c); [cbn [map]; f_equal; exact IH|exact IH].
Qed.

Lemma sm_entry_other_line : forall key v, okey_nonstd key -> sm_entry (w_line key v) = None.
Proof.
  intros key v [Hk Hs]. unfold sm_entry. rewrite (p_record_line key v Hk).
  repeat (apply orb_false_elim in Hs; destruct Hs as [Hs ?]).
  repeat match goal with H : bytes_eqb key _ = false |- _ => rewrite H; clear H end. reflexivity.
Qed.

Lemma sm_entries_none : forall c ls, Forall (fun l => sm_entry l = None) ls -> sm_entries c ls = [].
Proof.
  intros c ls H. induction H as [|l ls Hl _ IH]; [reflexivity|].
  cbn [sm_entries]. rewrite Hl. exact IH.
Qed.

Lemma group_lines_no_entry : forall ff gs groups,
  Forall (group_ok ff) gs -> sequence (map (w_other_group ff) gs) = Some groups ->
  Forall (fun l => sm_entry l = None) (concat groups).
Proof.
  intros ff gs groups Hok Hs. apply Forall_forall. intros l Hl.
  apply in_concat in Hl. destruct Hl as (g & Hg & Hl).
  destruct (sequence_map_in _ _ _ _ _ _ Hs Hg) as (og & Hog & Eog).
  rewrite Forall_forall in Hok. specialize (Hok og Hog).
  destruct og as [key coll]. unfold group_ok in Hok. cbn [fst snd] in Hok.
  destruct coll as [vs|ms].
  - destruct Hok as (Hk & _ & _). rewrite (w_other_group_lines ff key vs g Eog) in Hl.
    apply in_map_iff in Hl. destruct Hl as (v & <- & _).
    apply sm_entry_other_line. apply okey_other_nonstd. exact Hk.
  - destruct Hok as (Hk & _ & _). unfold w_other_group in Eog. cbn [fst snd] in Eog.
    inversion Eog; subst g. apply in_map_iff in Hl. destruct Hl as (m & <- & _).
    unfold w_omap_line. apply sm_entry_other_line. exact Hk.
Qed.

Lemma sm_entry_columns : forall ss, sm_entry (w_columns ss) = None.
Proof.
  intros ss. unfold sm_entry, p_record, w_columns, columns8. cbn [app]. rewrite join_cons2.
  reflexivity.
Qed.

Lemma is_chrom_columns : forall ss, is_chrom_line (w_columns ss) = true.
Proof.
  intros ss. unfold is_chrom_line, w_columns, columns8. cbn [app]. rewrite join_cons2.
  rewrite strip_prefix_app. reflexivity.
Qed.

Lemma maps_ok_of_header : forall h, header_ok h ->
  Forall (map_ok KInfo) (hh_infos h) /\ Forall (map_ok KFilter) (hh_filters h) /\
  Forall (map_ok KFormat) (hh_formats h) /\ Forall (map_ok KAlt) (hh_alts h) /\
  Forall (map_ok KContig) (hh_contigs h) /\ Forall (group_ok (hh_ff h)) (hh_others h).
Proof.
  intros h (_ & _ & Hm & Hg & _).
  pose proof (Hm KInfo) as [A _]. pose proof (Hm KFilter) as [B _]. pose proof (Hm KFormat) as [C _].
  pose proof (Hm KAlt) as [D _]. pose proof (Hm KContig) as [E _].
  cbn [get_maps] in *. repeat split; assumption.
Qed.

(* the reader's insert_entry in line order = the writer's StringMaps::try_from *)
Theorem written_maps : forall h ls, header_ok h -> Header.write_header h = Some ls ->
  maps_of_lines ls = maps_of_header h /\ has_chrom_line ls = true /\ ls <> [].
Proof.
  intros h ls Hok Hw.
  destruct (maps_ok_of_header h Hok) as (Mi & Mf & Mo & Ma & Mc & Mg).
  unfold Header.write_header in Hw.
  destruct (sequence (map (w_other_group (hh_ff h)) (hh_others h))) as [groups|] eqn:Eg; [|discriminate].
  inversion Hw; subst ls. clear Hw.
  pose proof (group_lines_no_entry _ _ _ Mg Eg) as Hgr.
  assert (Hff : forall c, sm_entries c [w_fileformat (hh_ff h)] = []).
  { intro c. cbn [sm_entries]. unfold w_fileformat, sm_entry.
    rewrite p_record_line; [reflexivity|].
    cbn; intros H; repeat (destruct H as [H|H]; [discriminate|]); destruct H. }
  assert (Hen : forall c,
    sm_entries c (w_fileformat (hh_ff h)
      :: map (w_map_line KInfo) (hh_infos h) ++ map (w_map_line KFilter) (hh_filters h)
      ++ map (w_map_line KFormat) (hh_formats h) ++ map (w_map_line KAlt) (hh_alts h)
      ++ map (w_map_line KContig) (hh_contigs h) ++ concat groups ++ [w_columns (hh_samples h)])
    = if c then map sm_line (hh_contigs h)
      else map sm_line (hh_infos h ++ hh_filters h ++ hh_formats h)).
  { intro c.
    change (w_fileformat (hh_ff h) :: ?x) with ([w_fileformat (hh_ff h)] ++ x).
    rewrite !sm_entries_app, Hff.
    rewrite (sm_entries_map_lines c KInfo _ Mi), (sm_entries_map_lines c KFilter _ Mf),
      (sm_entries_map_lines c KFormat _ Mo), (sm_entries_map_lines c KAlt _ Ma),
      (sm_entries_map_lines c KContig _ Mc), (sm_entries_none c _ Hgr).
    cbn [sm_entries]. rewrite sm_entry_columns. cbn [kind_map].
    destruct c; cbn [Bool.eqb app]; rewrite ?app_nil_r, ?map_app; reflexivity. }
  split; [|split; [|discriminate]].
  - unfold maps_of_lines, maps_of_header. rewrite (Hen false), (Hen true).
    destruct (build_strings _) as [s|]; destruct (build_contigs _) as [c|]; reflexivity.
  - unfold has_chrom_line. cbn [tl]. rewrite !existsb_app. cbn [existsb].
    rewrite is_chrom_columns. rewrite !orb_true_r. reflexivity.
Qed.

(* ------------------------------------------------------------------ the header block *)
Theorem prefix_roundtrip : forall h p rest,
  header_ok h -> hdr_defs_ok h = true -> hdr_vals_framed h ->
  write_prefix h = Some p ->
  exists s c, maps_of_header h = Some (s, c) /\ read_prefix (p ++ rest) = FOk (h, s, c, rest).
Proof.
  intros h p rest Hok Hd Hfr Hw. unfold write_prefix in Hw.
  destruct (maps_of_header h) as [[s c]|] eqn:Em; [|discriminate].
  destruct (Header.write_header h) as [ls|] eqn:Eh; [|discriminate].
  destruct (mem 0%N (with_lf ls)) eqn:Enul; [discriminate|].
  destruct (4294967295 <? Z.of_nat (length (with_lf ls)) + 1) eqn:El; [discriminate|].
  apply some_inj in Hw. subst p.
  exists s, c. split; [reflexivity|].
  unfold read_prefix. rewrite <- !app_assoc.
  rewrite (take_app 3 magic) by reflexivity. cbn [bytes_eqb magic N.eqb Pos.eqb andb negb].
  rewrite (take_app 2 version) by reflexivity.
  rewrite take_app by apply le_bytes_length.
  rewrite le_val_le4 by lia.
  set (text := with_lf ls) in *.
  assert (Hn : znat (length (text ++ [0%N] ++ rest)) (Z.of_nat (length text) + 1) = length (text ++ [0%N])).
  { replace (Z.of_nat (length text) + 1) with (Z.of_nat (length (text ++ [0%N])))
      by (rewrite app_length; cbn [length]; lia).
    apply znat_id. rewrite !app_length. lia. }
  rewrite Hn.
  assert (Hsh : (Z.of_nat (length (text ++ [0%N] ++ rest)) <? Z.of_nat (length text) + 1) = false).
  { rewrite !app_length. cbn [length]. lia. }
  rewrite Hsh.
  replace (text ++ [0%N] ++ rest) with ((text ++ [0%N]) ++ rest) by (rewrite <- app_assoc; reflexivity).
  rewrite firstn_app, Nat.sub_diag, firstn_all, firstn_O, app_nil_r.
  rewrite skipn_app, Nat.sub_diag, skipn_all, skipn_O. cbn [app].
  assert (Hl : lines_of [] true (text ++ [0%N]) = ls).
  { apply lines_of_written. pose proof (Vcf.FileProofs.write_header_hash h ls Eh) as Hh.
    pose proof (header_framed_of_values h ls Hfr Eh) as Hf.
    rewrite Forall_forall in *. intros l Hin. split; [apply Hh|apply Hf]; exact Hin. }
  rewrite Hl.
  destruct (written_maps h ls Hok Eh) as (Hm & Hc & Hne).
  unfold parse_text. destruct ls as [|l0 ls']; [contradiction|].
  rewrite Hc. unfold parse_header_chk. rewrite (header_roundtrip h _ Hok Eh), Hd, Hm, Em. reflexivity.
Qed.

(* ------------------------------------------------------------------ string maps are well formed *)
Lemma build_from_wf : forall ls m0 m, wf m0 -> build_from m0 ls = Some m -> wf m.
Proof.
  induction ls as [|[id idx] t IH]; intros m0 m Hw Hb.
  - cbn [build_from] in Hb. inversion Hb; subst. exact Hw.
  - rewrite build_from_cons in Hb. destruct (insert m0 id idx) as [m1|] eqn:Ei; [|discriminate].
    apply (IH m1 m); [|exact Hb].
    apply (insert_wf m0 id idx m1 Hw (insert_some_no_clobber _ _ _ _ Ei) Ei).
Qed.

Lemma maps_of_header_wf : forall h s c, maps_of_header h = Some (s, c) -> wf s /\ wf c.
Proof.
  intros h s c H. unfold maps_of_header in H.
  destruct (build_contigs _) as [c'|] eqn:Ec; [|discriminate].
  destruct (build_strings _) as [s'|] eqn:Es; [|discriminate].
  inversion H; subst. split.
  - apply (build_from_wf _ _ _ wf_default_strings Es).
  - apply (build_from_wf _ _ _ wf_empty Ec).
Qed.

(* ------------------------------------------------------------------ framing of a written record *)
Lemma read_ok_frame : forall s c hc bs r, bcf_read s c hc bs = ROk r -> dec_frame bs <> None.
Proof.
  intros s c hc bs r H E. unfold bcf_read, dec_record_typed, dec_record_k in H. rewrite E in H.
  cbn [rbind] in H. discriminate H.
Qed.

Lemma lazy_ok_frame : forall v44 s c ik fk hs bs t,
  lazy_read_hdr v44 s c ik fk hs bs = ROk t -> dec_frame bs <> None.
Proof.
  intros v44 s c ik fk hs bs t H E. unfold lazy_read_hdr, lazy_read_gen in H. rewrite E in H.
  discriminate H.
Qed.

Lemma frame_not_end : forall bs, dec_frame bs <> None -> at_end bs = false.
Proof.
  intros bs H. unfold at_end. unfold dec_frame in H.
  destruct bs as [|b bs']; [exfalso; apply H; reflexivity|].
  destruct (take 4 (b :: bs')) as [[a r1]|]; [|reflexivity].
  destruct (le_val a =? 0); [exfalso; apply H; reflexivity|reflexivity].
Qed.

(* what write_record emits is one frame: the reader's next record starts right after it *)
Lemma written_frame : forall s c hc rlen r b rest,
  bcf_write s c hc rlen r = Ok b -> dec_frame (b ++ rest) <> None ->
  exists sb ib, dec_frame (b ++ rest) = Some (sb, ib, rest).
Proof.
  intros s c hc rlen r b rest Hw Hne. unfold bcf_write, enc_record_w, enc_record in Hw.
  destruct (enc_site _ _ _ _ _) as [sb| | |]; try discriminate Hw. cbn [bind] in Hw.
  unfold u32 at 1 in Hw. destruct (Z.of_nat (length sb) <=? 4294967295) eqn:E1; [|discriminate Hw].
  cbn [bind] in Hw.
  destruct (if has_rows r then enc_fields s _ else Ok []) as [ib| | |]; try discriminate Hw.
  cbn [bind] in Hw. unfold u32 in Hw.
  destruct (Z.of_nat (length ib) <=? 4294967295) eqn:E2; [|discriminate Hw]. cbn [bind] in Hw.
  assert (Hb : b = le_bytes 4 (Z.of_nat (length sb)) ++ le_bytes 4 (Z.of_nat (length ib)) ++ sb ++ ib)
    by congruence.
  subst b. clear Hw. exists sb, ib. rewrite <- !app_assoc in *.
  destruct sb as [|x sb'].
  - exfalso. apply Hne. unfold dec_frame. rewrite take_app by apply le_bytes_length.
    rewrite le_val_le4 by (cbn [length]; lia). reflexivity.
  - apply frame_roundtrip; [discriminate|lia|lia].
Qed.

Lemma written_nonempty : forall (b rest : list N), dec_frame (b ++ rest) <> None -> b ++ rest <> [].
Proof. intros b rest H E. rewrite E in H. apply H. reflexivity. Qed.

(* ------------------------------------------------------------------ the record loops *)
(* record x, written under (s, c, hc), is read back as [back] whatever follows it *)
Definition rec_rt (s c : smap) (hc : hctx) (x : Z * vrec) (back : vrec) : Prop :=
  forall rest, exists b, bcf_write s c hc (fst x) (snd x) = Ok b /\
                         bcf_read s c hc (b ++ rest) = ROk back.

Definition rec_rt_lazy (s c : smap) (hc : hctx) (x : Z * vrec) (back : vrec) : Prop :=
  forall rest, exists b t, bcf_write s c hc (fst x) (snd x) = Ok b /\
    lazy_read_hdr (h_v44 hc) s c (ik_of hc) (fk_of hc) (Z.of_nat (h_nsamples hc)) (b ++ rest) = ROk t /\
    vrec_of t = back.

Lemma take_rest_length : forall k (bs a r : list N), take k bs = Some (a, r) ->
  (length r + k = length bs)%nat.
Proof.
  intros k bs a r H. unfold take in H. destruct (k <=? length bs)%nat eqn:E; [|discriminate H].
  inversion H; subst. rewrite skipn_length. apply Nat.leb_le in E. lia.
Qed.

Lemma dec_frame_length : forall bs sb ib rest, dec_frame bs = Some (sb, ib, rest) ->
  (length rest < length bs)%nat.
Proof.
  intros bs sb ib rest H. unfold dec_frame in H.
  destruct (take 4 bs) as [[a r1]|] eqn:E1; [|discriminate H].
  destruct (le_val a =? 0); [discriminate H|].
  destruct (take 4 r1) as [[b r2]|] eqn:E2; [|discriminate H].
  destruct (take _ r2) as [[sb' r3]|] eqn:E3; [|discriminate H].
  destruct (take _ r3) as [[ib' r4]|] eqn:E4; [|discriminate H].
  inversion H; subst.
  apply take_rest_length in E1. apply take_rest_length in E2.
  apply take_rest_length in E3. apply take_rest_length in E4. lia.
Qed.

Theorem read_eager_written : forall s c hc rs backs,
  Forall2 (rec_rt s c hc) rs backs ->
  forall body fuel prev, write_records s c hc rs = Ok body -> (length body < fuel)%nat ->
  read_eager fuel s c hc prev body = (backs, EndEof).
Proof.
  intros s c hc rs backs H. induction H as [|[rlen r] back rs backs Hrt _ IH]; intros body fuel prev Hw Hf.
  - cbn [write_records] in Hw. inversion Hw; subst body.
    destruct fuel as [|f]; [cbn [length] in Hf; lia|]. reflexivity.
  - cbn [write_records] in Hw.
    destruct (bcf_write s c hc rlen r) as [b| | |] eqn:Eb; try discriminate Hw. cbn [bind] in Hw.
    destruct (write_records s c hc rs) as [bt| | |] eqn:Et; try discriminate Hw. cbn [bind] in Hw.
    inversion Hw; subst body. clear Hw.
    destruct (Hrt bt) as (b' & Eb' & Hr). cbn [fst snd] in Eb'. rewrite Eb in Eb'.
    inversion Eb'; subst b'. clear Eb'.
    pose proof (read_ok_frame _ _ _ _ _ Hr) as Hne.
    destruct (written_frame _ _ _ _ _ _ bt Eb Hne) as (sb & ib & Hfr).
    destruct fuel as [|f]; [lia|]. cbn [read_eager].
    rewrite (frame_not_end _ Hne), Hfr, reused_recordbuf_independent, Hr.
    pose proof (dec_frame_length _ _ _ _ Hfr) as Hlen.
    rewrite (IH bt f back eq_refl) by lia. reflexivity.
Qed.

Theorem read_lazy_written : forall s c hc rs backs,
  Forall2 (rec_rt_lazy s c hc) rs backs ->
  forall body fuel, write_records s c hc rs = Ok body -> (length body < fuel)%nat ->
  read_lazy fuel s c hc body = (backs, EndEof).
Proof.
  intros s c hc rs backs H. induction H as [|[rlen r] back rs backs Hrt _ IH]; intros body fuel Hw Hf.
  - cbn [write_records] in Hw. inversion Hw; subst body.
    destruct fuel as [|f]; [cbn [length] in Hf; lia|]. reflexivity.
  - cbn [write_records] in Hw.
    destruct (bcf_write s c hc rlen r) as [b| | |] eqn:Eb; try discriminate Hw. cbn [bind] in Hw.
    destruct (write_records s c hc rs) as [bt| | |] eqn:Et; try discriminate Hw. cbn [bind] in Hw.
    inversion Hw; subst body. clear Hw.
    destruct (Hrt bt) as (b' & t & Eb' & Hr & Hv). cbn [fst snd] in Eb'. rewrite Eb in Eb'.
    inversion Eb'; subst b'. clear Eb'.
    pose proof (lazy_ok_frame _ _ _ _ _ _ _ _ Hr) as Hne.
    destruct (written_frame _ _ _ _ _ _ bt Eb Hne) as (sb & ib & Hfr).
    destruct fuel as [|f]; [lia|]. cbn [read_lazy].
    rewrite (frame_not_end _ Hne), Hfr, Hr.
    pose proof (dec_frame_length _ _ _ _ Hfr) as Hlen.
    rewrite (IH bt f eq_refl) by lia. rewrite Hv. reflexivity.
Qed.

(* ------------------------------------------------------------------ THE FILE *)
(* header + records written as one BCF stream are read back as the same header (and string maps)
   and the records' read-backs, the loop ending with Ok(0).  The per-record premise is the
   CONCLUSION of the record theorems (bcf_samples_roundtrip, bcf_sites_roundtrip,
   keys_without_rows_roundtrip), under the string maps of the header. *)
Theorem file_roundtrip_gen : forall hd rs backs bs,
  header_ok hd -> hdr_defs_ok hd = true -> hdr_vals_framed hd ->
  (forall s c, maps_of_header hd = Some (s, c) -> Forall2 (rec_rt s c (hctx_of_header hd)) rs backs) ->
  bcf_write_file hd rs = Ok bs ->
  bcf_read_file bs = FOk (hd, (backs, EndEof)).
Proof.
  intros hd rs backs bs Hok Hd Hfr Hrs Hw. unfold bcf_write_file in Hw.
  destruct (write_prefix hd) as [p|] eqn:Ep; [|discriminate Hw].
  destruct (maps_of_header hd) as [[s c]|] eqn:Em; [|discriminate Hw].
  destruct (write_records s c (hctx_of_header hd) rs) as [body| | |] eqn:Eb; try discriminate Hw.
  cbn [bind] in Hw. inversion Hw; subst bs. clear Hw.
  destruct (prefix_roundtrip hd p body Hok Hd Hfr Ep) as (s' & c' & Em' & Hp).
  rewrite Em in Em'. inversion Em'; subst s' c'. clear Em'.
  unfold bcf_read_file. rewrite Hp. f_equal. f_equal.
  apply (read_eager_written s c _ rs backs (Hrs s c eq_refl)); [exact Eb|unfold file_fuel; lia].
Qed.

Theorem file_roundtrip_lazy_gen : forall hd rs backs bs,
  header_ok hd -> hdr_defs_ok hd = true -> hdr_vals_framed hd ->
  (forall s c, maps_of_header hd = Some (s, c) -> Forall2 (rec_rt_lazy s c (hctx_of_header hd)) rs backs) ->
  bcf_write_file hd rs = Ok bs ->
  bcf_read_file_lazy bs = FOk (hd, (backs, EndEof)).
Proof.
  intros hd rs backs bs Hok Hd Hfr Hrs Hw. unfold bcf_write_file in Hw.
  destruct (write_prefix hd) as [p|] eqn:Ep; [|discriminate Hw].
  destruct (maps_of_header hd) as [[s c]|] eqn:Em; [|discriminate Hw].
  destruct (write_records s c (hctx_of_header hd) rs) as [body| | |] eqn:Eb; try discriminate Hw.
  cbn [bind] in Hw. inversion Hw; subst bs. clear Hw.
  destruct (prefix_roundtrip hd p body Hok Hd Hfr Ep) as (s' & c' & Em' & Hp).
  rewrite Em in Em'. inversion Em'; subst s' c'. clear Em'.
  unfold bcf_read_file_lazy. rewrite Hp. f_equal. f_equal.
  apply (read_lazy_written s c _ rs backs (Hrs s c eq_refl)); [exact Eb|unfold file_fuel; lia].
Qed.

(* the domain of one record of the file, and what it is read back as *)
Definition file_rec_dom (s c : smap) (hc : hctx) (x : Z * vrec) (back : vrec) : Prop :=
  let rlen := fst x in let r := snd x in
  (* with sample rows: c10_bcf_record_roundtrip *)
  (bcf_samples_dom s c hc rlen r /\ bcf_special r = false /\
   (forall sb, enc_site s c (site_of hc rlen r) (info_fields r) (Z.of_nat (length (r_keys r))) = Ok sb ->
      Z.of_nat (length sb) <= 4294967295) /\
   (forall fb, enc_fields s (fmt_fields hc r) = Ok fb -> Z.of_nat (length fb) <= 4294967295) /\
   back = bback hc r)
  \/
  (* sites only: c10_bcf_sites_roundtrip *)
  (sites_only hc r /\ bcf_site_ok s c hc rlen r /\
   (forall sb, enc_site s c (site_of hc rlen r) (info_fields r) 0 = Ok sb ->
      Z.of_nat (length sb) <= 4294967295) /\
   back = r).

Lemma file_rec_dom_rt : forall s c hc x back, wf s -> wf c ->
  file_rec_dom s c hc x back -> rec_rt s c hc x back.
Proof.
  intros s c hc [rlen r] back Ws Wc [(Hd & Hsp & Hsb & Hfb & ->)|(Hso & Hok & Hsb & ->)] rest; cbn [fst snd] in *.
  - apply bcf_samples_roundtrip; assumption.
  - apply bcf_sites_roundtrip; assumption.
Qed.

Theorem file_roundtrip : forall hd rs backs bs,
  header_ok hd -> hdr_defs_ok hd = true -> hdr_vals_framed hd ->
  (forall s c, maps_of_header hd = Some (s, c) -> Forall2 (file_rec_dom s c (hctx_of_header hd)) rs backs) ->
  bcf_write_file hd rs = Ok bs ->
  bcf_read_file bs = FOk (hd, (backs, EndEof)).
Proof.
  intros hd rs backs bs Hok Hd Hfr Hrs Hw.
  apply (file_roundtrip_gen hd rs backs bs Hok Hd Hfr); [|exact Hw].
  intros s c Em. destruct (maps_of_header_wf hd s c Em) as [Ws Wc].
  specialize (Hrs s c Em). clear Hw. induction Hrs as [|x back rs' backs' Hx _ IH]; constructor.
  - apply file_rec_dom_rt; assumption.
  - exact IH.
Qed.

(* ------------------------------------------------------------------ the short-read checks *)
(* a header text shorter than l_text is never a header (discard_to_end, repaired in b36f6c8) *)
Lemma parse_text_short : forall ls x, parse_text ls true <> FOk x.
Proof.
  intros ls x. unfold parse_text. destruct ls as [|l ls']; [discriminate|].
  destruct (has_chrom_line (l :: ls')).
  - destruct (parse_header_chk (l :: ls')) as [h|]; [|discriminate].
    destruct (maps_of_lines (l :: ls')) as [[s c]|]; discriminate.
  - destruct (parse_header_chk _) as [h|]; [|discriminate].
    destruct (maps_of_lines (l :: ls')) as [[s c]|]; discriminate.
Qed.

Lemma take_inv : forall k (bs a r : list N), take k bs = Some (a, r) -> bs = a ++ r /\ length a = k.
Proof.
  intros k bs a r H. unfold take in H. destruct (k <=? length bs)%nat eqn:E; [|discriminate H].
  apply some_inj in H. apply Nat.leb_le in E.
  assert (Ha : a = firstn k bs) by congruence. assert (Hr : r = skipn k bs) by congruence.
  subst a r. split; [symmetry; apply firstn_skipn|apply firstn_length_le; exact E].
Qed.

Lemma le_val_nonneg : forall l, 0 <= le_val l.
Proof. induction l as [|b l IH]; cbn [le_val]; lia. Qed.

(* whatever read_header accepts holds the 9 fixed bytes and ALL l_text bytes of the text *)
Theorem read_prefix_complete : forall bs h s c rest,
  read_prefix bs = FOk (h, s, c, rest) ->
  exists v lb text,
    bs = magic ++ v ++ lb ++ text ++ rest /\ length v = 2%nat /\ length lb = 4%nat /\
    Z.of_nat (length text) = le_val lb.
Proof.
  intros bs h s c rest H. unfold read_prefix in H.
  destruct (take 3 bs) as [[m r1]|] eqn:E1; [|discriminate H].
  destruct (bytes_eqb m magic) eqn:Em; cbn [negb] in H; [|discriminate H].
  destruct (take 2 r1) as [[v r2]|] eqn:E2; [|discriminate H].
  destruct (take 4 r2) as [[lb r3]|] eqn:E3; [|discriminate H].
  destruct (Z.of_nat (length r3) <? le_val lb) eqn:Esh.
  - exfalso. destruct (parse_text _ true) as [[[h' s'] c']| |] eqn:Ep; try discriminate H.
    exact (parse_text_short _ _ Ep).
  - destruct (parse_text _ false) as [[[h' s'] c']| |]; try discriminate H.
    assert (Hrest : rest = skipn (znat (length r3) (le_val lb)) r3) by congruence.
    clear H. apply bytes_eqb_eq in Em.
    destruct (take_inv _ _ _ _ E1) as [B1 _]. destruct (take_inv _ _ _ _ E2) as [B2 Lv].
    destruct (take_inv _ _ _ _ E3) as [B3 Llb].
    exists v, lb, (firstn (znat (length r3) (le_val lb)) r3).
    split; [|split; [exact Lv|split; [exact Llb|]]].
    + rewrite Hrest, firstn_skipn, B1, B2, B3, Em. reflexivity.
    + rewrite firstn_length, znat_min. pose proof (le_val_nonneg lb). lia.
Qed.

(* hence no proper prefix of a written header block is accepted *)
Theorem prefix_truncated_rejected : forall h p k x,
  write_prefix h = Some p -> (k < length p)%nat -> read_prefix (firstn k p) <> FOk x.
Proof.
  intros h p k [[[h' s] c] rest] Hw Hk Hr.
  destruct (read_prefix_complete _ _ _ _ _ Hr) as (v & lb & text & Hb & Lv & Llb & Ht).
  unfold write_prefix in Hw.
  destruct (maps_of_header h) as [[s0 c0]|]; [|discriminate].
  destruct (Header.write_header h) as [ls|]; [|discriminate].
  destruct (mem 0%N (with_lf ls)); [discriminate|].
  destruct (4294967295 <? Z.of_nat (length (with_lf ls)) + 1) eqn:El; [discriminate|].
  apply some_inj in Hw. subst p.
  set (T := with_lf ls) in *.
  assert (Lk : length (firstn k (magic ++ version ++ le_bytes 4 (Z.of_nat (length T) + 1) ++ T ++ [0%N])) = k).
  { apply firstn_length_le. lia. }
  pose proof (f_equal (@length N) Hb) as Hlen. rewrite Lk in Hlen.
  rewrite !app_length, Lv, Llb in Hlen. cbn [magic length] in Hlen.
  rewrite !app_length, le_bytes_length in Hk. cbn [magic version length] in Hk.
  (* the first 9 bytes of both sides agree, so lb is the written l_text *)
  assert (H9 : firstn 9 (firstn k (magic ++ version ++ le_bytes 4 (Z.of_nat (length T) + 1) ++ T ++ [0%N]))
             = magic ++ version ++ le_bytes 4 (Z.of_nat (length T) + 1)).
  { rewrite firstn_firstn. replace (Nat.min 9 k) with 9%nat by lia.
    replace (magic ++ version ++ le_bytes 4 (Z.of_nat (length T) + 1) ++ T ++ [0%N])
      with ((magic ++ version ++ le_bytes 4 (Z.of_nat (length T) + 1)) ++ T ++ [0%N])
      by (rewrite <- !app_assoc; reflexivity).
    rewrite firstn_app.
    assert (L9 : length (magic ++ version ++ le_bytes 4 (Z.of_nat (length T) + 1)) = 9%nat)
      by (rewrite !app_length, le_bytes_length; reflexivity).
    rewrite L9, Nat.sub_diag, firstn_O, app_nil_r. rewrite <- L9 at 1. apply firstn_all. }
  rewrite Hb in H9.
  replace (magic ++ v ++ lb ++ text ++ rest) with ((magic ++ v ++ lb) ++ text ++ rest) in H9
    by (rewrite <- !app_assoc; reflexivity).
  rewrite firstn_app in H9.
  assert (L9' : length (magic ++ v ++ lb) = 9%nat) by (rewrite !app_length, Lv, Llb; reflexivity).
  rewrite L9', Nat.sub_diag, firstn_O, app_nil_r in H9. rewrite <- L9' in H9 at 1. rewrite firstn_all in H9.
  apply app_inv_head in H9.
  assert (Hv : v = version /\ lb = le_bytes 4 (Z.of_nat (length T) + 1)).
  { destruct v as [|a [|b [|? ?]]]; try discriminate Lv. cbn [app version] in H9.
    inversion H9. split; reflexivity. }
  destruct Hv as [_ Hlb]. subst lb. rewrite le_val_le4 in Ht by lia. lia.
Qed.

(* ------------------------------------------------------------------ lazy file = eager file *)
Open Scope Z_scope.
(* the content normal form does not see what trec_norm identifies *)
Lemma norm_cell_cell_norm : forall v44 c,
  norm_cell v44 (value_of_cell (cell_norm v44 c)) = norm_cell v44 (value_of_cell c).
Proof.
  intros v44 c. destruct c as [o|s|o|s|o|s|o|s|o]; cbn [cell_norm]; try reflexivity.
  - destruct s as [[|[x|] [|y l]]|]; reflexivity.
  - destruct s as [[|[x|] [|y l]]|]; reflexivity.
  - destruct s as [[|[x|] [|y l]]|]; reflexivity.
  - destruct s as [[|[x|] [|y l]]|]; reflexivity.
  - destruct o as [g|]; [|reflexivity]. unfold gt_norm. destruct v44; [reflexivity|].
    destruct g as [|[p ph] t]; [reflexivity|].
    cbn [value_of_cell option_map gn map fst snd norm_cell norm_val lone_missing].
    destruct (on p) as [n|]; [reflexivity|]. destruct t as [|a t']; reflexivity.
Qed.

Lemma content_trec_norm : forall v44 t, content v44 (vrec_of (trec_norm v44 t)) = content v44 (vrec_of t).
Proof.
  intros v44 t. unfold content, vrec_of, trec_norm.
  cbn [r_chrom r_pos r_ids r_ref r_alts r_qual r_filters r_info r_keys r_samples t_head t_info t_keys t_rows].
  f_equal. rewrite !map_map. apply map_ext. intros row. f_equal. rewrite !map_map.
  apply map_ext. intros c. apply norm_cell_cell_norm.
Qed.

Lemma trec_norm_content : forall v44 t t', trec_norm v44 t' = trec_norm v44 t ->
  content v44 (vrec_of t') = content v44 (vrec_of t).
Proof.
  intros v44 t t' H. rewrite <- (content_trec_norm v44 t'), H. apply content_trec_norm.
Qed.

Lemma dec_frame_suffix : forall bs sb ib rest, dec_frame bs = Some (sb, ib, rest) ->
  exists pre, bs = pre ++ rest.
Proof.
  intros bs sb ib rest H. unfold dec_frame in H.
  destruct (take 4 bs) as [[a r1]|] eqn:E1; [|discriminate H].
  destruct (le_val a =? 0); [discriminate H|].
  destruct (take 4 r1) as [[b r2]|] eqn:E2; [|discriminate H].
  destruct (take _ r2) as [[sb' r3]|] eqn:E3; [|discriminate H].
  destruct (take _ r3) as [[ib' r4]|] eqn:E4; [|discriminate H].
  assert (Hr : r4 = rest) by congruence. subst r4.
  destruct (take_inv _ _ _ _ E1) as [B1 _]. destruct (take_inv _ _ _ _ E2) as [B2 _].
  destruct (take_inv _ _ _ _ E3) as [B3 _]. destruct (take_inv _ _ _ _ E4) as [B4 _].
  exists (a ++ b ++ sb' ++ ib'). rewrite B1, B2, B3, B4, <- !app_assoc. reflexivity.
Qed.

(* every record of the stream (at the record boundaries the loop visits) is in the class lazy_agree
   (the eager MODEL's ASCII-Character limit, c10_lazy_agree_is_ascii) *)
Fixpoint agree_all (fuel : nat) (s c : smap) (hc : hctx) (bs : list N) : bool :=
  match fuel with
  | O => true
  | S f =>
    if at_end bs then true
    else match dec_frame bs with
         | Some (_, _, rest) =>
           lazy_agree s c (ik_of hc) (fk_of hc) (Z.of_nat (h_nsamples hc)) bs && agree_all f s c hc rest
         | None => true
         end
  end.

Definition same_content (v44 : bool) (l e : vrec) : Prop := content v44 l = content v44 e.

Theorem read_lazy_of_eager : forall fuel s c hc prev bs backs,
  byte_list bs -> agree_all fuel s c hc bs = true ->
  read_eager fuel s c hc prev bs = (backs, EndEof) ->
  exists lbacks, read_lazy fuel s c hc bs = (lbacks, EndEof) /\
                 Forall2 (same_content (h_v44 hc)) lbacks backs.
Proof.
  induction fuel as [|f IH]; intros s c hc prev bs backs Hb Ha He.
  - cbn [read_eager] in He. discriminate He.
  - cbn [read_eager] in He. cbn [read_lazy]. cbn [agree_all] in Ha.
    destruct (at_end bs); [inversion He; subst; exists []; split; [reflexivity|constructor]|].
    destruct (dec_frame bs) as [[[sb ib] rest]|] eqn:Ef; [|discriminate He].
    rewrite reused_recordbuf_independent in He.
    destruct (bcf_read s c hc bs) as [r| |] eqn:Er; try discriminate He.
    destruct (read_eager f s c hc r rest) as [rs e] eqn:Erest.
    assert (Hbk : backs = r :: rs) by congruence. assert (Hend : e = EndEof) by congruence.
    subst backs e. clear He.
    apply andb_true_iff in Ha. destruct Ha as [Hag Hall].
    unfold bcf_read in Er.
    destruct (dec_record_typed s c (ik_of hc) (fk_of hc) (Z.of_nat (h_nsamples hc)) bs) as [t| |] eqn:Et;
      cbn [rbind] in Er; try discriminate Er.
    assert (Hr : r = vrec_of t) by congruence. subst r.
    destruct (lazy_hdr_eq_eager (h_v44 hc) _ _ _ _ _ _ _ Hb Et Hag) as (t' & Hl & Hn).
    rewrite Hl.
    destruct (dec_frame_suffix _ _ _ _ Ef) as [pre Hpre].
    assert (Hbr : byte_list rest).
    { unfold byte_list in *. rewrite Hpre in Hb. apply Forall_app in Hb. exact (proj2 Hb). }
    destruct (IH s c hc (vrec_of t) rest rs Hbr Hall Erest) as (lrs & Hlr & Hf2).
    rewrite Hlr. exists (vrec_of t' :: lrs). split; [reflexivity|].
    constructor; [exact (trec_norm_content _ _ _ Hn)|exact Hf2].
Qed.

(* file level: whenever the eager file read returns (backs, Ok(0)) on a byte stream whose records are
   in lazy_agree, the lazy file read returns the same header and records with the same content *)
Definition file_agree (bs : list N) : bool :=
  match read_prefix bs with
  | FOk (h, s, c, rest) => agree_all (file_fuel rest) s c (hctx_of_header h) rest
  | _ => true
  end.

Lemma read_prefix_suffix : forall bs h s c rest, read_prefix bs = FOk (h, s, c, rest) ->
  exists pre, bs = pre ++ rest.
Proof.
  intros bs h s c rest H. destruct (read_prefix_complete _ _ _ _ _ H) as (v & lb & text & Hb & _).
  exists (magic ++ v ++ lb ++ text). rewrite Hb, <- !app_assoc. reflexivity.
Qed.

Theorem file_lazy_of_eager : forall bs hd backs,
  byte_list bs -> file_agree bs = true ->
  bcf_read_file bs = FOk (hd, (backs, EndEof)) ->
  exists lbacks, bcf_read_file_lazy bs = FOk (hd, (lbacks, EndEof)) /\
                 Forall2 (same_content (h_v44 (hctx_of_header hd))) lbacks backs.
Proof.
  intros bs hd backs Hb Ha He. unfold bcf_read_file in He. unfold bcf_read_file_lazy. unfold file_agree in Ha.
  destruct (read_prefix bs) as [[[[h s] c] rest]| |] eqn:Ep; try discriminate He.
  assert (Hh : h = hd) by congruence. subst h.
  assert (Hre : read_eager (file_fuel rest) s c (hctx_of_header hd) rec0 rest = (backs, EndEof)) by congruence.
  destruct (read_prefix_suffix _ _ _ _ _ Ep) as [pre Hpre].
  assert (Hbr : byte_list rest).
  { unfold byte_list in *. rewrite Hpre in Hb. apply Forall_app in Hb. exact (proj2 Hb). }
  destruct (read_lazy_of_eager _ _ _ _ _ _ _ Hbr Ha Hre) as (lbacks & Hl & Hf).
  exists lbacks. rewrite Hl. split; [reflexivity|exact Hf].
Qed.

(* ... hence for written files *)
Theorem file_roundtrip_lazy : forall hd rs backs bs,
  header_ok hd -> hdr_defs_ok hd = true -> hdr_vals_framed hd ->
  (forall s c, maps_of_header hd = Some (s, c) -> Forall2 (file_rec_dom s c (hctx_of_header hd)) rs backs) ->
  bcf_write_file hd rs = Ok bs ->
  byte_list bs -> file_agree bs = true ->
  exists lbacks, bcf_read_file_lazy bs = FOk (hd, (lbacks, EndEof)) /\
                 Forall2 (same_content (h_v44 (hctx_of_header hd))) lbacks backs.
Proof.
  intros hd rs backs bs Hok Hd Hfr Hrs Hw Hb Ha.
  apply file_lazy_of_eager; [exact Hb|exact Ha|].
  apply (file_roundtrip hd rs backs bs Hok Hd Hfr Hrs Hw).
Qed.

(* ------------------------------------------------------------------ non-vacuity of the header premises *)
Open Scope N_scope.
Definition exf_map (id : list N) (num : option hnum) (ty : option htype) (desc : option (list N)) (idx : option N) : hmap :=
  {| m_id := id; m_num := num; m_ty := ty; m_desc := desc; m_len := None; m_md5 := None; m_url := None;
     m_idx := idx; m_others := [] |}.
Definition exf_h : vheader :=
  {| hh_ff := (4, 3)%N;
     hh_infos := [exf_map [68; 80]%N (Some (HCount 1)) (Some HInteger) (Some [100]%N) (Some 2%N)];
     hh_filters := [exf_map [113; 49; 48]%N None None (Some [100]%N) None];
     hh_formats := [exf_map [71; 84]%N (Some (HCount 1)) (Some HString) (Some [100]%N) None;
                    exf_map [68; 80]%N (Some (HCount 1)) (Some HInteger) (Some [100]%N) (Some 2%N)];
     hh_alts := []; hh_contigs := [exf_map [99]%N None None None None];
     hh_others := [([115; 114; 99]%N, CU [[120]%N])]; hh_samples := [[115; 48]%N] |}.
Ltac notin := let H := fresh "H" in intros H; cbn in H; repeat (destruct H as [H|H]; [discriminate H|]); destruct H.
Ltac mapok := unfold map_ok, raw_ok, exf_map, hnum_ok, u64_max; cbn -[In N.le];
  repeat split; try discriminate; try exact I; try reflexivity; try notin; try lia;
  try (eexists; eexists; repeat split; try reflexivity; try discriminate; try lia; try (intros _; discriminate));
  try (eexists; reflexivity); try constructor.
Lemma exf_ok : header_ok exf_h.
Proof.
  unfold header_ok, exf_h. cbn [hh_ff hh_infos hh_filters hh_formats hh_alts hh_contigs hh_others hh_samples fst snd].
  split; [reflexivity|]. split; [reflexivity|]. split.
  { intros []; cbn [get_maps hh_infos hh_filters hh_formats hh_alts hh_contigs map]; split.
    all: try (apply NoDup_nil || apply Forall_nil).
    all: match goal with
         | |- NoDup _ => cbn [m_id exf_map]; repeat constructor; notin
         | |- Forall _ _ => repeat (apply Forall_cons || apply Forall_nil)
         end.
    all: mapok.
    }
  split; [|split; [|split]].
  - repeat constructor; unfold group_ok, okey_other; cbn -[In]; repeat split; try discriminate; try reflexivity; try notin.
  - repeat constructor; notin.
  - repeat constructor; notin.
  - repeat constructor; notin.
Qed.
Lemma exf_framed : hdr_vals_framed exf_h.
Proof.
  unfold hdr_vals_framed, exf_h. cbn [hh_ff hh_infos hh_filters hh_formats hh_alts hh_contigs hh_others hh_samples].
  repeat split; repeat constructor; unfold hmap_nolf, nolf, opt_nolf, exf_map; cbn -[In]; repeat split; try notin; try constructor; try reflexivity.
Qed.
Close Scope N_scope.
