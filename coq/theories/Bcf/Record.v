(* BCF record framing: io/writer/record.rs write_record (l_shared, l_indiv, site, samples),
   record/codec/encoder/site.rs write_site (CHROM id, POS-1, rlen, QUAL bits, n_info, n_allele,
   n_fmt<<24|n_sample, ids, alleles, FILTER indices, INFO key+value), encoder/string_map.rs
   write_string_map_index / write_string_map_indices, encoder/samples.rs write_samples (key +
   series); and the reading side io/reader/record_buf.rs read_record_buf (the split),
   record/codec/decoder.rs read_site up to and including FILTER, decoder/string_map.rs
   read_string_map_index / read_string_map_indices, decoder/ids.rs, decoder/bases.rs.
   The INFO values and the per-sample series are the typed values of NV.Bcf.{Typed,Strings,
   Genotype}: here they are byte blocks (already encoded, or the error of their encoder).
   Model: definitions only. *)
From Coq Require Import ZArith NArith List Bool.
From NV Require Import Bcf.Ints Bcf.Typed Bcf.Strings Bcf.StringMap.
Import ListNotations.
Open Scope Z_scope.

Definition semicolon : N := 59%N.

(* ------------------------------------------------------------------ string-map indices *)
(* write_string_map_index: the narrowest of Int8/Int16/Int32 that holds i (i >= 0) *)
Definition enc_index (i : Z) : res (list N) :=
  if i <=? 127 then Ok (desc_byte 1 1 :: enc_int W8 i)
  else if i <=? 32767 then Ok (desc_byte 2 1 :: enc_int W16 i)
  else if i <=? 2147483647 then Ok (desc_byte 3 1 :: enc_int W32 i)
  else ErrInput.

(* write_string_map_indices: none = the typed MISSING byte; one = an index; several = a typed
   vector whose width is chosen from the largest *)
Definition enc_indices (l : list Z) : res (list N) :=
  match l with
  | [] => Ok [0%N]
  | [i] => enc_index i
  | _ =>
    let mx := fold_left Z.max l 0 in
    if 2147483647 <? mx then ErrInput
    else
      let w := if mx <=? 127 then W8 else if mx <=? 32767 then W16 else W32 in
      bind (enc_type (wcode w) (Z.of_nat (length l))) (fun d => Ok (d ++ flat_map (enc_int w) l))
  end.

(* read_string_map_index: exactly one integer Value, not negative; with the rest *)
Definition dec_index (bs : list N) : option (Z * list N) :=
  match read_type bs with
  | Some (code, len, r) =>
    match width_of_code code with
    | Some w =>
      if len =? 1 then
        match take (wbytes w) r with
        | Some (x, r') =>
          match classify w (dec_int w x) with
          | IValue n => if 0 <=? n then Some (n, r') else None
          | _ => None
          end
        | None => None
        end
      else None
    | None => None
    end
  | None => None
  end.

Fixpoint all_nonneg (l : list Z) : bool :=
  match l with [] => true | x :: r => (0 <=? x) && all_nonneg r end.

(* read_string_map_indices *)
Definition dec_indices (bs : list N) : option (list Z * list N) :=
  match read_type bs with
  | Some (code, len, r) =>
    if code =? 0 then Some ([], r)
    else match width_of_code code with
    | Some w =>
      if len =? 0 then None
      else if len =? 1 then
        match take (wbytes w) r with
        | Some (x, r') =>
          match classify w (dec_int w x) with
          | IValue n => if 0 <=? n then Some ([n], r') else None
          | _ => None
          end
        | None => None
        end
      else
        match chunks (znat (S (length r)) len) (wbytes w) r with
        | Some (xs, r') =>
          let l := map (dec_int w) xs in
          if all_nonneg l then Some (l, r') else None
        | None => None
        end
    | None => None
    end
  | None => None
  end.

(* read_value for a typed string, with the rest: None = String(0) *)
Definition dec_str (bs : list N) : option (option str * list N) :=
  match read_type bs with
  | Some (code, len, r) =>
    if code =? 7 then
      if len =? 0 then Some (None, r)
      else match take (znat (S (length r)) len) r with
           | Some (x, r') => if utf8_valid x then Some (Some x, r') else None
           | None => None
           end
    else None
  | None => None
  end.

(* ------------------------------------------------------------------ the site *)
Record site := {
  s_chrom : name;            (* reference sequence name *)
  s_pos : option Z;          (* variant start (1-based) or none = telomere *)
  s_rlen : Z;                (* variant span *)
  s_qual : option Z;         (* f32 bit pattern *)
  s_ids : list str;
  s_ref : str;
  s_alts : list str;
  s_filters : list name;
  s_n_sample : Z;            (* header.sample_names().len() *)
}.

(* a field = its key and the bytes of its typed value / series (or the encoder's error) *)
Definition field := (name * res (list N))%type.

Definition u16 (n : Z) : res (list N) := if n <=? 65535 then Ok (le_bytes 2 n) else ErrInput.
Definition i32_of_usize (n : Z) : res Z := if n <=? 2147483647 then Ok n else ErrInput.

Definition index_of (m : smap) (n : name) : res Z :=
  match get_index_of m n with Some i => Ok (Z.of_nat i) | None => ErrInput end.

Fixpoint map_names (m : smap) (ns : list name) : res (list Z) :=
  match ns with
  | [] => Ok []
  | n :: r => bind (index_of m n) (fun i => bind (map_names m r) (fun l => Ok (i :: l)))
  end.

Fixpoint enc_strs (l : list str) : res (list N) :=
  match l with
  | [] => Ok []
  | s :: r => bind (enc_info_string s) (fun a => bind (enc_strs r) (fun b => Ok (a ++ b)))
  end.

(* key index + value, in order; the first error wins *)
Fixpoint enc_fields (m : smap) (fs : list field) : res (list N) :=
  match fs with
  | [] => Ok []
  | (k, v) :: r =>
    bind (index_of m k) (fun i => bind (enc_index i) (fun kb => bind v (fun vb =>
    bind (enc_fields m r) (fun rest => Ok (kb ++ vb ++ rest)))))
  end.

(* write_site *)
Definition enc_site (strings contigs : smap) (s : site) (infos : list field) (n_fmt : Z) : res (list N) :=
  bind (index_of contigs (s_chrom s)) (fun c => bind (i32_of_usize c) (fun chrom =>
  bind (match s_pos s with Some p => bind (i32_of_usize p) (fun n => Ok (n - 1)) | None => Ok (-1) end) (fun pos =>
  bind (i32_of_usize (s_rlen s)) (fun rlen =>
  let qual := match s_qual s with Some b => b | None => f_missing end in
  bind (u16 (Z.of_nat (length infos))) (fun ninfo =>
  bind (u16 (Z.of_nat (length (s_alts s)) + 1)) (fun nallele =>
  bind (if s_n_sample s <=? 16777215 then Ok tt else ErrInput) (fun _ =>
  bind (if n_fmt <=? 255 then Ok tt else ErrInput) (fun _ =>
  bind (enc_info_string (join semicolon (s_ids s))) (fun ids =>
  bind (enc_strs (s_ref s :: s_alts s)) (fun alleles =>
  bind (map_names strings (s_filters s)) (fun fidx => bind (enc_indices fidx) (fun filters =>
  bind (enc_fields strings infos) (fun info =>
  Ok (enc_int W32 chrom ++ enc_int W32 pos ++ enc_int W32 rlen ++ enc_f32 qual ++ ninfo ++ nallele
      ++ le_bytes 4 (n_fmt * 16777216 + s_n_sample s)
      ++ ids ++ alleles ++ filters ++ info)))))))))))))).

(* write_record: the FORMAT block is written when the record has sample rows *)
Definition u32 (n : Z) : res (list N) := if n <=? 4294967295 then Ok (le_bytes 4 n) else ErrInput.

Definition enc_record (strings contigs : smap) (s : site) (infos fmts : list field) (has_rows : bool)
  : res (list N) :=
  bind (enc_site strings contigs s infos (Z.of_nat (length fmts))) (fun sb =>
  bind (u32 (Z.of_nat (length sb))) (fun l1 =>
  bind (if has_rows then enc_fields strings fmts else Ok []) (fun ib =>
  bind (u32 (Z.of_nat (length ib))) (fun l2 =>
  Ok (l1 ++ l2 ++ sb ++ ib))))).

(* SWITCH for the repair of format-keys-without-sample-rows (fix 11 = e6b6f67, APPLIED at the
   modelled tree; false = the tree before it): write_site counts the FORMAT keys (n_fmt) even when the record has no sample rows and
   therefore no FORMAT block.  After the repair n_fmt is 0 in that case, i.e. the record is written
   as if it had no keys.  [enc_record_w] is write_record as the cases exercise it. *)
Definition fix11_nfmt_zero_without_rows : bool := true.

Definition enc_record_w (strings contigs : smap) (s : site) (infos fmts : list field) (has_rows : bool)
  : res (list N) :=
  enc_record strings contigs s infos
    (if fix11_nfmt_zero_without_rows && negb has_rows then [] else fmts) has_rows.

(* ------------------------------------------------------------------ reading *)
(* read_record_buf: l_shared (0 = end of input), l_indiv, the two blocks *)
Definition dec_frame (bs : list N) : option (list N * list N * list N) :=
  match take 4 bs with
  | Some (a, r1) =>
    if le_val a =? 0 then None
    else match take 4 r1 with
    | Some (b, r2) =>
      match take (znat (S (length r2)) (le_val a)) r2 with
      | Some (sb, r3) =>
        match take (znat (S (length r3)) (le_val b)) r3 with
        | Some (ib, r4) => Some (sb, ib, r4)
        | None => None
        end
      | None => None
      end
    | None => None
    end
  | None => None
  end.

(* what read_site has decoded when it reaches the INFO fields *)
Record head := {
  h_chrom : name;
  h_pos : option Z;
  h_qual : option Z;
  h_ids : list str;
  h_ref : str;
  h_alts : list str;
  h_filters : list name;
  h_n_info : Z;
  h_n_fmt : Z;
  h_n_sample : Z;
}.

Fixpoint dec_alleles (n : nat) (bs : list N) : option (list str * list N) :=
  match n with
  | O => Some ([], bs)
  | S n' =>
    match dec_str bs with
    | Some (o, r) =>
      match dec_alleles n' r with
      | Some (l, r') => Some ((match o with Some s => s | None => [dot] end) :: l, r')
      | None => None
      end
    | None => None
    end
  end.

Fixpoint resolve_all (m : smap) (l : list Z) : option (list name) :=
  match l with
  | [] => Some []
  | i :: r =>
    match get_index m (znat (length (entries m)) i), resolve_all m r with
    | Some n, Some ns => Some (n :: ns)
    | _, _ => None
    end
  end.

(* read_site up to and including FILTER; None = any error (n_allele = 0: "missing reference
   bases"); returns the INFO bytes *)
Definition dec_head (strings contigs : smap) (bs : list N) : option (head * list N) :=
  match chunks 4 4 bs with
  | Some ([c; p; l; q], r0) =>
    let chrom := dec_int W32 c in
    let pos := dec_int W32 p in
    if (chrom <? 0) || (pos <? -1) || (dec_int W32 l <? 0) then None
    else match get_index contigs (znat (length (entries contigs)) chrom) with
    | None => None
    | Some cname =>
      match classify_f (le_val q) with
      | FEov | FReserved _ => None
      | fq =>
        match take 2 r0 with
        | Some (ni, r1) =>
          match take 2 r1 with
          | Some (na, r2) =>
            match take 4 r2 with
            | Some (fs, r3) =>
              match dec_str r3 with
              | Some (ids, r4) =>
                if le_val na =? 0 then None
                else match dec_alleles (Z.to_nat (le_val na)) r4 with
                | Some (ra :: alts, r5) =>
                  match dec_indices r5 with
                  | Some (fi, r6) =>
                    match resolve_all strings fi with
                    | Some fnames =>
                      Some ({| h_chrom := cname;
                               h_pos := if pos =? -1 then None else Some (pos + 1);
                               h_qual := match fq with FValue b => Some b | _ => None end;
                               h_ids := match ids with Some s => split_on semicolon s | None => [] end;
                               h_ref := ra; h_alts := alts; h_filters := fnames;
                               h_n_info := le_val ni;
                               h_n_fmt := le_val fs / 16777216;
                               h_n_sample := le_val fs mod 16777216 |}, r6)
                    | None => None
                    end
                  | None => None
                  end
                | _ => None
                end
              | None => None
              end
            | None => None
            end
          | None => None
          end
        | None => None
        end
      end
    end
  | _ => None
  end.

(* ------------------------------------------------------------------ the INFO / FORMAT blocks *)
(* what decoder/value.rs read_value (mult = 1) and decoder/samples/values.rs read_values /
   read_genotype_values (mult = sample count) consume: the descriptor, then len entries of the
   type's width per sample *)
Definition value_payload (cap : nat) (code len : Z) : option nat :=
  if code =? 0 then Some 0%nat
  else if code =? 1 then Some (znat cap len)
  else if code =? 2 then Some (2 * znat cap len)%nat
  else if (code =? 3) || (code =? 5) then Some (4 * znat cap len)%nat
  else if code =? 7 then Some (znat cap len)
  else None.

(* the typed value at the head of bs (descriptor + payload) and what follows it.  series = true:
   a per-sample series, whose descriptor may not be the MISSING type (TypeMismatch) nor a
   zero-length Int/Float (InvalidLength) *)
Definition split_typed (series : bool) (mult : nat) (bs : list N) : option (list N * list N) :=
  match read_type bs with
  | Some (code, len, r) =>
    if series && ((code =? 0) || ((len =? 0) && negb (code =? 7))) then None
    else match value_payload (S (length r)) code len with
    | Some k =>
      match take (mult * k) r with
      | Some (_, r') => take (length bs - length r') bs
      | None => None
      end
    | None => None
    end
  | None => None
  end.

Fixpoint has_key (k : name) (l : list (name * list N)) : bool :=
  match l with [] => false | (k', _) :: r => name_eqb k k' || has_key k r end.

(* decoder/info.rs read_info (dup = true: a repeated key is DuplicateKey) and
   decoder/samples.rs read_samples (dup = false): n fields, each a key index resolved through
   the dictionary and a typed value / series; the values are returned as byte blocks *)
Fixpoint dec_fields (m : smap) (mult : nat) (dup : bool) (n : nat) (bs : list N)
  : option (list (name * list N) * list N) :=
  match n with
  | O => Some ([], bs)
  | S n' =>
    match dec_index bs with
    | Some (i, r) =>
      match get_index m (znat (length (entries m)) i) with
      | Some k =>
        match split_typed (negb dup) mult r with
        | Some (vb, r') =>
          match dec_fields m mult dup n' r' with
          | Some (l, r'') => if dup && has_key k l then None else Some ((k, vb) :: l, r'')
          | None => None
          end
        | None => None
        end
      | None => None
      end
    | None => None
    end
  end.

(* read_samples reads the series of the key GT with read_genotype_values, which has no
   InvalidLength check: a zero-length Int8 descriptor is accepted there (one missing value).
   [dec_fields_k] is [dec_fields] with that exemption; it accepts everything [dec_fields] accepts,
   with the same result (BlockProofs.dec_fields_k_of_dec_fields). *)
Definition key_GT : name := [71; 84]%N.

Fixpoint dec_fields_k (m : smap) (mult : nat) (dup : bool) (n : nat) (bs : list N)
  : option (list (name * list N) * list N) :=
  match n with
  | O => Some ([], bs)
  | S n' =>
    match dec_index bs with
    | Some (i, r) =>
      match get_index m (znat (length (entries m)) i) with
      | Some k =>
        match split_typed (negb dup && negb (name_eqb k key_GT)) mult r with
        | Some (vb, r') =>
          match dec_fields_k m mult dup n' r' with
          | Some (l, r'') => if dup && has_key k l then None else Some ((k, vb) :: l, r'')
          | None => None
          end
        | None => None
        end
      | None => None
      end
    | None => None
    end
  end.

(* read_record_buf as a whole: the split, the site head, the INFO block, the FORMAT block *)
Definition dec_record_k (strings contigs : smap) (hdr_samples : Z) (bs : list N)
  : option (head * list (name * list N) * list (name * list N) * list N) :=
  match dec_frame bs with
  | Some (sb, ib, rest) =>
    match dec_head strings contigs sb with
    | Some (h, info_bytes) =>
      if hdr_samples <? h_n_sample h then None else
      match dec_fields_k strings 1 true (Z.to_nat (h_n_info h)) info_bytes with
      | Some (infos, _) =>
        match dec_fields_k strings (Z.to_nat (h_n_sample h)) false (Z.to_nat (h_n_fmt h)) ib with
        | Some (fmts, _) => Some (h, infos, fmts, rest)
        | None => None
        end
      | None => None
      end
    | None => None
    end
  | None => None
  end.

(* the same without the GT exemption (kept for the theorems stated about it: c10_record_roundtrip,
   C15's dec_record_bounded) *)
Definition dec_record (strings contigs : smap) (hdr_samples : Z) (bs : list N)
  : option (head * list (name * list N) * list (name * list N) * list N) :=
  match dec_frame bs with
  | Some (sb, ib, rest) =>
    match dec_head strings contigs sb with
    | Some (h, info_bytes) =>
      (* read_samples: n_sample may not exceed the header's sample count (InvalidSampleCount) *)
      if hdr_samples <? h_n_sample h then None else
      match dec_fields strings 1 true (Z.to_nat (h_n_info h)) info_bytes with
      | Some (infos, _) =>
        match dec_fields strings (Z.to_nat (h_n_sample h)) false (Z.to_nat (h_n_fmt h)) ib with
        | Some (fmts, _) => Some (h, infos, fmts, rest)
        | None => None
        end
      | None => None
      end
    | None => None
    end
  | None => None
  end.
