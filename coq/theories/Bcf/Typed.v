(* BCF typed values: descriptor byte (encoder/value/ty.rs, decoder/value/ty.rs), INFO values
   (encoder/site/info/field/value.rs, decoder/value.rs + decoder/info/field/value.rs) and
   per-sample FORMAT series (encoder/samples/values.rs, decoder/samples/values.rs) for Integer and
   Float.  Model: definitions only.  Floats are their 32-bit patterns (Z in 0..2^32-1). *)
From Coq Require Import ZArith NArith List Bool.
From NV Require Import Bcf.Ints.
Import ListNotations.
Open Scope Z_scope.

(* ------------------------------------------------------------------ descriptor *)
Definition desc_byte (code len : Z) : N := Z.to_N (Z.min len 15 * 16 + code).

(* write_type: len<<4|code, then the length as a typed Int8/Int16/Int32 scalar when len >= 15 *)
Definition enc_type (code len : Z) : res (list N) :=
  if len <? 15 then Ok [desc_byte code len]
  else if len <=? 127 then Ok (desc_byte code 15 :: desc_byte 1 1 :: enc_int W8 len)
  else if len <=? 32767 then Ok (desc_byte code 15 :: desc_byte 2 1 :: enc_int W16 len)
  else if len <=? 2147483647 then Ok (desc_byte code 15 :: desc_byte 3 1 :: enc_int W32 len)
  else ErrInput.

Definition width_of_code (c : Z) : option width :=
  if c =? 1 then Some W8 else if c =? 2 then Some W16 else if c =? 3 then Some W32 else None.

Definition valid_code (c : Z) : bool :=
  (c =? 0) || (c =? 1) || (c =? 2) || (c =? 3) || (c =? 5) || (c =? 7).

(* read_type; None = any DecodeError.  The overflow length is itself read with read_value, which
   starts with read_type; since fix ea50dd5 the inner descriptor may not carry an overflow length
   itself, so the recursion is one level deep (the fuel is kept for the structural recursion). *)
Fixpoint dec_type (fuel : nat) (bs : list N) : option (Z * Z * list N) :=
  match fuel with
  | O => None
  | S f =>
    match bs with
    | [] => None
    | b :: r =>
      let code := Z.of_N b mod 16 in
      let l := Z.of_N b / 16 in
      if l =? 15 then
        (* the length is a typed integer scalar; its own descriptor must not ask for another
           length value (InvalidLengthValue, fix ea50dd5) *)
        if (match r with b2 :: _ => Z.of_N b2 / 16 =? 15 | [] => false end) then None else
        match dec_type f r with
        | Some (c, l2, r2) =>
          match width_of_code c with
          | Some w =>
            if l2 =? 1 then
              match take (wbytes w) r2 with
              | Some (x, r3) =>
                match classify w (dec_int w x) with
                | IValue n => if (0 <=? n) && valid_code code then Some (code, n, r3) else None
                | _ => None
                end
              | None => None
              end
            else None
          | None => None
          end
        | None => None
        end
      else if valid_code code then Some (code, l, r) else None
    end
  end.

Definition read_type (bs : list N) : option (Z * Z * list N) := dec_type (S (length bs)) bs.

(* ------------------------------------------------------------------ floats *)
Inductive fval := FValue (b : Z) | FMissing | FEov | FReserved (b : Z).

Definition f_missing : Z := 2139095041.   (* 0x7f800001 *)
Definition f_eov : Z := 2139095042.       (* 0x7f800002 *)

Definition classify_f (b : Z) : fval :=
  if b =? f_missing then FMissing
  else if b =? f_eov then FEov
  else if (2139095043 <=? b) && (b <=? 2139095047) then FReserved b
  else FValue b.

Definition enc_f32 (b : Z) : list N := le_bytes 4 b.

(* ------------------------------------------------------------------ what is read back *)
Inductive rvalue :=
| RNone
| RInt (n : Z)
| RInts (l : list (option Z))
| RFloat (b : Z)
| RFloats (l : list (option Z)).

(* read back: Ok | Err (any error kind) | panic (no decoder of the repaired tree reaches it:
   NeverPanics.v) *)
Inductive rres (A : Type) := ROk (a : A) | RErr | RPanic.
Arguments ROk {A} a. Arguments RErr {A}. Arguments RPanic {A}.

Definition rbind {A B} (r : rres A) (f : A -> rres B) : rres B :=
  match r with ROk a => f a | RErr => RErr | RPanic => RPanic end.

Fixpoint map_rres {A B} (f : A -> rres B) (l : list A) : rres (list B) :=
  match l with
  | [] => ROk []
  | x :: r => rbind (f x) (fun y => rbind (map_rres f r) (fun ys => ROk (y :: ys)))
  end.

(* split a stream into n entries of k bytes *)
Fixpoint chunks (n k : nat) (bs : list N) : option (list (list N) * list N) :=
  match n with
  | O => Some ([], bs)
  | S n' =>
    match take k bs with
    | Some (x, r) =>
      match chunks n' k r with Some (xs, r') => Some (x :: xs, r') | None => None end
    | None => None
    end
  end.

(* ------------------------------------------------------------------ INFO Integer *)
(* write_integer_value *)
Definition enc_info_int (n : Z) : res (list N) :=
  match select_scalar n with
  | Some w => Ok (desc_byte (wcode w) 1 :: enc_int w n)
  | None => ErrInput
  end.

(* one entry of write_int{8,16,32}_array_value *)
Definition info_entry (w : width) (v : option Z) : res Z :=
  match v with
  | None => Ok (wmin w)
  | Some n =>
    if in_range w n then
      match classify w n with
      | IValue m => Ok m
      | IMissing => Ok (wmin w)
      | _ => Panic                                   (* todo!("unhandled ... array value") *)
      end
    else ErrInput                                    (* iN::try_from *)
  end.

(* write_integer_array_value *)
Definition enc_info_ints (vs : list (option Z)) : res (list N) :=
  match vs with
  | [] => ErrInput
  | _ =>
    let mm := scan scan_init vs in
    match select_minmax (fst mm) (snd mm) with
    | None => ErrInput
    | Some w =>
      bind (map_res (info_entry w) vs) (fun raws =>
      bind (enc_type (wcode w) (Z.of_nat (length raws))) (fun d =>
      Ok (d ++ flat_map (enc_int w) raws)))
    end
  end.

(* read_value + resolve_integer_value (Number=1) / resolve_integer_array_value *)
Definition int_entry (w : width) (x : list N) : rres (option Z) :=
  match classify w (dec_int w x) with
  | IValue n => ROk (Some n)
  | IMissing => ROk None
  | _ => RErr                                        (* InvalidArrayValue *)
  end.

Definition dec_info_int_gen (array : bool) (bs : list N) : rres rvalue :=
  match read_type bs with
  | None => RErr
  | Some (code, len, r) =>
    if code =? 0 then ROk RNone
    else match width_of_code code with
    | None => RErr                                   (* type mismatch *)
    | Some w =>
      if len =? 0 then ROk RNone
      else if len =? 1 then
        match take (wbytes w) r with
        | None => RErr
        | Some (x, _) =>
          match classify w (dec_int w x) with
          | IMissing => ROk RNone
          | IValue n => ROk (if array then RInts [Some n] else RInt n)
          | _ => RErr                                (* type mismatch *)
          end
        end
      else if array then
        match chunks (znat (S (length r)) len) (wbytes w) r with
        | None => RErr
        | Some (xs, _) => rbind (map_rres (int_entry w) xs) (fun l => ROk (RInts l))
        end
      else RErr
    end
  end.

Definition dec_info_int := dec_info_int_gen false.
Definition dec_info_ints := dec_info_int_gen true.

(* ------------------------------------------------------------------ INFO missing value *)
(* write_value(None): the typed MISSING value, whatever the field's type *)
Definition enc_info_missing : res (list N) := Ok [0%N].

(* ------------------------------------------------------------------ INFO Float *)
Definition enc_info_float (b : Z) : res (list N) := Ok (desc_byte 5 1 :: enc_f32 b).

Definition info_fentry (v : option Z) : res Z :=
  match v with
  | None => Ok f_missing
  | Some b =>
    match classify_f b with
    | FValue c => Ok c
    | FMissing => Ok f_missing
    | _ => ErrInput                                  (* "invalid info field float array value" *)
    end
  end.

Definition enc_info_floats (vs : list (option Z)) : res (list N) :=
  bind (map_res info_fentry vs) (fun raws =>
  bind (enc_type 5 (Z.of_nat (length raws))) (fun d =>
  Ok (d ++ flat_map enc_f32 raws))).

Definition float_entry (x : list N) : rres (option Z) :=
  match classify_f (le_val x) with
  | FValue b => ROk (Some b)
  | FMissing => ROk None
  | _ => RErr                                        (* InvalidArrayValue *)
  end.

Definition dec_info_float_gen (array : bool) (bs : list N) : rres rvalue :=
  match read_type bs with
  | None => RErr
  | Some (code, len, r) =>
    if code =? 0 then ROk RNone
    else if code =? 5 then
      if len =? 0 then ROk RNone
      else if len =? 1 then
        match take 4 r with
        | None => RErr
        | Some (x, _) =>
          match classify_f (le_val x) with
          | FMissing => ROk RNone
          | FValue b => ROk (if array then RFloats [Some b] else RFloat b)
          | _ => RErr
          end
        end
      else if array then
        match chunks (znat (S (length r)) len) 4 r with
        | None => RErr
        | Some (xs, _) => rbind (map_rres float_entry xs) (fun l => ROk (RFloats l))
        end
      else RErr
    else RErr
  end.

Definition dec_info_float := dec_info_float_gen false.
Definition dec_info_floats := dec_info_float_gen true.

(* ------------------------------------------------------------------ UTF-8 *)
(* str::from_utf8: well-formed UTF-8 (no overlong forms, no surrogates, nothing above U+10FFFF) *)
Definition cont (b : N) : bool := ((128 <=? b) && (b <=? 191))%N.

Fixpoint utf8_valid (s : list N) : bool :=
  match s with
  | [] => true
  | b :: r =>
    if (b <? 128)%N then utf8_valid r
    else if ((194 <=? b) && (b <=? 223))%N then
      match r with c1 :: r1 => cont c1 && utf8_valid r1 | _ => false end
    else if (b =? 224)%N then
      match r with c1 :: c2 :: r2 => ((160 <=? c1) && (c1 <=? 191))%N && cont c2 && utf8_valid r2 | _ => false end
    else if (((225 <=? b) && (b <=? 236)) || ((238 <=? b) && (b <=? 239)))%N then
      match r with c1 :: c2 :: r2 => cont c1 && cont c2 && utf8_valid r2 | _ => false end
    else if (b =? 237)%N then
      match r with c1 :: c2 :: r2 => ((128 <=? c1) && (c1 <=? 159))%N && cont c2 && utf8_valid r2 | _ => false end
    else if (b =? 240)%N then
      match r with c1 :: c2 :: c3 :: r3 => ((144 <=? c1) && (c1 <=? 191))%N && cont c2 && cont c3 && utf8_valid r3 | _ => false end
    else if ((241 <=? b) && (b <=? 243))%N then
      match r with c1 :: c2 :: c3 :: r3 => cont c1 && cont c2 && cont c3 && utf8_valid r3 | _ => false end
    else if (b =? 244)%N then
      match r with c1 :: c2 :: c3 :: r3 => ((128 <=? c1) && (c1 <=? 143))%N && cont c2 && cont c3 && utf8_valid r3 | _ => false end
    else false
  end.

(* ------------------------------------------------------------------ INFO String (bytes) *)
Definition enc_info_string (s : list N) : res (list N) :=
  bind (enc_type 7 (Z.of_nat (length s))) (fun d => Ok (d ++ s)).

(* read back: None when the length is 0, else the bytes, which must be UTF-8 *)
Definition dec_info_string (bs : list N) : rres (option (list N)) :=
  match read_type bs with
  | None => RErr
  | Some (code, len, r) =>
    if code =? 0 then ROk None
    else if code =? 7 then
      if len =? 0 then ROk None
      else match take (znat (S (length r)) len) r with
           | Some (x, _) => if utf8_valid x then ROk (Some x) else RErr      (* InvalidString *)
           | None => RErr
           end
    else RErr
  end.

(* ------------------------------------------------------------------ FORMAT Integer, Number=1 *)
Definition opt_scalar (v : option Z) : option Z := v.

(* write_integer_values *)
Definition enc_fmt_int (vals : list (option Z)) : res (list N) :=
  let mm := scan scan_init vals in
  match select_minmax (fst mm) (snd mm) with
  | None => ErrInput
  | Some w =>
    Ok (desc_byte (wcode w) 1 ::
        flat_map (fun v => enc_int w (match v with Some n => n | None => wmin w end)) vals)
  end.

(* ------------------------------------------------------------------ FORMAT Integer vectors *)
Definition sample := option (list (option Z)).

(* the number of entries a sample occupies: a missing sample is written as one missing entry *)
Definition sample_len (s : sample) : nat := match s with Some vs => length vs | None => 1%nat end.

(* write_float_array_values computes its common length from the present vectors only *)
Definition fsample_len (s : sample) : nat := match s with Some vs => length vs | None => 0%nat end.
Definition fmax_len (vals : list sample) : nat := fold_left (fun m s => Nat.max m (fsample_len s)) vals 0%nat.

Definition max_len (vals : list sample) : nat := fold_left (fun m s => Nat.max m (sample_len s)) vals 0%nat.

Definition scan_sample (acc : Z * Z) (s : sample) : Z * Z :=
  match s with Some vs => scan acc vs | None => acc end.

Definition scan_samples (vals : list sample) : Z * Z := fold_left scan_sample vals scan_init.

(* the raw entries of one sample, padded with EndOfVector up to m; a missing sample is one
   Missing entry ("len = 1") *)
Definition sample_raws (w : width) (m : nat) (s : sample) : list Z :=
  match s with
  | Some vs =>
    map (fun v => match v with Some n => n | None => wmin w end) vs
      ++ repeat (wmin w + 1) (m - length vs)
  | None => wmin w :: repeat (wmin w + 1) (m - 1)
  end.

(* write_integer_array_values *)
Definition enc_fmt_ints (vals : list sample) : res (list N) :=
  let m := max_len vals in
  let mm := scan_samples vals in
  match select_minmax (fst mm) (snd mm) with
  | None => ErrInput
  | Some w =>
    bind (enc_type (wcode w) (Z.of_nat m)) (fun d =>
    Ok (d ++ flat_map (fun s => flat_map (enc_int w) (sample_raws w m s)) vals))
  end.

(* one sample of read_i{8,16,32}_array_values: EndOfVector entries are dropped (filter_map),
   reserved codes are InvalidValue, and a lone missing entry is the missing value *)
Fixpoint sample_entries (w : width) (xs : list (list N)) : rres (list (option Z)) :=
  match xs with
  | [] => ROk []
  | x :: r =>
    match classify w (dec_int w x) with
    | IValue n => rbind (sample_entries w r) (fun l => ROk (Some n :: l))
    | IMissing => rbind (sample_entries w r) (fun l => ROk (None :: l))
    | IEov => sample_entries w r
    | IReserved _ => RErr                             (* InvalidValue *)
    end
  end.

Definition norm_sample (vs : list (option Z)) : sample :=
  match vs with [None] => None | _ => Some vs end.

Fixpoint dec_samples (w : width) (ns len : nat) (bs : list N) : rres (list sample) :=
  match ns with
  | O => ROk []
  | S ns' =>
    match chunks len (wbytes w) bs with
    | None => RErr
    | Some (xs, r) =>
      rbind (sample_entries w xs) (fun vs =>
      rbind (dec_samples w ns' len r) (fun rest => ROk (norm_sample vs :: rest)))
    end
  end.

(* one scalar per sample (read_i{8,16,32}_values) *)
Fixpoint dec_scalars (w : width) (ns : nat) (bs : list N) : rres (list (option Z)) :=
  match ns with
  | O => ROk []
  | S ns' =>
    match take (wbytes w) bs with
    | None => RErr
    | Some (x, r) =>
      match classify w (dec_int w x) with
      | IValue n => rbind (dec_scalars w ns' r) (fun l => ROk (Some n :: l))
      | IMissing => rbind (dec_scalars w ns' r) (fun l => ROk (None :: l))
      | _ => RErr                                     (* InvalidValue *)
      end
    end
  end.

Inductive fmt_back := BScalars (l : list (option Z)) | BVectors (l : list sample).

(* decoder/samples/values.rs read_values for Type=Integer; scalar = (Number = 1) *)
Definition dec_fmt_int_gen (scalar : bool) (ns : nat) (bs : list N) : rres fmt_back :=
  match read_type bs with
  | None => RErr
  | Some (code, len, r) =>
    if code =? 0 then RErr                            (* TypeMismatch *)
    else if (len =? 0) && negb (code =? 7) then RErr  (* InvalidLength *)
    else match width_of_code code with
    | None => RErr                                    (* TypeMismatch *)
    | Some w =>
      if scalar && (len =? 1) then rbind (dec_scalars w ns r) (fun l => ROk (BScalars l))
      else rbind (dec_samples w ns (znat (S (length r)) len) r) (fun l => ROk (BVectors l))
    end
  end.

Definition dec_fmt_int := dec_fmt_int_gen true.
Definition dec_fmt_ints := dec_fmt_int_gen false.

(* ------------------------------------------------------------------ FORMAT Float *)
(* validate_float: end-of-vector and reserved patterns are rejected *)
Definition validate_float (b : Z) : res Z :=
  match classify_f b with FEov | FReserved _ => ErrInput | _ => Ok b end.

Definition fentry (v : option Z) : res Z :=
  match v with Some b => validate_float b | None => Ok f_missing end.

(* write_float_values *)
Definition enc_fmt_float (vals : list (option Z)) : res (list N) :=
  bind (map_res fentry vals) (fun raws => Ok (desc_byte 5 1 :: flat_map enc_f32 raws)).

Definition fsample_raws (m : nat) (s : sample) : res (list Z) :=
  match s with
  | Some vs => bind (map_res fentry vs) (fun raws => Ok (raws ++ repeat f_eov (m - length vs)))
  | None => Ok (f_missing :: repeat f_eov (m - 1))
  end.

Definition has_vector (vals : list sample) : bool := existsb (fun s => match s with Some _ => true | None => false end) vals.

(* write_float_array_values *)
Definition enc_fmt_floats (vals : list sample) : res (list N) :=
  if has_vector vals then
    let m := fmax_len vals in
    bind (enc_type 5 (Z.of_nat m)) (fun d =>
    bind (map_res (fsample_raws m) vals) (fun rl =>
    Ok (d ++ flat_map (flat_map enc_f32) rl)))
  else ErrInput.

Fixpoint fsample_entries (xs : list (list N)) : rres (list (option Z)) :=
  match xs with
  | [] => ROk []
  | x :: r =>
    match classify_f (le_val x) with
    | FValue b => rbind (fsample_entries r) (fun l => ROk (Some b :: l))
    | FMissing => rbind (fsample_entries r) (fun l => ROk (None :: l))
    | FEov => fsample_entries r
    | FReserved _ => RErr
    end
  end.

Fixpoint dec_fsamples (ns len : nat) (bs : list N) : rres (list sample) :=
  match ns with
  | O => ROk []
  | S ns' =>
    match chunks len 4 bs with
    | None => RErr
    | Some (xs, r) =>
      rbind (fsample_entries xs) (fun vs =>
      rbind (dec_fsamples ns' len r) (fun rest => ROk (norm_sample vs :: rest)))
    end
  end.

Fixpoint dec_fscalars (ns : nat) (bs : list N) : rres (list (option Z)) :=
  match ns with
  | O => ROk []
  | S ns' =>
    match take 4 bs with
    | None => RErr
    | Some (x, r) =>
      match classify_f (le_val x) with
      | FValue b => rbind (dec_fscalars ns' r) (fun l => ROk (Some b :: l))
      | FMissing => rbind (dec_fscalars ns' r) (fun l => ROk (None :: l))
      | _ => RErr
      end
    end
  end.

Definition dec_fmt_float_gen (scalar : bool) (ns : nat) (bs : list N) : rres fmt_back :=
  match read_type bs with
  | None => RErr
  | Some (code, len, r) =>
    if code =? 0 then RErr
    else if (len =? 0) && negb (code =? 7) then RErr
    else if code =? 5 then
      if scalar && (len =? 1) then rbind (dec_fscalars ns r) (fun l => ROk (BScalars l))
      else rbind (dec_fsamples ns (znat (S (length r)) len) r) (fun l => ROk (BVectors l))
    else RErr
  end.

Definition dec_fmt_float := dec_fmt_float_gen true.
Definition dec_fmt_floats := dec_fmt_float_gen false.
