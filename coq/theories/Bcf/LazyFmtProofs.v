(* Proofs about NV.Bcf.Lazy, part 4: LAZY = EAGER on one FORMAT series.  The eager reader decodes a
   series sample after sample from a moving slice; the lazy Series::get(i) cuts the i-th cell out of the
   series' bytes with `range(i, len)`.  [column_by_cells] turns the indexed access into a map over the
   cells; the per-kind lemmas then compare one cell. *)
From Coq Require Import ZArith NArith List Bool Lia ZifyBool ZifyNat ZifyN.
From NV Require Import Bcf.Ints Bcf.IntsProofs Bcf.Typed Bcf.Strings Bcf.StringsProofs Bcf.Genotype Bcf.StringMap
  Bcf.StringMapProofs Bcf.Record Bcf.RecordTyped Bcf.NeverPanics Bcf.Lazy Bcf.LazyProofs Bcf.LazySiteProofs
  Bcf.LazyInfoProofs.
Import ListNotations.
Open Scope Z_scope.

(* ---------------------------------------------------------------- indexed access = the cells in order *)
Lemma cells_by_index : forall ns k pay cells r, chunks ns k pay = Some (cells, r) ->
  forall i, (i < ns)%nat -> lz_get (i * k) k pay = Some (nth i cells []).
Proof.
  induction ns as [|ns IH]; intros k pay cells r H i Hi; [lia|].
  cbn [chunks] in H. destruct (take k pay) as [[x r1]|] eqn:Et; [|discriminate].
  destruct (chunks ns k r1) as [[xs r2]|] eqn:Ec; [|discriminate]. injection H as Hc Hr. subst cells r2.
  apply lz_take_len in Et. destruct Et as [Hp Hx].
  destruct i as [|i].
  - cbn [Nat.mul nth]. unfold lz_get. cbn [Nat.add skipn].
    assert (length pay = (length x + length r1)%nat) as Hl by (rewrite Hp; apply app_length).
    destruct (k <=? length pay)%nat eqn:E; [|apply Nat.leb_gt in E; lia].
    rewrite Hp. rewrite <- Hx. rewrite firstn_app_len. reflexivity.
  - cbn [nth]. assert (i < ns)%nat as Hi' by lia. specialize (IH k r1 xs r Ec i Hi').
    unfold lz_get in *.
    assert (length pay = (k + length r1)%nat) as Hl by (rewrite Hp, app_length; lia).
    replace (S i * k)%nat with (k + i * k)%nat by lia.
    destruct (i * k + k <=? length r1)%nat eqn:E; [|discriminate].
    apply Nat.leb_le in E.
    destruct (k + i * k + k <=? length pay)%nat eqn:E2; [|apply Nat.leb_gt in E2; lia].
    rewrite <- IH. f_equal. f_equal. rewrite <- skipn_skipn_add. rewrite Hp. rewrite <- Hx. rewrite skipn_app_len. reflexivity.
Qed.

Lemma map_rres_ext_in : forall {A B} (f g : A -> rres B) l, (forall x, In x l -> f x = g x) -> map_rres f l = map_rres g l.
Proof.
  intros A B f g. induction l as [|x l IH]; intros H; [reflexivity|].
  cbn [map_rres]. rewrite (H x) by (left; reflexivity). rewrite IH by (intros y Hy; apply H; right; exact Hy). reflexivity.
Qed.

Lemma map_rres_seq_nth : forall {B} (F : list N -> rres B) cells s,
  map_rres (fun i => F (nth (i - s) cells [])) (seq s (length cells)) = map_rres F cells.
Proof.
  intros B F. induction cells as [|x cells IH]; intros s; [reflexivity|].
  cbn [length seq map_rres]. replace (s - s)%nat with 0%nat by lia. change (nth 0 (x :: cells) []) with x.
  rewrite <- (IH (S s)).
  assert (map_rres (fun i => F (nth (i - s) (x :: cells) [])) (seq (S s) (length cells))
          = map_rres (fun i => F (nth (i - S s) cells [])) (seq (S s) (length cells))) as E.
  { apply map_rres_ext_in. intros i Hi. apply in_seq in Hi.
    replace (i - s)%nat with (S (i - S s)) by lia. reflexivity. }
  rewrite E. reflexivity.
Qed.

(* the values of a series obtained by index = one function applied to every cell *)
Lemma column_by_cells : forall {B} (G : nat -> rres B) (F : list N -> rres B) ns k pay cells r,
  chunks ns k pay = Some (cells, r) ->
  (forall i, (i < ns)%nat -> G i = match lz_get (i * k) k pay with Some x => F x | None => RErr end) ->
  map_rres G (seq 0 ns) = map_rres F cells.
Proof.
  intros B G F ns k pay cells r Hc HG.
  pose proof (chunks_concat _ _ _ _ _ Hc) as [_ [Hlen _]].
  rewrite <- (map_rres_seq_nth F cells 0). rewrite Hlen.
  apply map_rres_ext_in. intros i Hi. apply in_seq in Hi.
  rewrite HG by lia. rewrite (cells_by_index _ _ _ _ _ Hc) by lia. replace (i - 0)%nat with i by lia. reflexivity.
Qed.

Lemma map_rres_ok_map : forall {A B} (f : A -> rres B) (g : A -> B) l,
  (forall x, In x l -> f x = ROk (g x)) -> map_rres f l = ROk (map g l).
Proof.
  intros A B f g. induction l as [|x l IH]; intros H; [reflexivity|].
  cbn [map_rres map]. rewrite (H x) by (left; reflexivity). cbn [rbind].
  rewrite IH by (intros y Hy; apply H; right; exact Hy). reflexivity.
Qed.

(* ---------------------------------------------------------------- chunks of chunks *)
Lemma chunks_app : forall n k xs r, length xs = n -> Forall (fun x => length x = k) xs ->
  chunks n k (concat xs ++ r) = Some (xs, r).
Proof.
  induction n as [|n IH]; intros k xs r Hl Hall.
  - destruct xs; [reflexivity|discriminate].
  - destruct xs as [|x xs]; [discriminate|]. inversion Hall as [|? ? Hx Hxs]. subst.
    cbn [chunks concat]. rewrite <- app_assoc. rewrite lz_take_app by reflexivity.
    rewrite IH by (try assumption; cbn [length] in Hl; lia). reflexivity.
Qed.

Lemma concat_length_k : forall k (xs : list (list N)), Forall (fun x => length x = k) xs ->
  length (concat xs) = (k * length xs)%nat.
Proof.
  intros k xs H. induction H as [|x xs Hx Hxs IH]; [cbn; lia|].
  cbn [concat length]. rewrite app_length, IH, Hx. lia.
Qed.

(* one sample's entries as one cell of k*l bytes *)
Lemma chunks_cell : forall l k bs xs r, chunks l k bs = Some (xs, r) ->
  take (k * l) bs = Some (concat xs, r) /\ chunks l k (concat xs) = Some (xs, []).
Proof.
  intros l k bs xs r H. destruct (chunks_concat _ _ _ _ _ H) as [Hb [Hl Hall]].
  split.
  - rewrite Hb. apply lz_take_app. rewrite (concat_length_k k xs Hall). rewrite Hl. reflexivity.
  - rewrite <- (app_nil_r (concat xs)). apply chunks_app; assumption.
Qed.

(* ---------------------------------------------------------------- Integer / Float series *)
Lemma int_scalars_cells : forall w ns pay l, dec_scalars w ns pay = ROk l ->
  exists cells r, chunks ns (wbytes w) pay = Some (cells, r) /\ map_rres (lz_int_scalar w) cells = ROk (map CI l).
Proof.
  intros w. induction ns as [|ns IH]; intros pay l H; cbn [dec_scalars] in H.
  - injection H as Hl. subst l. exists [], pay. split; reflexivity.
  - destruct (take (wbytes w) pay) as [[x r1]|] eqn:Et; [|discriminate].
    destruct (classify w (dec_int w x)) as [n| | |] eqn:Ec; try discriminate;
      (destruct (dec_scalars w ns r1) as [l1| |] eqn:Ed; try discriminate; cbn [rbind] in H; injection H as Hl; subst l;
       destruct (IH r1 l1 Ed) as [cells [r [Hc Hm]]]; exists (x :: cells), r; cbn [chunks]; rewrite Et, Hc;
       split; [reflexivity|]; cbn [map_rres map]; unfold lz_int_scalar at 1; rewrite Ec; cbn [rbind]; rewrite Hm; reflexivity).
Qed.

Lemma float_scalars_cells : forall ns pay l, dec_fscalars ns pay = ROk l ->
  exists cells r, chunks ns 4 pay = Some (cells, r) /\ map_rres lz_float_scalar cells = ROk (map CF l).
Proof.
  induction ns as [|ns IH]; intros pay l H; cbn [dec_fscalars] in H.
  - injection H as Hl. subst l. exists [], pay. split; reflexivity.
  - destruct (take 4 pay) as [[x r1]|] eqn:Et; [|discriminate].
    destruct (classify_f (le_val x)) as [n| | |] eqn:Ec; try discriminate;
      (destruct (dec_fscalars ns r1) as [l1| |] eqn:Ed; try discriminate; cbn [rbind] in H; injection H as Hl; subst l;
       destruct (IH r1 l1 Ed) as [cells [r [Hc Hm]]]; exists (x :: cells), r; cbn [chunks]; rewrite Et, Hc;
       split; [reflexivity|]; cbn [map_rres map]; unfold lz_float_scalar at 1; rewrite Ec; cbn [rbind]; rewrite Hm; reflexivity).
Qed.

Lemma lone_none_norm_sample : forall vs, lone_none (Some vs) = lone_none (norm_sample vs).
Proof.
  intros vs. unfold norm_sample. destruct vs as [|[z|] [|y vs]]; reflexivity.
Qed.

Lemma int_samples_cells : forall v44 w ns l pay ss, dec_samples w ns l pay = ROk ss ->
  exists cells r cs, chunks ns (wbytes w * l) pay = Some (cells, r) /\
    map_rres (lz_int_array w l) cells = ROk cs /\
    map (cell_norm v44) cs = map (cell_norm v44) (map CIV ss).
Proof.
  intros v44 w. induction ns as [|ns IH]; intros l pay ss H; cbn [dec_samples] in H.
  - injection H as Hs. subst ss. exists [], pay, []. repeat split.
  - destruct (chunks l (wbytes w) pay) as [[xs r1]|] eqn:Ec; [|discriminate].
    destruct (sample_entries w xs) as [vs| |] eqn:Ee; try discriminate. cbn [rbind] in H.
    destruct (dec_samples w ns l r1) as [rest| |] eqn:Ed; try discriminate. cbn [rbind] in H.
    injection H as Hs. subst ss.
    destruct (IH l r1 rest Ed) as [cells [r [cs [Hc [Hm Hn]]]]].
    destruct (chunks_cell _ _ _ _ _ Ec) as [Ht Hcc].
    exists (concat xs :: cells), r, (CIV (Some vs) :: cs). cbn [chunks]. rewrite Ht, Hc.
    split; [reflexivity|]. split.
    + cbn [map_rres]. unfold lz_int_array at 1. rewrite Hcc. rewrite Ee. cbn [rbind]. rewrite Hm. reflexivity.
    + cbn [map]. rewrite Hn. f_equal. cbn [cell_norm]. rewrite lone_none_norm_sample. reflexivity.
Qed.

Lemma float_samples_cells : forall v44 ns l pay ss, dec_fsamples ns l pay = ROk ss ->
  exists cells r cs, chunks ns (4 * l) pay = Some (cells, r) /\
    map_rres (lz_float_array l) cells = ROk cs /\
    map (cell_norm v44) cs = map (cell_norm v44) (map CFV ss).
Proof.
  intros v44. induction ns as [|ns IH]; intros l pay ss H; cbn [dec_fsamples] in H.
  - injection H as Hs. subst ss. exists [], pay, []. repeat split.
  - destruct (chunks l 4 pay) as [[xs r1]|] eqn:Ec; [|discriminate].
    destruct (fsample_entries xs) as [vs| |] eqn:Ee; try discriminate. cbn [rbind] in H.
    destruct (dec_fsamples ns l r1) as [rest| |] eqn:Ed; try discriminate. cbn [rbind] in H.
    injection H as Hs. subst ss.
    destruct (IH l r1 rest Ed) as [cells [r [cs [Hc [Hm Hn]]]]].
    destruct (chunks_cell _ _ _ _ _ Ec) as [Ht Hcc].
    exists (concat xs :: cells), r, (CFV (Some vs) :: cs). cbn [chunks]. rewrite Ht, Hc.
    split; [reflexivity|]. split.
    + cbn [map_rres]. unfold lz_float_array at 1. rewrite Hcc. rewrite Ee. cbn [rbind]. rewrite Hm. reflexivity.
    + cbn [map]. rewrite Hn. f_equal. cbn [cell_norm]. rewrite lone_none_norm_sample. reflexivity.
Qed.

(* ---------------------------------------------------------------- Character / String series *)
Lemma str_cells : forall ns l pay ss, dec_cells ns l pay = Some ss ->
  exists cells r, chunks ns l pay = Some (cells, r) /\ ss = map until_nul cells /\
    Forall (fun x => utf8_valid (until_nul x) = true) cells.
Proof.
  induction ns as [|ns IH]; intros l pay ss H; cbn [dec_cells] in H.
  - injection H as Hs. subst ss. exists [], pay. repeat split. constructor.
  - destruct (take l pay) as [[x r1]|] eqn:Et; [|discriminate].
    destruct (utf8_valid (until_nul x)) eqn:Eu; [|discriminate].
    destruct (dec_cells ns l r1) as [xs|] eqn:Ed; [|discriminate]. injection H as Hs. subst ss.
    destruct (IH l r1 xs Ed) as [cells [r [Hc [Hm Hv]]]].
    exists (x :: cells), r. cbn [chunks]. rewrite Et, Hc. split; [reflexivity|].
    split; [cbn [map]; rewrite Hm; reflexivity|]. constructor; assumption.
Qed.

(* the class on one cell: the eager model (NV.Bcf.Strings.first_char) takes the first BYTE of a cell /
   of an element for its first character, the lazy model decodes the first character; they are the same
   thing when that byte is ASCII *)
Definition first_ascii (p : str) : bool := match p with c :: _ => (c <? 128)%N | [] => true end.
Definition cell_first_ascii (x : list N) : bool := first_ascii (until_nul x).
Definition cell_pieces_first_ascii (x : list N) : bool := forallb first_ascii (split_on comma (until_nul x)).

Lemma first_char_agree : forall p o, first_char p = ROk o -> first_ascii p = true -> lz_first_char p = ROk o.
Proof.
  intros p o H Ha. destruct p as [|c r]; [discriminate|]. cbn [first_char] in H. cbn [first_ascii] in Ha.
  unfold lz_first_char. cbn [utf8_first]. rewrite Ha. exact H.
Qed.

Lemma first_chars_agree : forall ps l, map_rres first_char ps = ROk l -> forallb first_ascii ps = true ->
  map_rres lz_first_char ps = ROk l.
Proof.
  induction ps as [|p ps IH]; intros l H Ha; [exact H|].
  cbn [forallb] in Ha. apply andb_prop in Ha. destruct Ha as [Ha1 Ha2]. cbn [map_rres] in *.
  destruct (first_char p) as [o| |] eqn:Ef; try discriminate. cbn [rbind] in H.
  destruct (map_rres first_char ps) as [l1| |] eqn:Em; try discriminate. cbn [rbind] in H.
  rewrite (first_char_agree p o Ef Ha1). cbn [rbind]. rewrite (IH l1 eq_refl Ha2). exact H.
Qed.

Lemma fmt_chars_cells : forall cells l,
  map_rres first_char (map until_nul cells) = ROk l ->
  Forall (fun x => utf8_valid (until_nul x) = true) cells ->
  forallb cell_first_ascii cells = true ->
  map_rres (lz_string_cell (FChar true)) cells = ROk (map CC l).
Proof.
  induction cells as [|x cells IH]; intros l H Hv Hp; cbn [map map_rres] in H.
  - injection H as Hl. subst l. reflexivity.
  - inversion Hv as [|? ? Hx Hvs]. subst. cbn [forallb] in Hp. apply andb_prop in Hp. destruct Hp as [Hp1 Hp2].
    destruct (first_char (until_nul x)) as [c| |] eqn:Ef; try discriminate. cbn [rbind] in H.
    destruct (map_rres first_char (map until_nul cells)) as [l1| |] eqn:Em; try discriminate. cbn [rbind] in H.
    injection H as Hl. subst l. cbn [map_rres map]. rewrite (IH l1 eq_refl Hvs Hp2).
    unfold lz_string_cell at 1, lz_cell_string. rewrite Hx. cbn [rbind].
    rewrite (first_char_agree _ _ Ef Hp1). reflexivity.
Qed.

Lemma fmt_char_arrays_cells : forall cells l,
  map_rres (fun s => rbind (map_rres first_char (split_on comma s)) (fun l => ROk (Some l))) (map until_nul cells) = ROk l ->
  Forall (fun x => utf8_valid (until_nul x) = true) cells ->
  forallb cell_pieces_first_ascii cells = true ->
  map_rres (lz_string_cell (FChar false)) cells = ROk (map CCV l).
Proof.
  induction cells as [|x cells IH]; intros l H Hv Hp; cbn [map map_rres] in H.
  - injection H as Hl. subst l. reflexivity.
  - inversion Hv as [|? ? Hx Hvs]. subst. cbn [forallb] in Hp. apply andb_prop in Hp. destruct Hp as [Hp1 Hp2].
    destruct (map_rres first_char (split_on comma (until_nul x))) as [cs| |] eqn:Ef; try discriminate. cbn [rbind] in H.
    match type of H with rbind ?m _ = _ => destruct m as [l1| |] eqn:Em; try discriminate end. cbn [rbind] in H.
    injection H as Hl. subst l. cbn [map_rres map]. rewrite (IH l1 eq_refl Hvs Hp2).
    unfold lz_string_cell at 1, lz_cell_string. rewrite Hx. cbn [rbind].
    rewrite (first_chars_agree _ _ Ef Hp1). reflexivity.
Qed.

Lemma fmt_strings_cells : forall cells,
  Forall (fun x => utf8_valid (until_nul x) = true) cells ->
  map_rres (lz_string_cell (FStr true)) cells = ROk (map CS (map str_of_piece (map until_nul cells))).
Proof.
  induction cells as [|x cells IH]; intros Hv; [reflexivity|].
  inversion Hv as [|? ? Hx Hvs]. subst. cbn [map_rres map]. rewrite (IH Hvs).
  unfold lz_string_cell at 1, lz_cell_string. rewrite Hx. reflexivity.
Qed.

(* String arrays: the same function in both readers since 0b0f2ab *)
Lemma fmt_str_arrays_cells : forall cells,
  Forall (fun x => utf8_valid (until_nul x) = true) cells ->
  map_rres (lz_string_cell (FStr false)) cells = ROk (map CSV (map cell_strs (map until_nul cells))).
Proof.
  induction cells as [|x cells IH]; intros Hv; [reflexivity|].
  inversion Hv as [|? ? Hx Hvs]. subst. cbn [map_rres map]. rewrite (IH Hvs).
  unfold lz_string_cell at 1, lz_cell_string. rewrite Hx. reflexivity.
Qed.
