(* C13 -- error kinds of the gzi reader: the kind model refines NV.Index.Layout.read_gzi, every
   strict prefix of a written index is UnexpectedEof (never InvalidData), and bytes behind a written
   index are InvalidData. *)
From Coq Require Import List Arith NArith Bool Lia ZifyBool ZifyNat ZifyN.
From NV Require Import Base.LE Index.Layout Index.LayoutProofs Trunc.Stream Trunc.BaiProofs Trunc.GziProofs Trunc.GziKind.
Import ListNotations.
Open Scope N_scope.

(* forgetting the kind gives C17's reader *)
Theorem read_gzi_k_erase : forall bs,
  read_gzi bs = match read_gzi_k bs with inr l => Some l | inl _ => None end.
Proof.
  intros bs. unfold read_gzi, read_gzi_k.
  destruct (p_le 8 bs) as [[n r]|]; [|reflexivity].
  destruct (p_repeat (N.to_nat n) p_chunk r) as [[l [|b t]]|]; reflexivity.
Qed.

Lemma read_gzi_k_p_gzi : forall bs,
  read_gzi_k bs = match p_gzi bs with
                  | None => inl UnexpectedEof
                  | Some (l, []) => inr l
                  | Some (_, _ :: _) => inl InvalidData
                  end.
Proof. intros bs. unfold read_gzi_k, p_gzi. destruct (p_le 8 bs) as [[n r]|]; reflexivity. Qed.

Lemma p_gzi_written : forall idx,
  N.of_nat (length idx) < 18446744073709551616 -> Forall chunk_ok idx ->
  p_gzi (w_gzi idx) = Some (idx, []).
Proof.
  intros idx Hlen Hok. pose proof (gzi_roundtrip idx Hlen Hok) as HR.
  rewrite read_gzi_p_gzi in HR.
  destruct (p_gzi (w_gzi idx)) as [[l [|b t]]|]; try discriminate HR.
  injection HR as HR. subst l. reflexivity.
Qed.

(* every cut of a written gzi: UnexpectedEof below the whole file, the index on the whole file *)
Theorem gzi_truncation_kind : forall idx k,
  N.of_nat (length idx) < 18446744073709551616 -> Forall chunk_ok idx ->
  read_gzi_k (firstn k (w_gzi idx)) =
    if (k <? length (w_gzi idx))%nat then inl UnexpectedEof else inr idx.
Proof.
  intros idx k Hlen Hok. set (file := w_gzi idx).
  pose proof (p_gzi_written idx Hlen Hok) as HW. fold file in HW.
  destruct (k <? length file)%nat eqn:Ek.
  - rewrite read_gzi_k_p_gzi.
    destruct (p_gzi (firstn k file)) as [[l r]|] eqn:E; [|reflexivity].
    exfalso.
    pose proof (stable_p_gzi _ _ _ (skipn k file) E) as H2. rewrite firstn_skipn, HW in H2.
    injection H2 as H2a H2b.
    apply (f_equal (@length N)) in H2b. rewrite app_length, skipn_length in H2b. cbn [length] in H2b. lia.
  - rewrite firstn_all2 by lia. rewrite read_gzi_k_p_gzi, HW. reflexivity.
Qed.

(* bytes behind a written index: InvalidData *)
Theorem gzi_trailing_kind : forall idx b t,
  N.of_nat (length idx) < 18446744073709551616 -> Forall chunk_ok idx ->
  read_gzi_k (w_gzi idx ++ b :: t) = inl InvalidData.
Proof.
  intros idx b t Hlen Hok. rewrite read_gzi_k_p_gzi.
  rewrite (stable_p_gzi _ _ _ (b :: t) (p_gzi_written idx Hlen Hok)). reflexivity.
Qed.
