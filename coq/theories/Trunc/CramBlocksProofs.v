(* C13 — a CRAM container whose body is cut, seen by the block-level readers (Trunc/CramBlocks.v):
   the block and slice parsers are stable (success and non-EOF errors persist under extension), so
   every strict prefix of a written block / slice is UnexpectedEof, and a cut container body is an
   error at the slice that holds the cut (or an invalid-landmark error), never a clean end. *)
From Coq Require Import List Arith NArith ZArith Bool Lia ZifyBool ZifyNat ZifyN.
From NV Require Import Base.LE Trunc.Stream Trunc.StreamProofs Trunc.Cram Trunc.CramProofs Trunc.CramBlocks.
Import ListNotations.
Open Scope N_scope.

Arguments N.add : simpl never. Arguments N.sub : simpl never. Arguments N.mul : simpl never.
Arguments N.eqb : simpl never. Arguments N.ltb : simpl never.

Lemma rstable_code : forall lim, rstable (r_code lim).
Proof.
  intros lim. unfold r_code. apply rstable_bind; [apply rstable_take|]. intros h.
  apply rstable_if; [apply rstable_ret|apply rstable_fail].
Qed.

Lemma rstable_blk_fields : rstable blk_fields.
Proof.
  unfold blk_fields.
  apply rstable_bind; [apply rstable_code|]. intros m.
  apply rstable_bind; [apply rstable_code|]. intros ct.
  apply rstable_bind; [apply rstable_itf8|]. intros cid.
  apply rstable_bind; [apply rstable_itf8_as|]. intros cs.
  apply rstable_bind; [apply rstable_itf8_as|]. intros us.
  apply rstable_bind; [apply rstable_take|]. intros d. apply rstable_ret.
Qed.

Section BlocksProofs.
  Variable crc : list N -> N.
  Variable dec : blk -> ekind + list N.

  Lemma rstable_read_block_as : forall ct, rstable (read_block_as crc ct).
  Proof.
    intros ct. unfold read_block_as.
    apply rstable_bind; [apply rstable_with_crc; apply rstable_blk_fields|]. intros bc.
    apply rstable_if; [apply rstable_ret|apply rstable_fail].
  Qed.

  Lemma rstable_decoded : forall ct, rstable (r_decoded crc dec ct).
  Proof.
    intros ct. unfold r_decoded. apply rstable_bind; [apply rstable_read_block_as|]. intros b.
    destruct (blk_content dec b); [apply rstable_fail|apply rstable_ret].
  Qed.

  Lemma rstable_read_slice_header : rstable (read_slice_header crc dec).
  Proof.
    unfold read_slice_header. apply rstable_bind; [apply rstable_decoded|]. intros bd. split.
    - intros bs x r ext H. destruct (slice_header_fields (snd bd)) as [n r0|e]; [|discriminate H].
      injection H as Hx Hr. subst. reflexivity.
    - intros bs e ext H _. destruct (slice_header_fields (snd bd)) as [n r0|e0]; [discriminate H|exact H].
  Qed.

  Lemma rstable_slice_blocks : rstable (slice_blocks crc dec).
  Proof.
    unfold slice_blocks. apply rstable_bind; [apply rstable_read_slice_header|]. intros nb.
    apply rstable_bind; [apply rstable_decoded|]. intros core.
    apply rstable_if; [apply rstable_fail|].
    apply rstable_bind; [apply rstable_repeat; apply rstable_decoded|]. intros ext. apply rstable_ret.
  Qed.

  (* a byte string the reader parses as exactly one block of the wanted content type / as exactly
     one slice (header block, core block, external blocks) *)
  Definition block_good (ct : N) (c : list N) : Prop := exists b, read_block_as crc ct c = POk b [].
  Definition slice_good (c : list N) : Prop := exists n, slice_blocks crc dec c = POk n [].
  Definition slice_out (c : list N) : N :=
    match slice_blocks crc dec c with POk n _ => n | PErr _ => 0 end.

  (* every strict prefix of a block is UnexpectedEof: header fields, data, or the CRC32 cut *)
  Theorem block_truncation : forall ct c j, block_good ct c -> (j < length c)%nat ->
    read_block_as crc ct (firstn j c) = PErr UnexpectedEof.
  Proof.
    intros ct c j (b & Hb) Hj. exact (rstable_cut _ _ c b j (rstable_read_block_as ct) Hb Hj).
  Qed.

  (* the CRC32 check itself: a complete block whose stored CRC32 differs from the computed one is
     InvalidData, also when more bytes follow *)
  Theorem block_crc_mismatch : forall ct c b r ext,
    blk_fields c = POk b r -> (exists x r', r_u32le r = POk x r' /\ x <> crc (firstn (length c - length r) c)) ->
    read_block_as crc ct (c ++ ext) = PErr InvalidData.
  Proof.
    intros ct c b r ext Hf (x & r' & Hx & Hne).
    assert (H0 : read_block_as crc ct c = PErr InvalidData).
    { unfold read_block_as, r_bind, with_crc. rewrite Hf, Hx.
      destruct (crc (firstn (length c - length r) c) =? x) eqn:E; [lia|reflexivity]. }
    destruct (rstable_read_block_as ct) as (_ & Herr). apply Herr; [exact H0|discriminate].
  Qed.

  (* every strict prefix of a slice (its blocks in a row) is UnexpectedEof *)
  Theorem slice_truncation : forall c j, slice_good c -> (j < length c)%nat ->
    slice_blocks crc dec (firstn j c) = PErr UnexpectedEof.
  Proof.
    intros c j (n & Hn) Hj. exact (rstable_cut _ _ c n j rstable_slice_blocks Hn Hj).
  Qed.

  (* ---------- the container body: landmarks ---------- *)
  Fixpoint offsets (start : nat) (regions : list (list N)) : list N :=
    match regions with
    | [] => []
    | r :: rs => N.of_nat start :: offsets (start + length r) rs
    end.

  Lemma get_range_some : forall a b (src : list N), (a <= b)%nat -> (b <= length src)%nat ->
    get_range (N.of_nat a) (N.of_nat b) src = Some (firstn (b - a) (skipn a src)).
  Proof.
    intros a b src Hab Hb. unfold get_range.
    assert (E : ((N.of_nat b <? N.of_nat a) || (N.of_nat (length src) <? N.of_nat b)) = false) by lia.
    rewrite E. f_equal. f_equal; [lia|]. f_equal. lia.
  Qed.

  Lemma get_range_none : forall a b (src : list N), (b < a \/ length src < b)%nat ->
    get_range (N.of_nat a) (N.of_nat b) src = None.
  Proof.
    intros a b src H. unfold get_range.
    assert (E : ((N.of_nat b <? N.of_nat a) || (N.of_nat (length src) <? N.of_nat b)) = true) by lia.
    rewrite E. reflexivity.
  Qed.

  Lemma region_of_prefix : forall (pre r rest : list N) j, (length pre + length r <= j)%nat ->
    firstn (length r) (skipn (length pre) (firstn j (pre ++ r ++ rest))) = r.
  Proof.
    intros pre r rest j Hj. rewrite firstn_app_ge by lia. rewrite skipn_app, skipn_all, Nat.sub_diag.
    cbn [app skipn]. rewrite firstn_app_ge by lia. rewrite firstn_app_lt by lia. apply firstn_all.
  Qed.

  (* the whole body: every slice is decoded, then the landmarks are used up *)
  Theorem container_slices_whole : forall regions pre,
    Forall slice_good regions ->
    container_slices crc dec (offsets (length pre) regions) (pre ++ concat regions) =
      (map slice_out regions, Eof).
  Proof.
    induction regions as [|r rs IH]; intros pre HG; [reflexivity|].
    inversion HG as [|r0 rs0 (n & Hn) HG']; subst.
    cbn [offsets container_slices concat map].
    set (body := pre ++ r ++ concat rs).
    assert (Hb : match offsets (length pre + length r) rs with l :: _ => l | [] => N.of_nat (length body) end
                 = N.of_nat (length pre + length r)).
    { destruct rs as [|r2 rs2]; cbn [offsets]; [|reflexivity].
      unfold body. cbn [concat]. rewrite !app_length. cbn [length]. f_equal. lia. }
    rewrite Hb. rewrite get_range_some by (try lia; unfold body; rewrite !app_length; lia).
    replace (length pre + length r - length pre)%nat with (length r) by lia.
    unfold body. rewrite skipn_app, skipn_all, Nat.sub_diag. cbn [app skipn].
    rewrite firstn_app_lt by lia. rewrite firstn_all. rewrite Hn.
    replace (pre ++ r ++ concat rs) with ((pre ++ r) ++ concat rs) by (rewrite <- app_assoc; reflexivity).
    replace (length pre + length r)%nat with (length (pre ++ r)) by (rewrite app_length; reflexivity).
    rewrite (IH (pre ++ r) HG'). unfold slice_out. rewrite Hn. reflexivity.
  Qed.

  (* the body cut at j: the slices wholly inside the cut are decoded, then an ERROR - UnexpectedEof
     in the block that holds the cut when that slice is the last one (its range ends with the
     body), InvalidData (invalid landmark) when a landmark lies beyond the cut - never a clean end *)
  Theorem container_slices_cut : forall regions pre j,
    Forall slice_good regions -> regions <> [] ->
    (j < length (pre ++ concat regions))%nat ->
    exists i e, (i < length regions)%nat /\ (e = UnexpectedEof \/ e = InvalidData) /\
      container_slices crc dec (offsets (length pre) regions) (firstn j (pre ++ concat regions)) =
        (map slice_out (firstn i regions), Err e).
  Proof.
    induction regions as [|r rs IH]; intros pre j HG Hne Hj; [congruence|].
    inversion HG as [|r0 rs0 Hr HG']; subst. destruct Hr as (n & Hn).
    cbn [offsets container_slices concat]. cbn [concat] in Hj.
    set (p := firstn j (pre ++ r ++ concat rs)).
    assert (Hp : length p = j) by (unfold p; rewrite firstn_length; lia).
    destruct rs as [|r2 rs2].
    - (* the last slice: its range ends with the (cut) body *)
      cbn [offsets concat] in *. rewrite app_nil_r in *. rewrite Hp.
      exists 0%nat. cbn [firstn map length].
      destruct (le_lt_dec (length pre) j) as [Hge | Hlt].
      + rewrite get_range_some by lia.
        assert (Hreg : firstn (j - length pre) (skipn (length pre) p) = firstn (j - length pre) r).
        { unfold p. rewrite firstn_app_ge by lia. rewrite skipn_app, skipn_all, Nat.sub_diag.
          cbn [app skipn]. rewrite firstn_firstn, app_nil_r, Nat.min_id. reflexivity. }
        rewrite Hreg. rewrite app_length in Hj.
        rewrite (slice_truncation r (j - length pre)%nat (ex_intro _ n Hn)) by lia.
        exists UnexpectedEof. split; [lia|]. split; [left; reflexivity|reflexivity].
      + rewrite get_range_none by lia.
        exists InvalidData. split; [lia|]. split; [right; reflexivity|reflexivity].
    - cbn [offsets]. fold (offsets (length pre + length r + length r2) rs2).
      destruct (le_lt_dec (length pre + length r) j) as [Hge | Hlt].
      + rewrite get_range_some by lia.
        replace (length pre + length r - length pre)%nat with (length r) by lia.
        unfold p. rewrite region_of_prefix by lia. rewrite Hn.
        replace (pre ++ r ++ concat (r2 :: rs2)) with ((pre ++ r) ++ concat (r2 :: rs2))
          by (rewrite <- app_assoc; reflexivity).
        destruct (IH (pre ++ r) j HG' ltac:(discriminate)) as (i & e & Hi & He & Hc).
        { rewrite <- app_assoc. exact Hj. }
        rewrite app_length in Hc. cbn [offsets] in Hc. rewrite Hc.
        exists (S i), e. cbn [length firstn map] in *. split; [lia|]. split; [exact He|].
        unfold slice_out at 2. rewrite Hn. reflexivity.
      + rewrite get_range_none by lia.
        exists 0%nat, InvalidData. cbn [length firstn map]. split; [lia|]. split; [right; reflexivity|reflexivity].
  Qed.

  (* the compression header block at the front of a cut body: an error when the cut is inside it *)
  Theorem container_comp_header_cut : forall ch regions j,
    (exists bd, r_decoded crc dec CT_COMPRESSION_HEADER ch = POk bd []) ->
    (j < length ch)%nat ->
    exists e, container_comp_header crc dec (offsets (length ch) regions) (firstn j (ch ++ concat regions)) = Some e.
  Proof.
    intros ch regions j (bd & Hbd) Hj. unfold container_comp_header.
    set (p := firstn j (ch ++ concat regions)).
    assert (Hp : length p = j) by (unfold p; rewrite firstn_length, app_length; lia).
    destruct regions as [|r rs]; cbn [offsets].
    - rewrite Hp. change 0 with (N.of_nat 0). rewrite get_range_some by lia.
      cbn [skipn]. rewrite Nat.sub_0_r.
      unfold p. cbn [concat]. rewrite app_nil_r, firstn_firstn, Nat.min_id.
      rewrite (rstable_cut _ _ ch bd j (rstable_decoded CT_COMPRESSION_HEADER) Hbd Hj). now eexists.
    - change 0 with (N.of_nat 0). rewrite get_range_none by lia. now eexists.
  Qed.
End BlocksProofs.
