(* C13 -- the gzi index reader with its error KINDS (NV.Index.Layout.read_gzi returns None for any
   error).  Mirrors noodles-bgzf/src/gzi/io/reader/index.rs read_index:
     len = read_u64_le (read_exact: UnexpectedEof on a short source), usize::try_from(len) (never
     fails on a 64-bit target); len times (read_u64_le, read_u64_le) collected into a Result - the
     first short read is UnexpectedEof, nothing is allocated from len -; then read_u8: one more byte
     present = InvalidData ("unexpected trailing data"), UnexpectedEof = the index.
   Definitions only; proofs in GziKindProofs.v. *)
From Coq Require Import List Arith NArith Bool.
From NV Require Import Base.LE Index.Layout Trunc.Stream.
Import ListNotations.
Open Scope N_scope.

Definition read_gzi_k (bs : list N) : ekind + list (N * N) :=
  match p_le 8 bs with
  | None => inl UnexpectedEof
  | Some (n, r) =>
      match p_repeat (N.to_nat n) p_chunk r with
      | None => inl UnexpectedEof
      | Some (l, []) => inr l
      | Some (_, _ :: _) => inl InvalidData
      end
  end.

(* every cut 0..|file|, in order *)
Definition gzi_cuts_k (file : list N) : list (ekind + list (N * N)) :=
  map (fun k => read_gzi_k (firstn k file)) (seq 0 (S (length file))).
