(* C13 — a whole-file index reader (CSI, tabix: noodles-csi / noodles-tabix io/reader/index.rs)
   on top of the BGZF reader.  Definitions only; proofs in IndexCutProofs.v.

   The index parsers read every field with read_exact, so an error of the BGZF layer reached in
   the middle of the parse is the result.  The one read whose UnexpectedEof is not an error is
   the optional trailing n_no_coor (read_unplaced_unmapped_record_count maps UnexpectedEof to
   None) -- whether the 8 bytes are missing because the stream ended cleanly or because the BGZF
   layer reported UnexpectedEof makes no difference.  Hence, when the BGZF layer's outcome on
   the file is Eof or Err UnexpectedEof, the observable result (an index, or an error) is the
   parser's result on the bytes the layer delivered.  Another BGZF error (corrupt block) may or
   may not be reached by the parse: outside this model (None). *)
From Coq Require Import List NArith Bool.
From NV Require Import Trunc.Stream Index.CsiLayout.
Import ListNotations.
Open Scope N_scope.

Definition idx_over_bgzf {I : Type} (inflate : list N -> option (list N))
    (rd : list N -> option I) (file : list N) : option (option I) :=
  let (ds, s) := bgzf_blocks inflate file in
  match s with
  | Eof => Some (rd (concat ds))
  | Err UnexpectedEof => Some (rd (concat ds))
  | Err _ => None
  end.

(* correspondence observations: inflate given as the table built from the intact file *)
Definition obs_csiz (tab : list (list N * list N)) (k : nat) (file : list N) : option (option csi_index) :=
  idx_over_bgzf (inflate_table tab) read_csi (firstn k file).
Definition obs_tbiz (tab : list (list N * list N)) (k : nat) (file : list N) : option (option tbi_index) :=
  idx_over_bgzf (inflate_table tab) read_tbi (firstn k file).
