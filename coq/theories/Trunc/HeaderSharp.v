(* C13 — the BAM header cut, sharper: below a FAILING source (the BGZF layer reporting a torn
   block) every cut inside a written header block returns exactly the source's error - the
   complete header lines delivered are the written ones and are accepted, the partial last line
   is never handed to the parser. *)
From Coq Require Import List Arith NArith Bool Lia ZifyBool ZifyNat ZifyN.
From NV Require Import Base.LE Trunc.Stream Trunc.StreamProofs Trunc.Header Trunc.HeaderProofs.
From NV Require Import Trunc.TextHeader Trunc.TextHeaderProofs.
From NV Require Bam.Record Bam.Decode Bam.CodecProofs.
From NV Require Sam.Fields Sam.Record Sam.Header Sam.HeaderProofs Sam.BamHeader Sam.BamHeaderProofs.
Import ListNotations.
Open Scope N_scope.

Arguments N.eqb : simpl never. Arguments N.ltb : simpl never. Arguments N.leb : simpl never.

Lemma line_ok_hline : forall l, SHP.line_ok l -> hline_ok 64 l.
Proof. intros l (Hs & Hn & _). split; [exact Hs|exact Hn]. Qed.

Lemma visible_false_nolf : forall r, no_lf r -> BH.visible false r = r.
Proof.
  induction 1 as [|c r Hc _ IH]; cbn [BH.visible andb]; [reflexivity|].
  assert (E : (c =? 10) = false) by lia. rewrite E, IH. reflexivity.
Qed.

Lemma visible_partial : forall t, partial_ok 64 t -> BH.visible true t = t.
Proof.
  intros t [-> | ((r & ->) & Hn)]; [reflexivity|].
  cbn [BH.visible]. change (64 =? 0) with false. rewrite andb_false_r. change (64 =? 10) with false.
  inversion Hn as [|c0 r0 _ Hr]; subst. now rewrite visible_false_nolf.
Qed.

Lemma visible_lines_partial : forall ls t, Forall SHP.line_ok ls -> partial_ok 64 t ->
  BH.visible true (htext ls ++ t) = htext ls ++ t.
Proof.
  induction 1 as [|l ls ((r & E) & H10 & _) _ IH]; intro Ht.
  - cbn [htext map concat app]. now apply visible_partial.
  - subst l. unfold htext in *. cbn [map concat]. rewrite <- !app_assoc. cbn [app BH.visible].
    change (64 =? 0) with false. rewrite andb_false_r. change (64 =? 10) with false.
    inversion H10 as [|c0 r0 _ Hr]; subst.
    rewrite BHP.visible_false_app by exact Hr. rewrite (IH Ht). reflexivity.
Qed.

Lemma split_lf_nolf : forall t, no_lf t -> SH.split_lf t = match t with [] => [] | _ => [(t, false)] end.
Proof.
  induction 1 as [|c t Hc Ht IH]; [reflexivity|]. cbn [SH.split_lf].
  assert (E : (c =? 10) = false) by lia. rewrite E, IH. destruct t; reflexivity.
Qed.

Lemma complete_lines_partial : forall (ls : list (list N)) (t : list N),
  complete_lines (map (fun l => (l, true)) ls ++ match t with [] => [] | _ => [(t, false)] end) =
    map (fun l => (l, true)) ls.
Proof.
  intros ls t. unfold complete_lines. induction ls as [|l ls IH]; cbn [map app filter snd].
  - destruct t; reflexivity.
  - now rewrite IH.
Qed.

Lemma run_lines_bam_app : forall a b st,
  BH.run_lines_bam (a ++ b) st =
    match BH.run_lines_bam a st with Some st' => BH.run_lines_bam b st' | None => None end.
Proof.
  induction a as [|[l lf] a IH]; intros b st; cbn [app BH.run_lines_bam]; [reflexivity|].
  destruct (SH.parse_partial _ st); [apply IH|reflexivity].
Qed.

(* the text of a written header: its lines, accepted in order by the BAM line discipline *)
Lemma written_text_lines : forall h text, SHP.wf_header h -> SH.write_header h = Some text ->
  exists ls st, text = htext ls /\ Forall SHP.line_ok ls /\
    BH.run_lines_bam (map (fun l => (l, true)) ls) SH.init_pstate = Some st.
Proof.
  intros h text W H. pose proof (BHP.read_bam_text_written h text W H) as R.
  unfold SH.write_header in H. destruct (SH.write_header_lines h) as [ls|] eqn:EL; [|discriminate].
  cbn [option_map] in H. apply some_inj in H. subst text.
  pose proof (BHP.write_header_lines_ok h ls W EL) as LO.
  unfold BH.read_bam_text in R. rewrite BHP.visible_lines in R by exact LO.
  rewrite SHP.split_lf_lines in R by exact LO.
  destruct (BH.run_lines_bam (map (fun l => (l, true)) ls) SH.init_pstate) as [st|] eqn:ER; [|discriminate].
  exists ls, st. split; [reflexivity|]. split; [exact LO|exact ER].
Qed.

(* the text part of a cut block, when the cut is inside the text *)
Lemma bam_short_text_prefix : forall h hb text, BH.write_bam_header h = Some hb ->
  SH.write_header h = Some text ->
  forall p q t, hb = p ++ q -> bam_short_text p = Some t ->
  (length t < length text)%nat /\ exists u, text = t ++ u.
Proof.
  intros h hb text H ET p q t Hb Hs.
  destruct (write_bam_header_shape h hb H) as (text' & rs & ET' & LT & LS & ER & Hhb).
  rewrite ET in ET'. apply some_inj in ET'. subst text'.
  rewrite Hhb in Hb. symmetry in Hb. unfold bam_short_text in Hs.
  destruct (cut_app _ _ _ _ Hb) as [(Hl & _) | (p1 & Hp & Hb1)].
  { rewrite read_magic_short in Hs by exact Hl. discriminate Hs. }
  subst p. rewrite read_magic_ok in Hs. symmetry in Hb1.
  destruct (cut_app _ _ _ _ Hb1) as [(Hl & _) | (p2 & Hp & Hb2)].
  { rewrite rd4_short in Hs by (rewrite leW_len in Hl; exact Hl). discriminate Hs. }
  subst p1. rewrite BHP.rd4_le in Hs by (unfold BH.I32_MAX, BH.U32_MAXN in *; lia). symmetry in Hb2.
  destruct (cut_app _ _ _ _ Hb2) as [(Hl & a2 & Ha & _ & _) | (p3 & Hp & Hb3)].
  - destruct (R.lenN p2 <? R.lenN text); [|discriminate Hs]. apply some_inj in Hs. subst t.
    split; [exact Hl|]. now exists a2.
  - subst p2.
    assert (Hge : (R.lenN (text ++ p3) <? R.lenN text) = false) by (rewrite CP.lenN_app; lia).
    rewrite Hge in Hs. discriminate Hs.
Qed.

Lemma Forall_firstn_lo : forall (ls : list (list N)) j, Forall SHP.line_ok ls -> Forall SHP.line_ok (firstn j ls).
Proof. intros ls j H. now apply Forall_firstn'. Qed.

Theorem bam_header_cut_failing : forall h hb, SHP.wf_header h -> BH.write_bam_header h = Some hb ->
  forall e p q, hb = p ++ q -> q <> [] -> bam_read_header (Err e) p = HErr e.
Proof.
  intros h hb W H e p q Hb Hq.
  destruct (write_bam_header_shape h hb H) as (text & rs & ET & _).
  destruct (read_bam_header_cut h hb W H p q Hb Hq) as [(HR & [HS | (t & HS & _)]) | (HR & t & HS & _)].
  - unfold bam_read_header. rewrite HS, HR. reflexivity.
  - (* inside the text *)
    destruct (bam_short_text_prefix h hb text H ET p q t Hb HS) as (Hlt & u & Hu).
    destruct (written_text_lines h text W ET) as (ls & st & Ht & LO & Hrun).
    assert (HF : Forall (hline_ok 64) ls) by (eapply Forall_impl; [apply line_ok_hline|exact LO]).
    assert (Hk : (length t <= length (htext ls))%nat) by (rewrite <- Ht; lia).
    destruct (htext_cut 64 unit unit tt (fun _ _ => None) (fun _ => None) ls (length t) HF Hk) as (j & t' & Hj & Hf & Hp & _).
    assert (Et : t = htext (firstn j ls) ++ t').
    { rewrite <- Hf, <- Ht, Hu. rewrite firstn_app_lt by lia. now rewrite firstn_all. }
    assert (Hn : no_lf t') by (destruct Hp as [-> | (_ & Hn)]; [constructor|exact Hn]).
    unfold bam_read_header. rewrite HS. rewrite Et.
    rewrite visible_lines_partial by (try apply Forall_firstn_lo; assumption).
    unfold htext. rewrite SHP.split_lf_lines_app by (apply Forall_firstn_lo; exact LO).
    rewrite split_lf_nolf by exact Hn. rewrite complete_lines_partial.
    rewrite <- (firstn_skipn j ls) in Hrun. rewrite map_app, run_lines_bam_app in Hrun.
    destruct (BH.run_lines_bam (map (fun l => (l, true)) (firstn j ls)) SH.init_pstate); [reflexivity|discriminate].
  - destruct (bam_short_text_prefix h hb text H ET p q t Hb HS) as (Hlt & u & Hu).
    destruct (written_text_lines h text W ET) as (ls & st & Ht & LO & Hrun).
    assert (HF : Forall (hline_ok 64) ls) by (eapply Forall_impl; [apply line_ok_hline|exact LO]).
    assert (Hk : (length t <= length (htext ls))%nat) by (rewrite <- Ht; lia).
    destruct (htext_cut 64 unit unit tt (fun _ _ => None) (fun _ => None) ls (length t) HF Hk) as (j & t' & Hj & Hf & Hp & _).
    assert (Et : t = htext (firstn j ls) ++ t').
    { rewrite <- Hf, <- Ht, Hu. rewrite firstn_app_lt by lia. now rewrite firstn_all. }
    assert (Hn : no_lf t') by (destruct Hp as [-> | (_ & Hn)]; [constructor|exact Hn]).
    unfold bam_read_header. rewrite HS. rewrite Et.
    rewrite visible_lines_partial by (try apply Forall_firstn_lo; assumption).
    unfold htext. rewrite SHP.split_lf_lines_app by (apply Forall_firstn_lo; exact LO).
    rewrite split_lf_nolf by exact Hn. rewrite complete_lines_partial.
    rewrite <- (firstn_skipn j ls) in Hrun. rewrite map_app, run_lines_bam_app in Hrun.
    destruct (BH.run_lines_bam (map (fun l => (l, true)) (firstn j ls)) SH.init_pstate); [reflexivity|discriminate].
Qed.
