(* C13 -- a .crai FILE read at every cut: the gzip member (C19's model NV.CramIdx.Gz of
   flate2's GzHeaderParser / GzDecoder, with C01's executable inflater inside; both imported
   read-only) around the tab separated text (C17's model NV.Index.TextIndex.read_crai, the reader of
   the C13 text theorem c13_crai_truncation).

   Mirrors noodles-cram/src/crai/io/reader.rs: Reader::new = BufReader<flate2::read::GzDecoder<R>>,
   read_index = read_line + parse per line until read_line returns 0.  On a source that ENDS
   (a truncated file) flate2 behaves as follows (flate2 1.1 src/gz/bufread.rs, src/zio.rs):
     - inside the gzip header: GzHeaderParser meets the end of the source -> UnexpectedEof;
     - inside the DEFLATE stream: zio::read hands out what was inflated so far, then returns 0 at
       the end of the source; GzDecoder takes that for the end of the body, moves on to the 8
       trailer bytes, finds none -> UnexpectedEof.  The lines inflated before that were parsed
       (they are complete lines of the text: accepted for every text the writer emits); the partial
       last line is never parsed, BufRead::read_until returns the error of fill_buf first;
     - inside the trailer: read_into -> UnexpectedEof.
   So [GzEof] and - on a source that ends - [GzBody] are io::ErrorKind::UnexpectedEof ([cut_kind]);
   a refused header / trailer mismatch is InvalidInput; a refused text line ([KText]) is
   UnexpectedEof when a field is missing and InvalidData when a field does not parse (crai/io/reader/
   record.rs) - not told apart here, and never the result of cutting a written file.
   Definitions only; proofs in CraiGzProofs.v. *)
From Coq Require Import List Arith NArith Bool.
From NV Require Import Base.LE Bgzf.Inflate CramIdx.Gz Index.TextIndex.
Import ListNotations.
Open Scope N_scope.

(* crai::io::Reader::new(bytes).read_index() *)
Definition crai_file_read (bs : list N) : gzres (list crai_rec) :=
  match gunzip bs with
  | GErr e => GErr e
  | GOk text =>
      match read_crai text with
      | Some l => GOk l
      | None => GErr GzText
      end
  end.

(* crai::io::Writer::write_index + finish with the compressor [comp] (GzEncoder, default level:
   XFL = 0) *)
Definition crai_file_write (comp : list N -> list N) (l : list crai_rec) : list N :=
  gz_frame 0 (comp (w_crai l)) (w_crai l).

(* any text gzipped the same way (what the `crai` kind of the correspondence check does with a cut
   text) *)
Definition gzip_text (comp : list N -> list N) (text : list N) : list N :=
  gz_frame 0 (comp text) text.

(* io::ErrorKind of the reader's error when the source ends (is cut, not damaged) *)
Inductive gzkind : Type := KUnexpectedEof | KInvalidInput | KText.

Definition cut_kind (e : gzerr) : gzkind :=
  match e with
  | GzEof => KUnexpectedEof
  | GzBody => KUnexpectedEof
  | GzInvalid => KInvalidInput
  | GzText => KText
  end.

(* the observation of one read: the error kind or the index *)
Definition crai_file_obs (bs : list N) : gzkind + list crai_rec :=
  match crai_file_read bs with
  | GErr e => inl (cut_kind e)
  | GOk l => inr l
  end.

(* every cut 0..|file| of a file, in order *)
Definition crai_file_cuts (file : list N) : list (gzkind + list crai_rec) :=
  map (fun k => crai_file_obs (firstn k file)) (seq 0 (S (length file))).

(* [bs] is exactly one gzip member: a header, a DEFLATE stream that the inflater reads up to the
   last 8 bytes (the premise of the cut theorem for ANY member, tested on every compared file) *)
Definition gz_exact_b (bs : list N) : bool :=
  match gz_header bs with
  | GOk body =>
      match inflate_raw gz_limit body with
      | Some (_, t) => Nat.eqb (length t) 8
      | None => false
      end
  | GErr _ => false
  end.
