(* C13 — the SAM / VCF text header read from a truncated stream: exact result of every cut
   (Trunc/TextHeader.v). *)
From Coq Require Import List Arith NArith Bool Lia ZifyBool ZifyNat ZifyN.
From NV Require Import Base.LE Trunc.Stream Trunc.StreamProofs Trunc.Header Trunc.TextHeader.
From NV Require Io.BufReader Io.HeaderRead.
Import ListNotations.
Open Scope N_scope.

Arguments N.eqb : simpl never.

Module B := Io.BufReader.
Module HR := Io.HeaderRead.

Definition no_lf (l : list N) : Prop := Forall (fun c => c <> 10) l.

Lemma take_line_lf : forall l rest, no_lf l -> B.take_line B.LF (l ++ 10 :: rest) = l ++ [10].
Proof.
  induction 1 as [|c l Hc _ IH]; cbn [app B.take_line].
  - reflexivity.
  - unfold B.LF in *. assert (E : (c =? 10) = false) by lia. rewrite E, IH. reflexivity.
Qed.

Lemma take_line_nolf : forall l, no_lf l -> B.take_line B.LF l = l.
Proof.
  induction 1 as [|c l Hc _ IH]; cbn [B.take_line]; [reflexivity|].
  unfold B.LF in *. assert (E : (c =? 10) = false) by lia. rewrite E, IH. reflexivity.
Qed.

Lemma ends_with_lf_snoc : forall l, B.ends_with B.LF (l ++ [10]) = true.
Proof. intros l. unfold B.ends_with. rewrite rev_app_distr. reflexivity. Qed.

Lemma ends_with_lf_nolf : forall l, no_lf l -> B.ends_with B.LF l = false.
Proof.
  intros l H. unfold B.ends_with. destruct (rev l) as [|x t] eqn:E; [reflexivity|].
  assert (Hin : In x l) by (apply in_rev; rewrite E; now left).
  unfold no_lf in H. rewrite Forall_forall in H. specialize (H x Hin). unfold B.LF. lia.
Qed.

Lemma strip_eol_nolf : forall l, no_lf l -> B.strip_eol l = l.
Proof. intros l H. unfold B.strip_eol. now rewrite ends_with_lf_nolf. Qed.

Lemma Forall_firstn' : forall (A : Type) (P : A -> Prop) (l : list A) n, Forall P l -> Forall P (firstn n l).
Proof.
  intros A P l n H. revert n. induction H as [|x l Hx _ IH]; intros [|n]; cbn [firstn]; constructor; auto.
Qed.

Section TextHeaderProofs.
  Variable prefix : N.
  Variable St H : Type.
  Variable init : St.
  Variable parse_line : St -> list N -> option St.
  Variable finish : St -> option H.

  Notation th_run := (th_run St parse_line).
  Notation text_read_header := (text_read_header prefix St H init parse_line finish).
  Notation text_hdr_cut_result := (text_hdr_cut_result St H init parse_line finish).

  (* a written header line: starts with the prefix, holds no LF *)
  Definition hline_ok (l : list N) : Prop := (exists r, l = prefix :: r) /\ no_lf l.
  Definition htext (hls : list (list N)) : list N := concat (map (fun l => l ++ [10]) hls).
  (* the parser accepts the written lines in order and finish accepts the result *)
  Definition th_good (hls : list (list N)) (h : H) : Prop :=
    exists st, th_run (map (fun l => l ++ [10]) hls) init = Some st /\ finish st = Some h.
  (* a partial line: empty, or starts with the prefix and holds no LF *)
  Definition partial_ok (t : list N) : Prop := t = [] \/ ((exists r, t = prefix :: r) /\ no_lf t).

  Lemma th_run_app : forall a b st,
    th_run (a ++ b) st = match th_run a st with Some st' => th_run b st' | None => None end.
  Proof.
    induction a as [|x a IH]; intros b st; cbn [app TextHeader.th_run]; [reflexivity|].
    destruct (parse_line st (B.strip_eol x)); [apply IH|reflexivity].
  Qed.

  Lemma th_run_prefix : forall hls st j, th_run (map (fun l => l ++ [10]) hls) init = Some st ->
    exists sj, th_run (map (fun l => l ++ [10]) (firstn j hls)) init = Some sj.
  Proof.
    intros hls st j Hr. rewrite <- (firstn_skipn j hls) in Hr. rewrite map_app, th_run_app in Hr.
    destruct (th_run (map (fun l => l ++ [10]) (firstn j hls)) init) as [sj|]; [now exists sj|discriminate].
  Qed.

  (* the closed form of the header reader on complete lines followed by a tail *)
  Lemma hdr_closed_lines : forall hls fuel tail, Forall hline_ok hls -> (length hls < fuel)%nat ->
    HR.hdr_closed fuel prefix (htext hls ++ tail) =
      let '(ls, r) := HR.hdr_closed (fuel - length hls) prefix tail in
      (map (fun l => l ++ [10]) hls ++ ls, r).
  Proof.
    induction hls as [|l hls IH]; intros fuel tail HF Hf.
    - cbn [htext map concat app length]. rewrite Nat.sub_0_r.
      destruct (HR.hdr_closed fuel prefix tail). reflexivity.
    - inversion HF as [|l0 hls0 ((r & El) & Hnl) HF']; subst.
      destruct fuel as [|fuel]; [lia|]. cbn [length] in Hf.
      unfold htext. cbn [map concat]. rewrite <- !app_assoc. cbn [app HR.hdr_closed].
      rewrite N.eqb_refl.
      change (prefix :: r ++ 10 :: concat (map (fun l => l ++ [10]) hls) ++ tail)
        with ((prefix :: r) ++ 10 :: (htext hls ++ tail)).
      rewrite take_line_lf by exact Hnl.
      replace ((prefix :: r) ++ 10 :: htext hls ++ tail) with (((prefix :: r) ++ [10]) ++ htext hls ++ tail)
        by (rewrite <- app_assoc; reflexivity).
      rewrite skipn_app, skipn_all, Nat.sub_diag. cbn [skipn app].
      rewrite (IH fuel tail HF') by lia. cbn [length Nat.sub].
      destruct (HR.hdr_closed (fuel - length hls) prefix tail). reflexivity.
  Qed.

  Lemma hdr_closed_partial : forall k t, partial_ok t ->
    HR.hdr_closed (S k) prefix t = (match t with [] => [] | _ => [t] end, []).
  Proof.
    intros k t [-> | ((r & ->) & Hnl)]; [reflexivity|].
    cbn [HR.hdr_closed]. rewrite N.eqb_refl. rewrite take_line_nolf by exact Hnl.
    rewrite skipn_all. destruct k; reflexivity.
  Qed.

  Lemma hdr_closed_body : forall k x r, x <> prefix ->
    HR.hdr_closed (S k) prefix (x :: r) = ([], x :: r).
  Proof.
    intros k x r Hx. cbn [HR.hdr_closed]. assert (E : (x =? prefix) = false) by lia. now rewrite E.
  Qed.

  Lemma filter_complete : forall hls t, no_lf t ->
    filter (B.ends_with B.LF) (map (fun l => l ++ [10]) hls ++ match t with [] => [] | _ => [t] end) =
      map (fun l => l ++ [10]) hls.
  Proof.
    intros hls t Ht. induction hls as [|l hls IH]; cbn [map app filter].
    - destruct t; [reflexivity|]. cbn [filter]. now rewrite ends_with_lf_nolf.
    - rewrite ends_with_lf_snoc, IH. reflexivity.
  Qed.

  (* complete header lines followed by a partial line: exact result *)
  Theorem text_header_cut_in : forall hls h after j t,
    Forall hline_ok hls -> th_good hls h -> partial_ok t ->
    text_read_header after (htext (firstn j hls) ++ t) = text_hdr_cut_result after hls j t.
  Proof.
    intros hls h after j t HF (st & Hr & Hfin) Ht.
    assert (Hnl : no_lf t) by (destruct Ht as [-> | (_ & Hn)]; [constructor|exact Hn]).
    destruct (th_run_prefix hls st j Hr) as (sj & Hj).
    unfold text_read_header, TextHeader.text_read_header.
    rewrite hdr_closed_lines.
    2: { apply Forall_firstn'. exact HF. }
    2: { rewrite app_length. assert (length (firstn j hls) <= length (htext (firstn j hls)))%nat.
         { clear. induction (firstn j hls) as [|l ls IH]; [cbn; lia|].
           unfold htext in *. cbn [map concat length]. rewrite !app_length. cbn [length]. lia. }
         lia. }
    replace (S (length (htext (firstn j hls) ++ t)) - length (firstn j hls))%nat
      with (S (length (htext (firstn j hls) ++ t) - length (firstn j hls)))%nat.
    2: { rewrite app_length. assert (length (firstn j hls) <= length (htext (firstn j hls)))%nat.
         { clear. induction (firstn j hls) as [|l ls IH]; [cbn; lia|].
           unfold htext in *. cbn [map concat length]. rewrite !app_length. cbn [length]. lia. }
         lia. }
    rewrite hdr_closed_partial by exact Ht.
    unfold text_hdr_cut_result, TextHeader.text_hdr_cut_result.
    destruct after as [|e].
    - rewrite th_run_app, Hj. destruct t as [|c t']; cbn [TextHeader.th_run].
      + destruct (finish sj); reflexivity.
      + rewrite strip_eol_nolf by exact Hnl.
        destruct (parse_line sj (c :: t')) as [s|]; [|reflexivity].
        destruct (finish s); reflexivity.
    - rewrite filter_complete by exact Hnl. rewrite Hj. reflexivity.
  Qed.

  (* the whole header text followed by at least one byte of a record line *)
  Theorem text_header_whole : forall hls h after x r,
    Forall hline_ok hls -> th_good hls h -> x <> prefix ->
    text_read_header after (htext hls ++ x :: r) = HOk h (x :: r).
  Proof.
    intros hls h after x r HF (st & Hr & Hfin) Hx.
    unfold text_read_header, TextHeader.text_read_header.
    assert (Hlen : (length hls <= length (htext hls))%nat).
    { clear. induction hls as [|l ls IH]; [cbn; lia|].
      unfold htext in *. cbn [map concat length]. rewrite !app_length. cbn [length]. lia. }
    rewrite hdr_closed_lines by (try exact HF; rewrite app_length; cbn [length]; lia).
    replace (S (length (htext hls ++ x :: r)) - length hls)%nat
      with (S (length (htext hls ++ x :: r) - length hls))%nat
      by (rewrite app_length; cbn [length]; lia).
    rewrite hdr_closed_body by exact Hx. rewrite app_nil_r.
    rewrite Hr, Hfin. destruct after; reflexivity.
  Qed.

  (* where a cut of the header text falls: j complete lines and a strict prefix of line j *)
  Lemma htext_cut : forall hls k, Forall hline_ok hls -> (k <= length (htext hls))%nat ->
    exists j t, (j <= length hls)%nat /\ firstn k (htext hls) = htext (firstn j hls) ++ t /\
      partial_ok t /\
      (t = [] \/ exists l u, nth_error hls j = Some l /\ l ++ [10] = t ++ u /\ u <> []).
  Proof.
    induction hls as [|l hls IH]; intros k HF Hk.
    - cbn [htext map concat length] in Hk. assert (k = 0)%nat by lia. subst k.
      exists 0%nat, []. cbn. split; [lia|]. split; [reflexivity|]. split; left; reflexivity.
    - inversion HF as [|l0 hls0 Hl HF']; subst.
      unfold htext in *. cbn [map concat] in *. rewrite app_length in Hk.
      destruct (le_lt_dec (length (l ++ [10])) k) as [Hge | Hlt].
      + rewrite firstn_app_ge by exact Hge.
        destruct (IH (k - length (l ++ [10%N]))%nat HF') as (j & t & Hj & Hf & Hp & Hu); [lia|].
        exists (S j), t. cbn [firstn map concat length]. split; [lia|].
        split; [rewrite Hf; apply app_assoc|]. split; [exact Hp|].
        destruct Hu as [-> | Hu]; [left; reflexivity|right; exact Hu].
      + rewrite app_length in Hlt. cbn [length] in Hlt.
        rewrite firstn_app_lt by (rewrite app_length; cbn [length]; lia).
        rewrite firstn_app_lt by lia.
        exists 0%nat, (firstn k l). cbn [firstn map concat app length]. split; [lia|].
        split; [reflexivity|].
        destruct Hl as ((r & El) & Hnl).
        destruct k as [|k]; [split; left; reflexivity|].
        split.
        * right. split; [subst l; cbn [firstn]; eauto|]. unfold no_lf in *. now apply Forall_firstn'.
        * right. exists l, (skipn (S k) l ++ [10]). split; [reflexivity|].
          split; [rewrite app_assoc, firstn_skipn; reflexivity|]. intro E. apply app_eq_nil in E. destruct E; discriminate.
  Qed.

  (* the text header over every cut of  header text ++ body  (body = the record lines, empty or
     starting with a non-prefix byte): inside the header text (and exactly at its end) the result
     is [text_hdr_cut_result]; beyond it the written header and the delivered part of the body *)
  Theorem text_header_truncation : forall hls h body after k,
    Forall hline_ok hls -> th_good hls h ->
    ((k <= length (htext hls))%nat ->
       exists j t, (j <= length hls)%nat /\ firstn k (htext hls) = htext (firstn j hls) ++ t /\
         partial_ok t /\
         (t = [] \/ exists l u, nth_error hls j = Some l /\ l ++ [10] = t ++ u /\ u <> []) /\
         text_read_header after (firstn k (htext hls ++ body)) = text_hdr_cut_result after hls j t) /\
    ((length (htext hls) < k)%nat -> forall x r, body = x :: r -> x <> prefix ->
       text_read_header after (firstn k (htext hls ++ body)) =
         HOk h (firstn (k - length (htext hls)) body)).
  Proof.
    intros hls h body after k HF HG. split.
    - intro Hk. destruct (htext_cut hls k HF Hk) as (j & t & Hj & Hf & Hp & Hu).
      exists j, t. split; [exact Hj|]. split; [exact Hf|]. split; [exact Hp|]. split; [exact Hu|].
      rewrite firstn_app_lt by exact Hk. rewrite Hf.
      apply (text_header_cut_in hls h after j t HF HG Hp).
    - intros Hk x r Hb Hx. rewrite firstn_app_ge by lia. subst body.
      destruct (k - length (htext hls))%nat as [|m] eqn:E; [lia|]. cbn [firstn].
      apply (text_header_whole hls h after x (firstn m r) HF HG Hx).
  Qed.

  (* header + records *)
  Theorem text_file_truncation : forall (A : Type) (rd : stop -> list N -> step A) hls h body after k,
    Forall hline_ok hls -> th_good hls h -> (forall a, rd a [] = Stop a) ->
    ((k <= length (htext hls))%nat ->
       exists j t, (j <= length hls)%nat /\ firstn k (htext hls) = htext (firstn j hls) ++ t /\
         partial_ok t /\
         file_read text_read_header rd after (firstn k (htext hls ++ body)) =
           match text_hdr_cut_result after hls j t with
           | HErr e => (None, ([], Err e))
           | HOk h' _ => (Some h', ([], after))
           end) /\
    ((length (htext hls) < k)%nat -> forall x r, body = x :: r -> x <> prefix ->
       file_read text_read_header rd after (firstn k (htext hls ++ body)) =
         (Some h, read_stream (rd after) (firstn (k - length (htext hls)) body))).
  Proof.
    intros A rd hls h body after k HF HG Hnil.
    destruct (text_header_truncation hls h body after k HF HG) as (T1 & T2). split.
    - intro Hk. destruct (T1 Hk) as (j & t & Hj & Hf & Hp & _ & Hr).
      exists j, t. split; [exact Hj|]. split; [exact Hf|]. split; [exact Hp|].
      unfold file_read. rewrite Hr.
      unfold text_hdr_cut_result, TextHeader.text_hdr_cut_result.
      destruct after as [|e]; [|reflexivity].
      destruct (th_run _ init) as [st|]; [|reflexivity].
      destruct (match t with [] => Some st | _ :: _ => parse_line st t end) as [s|]; [|reflexivity].
      destruct (finish s); [|reflexivity].
      unfold read_stream. cbn [length read_all]. rewrite Hnil. reflexivity.
    - intros Hk x r Hb Hx. unfold file_read. rewrite (T2 Hk x r Hb Hx). reflexivity.
  Qed.
End TextHeaderProofs.

(* ------------------------------------------------------------------------------------------ *)
(* SAM instance (the concrete header parser of C06): the literal reading of C13 for the header -
   a cut inside the header text gives an error or the header of the complete lines - is false *)

Definition sam_hline_ok := hline_ok 64.
Definition sam_th_good (hls : list (list N)) (h : Sam.Header.header) : Prop :=
  th_good Sam.Header.pstate Sam.Header.header Sam.Header.init_pstate
    (fun st l => Sam.Header.parse_partial l st) (fun st => Some (snd st)) hls h.

Definition text_header_literal_statement : Prop :=
  forall hls k, Forall sam_hline_ok hls -> (exists h, sam_th_good hls h) ->
    (exists e, sam_text_read_header Eof (firstn k (htext hls)) = HErr e) \/
    (exists j, sam_text_read_header Eof (firstn k (htext hls)) = sam_text_read_header Eof (htext (firstn j hls))).

(* "@HD\tVN:1.6\tSO:unsorted" *)
Definition ex_hd_line : list N :=
  [64;72;68;9;86;78;58;49;46;54;9;83;79;58;117;110;115;111;114;116;101;100].

Lemma ex_hd_line_ok : Forall sam_hline_ok [ex_hd_line].
Proof.
  constructor; [|constructor]. split; [eexists; reflexivity|].
  unfold no_lf, ex_hd_line. repeat constructor; discriminate.
Qed.

Lemma ex_hd_line_good : exists h, sam_th_good [ex_hd_line] h.
Proof. eexists. eexists. split; [vm_compute; reflexivity|reflexivity]. Qed.

Theorem text_header_truncation_refuted : ~ text_header_literal_statement.
Proof.
  intro HS. destruct (HS [ex_hd_line] 10%nat ex_hd_line_ok ex_hd_line_good) as [(e & He) | (j & Hj)].
  - vm_compute in He. discriminate He.
  - destruct j as [|j].
    + vm_compute in Hj. discriminate Hj.
    + replace (firstn (S j) [ex_hd_line]) with [ex_hd_line] in Hj by (destruct j; reflexivity).
      vm_compute in Hj. discriminate Hj.
Qed.

(* the cut "@HD\tVN:1.6" of "@HD\tVN:1.6\tSO:unsorted\n": a header without the sort order is
   returned without error; a failing source gives the error *)
Lemma text_header_example :
  let text := htext [ex_hd_line] in
  (exists h1, sam_text_read_header Eof text = HOk h1 [] /\
     exists m, Sam.Header.h_hd h1 = Some m /\ Sam.Header.hd_other m <> []) /\
  (exists h2, sam_text_read_header Eof (firstn 10 text) = HOk h2 [] /\
     exists m, Sam.Header.h_hd h2 = Some m /\ Sam.Header.hd_other m = []) /\
  sam_text_read_header (Err UnexpectedEof) (firstn 10 text) = HErr UnexpectedEof /\
  sam_text_read_header Eof (firstn 9 text) = HErr InvalidData /\
  sam_text_read_header Eof (text ++ [114; 49]) = sam_text_read_header (Err UnexpectedEof) (text ++ [114; 49]).
Proof.
  cbn zeta. split; [|split; [|split; [|split]]].
  - eexists. split; [vm_compute; reflexivity|]. eexists. split; [reflexivity|discriminate].
  - eexists. split; [vm_compute; reflexivity|]. eexists. split; reflexivity.
  - vm_compute. reflexivity.
  - vm_compute. reflexivity.
  - vm_compute. reflexivity.
Qed.
