(* C13 — truncation of a text record stream (VCF / SAM lines), plain and on top of BGZF.

   What IS true for every cut: every complete line before the cut is returned unchanged and in
   order.  What the statement of C13 asks in addition ("never alters a record") is false: when
   the byte source ENDS (rather than fails) inside a line, the partial line is handed to the
   record parser as a final line without line feed and, if the parser accepts it, returned as
   the last record.  [text_cut_result] is the exact result. *)
From Coq Require Import List Arith NArith Bool Lia ZifyBool ZifyNat ZifyN.
From NV Require Import Base.LE Trunc.Stream Trunc.StreamProofs.
Import ListNotations.
Open Scope N_scope.

Arguments N.eqb : simpl never.

Definition byte_plain (b : N) : Prop := b <> 10 /\ b <> 13.

Lemma split_lf_none : forall l, Forall byte_plain l -> split_lf l = None.
Proof.
  induction l as [|b t IH]; intros H; [reflexivity|].
  inversion H as [|? ? (Hb & _) Ht]; subst. cbn [split_lf].
  assert (E : (b =? 10) = false) by lia. rewrite E. rewrite (IH Ht). reflexivity.
Qed.

Lemma split_lf_app : forall l rest, Forall byte_plain l -> split_lf (l ++ 10 :: rest) = Some (l, rest).
Proof.
  induction l as [|b t IH]; intros rest H; [reflexivity|].
  inversion H as [|? ? (Hb & _) Ht]; subst. cbn [split_lf app].
  assert (E : (b =? 10) = false) by lia. rewrite E. rewrite (IH rest Ht). reflexivity.
Qed.

Lemma strip_cr_plain : forall l, Forall byte_plain l -> strip_cr l = l.
Proof.
  intros l H. unfold strip_cr. destruct (rev l) as [|b r] eqn:E; [reflexivity|].
  assert (Hin : In b l). { apply in_rev. rewrite E. left. reflexivity. }
  rewrite Forall_forall in H. destruct (H b Hin) as (_ & H13).
  destruct b as [|p]; [reflexivity|].
  repeat (destruct p as [p|p|]; try reflexivity). exfalso. apply H13. reflexivity.
Qed.

Lemma Forall_firstn_list : forall (A : Type) (P : A -> Prop) (l : list A) n, Forall P l -> Forall P (firstn n l).
Proof.
  intros A P l. induction l as [|x t IH]; intros n H; [rewrite firstn_nil; constructor|].
  destruct n as [|n]; [constructor|]. inversion H; subst. cbn [firstn]. constructor; auto.
Qed.

Lemma firstn_S_nth_error : forall (A : Type) (l : list A) i x,
  nth_error l i = Some x -> firstn (S i) l = firstn i l ++ [x].
Proof.
  intros A l. induction l as [|y t IH]; intros i x H; [destruct i; discriminate H|].
  destruct i as [|i]; cbn [nth_error] in H.
  - injection H as Hx. subst. reflexivity.
  - cbn [firstn app]. f_equal. exact (IH i x H).
Qed.

Section TextProofs.
  Variable parse_ok : list N -> option ekind.

  (* a line as the writers produce it: no LF / CR inside, accepted by the record parser *)
  Definition line_good (l : list N) : Prop := Forall byte_plain l /\ parse_ok l = None.
  Definition text_enc (l : list N) : list N := l ++ [10].
  Definition text_encode (ls : list (list N)) : list N := encode _ text_enc ls.

  Lemma text_rd_full : forall after l rest, line_good l ->
    text_read_record parse_ok after (text_enc l ++ rest) = Item l rest.
  Proof.
    intros after l rest (Hp & Hok). unfold text_enc. rewrite <- app_assoc. cbn [app].
    unfold text_read_record.
    destruct (l ++ 10 :: rest) as [|b t] eqn:E; [destruct l; discriminate E|]. rewrite <- E.
    rewrite split_lf_app by exact Hp. rewrite strip_cr_plain by exact Hp. rewrite Hok. reflexivity.
  Qed.

  Lemma text_enc_nonempty : forall l, line_good l -> (0 < length (text_enc l))%nat.
  Proof. intros l _. unfold text_enc. rewrite app_length. cbn. lia. Qed.

  (* the reader on a proper, nonempty prefix of a line *)
  Definition text_pout (after : stop) (l : list N) (j : nat) : step (list N) :=
    match after with
    | Err e => Stop (Err e)
    | Eof => match parse_ok (firstn j l) with
             | Some e => Stop (Err e)
             | None => Item (firstn j l) []
             end
    end.

  Lemma text_rd_part : forall after l j, line_good l -> (0 < j < length (text_enc l))%nat ->
    text_read_record parse_ok after (firstn j (text_enc l)) = text_pout after l j.
  Proof.
    intros after l j (Hp & _) Hj. unfold text_enc in *. rewrite app_length in Hj. cbn [length] in Hj.
    rewrite firstn_app_lt by lia.
    assert (Hpf : Forall byte_plain (firstn j l)) by (apply Forall_firstn_list; exact Hp).
    unfold text_read_record, text_pout.
    destruct (firstn j l) as [|b t] eqn:E.
    { apply (f_equal (@length N)) in E. rewrite firstn_length in E. cbn [length] in E. lia. }
    rewrite split_lf_none by exact Hpf. reflexivity.
  Qed.

  (* the exact result of reading a stream cut n bytes in, i = number of whole lines before n *)
  Definition text_cut_result (after : stop) (ls : list (list N)) (i n : nat) : list (list N) * stop :=
    let b := length (text_encode (firstn i ls)) in
    match nth_error ls i with
    | None => (firstn i ls, after)
    | Some l =>
      if (n =? b)%nat then (firstn i ls, after)
      else match after with
           | Err e => (firstn i ls, Err e)
           | Eof => match parse_ok (firstn (n - b) l) with
                    | Some e => (firstn i ls, Err e)
                    | None => (firstn i ls ++ [firstn (n - b) l], Eof)
                    end
           end
    end.

  Theorem text_stream_truncation : forall after ls k, Forall line_good ls ->
    exists i : nat,
      (i <= length ls)%nat /\
      (length (text_encode (firstn i ls)) <= k)%nat /\
      (i < length ls -> k < length (text_encode (firstn (S i) ls)))%nat /\
      read_stream (text_read_record parse_ok after) (firstn k (text_encode ls)) =
        text_cut_result after ls i k.
  Proof.
    intros after ls k Hg. set (i := whole _ text_enc ls k).
    pose (idf := fun l : list N => l).
    exists i. split; [apply (whole_le' _ _ text_enc idf line_good)|].
    split; [apply (whole_fits' _ _ text_enc idf line_good)|].
    split; [apply (whole_next' _ _ text_enc idf line_good)|].
    assert (Hgi : Forall line_good (firstn i ls)) by (apply Forall_firstn_list; exact Hg).
    assert (Hnil : text_read_record parse_ok after [] = Stop after) by reflexivity.
    pose proof (whole_fits' _ _ text_enc idf line_good ls k) as Hfit. fold i in Hfit.
    assert (Happ : forall tail s, text_read_record parse_ok after tail = Stop s ->
              read_stream (text_read_record parse_ok after)
                (encode (list N) text_enc (firstn i ls) ++ tail) = (firstn i ls, s)).
    { intros tail s Hs. rewrite <- (map_id (firstn i ls)) at 2.
      apply (read_stream_app_stop _ _ text_enc (fun l => l) line_good
               (text_read_record parse_ok after) (text_rd_full after) text_enc_nonempty); assumption. }
    unfold text_encode. rewrite (firstn_encode_split _ _ text_enc idf line_good ls k). fold i.
    unfold text_cut_result, text_encode.
    set (b := length (encode (list N) text_enc (firstn i ls))) in *.
    destruct (nth_error ls i) as [l|] eqn:En.
    - assert (Hl : line_good l).
      { rewrite Forall_forall in Hg. apply Hg. eapply nth_error_In. exact En. }
      assert (Hlt : (i < length ls)%nat) by (apply nth_error_Some; congruence).
      pose proof (whole_next' _ _ text_enc idf line_good ls k Hlt) as Hnext. fold i in Hnext.
      assert (Hb1 : length (encode (list N) text_enc (firstn (S i) ls)) = (b + length (text_enc l))%nat).
      { rewrite (firstn_S_nth_error _ ls i l En). unfold b, encode.
        rewrite map_app, concat_app, app_length. cbn [map concat]. rewrite app_nil_r. reflexivity. }
      destruct (k =? b)%nat eqn:Ek.
      + replace (k - b)%nat with O by lia. cbn [firstn]. apply Happ. exact Hnil.
      + assert (Hj : (0 < k - b < length (text_enc l))%nat) by lia.
        pose proof (text_rd_part after l (k - b)%nat Hl Hj) as Hpart. unfold text_pout in Hpart.
        destruct after as [|e].
        * destruct (parse_ok (firstn (k - b) l)) as [e|] eqn:Ep.
          -- apply Happ. exact Hpart.
          -- rewrite <- (map_id (firstn i ls)) at 2.
             apply (read_stream_app_item_stop _ _ text_enc (fun l => l) line_good
                      (text_read_record parse_ok Eof) (text_rd_full Eof) text_enc_nonempty);
               [exact Hgi| |exact Hpart|exact Hnil].
             rewrite firstn_length. lia.
        * apply Happ. exact Hpart.
    - apply Happ. exact Hnil.
  Qed.

  (* the complete lines before the cut are always returned, unchanged and in order: the i-th
     returned item is the i-th written line whenever it is not the last returned item *)
  Theorem text_complete_lines_unchanged : forall after ls k i l, Forall line_good ls ->
    let res := fst (read_stream (text_read_record parse_ok after) (firstn k (text_encode ls))) in
    (S i < length res)%nat -> nth_error res i = Some l -> nth_error ls i = Some l.
  Proof.
    intros after ls k i l Hg res Hi Hn.
    destruct (text_stream_truncation after ls k Hg) as (j & Hj & _ & _ & Hr).
    unfold res in *. rewrite Hr in *. clear Hr res. unfold text_cut_result in *.
    assert (Hpre : forall m, (m < j)%nat -> nth_error (firstn j ls) m = nth_error ls m).
    { intros m Hm. rewrite <- (firstn_skipn j ls) at 2. rewrite nth_error_app1; [reflexivity|].
      rewrite firstn_length. lia. }
    assert (Hfl : length (firstn j ls) = j) by (rewrite firstn_length; lia).
    destruct (nth_error ls j) as [x|].
    - destruct (k =? length (text_encode (firstn j ls)))%nat.
      + cbn [fst] in *. rewrite <- Hpre by lia. exact Hn.
      + destruct after as [|e].
        * destruct (parse_ok (firstn (k - length (text_encode (firstn j ls))) x)).
          -- cbn [fst] in *. rewrite <- Hpre by lia. exact Hn.
          -- cbn [fst] in *. rewrite app_length in Hi. cbn [length] in Hi.
             rewrite nth_error_app1 in Hn by lia. rewrite <- Hpre by lia. exact Hn.
        * cbn [fst] in *. rewrite <- Hpre by lia. exact Hn.
    - cbn [fst] in *. rewrite <- Hpre by lia. exact Hn.
  Qed.
End TextProofs.

(* the statement of C13 for text ("every reader yields a prefix of the written records,
   unchanged") is FALSE for a source that ends inside a line: witness *)
Definition text_truncation_full_statement : Prop :=
  forall (parse_ok : list N -> option ekind) ls k, Forall (line_good parse_ok) ls ->
    exists j, fst (read_stream (text_read_record parse_ok Eof) (firstn k (text_encode ls))) = firstn j ls.

Theorem text_truncation_refuted : ~ text_truncation_full_statement.
Proof.
  intros H.
  destruct (H (fun _ => None) [[65; 66; 67]] 2%nat) as (j & Hj).
  - apply Forall_cons; [|apply Forall_nil]. split; [|reflexivity].
    repeat (apply Forall_cons; [split; discriminate|]). apply Forall_nil.
  - vm_compute in Hj. destruct j as [|[|j]]; discriminate Hj.
Qed.

(* ---------- on top of BGZF ---------- *)
Section TextOverBgzf.
  Variable inflate : list N -> option (list N).
  Variable parse_ok : list N -> option ekind.

  (* bgzipped text cut at k: the BGZF layer delivers the data p of the frames wholly inside the
     cut and then reports s (Eof at a frame boundary or < 18 bytes into the next frame, else
     UnexpectedEof); the record reader returns every complete line inside p and then
     - s, when p ends at a line boundary;
     - the error s, when s is an error (the partial line is dropped);
     - when s = Eof and p ends inside a line: the partial line as one more, ALTERED record (a
       proper prefix of the written line, or the whole line when only its line feed is cut) if
       the record parser accepts it, else the parser's error.
     So the only possible alteration is the last returned record, exactly when the cut falls
     inside that line at a point the BGZF layer reads as a clean end. *)
  Theorem text_over_bgzf_truncation : forall fs ls hdrbytes k,
    Forall (frame_good inflate) fs -> Forall (line_good parse_ok) ls ->
    concat (map (frame_data inflate) fs) = hdrbytes ++ text_encode ls ->
    exists (j : nat) (s : stop),
      bgzf_blocks inflate (firstn k (bgzf_file fs)) = (map (frame_data inflate) (firstn j fs), s) /\
      (s = Eof \/ s = Err UnexpectedEof) /\
      let p := concat (map (frame_data inflate) (firstn j fs)) in
      let n := (length p - length hdrbytes)%nat in
      if (length p <? length hdrbytes)%nat
      then rec_over_bgzf inflate (text_read_record parse_ok) (length hdrbytes) (firstn k (bgzf_file fs)) = None
      else exists i : nat,
        (i <= length ls)%nat /\
        (length (text_encode (firstn i ls)) <= n)%nat /\
        (i < length ls -> n < length (text_encode (firstn (S i) ls)))%nat /\
        rec_over_bgzf inflate (text_read_record parse_ok) (length hdrbytes) (firstn k (bgzf_file fs)) =
          Some (text_cut_result parse_ok s ls i n).
  Proof.
    intros fs ls hdrbytes k Hf Hl Hcat.
    destruct (rec_over_bgzf_truncation inflate _ (text_read_record parse_ok) fs (text_encode ls)
                hdrbytes k Hf Hcat) as (j & s & Hb & Hs & Hr).
    exists j, s. split; [exact Hb|]. split; [exact Hs|]. cbn zeta in *.
    destruct (length (concat (map (frame_data inflate) (firstn j fs))) <? length hdrbytes)%nat; [exact Hr|].
    destruct (text_stream_truncation parse_ok s ls
                (length (concat (map (frame_data inflate) (firstn j fs))) - length hdrbytes)%nat Hl)
      as (i & H1 & H2 & H3 & H4).
    exists i. split; [exact H1|]. split; [exact H2|]. split; [exact H3|].
    rewrite Hr, H4. reflexivity.
  Qed.
End TextOverBgzf.
