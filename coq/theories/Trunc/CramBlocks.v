(* C13 — the blocks and slices INSIDE a CRAM container body.  Definitions only; proofs are in
   CramBlocksProofs.v.

   Modelled code (noodles-cram/src/io/reader/container/ ...):
   * block.rs read_block / read_block_as: method byte (decode: > 8 is InvalidData), content type
     byte (> 5 is InvalidData), content id (ITF8), compressed size, uncompressed size
     (ITF8 as usize: negative is InvalidData), `compressed size` data bytes (split_off: None is
     UnexpectedEof), then the CRC32 of everything read so far compared with the stored u32
     (mismatch is InvalidData), then the content type check of read_block_as     -> [read_block_as]
   * slice/header.rs read_header: the slice header block, its content (Block::decode: a raw
     block or a block of uncompressed size 0 is its data; other methods are the parameter [dec]),
     parsed by read_header_inner: reference context (ITF8 x3, validated), record count, record
     counter (LTF8), block count, content ids, embedded reference id, 16 MD5 bytes, tags = rest
                                                                              -> [read_slice_header]
   * slice.rs decode_blocks: the core data block, then block_count - 1 external blocks (a block
     count of 0 is InvalidData), each decoded                                   -> [slice_blocks]
   * container.rs compression_header / slices: the compression header block is read from
     src[..landmarks[0]] (or the whole body without landmarks), slice i from
     src[landmarks[i]..landmarks[i+1]] (the last one to the end of the body); a range outside the
     body is InvalidData ("invalid landmark")                                   -> [container_blocks]
   The decoding of the compression header's content and of compressed block data (gzip, rANS, ...)
   are parameters that accept what the writer produced. *)
From Coq Require Import List Arith NArith ZArith Bool.
From NV Require Import Base.LE Trunc.Stream Cram.Bytes Cram.Itf8 Cram.Ltf8 Trunc.Cram.
Import ListNotations.
Open Scope N_scope.

Record blk : Type := mkblk {
  b_method : N;
  b_ctype : N;
  b_cid : Z;
  b_usize : N;
  b_data : list N
}.

(* one byte, decoded by a table of [lim] valid values *)
Definition r_code (lim : N) : rparser N :=
  r_bind (r_take 1) (fun h => let b := nth 0 h 0 in if b <? lim then r_ret b else r_fail InvalidData).

Definition blk_fields : rparser blk :=
  r_bind (r_code 9) (fun m =>
  r_bind (r_code 6) (fun ct =>
  r_bind r_itf8 (fun cid =>
  r_bind r_itf8_as (fun csize =>
  r_bind r_itf8_as (fun usize =>
  r_bind (r_take csize) (fun d =>
  r_ret (mkblk m ct cid usize d))))))).

Definition CT_COMPRESSION_HEADER : N := 1.
Definition CT_SLICE_HEADER : N := 2.
Definition CT_EXTERNAL : N := 4.
Definition CT_CORE : N := 5.

Section Blocks.
  Variable crc : list N -> N.
  (* Block::decode for a compressed block: inl e = the codec fails *)
  Variable dec : blk -> ekind + list N.

  Definition read_block_as (ct : N) : rparser blk :=
    r_bind (with_crc crc blk_fields) (fun bc =>
      if b_ctype (fst bc) =? ct then r_ret (fst bc) else r_fail InvalidData).

  (* read_block sets the method to None when the uncompressed size is 0 *)
  Definition blk_content (b : blk) : ekind + list N :=
    if (b_method b =? 0) || (b_usize b =? 0) then inr (b_data b) else dec b.

  Definition r_decoded (ct : N) : rparser (blk * list N) :=
    r_bind (read_block_as ct) (fun b =>
      match blk_content b with
      | inl e => r_fail e
      | inr d => r_ret (b, d)
      end).

  (* read_header_inner on the decoded content: the block count *)
  Definition slice_header_fields : rparser N :=
    r_bind r_itf8 (fun rid =>
    r_bind r_itf8 (fun start =>
    r_bind r_itf8 (fun span =>
    if negb (ctx_ok rid start span) then r_fail InvalidData else
    r_bind r_itf8_as (fun _ =>
    r_bind r_ltf8_as (fun _ =>
    r_bind r_itf8_as (fun nblocks =>
    r_bind r_itf8_as (fun nids =>
    r_bind (r_repeat (N.to_nat nids) r_itf8) (fun _ =>
    r_bind r_itf8 (fun _ =>
    r_bind (r_take 16) (fun _ =>
    r_ret nblocks)))))))))).

  Definition read_slice_header : rparser N :=
    r_bind (r_decoded CT_SLICE_HEADER) (fun bd => fun rest =>
      match slice_header_fields (snd bd) with
      | POk n _ => POk n rest
      | PErr e => PErr e
      end).

  (* read_slice + decode_blocks: the number of external blocks decoded *)
  Definition slice_blocks : rparser N :=
    r_bind read_slice_header (fun nblocks =>
    r_bind (r_decoded CT_CORE) (fun _ =>
    if nblocks =? 0 then r_fail InvalidData else
    r_bind (r_repeat (N.to_nat (nblocks - 1)) (r_decoded CT_EXTERNAL)) (fun ext =>
    r_ret (N.of_nat (length ext))))).

  (* src.get(a..b) *)
  Definition get_range (a b : N) (src : list N) : option (list N) :=
    if (b <? a) || (N.of_nat (length src) <? b) then None
    else Some (firstn (N.to_nat (b - a)) (skipn (N.to_nat a) src)).

  (* Container::compression_header: the block is read, its content decoded (the parse of the
     content is not modelled: it accepts what the writer produced) *)
  Definition container_comp_header (lms : list N) (body : list N) : option ekind :=
    let e := match lms with l :: _ => l | [] => N.of_nat (length body) end in
    match get_range 0 e body with
    | None => Some InvalidData
    | Some src =>
        match r_decoded CT_COMPRESSION_HEADER src with
        | PErr er => Some er
        | POk _ _ => None
        end
    end.

  (* Container::slices driven to the first error, decode_blocks on every slice: the external
     block counts of the slices decoded, then how it ended (Eof = all landmarks done) *)
  Fixpoint container_slices (lms : list N) (body : list N) : list N * stop :=
    match lms with
    | [] => ([], Eof)
    | a :: rest =>
        let b := match rest with l :: _ => l | [] => N.of_nat (length body) end in
        match get_range a b body with
        | None => ([], Err InvalidData)
        | Some src =>
            match slice_blocks src with
            | PErr e => ([], Err e)
            | POk n _ => let (ns, s) := container_slices rest body in (n :: ns, s)
            end
        end
    end.
End Blocks.

(* observation for the correspondence check: CRC-32 of NV.Bgzf.Crc32; compressed blocks decode
   (the files are written by noodles); (compression header outcome, slices, stop) *)
Definition obs_cram_blocks (lms : list N) (k : nat) (body : list N) : N * (list N * N) :=
  let p := firstn k body in
  let dec := fun b : blk => @inr ekind (list N) [] in
  (match container_comp_header Bgzf.Crc32.crc32 dec lms p with None => 0 | Some e => stop_code (Err e) end,
   let (ns, s) := container_slices Bgzf.Crc32.crc32 dec lms p in (ns, stop_code s)).
