(* C13 — framing-level model of the sequential CRAM reader: the file definition, the header
   container, the data containers and the EOF container, as the reader frames them.

   Modelled code (what it does, not what it should do):
   * noodles-cram/src/io/reader/header.rs  read_file_definition (magic number validated, format
     version and file id only consumed) -> [read_file_definition]
   * noodles-cram/src/io/reader/header/container/header.rs  read_header (length i32 LE that must
     be >= 0, ITF8/LTF8 fields that are only consumed, the landmark count as usize, CRC32 of the
     consumed bytes) -> [hc_read_header];  header/container.rs: the body is read through
     io::Take(len) and discarded to its end, so a source that ends early inside the body is NOT
     an error of the framing layer -> [read_header_container] (the decoding of the body = block
     header, optional gzip, SAM header text is the parameter [hdr_body])
   * noodles-cram/src/io/reader/container/header.rs  read_header_inner, read_landmarks, is_eof,
     ReferenceSequenceContext::try_from -> [dc_read_header]
   * noodles-cram/src/io/reader/container.rs  read_container (after the repair 2813634: a header
     result of 0 -- the EOF container, or any container that declares length 0 -- makes the
     reader consume EOF_LENGTH = 15 more bytes with read_exact) -> [cram_parse_container],
     [cram_read_container]
   * noodles-cram/src/io/reader/records.rs  the loop over containers -> [read_stream] of Stream.v
   ITF8 / LTF8 are the bit-exact models of NV.Cram.{Itf8,Ltf8}; CRC32 is the parameter [crc].

   Parsers have a three-way result so that the error kind is part of the model.
   Definitions only; proofs are in CramProofs.v. *)
From Coq Require Import List Arith NArith ZArith Bool.
From NV Require Import Base.LE Trunc.Stream Cram.Bytes Cram.Itf8 Cram.Ltf8 Bgzf.Crc32.
Import ListNotations.
Open Scope N_scope.

Inductive pres (A : Type) : Type :=
| POk (x : A) (rest : list N)
| PErr (e : ekind).
Arguments POk {A} x rest.
Arguments PErr {A} e.

Definition rparser (A : Type) : Type := list N -> pres A.

Definition r_bind {A B : Type} (p : rparser A) (f : A -> rparser B) : rparser B := fun bs =>
  match p bs with
  | POk x r => f x r
  | PErr e => PErr e
  end.
Definition r_ret {A : Type} (x : A) : rparser A := fun bs => POk x bs.
Definition r_fail {A : Type} (e : ekind) : rparser A := fun _ => PErr e.

(* read_exact of n bytes *)
Definition r_take (n : N) : rparser (list N) := fun bs =>
  match take n bs with
  | Some (h, r) => POk h r
  | None => PErr UnexpectedEof
  end.

(* read_u32_le / the u32 view of read_i32_le *)
Definition r_u32le : rparser N := r_bind (r_take 4) (fun h => r_ret (le_dec h)).

(* read_i32_le followed by usize::try_from / u64::try_from: a negative length is InvalidData *)
Definition r_len32 : rparser N :=
  r_bind r_u32le (fun u => if u <? 2147483648 then r_ret u else r_fail InvalidData).

Definition r_itf8 : rparser Z := fun bs =>
  match read_itf8 bs with
  | Some (v, r) => POk v r
  | None => PErr UnexpectedEof
  end.

Definition r_ltf8 : rparser Z := fun bs =>
  match read_ltf8 bs with
  | Some (v, r) => POk v r
  | None => PErr UnexpectedEof
  end.

(* read_itf8_as::<usize> / read_ltf8_as::<u64>: a negative value is InvalidData *)
Definition r_itf8_as : rparser N :=
  r_bind r_itf8 (fun v => if (v <? 0)%Z then r_fail InvalidData else r_ret (Z.to_N v)).
Definition r_ltf8_as : rparser N :=
  r_bind r_ltf8 (fun v => if (v <? 0)%Z then r_fail InvalidData else r_ret (Z.to_N v)).

Fixpoint r_repeat {A : Type} (n : nat) (p : rparser A) : rparser (list A) :=
  match n with
  | O => r_ret []
  | S n' => r_bind p (fun x => r_bind (r_repeat n' p) (fun xs => r_ret (x :: xs)))
  end.

(* ------------------------------------------------------------------------------------------ *)
(* file definition: "CRAM", major, minor, 20-byte file id *)

Definition cram_magic : list N := [67; 82; 65; 77].

Definition read_file_definition : rparser (list N * list N) :=
  r_bind (r_take 4) (fun m =>
    if bytes_eqb m cram_magic then
      r_bind (r_take 2) (fun v => r_bind (r_take 20) (fun id => r_ret (v, id)))
    else r_fail InvalidData).

(* ------------------------------------------------------------------------------------------ *)
(* container headers *)

Record chdr : Type := mkchdr {
  ch_len : N;            (* length of the blocks that follow *)
  ch_rid : Z;            (* reference sequence id *)
  ch_start : Z;          (* alignment start *)
  ch_span : Z;           (* alignment span *)
  ch_nrec : N;           (* number of records *)
  ch_counter : N;        (* record counter *)
  ch_bases : N;          (* base count *)
  ch_nblocks : N;        (* block count *)
  ch_landmarks : list N
}.

(* ReferenceSequenceContext::try_from((id, start, span)): -1 and -2 are accepted as they are;
   otherwise id >= 0, start >= 1 (Position), span >= 1 (NonZero); start + span - 1 cannot
   overflow a 64-bit usize with i32 operands *)
Definition ctx_ok (rid start span : Z) : bool :=
  if (rid =? -1)%Z then true
  else if (rid =? -2)%Z then true
  else (0 <=? rid)%Z && (1 <=? start)%Z && (1 <=? span)%Z.

Definition r_landmarks : rparser (list N) :=
  r_bind r_itf8_as (fun n => r_repeat (N.to_nat n) r_itf8_as).

(* the fields of a data container header in reading order (everything the CrcReader sees) *)
Definition dc_fields : rparser chdr :=
  r_bind r_len32 (fun len =>
  r_bind r_itf8 (fun rid =>
  r_bind r_itf8 (fun start =>
  r_bind r_itf8 (fun span =>
  if negb (ctx_ok rid start span) then r_fail InvalidData else
  r_bind r_itf8_as (fun nrec =>
  r_bind r_ltf8_as (fun counter =>
  r_bind r_ltf8_as (fun bases =>
  r_bind r_itf8_as (fun nblocks =>
  r_bind r_landmarks (fun lms =>
  r_ret (mkchdr len rid start span nrec counter bases nblocks lms)))))))))).

(* the fields of the header container's header: the same layout, nothing validated except the
   length and the landmark count *)
Definition hc_fields : rparser N :=
  r_bind r_len32 (fun len =>
  r_bind r_itf8 (fun _ =>
  r_bind r_itf8 (fun _ =>
  r_bind r_itf8 (fun _ =>
  r_bind r_itf8 (fun _ =>
  r_bind r_ltf8 (fun _ =>
  r_bind r_ltf8 (fun _ =>
  r_bind r_itf8 (fun _ =>
  r_bind r_itf8_as (fun n =>
  r_bind (r_repeat (N.to_nat n) r_itf8) (fun _ =>
  r_ret len)))))))))).

Definition eof_length : N := 15.
Definition eof_crc32 : N := 1339669765.          (* 0x4fd9bd05 *)
Definition eof_alignment_start : Z := 4542278.

Section CRC.
  Variable crc : list N -> N.

  (* run a field parser under the CrcReader, then read and compare the stored CRC32; the result
     carries the computed CRC (is_eof looks at it) *)
  Definition with_crc {A : Type} (p : rparser A) : rparser (A * N) := fun bs =>
    match p bs with
    | PErr e => PErr e
    | POk x r =>
      let actual := crc (firstn (length bs - length r) bs) in
      match r_u32le r with
      | PErr e => PErr e
      | POk expected r' =>
        if actual =? expected then POk (x, actual) r' else PErr InvalidData
      end
    end.

  Definition is_eof (h : chdr) (c : N) : bool :=
    (ch_len h =? eof_length) && (ch_rid h =? -1)%Z && (ch_start h =? eof_alignment_start)%Z
    && (ch_nblocks h =? 1) && (c =? eof_crc32).

  (* container/header.rs::read_header: 0 for the EOF container, else the length *)
  Definition dc_read_header : rparser (chdr * N) :=
    r_bind (with_crc dc_fields) (fun hc =>
      r_ret (fst hc, if is_eof (fst hc) (snd hc) then 0 else ch_len (fst hc))).

  (* container.rs::read_container as a parser: (header, body, true = end of stream) *)
  Definition cram_parse_container : rparser (chdr * list N * bool) :=
    r_bind dc_read_header (fun hl =>
      if snd hl =? 0 then r_bind (r_take eof_length) (fun b => r_ret (fst hl, b, true))
      else r_bind (r_take (snd hl)) (fun b => r_ret (fst hl, b, false))).

  Definition cram_read_container (bs : list N) : step (chdr * list N) :=
    match cram_parse_container bs with
    | PErr e => Stop (Err e)
    | POk (h, b, true) _ => Stop Eof
    | POk (h, b, false) r => Item (h, b) r
    end.

  Definition hc_read_header : rparser N := r_bind (with_crc hc_fields) (fun lc => r_ret (fst lc)).

  (* what the decoding of the header container's body (block header, gzip, SAM header text)
     reports on the bytes it is given: None = accepted *)
  Variable hdr_body : list N -> option ekind.

  (* the body goes through io::Take(len) and is discarded to its end: the framing layer takes
     what is there *)
  Definition read_header_container : rparser unit :=
    r_bind hc_read_header (fun len => fun r =>
      let n := N.to_nat len in
      match hdr_body (firstn n r) with
      | Some e => PErr e
      | None => POk tt (skipn n r)
      end).

  (* Reader::read_header then the container loop of Records: (header read?, containers, stop) *)
  Definition cram_read (file : list N) : bool * (list (chdr * list N) * stop) :=
    match r_bind read_file_definition (fun _ => read_header_container) file with
    | PErr e => (false, ([], Err e))
    | POk _ r => (true, read_stream cram_read_container r)
    end.
End CRC.

(* ------------------------------------------------------------------------------------------ *)
(* observation for the correspondence check: the CRC is NV.Bgzf.Crc32.crc32 (instantiated in the
   extraction file); the header body decoder is a table indexed by the number of body bytes that
   are present (built by the harness from what the real decoder reports on that prefix; beyond
   the table = accepted) *)
Definition ekind_of_code (c : N) : option ekind :=
  if c =? 0 then None else if c =? 1 then Some UnexpectedEof else Some InvalidData.

Definition hdr_body_table (tab : list N) (body : list N) : option ekind :=
  ekind_of_code (nth (length body) tab 0).

(* (header read, lengths of the container bodies returned, stop code) *)
Definition obs_cram (crc : list N -> N) (tab : list N) (k : nat) (file : list N) : bool * (list N * N) :=
  let '(h, (cs, s)) := cram_read crc (hdr_body_table tab) (firstn k file) in
  (h, (map (fun c => N.of_nat (length (snd c))) cs, stop_code s)).

(* the instance compared with the implementation: CRC-32 of NV.Bgzf.Crc32 (IEEE, as flate2's Crc) *)
Definition obs_cram32 : list N -> nat -> list N -> bool * (list (N * (N * N)) * N) :=
  fun tab k file =>
    let '(h, (cs, s)) := cram_read crc32 (hdr_body_table tab) (firstn k file) in
    (h, (map (fun c => (N.of_nat (length (snd c)), (ch_nrec (fst c), N.of_nat (length (ch_landmarks (fst c)))))) cs,
         stop_code s)).
