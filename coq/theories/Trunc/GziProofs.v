(* C13 — truncation of a gzi index (noodles-bgzf/src/gzi/io/reader/index.rs, model read_gzi /
   w_gzi of NV.Index.Layout): u64 count, count pairs of u64, then the reader demands the end of
   the input.  The layout has no optional tail, so EVERY proper prefix of a written index is an
   error.  Same parser-stability argument as for BAI. *)
From Coq Require Import List Arith NArith Bool Lia ZifyBool ZifyNat ZifyN.
From NV Require Import Base.LE Index.Layout Index.LayoutProofs Trunc.BaiProofs.
Import ListNotations.
Open Scope N_scope.

(* the count-driven part of read_gzi *)
Definition p_gzi : parser (list (N * N)) := fun bs =>
  match p_le 8 bs with
  | None => None
  | Some (n, r) => p_repeat (N.to_nat n) p_chunk r
  end.

Lemma read_gzi_p_gzi : forall bs,
  read_gzi bs = match p_gzi bs with Some (l, []) => Some l | _ => None end.
Proof. intros bs. unfold read_gzi, p_gzi. destruct (p_le 8 bs) as [[n r]|]; reflexivity. Qed.

Lemma stable_p_gzi : stable p_gzi.
Proof.
  intros bs x rest ext H. unfold p_gzi in *.
  destruct (p_le 8 bs) as [[n r]|] eqn:E0; [|discriminate H].
  rewrite (stable_p_le 8 _ _ _ ext E0).
  exact (stable_p_repeat _ _ stable_p_chunk _ _ _ _ ext H).
Qed.

Theorem gzi_truncation : forall idx k,
  N.of_nat (length idx) < 18446744073709551616 -> Forall chunk_ok idx ->
  let file := w_gzi idx in
  ((k < length file)%nat -> read_gzi (firstn k file) = None) /\
  ((length file <= k)%nat -> read_gzi (firstn k file) = Some idx).
Proof.
  intros idx k Hlen Hok file. split.
  - intros Hk. rewrite read_gzi_p_gzi.
    destruct (p_gzi (firstn k file)) as [[l r]|] eqn:E; [|reflexivity].
    destruct r as [|b t]; [|reflexivity]. exfalso.
    pose proof (stable_p_gzi _ _ _ (skipn k file) E) as H2. rewrite firstn_skipn in H2.
    pose proof (gzi_roundtrip idx Hlen Hok) as HR. fold file in HR. rewrite read_gzi_p_gzi in HR.
    rewrite H2 in HR. cbn [app] in HR.
    destruct (skipn k file) as [|b t] eqn:Es; [|discriminate HR].
    apply (f_equal (@length N)) in Es. rewrite skipn_length in Es. cbn [length] in Es. lia.
  - intros Hk. rewrite firstn_all2 by exact Hk. apply gzi_roundtrip; assumption.
Qed.

Example gzi_trunc_example :
  let idx := [(100, 65280); (230, 130560)] in
  length (w_gzi idx) = 40%nat /\
  read_gzi (firstn 39 (w_gzi idx)) = None /\
  read_gzi (firstn 24 (w_gzi idx)) = None /\
  read_gzi (firstn 8 (w_gzi idx)) = None /\
  read_gzi (firstn 40 (w_gzi idx)) = Some idx.
Proof. vm_compute. repeat split. Qed.
