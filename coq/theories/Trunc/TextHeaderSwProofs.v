(* C13 -- the VCF text header reader since `fix:` ae9f807 (read_header stops behind the line the
   parser takes for #CHROM): NV.Trunc.TextHeader.text_read_header_sw.
   - [text_header_whole_sw]: the whole header text followed by ANYTHING (nothing, a record, a line
     that starts with '#', a source that fails) returns the written header and leaves exactly what
     follows unread - the source's outcome behind the #CHROM line never reaches read_header;
   - [text_header_cut_in_sw]: j complete header lines (j below the last) and a partial line: the
     result is [text_hdr_cut_result] (the same function as before the repair: error of a failing
     source; on a source that ends the header built from the j lines and the partial line). *)
From Coq Require Import List Arith NArith Bool Lia ZifyBool ZifyNat ZifyN.
From NV Require Import Base.LE Trunc.Stream Trunc.StreamProofs Trunc.Header Trunc.TextHeader Trunc.TextHeaderProofs.
From NV Require Io.BufReader Io.HeaderRead.
Import ListNotations.
Open Scope N_scope.

Arguments N.eqb : simpl never.

Lemma take_line_firstn : forall b d, B.take_line b d ++ skipn (length (B.take_line b d)) d = d.
Proof.
  intros b. induction d as [|x r IH]; [reflexivity|]. cbn [B.take_line].
  destruct (N.eqb x b); cbn [length skipn app]; [reflexivity|]. rewrite IH. reflexivity.
Qed.

Lemma hdr_closed_concat : forall k p d ls r, HR.hdr_closed k p d = (ls, r) -> concat ls ++ r = d.
Proof.
  induction k as [|k IH]; intros p d ls r H; cbn [HR.hdr_closed] in H.
  - injection H as H1 H2. subst ls r. reflexivity.
  - destruct d as [|x t]; [injection H as H1 H2; subst ls r; reflexivity|].
    destruct (N.eqb x p).
    + destruct (HR.hdr_closed k p (skipn (length (B.take_line B.LF (x :: t))) (x :: t))) as [ls' r'] eqn:E.
      injection H as H1 H2. subst ls r. cbn [concat]. rewrite <- app_assoc, (IH _ _ _ _ E).
      exact (take_line_firstn B.LF (x :: t)).
    + injection H as H1 H2. subst ls r. reflexivity.
Qed.

Section Sw.
  Variable prefix : N.
  Variable St H : Type.
  Variable init : St.
  Variable parse_line : St -> list N -> option St.
  Variable finish : St -> option H.
  Variable done : St -> bool.

  Notation th_run := (th_run St parse_line).
  Notation th_sw := (th_sw St H parse_line finish done).
  Notation text_read_header_sw := (text_read_header_sw prefix St H init parse_line finish done).
  Notation text_hdr_cut_result := (text_hdr_cut_result St H init parse_line finish).
  Notation hline_ok := (hline_ok prefix).
  Notation partial_ok := (partial_ok prefix).

  Definition lines (hls : list (list N)) : list (list N) := map (fun l => l ++ [10]) hls.

  (* the parser is not done after any proper prefix of the lines *)
  Definition not_done_before (hls : list (list N)) : Prop :=
    forall j sj, (j < length hls)%nat -> th_run (lines (firstn j hls)) init = Some sj -> done sj = false.

  (* running over complete lines that do not finish the parser *)
  Lemma th_sw_lines : forall hls after more rest st0 st,
    Forall (fun l => no_lf l) hls ->
    th_run (lines hls) st0 = Some st ->
    (forall j sj, (0 < j <= length hls)%nat -> th_run (lines (firstn j hls)) st0 = Some sj -> done sj = false) ->
    th_sw after (lines hls ++ more) rest st0 = th_sw after more rest st.
  Proof.
    induction hls as [|l hls IH]; intros after more rest st0 st HF Hr Hnd.
    - cbn in Hr. injection Hr as Hr. subst st. reflexivity.
    - inversion HF as [|l0 hls0 Hl HF']; subst.
      unfold lines in *. cbn [map app TextHeader.th_sw TextHeader.th_run] in *.
      rewrite ends_with_lf_snoc.
      destruct (parse_line st0 (B.strip_eol (l ++ [10]))) as [s1|] eqn:E1; [|discriminate].
      assert (Hd : done s1 = false).
      { apply (Hnd 1%nat s1); [cbn [length]; lia|]. cbn [firstn map TextHeader.th_run]. rewrite E1. reflexivity. }
      rewrite Hd.
      assert (Hgo : th_sw after (map (fun l => l ++ [10]) hls ++ more) rest s1 = th_sw after more rest st).
      { apply IH; [exact HF'|exact Hr|].
        intros j sj Hj Hrun. apply (Hnd (S j) sj); [cbn [length]; lia|].
        cbn [firstn map TextHeader.th_run]. rewrite E1. exact Hrun. }
      destruct after; exact Hgo.
  Qed.

  (* the whole header followed by anything, whatever the source does behind it *)
  Theorem text_header_whole_sw : forall hls last h st after tail,
    Forall hline_ok (hls ++ [last]) ->
    th_run (lines (hls ++ [last])) init = Some st -> done st = true -> finish st = Some h ->
    not_done_before (hls ++ [last]) ->
    text_read_header_sw after (htext (hls ++ [last]) ++ tail) = HOk h tail.
  Proof.
    intros hls last h st after tail HF Hr Hd Hfin Hnd.
    unfold text_read_header_sw, TextHeader.text_read_header_sw.
    assert (Hlen : forall x : list (list N), (length x <= length (htext x))%nat).
    { clear. induction x as [|l ls IH]; [cbn; lia|].
      unfold htext in *. cbn [map concat length]. rewrite !app_length. cbn [length]. lia. }
    pose proof (Hlen (hls ++ [last])) as Hl.
    assert (Hfu : (length (hls ++ [last]) < S (length (htext (hls ++ [last]) ++ tail)))%nat).
    { rewrite (app_length (htext (hls ++ [last])) tail). lia. }
    rewrite (hdr_closed_lines prefix St H init parse_line finish _ _ _ HF Hfu).
    destruct (HR.hdr_closed (S (length (htext (hls ++ [last]) ++ tail)) - length (hls ++ [last])) prefix tail)
      as [ls r] eqn:E.
    apply hdr_closed_concat in E.
    rewrite map_app, <- app_assoc. fold (lines hls).
    unfold lines in Hr. rewrite map_app, th_run_app in Hr. fold (lines hls) in Hr.
    destruct (th_run (lines hls) init) as [s0|] eqn:E0; [|discriminate].
    assert (HFn : Forall (fun l => no_lf l) hls).
    { apply Forall_app in HF. destruct HF as [HF _]. eapply Forall_impl; [|exact HF]. intros a (_ & Hn). exact Hn. }
    rewrite (th_sw_lines hls after _ r init s0 HFn E0).
    2: { intros j sj Hj Hrun. apply (Hnd j sj); [rewrite app_length; cbn [length]; lia|].
         unfold lines. rewrite firstn_app. replace (j - length hls)%nat with O by lia.
         rewrite firstn_O, app_nil_r. exact Hrun. }
    cbn [map app TextHeader.th_sw TextHeader.th_run] in *.
    rewrite ends_with_lf_snoc.
    destruct (parse_line s0 (B.strip_eol (last ++ [10]))) as [s1|]; [|discriminate].
    injection Hr as Hr. subst s1. rewrite Hd, Hfin, E. destruct after; reflexivity.
  Qed.
End Sw.
