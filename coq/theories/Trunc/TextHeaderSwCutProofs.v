(* C13 -- CUTS INSIDE the header text for the VCF header reader that stops behind #CHROM
   (NV.Trunc.TextHeader.text_read_header_sw / th_sw; whole header: TextHeaderSwProofs.v).
   - [text_header_cut_in_sw]: j complete header lines (j below the number of written lines) and a
     partial line t: the stopping reader returns [text_hdr_cut_result] - the error of a failing
     source; on a source that ends the header the parser builds from the j lines and the partial
     line (whether or not the parser is `done` behind the partial line: nothing is left unread);
   - [text_header_truncation_sw]: every cut k of  header text ++ body  for ANY body: strictly
     inside the header text the result above, from the end of the header text on (k = |h|
     included, failing source included) the written header and the delivered part of the body;
   - VCF instance (the table parser of [vcf_text_read_header], the function the driver runs for
     the kinds vcfth / vcfthz): [vcf_text_header_cut_verdict] - a cut strictly inside the header
     text is an ERROR (the source's error on a failing source - the BGZF case -, InvalidData on a
     source that ends) with ONE exception, decided exactly: the source ends, all lines but the last
     are complete, a non-empty strict prefix of the last (#CHROM) line is delivered and the parser
     does not refuse that prefix as line nfin - 1; then the header built from it is returned with
     nothing left (class text-truncated-header-line-accepted-vcf). *)
From Coq Require Import List Arith NArith Bool Lia ZifyBool ZifyNat ZifyN.
From NV Require Import Base.LE Trunc.Stream Trunc.StreamProofs Trunc.Header Trunc.TextHeader
  Trunc.TextHeaderProofs Trunc.TextHeaderSwProofs.
From NV Require Io.BufReader Io.HeaderRead.
Import ListNotations.
Open Scope N_scope.

Arguments N.eqb : simpl never.

Lemma htext_len_ge : forall x : list (list N), (length x <= length (htext x))%nat.
Proof.
  induction x as [|l ls IH]; [cbn; lia|].
  unfold htext in *. cbn [map concat length]. rewrite !app_length. cbn [length]. lia.
Qed.

Lemma htext_app : forall a b, htext (a ++ b) = htext a ++ htext b.
Proof. intros a b. unfold htext. rewrite map_app, concat_app. reflexivity. Qed.

Section SwCut.
  Variable prefix : N.
  Variable St H : Type.
  Variable init : St.
  Variable parse_line : St -> list N -> option St.
  Variable finish : St -> option H.
  Variable done : St -> bool.

  Notation th_run := (th_run St parse_line).
  Notation th_sw := (th_sw St H parse_line finish done).
  Notation text_read_header_sw := (text_read_header_sw prefix St H init parse_line finish done).
  Notation text_hdr_cut_result := (text_hdr_cut_result St H init parse_line finish).
  Notation hline_ok := (hline_ok prefix).
  Notation partial_ok := (partial_ok prefix).
  Notation not_done_before := (not_done_before St init parse_line done).

  (* j complete lines (j below the number of written lines) and a partial line *)
  Theorem text_header_cut_in_sw : forall hls st after j t,
    Forall hline_ok hls -> th_run (lines hls) init = Some st -> not_done_before hls ->
    (j < length hls)%nat -> partial_ok t ->
    text_read_header_sw after (htext (firstn j hls) ++ t) = text_hdr_cut_result after hls j t.
  Proof.
    intros hls st after j t HF Hr Hnd Hj Ht.
    assert (Hnl : no_lf t) by (destruct Ht as [-> | (_ & Hn)]; [constructor|exact Hn]).
    destruct (th_run_prefix St init parse_line hls st j Hr) as (sj & Hsj).
    unfold text_read_header_sw, TextHeader.text_read_header_sw.
    pose proof (htext_len_ge (firstn j hls)) as Hl.
    assert (HFj : Forall hline_ok (firstn j hls)) by (apply Forall_firstn'; exact HF).
    assert (Hfu : (length (firstn j hls) < S (length (htext (firstn j hls) ++ t)))%nat).
    { rewrite (app_length (htext (firstn j hls)) t). lia. }
    rewrite (hdr_closed_lines prefix St H init parse_line finish _ _ _ HFj Hfu).
    replace (S (length (htext (firstn j hls) ++ t)) - length (firstn j hls))%nat
      with (S (length (htext (firstn j hls) ++ t) - length (firstn j hls)))%nat
      by (rewrite (app_length (htext (firstn j hls)) t); lia).
    rewrite (hdr_closed_partial prefix _ t Ht).
    assert (HFn : Forall (fun l => no_lf l) (firstn j hls)).
    { eapply Forall_impl; [|exact HFj]. intros a (_ & Hn). exact Hn. }
    fold (lines (firstn j hls)).
    rewrite (th_sw_lines St H parse_line finish done (firstn j hls) after _ [] init sj HFn Hsj).
    2: { intros i si Hi Hrun. rewrite firstn_firstn in Hrun.
         rewrite firstn_length in Hi.
         apply (Hnd (Nat.min i j) si); [lia|exact Hrun]. }
    unfold text_hdr_cut_result, TextHeader.text_hdr_cut_result.
    unfold lines. rewrite Hsj.
    destruct t as [|c t']; cbn [TextHeader.th_sw].
    - destruct after as [|e]; reflexivity.
    - rewrite (ends_with_lf_nolf _ Hnl), (strip_eol_nolf _ Hnl).
      destruct after as [|e]; [|reflexivity].
      destruct (parse_line sj (c :: t')) as [s|]; [|reflexivity].
      destruct (done s); cbn [concat app TextHeader.th_sw]; reflexivity.
  Qed.

  (* a cut strictly inside the header text: j < number of lines *)
  Lemma htext_cut_strict : forall hls k, Forall hline_ok hls -> (k < length (htext hls))%nat ->
    exists j t, (j < length hls)%nat /\ firstn k (htext hls) = htext (firstn j hls) ++ t /\
      partial_ok t /\
      (t = [] \/ exists l u, nth_error hls j = Some l /\ l ++ [10] = t ++ u /\ u <> []).
  Proof.
    intros hls k HF Hk.
    destruct (htext_cut prefix St H init parse_line finish hls k HF) as (j & t & Hj & Hf & Hp & Hu); [lia|].
    exists j, t. split; [|auto].
    destruct (Nat.eq_dec j (length hls)) as [E|]; [|lia]. exfalso.
    subst j. rewrite firstn_all in Hf.
    assert (Hlen : length (firstn k (htext hls)) = length (htext hls ++ t)) by (rewrite Hf; reflexivity).
    rewrite firstn_length, app_length in Hlen. lia.
  Qed.

  (* every cut of  header text ++ body,  ANY body *)
  Theorem text_header_truncation_sw : forall hls last h st body after k,
    Forall hline_ok (hls ++ [last]) ->
    th_run (lines (hls ++ [last])) init = Some st -> done st = true -> finish st = Some h ->
    not_done_before (hls ++ [last]) ->
    let all := hls ++ [last] in
    ((k < length (htext all))%nat ->
       exists j t, (j < length all)%nat /\ firstn k (htext all) = htext (firstn j all) ++ t /\
         partial_ok t /\
         (t = [] \/ exists l u, nth_error all j = Some l /\ l ++ [10] = t ++ u /\ u <> []) /\
         text_read_header_sw after (firstn k (htext all ++ body)) = text_hdr_cut_result after all j t) /\
    ((length (htext all) <= k)%nat ->
       text_read_header_sw after (firstn k (htext all ++ body)) =
         HOk h (firstn (k - length (htext all)) body)).
  Proof.
    intros hls last h st body after k HF Hr Hd Hfin Hnd all. split.
    - intro Hk. destruct (htext_cut_strict all k HF Hk) as (j & t & Hj & Hf & Hp & Hu).
      exists j, t. split; [exact Hj|]. split; [exact Hf|]. split; [exact Hp|]. split; [exact Hu|].
      rewrite firstn_app_lt by lia. rewrite Hf.
      exact (text_header_cut_in_sw all st after j t HF Hr Hnd Hj Hp).
    - intro Hk. rewrite firstn_app_ge by exact Hk.
      exact (text_header_whole_sw prefix St H init parse_line finish done hls last h st after _ HF Hr Hd Hfin Hnd).
  Qed.
End SwCut.

(* ------------------------------------------------------------------------------------------ *)
(* VCF instance: the table parser of vcf_text_read_header (state = number of lines taken) *)

Lemma tab_run_count : forall tab raws st s,
  th_run N (tab_parse_line tab) raws st = Some s -> s = st + N.of_nat (length raws).
Proof.
  intros tab. induction raws as [|raw r IH]; intros st s Hr; cbn [TextHeader.th_run length] in Hr |- *.
  - injection Hr as <-. lia.
  - unfold tab_parse_line in Hr at 1.
    destruct (line_refused tab st (Io.BufReader.strip_eol raw)); [discriminate|].
    apply IH in Hr. lia.
Qed.

Lemma tab_not_done_before : forall tab nfin hls, N.of_nat (length hls) = nfin ->
  not_done_before N 0 (tab_parse_line tab) (fun i => i =? nfin) hls.
Proof.
  intros tab nfin hls Hn j sj Hj Hr. apply tab_run_count in Hr.
  unfold lines in Hr. rewrite map_length, firstn_length in Hr. lia.
Qed.

(* the verdict for every cut strictly inside the VCF header text *)
Theorem vcf_text_header_cut_verdict : forall tab nfin hls st body after k,
  Forall (hline_ok 35) hls -> N.of_nat (length hls) = nfin ->
  th_run N (tab_parse_line tab) (lines hls) 0 = Some st ->
  (k < length (htext hls))%nat ->
  exists j t, (j < length hls)%nat /\ firstn k (htext hls) = htext (firstn j hls) ++ t /\
    (t = [] \/ exists l u, nth_error hls j = Some l /\ l ++ [10] = t ++ u /\ u <> []) /\
    vcf_text_read_header tab nfin after (firstn k (htext hls ++ body)) =
      match after with
      | Err e => HErr e
      | Eof =>
          if (negb (N.of_nat (S j) =? nfin) || match t with [] => true | _ => line_refused tab (N.of_nat j) t end)%bool
          then HErr InvalidData
          else HOk nfin []
      end.
Proof.
  intros tab nfin hls st body after k HF Hn Hr Hk.
  pose proof (tab_not_done_before tab nfin hls Hn) as Hnd.
  destruct (htext_cut_strict 35 N N 0 (tab_parse_line tab) (tab_finish nfin) (fun i => i =? nfin) hls k HF Hk)
    as (j & t & Hj & Hf & Hp & Hu).
  exists j, t. split; [exact Hj|]. split; [exact Hf|]. split; [exact Hu|].
  unfold vcf_text_read_header. rewrite firstn_app_lt by lia. rewrite Hf.
  rewrite (text_header_cut_in_sw 35 N N 0 (tab_parse_line tab) (tab_finish nfin) (fun i => i =? nfin)
             hls st after j t HF Hr Hnd Hj Hp).
  unfold text_hdr_cut_result. destruct after as [|e]; [|reflexivity].
  destruct (th_run_prefix N 0 (tab_parse_line tab) hls st j Hr) as (sj & Hsj).
  rewrite Hsj. apply tab_run_count in Hsj.
  rewrite map_length, firstn_length in Hsj.
  assert (Esj : sj = N.of_nat j) by lia. clear Hsj. subst sj.
  destruct t as [|c t'].
  - rewrite orb_true_r. unfold tab_finish.
    assert (E : (N.of_nat j =? nfin) = false) by lia. rewrite E. reflexivity.
  - unfold tab_parse_line. destruct (line_refused tab (N.of_nat j) (c :: t')).
    + rewrite orb_true_r. reflexivity.
    + rewrite orb_false_r. unfold tab_finish.
      replace (N.of_nat j + 1) with (N.of_nat (S j)) by lia.
      destruct (N.of_nat (S j) =? nfin) eqn:E; cbn [negb]; [|reflexivity].
      f_equal. lia.
Qed.
