(* C13 — an index reader layered on the BGZF reader: composition of the BGZF truncation theorem
   with the payload truncation theorems for CSI and tabix. *)
From Coq Require Import List Arith NArith Bool Lia ZifyBool ZifyNat ZifyN.
From NV Require Import Base.LE Trunc.Stream Trunc.StreamProofs Index.Layout Index.CsiLayout
  Index.CsiLayoutProofs Trunc.CsiProofs Trunc.IndexCut.
Import ListNotations.
Open Scope N_scope.

(* every cut k of the compressed file: the layered reader is the payload parser on the first n
   payload bytes, n = the data of the frames wholly inside the cut *)
Theorem idx_over_bgzf_truncation :
  forall (inflate : list N -> option (list N)) (I : Type) (rd : list N -> option I) fs payload k,
    Forall (frame_good inflate) fs ->
    concat (map (frame_data inflate) fs) = payload ->
    exists j : nat,
      (j <= length fs)%nat /\
      (length (bgzf_file (firstn j fs)) <= k)%nat /\
      (j < length fs -> k < length (bgzf_file (firstn (S j) fs)))%nat /\
      let n := length (concat (map (frame_data inflate) (firstn j fs))) in
      (n <= length payload)%nat /\ (j = length fs -> n = length payload) /\
      idx_over_bgzf inflate rd (firstn k (bgzf_file fs)) = Some (rd (firstn n payload)).
Proof.
  intros inflate I rd fs payload k Hg Hcat.
  destruct (bgzf_truncation inflate fs k Hg) as (j & H1 & H2 & H3 & Hb).
  exists j. split; [exact H1|]. split; [exact H2|]. split; [exact H3|]. cbn zeta.
  set (p := concat (map (frame_data inflate) (firstn j fs))).
  assert (Hp : p = firstn (length p) payload).
  { rewrite <- Hcat. apply concat_map_firstn_prefix. }
  split; [|split].
  - rewrite Hp at 1. rewrite firstn_length. lia.
  - intros Hj. unfold p. rewrite Hj, firstn_all, Hcat. reflexivity.
  - unfold idx_over_bgzf. rewrite Hb. fold p. rewrite <- Hp.
    destruct ((j <? length fs)%nat && negb (k - length (bgzf_file (firstn j fs)) <? 18)%nat); reflexivity.
Qed.

(* CSI file = BGZF frames whose data concatenate to the written payload: whatever the cut, the
   result is an error, the written index without its trailing count, or the written index -- and
   the last only when every payload byte lies in frames wholly inside the cut *)
Theorem csi_over_bgzf_truncation :
  forall (inflate : list N -> option (list N)) i fs k, csi_ok i ->
    Forall (frame_good inflate) fs ->
    concat (map (frame_data inflate) fs) = w_csi_bytes i ->
    exists n : nat,
      (n <= length (w_csi_bytes i))%nat /\
      idx_over_bgzf inflate read_csi (firstn k (bgzf_file fs)) =
        Some (if (n <? length (w_csi_bytes (csi_no_count i)))%nat then None
              else if (n <? length (w_csi_bytes i))%nat then Some (reread_csi (csi_no_count i))
              else Some (reread_csi i)).
Proof.
  intros inflate i fs k Hok Hg Hcat.
  destruct (idx_over_bgzf_truncation inflate _ read_csi fs _ k Hg Hcat) as (j & _ & _ & _ & Hn & _ & Hr).
  cbn zeta in Hn, Hr. eexists. split; [exact Hn|]. rewrite Hr. f_equal.
  set (n := length (concat (map (frame_data inflate) (firstn j fs)))) in *.
  destruct (csi_truncation i n Hok) as (T1 & T2 & T3). cbn zeta in T1, T2, T3.
  destruct (n <? length (w_csi_bytes (csi_no_count i)))%nat eqn:E1; [apply T1; lia|].
  destruct (n <? length (w_csi_bytes i))%nat eqn:E2; [apply T2; lia|apply T3; lia].
Qed.

Theorem tbi_over_bgzf_truncation :
  forall (inflate : list N -> option (list N)) i hd fs k, tbi_ok i -> ti_header i = Some hd ->
    Forall (frame_good inflate) fs ->
    concat (map (frame_data inflate) fs) = w_tbi_bytes i ->
    exists n : nat,
      (n <= length (w_tbi_bytes i))%nat /\
      idx_over_bgzf inflate read_tbi (firstn k (bgzf_file fs)) =
        Some (if (n <? length (w_tbi_bytes (tbi_no_count i)))%nat then None
              else if (n <? length (w_tbi_bytes i))%nat then Some (reread_tbi (tbi_no_count i))
              else Some (reread_tbi i)).
Proof.
  intros inflate i hd fs k Hok Hhd Hg Hcat.
  destruct (idx_over_bgzf_truncation inflate _ read_tbi fs _ k Hg Hcat) as (j & _ & _ & _ & Hn & _ & Hr).
  cbn zeta in Hn, Hr. eexists. split; [exact Hn|]. rewrite Hr. f_equal.
  set (n := length (concat (map (frame_data inflate) (firstn j fs)))) in *.
  destruct (tbi_truncation i hd n Hok Hhd) as (T1 & T2 & T3). cbn zeta in T1, T2, T3.
  destruct (n <? length (w_tbi_bytes (tbi_no_count i)))%nat eqn:E1; [apply T1; lia|].
  destruct (n <? length (w_tbi_bytes i))%nat eqn:E2; [apply T2; lia|apply T3; lia].
Qed.
