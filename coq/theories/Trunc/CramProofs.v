(* C13 — truncation of a CRAM file at the container level.

   Key notion (as for BAI): a three-way parser is *stable* when a success on an input is the same
   success on every extension of the input, and an error other than UnexpectedEof is the same
   error on every extension.  All the field parsers of Cram.v are stable; hence, for a byte
   string c that parses as exactly one whole unit (p c = POk x []):
     p (c ++ rest)    = POk x rest                  (rstable_ext)
     p (firstn j c)   = PErr UnexpectedEof, j < |c|  (rstable_cut)
   which are the two premises of the generic truncation theorem of StreamProofs.v. *)
From Coq Require Import List Arith NArith ZArith Bool Lia ZifyBool ZifyNat ZifyN.
From NV Require Import Base.LE Trunc.Stream Trunc.StreamProofs Cram.Bytes Cram.Itf8 Cram.Ltf8 Trunc.Cram.
Import ListNotations.
Open Scope N_scope.

Arguments N.add : simpl never. Arguments N.sub : simpl never. Arguments N.mul : simpl never.
Arguments N.div : simpl never. Arguments N.modulo : simpl never. Arguments N.pred : simpl never.
Arguments N.eqb : simpl never. Arguments N.ltb : simpl never.

Definition rstable {A : Type} (p : rparser A) : Prop :=
  (forall bs x r ext, p bs = POk x r -> p (bs ++ ext) = POk x (r ++ ext)) /\
  (forall bs e ext, p bs = PErr e -> e <> UnexpectedEof -> p (bs ++ ext) = PErr e).

(* ---------- consequences of stability ---------- *)
Lemma rstable_ext : forall A (p : rparser A) c x rest,
  rstable p -> p c = POk x [] -> p (c ++ rest) = POk x rest.
Proof. intros A p c x rest (Hok & _) H. exact (Hok c x [] rest H). Qed.

Lemma rstable_cut : forall A (p : rparser A) c x j,
  rstable p -> p c = POk x [] -> (j < length c)%nat -> p (firstn j c) = PErr UnexpectedEof.
Proof.
  intros A p c x j (Hok & Herr) H Hj.
  destruct (p (firstn j c)) as [y r|e] eqn:E.
  - pose proof (Hok _ _ _ (skipn j c) E) as H2. rewrite firstn_skipn in H2. rewrite H in H2.
    injection H2 as _ Hr. symmetry in Hr. apply app_eq_nil in Hr. destruct Hr as (_ & Hs).
    apply (f_equal (@length N)) in Hs. rewrite skipn_length in Hs. cbn [length] in Hs. lia.
  - destruct e; [reflexivity| |].
    + pose proof (Herr _ _ (skipn j c) E ltac:(discriminate)) as H2.
      rewrite firstn_skipn in H2. rewrite H in H2. discriminate H2.
    + pose proof (Herr _ _ (skipn j c) E ltac:(discriminate)) as H2.
      rewrite firstn_skipn in H2. rewrite H in H2. discriminate H2.
Qed.

(* ---------- combinators ---------- *)
Lemma rstable_ret : forall A (x : A), rstable (r_ret x).
Proof.
  intros A x. split.
  - intros bs y r ext H. unfold r_ret in *. injection H as Hx Hr. subst. reflexivity.
  - intros bs e ext H. discriminate H.
Qed.

Lemma rstable_fail : forall A e, rstable (@r_fail A e).
Proof.
  intros A e. split.
  - intros bs y r ext H. discriminate H.
  - intros bs e' ext H _. unfold r_fail in *. exact H.
Qed.

Lemma rstable_bind : forall A B (p : rparser A) (f : A -> rparser B),
  rstable p -> (forall x, rstable (f x)) -> rstable (r_bind p f).
Proof.
  intros A B p f (Hok & Herr) Hf. split.
  - intros bs y r ext H. unfold r_bind in *.
    destruct (p bs) as [x r1|e] eqn:E; [|discriminate H].
    rewrite (Hok _ _ _ ext E). destruct (Hf x) as (Hfok & _). exact (Hfok _ _ _ ext H).
  - intros bs e ext H Hne. unfold r_bind in *.
    destruct (p bs) as [x r1|e1] eqn:E.
    + rewrite (Hok _ _ _ ext E). destruct (Hf x) as (_ & Hferr). exact (Hferr _ _ ext H Hne).
    + injection H as He. subst e1. rewrite (Herr _ _ ext E Hne). reflexivity.
Qed.

Lemma rstable_if : forall A (b : bool) (p q : rparser A),
  rstable p -> rstable q -> rstable (if b then p else q).
Proof. intros A b p q Hp Hq. destruct b; assumption. Qed.

Lemma rstable_take : forall n, rstable (r_take n).
Proof.
  intros n. split.
  - intros bs x r ext H. unfold r_take in *. rewrite take_spec in *.
    destruct (N.of_nat (length bs) <? n) eqn:E; [discriminate H|].
    injection H as Hx Hr. subst x r. rewrite app_length.
    assert (E2 : (N.of_nat (length bs + length ext) <? n) = false) by lia. rewrite E2.
    rewrite firstn_app_lt by lia. rewrite skipn_app.
    replace (N.to_nat n - length bs)%nat with O by lia. reflexivity.
  - intros bs e ext H Hne. unfold r_take in *. destruct (take n bs) as [[h r]|]; [discriminate H|].
    injection H as He. subst e. congruence.
Qed.

Lemma rstable_u32le : rstable r_u32le.
Proof. unfold r_u32le. apply rstable_bind; [apply rstable_take|]. intros h. apply rstable_ret. Qed.

Lemma rstable_len32 : rstable r_len32.
Proof.
  unfold r_len32. apply rstable_bind; [apply rstable_u32le|]. intros u.
  apply rstable_if; [apply rstable_ret|apply rstable_fail].
Qed.

Lemma take_be_stable : forall k acc bs v r ext,
  take_be k acc bs = Some (v, r) -> take_be k acc (bs ++ ext) = Some (v, r ++ ext).
Proof.
  induction k as [|k IH]; intros acc bs v r ext H; cbn [take_be] in *.
  - injection H as Hv Hr. subst. reflexivity.
  - destruct bs as [|b t]; [discriminate H|]. cbn [app]. exact (IH _ _ _ _ ext H).
Qed.

Lemma itf8_dec_stable : forall bs u r ext,
  itf8_dec bs = Some (u, r) -> itf8_dec (bs ++ ext) = Some (u, r ++ ext).
Proof.
  intros bs u r ext H. destruct bs as [|b0 t]; [discriminate H|].
  cbn [app]. unfold itf8_dec in *.
  destruct (b0 <? 128). { injection H as Hu Hr. subst. reflexivity. }
  destruct (b0 <? 192).
  { destruct (take_be 1 0 t) as [[v r']|] eqn:E; [|discriminate H].
    rewrite (take_be_stable _ _ _ _ _ ext E). injection H as Hu Hr. subst. reflexivity. }
  destruct (b0 <? 224).
  { destruct (take_be 2 0 t) as [[v r']|] eqn:E; [|discriminate H].
    rewrite (take_be_stable _ _ _ _ _ ext E). injection H as Hu Hr. subst. reflexivity. }
  destruct (b0 <? 240).
  { destruct (take_be 3 0 t) as [[v r']|] eqn:E; [|discriminate H].
    rewrite (take_be_stable _ _ _ _ _ ext E). injection H as Hu Hr. subst. reflexivity. }
  destruct (take_be 4 0 t) as [[v r']|] eqn:E; [|discriminate H].
  rewrite (take_be_stable _ _ _ _ _ ext E). injection H as Hu Hr. subst. reflexivity.
Qed.

Lemma with_prefix_stable : forall hi k t u r ext,
  with_prefix hi k t = Some (u, r) -> with_prefix hi k (t ++ ext) = Some (u, r ++ ext).
Proof.
  intros hi k t u r ext H. unfold with_prefix in *.
  destruct (take_be k 0 t) as [[v r']|] eqn:E; [|discriminate H].
  rewrite (take_be_stable _ _ _ _ _ ext E). injection H as Hu Hr. subst. reflexivity.
Qed.

Lemma ltf8_dec_stable : forall bs u r ext,
  ltf8_dec bs = Some (u, r) -> ltf8_dec (bs ++ ext) = Some (u, r ++ ext).
Proof.
  intros bs u r ext H. destruct bs as [|b0 t]; [discriminate H|].
  cbn [app]. unfold ltf8_dec in *.
  destruct (b0 <? 128). { injection H as Hu Hr. subst. reflexivity. }
  repeat (match goal with |- context [if ?c then _ else _] => destruct c end;
          [exact (with_prefix_stable _ _ _ _ _ ext H)|]).
  exact (with_prefix_stable _ _ _ _ _ ext H).
Qed.

Lemma rstable_itf8 : rstable r_itf8.
Proof.
  split.
  - intros bs x r ext H. unfold r_itf8, read_itf8 in *.
    destruct (itf8_dec bs) as [[u r']|] eqn:E; [|discriminate H].
    rewrite (itf8_dec_stable _ _ _ ext E). injection H as Hx Hr. subst. reflexivity.
  - intros bs e ext H Hne. unfold r_itf8 in *. destruct (read_itf8 bs) as [[v r]|]; [discriminate H|].
    injection H as He. subst e. congruence.
Qed.

Lemma rstable_ltf8 : rstable r_ltf8.
Proof.
  split.
  - intros bs x r ext H. unfold r_ltf8, read_ltf8 in *.
    destruct (ltf8_dec bs) as [[u r']|] eqn:E; [|discriminate H].
    rewrite (ltf8_dec_stable _ _ _ ext E). injection H as Hx Hr. subst. reflexivity.
  - intros bs e ext H Hne. unfold r_ltf8 in *. destruct (read_ltf8 bs) as [[v r]|]; [discriminate H|].
    injection H as He. subst e. congruence.
Qed.

Lemma rstable_itf8_as : rstable r_itf8_as.
Proof.
  unfold r_itf8_as. apply rstable_bind; [apply rstable_itf8|]. intros v.
  apply rstable_if; [apply rstable_fail|apply rstable_ret].
Qed.

Lemma rstable_ltf8_as : rstable r_ltf8_as.
Proof.
  unfold r_ltf8_as. apply rstable_bind; [apply rstable_ltf8|]. intros v.
  apply rstable_if; [apply rstable_fail|apply rstable_ret].
Qed.

Lemma rstable_repeat : forall A (p : rparser A) n, rstable p -> rstable (r_repeat n p).
Proof.
  intros A p n Hp. induction n as [|n IH]; cbn [r_repeat]; [apply rstable_ret|].
  apply rstable_bind; [exact Hp|]. intros x. apply rstable_bind; [exact IH|]. intros xs. apply rstable_ret.
Qed.

Lemma rstable_landmarks : rstable r_landmarks.
Proof.
  unfold r_landmarks. apply rstable_bind; [apply rstable_itf8_as|]. intros n.
  apply rstable_repeat. apply rstable_itf8_as.
Qed.

Lemma rstable_file_definition : rstable read_file_definition.
Proof.
  unfold read_file_definition. apply rstable_bind; [apply rstable_take|]. intros m.
  apply rstable_if; [|apply rstable_fail].
  apply rstable_bind; [apply rstable_take|]. intros v.
  apply rstable_bind; [apply rstable_take|]. intros id. apply rstable_ret.
Qed.

Lemma rstable_dc_fields : rstable dc_fields.
Proof.
  unfold dc_fields.
  apply rstable_bind; [apply rstable_len32|]. intros len.
  apply rstable_bind; [apply rstable_itf8|]. intros rid.
  apply rstable_bind; [apply rstable_itf8|]. intros start.
  apply rstable_bind; [apply rstable_itf8|]. intros span.
  apply rstable_if; [apply rstable_fail|].
  apply rstable_bind; [apply rstable_itf8_as|]. intros nrec.
  apply rstable_bind; [apply rstable_ltf8_as|]. intros counter.
  apply rstable_bind; [apply rstable_ltf8_as|]. intros bases.
  apply rstable_bind; [apply rstable_itf8_as|]. intros nblocks.
  apply rstable_bind; [apply rstable_landmarks|]. intros lms. apply rstable_ret.
Qed.

Lemma rstable_hc_fields : rstable hc_fields.
Proof.
  unfold hc_fields.
  apply rstable_bind; [apply rstable_len32|]. intros len.
  do 4 (apply rstable_bind; [apply rstable_itf8|]; intros ?).
  do 2 (apply rstable_bind; [apply rstable_ltf8|]; intros ?).
  apply rstable_bind; [apply rstable_itf8|]. intros ?.
  apply rstable_bind; [apply rstable_itf8_as|]. intros n.
  apply rstable_bind; [apply rstable_repeat; apply rstable_itf8|]. intros ?. apply rstable_ret.
Qed.

Section CRCProofs.
  Variable crc : list N -> N.

  Lemma rstable_with_crc : forall A (p : rparser A), rstable p -> rstable (with_crc crc p).
  Proof.
    intros A p (Hok & Herr). destruct rstable_u32le as (Uok & Uerr). split.
    - intros bs x r ext H. unfold with_crc in *.
      destruct (p bs) as [y r1|e] eqn:E; [|discriminate H].
      rewrite (Hok _ _ _ ext E).
      destruct (r_u32le r1) as [expd r2|e] eqn:E2; [|discriminate H].
      rewrite (Uok _ _ _ ext E2).
      repeat rewrite app_length.
      replace (length bs + length ext - (length r1 + length ext))%nat with (length bs - length r1)%nat by lia.
      rewrite firstn_app_lt by lia.
      destruct (crc (firstn (length bs - length r1) bs) =? expd); [|discriminate H].
      injection H as Hx Hr. subst. reflexivity.
    - intros bs e ext H Hne. unfold with_crc in *.
      destruct (p bs) as [y r1|e1] eqn:E.
      + rewrite (Hok _ _ _ ext E).
        destruct (r_u32le r1) as [expd r2|e2] eqn:E2.
        * rewrite (Uok _ _ _ ext E2).
          repeat rewrite app_length.
          replace (length bs + length ext - (length r1 + length ext))%nat with (length bs - length r1)%nat by lia.
          rewrite firstn_app_lt by lia.
          destruct (crc (firstn (length bs - length r1) bs) =? expd); [discriminate H|]. exact H.
        * injection H as He. subst e2. rewrite (Uerr _ _ ext E2 Hne). reflexivity.
      + injection H as He. subst e1. rewrite (Herr _ _ ext E Hne). reflexivity.
  Qed.

  Lemma rstable_dc_read_header : rstable (dc_read_header crc).
  Proof.
    unfold dc_read_header. apply rstable_bind; [apply rstable_with_crc; apply rstable_dc_fields|].
    intros hc. apply rstable_ret.
  Qed.

  Lemma rstable_parse_container : rstable (cram_parse_container crc).
  Proof.
    unfold cram_parse_container. apply rstable_bind; [apply rstable_dc_read_header|]. intros hl.
    apply rstable_if.
    - apply rstable_bind; [apply rstable_take|]. intros b. apply rstable_ret.
    - apply rstable_bind; [apply rstable_take|]. intros b. apply rstable_ret.
  Qed.

  Lemma rstable_hc_read_header : rstable (hc_read_header crc).
  Proof.
    unfold hc_read_header. apply rstable_bind; [apply rstable_with_crc; apply rstable_hc_fields|].
    intros lc. apply rstable_ret.
  Qed.

  (* ---------- the data container stream ---------- *)
  (* a byte string that the reader parses as exactly one whole data container *)
  Definition cram_good (c : list N) : Prop :=
    exists h b, cram_parse_container crc c = POk (h, b, false) [].
  (* ... as exactly the EOF container (its 15-byte body included) *)
  Definition cram_eof_good (c : list N) : Prop :=
    exists h b, cram_parse_container crc c = POk (h, b, true) [].

  Definition cram_out (c : list N) : chdr * list N :=
    match cram_parse_container crc c with
    | POk (h, b, _) _ => (h, b)
    | PErr _ => (mkchdr 0 0 0 0 0 0 0 0 [], [])
    end.

  Lemma cram_rd_nil : cram_read_container crc [] = Stop (Err UnexpectedEof).
  Proof. reflexivity. Qed.

  Lemma cram_rd_full : forall c rest, cram_good c ->
    cram_read_container crc (c ++ rest) = Item (cram_out c) rest.
  Proof.
    intros c rest (h & b & H). unfold cram_read_container, cram_out.
    rewrite (rstable_ext _ _ _ _ rest rstable_parse_container H). rewrite H. reflexivity.
  Qed.

  Lemma cram_rd_part : forall c j, cram_good c -> (0 < j < length c)%nat ->
    cram_read_container crc (firstn j c) = Stop (Err UnexpectedEof).
  Proof.
    intros c j (h & b & H) Hj. unfold cram_read_container.
    rewrite (rstable_cut _ _ _ _ j rstable_parse_container H) by lia. reflexivity.
  Qed.

  Lemma cram_nonempty : forall c, cram_good c -> (0 < length c)%nat.
  Proof.
    intros c (h & b & H). destruct c as [|x t]; [|cbn [length]; lia].
    discriminate H.
  Qed.

  Lemma cram_eof_full : forall c rest, cram_eof_good c -> cram_read_container crc (c ++ rest) = Stop Eof.
  Proof.
    intros c rest (h & b & H). unfold cram_read_container.
    rewrite (rstable_ext _ _ _ _ rest rstable_parse_container H). reflexivity.
  Qed.

  Lemma cram_eof_part : forall c j, cram_eof_good c -> (j < length c)%nat ->
    cram_read_container crc (firstn j c) = Stop (Err UnexpectedEof).
  Proof.
    intros c j (h & b & H) Hj. unfold cram_read_container.
    rewrite (rstable_cut _ _ _ _ j rstable_parse_container H) by lia. reflexivity.
  Qed.

  Definition cram_encode (cs : list (list N)) : list N := encode _ (fun c : list N => c) cs.

  (* the container stream behind the header: data containers then the EOF container.  For EVERY
     cut k short of the whole stream the reader returns exactly the containers that lie wholly
     inside the cut and then fails with UnexpectedEof -- at container boundaries and inside the
     EOF container too; only the whole stream ends cleanly. *)
  Theorem cram_stream_truncation : forall cs eofc k, Forall cram_good cs -> cram_eof_good eofc ->
    let s := cram_encode cs ++ eofc in
    ((k < length s)%nat ->
       exists j : nat,
         (j <= length cs)%nat /\
         (length (cram_encode (firstn j cs)) <= k)%nat /\
         (j < length cs -> k < length (cram_encode (firstn (S j) cs)))%nat /\
         read_stream (cram_read_container crc) (firstn k s) =
           (map cram_out (firstn j cs), Err UnexpectedEof)) /\
    ((length s <= k)%nat ->
       read_stream (cram_read_container crc) (firstn k s) = (map cram_out cs, Eof)).
  Proof.
    intros cs eofc k Hg He s. split.
    - intros Hk. unfold s in *. rewrite app_length in Hk.
      destruct (Nat.leb k (length (cram_encode cs))) eqn:Ek.
      + apply Nat.leb_le in Ek. rewrite firstn_app_lt by exact Ek.
        destruct (stream_truncation_generic _ _ (fun c : list N => c) cram_out cram_good
                    (cram_read_container crc) (Err UnexpectedEof) (fun _ _ => Err UnexpectedEof)
                    cram_rd_nil cram_rd_full cram_rd_part cram_nonempty cs k Hg)
          as (j & H1 & H2 & H3 & H4).
        exists j. split; [exact H1|]. split; [exact H2|]. split; [exact H3|].
        unfold cram_encode. rewrite H4. f_equal.
        destruct (nth_error cs j); [|reflexivity].
        destruct (k =? length (encode (list N) (fun c : list N => c) (firstn j cs)))%nat; reflexivity.
      + apply Nat.leb_gt in Ek. exists (length cs).
        split; [lia|]. rewrite firstn_all. split; [lia|]. split; [lia|].
        rewrite firstn_app_ge by lia.
        unfold cram_encode.
        apply (read_stream_app_stop _ _ (fun c : list N => c) cram_out cram_good
                 (cram_read_container crc) cram_rd_full cram_nonempty cs); [exact Hg|].
        apply cram_eof_part; [exact He|]. fold (cram_encode cs). lia.
    - intros Hk. unfold s in *. rewrite firstn_all2 by exact Hk.
      unfold cram_encode.
      apply (read_stream_app_stop _ _ (fun c : list N => c) cram_out cram_good
               (cram_read_container crc) cram_rd_full cram_nonempty cs); [exact Hg|].
      rewrite <- (app_nil_r eofc). apply cram_eof_full. exact He.
  Qed.

  (* ---------- the whole file ---------- *)
  Variable hdr_body : list N -> option ekind.

  Section File.
    Variables fd hch hb : list N.
    Variable fdv : list N * list N.
    Variable hlen : N.
    Hypothesis fd_good : read_file_definition fd = POk fdv [].
    Hypothesis hch_good : hc_read_header crc hch = POk hlen [].
    Hypothesis hb_len : length hb = N.to_nat hlen.
    Hypothesis hb_good : hdr_body hb = None.

    Lemma cram_read_in_filedef : forall rest k, (k < length fd)%nat ->
      cram_read crc hdr_body (firstn k (fd ++ rest)) = (false, ([], Err UnexpectedEof)).
    Proof.
      intros rest k Hk. rewrite firstn_app_lt by lia. unfold cram_read, r_bind.
      rewrite (rstable_cut _ _ _ _ k rstable_file_definition fd_good Hk). reflexivity.
    Qed.

    Lemma cram_read_in_hdr_header : forall rest k, (k < length hch)%nat ->
      cram_read crc hdr_body (firstn (length fd + k) (fd ++ hch ++ rest)) = (false, ([], Err UnexpectedEof)).
    Proof.
      intros rest k Hk. rewrite firstn_app_ge by lia.
      replace (length fd + k - length fd)%nat with k by lia.
      rewrite firstn_app_lt by lia. unfold cram_read, r_bind.
      rewrite (rstable_ext _ _ _ _ (firstn k hch) rstable_file_definition fd_good).
      unfold read_header_container, r_bind.
      rewrite (rstable_cut _ _ _ _ k rstable_hc_read_header hch_good Hk). reflexivity.
    Qed.

    (* the cut leaves j < |hb| bytes of the header container's body: whatever the body decoder
       says about them; if it accepts them, the next container read finds nothing *)
    Lemma cram_read_in_hdr_body : forall rest j, (j < length hb)%nat ->
      cram_read crc hdr_body (firstn (length fd + length hch + j) (fd ++ hch ++ hb ++ rest)) =
        match hdr_body (firstn j hb) with
        | Some e => (false, ([], Err e))
        | None => (true, ([], Err UnexpectedEof))
        end.
    Proof.
      intros rest j Hj. rewrite firstn_app_ge by lia.
      replace (length fd + length hch + j - length fd)%nat with (length hch + j)%nat by lia.
      rewrite firstn_app_ge by lia.
      replace (length hch + j - length hch)%nat with j by lia.
      rewrite firstn_app_lt by lia. unfold cram_read, r_bind.
      rewrite (rstable_ext _ _ _ _ (hch ++ firstn j hb) rstable_file_definition fd_good).
      unfold read_header_container, r_bind.
      rewrite (rstable_ext _ _ _ _ (firstn j hb) rstable_hc_read_header hch_good).
      rewrite <- hb_len. rewrite firstn_firstn. replace (Nat.min (length hb) j) with j by lia.
      destruct (hdr_body (firstn j hb)); [reflexivity|].
      rewrite skipn_all2 by (rewrite firstn_length; lia). reflexivity.
    Qed.

    Lemma cram_read_behind_hdr : forall tail,
      cram_read crc hdr_body (fd ++ hch ++ hb ++ tail) = (true, read_stream (cram_read_container crc) tail).
    Proof.
      intros tail. unfold cram_read, r_bind.
      rewrite (rstable_ext _ _ _ _ (hch ++ hb ++ tail) rstable_file_definition fd_good).
      unfold read_header_container, r_bind.
      rewrite (rstable_ext _ _ _ _ (hb ++ tail) rstable_hc_read_header hch_good).
      rewrite <- hb_len. rewrite firstn_app_lt by lia. rewrite firstn_all, hb_good.
      rewrite skipn_app, skipn_all, Nat.sub_diag. reflexivity.
    Qed.

    (* A CRAM file = file definition, header container, data containers, EOF container.  For
       EVERY cut k < |file| the reader ends with an ERROR -- a CRAM file that ends inside a
       container, between containers or inside the EOF container is never a clean end -- having
       returned exactly the data containers that lie wholly inside the cut; on the whole file it
       returns all containers and a clean end. *)
    Theorem cram_container_truncation : forall cs eofc k, Forall cram_good cs -> cram_eof_good eofc ->
      let file := fd ++ hch ++ hb ++ cram_encode cs ++ eofc in
      let h1 := length fd in
      let h2 := (length fd + length hch)%nat in
      let base := (length fd + length hch + length hb)%nat in
      ((k < h2)%nat -> cram_read crc hdr_body (firstn k file) = (false, ([], Err UnexpectedEof))) /\
      ((h2 <= k < base)%nat ->
         cram_read crc hdr_body (firstn k file) =
           match hdr_body (firstn (k - h2) hb) with
           | Some e => (false, ([], Err e))
           | None => (true, ([], Err UnexpectedEof))
           end) /\
      ((base <= k < length file)%nat ->
         exists j : nat,
           (j <= length cs)%nat /\
           (base + length (cram_encode (firstn j cs)) <= k)%nat /\
           (j < length cs -> k < base + length (cram_encode (firstn (S j) cs)))%nat /\
           cram_read crc hdr_body (firstn k file) =
             (true, (map cram_out (firstn j cs), Err UnexpectedEof))) /\
      ((length file <= k)%nat ->
         cram_read crc hdr_body (firstn k file) = (true, (map cram_out cs, Eof))).
    Proof.
      intros cs eofc k Hg He file h1 h2 base.
      assert (Hlen : length file = (base + length (cram_encode cs ++ eofc))%nat).
      { unfold file, base. repeat rewrite app_length. lia. }
      split; [|split; [|split]].
      - intros Hk. unfold h2 in Hk. destruct (Nat.ltb k (length fd)) eqn:E.
        + apply Nat.ltb_lt in E. unfold file. apply cram_read_in_filedef. exact E.
        + apply Nat.ltb_ge in E. replace k with (length fd + (k - length fd))%nat by lia.
          unfold file. apply cram_read_in_hdr_header. lia.
      - intros Hk. unfold h2, base in *.
        replace k with (length fd + length hch + (k - (length fd + length hch)))%nat at 1 by lia.
        unfold file. apply cram_read_in_hdr_body. lia.
      - intros Hk.
        assert (Hf : firstn k file = fd ++ hch ++ hb ++ firstn (k - base) (cram_encode cs ++ eofc)).
        { unfold file, base. rewrite firstn_app_ge by lia. f_equal.
          rewrite firstn_app_ge by lia. f_equal. rewrite firstn_app_ge by lia. f_equal. f_equal. lia. }
        rewrite Hf, cram_read_behind_hdr.
        destruct (cram_stream_truncation cs eofc (k - base)%nat Hg He) as (Hlt & _).
        destruct (Hlt ltac:(lia)) as (j & H1 & H2 & H3 & H4).
        exists j. split; [exact H1|]. split; [lia|]. split; [intros Hj; specialize (H3 Hj); lia|].
        rewrite H4. reflexivity.
      - intros Hk. rewrite firstn_all2 by exact Hk. unfold file. rewrite cram_read_behind_hdr.
        destruct (cram_stream_truncation cs eofc (length (cram_encode cs ++ eofc)) Hg He) as (_ & Hge).
        specialize (Hge (le_n _)). rewrite firstn_all in Hge. rewrite Hge. reflexivity.
    Qed.
  End File.
End CRCProofs.
