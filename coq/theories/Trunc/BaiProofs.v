(* C13 — truncation of a count-driven index layout: the BAI reader/writer model of
   NV.Index.Layout (magic, n_ref, per reference n_bin + bins (id, n_chunk, chunks) with the
   metadata pseudo-bin, n_intv + offsets, optional trailing u64 n_no_coor).

   Key notion: a parser is *stable* when success on an input implies the same success, with the
   same consumption, on every extension of that input.  All the field parsers are stable, so a
   prefix of a written file on which the reference section parses must already contain the
   whole reference section. *)
From Coq Require Import List Arith NArith Bool Lia ZifyBool ZifyNat ZifyN.
From NV Require Import Base.LE Index.Layout Index.LayoutProofs.
Import ListNotations.
Open Scope N_scope.

Definition stable {A : Type} (p : parser A) : Prop :=
  forall bs x rest ext, p bs = Some (x, rest) -> p (bs ++ ext) = Some (x, rest ++ ext).

Lemma stable_p_le : forall k, stable (p_le k).
Proof.
  intros k bs x rest ext H. unfold p_le in *.
  destruct (k <=? length bs)%nat eqn:E; [|discriminate H].
  injection H as Hx Hr. subst x rest. rewrite app_length.
  assert (E2 : (k <=? length bs + length ext)%nat = true) by lia. rewrite E2.
  rewrite firstn_app. replace (k - length bs)%nat with O by lia. cbn [firstn]. rewrite app_nil_r.
  rewrite skipn_app. replace (k - length bs)%nat with O by lia. reflexivity.
Qed.

Lemma stable_p_repeat : forall A (p : parser A), stable p -> forall n, stable (p_repeat n p).
Proof.
  intros A p Hp. induction n as [|n IH]; intros bs x rest ext H; cbn [p_repeat] in *.
  - injection H as Hx Hr. subst. reflexivity.
  - destruct (p bs) as [[y r1]|] eqn:E1; [|discriminate H].
    destruct (p_repeat n p r1) as [[ys r2]|] eqn:E2; [|discriminate H].
    injection H as Hx Hr. subst.
    rewrite (Hp _ _ _ ext E1). rewrite (IH _ _ _ ext E2). reflexivity.
Qed.

Lemma stable_p_chunk : stable p_chunk.
Proof.
  intros bs x rest ext H. unfold p_chunk in *.
  destruct (p_le 8 bs) as [[a r1]|] eqn:E1; [|discriminate H].
  destruct (p_le 8 r1) as [[b r2]|] eqn:E2; [|discriminate H].
  injection H as Hx Hr. subst.
  rewrite (stable_p_le 8 _ _ _ ext E1). rewrite (stable_p_le 8 _ _ _ ext E2). reflexivity.
Qed.

Lemma stable_p_chunks : stable p_chunks.
Proof.
  intros bs x rest ext H. unfold p_chunks in *.
  destruct (p_le 4 bs) as [[n r]|] eqn:E1; [|discriminate H].
  rewrite (stable_p_le 4 _ _ _ ext E1).
  destruct (n <? 2147483648); [|discriminate H].
  exact (stable_p_repeat _ _ stable_p_chunk _ _ _ _ ext H).
Qed.

Lemma stable_p_metadata_body : stable p_metadata_body.
Proof.
  intros bs x rest ext H. unfold p_metadata_body in *.
  destruct (p_le 4 bs) as [[n r0]|] eqn:E0; [|discriminate H].
  rewrite (stable_p_le 4 _ _ _ ext E0).
  destruct (n =? 2); [|discriminate H].
  destruct (p_le 8 r0) as [[a r1]|] eqn:E1; [|discriminate H].
  destruct (p_le 8 r1) as [[b r2]|] eqn:E2; [|discriminate H].
  destruct (p_le 8 r2) as [[c r3]|] eqn:E3; [|discriminate H].
  destruct (p_le 8 r3) as [[d r4]|] eqn:E4; [|discriminate H].
  injection H as Hx Hr. subst.
  rewrite (stable_p_le 8 _ _ _ ext E1), (stable_p_le 8 _ _ _ ext E2),
          (stable_p_le 8 _ _ _ ext E3), (stable_p_le 8 _ _ _ ext E4). reflexivity.
Qed.

Lemma stable_p_bins_loop : forall n acc m, stable (p_bins_loop n acc m).
Proof.
  induction n as [|n IH]; intros acc m bs x rest ext H; cbn [p_bins_loop] in *.
  - injection H as Hx Hr. subst. reflexivity.
  - destruct (p_le 4 bs) as [[id r]|] eqn:E0; [|discriminate H].
    rewrite (stable_p_le 4 _ _ _ ext E0).
    destruct (id =? bai_metadata_id).
    + destruct (p_metadata_body r) as [[md r']|] eqn:E1; [|discriminate H].
      rewrite (stable_p_metadata_body _ _ _ ext E1).
      destruct m; [discriminate H|]. exact (IH _ _ _ _ _ ext H).
    + destruct (p_chunks r) as [[cs r']|] eqn:E1; [|discriminate H].
      rewrite (stable_p_chunks _ _ _ ext E1).
      destruct (existsb (fun b => fst b =? id) acc); [discriminate H|].
      exact (IH _ _ _ _ _ ext H).
Qed.

Lemma stable_p_bins : stable p_bins.
Proof.
  intros bs x rest ext H. unfold p_bins in *.
  destruct (p_le 4 bs) as [[n r]|] eqn:E0; [|discriminate H].
  rewrite (stable_p_le 4 _ _ _ ext E0). exact (stable_p_bins_loop _ _ _ _ _ _ ext H).
Qed.

Lemma stable_p_intervals : stable p_intervals.
Proof.
  intros bs x rest ext H. unfold p_intervals in *.
  destruct (p_le 4 bs) as [[n r]|] eqn:E0; [|discriminate H].
  rewrite (stable_p_le 4 _ _ _ ext E0).
  exact (stable_p_repeat _ _ (stable_p_le 8) _ _ _ _ ext H).
Qed.

Lemma stable_p_bai_ref : stable p_bai_ref.
Proof.
  intros bs x rest ext H. unfold p_bai_ref in *.
  destruct (p_bins bs) as [[[bins m] r]|] eqn:E0; [|discriminate H].
  rewrite (stable_p_bins _ _ _ ext E0).
  destruct (p_intervals r) as [[iv r']|] eqn:E1; [|discriminate H].
  rewrite (stable_p_intervals _ _ _ ext E1).
  injection H as Hx Hr. subst. reflexivity.
Qed.

(* the reference section: n_ref and the references *)
Definition p_refs : parser (list bai_ref) := fun bs =>
  match p_le 4 bs with
  | None => None
  | Some (n, r1) => p_repeat (N.to_nat n) p_bai_ref r1
  end.

Lemma stable_p_refs : stable p_refs.
Proof.
  intros bs x rest ext H. unfold p_refs in *.
  destruct (p_le 4 bs) as [[n r]|] eqn:E0; [|discriminate H].
  rewrite (stable_p_le 4 _ _ _ ext E0).
  exact (stable_p_repeat _ _ stable_p_bai_ref _ _ _ _ ext H).
Qed.

Definition w_refs (refs : list bai_ref) : list N :=
  le32 (N.of_nat (length refs)) ++ concat (map w_bai_ref refs).

Lemma p_refs_w : forall refs rest,
  N.of_nat (length refs) < 4294967296 -> Forall ref_ok refs ->
  p_refs (w_refs refs ++ rest) = Some (refs, rest).
Proof.
  intros refs rest Hlen Hok. unfold p_refs, w_refs. rewrite <- app_assoc.
  rewrite p_le32_app by exact Hlen. rewrite Nat2N.id.
  apply (p_repeat_concat p_bai_ref w_bai_ref).
  intros x r Hx. apply p_bai_ref_w. rewrite Forall_forall in Hok. auto.
Qed.

Definition tail_of (u : option N) : list N := match u with Some n => le64 n | None => [] end.

Lemma w_bai_split : forall i, w_bai i = bai_magic ++ w_refs (bi_refs i) ++ tail_of (bi_unplaced i).
Proof. intros i. unfold w_bai, w_refs, tail_of. now rewrite <- app_assoc. Qed.

Lemma read_bai_magic : forall r0,
  read_bai (bai_magic ++ r0) =
    match p_refs r0 with
    | None => None
    | Some (refs, r2) =>
      match p_le 8 r2 with
      | Some (c, _) => Some (mkbai refs (Some c))
      | None => Some (mkbai refs None)
      end
    end.
Proof. intros r0. unfold read_bai, bai_magic, p_refs. cbn [app]. destruct (p_le 4 r0) as [[n r1]|]; reflexivity. Qed.

Lemma read_bai_short : forall bs, (length bs < 4)%nat -> read_bai bs = None.
Proof.
  intros bs H. unfold read_bai.
  destruct bs as [|a [|b [|c [|d t]]]]; cbn [length] in H; try lia; try reflexivity;
    repeat (match goal with |- context [match ?p with _ => _ end] => is_var p; destruct p end;
            try reflexivity).
Qed.

(* a successful parse of the reference section on a prefix of the section ++ tail can only leave
   at most the tail unread *)
Lemma p_refs_prefix_needs_all : forall refs tl k x rest,
  N.of_nat (length refs) < 4294967296 -> Forall ref_ok refs ->
  p_refs (firstn k (w_refs refs ++ tl)) = Some (x, rest) ->
  (length (w_refs refs) <= k)%nat.
Proof.
  intros refs tl k x rest Hlen Hok H.
  pose proof (stable_p_refs _ _ _ (skipn k (w_refs refs ++ tl)) H) as Hs.
  rewrite firstn_skipn in Hs. rewrite p_refs_w in Hs by assumption.
  injection Hs as Hx Hr. subst x.
  assert (Hl : length tl = (length rest + length (skipn k (w_refs refs ++ tl)))%nat).
  { rewrite Hr at 1. apply app_length. }
  rewrite skipn_length, app_length in Hl. lia.
Qed.

(* THE THEOREM.  For every well-formed index i and every cut k of the file written for it:
   - below the end of the reference section (= the start of the optional trailing count) the
     reader fails;
   - from there up to one byte short of the file (possible only when the count was written) it
     returns the same index with the count absent;
   - on the whole file it returns i. *)
Theorem bai_truncation : forall i k, bai_ok i ->
  let file := w_bai i in
  let base := length (w_bai (mkbai (bi_refs i) None)) in
  ((k < base)%nat -> read_bai (firstn k file) = None) /\
  ((base <= k < length file)%nat -> read_bai (firstn k file) = Some (mkbai (bi_refs i) None)) /\
  ((length file <= k)%nat -> read_bai (firstn k file) = Some i).
Proof.
  intros i k (Hlen & Hrefs & Hu). cbn zeta.
  rewrite !w_bai_split. cbn [bi_refs bi_unplaced tail_of]. rewrite app_nil_r.
  set (R := w_refs (bi_refs i)). set (T := tail_of (bi_unplaced i)).
  assert (Hm : length bai_magic = 4%nat) by reflexivity.
  rewrite !app_length, Hm.
  split; [|split].
  - intros Hk. destruct (Nat.ltb k 4) eqn:E4.
    + apply read_bai_short. rewrite firstn_length. lia.
    + rewrite firstn_app. rewrite (firstn_all2 bai_magic) by (rewrite Hm; lia). rewrite Hm.
      rewrite read_bai_magic.
      destruct (p_refs (firstn (k - 4) (R ++ T))) as [[x rest]|] eqn:E; [|reflexivity].
      apply p_refs_prefix_needs_all in E; [|assumption|assumption]. fold R in E. lia.
  - intros Hk.
    rewrite firstn_app. rewrite (firstn_all2 bai_magic) by (rewrite Hm; lia). rewrite Hm.
    rewrite read_bai_magic.
    rewrite firstn_app. rewrite (firstn_all2 R) by lia.
    unfold R. rewrite p_refs_w by assumption. fold R.
    assert (Hshort : p_le 8 (firstn (k - 4 - length R) T) = None).
    { unfold p_le. rewrite firstn_length.
      assert (HT : (length T <= 8)%nat).
      { unfold T, tail_of. destruct (bi_unplaced i); [rewrite le64_length|cbn]; lia. }
      assert (E : (8 <=? Nat.min (k - 4 - length R) (length T))%nat = false) by lia.
      rewrite E. reflexivity. }
    rewrite Hshort. reflexivity.
  - intros Hk.
    rewrite firstn_all2 by (rewrite !app_length, Hm; lia).
    unfold R, T. rewrite <- w_bai_split. apply bai_roundtrip. repeat split; assumption.
Qed.

(* Non-vacuity / the optional field in action: an index with one empty reference and a count *)
Example bai_trunc_example :
  let i := mkbai [mkbref [] None []] (Some 7) in
  length (w_bai i) = 24%nat /\
  read_bai (firstn 15 (w_bai i)) = None /\
  read_bai (firstn 16 (w_bai i)) = Some (mkbai [mkbref [] None []] None) /\
  read_bai (firstn 23 (w_bai i)) = Some (mkbai [mkbref [] None []] None) /\
  read_bai (firstn 24 (w_bai i)) = Some i.
Proof. vm_compute. repeat split. Qed.
