(* C13 — header reading over a stream that ends (or fails) early, and the whole file = header +
   records.  Definitions only; proofs are in HeaderProofs.v.

   Modelled code (what it does, not what it should do):
   * noodles-bam/src/io/reader/header.rs read_header_inner + header/sam_header.rs: C06's model
     NV.Sam.BamHeader.read_bam_header (magic, l_text, the text read through io::Take with the
     sam_header::Reader line discipline, n_ref, the references, reconciliation) is reused
     unchanged for a source that ENDS after its last byte; [bam_read_header] adds the source that
     FAILS after its last byte (the BGZF reader below reports UnexpectedEof for a torn block):
     every read that runs dry returns the source's error, and inside the text read_until fails
     before the partial last line is handed to the parser (the complete lines were parsed before).
   * noodles-bcf/src/io/reader/header.rs read_header_inner + header/vcf_header.rs after repair
     b36f6c8: magic "BCF" (read_exact 3, validate), format version (read_exact 2, any value),
     l_text (u32), the text through io::Take(l_text) with the same line discipline as BAM (a NUL
     at the start of a line ends the text; LF and one CR before it are stripped), every line to
     Parser::parse_partial + StringMaps::insert_entry (parameter [parse_line], None = InvalidData),
     then discard_to_end: UnexpectedEof when the Take still has a limit left at end of input, then
     Parser::finish (parameter [finish], None = InvalidData).
   * a file reader = read_header, then the record loop on what is left ([file_read]); on top of
     the BGZF reader ([file_over_bgzf]): the header reader and the record reader both see the
     data of the blocks in order and then the BGZF layer's own outcome. *)
From Coq Require Import List Arith NArith Bool.
From NV Require Import Base.LE Trunc.Stream.
From NV Require Bam.Record Bam.Decode Sam.Record Sam.Header Sam.BamHeader.
Import ListNotations.
Open Scope N_scope.

Inductive hres (H : Type) : Type :=
| HOk (h : H) (rest : list N)
| HErr (e : ekind).
Arguments HOk {H} h rest.
Arguments HErr {H} e.

(* ------------------------------------------------------------------------------------------ *)
(* BAM *)

(* the reader only produces UnexpectedEof (a read ran dry) and InvalidData; InvalidInput is a
   writer-side error of C06's shared result type *)
Definition conv_err (after : stop) (e : Bam.Record.err) : ekind :=
  match e with
  | Bam.Record.UnexpectedEof => short after
  | _ => InvalidData
  end.

(* Some r1 = magic number and l_text were read and fewer than l_text bytes follow *)
Definition bam_short_text (bs : list N) : option (list N) :=
  match Sam.BamHeader.read_magic bs with
  | Bam.Record.Ok r =>
      match Sam.BamHeader.rd4 r with
      | Bam.Record.Ok (l_text, r1) => if Bam.Record.lenN r1 <? l_text then Some r1 else None
      | Bam.Record.Err _ => None
      end
  | Bam.Record.Err _ => None
  end.

Definition complete_lines (ls : list (list N * bool)) : list (list N * bool) :=
  filter (fun p => snd p) ls.

Definition bam_read_header (after : stop) (bs : list N) : hres Sam.Header.header :=
  match after, bam_short_text bs with
  | Err e, Some r1 =>
      (* a failing source inside the text: the complete lines are parsed, then the error *)
      match Sam.BamHeader.run_lines_bam
              (complete_lines (Sam.Header.split_lf (Sam.BamHeader.visible true r1)))
              Sam.Header.init_pstate with
      | None => HErr InvalidData
      | Some _ => HErr e
      end
  | _, _ =>
      match Sam.BamHeader.read_bam_header bs with
      | Bam.Record.Ok (h, rest) => HOk h rest
      | Bam.Record.Err e => HErr (conv_err after e)
      end
  end.

(* ------------------------------------------------------------------------------------------ *)
(* BCF *)

Definition BCF_MAGIC : list N := [66; 67; 70].

Section BCFHeader.
  Variable St H : Type.
  Variable init : St.
  (* Parser::parse_partial followed by StringMaps::insert_entry; None = refused (InvalidData) *)
  Variable parse_line : St -> list N -> option St.
  (* Parser::finish; None = refused (InvalidData) *)
  Variable finish : St -> option H.

  Fixpoint bcf_run_lines (ls : list (list N * bool)) (st : St) : option St :=
    match ls with
    | [] => Some st
    | (l, lf) :: r =>
        match parse_line st (if lf : bool then Sam.Record.strip_last 13 l else l) with
        | Some st' => bcf_run_lines r st'
        | None => None
        end
    end.

  Definition bcf_read_header (after : stop) (bs : list N) : hres H :=
    match take 3 bs with
    | None => HErr (short after)
    | Some (m, r0) =>
      if negb (bytes_eqb m BCF_MAGIC) then HErr InvalidData else
      match take 2 r0 with
      | None => HErr (short after)
      | Some (_, r1) =>
        match take 4 r1 with
        | None => HErr (short after)
        | Some (lt, r2) =>
          let l_text := le_dec lt in
          let is_short := Bam.Record.lenN r2 <? l_text in
          let ls := Sam.Header.split_lf (Sam.BamHeader.visible true (Bam.Record.firstnN l_text r2)) in
          match after, is_short with
          | Err e, true =>
              match bcf_run_lines (complete_lines ls) init with
              | None => HErr InvalidData
              | Some _ => HErr e
              end
          | _, _ =>
              match bcf_run_lines ls init with
              | None => HErr InvalidData
              | Some st =>
                  (* discard_to_end: the Take has a limit left when the stream ended *)
                  if is_short then HErr UnexpectedEof else
                  match finish st with
                  | None => HErr InvalidData
                  | Some h => HOk h (Bam.Decode.skipN l_text r2)
                  end
              end
          end
        end
      end
    end.
End BCFHeader.

(* ------------------------------------------------------------------------------------------ *)
(* header + records *)

Definition file_read {H A : Type} (hdr : stop -> list N -> hres H) (rd : stop -> list N -> step A)
    (after : stop) (bs : list N) : option H * (list A * stop) :=
  match hdr after bs with
  | HErr e => (None, ([], Err e))
  | HOk h rest => (Some h, read_stream (rd after) rest)
  end.

Definition file_over_bgzf {H A : Type} (inflate : list N -> option (list N))
    (hdr : stop -> list N -> hres H) (rd : stop -> list N -> step A) (file : list N)
    : option H * (list A * stop) :=
  let (ds, s) := bgzf_blocks inflate file in file_read hdr rd s (concat ds).

(* ------------------------------------------------------------------------------------------ *)
(* observations for the correspondence check *)

(* BCF: the header parser as a table built by the harness with the real Parser + StringMaps:
   state = number of lines parsed so far; (i, line, _) in the table = the line is refused when i
   lines were parsed before it; finish accepts exactly when [nfin] lines were parsed (the number
   of lines of the written header, on which the real finish was run) *)
Fixpoint line_refused (tab : list (N * list N)) (i : N) (l : list N) : bool :=
  match tab with
  | [] => false
  | (j, g) :: t => ((j =? i) && bytes_eqb g l) || line_refused t i l
  end.

Definition tab_parse_line (tab : list (N * list N)) (i : N) (l : list N) : option N :=
  if line_refused tab i l then None else Some (i + 1).

Definition tab_finish (nfin : N) (i : N) : option N := if i =? nfin then Some i else None.

Definition bcf_hdr_tab (tab : list (N * list N)) (nfin : N) : stop -> list N -> hres N :=
  bcf_read_header N N 0 (tab_parse_line tab) (tab_finish nfin).

(* (header, number of records, outcome code) at one cut of a raw stream *)
Definition obs_file {H A : Type} (r : option H * (list A * stop)) : option H * (N * N) :=
  (fst r, (N.of_nat (length (fst (snd r))), stop_code (snd (snd r)))).

Definition obs_bam_file (k : nat) (bs : list N) : option (option (list N)) * (N * N) :=
  let r := file_read bam_read_header bam_read_record Eof (firstn k bs) in
  (option_map Sam.Header.write_header (fst r), snd (obs_file r)).

Definition obs_bcf_file (tab : list (N * list N)) (nfin : N) (k : nat) (bs : list N) : option N * (N * N) :=
  obs_file (file_read (bcf_hdr_tab tab nfin) (bcf_read_record (fun _ => None)) Eof (firstn k bs)).

Definition obs_bam_filez (itab : list (list N * list N)) (k : nat) (file : list N)
    : option (option (list N)) * (N * N) :=
  let r := file_over_bgzf (inflate_table itab) bam_read_header bam_read_record (firstn k file) in
  (option_map Sam.Header.write_header (fst r), snd (obs_file r)).

Definition obs_bcf_filez (itab : list (list N * list N)) (tab : list (N * list N)) (nfin : N)
    (k : nat) (file : list N) : option N * (N * N) :=
  obs_file (file_over_bgzf (inflate_table itab) (bcf_hdr_tab tab nfin)
              (bcf_read_record (fun _ => None)) (firstn k file)).
