(* C13 — proofs about the framing models of Stream.v.  The generic part: a reader that decodes
   one item from the front of its input, applied to every prefix of a concatenation of encoded
   items, returns exactly the items that lie wholly inside the prefix, then a stop outcome that
   depends only on where the cut falls inside the next item. *)
From Coq Require Import List Arith NArith Bool Lia ZifyBool ZifyNat ZifyN.
From NV Require Import Base.LE Trunc.Stream.
Import ListNotations.
Open Scope N_scope.

Arguments N.add : simpl never. Arguments N.sub : simpl never. Arguments N.mul : simpl never.
Arguments N.div : simpl never. Arguments N.modulo : simpl never. Arguments N.pred : simpl never.
Arguments N.eqb : simpl never. Arguments N.ltb : simpl never.

(* ---------- take ---------- *)
Lemma take_spec : forall bs n,
  take n bs = if (N.of_nat (length bs) <? n) then None
              else Some (firstn (N.to_nat n) bs, skipn (N.to_nat n) bs).
Proof.
  induction bs as [|b t IH]; intros n.
  - cbn [take length]. destruct (n =? 0) eqn:E.
    + assert (Hn : n = 0) by lia. subst n. reflexivity.
    + assert (Hlt : (N.of_nat 0 <? n) = true) by lia. rewrite Hlt. reflexivity.
  - cbn [take]. destruct (n =? 0) eqn:E.
    + assert (Hn : n = 0) by lia. subst n. reflexivity.
    + rewrite IH. cbn [length].
      assert (Hs : N.to_nat n = S (N.to_nat (N.pred n))) by lia. rewrite Hs.
      destruct (N.of_nat (length t) <? N.pred n) eqn:E1.
      * assert (H2 : (N.of_nat (S (length t)) <? n) = true) by lia. rewrite H2. reflexivity.
      * assert (H2 : (N.of_nat (S (length t)) <? n) = false) by lia. rewrite H2. reflexivity.
Qed.

Lemma take_app : forall a rest, take (N.of_nat (length a)) (a ++ rest) = Some (a, rest).
Proof.
  intros a rest. rewrite take_spec. rewrite app_length.
  assert (H : (N.of_nat (length a + length rest) <? N.of_nat (length a)) = false) by lia.
  rewrite H, Nat2N.id.
  rewrite firstn_app, Nat.sub_diag, firstn_all, firstn_O, app_nil_r.
  rewrite skipn_app, Nat.sub_diag, skipn_all. reflexivity.
Qed.

Lemma take_short : forall n bs, (length bs < N.to_nat n)%nat -> take n bs = None.
Proof.
  intros n bs H. rewrite take_spec.
  assert (E : (N.of_nat (length bs) <? n) = true) by lia. rewrite E. reflexivity.
Qed.

(* ---------- generic truncation theorem ---------- *)
Section Generic.
  Variables X A : Type.
  Variable enc : X -> list N.          (* the bytes of one item as written *)
  Variable out : X -> A.               (* what the reader returns for it *)
  Variable good : X -> Prop.           (* items the writer produces *)
  Variable rd : list N -> step A.      (* the item reader *)
  Variable s_end : stop.               (* outcome on exhausted input *)
  Variable pout : X -> nat -> stop.    (* outcome when the input ends j bytes into item x *)

  Hypothesis rd_nil : rd [] = Stop s_end.
  Hypothesis rd_full : forall x rest, good x -> rd (enc x ++ rest) = Item (out x) rest.
  Hypothesis rd_part : forall x j, good x -> (0 < j < length (enc x))%nat ->
                                   rd (firstn j (enc x)) = Stop (pout x j).
  Hypothesis enc_nonempty : forall x, good x -> (0 < length (enc x))%nat.

  Definition encode (xs : list X) : list N := concat (map enc xs).

  (* the specification: which items survive a cut at k, and the final outcome *)
  Fixpoint cut_spec (xs : list X) (k : nat) : list A * stop :=
    match xs with
    | [] => ([], s_end)
    | x :: t =>
      if (k =? 0)%nat then ([], s_end)
      else if (k <? length (enc x))%nat then ([], pout x k)
      else let (ys, s) := cut_spec t (k - length (enc x)) in (out x :: ys, s)
    end.

  Lemma read_all_cut : forall xs k fuel,
    Forall good xs -> (Nat.min k (length (encode xs)) < fuel)%nat ->
    read_all rd fuel (firstn k (encode xs)) = cut_spec xs k.
  Proof.
    induction xs as [|x t IH]; intros k fuel Hg Hf.
    - unfold encode. cbn [map concat]. rewrite firstn_nil.
      destruct fuel as [|f]; [lia|]. cbn [read_all cut_spec]. rewrite rd_nil. reflexivity.
    - inversion Hg as [|? ? Hx Ht]; subst.
      unfold encode in *. cbn [map concat] in *. rewrite app_length in Hf.
      pose proof (enc_nonempty x Hx) as Hne.
      destruct fuel as [|f]; [lia|]. cbn [read_all cut_spec].
      destruct (k =? 0)%nat eqn:E0.
      + assert (k = 0)%nat by lia. subst k. cbn [firstn]. rewrite rd_nil. reflexivity.
      + destruct (k <? length (enc x))%nat eqn:E1.
        * rewrite firstn_app.
          assert (Hz : (k - length (enc x) = 0)%nat) by lia. rewrite Hz. cbn [firstn].
          rewrite app_nil_r. rewrite rd_part by (auto; lia). reflexivity.
        * rewrite firstn_app.
          rewrite (firstn_all2 (enc x)) by lia.
          rewrite rd_full by exact Hx.
          rewrite IH; [reflexivity|exact Ht|]. lia.
  Qed.

  Theorem read_stream_cut : forall xs k,
    Forall good xs -> read_stream rd (firstn k (encode xs)) = cut_spec xs k.
  Proof.
    intros xs k Hg. unfold read_stream. apply read_all_cut; [exact Hg|].
    rewrite firstn_length. lia.
  Qed.

  (* ----- consequences of the specification ----- *)
  (* number of items lying wholly inside the first k bytes *)
  Fixpoint whole (xs : list X) (k : nat) : nat :=
    match xs with
    | [] => O
    | x :: t => if (k <? length (enc x))%nat then O else S (whole t (k - length (enc x)))
    end.

  Lemma cut_spec_prefix : forall xs k, Forall good xs ->
    fst (cut_spec xs k) = map out (firstn (whole xs k) xs).
  Proof.
    induction xs as [|x t IH]; intros k Hg; cbn [cut_spec whole]; [reflexivity|].
    inversion Hg as [|? ? Hx Ht]; subst. pose proof (enc_nonempty x Hx) as Hne.
    destruct (k =? 0)%nat eqn:E0.
    - assert (E1 : (k <? length (enc x))%nat = true) by lia. rewrite E1. reflexivity.
    - destruct (k <? length (enc x))%nat eqn:E1; [reflexivity|].
      specialize (IH (k - length (enc x))%nat Ht).
      destruct (cut_spec t (k - length (enc x))) as [ys s]. cbn [fst firstn map] in *. now rewrite IH.
  Qed.

  Lemma whole_le : forall xs k, (whole xs k <= length xs)%nat.
  Proof.
    induction xs as [|x t IH]; intros k; cbn [whole length]; [lia|].
    destruct (k <? length (enc x))%nat; [lia|]. specialize (IH (k - length (enc x))%nat). lia.
  Qed.

  (* the bytes of the surviving items fit in the cut, and the next item does not *)
  Lemma whole_fits : forall xs k, (length (encode (firstn (whole xs k) xs)) <= k)%nat.
  Proof.
    induction xs as [|x t IH]; intros k; cbn [whole]; [cbn; lia|].
    destruct (k <? length (enc x))%nat eqn:E1; [cbn; lia|].
    cbn [firstn]. unfold encode in *. cbn [map concat]. rewrite app_length.
    specialize (IH (k - length (enc x))%nat). lia.
  Qed.

  Lemma whole_next : forall xs k, (whole xs k < length xs)%nat ->
    (k < length (encode (firstn (S (whole xs k)) xs)))%nat.
  Proof.
    induction xs as [|x t IH]; intros k; cbn [whole length]; [lia|].
    destruct (k <? length (enc x))%nat eqn:E1.
    - intros _. cbn [firstn]. unfold encode. cbn [map concat]. rewrite app_length. lia.
    - intros Hlt. specialize (IH (k - length (enc x))%nat ltac:(lia)).
      unfold encode in *. cbn [firstn map concat] in *. rewrite app_length. lia.
  Qed.

  (* the final outcome: [s_end] exactly at item boundaries (and at/after the end of the file),
     [pout x j] when the cut falls j > 0 bytes into item x *)
  Lemma cut_spec_stop : forall xs k, Forall good xs ->
    let j := whole xs k in
    let b := length (encode (firstn j xs)) in
    snd (cut_spec xs k) =
      match nth_error xs j with
      | None => s_end
      | Some x => if (k =? b)%nat then s_end else pout x (k - b)
      end.
  Proof.
    induction xs as [|x t IH]; intros k Hg; cbn [cut_spec whole]; [reflexivity|].
    inversion Hg as [|? ? Hx Ht]; subst. pose proof (enc_nonempty x Hx) as Hne.
    destruct (k =? 0)%nat eqn:E0.
    - assert (E1 : (k <? length (enc x))%nat = true) by lia. rewrite E1.
      cbn [firstn nth_error encode map concat length snd]. rewrite E0. reflexivity.
    - destruct (k <? length (enc x))%nat eqn:E1.
      + cbn [firstn nth_error encode map concat length snd]. rewrite E0. now rewrite Nat.sub_0_r.
      + specialize (IH (k - length (enc x))%nat Ht). cbn zeta in IH.
        destruct (cut_spec t (k - length (enc x))) as [ys s]. cbn [snd] in *. rewrite IH.
        cbn [nth_error firstn]. unfold encode. cbn [map concat]. rewrite app_length.
        fold (encode (firstn (whole t (k - length (enc x))) t)).
        pose proof (whole_fits t (k - length (enc x))) as Hf.
        destruct (nth_error t (whole t (k - length (enc x)))); [|reflexivity].
        replace (k - (length (enc x) + length (encode (firstn (whole t (k - length (enc x))) t))))%nat
          with (k - length (enc x) - length (encode (firstn (whole t (k - length (enc x))) t)))%nat by lia.
        destruct (k - length (enc x) =? length (encode (firstn (whole t (k - length (enc x))) t)))%nat eqn:E2.
        * assert (E3 : (k =? length (enc x) + length (encode (firstn (whole t (k - length (enc x))) t)))%nat = true) by lia.
          rewrite E3. reflexivity.
        * assert (E3 : (k =? length (enc x) + length (encode (firstn (whole t (k - length (enc x))) t)))%nat = false) by lia.
          rewrite E3. reflexivity.
  Qed.

  (* Summary theorem: prefix + exact boundary rule *)
  Theorem stream_truncation_generic : forall (xs : list X) (k : nat), Forall good xs ->
    exists j : nat,
      (j <= length xs)%nat /\
      (length (encode (firstn j xs)) <= k)%nat /\
      (j < length xs -> k < length (encode (firstn (S j) xs)))%nat /\
      read_stream rd (firstn k (encode xs)) =
        (map out (firstn j xs),
         match nth_error xs j with
         | None => s_end
         | Some x => if (k =? length (encode (firstn j xs)))%nat then s_end
                     else pout x (k - length (encode (firstn j xs)))
         end).
  Proof.
    intros xs k Hg. exists (whole xs k).
    split; [apply whole_le|]. split; [apply whole_fits|]. split; [apply whole_next|].
    rewrite read_stream_cut by exact Hg.
    rewrite (surjective_pairing (cut_spec xs k)).
    rewrite cut_spec_prefix by exact Hg. rewrite cut_spec_stop by exact Hg. reflexivity.
  Qed.

  (* no fabrication / alteration / reordering: the i-th returned item is the i-th written item *)
  Theorem no_fabrication_generic : forall xs k i a, Forall good xs ->
    nth_error (fst (read_stream rd (firstn k (encode xs)))) i = Some a ->
    exists x, nth_error xs i = Some x /\ a = out x.
  Proof.
    intros xs k i a Hg Hn. rewrite read_stream_cut in Hn by exact Hg.
    rewrite cut_spec_prefix in Hn by exact Hg.
    rewrite nth_error_map in Hn.
    destruct (nth_error (firstn (whole xs k) xs) i) as [x|] eqn:E; [|discriminate Hn].
    injection Hn as Ha. exists x. split; [|now symmetry].
    clear -E. revert i E. generalize (whole xs k) as j.
    induction xs as [|y t IH]; intros j i E.
    - rewrite firstn_nil in E. destruct i; discriminate E.
    - destruct j as [|j]; [destruct i; discriminate E|]. destruct i as [|i]; cbn in *; [exact E|].
      eapply IH. exact E.
  Qed.
End Generic.

(* ------------------------------------------------------------------------------------------ *)
(* helpers *)

Lemma take_app_n : forall n a rest, n = N.of_nat (length a) -> take n (a ++ rest) = Some (a, rest).
Proof. intros n a rest Hn. subst n. apply take_app. Qed.

Lemma take_firstn_short : forall n (l : list N) j,
  (j < N.to_nat n)%nat -> take n (firstn j l) = None.
Proof. intros n l j H. apply take_short. rewrite firstn_length. lia. Qed.

Lemma firstn_app_ge : forall (a b : list N) j, (length a <= j)%nat ->
  firstn j (a ++ b) = a ++ firstn (j - length a) b.
Proof. intros a b j H. rewrite firstn_app. rewrite firstn_all2 by exact H. reflexivity. Qed.

Lemma firstn_app_lt : forall (a b : list N) j, (j <= length a)%nat -> firstn j (a ++ b) = firstn j a.
Proof.
  intros a b j H. rewrite firstn_app. replace (j - length a)%nat with O by lia.
  cbn [firstn]. apply app_nil_r.
Qed.

Lemma firstn_nonempty : forall (l : list N) j, (0 < j)%nat -> (0 < length l)%nat ->
  exists b t, firstn j l = b :: t.
Proof.
  intros l j Hj Hl. destruct l as [|b t]; [cbn in Hl; lia|]. destruct j as [|j]; [lia|].
  cbn [firstn]. eauto.
Qed.

(* ------------------------------------------------------------------------------------------ *)
(* BAM record stream *)

Definition bam_good (r : list N) : Prop :=
  (0 < length r)%nat /\ N.of_nat (length r) < 4294967296 /\ bam_validate r = None.

Lemma bam_read_record_cons : forall after b t,
  bam_read_record after (b :: t) =
    match take 4 (b :: t) with
    | None => Stop (Err (short after))
    | Some (h, r) =>
      if le_dec h =? 0 then Stop Eof else
      match take (le_dec h) r with
      | None => Stop (Err (short after))
      | Some (body, r') =>
        match bam_validate body with Some e => Stop (Err e) | None => Item body r' end
      end
    end.
Proof. reflexivity. Qed.

Lemma le32_cons : forall n, exists b t, le32 n = b :: t.
Proof. intros n. unfold le32. cbn [le_bytes]. eauto. Qed.

Lemma bam_rd_full : forall after r rest, bam_good r ->
  bam_read_record after (bam_encode_record r ++ rest) = Item r rest.
Proof.
  intros after r rest (Hne & Hlen & Hv). unfold bam_encode_record.
  destruct (le32_cons (N.of_nat (length r))) as (b & t & Hbt).
  rewrite <- app_assoc. rewrite Hbt. cbn [app]. rewrite bam_read_record_cons.
  change (b :: t ++ r ++ rest) with ((b :: t) ++ r ++ rest). rewrite <- Hbt.
  rewrite (take_app_n 4 (le32 (N.of_nat (length r)))) by (rewrite le32_length; reflexivity).
  unfold le32. rewrite le_dec_le_bytes by exact Hlen.
  assert (E0 : (N.of_nat (length r) =? 0) = false) by lia. rewrite E0.
  rewrite take_app. rewrite Hv. reflexivity.
Qed.

Lemma bam_rd_part : forall after r j, bam_good r ->
  (0 < j < length (bam_encode_record r))%nat ->
  bam_read_record after (firstn j (bam_encode_record r)) = Stop (Err (short after)).
Proof.
  intros after r j (Hne & Hlen & Hv) Hj. unfold bam_encode_record in *.
  rewrite app_length, le32_length in Hj.
  destruct (firstn_nonempty (le32 (N.of_nat (length r)) ++ r) j) as (b & t & Hbt);
    [lia|rewrite app_length, le32_length; lia|].
  rewrite Hbt, bam_read_record_cons, <- Hbt.
  destruct (Nat.ltb j 4) eqn:E4.
  - rewrite take_firstn_short by lia. reflexivity.
  - rewrite firstn_app_ge by (rewrite le32_length; lia). rewrite le32_length.
    rewrite (take_app_n 4 (le32 (N.of_nat (length r)))) by (rewrite le32_length; reflexivity).
    unfold le32. rewrite le_dec_le_bytes by exact Hlen.
    assert (E0 : (N.of_nat (length r) =? 0) = false) by lia. rewrite E0.
    rewrite take_firstn_short by lia. reflexivity.
Qed.

Lemma bam_enc_nonempty : forall r, bam_good r -> (0 < length (bam_encode_record r))%nat.
Proof. intros r _. unfold bam_encode_record. rewrite app_length, le32_length. lia. Qed.

Definition bam_encode (rs : list (list N)) : list N := encode _ bam_encode_record rs.

(* For every cut k of a written BAM record stream and whatever the byte source reports after its
   last byte ([after] = Eof for a plain file, Err e below a failing BGZF layer): the reader returns
   exactly the records that lie wholly inside the cut, unchanged and in order; it then reports
   [after] when the cut is a record boundary and an error otherwise. *)
Theorem bam_stream_truncation : forall after rs k, Forall bam_good rs ->
  exists j : nat,
    (j <= length rs)%nat /\
    (length (bam_encode (firstn j rs)) <= k)%nat /\
    (j < length rs -> k < length (bam_encode (firstn (S j) rs)))%nat /\
    read_stream (bam_read_record after) (firstn k (bam_encode rs)) =
      (firstn j rs,
       if (j <? length rs)%nat && negb (k =? length (bam_encode (firstn j rs)))%nat
       then Err (short after) else after).
Proof.
  intros after rs k Hg.
  destruct (stream_truncation_generic (list N) (list N) bam_encode_record (fun r => r) bam_good
              (bam_read_record after) after (fun _ _ => Err (short after))
              eq_refl (bam_rd_full after) (bam_rd_part after) bam_enc_nonempty rs k Hg)
    as (j & H1 & H2 & H3 & H4).
  exists j. split; [exact H1|]. split; [exact H2|]. split; [exact H3|].
  unfold bam_encode. rewrite H4. rewrite map_id. f_equal.
  destruct (nth_error rs j) as [x|] eqn:En.
  - assert (Hlt : (j < length rs)%nat) by (apply nth_error_Some; congruence).
    apply Nat.ltb_lt in Hlt. rewrite Hlt. cbn [andb].
    destruct (k =? length (encode (list N) bam_encode_record (firstn j rs)))%nat; reflexivity.
  - apply nth_error_None in En. assert (Hge : (j <? length rs)%nat = false) by lia.
    rewrite Hge. reflexivity.
Qed.

Theorem bam_no_fabrication : forall after rs k i r, Forall bam_good rs ->
  nth_error (fst (read_stream (bam_read_record after) (firstn k (bam_encode rs)))) i = Some r ->
  nth_error rs i = Some r.
Proof.
  intros after rs k i r Hg Hn.
  destruct (no_fabrication_generic (list N) (list N) bam_encode_record (fun r => r) bam_good
              (bam_read_record after) after (fun _ _ => Err (short after))
              eq_refl (bam_rd_full after) (bam_rd_part after) bam_enc_nonempty rs k i r Hg Hn)
    as (x & Hx & Hr).
  subst r. exact Hx.
Qed.
