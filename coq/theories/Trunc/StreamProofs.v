(* C13 — proofs about the framing models of Stream.v.  The generic part: a reader that decodes
   one item from the front of its input, applied to every prefix of a concatenation of encoded
   items, returns exactly the items that lie wholly inside the prefix, then a stop outcome that
   depends only on where the cut falls inside the next item. *)
From Coq Require Import List Arith NArith Bool Lia ZifyBool ZifyNat ZifyN.
From NV Require Import Base.LE Trunc.Stream.
Import ListNotations.
Open Scope N_scope.

Arguments N.add : simpl never. Arguments N.sub : simpl never. Arguments N.mul : simpl never.
Arguments N.div : simpl never. Arguments N.modulo : simpl never. Arguments N.pred : simpl never.
Arguments N.eqb : simpl never. Arguments N.ltb : simpl never.

(* ---------- take ---------- *)
Lemma take_spec : forall bs n,
  take n bs = if (N.of_nat (length bs) <? n) then None
              else Some (firstn (N.to_nat n) bs, skipn (N.to_nat n) bs).
Proof.
  induction bs as [|b t IH]; intros n.
  - cbn [take length]. destruct (n =? 0) eqn:E.
    + assert (Hn : n = 0) by lia. subst n. reflexivity.
    + assert (Hlt : (N.of_nat 0 <? n) = true) by lia. rewrite Hlt. reflexivity.
  - cbn [take]. destruct (n =? 0) eqn:E.
    + assert (Hn : n = 0) by lia. subst n. reflexivity.
    + rewrite IH. cbn [length].
      assert (Hs : N.to_nat n = S (N.to_nat (N.pred n))) by lia. rewrite Hs.
      destruct (N.of_nat (length t) <? N.pred n) eqn:E1.
      * assert (H2 : (N.of_nat (S (length t)) <? n) = true) by lia. rewrite H2. reflexivity.
      * assert (H2 : (N.of_nat (S (length t)) <? n) = false) by lia. rewrite H2. reflexivity.
Qed.

Lemma take_app : forall a rest, take (N.of_nat (length a)) (a ++ rest) = Some (a, rest).
Proof.
  intros a rest. rewrite take_spec. rewrite app_length.
  assert (H : (N.of_nat (length a + length rest) <? N.of_nat (length a)) = false) by lia.
  rewrite H, Nat2N.id.
  rewrite firstn_app, Nat.sub_diag, firstn_all, firstn_O, app_nil_r.
  rewrite skipn_app, Nat.sub_diag, skipn_all. reflexivity.
Qed.

Lemma take_short : forall n bs, (length bs < N.to_nat n)%nat -> take n bs = None.
Proof.
  intros n bs H. rewrite take_spec.
  assert (E : (N.of_nat (length bs) <? n) = true) by lia. rewrite E. reflexivity.
Qed.

(* ---------- generic truncation theorem ---------- *)
Section Generic.
  Variables X A : Type.
  Variable enc : X -> list N.          (* the bytes of one item as written *)
  Variable out : X -> A.               (* what the reader returns for it *)
  Variable good : X -> Prop.           (* items the writer produces *)
  Variable rd : list N -> step A.      (* the item reader *)
  Variable s_end : stop.               (* outcome on exhausted input *)
  Variable pout : X -> nat -> stop.    (* outcome when the input ends j bytes into item x *)

  Hypothesis rd_nil : rd [] = Stop s_end.
  Hypothesis rd_full : forall x rest, good x -> rd (enc x ++ rest) = Item (out x) rest.
  Hypothesis rd_part : forall x j, good x -> (0 < j < length (enc x))%nat ->
                                   rd (firstn j (enc x)) = Stop (pout x j).
  Hypothesis enc_nonempty : forall x, good x -> (0 < length (enc x))%nat.

  Definition encode (xs : list X) : list N := concat (map enc xs).

  (* the specification: which items survive a cut at k, and the final outcome *)
  Fixpoint cut_spec (xs : list X) (k : nat) : list A * stop :=
    match xs with
    | [] => ([], s_end)
    | x :: t =>
      if (k =? 0)%nat then ([], s_end)
      else if (k <? length (enc x))%nat then ([], pout x k)
      else let (ys, s) := cut_spec t (k - length (enc x)) in (out x :: ys, s)
    end.

  Lemma read_all_cut : forall xs k fuel,
    Forall good xs -> (Nat.min k (length (encode xs)) < fuel)%nat ->
    read_all rd fuel (firstn k (encode xs)) = cut_spec xs k.
  Proof.
    induction xs as [|x t IH]; intros k fuel Hg Hf.
    - unfold encode. cbn [map concat]. rewrite firstn_nil.
      destruct fuel as [|f]; [lia|]. cbn [read_all cut_spec]. rewrite rd_nil. reflexivity.
    - inversion Hg as [|? ? Hx Ht]; subst.
      unfold encode in *. cbn [map concat] in *. rewrite app_length in Hf.
      pose proof (enc_nonempty x Hx) as Hne.
      destruct fuel as [|f]; [lia|]. cbn [read_all cut_spec].
      destruct (k =? 0)%nat eqn:E0.
      + assert (k = 0)%nat by lia. subst k. cbn [firstn]. rewrite rd_nil. reflexivity.
      + destruct (k <? length (enc x))%nat eqn:E1.
        * rewrite firstn_app.
          assert (Hz : (k - length (enc x) = 0)%nat) by lia. rewrite Hz. cbn [firstn].
          rewrite app_nil_r. rewrite rd_part by (auto; lia). reflexivity.
        * rewrite firstn_app.
          rewrite (firstn_all2 (enc x)) by lia.
          rewrite rd_full by exact Hx.
          rewrite IH; [reflexivity|exact Ht|]. lia.
  Qed.

  Theorem read_stream_cut : forall xs k,
    Forall good xs -> read_stream rd (firstn k (encode xs)) = cut_spec xs k.
  Proof.
    intros xs k Hg. unfold read_stream. apply read_all_cut; [exact Hg|].
    rewrite firstn_length. lia.
  Qed.

  (* ----- consequences of the specification ----- *)
  (* number of items lying wholly inside the first k bytes *)
  Fixpoint whole (xs : list X) (k : nat) : nat :=
    match xs with
    | [] => O
    | x :: t => if (k <? length (enc x))%nat then O else S (whole t (k - length (enc x)))
    end.

  Lemma cut_spec_prefix : forall xs k, Forall good xs ->
    fst (cut_spec xs k) = map out (firstn (whole xs k) xs).
  Proof.
    induction xs as [|x t IH]; intros k Hg; cbn [cut_spec whole]; [reflexivity|].
    inversion Hg as [|? ? Hx Ht]; subst. pose proof (enc_nonempty x Hx) as Hne.
    destruct (k =? 0)%nat eqn:E0.
    - assert (E1 : (k <? length (enc x))%nat = true) by lia. rewrite E1. reflexivity.
    - destruct (k <? length (enc x))%nat eqn:E1; [reflexivity|].
      specialize (IH (k - length (enc x))%nat Ht).
      destruct (cut_spec t (k - length (enc x))) as [ys s]. cbn [fst firstn map] in *. now rewrite IH.
  Qed.

  Lemma whole_le : forall xs k, (whole xs k <= length xs)%nat.
  Proof.
    induction xs as [|x t IH]; intros k; cbn [whole length]; [lia|].
    destruct (k <? length (enc x))%nat; [lia|]. specialize (IH (k - length (enc x))%nat). lia.
  Qed.

  (* the bytes of the surviving items fit in the cut, and the next item does not *)
  Lemma whole_fits : forall xs k, (length (encode (firstn (whole xs k) xs)) <= k)%nat.
  Proof.
    induction xs as [|x t IH]; intros k; cbn [whole]; [cbn; lia|].
    destruct (k <? length (enc x))%nat eqn:E1; [cbn; lia|].
    cbn [firstn]. unfold encode in *. cbn [map concat]. rewrite app_length.
    specialize (IH (k - length (enc x))%nat). lia.
  Qed.

  Lemma whole_next : forall xs k, (whole xs k < length xs)%nat ->
    (k < length (encode (firstn (S (whole xs k)) xs)))%nat.
  Proof.
    induction xs as [|x t IH]; intros k; cbn [whole length]; [lia|].
    destruct (k <? length (enc x))%nat eqn:E1.
    - intros _. cbn [firstn]. unfold encode. cbn [map concat]. rewrite app_length. lia.
    - intros Hlt. specialize (IH (k - length (enc x))%nat ltac:(lia)).
      unfold encode in *. cbn [firstn map concat] in *. rewrite app_length. lia.
  Qed.

  (* the final outcome: [s_end] exactly at item boundaries (and at/after the end of the file),
     [pout x j] when the cut falls j > 0 bytes into item x *)
  Lemma cut_spec_stop : forall xs k, Forall good xs ->
    let j := whole xs k in
    let b := length (encode (firstn j xs)) in
    snd (cut_spec xs k) =
      match nth_error xs j with
      | None => s_end
      | Some x => if (k =? b)%nat then s_end else pout x (k - b)
      end.
  Proof.
    induction xs as [|x t IH]; intros k Hg; cbn [cut_spec whole]; [reflexivity|].
    inversion Hg as [|? ? Hx Ht]; subst. pose proof (enc_nonempty x Hx) as Hne.
    destruct (k =? 0)%nat eqn:E0.
    - assert (E1 : (k <? length (enc x))%nat = true) by lia. rewrite E1.
      cbn [firstn nth_error encode map concat length snd]. rewrite E0. reflexivity.
    - destruct (k <? length (enc x))%nat eqn:E1.
      + cbn [firstn nth_error encode map concat length snd]. rewrite E0. now rewrite Nat.sub_0_r.
      + specialize (IH (k - length (enc x))%nat Ht). cbn zeta in IH.
        destruct (cut_spec t (k - length (enc x))) as [ys s]. cbn [snd] in *. rewrite IH.
        cbn [nth_error firstn]. unfold encode. cbn [map concat]. rewrite app_length.
        fold (encode (firstn (whole t (k - length (enc x))) t)).
        pose proof (whole_fits t (k - length (enc x))) as Hf.
        destruct (nth_error t (whole t (k - length (enc x)))); [|reflexivity].
        replace (k - (length (enc x) + length (encode (firstn (whole t (k - length (enc x))) t))))%nat
          with (k - length (enc x) - length (encode (firstn (whole t (k - length (enc x))) t)))%nat by lia.
        destruct (k - length (enc x) =? length (encode (firstn (whole t (k - length (enc x))) t)))%nat eqn:E2.
        * assert (E3 : (k =? length (enc x) + length (encode (firstn (whole t (k - length (enc x))) t)))%nat = true) by lia.
          rewrite E3. reflexivity.
        * assert (E3 : (k =? length (enc x) + length (encode (firstn (whole t (k - length (enc x))) t)))%nat = false) by lia.
          rewrite E3. reflexivity.
  Qed.

  (* Summary theorem: prefix + exact boundary rule *)
  Theorem stream_truncation_generic : forall (xs : list X) (k : nat), Forall good xs ->
    exists j : nat,
      (j <= length xs)%nat /\
      (length (encode (firstn j xs)) <= k)%nat /\
      (j < length xs -> k < length (encode (firstn (S j) xs)))%nat /\
      read_stream rd (firstn k (encode xs)) =
        (map out (firstn j xs),
         match nth_error xs j with
         | None => s_end
         | Some x => if (k =? length (encode (firstn j xs)))%nat then s_end
                     else pout x (k - length (encode (firstn j xs)))
         end).
  Proof.
    intros xs k Hg. exists (whole xs k).
    split; [apply whole_le|]. split; [apply whole_fits|]. split; [apply whole_next|].
    rewrite read_stream_cut by exact Hg.
    rewrite (surjective_pairing (cut_spec xs k)).
    rewrite cut_spec_prefix by exact Hg. rewrite cut_spec_stop by exact Hg. reflexivity.
  Qed.

  (* no fabrication / alteration / reordering: the i-th returned item is the i-th written item *)
  Theorem no_fabrication_generic : forall xs k i a, Forall good xs ->
    nth_error (fst (read_stream rd (firstn k (encode xs)))) i = Some a ->
    exists x, nth_error xs i = Some x /\ a = out x.
  Proof.
    intros xs k i a Hg Hn. rewrite read_stream_cut in Hn by exact Hg.
    rewrite cut_spec_prefix in Hn by exact Hg.
    rewrite nth_error_map in Hn.
    destruct (nth_error (firstn (whole xs k) xs) i) as [x|] eqn:E; [|discriminate Hn].
    injection Hn as Ha. exists x. split; [|now symmetry].
    clear -E. revert i E. generalize (whole xs k) as j.
    induction xs as [|y t IH]; intros j i E.
    - rewrite firstn_nil in E. destruct i; discriminate E.
    - destruct j as [|j]; [destruct i; discriminate E|]. destruct i as [|i]; cbn in *; [exact E|].
      eapply IH. exact E.
  Qed.

End Generic.

(* ---------- more generic facts, free of the partial-item premise ---------- *)
Section GenericTail.
  Variables X A : Type.
  Variable enc : X -> list N.
  Variable out : X -> A.
  Variable good : X -> Prop.
  Variable rd : list N -> step A.
  Hypothesis rd_full : forall x rest, good x -> rd (enc x ++ rest) = Item (out x) rest.
  Hypothesis enc_nonempty : forall x, good x -> (0 < length (enc x))%nat.

  (* a stream of whole items followed by a tail on which the item reader stops: all the items,
     then that stop (used for terminators: the CRAM EOF container, a partial last item) *)
  Lemma encode_length_ge : forall xs, Forall good xs -> (length xs <= length (encode X enc xs))%nat.
  Proof.
    induction xs as [|x t IH]; intros Hg; [cbn; lia|].
    inversion Hg as [|? ? Hx Ht]; subst. pose proof (enc_nonempty x Hx) as Hne.
    unfold encode in *. cbn [map concat length]. rewrite app_length. specialize (IH Ht). lia.
  Qed.

  Lemma read_all_app_stop : forall xs tail s fuel, Forall good xs -> rd tail = Stop s ->
    (length xs < fuel)%nat -> read_all rd fuel (encode X enc xs ++ tail) = (map out xs, s).
  Proof.
    induction xs as [|x t IH]; intros tail s fuel Hg Hs Hf.
    - destruct fuel as [|f]; [lia|]. unfold encode. cbn [map concat app read_all]. rewrite Hs. reflexivity.
    - inversion Hg as [|? ? Hx Ht]; subst. destruct fuel as [|f]; [cbn in Hf; lia|].
      unfold encode in *. cbn [map concat read_all]. rewrite <- app_assoc.
      rewrite rd_full by exact Hx. rewrite (IH tail s f Ht Hs) by (cbn [length] in Hf; lia). reflexivity.
  Qed.

  Theorem read_stream_app_stop : forall xs tail s, Forall good xs -> rd tail = Stop s ->
    read_stream rd (encode X enc xs ++ tail) = (map out xs, s).
  Proof.
    intros xs tail s Hg Hs. unfold read_stream. apply read_all_app_stop; [exact Hg|exact Hs|].
    rewrite app_length. pose proof (encode_length_ge xs Hg). lia.
  Qed.

  (* ... followed by a tail that is read as one more item and then the stop on empty input *)
  Lemma read_all_app_item_stop : forall xs tail y s fuel, Forall good xs ->
    rd tail = Item y [] -> rd [] = Stop s ->
    (S (length xs) < fuel)%nat -> read_all rd fuel (encode X enc xs ++ tail) = (map out xs ++ [y], s).
  Proof.
    induction xs as [|x t IH]; intros tail y s fuel Hg Hy Hs Hf.
    - destruct fuel as [|[|f]]; [cbn in Hf; lia|cbn in Hf; lia|]. unfold encode.
      cbn [map concat app]. cbn [read_all]. rewrite Hy. cbn [read_all]. rewrite Hs. reflexivity.
    - inversion Hg as [|? ? Hx Ht]; subst. destruct fuel as [|f]; [cbn in Hf; lia|].
      unfold encode in *. cbn [map concat read_all]. rewrite <- app_assoc.
      rewrite rd_full by exact Hx.
      rewrite (IH tail y s f Ht Hy Hs) by (cbn [length] in Hf; lia). reflexivity.
  Qed.

  Theorem read_stream_app_item_stop : forall xs tail y s, Forall good xs ->
    (0 < length tail)%nat -> rd tail = Item y [] -> rd [] = Stop s ->
    read_stream rd (encode X enc xs ++ tail) = (map out xs ++ [y], s).
  Proof.
    intros xs tail y s Hg Hne Hy Hs. unfold read_stream. apply read_all_app_item_stop; try assumption.
    rewrite app_length. pose proof (encode_length_ge xs Hg). lia.
  Qed.

  (* a prefix of an encoded stream = the whole items inside it, then a proper prefix of the next *)
  Lemma firstn_encode_split : forall xs k,
    firstn k (encode X enc xs) =
      encode X enc (firstn (whole X enc xs k) xs) ++
      match nth_error xs (whole X enc xs k) with
      | Some x => firstn (k - length (encode X enc (firstn (whole X enc xs k) xs))) (enc x)
      | None => []
      end.
  Proof.
    clear rd_full enc_nonempty.
    induction xs as [|x t IH]; intros k.
    - unfold encode. cbn [whole firstn map concat nth_error app]. now rewrite firstn_nil.
    - cbn [whole]. destruct (k <? length (enc x))%nat eqn:E.
      + unfold encode. cbn [firstn map concat nth_error app length]. rewrite Nat.sub_0_r.
        rewrite firstn_app. replace (k - length (enc x))%nat with O by lia.
        cbn [firstn]. now rewrite app_nil_r.
      + unfold encode in *. cbn [firstn map concat nth_error]. rewrite app_length.
        rewrite firstn_app. rewrite (firstn_all2 (enc x)) by lia. rewrite <- app_assoc. f_equal.
        rewrite (IH (k - length (enc x))%nat).
        replace (k - (length (enc x) + length (concat (map enc (firstn (whole X enc t (k - length (enc x))) t)))))%nat
          with (k - length (enc x) - length (concat (map enc (firstn (whole X enc t (k - length (enc x))) t))))%nat by lia.
        reflexivity.
  Qed.

  Lemma whole_le' : forall xs k, (whole X enc xs k <= length xs)%nat.
  Proof.
    clear rd_full enc_nonempty.
    induction xs as [|x t IH]; intros k; cbn [whole length]; [lia|].
    destruct (k <? length (enc x))%nat; [lia|]. specialize (IH (k - length (enc x))%nat). lia.
  Qed.

  Lemma whole_fits' : forall xs k, (length (encode X enc (firstn (whole X enc xs k) xs)) <= k)%nat.
  Proof.
    clear rd_full enc_nonempty.
    induction xs as [|x t IH]; intros k; cbn [whole]; [cbn; lia|].
    destruct (k <? length (enc x))%nat eqn:E1; [cbn; lia|].
    cbn [firstn]. unfold encode in *. cbn [map concat]. rewrite app_length.
    specialize (IH (k - length (enc x))%nat). lia.
  Qed.

  Lemma whole_next' : forall xs k, (whole X enc xs k < length xs)%nat ->
    (k < length (encode X enc (firstn (S (whole X enc xs k)) xs)))%nat.
  Proof.
    clear rd_full enc_nonempty.
    induction xs as [|x t IH]; intros k; cbn [whole length]; [lia|].
    destruct (k <? length (enc x))%nat eqn:E1.
    - intros _. cbn [firstn]. unfold encode. cbn [map concat]. rewrite app_length. lia.
    - intros Hlt. specialize (IH (k - length (enc x))%nat ltac:(lia)).
      unfold encode in *. cbn [firstn map concat] in *. rewrite app_length. lia.
  Qed.
End GenericTail.

(* ------------------------------------------------------------------------------------------ *)
(* helpers *)

Lemma take_app_n : forall n a rest, n = N.of_nat (length a) -> take n (a ++ rest) = Some (a, rest).
Proof. intros n a rest Hn. subst n. apply take_app. Qed.

Lemma take_firstn_short : forall n (l : list N) j,
  (j < N.to_nat n)%nat -> take n (firstn j l) = None.
Proof. intros n l j H. apply take_short. rewrite firstn_length. lia. Qed.

Lemma firstn_app_ge : forall (a b : list N) j, (length a <= j)%nat ->
  firstn j (a ++ b) = a ++ firstn (j - length a) b.
Proof. intros a b j H. rewrite firstn_app. rewrite firstn_all2 by exact H. reflexivity. Qed.

Lemma firstn_app_lt : forall (a b : list N) j, (j <= length a)%nat -> firstn j (a ++ b) = firstn j a.
Proof.
  intros a b j H. rewrite firstn_app. replace (j - length a)%nat with O by lia.
  cbn [firstn]. apply app_nil_r.
Qed.

Lemma firstn_nonempty : forall (l : list N) j, (0 < j)%nat -> (0 < length l)%nat ->
  exists b t, firstn j l = b :: t.
Proof.
  intros l j Hj Hl. destruct l as [|b t]; [cbn in Hl; lia|]. destruct j as [|j]; [lia|].
  cbn [firstn]. eauto.
Qed.

(* ------------------------------------------------------------------------------------------ *)
(* BAM record stream *)

Definition bam_good (r : list N) : Prop :=
  (0 < length r)%nat /\ N.of_nat (length r) < 4294967296 /\ bam_validate r = None.

Lemma bam_read_record_cons : forall after b t,
  bam_read_record after (b :: t) =
    match take 4 (b :: t) with
    | None => Stop (Err (short after))
    | Some (h, r) =>
      if le_dec h =? 0 then Stop Eof else
      match take (le_dec h) r with
      | None => Stop (Err (short after))
      | Some (body, r') =>
        match bam_validate body with Some e => Stop (Err e) | None => Item body r' end
      end
    end.
Proof. reflexivity. Qed.

Lemma le32_cons : forall n, exists b t, le32 n = b :: t.
Proof. intros n. unfold le32. cbn [le_bytes]. eauto. Qed.

Lemma bam_rd_full : forall after r rest, bam_good r ->
  bam_read_record after (bam_encode_record r ++ rest) = Item r rest.
Proof.
  intros after r rest (Hne & Hlen & Hv). unfold bam_encode_record.
  destruct (le32_cons (N.of_nat (length r))) as (b & t & Hbt).
  rewrite <- app_assoc. rewrite Hbt. cbn [app]. rewrite bam_read_record_cons.
  change (b :: t ++ r ++ rest) with ((b :: t) ++ r ++ rest). rewrite <- Hbt.
  rewrite (take_app_n 4 (le32 (N.of_nat (length r)))) by (rewrite le32_length; reflexivity).
  unfold le32. rewrite le_dec_le_bytes by exact Hlen.
  assert (E0 : (N.of_nat (length r) =? 0) = false) by lia. rewrite E0.
  rewrite take_app. rewrite Hv. reflexivity.
Qed.

Lemma bam_rd_part : forall after r j, bam_good r ->
  (0 < j < length (bam_encode_record r))%nat ->
  bam_read_record after (firstn j (bam_encode_record r)) = Stop (Err (short after)).
Proof.
  intros after r j (Hne & Hlen & Hv) Hj. unfold bam_encode_record in *.
  rewrite app_length, le32_length in Hj.
  destruct (firstn_nonempty (le32 (N.of_nat (length r)) ++ r) j) as (b & t & Hbt);
    [lia|rewrite app_length, le32_length; lia|].
  rewrite Hbt, bam_read_record_cons, <- Hbt.
  destruct (Nat.ltb j 4) eqn:E4.
  - rewrite take_firstn_short by lia. reflexivity.
  - rewrite firstn_app_ge by (rewrite le32_length; lia). rewrite le32_length.
    rewrite (take_app_n 4 (le32 (N.of_nat (length r)))) by (rewrite le32_length; reflexivity).
    unfold le32. rewrite le_dec_le_bytes by exact Hlen.
    assert (E0 : (N.of_nat (length r) =? 0) = false) by lia. rewrite E0.
    rewrite take_firstn_short by lia. reflexivity.
Qed.

Lemma bam_enc_nonempty : forall r, bam_good r -> (0 < length (bam_encode_record r))%nat.
Proof. intros r _. unfold bam_encode_record. rewrite app_length, le32_length. lia. Qed.

Definition bam_encode (rs : list (list N)) : list N := encode _ bam_encode_record rs.

(* For every cut k of a written BAM record stream and whatever the byte source reports after its
   last byte ([after] = Eof for a plain file, Err e below a failing BGZF layer): the reader returns
   exactly the records that lie wholly inside the cut, unchanged and in order; it then reports
   [after] when the cut is a record boundary and an error otherwise. *)
Theorem bam_stream_truncation : forall after rs k, Forall bam_good rs ->
  exists j : nat,
    (j <= length rs)%nat /\
    (length (bam_encode (firstn j rs)) <= k)%nat /\
    (j < length rs -> k < length (bam_encode (firstn (S j) rs)))%nat /\
    read_stream (bam_read_record after) (firstn k (bam_encode rs)) =
      (firstn j rs,
       if (j <? length rs)%nat && negb (k =? length (bam_encode (firstn j rs)))%nat
       then Err (short after) else after).
Proof.
  intros after rs k Hg.
  destruct (stream_truncation_generic (list N) (list N) bam_encode_record (fun r => r) bam_good
              (bam_read_record after) after (fun _ _ => Err (short after))
              eq_refl (bam_rd_full after) (bam_rd_part after) bam_enc_nonempty rs k Hg)
    as (j & H1 & H2 & H3 & H4).
  exists j. split; [exact H1|]. split; [exact H2|]. split; [exact H3|].
  unfold bam_encode. rewrite H4. rewrite map_id. f_equal.
  destruct (nth_error rs j) as [x|] eqn:En.
  - assert (Hlt : (j < length rs)%nat) by (apply nth_error_Some; congruence).
    apply Nat.ltb_lt in Hlt. rewrite Hlt. cbn [andb].
    destruct (k =? length (encode (list N) bam_encode_record (firstn j rs)))%nat; reflexivity.
  - apply nth_error_None in En. assert (Hge : (j <? length rs)%nat = false) by lia.
    rewrite Hge. reflexivity.
Qed.

Theorem bam_no_fabrication : forall after rs k i r, Forall bam_good rs ->
  nth_error (fst (read_stream (bam_read_record after) (firstn k (bam_encode rs)))) i = Some r ->
  nth_error rs i = Some r.
Proof.
  intros after rs k i r Hg Hn.
  destruct (no_fabrication_generic (list N) (list N) bam_encode_record (fun r => r) bam_good
              (bam_read_record after) after (fun _ _ => Err (short after))
              eq_refl (bam_rd_full after) (bam_rd_part after) bam_enc_nonempty rs k i r Hg Hn)
    as (x & Hx & Hr).
  subst r. exact Hx.
Qed.

(* ------------------------------------------------------------------------------------------ *)
(* BCF record stream *)

Section BCFProofs.
  Variable site_ok : list N -> option ekind.

  Definition bcf_good (r : list N * list N) : Prop :=
    (0 < length (fst r))%nat /\ N.of_nat (length (fst r)) < 4294967296 /\
    N.of_nat (length (snd r)) < 4294967296 /\ site_ok (fst r) = None.

  Lemma bcf_read_record_cons : forall after b t,
    bcf_read_record site_ok after (b :: t) =
      match take 4 (b :: t) with
      | None => Stop (Err (short after))
      | Some (h, r) =>
        if le_dec h =? 0 then Stop Eof else
        match take 4 r with
        | None => Stop (Err (short after))
        | Some (h2, r2) =>
          match take (le_dec h) r2 with
          | None => Stop (Err (short after))
          | Some (site, r3) =>
            match site_ok site with
            | Some e => Stop (Err e)
            | None =>
              match take (le_dec h2) r3 with
              | None => Stop (Err (short after))
              | Some (samples, r4) => Item (site, samples) r4
              end
            end
          end
        end
      end.
  Proof. reflexivity. Qed.

  Lemma bcf_rd_full : forall after r rest, bcf_good r ->
    bcf_read_record site_ok after (bcf_encode_record r ++ rest) = Item r rest.
  Proof.
    intros after [site samples] rest (Hne & Hl1 & Hl2 & Hv). cbn [fst snd] in *.
    unfold bcf_encode_record. cbn [fst snd].
    destruct (le32_cons (N.of_nat (length site))) as (b & t & Hbt).
    repeat rewrite <- app_assoc. rewrite Hbt. cbn [app]. rewrite bcf_read_record_cons.
    change (b :: t ++ ?x) with ((b :: t) ++ x). rewrite <- Hbt.
    rewrite (take_app_n 4 (le32 (N.of_nat (length site)))) by (rewrite le32_length; reflexivity).
    assert (D1 : le_dec (le32 (N.of_nat (length site))) = N.of_nat (length site)).
    { unfold le32. apply le_dec_le_bytes. exact Hl1. }
    assert (D2 : le_dec (le32 (N.of_nat (length samples))) = N.of_nat (length samples)).
    { unfold le32. apply le_dec_le_bytes. exact Hl2. }
    rewrite D1.
    assert (E0 : (N.of_nat (length site) =? 0) = false) by lia. rewrite E0.
    rewrite (take_app_n 4 (le32 (N.of_nat (length samples)))) by (rewrite le32_length; reflexivity).
    rewrite take_app. rewrite Hv. rewrite D2.
    rewrite take_app. reflexivity.
  Qed.

  Lemma bcf_rd_part : forall after r j, bcf_good r ->
    (0 < j < length (bcf_encode_record r))%nat ->
    bcf_read_record site_ok after (firstn j (bcf_encode_record r)) = Stop (Err (short after)).
  Proof.
    intros after [site samples] j (Hne & Hl1 & Hl2 & Hv) Hj. cbn [fst snd] in *.
    unfold bcf_encode_record in *. cbn [fst snd] in *.
    repeat rewrite app_length in Hj. repeat rewrite le32_length in Hj.
    set (L1 := le32 (N.of_nat (length site))) in *.
    set (L2 := le32 (N.of_nat (length samples))) in *.
    assert (HL1 : length L1 = 4%nat) by apply le32_length.
    assert (HL2 : length L2 = 4%nat) by apply le32_length.
    destruct (firstn_nonempty (L1 ++ L2 ++ site ++ samples) j) as (b & t & Hbt);
      [lia|rewrite app_length; lia|].
    rewrite Hbt, bcf_read_record_cons, <- Hbt.
    destruct (Nat.ltb j 4) eqn:E4.
    { rewrite take_firstn_short by lia. reflexivity. }
    rewrite firstn_app_ge by lia. rewrite HL1.
    rewrite (take_app_n 4 L1) by (rewrite HL1; reflexivity).
    assert (D1 : le_dec L1 = N.of_nat (length site)).
    { unfold L1, le32. apply le_dec_le_bytes. exact Hl1. }
    rewrite D1.
    assert (E0 : (N.of_nat (length site) =? 0) = false) by lia. rewrite E0.
    destruct (Nat.ltb (j - 4) 4) eqn:E8.
    { rewrite take_firstn_short by lia. reflexivity. }
    rewrite firstn_app_ge by lia. rewrite HL2.
    rewrite (take_app_n 4 L2) by (rewrite HL2; reflexivity).
    assert (D2 : le_dec L2 = N.of_nat (length samples)).
    { unfold L2, le32. apply le_dec_le_bytes. exact Hl2. }
    destruct (Nat.ltb (j - 4 - 4) (length site)) eqn:Es.
    { rewrite take_firstn_short by lia. reflexivity. }
    rewrite firstn_app_ge by lia.
    rewrite take_app. rewrite Hv. rewrite D2.
    rewrite take_firstn_short by lia. reflexivity.
  Qed.

  Lemma bcf_enc_nonempty : forall r, bcf_good r -> (0 < length (bcf_encode_record r))%nat.
  Proof. intros r _. unfold bcf_encode_record. rewrite app_length, le32_length. lia. Qed.

  Definition bcf_encode (rs : list (list N * list N)) : list N := encode _ bcf_encode_record rs.

  Theorem bcf_stream_truncation : forall after rs k, Forall bcf_good rs ->
    exists j : nat,
      (j <= length rs)%nat /\
      (length (bcf_encode (firstn j rs)) <= k)%nat /\
      (j < length rs -> k < length (bcf_encode (firstn (S j) rs)))%nat /\
      read_stream (bcf_read_record site_ok after) (firstn k (bcf_encode rs)) =
        (firstn j rs,
         if (j <? length rs)%nat && negb (k =? length (bcf_encode (firstn j rs)))%nat
         then Err (short after) else after).
  Proof.
    intros after rs k Hg.
    destruct (stream_truncation_generic _ _ bcf_encode_record (fun r => r) bcf_good
                (bcf_read_record site_ok after) after (fun _ _ => Err (short after))
                eq_refl (bcf_rd_full after) (bcf_rd_part after) bcf_enc_nonempty rs k Hg)
      as (j & H1 & H2 & H3 & H4).
    exists j. split; [exact H1|]. split; [exact H2|]. split; [exact H3|].
    unfold bcf_encode. rewrite H4. rewrite map_id. f_equal.
    destruct (nth_error rs j) as [x|] eqn:En.
    - assert (Hlt : (j < length rs)%nat) by (apply nth_error_Some; congruence).
      apply Nat.ltb_lt in Hlt. rewrite Hlt. cbn [andb].
      destruct (k =? length (encode _ bcf_encode_record (firstn j rs)))%nat; reflexivity.
    - apply nth_error_None in En. assert (Hge : (j <? length rs)%nat = false) by lia.
      rewrite Hge. reflexivity.
  Qed.

  (* ----- the eager path ----- *)
  Variable samples_ok : list N -> list N -> option ekind.

  (* record by record the eager reader is the lazy reader followed by the sample decoder *)
  Lemma bcf_eager_is_lazy : forall after bs,
    bcf_read_record_buf site_ok samples_ok after bs =
      match bcf_read_record site_ok after bs with
      | Item (site, samples) r =>
          match samples_ok site samples with
          | Some e => Stop (Err e)
          | None => Item (site, samples) r
          end
      | Stop s => Stop s
      end.
  Proof.
    intros after bs. unfold bcf_read_record_buf, bcf_read_record.
    destruct bs as [|b t]; [reflexivity|].
    destruct (take 4 (b :: t)) as [[h r]|]; [|reflexivity].
    destruct (le_dec h =? 0); [reflexivity|].
    destruct (take 4 r) as [[h2 r2]|]; [|reflexivity].
    destruct (take (le_dec h) r2) as [[site r3]|]; [|reflexivity].
    destruct (site_ok site); [reflexivity|].
    destruct (take (le_dec h2) r3) as [[samples r4]|]; reflexivity.
  Qed.

  Definition bcf_buf_good (r : list N * list N) : Prop :=
    bcf_good r /\ samples_ok (fst r) (snd r) = None.

  Lemma bcf_buf_rd_full : forall after r rest, bcf_buf_good r ->
    bcf_read_record_buf site_ok samples_ok after (bcf_encode_record r ++ rest) = Item r rest.
  Proof.
    intros after r rest (Hg & Hs). rewrite bcf_eager_is_lazy, (bcf_rd_full after r rest Hg).
    destruct r as [site samples]. cbn [fst snd] in Hs. rewrite Hs. reflexivity.
  Qed.

  Lemma bcf_buf_rd_part : forall after r j, bcf_buf_good r ->
    (0 < j < length (bcf_encode_record r))%nat ->
    bcf_read_record_buf site_ok samples_ok after (firstn j (bcf_encode_record r)) = Stop (Err (short after)).
  Proof.
    intros after r j (Hg & _) Hj. rewrite bcf_eager_is_lazy, (bcf_rd_part after r j Hg Hj). reflexivity.
  Qed.

  Lemma bcf_buf_enc_nonempty : forall r, bcf_buf_good r -> (0 < length (bcf_encode_record r))%nat.
  Proof. intros r (Hg & _). apply bcf_enc_nonempty. exact Hg. Qed.

  Lemma bcf_buf_good_lazy : forall rs, Forall bcf_buf_good rs -> Forall bcf_good rs.
  Proof. intros rs H. eapply Forall_impl; [|exact H]. intros r (Hg & _). exact Hg. Qed.

  Theorem bcf_buf_stream_truncation : forall after rs k, Forall bcf_buf_good rs ->
    exists j : nat,
      (j <= length rs)%nat /\
      (length (bcf_encode (firstn j rs)) <= k)%nat /\
      (j < length rs -> k < length (bcf_encode (firstn (S j) rs)))%nat /\
      read_stream (bcf_read_record_buf site_ok samples_ok after) (firstn k (bcf_encode rs)) =
        (firstn j rs,
         if (j <? length rs)%nat && negb (k =? length (bcf_encode (firstn j rs)))%nat
         then Err (short after) else after).
  Proof.
    intros after rs k Hg.
    destruct (stream_truncation_generic _ _ bcf_encode_record (fun r => r) bcf_buf_good
                (bcf_read_record_buf site_ok samples_ok after) after (fun _ _ => Err (short after))
                eq_refl (bcf_buf_rd_full after) (bcf_buf_rd_part after) bcf_buf_enc_nonempty rs k Hg)
      as (j & H1 & H2 & H3 & H4).
    exists j. split; [exact H1|]. split; [exact H2|]. split; [exact H3|].
    unfold bcf_encode. rewrite H4. rewrite map_id. f_equal.
    destruct (nth_error rs j) as [x|] eqn:En.
    - assert (Hlt : (j < length rs)%nat) by (apply nth_error_Some; congruence).
      apply Nat.ltb_lt in Hlt. rewrite Hlt. cbn [andb].
      destruct (k =? length (encode _ bcf_encode_record (firstn j rs)))%nat; reflexivity.
    - apply nth_error_None in En. assert (Hge : (j <? length rs)%nat = false) by lia.
      rewrite Hge. reflexivity.
  Qed.

  (* on every cut of a written stream the eager and the lazy reader return the same records and
     stop in the same way *)
  Theorem bcf_eager_lazy_coincide : forall after rs k, Forall bcf_buf_good rs ->
    read_stream (bcf_read_record_buf site_ok samples_ok after) (firstn k (bcf_encode rs)) =
    read_stream (bcf_read_record site_ok after) (firstn k (bcf_encode rs)).
  Proof.
    intros after rs k Hg.
    unfold bcf_encode.
    rewrite (read_stream_cut _ _ bcf_encode_record (fun r => r) bcf_buf_good
               (bcf_read_record_buf site_ok samples_ok after) after (fun _ _ => Err (short after))
               eq_refl (bcf_buf_rd_full after) (bcf_buf_rd_part after) bcf_buf_enc_nonempty rs k Hg).
    rewrite (read_stream_cut _ _ bcf_encode_record (fun r => r) bcf_good
               (bcf_read_record site_ok after) after (fun _ _ => Err (short after))
               eq_refl (bcf_rd_full after) (bcf_rd_part after) bcf_enc_nonempty rs k
               (bcf_buf_good_lazy rs Hg)).
    reflexivity.
  Qed.
End BCFProofs.

(* ------------------------------------------------------------------------------------------ *)
(* BGZF block sequence *)

Lemma le_at_firstn : forall off len n (l : list N), (off + len <= n)%nat ->
  le_at off len (firstn n l) = le_at off len l.
Proof.
  intros off len n l H. unfold le_at. f_equal.
  rewrite skipn_firstn_comm. rewrite firstn_firstn. f_equal. lia.
Qed.

Section BGZFProofs.
  Variable inflate : list N -> option (list N).

  (* a frame as the writer produces it: BSIZE + 1 is its length, at least header + trailer, and
     it passes parse_block (header constants, ISIZE bound, DEFLATE + CRC) *)
  Definition frame_good (f : list N) : Prop :=
    (26 <= length f)%nat /\ N.of_nat (length f) = le_at 16 2 f + 1 /\
    exists d, parse_block inflate f = inr d.

  Definition frame_data (f : list N) : list N :=
    match parse_block inflate f with inr d => d | inl _ => [] end.

  (* the code's convention: a partial 18-byte header reads as a clean end *)
  Definition bgzf_pout (f : list N) (j : nat) : stop :=
    if (j <? 18)%nat then Eof else Err UnexpectedEof.

  Lemma read_frame_full : forall f rest, frame_good f -> read_frame (f ++ rest) = Item f rest.
  Proof.
    intros f rest (Hlen & Hbs & _). unfold read_frame, bgzf_header_size, bgzf_min_frame_size.
    rewrite take_spec. rewrite app_length.
    assert (E : (N.of_nat (length f + length rest) <? 18) = false) by lia. rewrite E.
    change (N.to_nat 18) with 18%nat.
    rewrite firstn_app_lt by lia. rewrite le_at_firstn by lia. rewrite <- Hbs.
    assert (E2 : (N.of_nat (length f) <? 26) = false) by lia. rewrite E2.
    rewrite skipn_app. replace (18 - length f)%nat with O by lia. change (skipn 0 rest) with rest.
    rewrite take_app_n by (rewrite skipn_length; lia).
    rewrite firstn_skipn. reflexivity.
  Qed.

  Lemma read_frame_part : forall f j, frame_good f -> (0 < j < length f)%nat ->
    read_frame (firstn j f) = Stop (bgzf_pout f j).
  Proof.
    intros f j (Hlen & Hbs & _) Hj. unfold read_frame, bgzf_pout, bgzf_header_size, bgzf_min_frame_size.
    rewrite take_spec. rewrite firstn_length.
    destruct (j <? 18)%nat eqn:E18.
    - assert (E : (N.of_nat (Nat.min j (length f)) <? 18) = true) by lia. rewrite E. reflexivity.
    - assert (E : (N.of_nat (Nat.min j (length f)) <? 18) = false) by lia. rewrite E.
      change (N.to_nat 18) with 18%nat.
      rewrite firstn_firstn. replace (Nat.min 18 j) with 18%nat by lia.
      rewrite le_at_firstn by lia. rewrite <- Hbs.
      assert (E2 : (N.of_nat (length f) <? 26) = false) by lia. rewrite E2.
      rewrite take_short; [reflexivity|]. rewrite skipn_length, firstn_length. lia.
  Qed.

  Lemma bgzf_rd_full : forall f rest, frame_good f ->
    bgzf_read_block inflate (f ++ rest) = Item (frame_data f) rest.
  Proof.
    intros f rest Hg. unfold bgzf_read_block. rewrite read_frame_full by exact Hg.
    destruct Hg as (_ & _ & d & Hd). unfold frame_data. rewrite Hd. reflexivity.
  Qed.

  Lemma bgzf_rd_part : forall f j, frame_good f -> (0 < j < length f)%nat ->
    bgzf_read_block inflate (firstn j f) = Stop (bgzf_pout f j).
  Proof.
    intros f j Hg Hj. unfold bgzf_read_block. rewrite read_frame_part by assumption. reflexivity.
  Qed.

  Lemma bgzf_rd_nil : bgzf_read_block inflate [] = Stop Eof.
  Proof. reflexivity. Qed.

  Lemma frame_nonempty : forall f, frame_good f -> (0 < length f)%nat.
  Proof. intros f (H & _). lia. Qed.

  Definition bgzf_file (fs : list (list N)) : list N := encode _ (fun f => f) fs.

  (* For every sequence of well-formed frames and every cut k: the blocks read are the data of
     exactly the frames lying wholly inside the cut; the reader then reports a clean end iff the
     cut is at a frame boundary or fewer than 18 bytes into the next frame, and UnexpectedEof
     otherwise. *)
  Theorem bgzf_truncation : forall fs k, Forall frame_good fs ->
    exists j : nat,
      (j <= length fs)%nat /\
      (length (bgzf_file (firstn j fs)) <= k)%nat /\
      (j < length fs -> k < length (bgzf_file (firstn (S j) fs)))%nat /\
      bgzf_blocks inflate (firstn k (bgzf_file fs)) =
        (map frame_data (firstn j fs),
         if (j <? length fs)%nat && negb (k - length (bgzf_file (firstn j fs)) <? 18)%nat
         then Err UnexpectedEof else Eof).
  Proof.
    intros fs k Hg.
    destruct (stream_truncation_generic _ _ (fun f : list N => f) frame_data frame_good
                (bgzf_read_block inflate) Eof bgzf_pout
                bgzf_rd_nil bgzf_rd_full bgzf_rd_part frame_nonempty fs k Hg)
      as (j & H1 & H2 & H3 & H4).
    exists j. split; [exact H1|]. split; [exact H2|]. split; [exact H3|].
    unfold bgzf_blocks, bgzf_file. rewrite H4. f_equal.
    destruct (nth_error fs j) as [x|] eqn:En.
    - assert (Hlt : (j < length fs)%nat) by (apply nth_error_Some; congruence).
      apply Nat.ltb_lt in Hlt. rewrite Hlt. cbn [andb]. unfold bgzf_pout.
      unfold bgzf_file in H2.
      destruct (k =? length (encode _ (fun f : list N => f) (firstn j fs)))%nat eqn:Ek.
      + assert (Ez : (k - length (encode _ (fun f : list N => f) (firstn j fs)) <? 18)%nat = true) by lia.
        rewrite Ez. reflexivity.
      + destruct (k - length (encode _ (fun f : list N => f) (firstn j fs)) <? 18)%nat; reflexivity.
    - apply nth_error_None in En. assert (Hge : (j <? length fs)%nat = false) by lia.
      rewrite Hge. reflexivity.
  Qed.

  Theorem bgzf_no_fabrication : forall fs k i d, Forall frame_good fs ->
    nth_error (fst (bgzf_blocks inflate (firstn k (bgzf_file fs)))) i = Some d ->
    exists f, nth_error fs i = Some f /\ d = frame_data f.
  Proof.
    intros fs k i d Hg Hn.
    exact (no_fabrication_generic _ _ (fun f : list N => f) frame_data frame_good
             (bgzf_read_block inflate) Eof bgzf_pout
             bgzf_rd_nil bgzf_rd_full bgzf_rd_part frame_nonempty fs k i d Hg Hn).
  Qed.
End BGZFProofs.

(* ------------------------------------------------------------------------------------------ *)
(* BAM record reader layered on the BGZF reader *)

Section Layered.
  Variable inflate : list N -> option (list N).

  Lemma concat_map_firstn_prefix : forall (fs : list (list N)) (g : list N -> list N) j,
    concat (map g (firstn j fs)) =
      firstn (length (concat (map g (firstn j fs)))) (concat (map g fs)).
  Proof.
    intros fs g j. rewrite <- (firstn_skipn j fs) at 3. rewrite map_app, concat_app.
    rewrite firstn_app, Nat.sub_diag, firstn_all. cbn [firstn]. now rewrite app_nil_r.
  Qed.

  (* A BAM file = frames whose data concatenate to header bytes ++ encoded records.  Cut anywhere:
     the BGZF layer delivers the data p of the frames wholly inside the cut and then reports s
     (Eof, or UnexpectedEof when the cut is 18 or more bytes into a frame); the record reader then
     behaves exactly as the plain-stream reader on the first |p| - |header| bytes of the record
     stream, with s as what follows -- so bam_stream_truncation describes its result: the records
     wholly inside p, then Eof only if s = Eof and p ends at a record boundary. *)
  Theorem bam_over_bgzf_truncation : forall fs rs hdrbytes k,
    Forall (frame_good inflate) fs ->
    concat (map (frame_data inflate) fs) = hdrbytes ++ bam_encode rs ->
    exists (j : nat) (s : stop),
      bgzf_blocks inflate (firstn k (bgzf_file fs)) = (map (frame_data inflate) (firstn j fs), s) /\
      (s = Eof \/ s = Err UnexpectedEof) /\
      let p := concat (map (frame_data inflate) (firstn j fs)) in
      bam_over_bgzf inflate (length hdrbytes) (firstn k (bgzf_file fs)) =
        if (length p <? length hdrbytes)%nat then None
        else Some (read_stream (bam_read_record s)
                     (firstn (length p - length hdrbytes) (bam_encode rs))).
  Proof.
    intros fs rs hdrbytes k Hg Hcat.
    destruct (bgzf_truncation inflate fs k Hg) as (j & _ & _ & _ & Hb).
    eexists j, _. split; [exact Hb|]. split.
    { destruct ((j <? length fs)%nat && negb (k - length (bgzf_file (firstn j fs)) <? 18)%nat); auto. }
    cbn zeta. unfold bam_over_bgzf. rewrite Hb.
    set (p := concat (map (frame_data inflate) (firstn j fs))).
    destruct (length p <? length hdrbytes)%nat eqn:E; [reflexivity|].
    f_equal. f_equal.
    assert (Hp : p = firstn (length p) (hdrbytes ++ bam_encode rs)).
    { rewrite <- Hcat. apply concat_map_firstn_prefix. }
    rewrite firstn_app_ge in Hp by lia.
    rewrite Hp at 1. rewrite skipn_app, skipn_all, Nat.sub_diag. reflexivity.
  Qed.

  (* the same for ANY record reader [rd] and any payload behind the header bytes: the layered
     reader is the plain reader [rd s] on the delivered part of the payload *)
  Theorem rec_over_bgzf_truncation : forall (A : Type) (rd : stop -> list N -> step A)
      fs payload hdrbytes k,
    Forall (frame_good inflate) fs ->
    concat (map (frame_data inflate) fs) = hdrbytes ++ payload ->
    exists (j : nat) (s : stop),
      bgzf_blocks inflate (firstn k (bgzf_file fs)) = (map (frame_data inflate) (firstn j fs), s) /\
      (s = Eof \/ s = Err UnexpectedEof) /\
      let p := concat (map (frame_data inflate) (firstn j fs)) in
      rec_over_bgzf inflate rd (length hdrbytes) (firstn k (bgzf_file fs)) =
        if (length p <? length hdrbytes)%nat then None
        else Some (read_stream (rd s) (firstn (length p - length hdrbytes) payload)).
  Proof.
    intros A rd fs payload hdrbytes k Hg Hcat.
    destruct (bgzf_truncation inflate fs k Hg) as (j & _ & _ & _ & Hb).
    eexists j, _. split; [exact Hb|]. split.
    { destruct ((j <? length fs)%nat && negb (k - length (bgzf_file (firstn j fs)) <? 18)%nat); auto. }
    cbn zeta. unfold rec_over_bgzf. rewrite Hb.
    set (p := concat (map (frame_data inflate) (firstn j fs))).
    destruct (length p <? length hdrbytes)%nat eqn:E; [reflexivity|].
    f_equal. f_equal.
    assert (Hp : p = firstn (length p) (hdrbytes ++ payload)).
    { rewrite <- Hcat. apply concat_map_firstn_prefix. }
    rewrite firstn_app_ge in Hp by lia.
    rewrite Hp at 1. rewrite skipn_app, skipn_all, Nat.sub_diag. reflexivity.
  Qed.
End Layered.
