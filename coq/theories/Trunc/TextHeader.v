(* C13 — the SAM / VCF TEXT header read from a stream that ends (or fails) early.  Definitions only.

   Modelled code: noodles-sam/src/io/reader/header.rs and noodles-vcf/src/io/reader/header.rs
   read_header: the header::Reader adapter (prefix '@' resp. '#': the header text ends at the first
   LINE that does not start with the prefix, or at the end of the data), `while read_line(..)? != 0
   { parser.parse_partial(&buf)? }`, then parser.finish() (VCF: an error without the #CHROM line;
   SAM: never fails).  The adapter over a buffered source is C12's model NV.Io.HeaderRead, whose
   theorem h_read_lines_spec proves that on a delivered source the lines handed to the parser are
   [map strip_eol (fst (hdr_closed ..))] and the data left is [snd (hdr_closed ..)]; the closed form
   [hdr_closed] is used here directly (read-only import).  Added here: the source that FAILS after
   its last byte (the BGZF layer reports UnexpectedEof for a torn block): the adapter needs one
   more fill_buf at the end of the delivered data - to finish a partial line or to peek at the
   first byte of the next line -, so the complete lines are parsed and then the error is returned;
   when the header was ended by a delivered non-prefix byte the source is not touched again.
   The header parser is a parameter (state machine [parse_line] / [finish]); for SAM the concrete
   parser of NV.Sam.Header (C06) is plugged in by [sam_text_read_header]. *)
From Coq Require Import List Arith NArith Bool.
From NV Require Import Base.LE Trunc.Stream Trunc.Header.
From NV Require Io.BufReader Io.HeaderRead Sam.Header.
Import ListNotations.
Open Scope N_scope.

Section TextHeader.
  Variable prefix : N.
  Variable St H : Type.
  Variable init : St.
  Variable parse_line : St -> list N -> option St.     (* None = InvalidData *)
  Variable finish : St -> option H.                     (* None = InvalidData *)

  (* raw lines as read_until delivers them (LF kept when present); read_line strips LF / CRLF *)
  Fixpoint th_run (raws : list (list N)) (st : St) : option St :=
    match raws with
    | [] => Some st
    | raw :: r =>
        match parse_line st (Io.BufReader.strip_eol raw) with
        | Some st' => th_run r st'
        | None => None
        end
    end.

  Definition text_read_header (after : stop) (d : list N) : hres H :=
    let '(raws, rest) := Io.HeaderRead.hdr_closed (S (length d)) prefix d in
    match after, rest with
    | Err e, [] =>
        match th_run (filter (Io.BufReader.ends_with Io.BufReader.LF) raws) init with
        | None => HErr InvalidData
        | Some _ => HErr e
        end
    | _, _ =>
        match th_run raws init with
        | None => HErr InvalidData
        | Some st =>
            match finish st with
            | None => HErr InvalidData
            | Some h => HOk h rest
            end
        end
    end.

  (* what a stream made of the first j written header lines followed by a partial line t (empty,
     or a strict prefix of line j) yields: on a failing source the error; on a source that ends
     the header the parser builds from the j lines and the partial line - a header DIFFERENT from
     the written one, returned without error, when the parser and finish accept - and no rest *)
  Definition text_hdr_cut_result (after : stop) (hls : list (list N)) (j : nat) (t : list N) : hres H :=
    match after with
    | Err e => HErr e
    | Eof =>
        match th_run (map (fun l => l ++ [10]) (firstn j hls)) init with
        | None => HErr InvalidData
        | Some st =>
            match (match t with [] => Some st | _ :: _ => parse_line st t end) with
            | None => HErr InvalidData
            | Some s =>
                match finish s with
                | None => HErr InvalidData
                | Some h' => HOk h' []
                end
            end
        end
    end.

  (* VCF since `fix:` ae9f807: read_header BREAKS out of the line loop as soon as parse_partial
     returns Entry::Header (the line the parser takes for #CHROM: [done] on the state after that
     line).  The bytes behind that line stay unread - also when they start with the prefix - and
     the source is not touched again: neither a later '#' line nor the error of a failing source
     behind the #CHROM line reaches read_header.  Before the stop the discipline is the one of
     [text_read_header]: complete lines are parsed in order; a last line without LF is parsed on a
     source that ends and is the source's error on a source that fails; at the end of the
     delivered data behind a complete line the adapter peeks (the source's outcome decides). *)
  Variable done : St -> bool.

  Fixpoint th_sw (after : stop) (raws : list (list N)) (rest : list N) (st : St) : hres H :=
    match raws with
    | [] =>
        match after, rest with
        | Err e, [] => HErr e
        | _, _ => match finish st with None => HErr InvalidData | Some h => HOk h rest end
        end
    | raw :: r =>
        match after, Io.BufReader.ends_with Io.BufReader.LF raw with
        | Err e, false => HErr e
        | _, _ =>
            match parse_line st (Io.BufReader.strip_eol raw) with
            | None => HErr InvalidData
            | Some st' =>
                if done st' then
                  match finish st' with
                  | None => HErr InvalidData
                  | Some h => HOk h (concat r ++ rest)
                  end
                else th_sw after r rest st'
            end
        end
    end.

  Definition text_read_header_sw (after : stop) (d : list N) : hres H :=
    let '(raws, rest) := Io.HeaderRead.hdr_closed (S (length d)) prefix d in
    th_sw after raws rest init.
End TextHeader.

(* SAM: the concrete header parser of C06 *)
Definition sam_text_read_header : stop -> list N -> hres Sam.Header.header :=
  text_read_header 64 Sam.Header.pstate Sam.Header.header Sam.Header.init_pstate
    (fun st l => Sam.Header.parse_partial l st) (fun st => Some (snd st)).

(* VCF: the header parser as a table (see Header.v tab_parse_line); finish accepts exactly when
   the last line of the written header (the #CHROM line, index nfin - 1) was parsed, whole or in
   part; since ae9f807 the reader stops behind that line ([text_read_header_sw], done = the state
   after line nfin - 1) *)
Definition vcf_text_read_header (tab : list (N * list N)) (nfin : N) : stop -> list N -> hres N :=
  text_read_header_sw 35 N N 0 (tab_parse_line tab) (tab_finish nfin) (fun i => i =? nfin).

(* observations for the correspondence check: plain text and bgzipped text, header included.
   The header is observed through a short canonical form (SAM: the text C06's writer prints for
   it; VCF: nothing) *)
Definition obs_sam_text (rejected : list (list N * N)) (k : nat) (bs : list N)
    : option (option (list N)) * (N * N) :=
  let r := file_read sam_text_read_header (text_read_record (reject_table rejected)) Eof (firstn k bs) in
  (option_map Sam.Header.write_header (fst r), snd (obs_file r)).

Definition obs_vcf_text (tab : list (N * list N)) (nfin : N) (rejected : list (list N * N)) (k : nat)
    (bs : list N) : option N * (N * N) :=
  obs_file (file_read (vcf_text_read_header tab nfin) (text_read_record (reject_table rejected)) Eof
              (firstn k bs)).

Definition obs_sam_textz (itab : list (list N * list N)) (rejected : list (list N * N)) (k : nat)
    (file : list N) : option (option (list N)) * (N * N) :=
  let r := file_over_bgzf (inflate_table itab) sam_text_read_header
             (text_read_record (reject_table rejected)) (firstn k file) in
  (option_map Sam.Header.write_header (fst r), snd (obs_file r)).

Definition obs_vcf_textz (itab : list (list N * list N)) (tab : list (N * list N)) (nfin : N)
    (rejected : list (list N * N)) (k : nat) (file : list N) : option N * (N * N) :=
  obs_file (file_over_bgzf (inflate_table itab) (vcf_text_read_header tab nfin)
              (text_read_record (reject_table rejected)) (firstn k file)).
