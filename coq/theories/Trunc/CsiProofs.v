(* C13 — truncation of the CSI and tabix index layouts (the uncompressed payload inside BGZF):
   models read_csi / read_tbi / w_csi_bytes / w_tbi_bytes of NV.Index.CsiLayout (C17, imported
   read-only).

   Most field parsers are *stable* (success persists, with the same consumption, under extension
   of the input), as for BAI.  The tabix header / CSI aux block read the sequence names (and the
   whole aux block) through io::Take, which silently delivers fewer bytes when the input ends
   early; since repair d82cb79 the names reader checks that the take delivered all l_nm bytes,
   so the header parser FAILS on every strict prefix of its written bytes ([p_names_cut],
   [p_header_cut], [p_aux_cut]).  (Before that repair a header cut right behind a name's NUL
   parsed as a header with fewer names, which a tabix index without reference sequences
   accepted: finding tabix-truncated-names-accepted-no-refs, now fixed.) *)
From Coq Require Import List Arith NArith Bool Lia ZifyBool ZifyNat ZifyN.
From NV Require Import Base.LE Index.Bins Index.Chunks Index.Indexer Index.CsiLoffset
  Index.Layout Index.LayoutProofs Index.CsiLayout Index.CsiLayoutProofs Trunc.BaiProofs.
Import ListNotations.
Open Scope N_scope.

(* ---------- generic facts about stable parsers ---------- *)
Lemma firstn_app_le {A} (a b : list A) k : (k <= length a)%nat -> firstn k (a ++ b) = firstn k a.
Proof.
  intros H. rewrite firstn_app. replace (k - length a)%nat with O by lia.
  cbn [firstn]. apply app_nil_r.
Qed.

Lemma firstn_app_ge {A} (a b : list A) k :
  (length a <= k)%nat -> firstn k (a ++ b) = a ++ firstn (k - length a) b.
Proof. intros H. rewrite firstn_app. rewrite (firstn_all2 a) by exact H. reflexivity. Qed.

Lemma stable_needs_all {A} (p : parser A) (w tl : list N) (x0 : A) :
  stable p -> p (w ++ tl) = Some (x0, tl) ->
  forall k x rest, p (firstn k (w ++ tl)) = Some (x, rest) -> (length w <= k)%nat.
Proof.
  intros Hs Hw k x rest H.
  pose proof (Hs _ _ _ (skipn k (w ++ tl)) H) as H2. rewrite firstn_skipn, Hw in H2.
  injection H2 as Hx Hr.
  assert (Hl : length tl = (length rest + length (skipn k (w ++ tl)))%nat).
  { rewrite Hr at 1. apply app_length. }
  rewrite skipn_length, app_length in Hl. lia.
Qed.

(* a stable parser that reads [w] off the front of any input, on every cut of  w ++ tl *)
Lemma cut_stable {A} (p : parser A) (w : list N) (x0 : A) :
  stable p -> (forall rest, p (w ++ rest) = Some (x0, rest)) ->
  forall k tl,
    ((k < length w)%nat -> p (firstn k (w ++ tl)) = None) /\
    ((length w <= k)%nat -> p (firstn k (w ++ tl)) = Some (x0, firstn (k - length w) tl)).
Proof.
  intros Hs Hw k tl. split; intros Hk.
  - destruct (p (firstn k (w ++ tl))) as [[x rest]|] eqn:E; [|reflexivity].
    apply (stable_needs_all p w tl x0 Hs (Hw tl)) in E. lia.
  - rewrite firstn_app_ge by exact Hk. apply Hw.
Qed.

(* ---------- stability of the CSI / tabix field parsers ---------- *)
Lemma stable_p_i32_nonneg : stable p_i32_nonneg.
Proof.
  intros bs x rest ext H. unfold p_i32_nonneg in *.
  destruct (p_le 4 bs) as [[n r]|] eqn:E0; [|discriminate H].
  rewrite (stable_p_le 4 _ _ _ ext E0).
  destruct (n <? 2147483648); [|discriminate H].
  injection H as Hx Hr. subst. reflexivity.
Qed.

Lemma stable_p_col : stable p_col.
Proof.
  intros bs x rest ext H. unfold p_col in *.
  destruct (p_le 4 bs) as [[n r]|] eqn:E0; [|discriminate H].
  rewrite (stable_p_le 4 _ _ _ ext E0).
  destruct ((1 <=? n) && (n <? 2147483648)); [|discriminate H].
  injection H as Hx Hr. subst. reflexivity.
Qed.

Lemma stable_p_format : stable p_format.
Proof.
  intros bs x rest ext H. unfold p_format in *.
  destruct (p_le 4 bs) as [[n r]|] eqn:E0; [|discriminate H].
  rewrite (stable_p_le 4 _ _ _ ext E0).
  destruct (n mod 65536 =? 0).
  - destruct (n / 65536 =? 0); [injection H as Hx Hr; subst; reflexivity|].
    destruct (n / 65536 =? 1); [injection H as Hx Hr; subst; reflexivity|discriminate H].
  - destruct (n mod 65536 =? 1); [injection H as Hx Hr; subst; reflexivity|].
    destruct (n mod 65536 =? 2); [injection H as Hx Hr; subst; reflexivity|discriminate H].
Qed.

Lemma stable_p_end f beg : stable (p_end f beg).
Proof.
  intros bs x rest ext H. unfold p_end in *. destruct (is_samvcf f).
  - destruct (p_le 4 bs) as [[n r]|] eqn:E0; [|discriminate H].
    rewrite (stable_p_le 4 _ _ _ ext E0).
    destruct (n =? 0); [|discriminate H]. injection H as Hx Hr. subst. reflexivity.
  - destruct (p_col bs) as [[i r]|] eqn:E0; [|discriminate H].
    rewrite (stable_p_col _ _ _ ext E0).
    destruct (i =? beg); injection H as Hx Hr; subst; reflexivity.
Qed.

Lemma stable_p_csi_bins_loop : forall n mid acc m, stable (p_csi_bins_loop n mid acc m).
Proof.
  induction n as [|n IH]; intros mid acc m bs x rest ext H; cbn [p_csi_bins_loop] in *.
  - injection H as Hx Hr. subst. reflexivity.
  - destruct (p_le 4 bs) as [[id r0]|] eqn:E0; [|discriminate H].
    rewrite (stable_p_le 4 _ _ _ ext E0).
    destruct (p_le 8 r0) as [[lo r]|] eqn:E1; [|discriminate H].
    rewrite (stable_p_le 8 _ _ _ ext E1).
    destruct (id =? mid).
    + destruct (p_metadata_body r) as [[md r']|] eqn:E2; [|discriminate H].
      rewrite (stable_p_metadata_body _ _ _ ext E2).
      destruct m; [discriminate H|]. exact (IH _ _ _ _ _ _ ext H).
    + destruct (p_chunks r) as [[cs r']|] eqn:E2; [|discriminate H].
      rewrite (stable_p_chunks _ _ _ ext E2).
      destruct (existsb (fun b => fst (fst b) =? id) acc); [discriminate H|].
      exact (IH _ _ _ _ _ _ ext H).
Qed.

Lemma stable_p_csi_ref d : stable (p_csi_ref d).
Proof.
  intros bs x rest ext H. unfold p_csi_ref in *.
  destruct (p_i32_nonneg bs) as [[n r]|] eqn:E0; [|discriminate H].
  rewrite (stable_p_i32_nonneg _ _ _ ext E0).
  destruct (p_csi_bins_loop (N.to_nat n) (metadata_id d) [] None r) as [[bm r']|] eqn:E1; [|discriminate H].
  rewrite (stable_p_csi_bins_loop _ _ _ _ _ _ _ ext E1).
  injection H as Hx Hr. subst. reflexivity.
Qed.

Lemma stable_p_tbi_ref : stable p_tbi_ref.
Proof.
  intros bs x rest ext H. unfold p_tbi_ref in *.
  destruct (p_i32_nonneg bs) as [[n r]|] eqn:E0; [|discriminate H].
  rewrite (stable_p_i32_nonneg _ _ _ ext E0).
  destruct (p_bins_loop (N.to_nat n) [] None r) as [[bm r1]|] eqn:E1; [|discriminate H].
  rewrite (stable_p_bins_loop _ _ _ _ _ _ ext E1).
  destruct (p_i32_nonneg r1) as [[k r2]|] eqn:E2; [|discriminate H].
  rewrite (stable_p_i32_nonneg _ _ _ ext E2).
  destruct (p_repeat (N.to_nat k) (p_le 8) r2) as [[iv r3]|] eqn:E3; [|discriminate H].
  rewrite (stable_p_repeat _ _ (stable_p_le 8) _ _ _ _ ext E3).
  injection H as Hx Hr. subst. reflexivity.
Qed.

(* ---------- the tabix header / CSI aux block (read through io::Take) ---------- *)
(* the six fixed i32 fields in front of the names *)
Definition hfix := (format * N * N * option N * N * N)%type.
Definition p_hfix : parser hfix := fun bs =>
  let? (f, r1) := p_format bs in
  let? (sq, r2) := p_col r1 in
  let? (bg, r3) := p_col r2 in
  let? (en, r4) := p_end f bg r3 in
  let? (mt, r5) := p_le 4 r4 in
  if 256 <=? mt then None else
  let? (sk, r6) := p_i32_nonneg r5 in
  Some ((f, sq, bg, en, mt, sk), r6).

Definition hdr_of (x : hfix) (nm : list (list N)) : header :=
  match x with (f, sq, bg, en, mt, sk) => mkhdr f sq bg en mt sk nm end.

Lemma p_header_split bs :
  p_header bs =
    match p_hfix bs with
    | None => None
    | Some (x, r6) => match p_names r6 with None => None | Some (nm, r7) => Some (hdr_of x nm, r7) end
    end.
Proof.
  unfold p_header, p_hfix.
  destruct (p_format bs) as [[f r1]|]; [|reflexivity].
  destruct (p_col r1) as [[sq r2]|]; [|reflexivity].
  destruct (p_col r2) as [[bg r3]|]; [|reflexivity].
  destruct (p_end f bg r3) as [[en r4]|]; [|reflexivity].
  destruct (p_le 4 r4) as [[mt r5]|]; [|reflexivity].
  destruct (256 <=? mt); [reflexivity|].
  destruct (p_i32_nonneg r5) as [[sk r6]|]; reflexivity.
Qed.

Lemma stable_p_hfix : stable p_hfix.
Proof.
  intros bs x rest ext H. unfold p_hfix in *.
  destruct (p_format bs) as [[f r1]|] eqn:E1; [|discriminate H].
  rewrite (stable_p_format _ _ _ ext E1).
  destruct (p_col r1) as [[sq r2]|] eqn:E2; [|discriminate H].
  rewrite (stable_p_col _ _ _ ext E2).
  destruct (p_col r2) as [[bg r3]|] eqn:E3; [|discriminate H].
  rewrite (stable_p_col _ _ _ ext E3).
  destruct (p_end f bg r3) as [[en r4]|] eqn:E4; [|discriminate H].
  rewrite (stable_p_end f bg _ _ _ ext E4).
  destruct (p_le 4 r4) as [[mt r5]|] eqn:E5; [|discriminate H].
  rewrite (stable_p_le 4 _ _ _ ext E5).
  destruct (256 <=? mt); [discriminate H|].
  destruct (p_i32_nonneg r5) as [[sk r6]|] eqn:E6; [|discriminate H].
  rewrite (stable_p_i32_nonneg _ _ _ ext E6).
  injection H as Hx Hr. subst. reflexivity.
Qed.

Definition w_hfix (h : header) : list N :=
  le32 (format_code (h_format h)) ++ le32 (h_seq h + 1) ++ le32 (h_beg h + 1)
  ++ le32 (if is_samvcf (h_format h) then 0 else end_col h + 1)
  ++ le32 (h_meta h) ++ le32 (h_skip h).

Lemma w_header_split h : w_header h = w_hfix h ++ w_names (h_names h).
Proof. unfold w_header, w_hfix. repeat rewrite <- app_assoc. reflexivity. Qed.

Lemma w_hfix_length h : length (w_hfix h) = 24%nat.
Proof. unfold w_hfix. repeat rewrite app_length. repeat rewrite le32_length. reflexivity. Qed.

Definition hfix_of (h : header) : hfix :=
  (h_format h, h_seq h, h_beg h, h_end (norm_header h), h_meta h, h_skip h).

Lemma p_hfix_w h rest : header_ok h -> p_hfix (w_hfix h ++ rest) = Some (hfix_of h, rest).
Proof.
  intros (Hs & Hm & Hnd). unfold header_status in Hs.
  apply sseq_ok in Hs. destruct Hs as [Hseq Hs].
  apply sseq_ok in Hs. destruct Hs as [Hbeg Hs].
  apply sseq_ok in Hs. destruct Hs as [Hend Hs].
  apply sseq_ok in Hs. destruct Hs as [Hskip Hnames].
  apply col_status_ok in Hseq. apply col_status_ok in Hbeg.
  destruct (i32_max <? h_skip h) eqn:Hsk; [discriminate|]. unfold i32_max in *.
  unfold p_hfix, w_hfix, hfix_of. repeat rewrite <- app_assoc.
  rewrite p_format_app. rewrite p_col_app by (unfold i32_max; lia).
  rewrite p_col_app by (unfold i32_max; lia).
  unfold p_end, end_status in *. destruct h as [f sq bg en mt sk nm].
  cbn [h_format h_seq h_beg h_end h_meta h_skip h_names] in *.
  destruct (is_samvcf f) eqn:Hf.
  - destruct en as [e|]; [discriminate|].
    rewrite p_le32_app by lia. cbn [N.eqb].
    rewrite p_le32_app by lia. replace (256 <=? mt) with false by lia.
    rewrite p_i32_nonneg_app by lia. reflexivity.
  - apply col_status_ok in Hend. unfold end_col in *. cbn [h_end h_beg] in *.
    rewrite p_col_app by (unfold i32_max; exact Hend).
    unfold norm_header. cbn [h_format h_seq h_beg h_end h_meta h_skip h_names].
    destruct en as [e|].
    + destruct (e =? bg) eqn:He.
      * rewrite p_le32_app by lia. replace (256 <=? mt) with false by lia.
        rewrite p_i32_nonneg_app by lia. reflexivity.
      * rewrite p_le32_app by lia. replace (256 <=? mt) with false by lia.
        rewrite p_i32_nonneg_app by lia. reflexivity.
    + rewrite N.eqb_refl.
      rewrite p_le32_app by lia. replace (256 <=? mt) with false by lia.
      rewrite p_i32_nonneg_app by lia. reflexivity.
Qed.

Lemma names_bound h : header_ok h -> names_len (h_names h) < 2147483648.
Proof.
  intros (Hs & _). unfold header_status in Hs.
  apply sseq_ok in Hs. destruct Hs as [_ Hs]. apply sseq_ok in Hs. destruct Hs as [_ Hs].
  apply sseq_ok in Hs. destruct Hs as [_ Hs]. apply sseq_ok in Hs. destruct Hs as [_ Hs].
  unfold names_status in Hs. destruct (i32_max <? names_len (h_names h)) eqn:E; [discriminate|].
  unfold i32_max in E. lia.
Qed.

(* the names block on a strict prefix of its written bytes: an error (the take is short) *)
Lemma p_names_cut names k : names_len names < 2147483648 -> (k < length (w_names names))%nat ->
  p_names (firstn k (w_names names)) = None.
Proof.
  intros Hb Hk. unfold w_names in *. set (C := concat (map w_name names)) in *.
  assert (HC : N.of_nat (length C) = names_len names) by apply names_len_length.
  rewrite app_length, le32_length in Hk.
  destruct (cut_stable p_i32_nonneg (le32 (names_len names)) (names_len names) stable_p_i32_nonneg
              (fun rest => p_i32_nonneg_app _ rest Hb) k C) as [Hlt Hge].
  rewrite le32_length in Hlt, Hge. unfold p_names.
  destruct (Nat.ltb k 4) eqn:E4.
  - rewrite Hlt by lia. reflexivity.
  - rewrite Hge by lia.
    replace (length (firstn (k - 4) C) <? N.to_nat (names_len names))%nat with true
      by (rewrite firstn_length; lia).
    destruct (split_nul _ []) as [nm|]; [|reflexivity].
    destruct (nodupb nm); reflexivity.
Qed.

Lemma p_header_cut hd k : header_ok hd -> (k < length (w_header hd))%nat ->
  p_header (firstn k (w_header hd)) = None.
Proof.
  intros Hok Hk. rewrite w_header_split in *. rewrite app_length, w_hfix_length in Hk.
  rewrite p_header_split.
  destruct (cut_stable p_hfix (w_hfix hd) (hfix_of hd) stable_p_hfix
              (fun rest => p_hfix_w hd rest Hok) k (w_names (h_names hd))) as [Hlt Hge].
  rewrite w_hfix_length in Hlt, Hge.
  destruct (Nat.ltb k 24) eqn:E.
  - rewrite Hlt by lia. reflexivity.
  - rewrite Hge by lia.
    rewrite (p_names_cut (h_names hd) (k - 24) (names_bound hd Hok)) by lia. reflexivity.
Qed.

Definition aux_ok (h : option header) : Prop :=
  match h with Some hd => header_ok hd /\ N.of_nat (length (w_header hd)) < 2147483648 | None => True end.

Lemma p_aux_cut h k : aux_ok h -> (k < length (w_aux h))%nat ->
  p_aux (firstn k (w_aux h)) = None.
Proof.
  intros Hok Hk. destruct h as [hd|]; cbn [w_aux aux_ok] in *.
  - destruct Hok as [Hok Hlen]. set (W := w_header hd) in *.
    rewrite app_length, le32_length in Hk.
    destruct (cut_stable p_i32_nonneg (le32 (N.of_nat (length W))) (N.of_nat (length W)) stable_p_i32_nonneg
                (fun rest => p_i32_nonneg_app _ rest Hlen) k W) as [Hlt Hge].
    rewrite le32_length in Hlt, Hge. unfold p_aux.
    destruct (Nat.ltb k 4) eqn:E4.
    + rewrite Hlt by lia. reflexivity.
    + rewrite Hge by lia.
      pose proof (w_header_length_pos hd) as Hp. fold W in Hp.
      replace (0 <? N.of_nat (length W)) with true by lia.
      rewrite Nat2N.id.
      rewrite (firstn_all2 (firstn (k - 4) W)) by (rewrite firstn_length; lia).
      pose proof (p_header_cut hd (k - 4) Hok ltac:(fold W; lia)) as Hc. fold W in Hc.
      rewrite Hc. reflexivity.
  - rewrite le32_length in Hk.
    destruct k as [|[|[|[|k]]]]; try lia; reflexivity.
Qed.

(* ---------- CSI ---------- *)
Definition p_csi_pre : parser (N * N) := fun bs =>
  let? (ms, r1) := p_le 4 bs in
  if 256 <=? ms then None else
  let? (d, r2) := p_le 4 r1 in
  if 256 <=? d then None else
  if negb (scheme_ok ms d) then None else Some ((ms, d), r2).

Definition p_csi_refs (d : nat) : parser (list csi_ref) := fun bs =>
  let? (n, r4) := p_i32_nonneg bs in p_repeat (N.to_nat n) (p_csi_ref d) r4.

Lemma read_csi_split r0 :
  read_csi (csi_magic ++ r0) =
    match p_csi_pre r0 with
    | None => None
    | Some (md, r2) =>
      match p_aux r2 with
      | None => None
      | Some (h, r3) =>
        match p_csi_refs (N.to_nat (snd md)) r3 with
        | None => None
        | Some (refs, r5) => Some (mkcsi (fst md) (N.to_nat (snd md)) h refs (p_unplaced r5))
        end
      end
    end.
Proof.
  unfold read_csi, csi_magic, p_csi_pre, p_csi_refs. cbn [app].
  destruct (p_le 4 r0) as [[ms r1]|]; [|reflexivity].
  destruct (256 <=? ms); [reflexivity|].
  destruct (p_le 4 r1) as [[d r2]|]; [|reflexivity].
  destruct (256 <=? d); [reflexivity|].
  destruct (negb (scheme_ok ms d)); [reflexivity|]. cbn [fst snd].
  destruct (p_aux r2) as [[h r3]|]; [|reflexivity].
  destruct (p_i32_nonneg r3) as [[n r4]|]; reflexivity.
Qed.

Lemma stable_p_csi_pre : stable p_csi_pre.
Proof.
  intros bs x rest ext H. unfold p_csi_pre in *.
  destruct (p_le 4 bs) as [[ms r1]|] eqn:E1; [|discriminate H].
  rewrite (stable_p_le 4 _ _ _ ext E1).
  destruct (256 <=? ms); [discriminate H|].
  destruct (p_le 4 r1) as [[d r2]|] eqn:E2; [|discriminate H].
  rewrite (stable_p_le 4 _ _ _ ext E2).
  destruct (256 <=? d); [discriminate H|].
  destruct (negb (scheme_ok ms d)); [discriminate H|].
  injection H as Hx Hr. subst. reflexivity.
Qed.

Lemma stable_p_csi_refs d : stable (p_csi_refs d).
Proof.
  intros bs x rest ext H. unfold p_csi_refs in *.
  destruct (p_i32_nonneg bs) as [[n r]|] eqn:E0; [|discriminate H].
  rewrite (stable_p_i32_nonneg _ _ _ ext E0).
  exact (stable_p_repeat _ _ (stable_p_csi_ref d) _ _ _ _ ext H).
Qed.

Definition w_csi_pre (i : csi_index) : list N := le32 (ci_ms i) ++ le32 (N.of_nat (ci_depth i)).
Definition w_csi_refs (i : csi_index) : list N :=
  le32 (N.of_nat (length (ci_refs i))) ++ concat (map (w_csi_ref (ci_depth i)) (ci_refs i)).

Lemma w_csi_bytes_split i :
  w_csi_bytes i = csi_magic ++ w_csi_pre i ++ w_aux (ci_header i) ++ w_csi_refs i ++ w_unplaced (ci_unplaced i).
Proof. unfold w_csi_bytes, w_csi_pre, w_csi_refs. repeat rewrite <- app_assoc. reflexivity. Qed.

Lemma p_csi_pre_w i rest : csi_ok i ->
  p_csi_pre (w_csi_pre i ++ rest) = Some ((ci_ms i, N.of_nat (ci_depth i)), rest).
Proof.
  intros (Hms & Hd & Hg & _). unfold p_csi_pre, w_csi_pre. rewrite <- app_assoc.
  assert (Hms2 : ci_ms i < 64) by lia.
  rewrite p_le32_app by lia. replace (256 <=? ci_ms i) with false by lia.
  rewrite p_le32_app by lia. replace (256 <=? N.of_nat (ci_depth i)) with false by lia.
  unfold scheme_ok.
  replace (negb (ci_ms i =? 0) && (N.of_nat (ci_depth i) <=? 10)
           && (ci_ms i + 3 * N.of_nat (ci_depth i) <? 64)) with true by lia.
  reflexivity.
Qed.

Lemma p_csi_refs_w i rest : csi_ok i ->
  p_csi_refs (ci_depth i) (w_csi_refs i ++ rest) = Some (map reread_ref (ci_refs i), rest).
Proof.
  intros (Hms & Hd & Hg & Hh & Hn & Hr & Hu). unfold p_csi_refs, w_csi_refs. rewrite <- app_assoc.
  rewrite p_i32_nonneg_app by exact Hn. rewrite Nat2N.id.
  apply (p_repeat_concat_map (p_csi_ref (ci_depth i)) (w_csi_ref (ci_depth i)) reread_ref).
  intros x r Hx. apply p_csi_ref_w; [apply metadata_id_u32; exact Hd|].
  rewrite Forall_forall in Hr. auto.
Qed.

Lemma w_unplaced_length u : (length (w_unplaced u) <= 8)%nat.
Proof. destruct u; cbn [w_unplaced]; [rewrite le64_length|cbn [length]]; lia. Qed.

Lemma p_unplaced_short bs : (length bs < 8)%nat -> p_unplaced bs = None.
Proof.
  intros H. unfold p_unplaced, p_le.
  assert (E : (8 <=? length bs)%nat = false) by lia. rewrite E. reflexivity.
Qed.

Definition csi_no_count (i : csi_index) : csi_index :=
  mkcsi (ci_ms i) (ci_depth i) (ci_header i) (ci_refs i) None.

(* THE CSI THEOREM: for every well-formed index and every cut k of its written payload:
   an error below the start of the optional trailing n_no_coor field; the index without that
   count inside the field; the index on the whole payload *)
Theorem csi_truncation : forall i k, csi_ok i ->
  let file := w_csi_bytes i in
  let base := length (w_csi_bytes (csi_no_count i)) in
  ((k < base)%nat -> read_csi (firstn k file) = None) /\
  ((base <= k < length file)%nat -> read_csi (firstn k file) = Some (reread_csi (csi_no_count i))) /\
  ((length file <= k)%nat -> read_csi (firstn k file) = Some (reread_csi i)).
Proof.
  intros i k Hok. cbn zeta.
  rewrite !w_csi_bytes_split.
  change (w_csi_pre (csi_no_count i)) with (w_csi_pre i).
  change (w_csi_refs (csi_no_count i)) with (w_csi_refs i).
  change (ci_header (csi_no_count i)) with (ci_header i).
  change (w_unplaced (ci_unplaced (csi_no_count i))) with (@nil N).
  rewrite app_nil_r.
  set (P := w_csi_pre i). set (X := w_aux (ci_header i)). set (R := w_csi_refs i).
  set (T := w_unplaced (ci_unplaced i)).
  assert (Hm : length csi_magic = 4%nat) by reflexivity.
  pose proof (w_unplaced_length (ci_unplaced i)) as HT. fold T in HT.
  rewrite !app_length, Hm.
  pose proof Hok as (Hms & Hd & Hg & Hh & Hn & Hr & Hu).
  (* the three stable sections *)
  destruct (cut_stable p_csi_pre P _ stable_p_csi_pre (fun rest => p_csi_pre_w i rest Hok)
              (k - 4) (X ++ R ++ T)) as [Ppre_lt Ppre_ge].
  destruct (cut_stable (p_csi_refs (ci_depth i)) R _ (stable_p_csi_refs _)
              (fun rest => p_csi_refs_w i rest Hok) (k - 4 - length P - length X) T) as [Pref_lt Pref_ge].
  (* what the reader does for k >= 4 *)
  assert (Hbody : (4 <= k)%nat ->
    read_csi (firstn k (csi_magic ++ P ++ X ++ R ++ T)) =
      match p_csi_pre (firstn (k - 4) (P ++ X ++ R ++ T)) with
      | None => None
      | Some (md, r2) =>
        match p_aux r2 with
        | None => None
        | Some (h, r3) =>
          match p_csi_refs (N.to_nat (snd md)) r3 with
          | None => None
          | Some (refs, r5) => Some (mkcsi (fst md) (N.to_nat (snd md)) h refs (p_unplaced r5))
          end
        end
      end).
  { intros H4. rewrite firstn_app_ge by (rewrite Hm; exact H4). rewrite Hm. apply read_csi_split. }
  assert (Hshort : (k < 4)%nat -> read_csi (firstn k (csi_magic ++ P ++ X ++ R ++ T)) = None).
  { intros H4. rewrite firstn_app_le by (rewrite Hm; lia).
    destruct k as [|[|[|[|k]]]]; try lia; reflexivity. }
  (* behind the aux block *)
  assert (Haux : (4 + length P + length X <= k)%nat ->
    read_csi (firstn k (csi_magic ++ P ++ X ++ R ++ T)) =
      match p_csi_refs (ci_depth i) (firstn (k - 4 - length P - length X) (R ++ T)) with
      | None => None
      | Some (refs, r5) =>
          Some (mkcsi (ci_ms i) (ci_depth i) (option_map norm_header (ci_header i)) refs (p_unplaced r5))
      end).
  { intros Hk. rewrite Hbody by lia. rewrite Ppre_ge by lia.
    rewrite firstn_app_ge by lia. unfold X at 1. rewrite p_aux_w by exact Hh.
    cbn [fst snd]. rewrite Nat2N.id.
    replace (k - 4 - length P - length X)%nat with (k - 4 - length P - length X)%nat by reflexivity.
    reflexivity. }
  split; [|split].
  - intros Hk. destruct (Nat.ltb k 4) eqn:E4; [apply Hshort; lia|].
    destruct (Nat.ltb k (4 + length P)) eqn:EP.
    + rewrite Hbody by lia. rewrite Ppre_lt by lia. reflexivity.
    + destruct (Nat.ltb k (4 + length P + length X)) eqn:EX.
      * rewrite Hbody by lia. rewrite Ppre_ge by lia.
        rewrite firstn_app_le by lia.
        pose proof (p_aux_cut (ci_header i) (k - 4 - length P) Hh ltac:(fold X; lia)) as Hc. fold X in Hc.
        rewrite Hc. reflexivity.
      * rewrite Haux by lia. rewrite Pref_lt by lia. reflexivity.
  - intros Hk. rewrite Haux by lia. rewrite Pref_ge by lia.
    rewrite p_unplaced_short by (rewrite firstn_length; lia). reflexivity.
  - intros Hk. rewrite Haux by lia. rewrite Pref_ge by lia.
    rewrite firstn_all2 by lia. unfold T. rewrite p_unplaced_w by exact Hu. reflexivity.
Qed.

(* ---------- tabix ---------- *)
Lemma read_tbi_split r0 :
  read_tbi (tbi_magic ++ r0) =
    match p_i32_nonneg r0 with
    | None => None
    | Some (n, r1) =>
      match p_header r1 with
      | None => None
      | Some (h, r2) =>
        match p_repeat (N.to_nat n) p_tbi_ref r2 with
        | None => None
        | Some (refs, r3) => Some (mktbi (Some h) refs (p_unplaced r3))
        end
      end
    end.
Proof. reflexivity. Qed.

Definition w_tbi_refs (i : tbi_index) : list N := concat (map w_bai_ref (ti_refs i)).

Definition tbi_no_count (i : tbi_index) : tbi_index := mktbi (ti_header i) (ti_refs i) None.

Lemma p_tbi_refs_w i rest : tbi_ok i ->
  p_repeat (length (ti_refs i)) p_tbi_ref (w_tbi_refs i ++ rest) = Some (ti_refs i, rest).
Proof.
  intros (Hh & Hn & Hr & Hu). apply (p_repeat_concat p_tbi_ref w_bai_ref).
  intros x r Hx. apply p_tbi_ref_w. rewrite Forall_forall in Hr. auto.
Qed.

(* what the reader does on every cut of a written tabix payload, in terms of the header parser
   on the part of the header that is present *)
Lemma tbi_cut i hd k : tbi_ok i -> ti_header i = Some hd ->
  let W := w_header hd in
  let R := w_tbi_refs i in
  let T := w_unplaced (ti_unplaced i) in
  let file := tbi_magic ++ le32 (N.of_nat (length (ti_refs i))) ++ W ++ R ++ T in
  ((k < 8)%nat -> read_tbi (firstn k file) = None) /\
  ((8 <= k < 8 + length W)%nat ->
     read_tbi (firstn k file) =
       match p_header (firstn (k - 8) W) with
       | None => None
       | Some (h', r2) =>
         match p_repeat (length (ti_refs i)) p_tbi_ref r2 with
         | None => None
         | Some (refs, r3) => Some (mktbi (Some h') refs (p_unplaced r3))
         end
       end) /\
  ((8 + length W <= k < 8 + length W + length R)%nat -> read_tbi (firstn k file) = None) /\
  ((8 + length W + length R <= k)%nat ->
     read_tbi (firstn k file) =
       Some (mktbi (Some (norm_header hd)) (ti_refs i) (p_unplaced (firstn (k - 8 - length W - length R) T)))).
Proof.
  intros Hok Hhd. cbn zeta.
  set (W := w_header hd). set (R := w_tbi_refs i). set (T := w_unplaced (ti_unplaced i)).
  set (n := N.of_nat (length (ti_refs i))).
  pose proof Hok as (Hh & Hn & Hr & Hu). rewrite Hhd in Hh.
  assert (Hm : length tbi_magic = 4%nat) by reflexivity.
  destruct (cut_stable p_i32_nonneg (le32 n) n stable_p_i32_nonneg
              (fun rest => p_i32_nonneg_app _ rest Hn) (k - 4) (W ++ R ++ T)) as [Pn_lt Pn_ge].
  rewrite le32_length in Pn_lt, Pn_ge.
  destruct (cut_stable (p_repeat (length (ti_refs i)) p_tbi_ref) R _
              (stable_p_repeat _ _ stable_p_tbi_ref _)
              (fun rest => p_tbi_refs_w i rest Hok) (k - 8 - length W) T) as [Pr_lt Pr_ge].
  assert (Hbody : (4 <= k)%nat ->
    read_tbi (firstn k (tbi_magic ++ le32 n ++ W ++ R ++ T)) =
      match p_i32_nonneg (firstn (k - 4) (le32 n ++ W ++ R ++ T)) with
      | None => None
      | Some (n, r1) =>
        match p_header r1 with
        | None => None
        | Some (h, r2) =>
          match p_repeat (N.to_nat n) p_tbi_ref r2 with
          | None => None
          | Some (refs, r3) => Some (mktbi (Some h) refs (p_unplaced r3))
          end
        end
      end).
  { intros H4. rewrite firstn_app_ge by (rewrite Hm; exact H4). rewrite Hm. apply read_tbi_split. }
  split; [|split; [|split]].
  - intros Hk. destruct (Nat.ltb k 4) eqn:E4.
    + rewrite firstn_app_le by (rewrite Hm; lia).
      destruct k as [|[|[|[|k]]]]; try lia; reflexivity.
    + rewrite Hbody by lia. rewrite Pn_lt by lia. reflexivity.
  - intros Hk. rewrite Hbody by lia. rewrite Pn_ge by lia.
    rewrite firstn_app_le by lia. unfold n. rewrite Nat2N.id.
    replace (k - 4 - 4)%nat with (k - 8)%nat by lia. reflexivity.
  - intros Hk. rewrite Hbody by lia. rewrite Pn_ge by lia.
    rewrite firstn_app_ge by lia. unfold W at 1. rewrite p_header_w by exact Hh.
    unfold n. rewrite Nat2N.id.
    replace (k - 4 - 4 - length W)%nat with (k - 8 - length W)%nat by lia.
    rewrite Pr_lt by lia. reflexivity.
  - intros Hk. rewrite Hbody by lia. rewrite Pn_ge by lia.
    rewrite firstn_app_ge by lia. unfold W at 1. rewrite p_header_w by exact Hh.
    unfold n. rewrite Nat2N.id.
    replace (k - 4 - 4 - length W)%nat with (k - 8 - length W)%nat by lia.
    rewrite Pr_ge by lia. reflexivity.
Qed.

Lemma w_tbi_bytes_split i hd : ti_header i = Some hd ->
  w_tbi_bytes i = tbi_magic ++ le32 (N.of_nat (length (ti_refs i))) ++ w_header hd ++ w_tbi_refs i
                  ++ w_unplaced (ti_unplaced i).
Proof. intros H. unfold w_tbi_bytes, w_tbi_refs. rewrite H. reflexivity. Qed.

(* THE TABIX THEOREM.  Below the optional trailing count every cut is an error (no premise on
   names / reference sequences since repair d82cb79); inside the count the index without it;
   the index on the whole payload *)
Theorem tbi_truncation : forall i hd k, tbi_ok i -> ti_header i = Some hd ->
  let file := w_tbi_bytes i in
  let base := length (w_tbi_bytes (tbi_no_count i)) in
  ((k < base)%nat -> read_tbi (firstn k file) = None) /\
  ((base <= k < length file)%nat -> read_tbi (firstn k file) = Some (reread_tbi (tbi_no_count i))) /\
  ((length file <= k)%nat -> read_tbi (firstn k file) = Some (reread_tbi i)).
Proof.
  intros i hd k Hok Hhd. cbn zeta.
  rewrite (w_tbi_bytes_split i hd Hhd).
  rewrite (w_tbi_bytes_split (tbi_no_count i) hd Hhd).
  change (ti_refs (tbi_no_count i)) with (ti_refs i).
  change (w_tbi_refs (tbi_no_count i)) with (w_tbi_refs i).
  change (w_unplaced (ti_unplaced (tbi_no_count i))) with (@nil N).
  rewrite app_nil_r.
  destruct (tbi_cut i hd k Hok Hhd) as (C1 & C2 & C3 & C4). cbn zeta in C1, C2, C3, C4.
  set (W := w_header hd) in *. set (R := w_tbi_refs i) in *. set (T := w_unplaced (ti_unplaced i)) in *.
  pose proof (w_unplaced_length (ti_unplaced i)) as HT. fold T in HT.
  assert (Hm : length tbi_magic = 4%nat) by reflexivity.
  rewrite !app_length, Hm, le32_length.
  pose proof Hok as (Hh & Hn & Hr & Hu). rewrite Hhd in Hh.
  unfold reread_tbi.
  change (ti_header (tbi_no_count i)) with (ti_header i).
  change (ti_refs (tbi_no_count i)) with (ti_refs i).
  change (ti_unplaced (tbi_no_count i)) with (@None N).
  rewrite Hhd. cbn [option_map].
  split; [|split].
  - intros Hk. destruct (Nat.ltb k 8) eqn:E8; [apply C1; lia|].
    destruct (Nat.ltb k (8 + length W)) eqn:EW; [|apply C3; lia].
    rewrite C2 by lia.
    pose proof (p_header_cut hd (k - 8) Hh ltac:(fold W; lia)) as Hc. fold W in Hc.
    rewrite Hc. reflexivity.
  - intros Hk. rewrite C4 by lia. rewrite p_unplaced_short by (rewrite firstn_length; lia). reflexivity.
  - intros Hk. rewrite C4 by lia. rewrite firstn_all2 by lia.
    unfold T. rewrite p_unplaced_w by exact Hu. reflexivity.
Qed.

(* the formerly exceptional class (names "a", "b", no reference sequence; finding
   tabix-truncated-names-accepted-no-refs, repaired by d82cb79): the payload is 40 bytes and
   EVERY proper prefix is an error -- also the cuts right behind l_nm (36) and behind the NUL of
   "a" (38), which the reader used to accept as indexes with 0 and 1 names *)
Definition ex_tbi_hdr : header := mkhdr FVcf 0 1 None 35 0 [[97]; [98]].
Definition ex_tbi_norefs : tbi_index := mktbi (Some ex_tbi_hdr) [] None.
Example tbi_no_refs_example :
  length (w_tbi_bytes ex_tbi_norefs) = 40%nat /\
  read_tbi (w_tbi_bytes ex_tbi_norefs) = Some ex_tbi_norefs /\
  read_tbi (firstn 39 (w_tbi_bytes ex_tbi_norefs)) = None /\
  read_tbi (firstn 38 (w_tbi_bytes ex_tbi_norefs)) = None /\
  read_tbi (firstn 37 (w_tbi_bytes ex_tbi_norefs)) = None /\
  read_tbi (firstn 36 (w_tbi_bytes ex_tbi_norefs)) = None.
Proof. vm_compute. repeat split. Qed.

Example csi_trunc_example :
  let i := mkcsi 14 5 None [mkcref [] [] None] (Some 7) in
  length (w_csi_bytes i) = 32%nat /\
  read_csi (firstn 23 (w_csi_bytes i)) = None /\
  read_csi (firstn 24 (w_csi_bytes i)) = Some (mkcsi 14 5 None [mkcref [] [] None] None) /\
  read_csi (firstn 31 (w_csi_bytes i)) = Some (mkcsi 14 5 None [mkcref [] [] None] None) /\
  read_csi (firstn 32 (w_csi_bytes i)) = Some i.
Proof. vm_compute. repeat split. Qed.
