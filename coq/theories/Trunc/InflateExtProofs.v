(* C13 -- C01's executable inflater (NV.Bgzf.Inflate, imported read-only) is STABLE UNDER EXTENSION of
   its input: every step that succeeds on a bit source succeeds with the same result when more bytes
   follow, and leaves exactly those bytes behind ([inflate_raw_ext]).  Consequence
   ([inflate_raw_strict_prefix]): when a DEFLATE stream followed by a tail is inflated up to that
   tail, the inflater REFUSES every strict prefix of the stream -- a cut inside a DEFLATE stream
   (inside any block: stored, fixed or dynamic Huffman; inside the block header, the code
   descriptions, a symbol, the extra bits, the stored bytes) never reads as a complete stream.
   This is the body part of the truncation theorem for gzip members (NV.Trunc.CraiGzProofs). *)
From Coq Require Import List Arith NArith Bool Lia ZifyBool ZifyNat ZifyN.
From NV Require Import Base.LE Bgzf.Frame Bgzf.Inflate Bgzf.InflateFuel.
Import ListNotations.
Open Scope N_scope.

(* the same source with [x] appended to the bytes not yet touched *)
Definition ext (x : list N) (s : bitsrc) : bitsrc := (fst s, snd s ++ x).

Lemma getbit_ext : forall x s b s', getbit s = Some (b, s') -> getbit (ext x s) = Some (b, ext x s').
Proof.
  intros x [bs r] b s' H. unfold getbit, ext in *. cbn [fst snd] in *.
  destruct bs as [|b0 bs].
  - destruct r as [|y r]; [discriminate|]. injection H as H1 H2. subst b s'. reflexivity.
  - injection H as H1 H2. subst b s'. reflexivity.
Qed.

Lemma getbits_ext : forall x n s v s', getbits n s = Some (v, s') -> getbits n (ext x s) = Some (v, ext x s').
Proof.
  intros x. induction n as [|n IH]; intros s v s' H; cbn [getbits] in *.
  - injection H as H1 H2. subst v s'. reflexivity.
  - destruct (getbit s) as [[b s1]|] eqn:E; [|discriminate].
    rewrite (getbit_ext x _ _ _ E).
    destruct (getbits n s1) as [[v1 s2]|] eqn:E2; [|discriminate].
    rewrite (IH _ _ _ E2). injection H as H1 H2. subst v s'. reflexivity.
Qed.

Lemma hdecode_ext : forall x t s v s', hdecode t s = Some (v, s') -> hdecode t (ext x s) = Some (v, ext x s').
Proof.
  intros x. induction t as [|sym|l IHl r IHr]; intros s v s' H; cbn [hdecode] in *.
  - discriminate.
  - injection H as H1 H2. subst v s'. reflexivity.
  - destruct (getbit s) as [[b s1]|] eqn:E; [|discriminate].
    rewrite (getbit_ext x _ _ _ E). destruct b; [apply IHr|apply IHl]; exact H.
Qed.

Lemma codes_ext : forall x f limit lt dt s o s' o',
  codes f limit lt dt s o = Some (s', o') -> codes f limit lt dt (ext x s) o = Some (ext x s', o').
Proof.
  intros x. induction f as [|f IH]; intros limit lt dt s o s' o' H; cbn [codes] in *; [discriminate|].
  destruct (hdecode lt s) as [[sym s1]|] eqn:E; [|discriminate].
  rewrite (hdecode_ext x _ _ _ _ E).
  destruct (sym <? 256).
  { destruct (limit <=? ob_len o); [discriminate|]. apply IH. exact H. }
  destruct (sym =? 256).
  { injection H as H1 H2. subst s' o'. reflexivity. }
  cbv zeta in *.
  destruct (29 <=? N.to_nat (sym - 257))%nat; [discriminate|].
  destruct (getbits _ s1) as [[e s2]|] eqn:E2; [|discriminate].
  rewrite (getbits_ext x _ _ _ _ E2).
  destruct (hdecode dt s2) as [[ds s3]|] eqn:E3; [|discriminate].
  rewrite (hdecode_ext x _ _ _ _ E3).
  destruct (30 <=? N.to_nat ds)%nat; [discriminate|].
  destruct (getbits _ s3) as [[e2 s4]|] eqn:E4; [|discriminate].
  rewrite (getbits_ext x _ _ _ _ E4).
  destruct (ob_len o <? _); [discriminate|].
  destruct (limit <? _); [discriminate|].
  apply IH. exact H.
Qed.

Lemma read_cl_ext : forall x n s vals s',
  read_cl n s = Some (vals, s') -> read_cl n (ext x s) = Some (vals, ext x s').
Proof.
  intros x. induction n as [|n IH]; intros s vals s' H; cbn [read_cl] in *.
  - injection H as H1 H2. subst vals s'. reflexivity.
  - destruct (getbits 3 s) as [[v s1]|] eqn:E; [|discriminate].
    rewrite (getbits_ext x _ _ _ _ E).
    destruct (read_cl n s1) as [[vs s2]|] eqn:E2; [|discriminate].
    rewrite (IH _ _ _ E2). injection H as H1 H2. subst vals s'. reflexivity.
Qed.

Lemma read_lens_ext : forall x f cl need acc s lens s',
  read_lens f cl need acc s = Some (lens, s') -> read_lens f cl need acc (ext x s) = Some (lens, ext x s').
Proof.
  intros x. induction f as [|f IH]; intros cl need acc s lens s' H.
  - destruct need; cbn [read_lens] in *; [|discriminate].
    injection H as H1 H2. subst lens s'. reflexivity.
  - destruct need as [|need]; cbn [read_lens] in *.
    { injection H as H1 H2. subst lens s'. reflexivity. }
    destruct (hdecode cl s) as [[sym s1]|] eqn:E; [|discriminate].
    rewrite (hdecode_ext x _ _ _ _ E).
    destruct (sym <? 16); [apply IH; exact H|].
    destruct (if sym =? 16 then _ else _) as [[val nb] base].
    destruct val as [v|]; [|discriminate].
    destruct (getbits nb s1) as [[e s2]|] eqn:E2; [|discriminate].
    rewrite (getbits_ext x _ _ _ _ E2).
    cbv zeta in *.
    destruct (S need <? base + N.to_nat e)%nat; [discriminate|]. apply IH. exact H.
Qed.

Lemma dynamic_ext : forall x f limit s o s' o',
  dynamic f limit s o = Some (s', o') -> dynamic f limit (ext x s) o = Some (ext x s', o').
Proof.
  intros x f limit s o s' o' H. unfold dynamic in *.
  destruct (getbits 5 s) as [[a s1]|] eqn:E1; [|discriminate]. rewrite (getbits_ext x _ _ _ _ E1).
  destruct (getbits 5 s1) as [[b s2]|] eqn:E2; [|discriminate]. rewrite (getbits_ext x _ _ _ _ E2).
  destruct (getbits 4 s2) as [[c s3]|] eqn:E3; [|discriminate]. rewrite (getbits_ext x _ _ _ _ E3).
  cbv zeta in *.
  destruct (_ || _); [discriminate|].
  destruct (read_cl _ s3) as [[vals s4]|] eqn:E4; [|discriminate]. rewrite (read_cl_ext x _ _ _ _ E4).
  destruct (negb _); [discriminate|].
  destruct (read_lens _ _ _ _ s4) as [[lens s5]|] eqn:E5; [|discriminate].
  rewrite (read_lens_ext x _ _ _ _ _ _ _ E5).
  destruct (Nat.eqb _ _); [discriminate|].
  destruct (_ || _); [discriminate|].
  apply codes_ext. exact H.
Qed.

Lemma stored_ext : forall x limit s o s' o',
  stored limit s o = Some (s', o') -> stored limit (ext x s) o = Some (ext x s', o').
Proof.
  intros x limit [bs rest] o s' o' H. unfold stored, ext in *. cbn [fst snd] in *.
  destruct rest as [|l0 [|l1 [|n0 [|n1 data]]]]; try discriminate.
  cbn [app]. cbv zeta in *.
  destruct (negb _); [discriminate|].
  destruct (limit <? _); [discriminate|].
  destruct (lenN (firstn _ data) <? _) eqn:El; [discriminate|].
  set (len := le_dec [l0; l1]) in *.
  assert (Hlen : (N.to_nat len <= length data)%nat).
  { unfold lenN in El. rewrite firstn_length in El. lia. }
  rewrite firstn_app, skipn_app.
  replace (N.to_nat len - length data)%nat with O by lia.
  rewrite firstn_O, app_nil_r, skipn_O. rewrite El.
  injection H as H1 H2. subst s' o'. reflexivity.
Qed.

Lemma blocks_ext : forall x f cf limit s o s' o',
  blocks f cf limit s o = Some (s', o') -> blocks f cf limit (ext x s) o = Some (ext x s', o').
Proof.
  intros x. induction f as [|f IH]; intros cf limit s o s' o' H; cbn [blocks] in *; [discriminate|].
  destruct (getbit s) as [[fin s1]|] eqn:E1; [|discriminate]. rewrite (getbit_ext x _ _ _ E1).
  destruct (getbits 2 s1) as [[ty s2]|] eqn:E2; [|discriminate]. rewrite (getbits_ext x _ _ _ _ E2).
  cbv zeta in *.
  destruct (ty =? 0).
  { destruct (stored limit s2 o) as [[s3 o3]|] eqn:E3; [|discriminate].
    rewrite (stored_ext x _ _ _ _ _ E3).
    destruct fin; [injection H as H1 H2; subst s' o'; reflexivity|apply IH; exact H]. }
  destruct (ty =? 1).
  { destruct (codes cf limit fixed_lt fixed_dt s2 o) as [[s3 o3]|] eqn:E3; [|discriminate].
    rewrite (codes_ext x _ _ _ _ _ _ _ _ E3).
    destruct fin; [injection H as H1 H2; subst s' o'; reflexivity|apply IH; exact H]. }
  destruct (ty =? 2); [|discriminate].
  destruct (dynamic cf limit s2 o) as [[s3 o3]|] eqn:E3; [|discriminate].
  rewrite (dynamic_ext x _ _ _ _ _ _ E3).
  destruct fin; [injection H as H1 H2; subst s' o'; reflexivity|apply IH; exact H].
Qed.

(* what the inflater accepts it accepts with the same output whatever follows, and it leaves
   what follows behind *)
Theorem inflate_raw_ext : forall limit p x out rest,
  inflate_raw limit p = Some (out, rest) -> inflate_raw limit (p ++ x) = Some (out, rest ++ x).
Proof.
  intros limit p x out rest H. unfold inflate_raw in H.
  set (f := S (8 * length (p ++ x))).
  assert (Hf : (8 * length p < f)%nat) by (unfold f; rewrite app_length; lia).
  rewrite (blocks_fuel (S (8 * length p)) f (S (8 * length p)) f limit ([], p) ob_empty) in H
    by (unfold bits_left; cbn [fst snd length]; lia).
  destruct (blocks f f limit ([], p) ob_empty) as [[s o]|] eqn:E; [|discriminate].
  injection H as H1 H2. subst out rest.
  apply (blocks_ext x) in E. unfold ext in E. cbn [fst snd] in E.
  unfold inflate_raw. fold f. rewrite E. reflexivity.
Qed.

(* the bytes left behind are a suffix of the input *)
Lemma inflate_raw_rest_length : forall limit p out rest,
  inflate_raw limit p = Some (out, rest) -> (length rest <= length p)%nat.
Proof.
  intros limit p out rest H. unfold inflate_raw in H.
  destruct (blocks _ _ limit ([], p) ob_empty) as [[s o]|] eqn:E; [|discriminate].
  injection H as H1 H2. subst out rest.
  assert (Hb : forall f cf s0 o0 s1 o1, blocks f cf limit s0 o0 = Some (s1, o1) ->
                 (bits_left s1 <= bits_left s0)%nat).
  { induction f as [|f IH]; intros cf s0 o0 s1 o1 Hb; cbn [blocks] in Hb; [discriminate|].
    destruct (getbit s0) as [[fin t1]|] eqn:E1; [|discriminate]. apply getbit_bits in E1.
    destruct (getbits 2 t1) as [[ty t2]|] eqn:E2; [|discriminate]. apply getbits_bits in E2.
    cbv zeta in Hb.
    destruct (if ty =? 0 then _ else _) as [[t3 o3]|] eqn:E3; [|discriminate].
    assert (H3 : (bits_left t3 <= bits_left t2)%nat).
    { destruct (ty =? 0); [exact (stored_bits _ _ _ _ _ E3)|].
      destruct (ty =? 1); [exact (codes_bits _ _ _ _ _ _ _ _ E3)|].
      destruct (ty =? 2); [exact (dynamic_bits _ _ _ _ _ _ E3)|discriminate]. }
    destruct fin; [injection Hb as Hb1 Hb2; subst s1; lia|]. apply IH in Hb. lia. }
  apply Hb in E. unfold bits_left in E. cbn [fst snd length] in E.
  destruct s as [bs r]. cbn [fst snd] in *.
  assert (Hlt : (8 * length r <= 8 * length p)%nat) by lia. lia.
Qed.

(* a DEFLATE stream [d] that the inflater reads up to the tail [tail]: no strict prefix of [d]
   (followed by nothing) is accepted *)
Theorem inflate_raw_strict_prefix : forall limit d tail out j,
  inflate_raw limit (d ++ tail) = Some (out, tail) -> (j < length d)%nat ->
  inflate_raw limit (firstn j d) = None.
Proof.
  intros limit d tail out j H Hj.
  destruct (inflate_raw limit (firstn j d)) as [[o r]|] eqn:E; [|reflexivity].
  apply (inflate_raw_ext limit _ (skipn j d ++ tail)) in E.
  rewrite app_assoc, firstn_skipn in E. rewrite H in E.
  injection E as E1 E2.
  assert (Hl : length tail = length (r ++ skipn j d ++ tail)) by (rewrite <- E2; reflexivity).
  rewrite !app_length, skipn_length in Hl. lia.
Qed.
