(* C13 -- every cut of a .crai file is an error (UnexpectedEof): proofs about NV.Trunc.CraiGz.

   1. [gz_header] (C19's model of flate2's GzHeaderParser) is stable under extension: a header it
      accepts it accepts with the same rest whatever follows; an error other than GzEof persists.
   2. [gunzip_cut]: ANY byte string that gunzip reads as exactly one member with nothing behind the
      8 trailer bytes (whatever the header fields - FEXTRA, FNAME, FCOMMENT, FHCRC - and whatever
      the DEFLATE blocks) is refused at EVERY strict prefix, with GzEof (source ends in the header
      or the trailer) or GzBody (source ends in the DEFLATE stream) - both UnexpectedEof.
      Uses NV.Trunc.InflateExtProofs.inflate_raw_ext (C01's inflater is stable under extension).
   3. [crai_file_cut_written]: the member the writer model emits (10-byte header, the stream of any
      compressor the inflater inverts, CRC32 + ISIZE), cut at k: GzEof below 10, GzBody inside the
      stream, GzEof inside the trailer, the written index on the whole file.
   4. [crai_regzipped_cut]: the text cut at k and gzipped again (the `crai` kind of the
      correspondence check) reads as text_index_cut says (the C13 text theorem lifted through the
      gzip layer). *)
From Coq Require Import List Arith NArith Bool Lia ZifyBool ZifyNat ZifyN.
From NV Require Import Base.LE Bgzf.Crc32 Bgzf.Frame Bgzf.Inflate.
From NV Require Import CramIdx.Gz CramIdx.GzProofs Index.TextIndex Index.TextIndexProofs.
From NV Require Import Trunc.TextIdxProofs Trunc.InflateExtProofs Trunc.CraiGz.
Import ListNotations.
Open Scope N_scope.

(* ---- the header parser under extension ---------------------------------------------------------- *)

Lemma need_ext : forall n bs x a r, need n bs = Some (a, r) -> need n (bs ++ x) = Some (a, r ++ x).
Proof.
  intros n bs x a r H. unfold need in *.
  destruct (n <=? length bs)%nat eqn:E; [|discriminate].
  injection H as H1 H2. subst a r.
  rewrite app_length. assert (E2 : (n <=? length bs + length x)%nat = true) by lia. rewrite E2.
  rewrite firstn_app, skipn_app. replace (n - length bs)%nat with O by lia.
  rewrite firstn_O, app_nil_r, skipn_O. reflexivity.
Qed.

Lemma need_none_short : forall n bs, need n bs = None -> (length bs < n)%nat.
Proof. intros n bs H. unfold need in H. destruct (n <=? length bs)%nat eqn:E; [discriminate|lia]. Qed.

Lemma need_short : forall n bs, (length bs < n)%nat -> need n bs = None.
Proof. intros n bs H. unfold need. assert (E : (n <=? length bs)%nat = false) by lia. rewrite E. reflexivity. Qed.

Lemma to_nul_ext : forall x bs c f r, to_nul bs c = GOk (f, r) -> to_nul (bs ++ x) c = GOk (f, r ++ x).
Proof.
  intros x. induction bs as [|b t IH]; intros c f r H; cbn [to_nul app] in *; [discriminate|].
  destruct (b =? 0). { injection H as H1 H2. subst f r. reflexivity. }
  destruct (c =? 65535); [discriminate|].
  destruct (to_nul t (N.succ c)) as [[f1 r1]|e] eqn:E; [|discriminate].
  rewrite (IH _ _ _ E). injection H as H1 H2. subst f r. reflexivity.
Qed.

Lemma to_nul_err_ext : forall x bs c e, to_nul bs c = GErr e -> e <> GzEof -> to_nul (bs ++ x) c = GErr e.
Proof.
  intros x. induction bs as [|b t IH]; intros c e H Hne; cbn [to_nul app] in *.
  - injection H as H. subst e. contradiction.
  - destruct (b =? 0); [discriminate|].
    destruct (c =? 65535); [exact H|].
    destruct (to_nul t (N.succ c)) as [[f1 r1]|e1] eqn:E; [discriminate|].
    injection H as H. subst e1. rewrite (IH _ _ E Hne). reflexivity.
Qed.

Lemma gz_extra_ext : forall x on bs s r, gz_extra on bs = GOk (s, r) -> gz_extra on (bs ++ x) = GOk (s, r ++ x).
Proof.
  intros x on bs s r H. unfold gz_extra in *. destruct on.
  - destruct (need 2 bs) as [[x2 r1]|] eqn:E1; [|discriminate]. rewrite (need_ext _ _ x _ _ E1).
    destruct (need _ r1) as [[ex r2]|] eqn:E2; [|discriminate]. rewrite (need_ext _ _ x _ _ E2).
    injection H as H1 H2. subst s r. reflexivity.
  - injection H as H1 H2. subst s r. reflexivity.
Qed.

Lemma gz_extra_err : forall on bs e, gz_extra on bs = GErr e -> e = GzEof.
Proof.
  intros on bs e H. unfold gz_extra in H. destruct on; [|discriminate].
  destruct (need 2 bs) as [[x2 r1]|]; [|injection H as H; subst e; reflexivity].
  destruct (need _ r1) as [[ex r2]|]; [discriminate|injection H as H; subst e; reflexivity].
Qed.

Lemma gz_zstring_ext : forall x on bs s r,
  gz_zstring on bs = GOk (s, r) -> gz_zstring on (bs ++ x) = GOk (s, r ++ x).
Proof.
  intros x on bs s r H. unfold gz_zstring in *. destruct on.
  - destruct (to_nul bs 0) as [[f r1]|e] eqn:E; [|discriminate]. rewrite (to_nul_ext x _ _ _ _ E).
    injection H as H1 H2. subst s r. reflexivity.
  - injection H as H1 H2. subst s r. reflexivity.
Qed.

Lemma gz_zstring_err_ext : forall x on bs e,
  gz_zstring on bs = GErr e -> e <> GzEof -> gz_zstring on (bs ++ x) = GErr e.
Proof.
  intros x on bs e H Hne. unfold gz_zstring in *. destruct on; [|discriminate].
  destruct (to_nul bs 0) as [[f r1]|e1] eqn:E; [discriminate|].
  injection H as H. subst e1. rewrite (to_nul_err_ext x _ _ _ E Hne). reflexivity.
Qed.

Lemma firstn10_ext : forall (h r0 bs x : list N), need 10 bs = Some (h, r0) -> need 10 (bs ++ x) = Some (h, r0 ++ x).
Proof. intros h r0 bs x H. apply need_ext. exact H. Qed.

(* an accepted header is accepted with the same rest whatever follows *)
Theorem gz_header_ext : forall bs x r, gz_header bs = GOk r -> gz_header (bs ++ x) = GOk (r ++ x).
Proof.
  intros bs x r H. unfold gz_header in *.
  destruct (need 10 bs) as [[h r0]|] eqn:E0; [|discriminate]. rewrite (need_ext _ _ x _ _ E0).
  destruct (negb (_ && _)); [discriminate|].
  destruct (negb (nth 2 h 0 =? 8)); [discriminate|].
  cbv zeta in *.
  destruct (negb (N.land _ 224 =? 0)); [discriminate|].
  destruct (gz_extra _ r0) as [[s1 r1]|e1] eqn:E1; [|discriminate]. rewrite (gz_extra_ext x _ _ _ _ E1).
  destruct (gz_zstring _ r1) as [[s2 r2]|e2] eqn:E2; [|discriminate]. rewrite (gz_zstring_ext x _ _ _ _ E2).
  destruct (gz_zstring _ r2) as [[s3 r3]|e3] eqn:E3; [|discriminate]. rewrite (gz_zstring_ext x _ _ _ _ E3).
  destruct (N.testbit _ 1).
  - destruct (need 2 r3) as [[c2 r4]|] eqn:E4; [|discriminate]. rewrite (need_ext _ _ x _ _ E4).
    destruct (le_dec c2 =? _); [|discriminate]. injection H as H. subst r. reflexivity.
  - injection H as H. subst r. reflexivity.
Qed.

(* a refusal that is not "the source ended" persists whatever follows *)
Theorem gz_header_err_ext : forall bs x e, gz_header bs = GErr e -> e <> GzEof -> gz_header (bs ++ x) = GErr e.
Proof.
  intros bs x e H Hne. unfold gz_header in *.
  destruct (need 10 bs) as [[h r0]|] eqn:E0; [|injection H as H; subst e; contradiction].
  rewrite (need_ext _ _ x _ _ E0).
  destruct (negb (_ && _)); [exact H|].
  destruct (negb (nth 2 h 0 =? 8)); [exact H|].
  cbv zeta in *.
  destruct (negb (N.land _ 224 =? 0)); [exact H|].
  destruct (gz_extra _ r0) as [[s1 r1]|e1] eqn:E1.
  2:{ injection H as H. subst e1. apply gz_extra_err in E1. contradiction. }
  rewrite (gz_extra_ext x _ _ _ _ E1).
  destruct (gz_zstring _ r1) as [[s2 r2]|e2] eqn:E2.
  2:{ injection H as H. subst e2. rewrite (gz_zstring_err_ext x _ _ _ E2 Hne). reflexivity. }
  rewrite (gz_zstring_ext x _ _ _ _ E2).
  destruct (gz_zstring _ r2) as [[s3 r3]|e3] eqn:E3.
  2:{ injection H as H. subst e3. rewrite (gz_zstring_err_ext x _ _ _ E3 Hne). reflexivity. }
  rewrite (gz_zstring_ext x _ _ _ _ E3).
  destruct (N.testbit _ 1); [|discriminate].
  destruct (need 2 r3) as [[c2 r4]|] eqn:E4; [|injection H as H; subst e; contradiction].
  rewrite (need_ext _ _ x _ _ E4).
  destruct (le_dec c2 =? _); [discriminate|exact H].
Qed.

(* ---- any gzip member, cut anywhere --------------------------------------------------------------- *)

(* [bs] is exactly one member: header, a DEFLATE stream the inflater reads up to 8 remaining bytes *)
Definition gz_exact_member (bs : list N) : Prop :=
  exists body out t, gz_header bs = GOk body /\ inflate_raw gz_limit body = Some (out, t) /\ length t = 8%nat.

Theorem gunzip_cut : forall bs k, gz_exact_member bs -> (k < length bs)%nat ->
  gunzip (firstn k bs) = GErr GzEof \/ gunzip (firstn k bs) = GErr GzBody.
Proof.
  intros bs k (body & out & t & Hh & Hi & Ht) Hk.
  set (p := firstn k bs). set (x := skipn k bs).
  assert (Hbs : bs = p ++ x) by (unfold p, x; rewrite firstn_skipn; reflexivity).
  assert (Hx : (0 < length x)%nat) by (unfold x; rewrite skipn_length; lia).
  unfold gunzip.
  destruct (gz_header p) as [body'|e] eqn:Ep.
  - pose proof (gz_header_ext p x body' Ep) as Hw. rewrite <- Hbs, Hh in Hw.
    injection Hw as Hw. subst body.
    destruct (inflate_raw gz_limit body') as [[o r']|] eqn:Ei; [|right; reflexivity].
    pose proof (inflate_raw_ext gz_limit body' x o r' Ei) as Hw. rewrite Hi in Hw.
    injection Hw as Hw1 Hw2. subst out t.
    rewrite app_length in Ht. rewrite need_short by lia. left. reflexivity.
  - destruct e; try (left; reflexivity);
      (pose proof (gz_header_err_ext p x _ Ep ltac:(discriminate)) as Hw;
       rewrite <- Hbs, Hh in Hw; discriminate).
Qed.

(* the same for the crai reader: every strict prefix is UnexpectedEof *)
Theorem crai_file_cut_any : forall bs k, gz_exact_member bs -> (k < length bs)%nat ->
  crai_file_obs (firstn k bs) = inl KUnexpectedEof.
Proof.
  intros bs k Hm Hk. unfold crai_file_obs, crai_file_read.
  destruct (gunzip_cut bs k Hm Hk) as [H|H]; rewrite H; reflexivity.
Qed.

(* the executable test of the premise (run on every file of the correspondence check) *)
Lemma gz_exact_b_spec : forall bs, gz_exact_b bs = true -> gz_exact_member bs.
Proof.
  intros bs H. unfold gz_exact_b in H.
  destruct (gz_header bs) as [body|e] eqn:Eh; [|discriminate].
  destruct (inflate_raw gz_limit body) as [[o t]|] eqn:Ei; [|discriminate].
  exists body, o, t. split; [exact Eh|]. split; [exact Ei|]. apply Nat.eqb_eq. exact H.
Qed.

(* ---- the member the writer emits ---------------------------------------------------------------- *)

Lemma gz_trailer_length : forall text, length (gz_trailer text) = 8%nat.
Proof. intros text. unfold gz_trailer. rewrite app_length, !le32_length. reflexivity. Qed.

Lemma gz_frame_length : forall xfl d text, length (gz_frame xfl d text) = (10 + length d + 8)%nat.
Proof.
  intros xfl d text. unfold gz_frame. rewrite !app_length, gz_trailer_length. reflexivity.
Qed.

Lemma inflate_raw_tail : forall d text tail,
  inflate_raw gz_limit d = Some (text, []) -> inflate_raw gz_limit (d ++ tail) = Some (text, tail).
Proof. intros d text tail H. exact (inflate_raw_ext gz_limit d tail text [] H). Qed.

Lemma gz_frame_exact : forall xfl d text,
  inflate_raw gz_limit d = Some (text, []) -> gz_exact_member (gz_frame xfl d text).
Proof.
  intros xfl d text H. exists (d ++ gz_trailer text), text, (gz_trailer text).
  split; [unfold gz_frame; apply gz_header_written|].
  split; [apply inflate_raw_tail; exact H|apply gz_trailer_length].
Qed.

(* the result of every cut of header ++ stream ++ trailer, by region; [d] is any DEFLATE stream the
   inflater reads to its last byte *)
Theorem gunzip_cut_written : forall xfl d text k,
  inflate_raw gz_limit d = Some (text, []) ->
  gunzip (firstn k (gz_frame xfl d text)) =
    if (k <? 10)%nat then GErr GzEof
    else if (k <? 10 + length d)%nat then GErr GzBody
    else if (k <? 10 + length d + 8)%nat then GErr GzEof
    else GOk text.
Proof.
  intros xfl d text k H.
  destruct (k <? 10)%nat eqn:E1.
  { unfold gunzip, gz_header. rewrite need_short; [reflexivity|]. rewrite firstn_length. lia. }
  assert (Hf : forall rest, firstn k (gz_header_bytes xfl ++ rest) = gz_header_bytes xfl ++ firstn (k - 10) rest).
  { intros rest. rewrite firstn_app. change (length (gz_header_bytes xfl)) with 10%nat.
    rewrite firstn_all2 by (cbn [gz_header_bytes length]; lia). reflexivity. }
  unfold gz_frame. rewrite Hf. unfold gunzip. rewrite gz_header_written.
  destruct (k <? 10 + length d)%nat eqn:E2.
  { rewrite firstn_app. replace (k - 10 - length d)%nat with O by lia.
    rewrite firstn_O, app_nil_r.
    assert (Hn : inflate_raw gz_limit (firstn (k - 10) d) = None).
    { apply (inflate_raw_strict_prefix gz_limit d [] text); [rewrite app_nil_r; exact H|lia]. }
    rewrite Hn. reflexivity. }
  rewrite firstn_app, (firstn_all2 d) by lia.
  pose proof (gz_trailer_length text) as Ht.
  rewrite (inflate_raw_tail d text _ H).
  destruct (k <? 10 + length d + 8)%nat eqn:E3.
  { rewrite need_short; [reflexivity|]. rewrite firstn_length. lia. }
  rewrite firstn_all2 by lia.
  pose proof (trailer_accepts text []) as Hta. rewrite app_nil_r in Hta. exact Hta.
Qed.

(* ---- the crai file ------------------------------------------------------------------------------- *)

Section Comp.
Variable comp : list N -> list N.
Hypothesis Hcomp : inflatable comp.

Lemma comp_stream : forall text, lenN text <= gz_limit -> inflate_raw gz_limit (comp text) = Some (text, []).
Proof. intros text Hl. pose proof (Hcomp text [] Hl) as H. rewrite app_nil_r in H. exact H. Qed.

(* every cut of the file the writer emits *)
Theorem crai_file_cut_written : forall l k,
  Forall crai_ok l -> lenN (w_crai l) <= gz_limit ->
  crai_file_read (firstn k (crai_file_write comp l)) =
    if (k <? 10)%nat then GErr GzEof
    else if (k <? 10 + length (comp (w_crai l)))%nat then GErr GzBody
    else if (k <? length (crai_file_write comp l))%nat then GErr GzEof
    else GOk l.
Proof.
  intros l k Hok Hl. unfold crai_file_read, crai_file_write.
  rewrite (gunzip_cut_written 0 _ _ k (comp_stream _ Hl)), gz_frame_length.
  destruct (k <? 10)%nat; [reflexivity|].
  destruct (k <? 10 + length (comp (w_crai l)))%nat; [reflexivity|].
  destruct (k <? 10 + length (comp (w_crai l)) + 8)%nat; [reflexivity|].
  rewrite (crai_roundtrip l Hok). reflexivity.
Qed.

(* ... as the property states it: an error (UnexpectedEof) at every cut short of the whole file,
   the written index on the whole file; never another index *)
Theorem crai_file_truncation : forall l k,
  Forall crai_ok l -> lenN (w_crai l) <= gz_limit ->
  crai_file_obs (firstn k (crai_file_write comp l)) =
    if (k <? length (crai_file_write comp l))%nat then inl KUnexpectedEof else inr l.
Proof.
  intros l k Hok Hl. unfold crai_file_obs. rewrite (crai_file_cut_written l k Hok Hl).
  assert (Hlen : length (crai_file_write comp l) = (10 + length (comp (w_crai l)) + 8)%nat)
    by (unfold crai_file_write; apply gz_frame_length).
  rewrite Hlen.
  destruct (k <? 10)%nat eqn:E1; destruct (k <? 10 + length (comp (w_crai l)))%nat eqn:E2;
    destruct (k <? 10 + length (comp (w_crai l)) + 8)%nat eqn:E3; try reflexivity; lia.
Qed.

(* the TEXT cut at k and gzipped again (an intact member around a cut text: the `crai` kind) reads
   as the text theorem says *)
Theorem crai_regzipped_cut : forall l k,
  Forall crai_ok l -> lenN (w_crai l) <= gz_limit ->
  crai_file_read (gzip_text comp (firstn k (w_crai l))) =
    match text_index_cut crai_partial crai_line l k with
    | Some res => GOk res
    | None => GErr GzText
    end.
Proof.
  intros l k Hok Hl. unfold crai_file_read, gzip_text.
  assert (Hlk : lenN (firstn k (w_crai l)) <= gz_limit).
  { unfold lenN in *. rewrite firstn_length. lia. }
  pose proof (gunzip_frame 0 (comp (firstn k (w_crai l))) (firstn k (w_crai l)) []) as Hg.
  rewrite !app_nil_r in Hg. rewrite Hg by (apply Hcomp; exact Hlk).
  rewrite (crai_truncation l k Hok). reflexivity.
Qed.
End Comp.

(* the stored-block compressor: no premise *)
Theorem crai_file_truncation_stored : forall l k,
  Forall crai_ok l -> lenN (w_crai l) <= gz_limit ->
  crai_file_obs (firstn k (crai_file_write deflate_stored l)) =
    if (k <? length (crai_file_write deflate_stored l))%nat then inl KUnexpectedEof else inr l.
Proof. intros l k. apply crai_file_truncation. exact deflate_stored_inflatable. Qed.
