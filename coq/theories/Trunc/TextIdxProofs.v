(* C13 — truncation of the text indexes fai and crai (models read_fai / read_crai / w_fai / w_crai
   of NV.Index.TextIndex, C17, imported read-only; for crai this is the text inside the gzip
   member).  Lines are LF-terminated but the readers accept a last line without LF, so a prefix
   of a written index is NOT always an error.  Exact characterisation, for every cut k
   ([text_index_cut]): the complete lines before the cut are returned unchanged; a cut at a line
   boundary returns exactly them; a cut inside a line is an error unless at least one digit of
   the LAST field is present -- then the line is accepted with that field replaced by the value
   of the digits present (the finding class text-truncated-final-line-accepted-fai; the same
   holds for crai inside its gzip member). *)
From Coq Require Import List Arith NArith ZArith Bool Lia ZifyBool ZifyNat ZifyN.
From NV Require Import Base.Decimal Base.DecimalProofs Index.TextIndex Index.TextIndexProofs.
Import ListNotations.
Open Scope N_scope.
Ltac Zify.zify_post_hook ::= Z.div_mod_to_equations.

(* ---------- decimal digit strings ---------- *)
Definition dval (ds : list N) : N := fold_left dstep ds 0.

Lemma fold_dstep_ge ds : forall a, a <= fold_left dstep ds a.
Proof.
  induction ds as [|d ds IH]; intros a; cbn [fold_left]; [lia|].
  eapply N.le_trans; [|apply IH]. unfold dstep. lia.
Qed.

Lemma dval_prefix_le ds m : dval (firstn m ds) <= dval ds.
Proof.
  rewrite <- (firstn_skipn m ds) at 2. unfold dval. rewrite fold_left_app. apply fold_dstep_ge.
Qed.

Lemma all_digits_firstn ds m : all_digits ds -> all_digits (firstn m ds).
Proof.
  intros H. unfold all_digits in *. rewrite <- (firstn_skipn m ds) in H.
  apply Forall_app in H. tauto.
Qed.

Lemma parse_N_digits ds : all_digits ds -> ds <> [] -> parse_N ds = Some (dval ds).
Proof.
  intros Hd Hne. pose proof (take_digits_app ds Hd [] 0 O I) as T. rewrite app_nil_r in T.
  unfold parse_N. rewrite T. destruct ds; [contradiction|reflexivity].
Qed.

Lemma parse_dec_digits ds : all_digits ds -> ds <> [] -> parse_dec false ds = Some (Z.of_N (dval ds)).
Proof.
  intros Hd Hne. destruct ds as [|c t] eqn:E; [contradiction|].
  pose proof (Forall_inv Hd) as Hc. apply is_digit_iff in Hc.
  rewrite <- E in *. assert (Hp : parse_N ds = Some (dval ds)) by (apply parse_N_digits; assumption).
  rewrite E in *. unfold parse_dec.
  destruct c as [|p]; [lia|].
  repeat (destruct p as [p|p|]; try (rewrite Hp; reflexivity); try lia).
Qed.

Lemma parse_u64_digits ds : all_digits ds -> ds <> [] -> dval ds < 18446744073709551616 ->
  parse_u64 ds = Some (dval ds).
Proof.
  intros Hd Hne Hb. unfold parse_u64, parse_int. rewrite parse_dec_digits by assumption.
  unfold u64_max.
  destruct ((0 <=? Z.of_N (dval ds)) && (Z.of_N (dval ds) <=? 18446744073709551615))%Z eqn:E; [|lia].
  cbn [option_map]. rewrite N2Z.id. reflexivity.
Qed.

Lemma dval_fmt_N n : dval (fmt_N n) = n.
Proof. destruct (fmt_N_spec n) as (ds & E & _ & _ & F). rewrite E. exact F. Qed.

(* a non-empty prefix of a printed u64 parses as a u64 *)
Lemma parse_u64_prefix n m : n < 18446744073709551616 -> (0 < m)%nat ->
  parse_u64 (firstn m (fmt_N n)) = Some (dval (firstn m (fmt_N n))).
Proof.
  intros Hn Hm. apply parse_u64_digits.
  - apply all_digits_firstn. apply fmt_N_digits.
  - pose proof (fmt_N_nonempty n) as Hne. destruct (fmt_N n); [contradiction|].
    destruct m; [lia|]. discriminate.
  - pose proof (dval_prefix_le (fmt_N n) m) as H. rewrite dval_fmt_N in H. lia.
Qed.

(* no leading zero *)
Lemma digits_fuel_head : forall f n acc, 1 <= n -> n < 2 ^ N.of_nat (S f) ->
  exists c t, digits_fuel (S f) n acc = c :: t /\ 49 <= c <= 57.
Proof.
  induction f as [|f IH]; intros n acc H1 Hn; cbn [digits_fuel].
  - assert (E : n / 10 =? 0 = true) by (change (2 ^ N.of_nat 1) with 2 in Hn; lia).
    rewrite E. exists (48 + n mod 10), acc. split; [reflexivity|].
    change (2 ^ N.of_nat 1) with 2 in Hn. lia.
  - destruct (n / 10 =? 0) eqn:E.
    + exists (48 + n mod 10), acc. split; [reflexivity|]. lia.
    + assert (Hq : n / 10 < 2 ^ N.of_nat (S f)).
      { rewrite (Nnat.Nat2N.inj_succ (S f)), N.pow_succ_r' in Hn. lia. }
      apply IH; [lia|exact Hq].
Qed.

Lemma fmt_N_head_nz n : 1 <= n -> exists c t, fmt_N n = c :: t /\ 49 <= c <= 57.
Proof.
  intros H1. unfold fmt_N. apply digits_fuel_head; [exact H1|].
  rewrite Nnat.Nat2N.inj_succ, Nnat.N2Nat.id.
  destruct n as [|p]; [lia|]. apply N.log2_spec. lia.
Qed.

Lemma dval_prefix_nz n m : 1 <= n -> (0 < m)%nat -> 1 <= dval (firstn m (fmt_N n)).
Proof.
  intros H1 Hm. destruct (fmt_N_head_nz n H1) as (c & t & E & Hc). rewrite E.
  destruct m; [lia|]. cbn [firstn]. unfold dval. cbn [fold_left].
  eapply N.le_trans; [|apply fold_dstep_ge]. unfold dstep. lia.
Qed.

Lemma parse_nz_u64_prefix n m : 1 <= n -> n < 18446744073709551616 -> (0 < m)%nat ->
  parse_nz_u64 (firstn m (fmt_N n)) = Some (dval (firstn m (fmt_N n))).
Proof.
  intros H1 Hn Hm. unfold parse_nz_u64. rewrite parse_u64_prefix by assumption.
  pose proof (dval_prefix_nz n m H1 Hm) as Hz.
  destruct (dval (firstn m (fmt_N n))); [lia|reflexivity].
Qed.

(* ---------- counting tabs ---------- *)
Definition ntab (s : list N) : nat := count_occ N.eq_dec s TAB.

Lemma ntab_app a b : ntab (a ++ b) = (ntab a + ntab b)%nat.
Proof. apply count_occ_app. Qed.

Lemma ntab_cons_tab s : ntab (TAB :: s) = S (ntab s).
Proof. unfold ntab. cbn [count_occ]. destruct (N.eq_dec TAB TAB); [reflexivity|contradiction]. Qed.

Lemma ntab_none s : ~ In TAB s -> ntab s = O.
Proof. intros H. apply count_occ_not_In. exact H. Qed.

Lemma ntab_digits d : all_digits d -> ntab d = O.
Proof. intros H. apply ntab_none. apply digits_no_sep; [exact H|unfold TAB; lia]. Qed.

Lemma ntab_firstn_le s k : (ntab (firstn k s) <= ntab s)%nat.
Proof. rewrite <- (firstn_skipn k s) at 2. rewrite ntab_app. lia. Qed.

Lemma break_at_ntab s :
  ntab s = match snd (break_at TAB s) with None => O | Some r => S (ntab r) end.
Proof.
  induction s as [|a s IH]; cbn [break_at]; [reflexivity|].
  destruct (a =? TAB) eqn:E.
  - cbn [snd]. unfold ntab. cbn [count_occ]. destruct (N.eq_dec a TAB); [reflexivity|lia].
  - destruct (break_at TAB s) as [l o] eqn:B. cbn [snd] in *. unfold ntab in *. cbn [count_occ].
    destruct (N.eq_dec a TAB); [lia|]. exact IH.
Qed.

(* ---------- the generic line loop on a prefix ---------- *)
Definition enc_lines {A} (line : A -> list N) (l : list A) : list N :=
  concat (map (fun r => line r ++ [LF]) l).

(* [partial r k]: what the reader makes of the first k bytes (0 < k <= |line r|) of the line of r
   when the input ends there *)
Fixpoint text_index_cut {A} (partial : A -> nat -> option (list A)) (line : A -> list N)
         (l : list A) (k : nat) : option (list A) :=
  match l with
  | [] => Some []
  | r :: t =>
      if (k =? 0)%nat then Some []
      else if (k <=? length (line r))%nat then partial r k
      else option_map (cons r) (text_index_cut partial line t (k - S (length (line r))))
  end.

(* generic in the line reader's check: utf8_valid for crai (lines read as Strings), no_check for
   fai (lines read as bytes since the `fix:` commit 24986d3) *)
Lemma read_lines_last {A} (check : list N -> bool) (parse : list N -> option A) s fuel :
  s <> [] -> ~ In LF s -> (length s < fuel)%nat ->
  read_lines_gen check fuel parse s =
    if check s then match parse s with Some r => Some [r] | None => None end else None.
Proof.
  intros Hne Hlf Hf. destruct fuel as [|f]; [lia|]. cbn [read_lines_gen].
  destruct s as [|b t] eqn:E; [contradiction|]. rewrite <- E in *.
  rewrite break_at_none by exact Hlf.
  destruct (check s); [|reflexivity]. destruct (parse s); reflexivity.
Qed.

Lemma read_lines_cut {A} (check : list N -> bool) (parse : list N -> option A) (line : A -> list N)
      (partial : A -> nat -> option (list A)) (l : list A) :
  (forall r, In r l ->
     (~ In LF (line r) /\ check (line r) = true /\ strip_cr (line r) = line r /\
      parse (line r) = Some r) /\
     forall k, (0 < k <= length (line r))%nat ->
       (if check (firstn k (line r))
        then match parse (firstn k (line r)) with Some r' => Some [r'] | None => None end
        else None) = partial r k) ->
  forall k fuel, (length (firstn k (enc_lines line l)) < fuel)%nat ->
  read_lines_gen check fuel parse (firstn k (enc_lines line l)) = text_index_cut partial line l k.
Proof.
  induction l as [|r l IH]; intros H k fuel Hf.
  - unfold enc_lines. cbn [map concat text_index_cut]. rewrite firstn_nil.
    destruct fuel; [lia|]. reflexivity.
  - destruct (H r (or_introl eq_refl)) as ((Hlf & Hu & Hs & Hp) & Hpart).
    unfold enc_lines in *. cbn [map concat text_index_cut] in *. fold (enc_lines line l) in *.
    rewrite <- app_assoc in *. cbn [app] in *.
    destruct (k =? 0)%nat eqn:E0.
    + replace k with O by lia. cbn [firstn]. destruct fuel; [lia|]. reflexivity.
    + destruct (k <=? length (line r))%nat eqn:E1.
      * rewrite firstn_app. replace (k - length (line r))%nat with O by lia.
        cbn [firstn]. rewrite app_nil_r.
        rewrite read_lines_last.
        -- apply Hpart. lia.
        -- intros Hn. apply (f_equal (@length N)) in Hn. rewrite firstn_length in Hn. cbn [length] in Hn. lia.
        -- intros Hin. apply Hlf. rewrite <- (firstn_skipn k (line r)). apply in_or_app. left. exact Hin.
        -- rewrite firstn_length. rewrite firstn_length, app_length in Hf. cbn [length] in Hf. lia.
      * rewrite firstn_app in *. rewrite (firstn_all2 (line r)) in * by lia.
        replace (k - length (line r))%nat with (S (k - S (length (line r)))) in * by lia.
        cbn [firstn] in *. rewrite app_length in Hf. cbn [length] in Hf.
        destruct fuel as [|f]; [lia|]. cbn [read_lines_gen].
        destruct (line r ++ LF :: firstn (k - S (length (line r))) (enc_lines line l)) eqn:E;
          [destruct (line r); discriminate|]. rewrite <- E. clear E.
        rewrite break_at_app by exact Hlf. rewrite Hu, Hs, Hp.
        rewrite IH; [|intros r' Hr'; apply H; right; exact Hr'|lia].
        destruct (text_index_cut partial line l (k - S (length (line r)))); reflexivity.
Qed.

(* ---------- fai ---------- *)
Definition fai_head (r : fai_rec) : list N :=
  f_name r ++ TAB :: fmt_N (f_len r) ++ TAB :: fmt_N (f_pos r) ++ TAB :: fmt_N (f_lb r) ++ [TAB].

Lemma fai_line_head r : fai_line r = fai_head r ++ fmt_N (f_lw r).
Proof. unfold fai_line, fai_head. repeat (rewrite <- app_assoc; cbn [app]). reflexivity. Qed.

(* a cut inside a line: an error up to and including the fourth TAB; behind it the record with
   its last field (line width) replaced by the value of the digits present *)
Definition fai_partial (r : fai_rec) (k : nat) : option (list fai_rec) :=
  if (k <=? length (fai_head r))%nat then None
  else Some [mkfai (f_name r) (f_len r) (f_pos r) (f_lb r)
               (dval (firstn (k - length (fai_head r)) (fmt_N (f_lw r))))].

Lemma parse_fai_few_tabs s : (ntab s < 4)%nat -> parse_fai_rec s = None.
Proof.
  intros H. unfold parse_fai_rec. destruct s as [|b t] eqn:Es; [reflexivity|]. rewrite <- Es in *.
  pose proof (break_at_ntab s) as H1. destruct (break_at TAB s) as [name o1]. cbn [snd] in H1.
  destruct o1 as [r1|]; [|reflexivity].
  pose proof (break_at_ntab r1) as H2. destruct (break_at TAB r1) as [f2 o2]. cbn [snd] in H2.
  destruct (parse_u64 f2); [|reflexivity]. destruct o2 as [r2|]; [|reflexivity].
  pose proof (break_at_ntab r2) as H3. destruct (break_at TAB r2) as [f3 o3]. cbn [snd] in H3.
  destruct (parse_u64 f3); [|reflexivity]. destruct o3 as [r3|]; [|reflexivity].
  pose proof (break_at_ntab r3) as H4. destruct (break_at TAB r3) as [f4 o4]. cbn [snd] in H4.
  destruct (parse_nz_u64 f4); [|reflexivity]. destruct o4 as [r4|]; [|reflexivity].
  exfalso. lia.
Qed.

Lemma parse_fai_head_tail r d : fai_ok r ->
  parse_fai_rec (fai_head r ++ d) =
    match parse_nz_u64 d with
    | Some lw => Some (mkfai (f_name r) (f_len r) (f_pos r) (f_lb r) lw)
    | None => None
    end.
Proof.
  intros (Ht & Hl & H1 & H2 & H3 & H4 & H5 & H6). unfold parse_fai_rec, fai_head.
  repeat (rewrite <- app_assoc; cbn [app]).
  destruct (f_name r ++ TAB :: fmt_N (f_len r) ++ TAB :: fmt_N (f_pos r) ++ TAB :: fmt_N (f_lb r)
            ++ TAB :: d) eqn:E; [destruct (f_name r); discriminate|]. rewrite <- E. clear E.
  rewrite break_at_app by exact Ht.
  rewrite break_at_app by (apply digits_no_sep; [apply fmt_N_digits|unfold TAB; lia]).
  rewrite parse_u64_fmt by exact H1.
  rewrite break_at_app by (apply digits_no_sep; [apply fmt_N_digits|unfold TAB; lia]).
  rewrite parse_u64_fmt by exact H2.
  rewrite break_at_app by (apply digits_no_sep; [apply fmt_N_digits|unfold TAB; lia]).
  rewrite parse_nz_u64_fmt by assumption. reflexivity.
Qed.

Lemma ntab_fai_head_init r : fai_ok r ->
  ntab (f_name r ++ TAB :: fmt_N (f_len r) ++ TAB :: fmt_N (f_pos r) ++ TAB :: fmt_N (f_lb r)) = 3%nat.
Proof.
  intros (Ht & _).
  rewrite ntab_app, ntab_cons_tab, ntab_app, ntab_cons_tab, ntab_app, ntab_cons_tab.
  rewrite (ntab_none _ Ht). rewrite !ntab_digits by apply fmt_N_digits. reflexivity.
Qed.

Lemma fai_partial_ok r k : fai_ok r -> (0 < k <= length (fai_line r))%nat ->
  (if no_check (firstn k (fai_line r))
   then match parse_fai_rec (firstn k (fai_line r)) with Some r' => Some [r'] | None => None end
   else None) = fai_partial r k.
Proof.
  intros Hok Hk. unfold fai_partial. rewrite fai_line_head in *.
  destruct (k <=? length (fai_head r))%nat eqn:E.
  - assert (Hnone : parse_fai_rec (firstn k (fai_head r ++ fmt_N (f_lw r))) = None).
    { rewrite firstn_app. replace (k - length (fai_head r))%nat with O by lia.
      cbn [firstn]. rewrite app_nil_r.
      destruct (k =? length (fai_head r))%nat eqn:Ek.
      - rewrite firstn_all2 by lia. rewrite <- (app_nil_r (fai_head r)).
        rewrite parse_fai_head_tail by exact Hok. reflexivity.
      - apply parse_fai_few_tabs. unfold fai_head in *.
        set (h0 := f_name r ++ TAB :: fmt_N (f_len r) ++ TAB :: fmt_N (f_pos r) ++ TAB :: fmt_N (f_lb r)) in *.
        replace (f_name r ++ TAB :: fmt_N (f_len r) ++ TAB :: fmt_N (f_pos r) ++ TAB :: fmt_N (f_lb r) ++ [TAB])
          with (h0 ++ [TAB]) in * by (unfold h0; repeat (rewrite <- app_assoc; cbn [app]); reflexivity).
        rewrite app_length in *. cbn [length] in *.
        rewrite firstn_app. replace (k - length h0)%nat with O by lia. cbn [firstn]. rewrite app_nil_r.
        pose proof (ntab_firstn_le h0 k) as Hle. unfold h0 in Hle at 2.
        rewrite ntab_fai_head_init in Hle by exact Hok. lia. }
    rewrite Hnone. reflexivity.
  - rewrite firstn_app. rewrite (firstn_all2 (fai_head r)) by lia.
    set (m := (k - length (fai_head r))%nat).
    rewrite parse_fai_head_tail by exact Hok.
    pose proof Hok as (Ht & Hl & H1 & H2 & H3 & H4 & H5 & H6).
    rewrite parse_nz_u64_prefix by (try assumption; unfold m; lia).
    reflexivity.
Qed.

(* THE FAI THEOREM: every cut of every written index *)
Theorem fai_truncation l k : Forall fai_ok l ->
  read_fai (firstn k (w_fai l)) = text_index_cut fai_partial fai_line l k.
Proof.
  intros Hok. unfold read_fai, w_fai, read_lines_bytes.
  replace (map w_fai_rec l) with (map (fun r => fai_line r ++ [LF]) l)
    by (apply map_ext; intros r; symmetry; apply w_fai_rec_line).
  apply (read_lines_cut no_check parse_fai_rec fai_line fai_partial l).
  - intros r Hr. rewrite Forall_forall in Hok. split; [apply fai_line_ok; auto|].
    intros k0 Hk0. apply fai_partial_ok; auto.
  - unfold enc_lines. lia.
Qed.

(* the whole line without its LF is the record itself *)
Lemma fai_partial_full r : (0 < length (fmt_N (f_lw r)))%nat ->
  fai_partial r (length (fai_line r)) = Some [r].
Proof.
  intros Hp. unfold fai_partial. rewrite fai_line_head, app_length.
  replace (length (fai_head r) + length (fmt_N (f_lw r)) <=? length (fai_head r))%nat with false by lia.
  replace (length (fai_head r) + length (fmt_N (f_lw r)) - length (fai_head r))%nat
    with (length (fmt_N (f_lw r))) by lia.
  rewrite firstn_all, dval_fmt_N. destruct r; reflexivity.
Qed.

(* ---------- crai ---------- *)
Definition crai_head (r : crai_rec) : list N :=
  rid_text r ++ TAB :: fmt_N (match c_start r with Some p => p | None => 0 end)
  ++ TAB :: fmt_N (c_span r) ++ TAB :: fmt_N (c_off r) ++ TAB :: fmt_N (c_land r) ++ [TAB].

Lemma crai_line_head r : crai_line r = crai_head r ++ fmt_N (c_slen r).
Proof. unfold crai_line, crai_head, rid_text. repeat (rewrite <- app_assoc; cbn [app]). reflexivity. Qed.

Definition crai_partial (r : crai_rec) (k : nat) : option (list crai_rec) :=
  if (k <=? length (crai_head r))%nat then None
  else Some [mkcrai (c_rid r) (c_start r) (c_span r) (c_off r) (c_land r)
               (dval (firstn (k - length (crai_head r)) (fmt_N (c_slen r))))].

Lemma parse_crai_few_tabs s : (ntab s < 5)%nat -> parse_crai_rec s = None.
Proof.
  intros H. unfold parse_crai_rec.
  pose proof (break_at_ntab s) as H1. destruct (break_at TAB s) as [f1 o1]. cbn [snd] in H1.
  destruct (parse_int true i32_min i32_maxz f1) as [ridz|]; [|reflexivity].
  destruct (ridz <? -1)%Z; [reflexivity|].
  destruct o1 as [r1|]; [|reflexivity].
  pose proof (break_at_ntab r1) as H2. destruct (break_at TAB r1) as [f2 o2]. cbn [snd] in H2.
  destruct (parse_u64 f2); [|reflexivity]. destruct o2 as [r2|]; [|reflexivity].
  pose proof (break_at_ntab r2) as H3. destruct (break_at TAB r2) as [f3 o3]. cbn [snd] in H3.
  destruct (parse_u64 f3); [|reflexivity]. destruct o3 as [r3|]; [|reflexivity].
  pose proof (break_at_ntab r3) as H4. destruct (break_at TAB r3) as [f4 o4]. cbn [snd] in H4.
  destruct (parse_u64 f4); [|reflexivity]. destruct o4 as [r4|]; [|reflexivity].
  pose proof (break_at_ntab r4) as H5. destruct (break_at TAB r4) as [f5 o5]. cbn [snd] in H5.
  destruct (parse_u64 f5); [|reflexivity]. destruct o5 as [r5|]; [|reflexivity].
  exfalso. lia.
Qed.

Lemma parse_crai_head_tail r d : crai_ok r ->
  parse_crai_rec (crai_head r ++ d) =
    match parse_u64 d with
    | Some sl => Some (mkcrai (c_rid r) (c_start r) (c_span r) (c_off r) (c_land r) sl)
    | None => None
    end.
Proof.
  intros (Hr & Hs & H1 & H2 & H3 & H4). unfold parse_crai_rec, crai_head.
  repeat (rewrite <- app_assoc; cbn [app]).
  rewrite break_at_app by (apply rid_text_no_sep; unfold TAB; lia).
  rewrite parse_rid by exact Hr.
  rewrite break_at_app by (apply digits_no_sep; [apply fmt_N_digits|unfold TAB; lia]).
  assert (Hst : fits_u64 (match c_start r with Some p => p | None => 0 end))
    by (destruct (c_start r) as [p|]; [tauto|unfold fits_u64; lia]).
  rewrite parse_u64_fmt by exact Hst.
  rewrite break_at_app by (apply digits_no_sep; [apply fmt_N_digits|unfold TAB; lia]).
  rewrite parse_u64_fmt by exact H1.
  rewrite break_at_app by (apply digits_no_sep; [apply fmt_N_digits|unfold TAB; lia]).
  rewrite parse_u64_fmt by exact H2.
  rewrite break_at_app by (apply digits_no_sep; [apply fmt_N_digits|unfold TAB; lia]).
  rewrite parse_u64_fmt by exact H3.
  destruct (parse_u64 d) as [sl|].
  - destruct r as [rid st sp off land sl0]. cbn [c_rid c_start c_span c_off c_land c_slen] in *.
    destruct rid as [id|]; destruct st as [p|];
      repeat match goal with
      | |- context [(?a <? ?b)%Z] => let E := fresh "E" in destruct (a <? b)%Z eqn:E; [lia|]
      | |- context [(?a =? ?b)%Z] => let E := fresh "E" in destruct (a =? b)%Z eqn:E; [try lia|try lia]
      | |- context [?a =? 0] => let E := fresh "E" in destruct (a =? 0) eqn:E; [try lia|try lia]
      end; rewrite ?N2Z.id; reflexivity.
  - destruct (match c_rid r with Some id => Z.of_N id | None => (-1)%Z end <? -1)%Z; reflexivity.
Qed.

Lemma ntab_crai_head_init r :
  ntab (rid_text r ++ TAB :: fmt_N (match c_start r with Some p => p | None => 0 end)
        ++ TAB :: fmt_N (c_span r) ++ TAB :: fmt_N (c_off r) ++ TAB :: fmt_N (c_land r)) = 4%nat.
Proof.
  rewrite ntab_app, ntab_cons_tab, ntab_app, ntab_cons_tab, ntab_app, ntab_cons_tab, ntab_app, ntab_cons_tab.
  rewrite (ntab_none (rid_text r)) by (apply rid_text_no_sep; unfold TAB; lia).
  rewrite !ntab_digits by apply fmt_N_digits. reflexivity.
Qed.

Lemma crai_partial_ok r k : crai_ok r -> (0 < k <= length (crai_line r))%nat ->
  (if utf8_valid (firstn k (crai_line r))
   then match parse_crai_rec (firstn k (crai_line r)) with Some r' => Some [r'] | None => None end
   else None) = crai_partial r k.
Proof.
  intros Hok Hk. unfold crai_partial. rewrite crai_line_head in *.
  destruct (k <=? length (crai_head r))%nat eqn:E.
  - assert (Hnone : parse_crai_rec (firstn k (crai_head r ++ fmt_N (c_slen r))) = None).
    { rewrite firstn_app. replace (k - length (crai_head r))%nat with O by lia.
      cbn [firstn]. rewrite app_nil_r.
      destruct (k =? length (crai_head r))%nat eqn:Ek.
      - rewrite firstn_all2 by lia. rewrite <- (app_nil_r (crai_head r)).
        rewrite parse_crai_head_tail by exact Hok. reflexivity.
      - apply parse_crai_few_tabs. unfold crai_head in *.
        set (h0 := rid_text r ++ TAB :: fmt_N (match c_start r with Some p => p | None => 0 end)
                   ++ TAB :: fmt_N (c_span r) ++ TAB :: fmt_N (c_off r) ++ TAB :: fmt_N (c_land r)) in *.
        replace (rid_text r ++ TAB :: fmt_N (match c_start r with Some p => p | None => 0 end)
                 ++ TAB :: fmt_N (c_span r) ++ TAB :: fmt_N (c_off r) ++ TAB :: fmt_N (c_land r) ++ [TAB])
          with (h0 ++ [TAB]) in * by (unfold h0; repeat (rewrite <- app_assoc; cbn [app]); reflexivity).
        rewrite app_length in *. cbn [length] in *.
        rewrite firstn_app. replace (k - length h0)%nat with O by lia. cbn [firstn]. rewrite app_nil_r.
        pose proof (ntab_firstn_le h0 k) as Hle. unfold h0 in Hle at 2.
        rewrite ntab_crai_head_init in Hle. lia. }
    rewrite Hnone. destruct (utf8_valid _); reflexivity.
  - rewrite firstn_app. rewrite (firstn_all2 (crai_head r)) by lia.
    set (m := (k - length (crai_head r))%nat).
    rewrite parse_crai_head_tail by exact Hok.
    pose proof Hok as (Hr & Hs & H1 & H2 & H3 & H4).
    rewrite parse_u64_prefix by (try exact H4; unfold m; lia).
    assert (Hv : utf8_valid (crai_head r ++ firstn m (fmt_N (c_slen r))) = true).
    { apply utf8_valid_ascii. unfold crai_head. repeat (rewrite <- app_assoc; cbn [app]).
      apply Forall_app. split; [apply rid_text_ascii|].
      repeat (apply ascii_tab_digits; [apply fmt_N_digits|]).
      constructor; [unfold TAB; lia|]. apply digits_ascii. apply all_digits_firstn. apply fmt_N_digits. }
    rewrite Hv. reflexivity.
Qed.

(* THE CRAI THEOREM (the text inside the gzip member) *)
Theorem crai_truncation l k : Forall crai_ok l ->
  read_crai (firstn k (w_crai l)) = text_index_cut crai_partial crai_line l k.
Proof.
  intros Hok. unfold read_crai, w_crai.
  replace (map w_crai_rec l) with (map (fun r => crai_line r ++ [LF]) l)
    by (apply map_ext; intros r; symmetry; apply w_crai_rec_line).
  unfold read_lines. apply (read_lines_cut utf8_valid parse_crai_rec crai_line crai_partial l).
  - intros r Hr. rewrite Forall_forall in Hok. split; [apply crai_line_ok; auto|].
    intros k0 Hk0. apply crai_partial_ok; auto.
  - unfold enc_lines. lia.
Qed.

(* ---------- consequences shared by both formats ---------- *)
(* complete lines are never altered: every record but the last one returned is the written one *)
Lemma text_index_cut_prefix {A} (partial : A -> nat -> option (list A)) (line : A -> list N) :
  (forall r k, match partial r k with None => True | Some x => length x = 1%nat end) ->
  forall l k res, text_index_cut partial line l k = Some res ->
  exists j, (j <= length l)%nat /\
    (res = firstn j l \/ exists r r', nth_error l j = Some r /\ partial r
              (k - length (enc_lines line (firstn j l)))%nat = Some [r'] /\ res = firstn j l ++ [r']).
Proof.
  intros Hone. induction l as [|r l IH]; intros k res H; cbn [text_index_cut] in H.
  - injection H as H. subst res. exists O. split; [cbn; lia|]. left. reflexivity.
  - destruct (k =? 0)%nat eqn:E0.
    + injection H as H. subst res. exists O. split; [lia|]. left. reflexivity.
    + destruct (k <=? length (line r))%nat eqn:E1.
      * exists O. split; [lia|]. right. pose proof (Hone r k) as H1. rewrite H in H1.
        destruct res as [|r' [|x t]]; cbn [length] in H1; try lia.
        exists r, r'. cbn [firstn nth_error app]. unfold enc_lines. cbn [map concat length].
        rewrite Nat.sub_0_r. auto.
      * destruct (text_index_cut partial line l (k - S (length (line r)))) as [res'|] eqn:E; [|discriminate H].
        injection H as H. subst res.
        destruct (IH _ _ E) as (j & Hj & Hres). exists (S j). split; [cbn [length]; lia|].
        destruct Hres as [Hres|(r0 & r' & Hn & Hp & Hres)].
        -- left. subst res'. reflexivity.
        -- right. exists r0, r'. cbn [nth_error firstn]. split; [exact Hn|]. split.
           ++ unfold enc_lines in *. cbn [map concat]. rewrite !app_length. cbn [length].
              replace (k - (length (line r) + 1 + length (concat (map (fun r1 => line r1 ++ [LF]) (firstn j l)))))%nat
                with (k - S (length (line r)) - length (concat (map (fun r1 => line r1 ++ [LF]) (firstn j l))))%nat by lia.
              exact Hp.
           ++ subst res'. reflexivity.
Qed.

(* whatever the cut: the records returned are a prefix of the written ones, except that the LAST
   one may be the written record with a different last field *)
Corollary fai_truncation_prefix l k res : Forall fai_ok l ->
  read_fai (firstn k (w_fai l)) = Some res ->
  exists j, (j <= length l)%nat /\
    (res = firstn j l \/
     exists r lw, nth_error l j = Some r /\
       res = firstn j l ++ [mkfai (f_name r) (f_len r) (f_pos r) (f_lb r) lw]).
Proof.
  intros Hok H. rewrite fai_truncation in H by exact Hok.
  apply text_index_cut_prefix in H.
  - destruct H as (j & Hj & [Hres|(r & r' & Hn & Hp & Hres)]); exists j; (split; [exact Hj|]).
    + left. exact Hres.
    + right. unfold fai_partial in Hp.
      destruct (_ <=? length (fai_head r))%nat; [discriminate Hp|].
      injection Hp as Hp. subst r'. eexists r, _. split; [exact Hn|exact Hres].
  - intros r k0. unfold fai_partial. destruct (k0 <=? length (fai_head r))%nat; [exact I|reflexivity].
Qed.

Corollary crai_truncation_prefix l k res : Forall crai_ok l ->
  read_crai (firstn k (w_crai l)) = Some res ->
  exists j, (j <= length l)%nat /\
    (res = firstn j l \/
     exists r sl, nth_error l j = Some r /\
       res = firstn j l ++ [mkcrai (c_rid r) (c_start r) (c_span r) (c_off r) (c_land r) sl]).
Proof.
  intros Hok H. rewrite crai_truncation in H by exact Hok.
  apply text_index_cut_prefix in H.
  - destruct H as (j & Hj & [Hres|(r & r' & Hn & Hp & Hres)]); exists j; (split; [exact Hj|]).
    + left. exact Hres.
    + right. unfold crai_partial in Hp.
      destruct (_ <=? length (crai_head r))%nat; [discriminate Hp|].
      injection Hp as Hp. subst r'. eexists r, _. split; [exact Hn|exact Hres].
  - intros r k0. unfold crai_partial. destruct (k0 <=? length (crai_head r))%nat; [exact I|reflexivity].
Qed.

(* non-vacuity: two fai records; cuts at a line boundary, inside the name, inside the last field *)
Example fai_trunc_example :
  let r1 := mkfai [115;49] 100 4 60 61 in
  let r2 := mkfai [115;50] 250 110 70 71 in
  let f := w_fai [r1; r2] in
  length f = 32%nat /\
  read_fai (firstn 15 f) = Some [r1] /\
  read_fai (firstn 16 f) = None /\
  read_fai (firstn 29 f) = None /\
  read_fai (firstn 30 f) = Some [r1; mkfai [115;50] 250 110 70 7] /\
  read_fai (firstn 31 f) = Some [r1; r2] /\
  read_fai (firstn 32 f) = Some [r1; r2].
Proof. vm_compute. repeat split. Qed.
