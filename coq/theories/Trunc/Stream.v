(* C13 — framing-level models of the sequential readers, as pure functions on byte lists with an
   explicit three-way outcome per item:  Item x rest | Stop Eof | Stop (Err kind).

   Modelled code (what it does, not what it should do):
   * noodles-bam/src/io/reader/record.rs   read_record / read_block_size / read_exact_or_eof /
     validate   -> [bam_read_record]
   * noodles-bcf/src/io/reader/record.rs   read_record / read_site_length / read_samples_length
     -> [bcf_read_record] (the site-buffer indexer Fields::index is a parameter [site_ok])
   * noodles-bgzf/src/io/reader/frame.rs   read_frame_into / parse_frame / parse_header /
     parse_trailer -> [read_frame], [parse_block]; noodles-bgzf/src/io/reader.rs
     read_nonempty_block_with / fill_buf -> [bgzf_read_block], [bgzf_chunks]
     (DEFLATE decoding + CRC check of a complete frame is the parameter [inflate])
   * a record reader running on top of a BGZF reader -> the [after : stop] argument of the record
     readers: what the byte source reports once its bytes are used up (Eof = read returns 0,
     Err e = read fails with e).

   Definitions only; proofs are in StreamProofs.v. *)
From Coq Require Import List Arith NArith Bool.
From NV Require Import Base.LE.
Import ListNotations.
Open Scope N_scope.

Inductive ekind : Type := UnexpectedEof | InvalidData | OutOfFuel.
Inductive stop : Type := Eof | Err (e : ekind).
Inductive step (A : Type) : Type :=
| Item (x : A) (rest : list N)
| Stop (s : stop).
Arguments Item {A} x rest.
Arguments Stop {A} s.

(* the error a [read_exact] reports when the source runs dry: UnexpectedEof on a source that
   ends, the source's own error on a source that fails *)
Definition short (after : stop) : ekind :=
  match after with Eof => UnexpectedEof | Err e => e end.

(* read_exact of n bytes: None = fewer than n bytes are left.  Structural in the byte list, so a
   huge declared length costs nothing. *)
Fixpoint take (n : N) (bs : list N) {struct bs} : option (list N * list N) :=
  if n =? 0 then Some ([], bs) else
  match bs with
  | [] => None
  | b :: t => match take (N.pred n) t with
              | Some (h, r) => Some (b :: h, r)
              | None => None
              end
  end.

(* the reader loop: call the item reader until it stops.  Every Item consumes at least one byte
   in all instances, so fuel = S (length input) is never exhausted (proved). *)
Fixpoint read_all {A : Type} (rd : list N -> step A) (fuel : nat) (bs : list N) : list A * stop :=
  match fuel with
  | O => ([], Err OutOfFuel)
  | S f => match rd bs with
           | Item x rest => let (xs, s) := read_all rd f rest in (x :: xs, s)
           | Stop s => ([], s)
           end
  end.

Definition read_stream {A : Type} (rd : list N -> step A) (bs : list N) : list A * stop :=
  read_all rd (S (length bs)) bs.

(* ------------------------------------------------------------------------------------------ *)
(* BAM record stream: u32 LE block_size, then block_size bytes *)

Definition le_at (off len : nat) (bs : list N) : N := le_dec (firstn len (skipn off bs)).

(* bam/src/io/reader/record.rs::validate (usize is 64 bit: no overflow is possible with a u8, a
   u16 and a u32 operand) *)
Definition bam_validate (src : list N) : option ekind :=
  let len := N.of_nat (length src) in
  if len <? 32 then Some UnexpectedEof else
  let name_len := nth 8 src 0 in
  let cigar_op_count := le_at 12 2 src in
  let base_count := le_at 16 4 src in
  let quality_scores_end := 32 + name_len + cigar_op_count * 4 + (base_count + 1) / 2 + base_count in
  if len <? quality_scores_end then Some UnexpectedEof else None.

Definition bam_read_record (after : stop) (bs : list N) : step (list N) :=
  match bs with
  | [] => (* read_exact_or_eof: 0 bytes read is not an error; the zeroed buffer decodes to
             block_size 0 = end of stream.  A failing source fails here. *)
          Stop after
  | _ :: _ =>
    match take 4 bs with
    | None => Stop (Err (short after))              (* 1..3 bytes *)
    | Some (h, r) =>
      let block_size := le_dec h in
      if block_size =? 0 then Stop Eof else          (* a literal 0 length also reads as EOF *)
      match take block_size r with
      | None => Stop (Err (short after))
      | Some (body, r') =>
        match bam_validate body with
        | Some e => Stop (Err e)
        | None => Item body r'
        end
      end
    end
  end.

Definition bam_encode_record (r : list N) : list N := le32 (N.of_nat (length r)) ++ r.

(* ------------------------------------------------------------------------------------------ *)
(* BCF record stream: u32 l_shared, u32 l_indiv, site bytes, sample bytes *)

Section BCF.
  (* Fields::index on the site buffer: None = accepted *)
  Variable site_ok : list N -> option ekind.

  Definition bcf_read_record (after : stop) (bs : list N) : step (list N * list N) :=
    match bs with
    | [] => Stop after
    | _ :: _ =>
      match take 4 bs with
      | None => Stop (Err (short after))
      | Some (h, r) =>
        let l_shared := le_dec h in
        if l_shared =? 0 then Stop Eof else
        match take 4 r with
        | None => Stop (Err (short after))
        | Some (h2, r2) =>
          let l_indiv := le_dec h2 in
          match take l_shared r2 with
          | None => Stop (Err (short after))
          | Some (site, r3) =>
            match site_ok site with
            | Some e => Stop (Err e)
            | None =>
              match take l_indiv r3 with
              | None => Stop (Err (short after))
              | Some (samples, r4) => Item (site, samples) r4
              end
            end
          end
        end
      end
    end.
End BCF.

Definition bcf_encode_record (r : list N * list N) : list N :=
  le32 (N.of_nat (length (fst r))) ++ le32 (N.of_nat (length (snd r))) ++ fst r ++ snd r.

(* the eager path, noodles-bcf/src/io/reader/record_buf.rs::read_record_buf after the repair
   762d61e (l_shared is read with the same read_site_length as the lazy path): the site bytes are
   decoded by read_site right after they are read and the sample bytes by read_samples (whose
   errors are mapped to InvalidData); both decoders are parameters (None = accepted) *)
Section BCFBuf.
  Variable site_dec : list N -> option ekind.
  Variable samples_dec : list N -> list N -> option ekind.

  Definition bcf_read_record_buf (after : stop) (bs : list N) : step (list N * list N) :=
    match bs with
    | [] => Stop after
    | _ :: _ =>
      match take 4 bs with
      | None => Stop (Err (short after))
      | Some (h, r) =>
        let l_shared := le_dec h in
        if l_shared =? 0 then Stop Eof else
        match take 4 r with
        | None => Stop (Err (short after))
        | Some (h2, r2) =>
          let l_indiv := le_dec h2 in
          match take l_shared r2 with
          | None => Stop (Err (short after))
          | Some (site, r3) =>
            match site_dec site with
            | Some e => Stop (Err e)
            | None =>
              match take l_indiv r3 with
              | None => Stop (Err (short after))
              | Some (samples, r4) =>
                match samples_dec site samples with
                | Some e => Stop (Err e)
                | None => Item (site, samples) r4
                end
              end
            end
          end
        end
      end
    end.
End BCFBuf.

(* ------------------------------------------------------------------------------------------ *)
(* BGZF block sequence *)

Definition bgzf_header_size : N := 18.
Definition bgzf_min_frame_size : N := 26.

(* read_frame_into, on a source that ends (a file): a read_exact failure of kind UnexpectedEof
   on the 18 header bytes -- *including a partial header* -- is Ok(None), i.e. clean end *)
Definition read_frame (bs : list N) : step (list N) :=
  match take bgzf_header_size bs with
  | None => Stop Eof
  | Some (h, r) =>
    let block_size := le_at 16 2 h + 1 in
    if block_size <? bgzf_min_frame_size then Stop (Err InvalidData) else
    match take (block_size - bgzf_header_size) r with
    | None => Stop (Err UnexpectedEof)
    | Some (body, r') => Item (h ++ body) r'
    end
  end.

Definition bgzf_fixed_header_ok (h : list N) : bool :=
  (nth 0 h 0 =? 31) && (nth 1 h 0 =? 139) && (nth 2 h 0 =? 8) && (nth 3 h 0 =? 4)
  && (nth 10 h 0 =? 6) && (nth 11 h 0 =? 0) && (nth 12 h 0 =? 66) && (nth 13 h 0 =? 67)
  && (nth 14 h 0 =? 2) && (nth 15 h 0 =? 0).

Definition frame_isize (f : list N) : N := le_at (length f - 4) 4 f.

Section BGZF.
  (* deflate::decode of the frame's CDATA into ISIZE bytes followed by the CRC32 comparison:
     Some data = both succeed *)
  Variable inflate : list N -> option (list N).

  (* parse_block on a frame delivered by read_frame (so its length is >= 26) *)
  Definition parse_block (f : list N) : ekind + list N :=
    if negb (bgzf_fixed_header_ok f) then inl InvalidData else
    if 65536 <? frame_isize f then inl InvalidData else
    match inflate f with
    | Some d => inr d
    | None => inl InvalidData
    end.

  Definition bgzf_read_block (bs : list N) : step (list N) :=
    match read_frame bs with
    | Stop s => Stop s
    | Item f rest =>
      match parse_block f with
      | inl e => Stop (Err e)
      | inr d => Item d rest
      end
    end.

  (* what a consumer of the Read/BufRead interface sees: the data of the blocks in order (empty
     blocks are skipped by read_nonempty_block_with), then end of input or the error *)
  Definition bgzf_blocks (file : list N) : list (list N) * stop := read_stream bgzf_read_block file.

  Definition nonempty (d : list N) : bool := match d with [] => false | _ => true end.

  Definition bgzf_chunks (file : list N) : list (list N) * stop :=
    let (ds, s) := bgzf_blocks file in (filter nonempty ds, s).

  (* a BAM record reader on top of the BGZF reader, positioned [hdr] uncompressed bytes in (after
     the BAM header): None = the header itself could not be read *)
  Definition bam_over_bgzf (hdr : nat) (file : list N) : option (list (list N) * stop) :=
    let (ds, s) := bgzf_blocks file in
    let p := concat ds in
    if (length p <? hdr)%nat then None
    else Some (read_stream (bam_read_record s) (skipn hdr p)).

  (* any record reader on top of the BGZF reader, positioned [hdr] uncompressed bytes in *)
  Definition rec_over_bgzf {A : Type} (rd : stop -> list N -> step A) (hdr : nat) (file : list N)
    : option (list A * stop) :=
    let (ds, s) := bgzf_blocks file in
    let p := concat ds in
    if (length p <? hdr)%nat then None
    else Some (read_stream (rd s) (skipn hdr p)).
End BGZF.

(* ------------------------------------------------------------------------------------------ *)
(* text records (VCF / SAM lines) on a byte source: noodles-vcf/src/io/reader.rs read_record_buf +
   read_line and noodles-sam/src/io/reader/record_buf.rs read_record_buf + io/reader.rs read_line:
   read up to and including the next line feed (std read_until / read_line), drop the line feed and
   a carriage return before it, parse the line (errors mapped to InvalidData; the parser is the
   parameter [parse_ok], None = accepted).  0 bytes read = end of input.  A source that ENDS inside
   a line hands the partial line to the parser as a final line without line feed; a source that
   FAILS inside a line makes read_until fail. *)
Fixpoint split_lf (bs : list N) : option (list N * list N) :=
  match bs with
  | [] => None
  | b :: t => if b =? 10 then Some ([], t)
              else match split_lf t with
                   | Some (l, r) => Some (b :: l, r)
                   | None => None
                   end
  end.

Definition strip_cr (l : list N) : list N :=
  match rev l with
  | 13 :: r => rev r
  | _ => l
  end.

Section TEXT.
  Variable parse_ok : list N -> option ekind.

  Definition text_read_record (after : stop) (bs : list N) : step (list N) :=
    match bs with
    | [] => Stop after
    | _ :: _ =>
      match split_lf bs with
      | Some (l, r) =>
        match parse_ok (strip_cr l) with
        | Some e => Stop (Err e)
        | None => Item (strip_cr l) r
        end
      | None =>
        match after with
        | Eof => match parse_ok bs with
                 | Some e => Stop (Err e)
                 | None => Item bs []
                 end
        | Err e => Stop (Err e)
        end
      end
    end.
End TEXT.

(* instance used by the correspondence check: every complete frame of a prefix of a file written
   by noodles is an original frame, which inflates to ISIZE bytes; only the sizes are observed *)
Definition inflate_sizes (f : list N) : option (list N) := Some (repeat 0 (N.to_nat (frame_isize f))).

Definition stop_code (s : stop) : N :=
  match s with Eof => 0 | Err UnexpectedEof => 1 | Err InvalidData => 2 | Err OutOfFuel => 3 end.

(* observations: number of items and outcome at one cut *)
Definition obs_bam (k : nat) (bs : list N) : N * N :=
  let (xs, s) := read_stream (bam_read_record Eof) (firstn k bs) in (N.of_nat (length xs), stop_code s).

Definition obs_bcf (k : nat) (bs : list N) : N * N :=
  let (xs, s) := read_stream (bcf_read_record (fun _ => None) Eof) (firstn k bs) in
  (N.of_nat (length xs), stop_code s).

Definition obs_bgzf (k : nat) (bs : list N) : list N * N :=
  let (ds, s) := bgzf_chunks inflate_sizes (firstn k bs) in
  (map (fun d => N.of_nat (length d)) ds, stop_code s).

(* inflate given as a finite table (frame bytes -> data), built by the harness from the intact
   file with the real decoder; used for the layered BAM-over-BGZF correspondence *)
Fixpoint bytes_eqb (a b : list N) : bool :=
  match a, b with
  | [], [] => true
  | x :: a', y :: b' => (x =? y) && bytes_eqb a' b'
  | _, _ => false
  end.

Fixpoint inflate_table (tab : list (list N * list N)) (f : list N) : option (list N) :=
  match tab with
  | [] => None
  | (g, d) :: t => if bytes_eqb g f then Some d else inflate_table t f
  end.

(* None = header unreadable *)
Definition obs_bamz (tab : list (list N * list N)) (hdr k : nat) (file : list N) : option (N * N) :=
  match bam_over_bgzf (inflate_table tab) hdr (firstn k file) with
  | None => None
  | Some (xs, s) => Some (N.of_nat (length xs), stop_code s)
  end.

(* the eager BCF reader (decoders accept: the compared streams hold records noodles wrote) *)
Definition obs_bcf_eager (k : nat) (bs : list N) : N * N :=
  let (xs, s) := read_stream (bcf_read_record_buf (fun _ => None) (fun _ _ => None) Eof) (firstn k bs) in
  (N.of_nat (length xs), stop_code s).

(* BCF over BGZF through record_bufs (the eager reader) *)
Definition obs_bcfz (tab : list (list N * list N)) (hdr k : nat) (file : list N) : option (N * N) :=
  match rec_over_bgzf (inflate_table tab) (bcf_read_record_buf (fun _ => None) (fun _ _ => None)) hdr
          (firstn k file) with
  | None => None
  | Some (xs, s) => Some (N.of_nat (length xs), stop_code s)
  end.

(* bgzipped text through record_bufs: [rejected] lists the lines the record parser refuses (built by
   the harness with the real parser on the plain line; every other line is accepted) *)
Fixpoint reject_table (tab : list (list N * N)) (l : list N) : option ekind :=
  match tab with
  | [] => None
  | (g, c) :: t => if bytes_eqb g l then Some (if c =? 1 then UnexpectedEof else InvalidData)
                   else reject_table t l
  end.

Definition obs_textz (tab : list (list N * list N)) (rejected : list (list N * N)) (hdr k : nat)
    (file : list N) : option (N * N) :=
  match rec_over_bgzf (inflate_table tab) (text_read_record (reject_table rejected)) hdr (firstn k file) with
  | None => None
  | Some (xs, s) => Some (N.of_nat (length xs), stop_code s)
  end.
