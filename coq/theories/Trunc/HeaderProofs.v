(* C13 — proofs about header reading over a truncated stream (Trunc/Header.v): every cut inside
   a written BAM / BCF header is an error; the whole file = header + records cut anywhere; the
   same through the BGZF layer. *)
From Coq Require Import List Arith NArith Bool Lia ZifyBool ZifyNat ZifyN.
From NV Require Import Base.LE Trunc.Stream Trunc.StreamProofs Trunc.Header.
From NV Require Bam.Record Bam.Decode Bam.CodecProofs.
From NV Require Sam.Fields Sam.Record Sam.Header Sam.HeaderProofs Sam.BamHeader Sam.BamHeaderProofs.
Import ListNotations.
Open Scope N_scope.

Arguments N.add : simpl never. Arguments N.sub : simpl never. Arguments N.mul : simpl never.
Arguments N.div : simpl never. Arguments N.modulo : simpl never. Arguments N.pred : simpl never.
Arguments N.eqb : simpl never. Arguments N.ltb : simpl never. Arguments N.leb : simpl never.

Module R := Bam.Record.
Module D := Bam.Decode.
Module CP := Bam.CodecProofs.
Module BH := Sam.BamHeader.
Module BHP := Sam.BamHeaderProofs.
Module SH := Sam.Header.
Module SHP := Sam.HeaderProofs.

(* ------------------------------------------------------------------------------------------ *)
(* where a cut falls in a concatenation *)

Lemma some_inj : forall (A : Type) (a b : A), Some a = Some b -> a = b.
Proof. intros A a b E. congruence. Qed.

Lemma cut_app : forall (p q a b : list N), p ++ q = a ++ b ->
  ((length p < length a)%nat /\ exists a2, a = p ++ a2 /\ a2 <> [] /\ q = a2 ++ b) \/
  (exists p', p = a ++ p' /\ b = p' ++ q).
Proof.
  intros p q a b H. apply app_eq_app in H. destruct H as (l & [(H1 & H2) | (H1 & H2)]).
  - right. exists l. split; assumption.
  - destruct l as [|x l].
    + right. exists []. rewrite app_nil_r in H1. subst a. cbn [app] in H2. subst q.
      split; [now rewrite app_nil_r|reflexivity].
    + left. split; [subst a; rewrite app_length; cbn [length]; lia|].
      exists (x :: l). split; [exact H1|]. split; [discriminate|exact H2].
Qed.

Lemma firstn_split_neq : forall (l : list N) k, (k < length l)%nat ->
  l = firstn k l ++ skipn k l /\ skipn k l <> [].
Proof.
  intros l k H. split; [symmetry; apply firstn_skipn|].
  intro E. apply (f_equal (@length N)) in E. rewrite skipn_length in E. cbn [length] in E. lia.
Qed.

(* ------------------------------------------------------------------------------------------ *)
(* N-indexed list helpers of C06's model on short inputs *)

Lemma takeN_short : forall bs n, R.lenN bs < n -> R.takeN n bs = None.
Proof.
  induction bs as [|b t IH]; intros n H; cbn [R.takeN R.lenN] in *.
  - assert (E : (n =? 0) = false) by lia. rewrite E. reflexivity.
  - assert (E : (n =? 0) = false) by lia. rewrite E. rewrite IH by lia. reflexivity.
Qed.

Lemma rdW_short : forall w bs, (length bs < w)%nat -> R.rdW w bs = None.
Proof.
  induction w as [|w IH]; intros bs H; [lia|]. cbn [R.rdW].
  destruct bs as [|b t]; [reflexivity|]. cbn [length] in H. rewrite IH by lia. reflexivity.
Qed.

Lemma rd4_short : forall bs, (length bs < 4)%nat -> BH.rd4 bs = R.Err R.UnexpectedEof.
Proof. intros bs H. unfold BH.rd4. rewrite rdW_short by exact H. reflexivity. Qed.

Lemma firstnN_all : forall bs n, R.lenN bs <= n -> R.firstnN n bs = bs.
Proof.
  induction bs as [|b t IH]; intros n H; cbn [R.firstnN R.lenN] in *.
  - destruct (n =? 0); reflexivity.
  - assert (E : (n =? 0) = false) by lia. rewrite E. rewrite IH by lia. reflexivity.
Qed.

Lemma skipN_all : forall bs n, R.lenN bs <= n -> D.skipN n bs = [].
Proof.
  induction bs as [|b t IH]; intros n H; cbn [D.skipN R.lenN] in *.
  - destruct (n =? 0); reflexivity.
  - assert (E : (n =? 0) = false) by lia. rewrite E. apply IH. lia.
Qed.

Lemma skipN_app_exact : forall a r, D.skipN (R.lenN a) (a ++ r) = r.
Proof.
  intros a r. replace (R.lenN a) with (R.lenN a + 0) by lia.
  rewrite CP.skipN_app_len. apply CP.skipN_0.
Qed.

Lemma leW_len : forall w n, length (R.leW w n) = w.
Proof. induction w as [|w IH]; intros n; cbn [R.leW length]; [reflexivity|]. now rewrite IH. Qed.

(* ------------------------------------------------------------------------------------------ *)
(* BAM: the written header block, cut *)

Lemma read_magic_short : forall p, (length p < 4)%nat -> BH.read_magic p = R.Err R.UnexpectedEof.
Proof.
  intros p H. unfold BH.read_magic. rewrite takeN_short; [reflexivity|].
  rewrite CP.lenN_length. lia.
Qed.

Lemma read_magic_ok : forall r, BH.read_magic (BH.MAGIC ++ r) = R.Ok r.
Proof. intros r. destruct r; reflexivity. Qed.

(* one reference sequence entry, cut *)
Lemma read_bam_ref_cut : forall m b p q, BH.write_bam_ref m = Some b -> b = p ++ q -> q <> [] ->
  BH.read_bam_ref p = R.Err R.UnexpectedEof.
Proof.
  intros m b p q H Hb Hq. unfold BH.write_bam_ref in H.
  destruct (BH.has_nul (SH.sq_name m)) eqn:EN; [discriminate|].
  destruct (R.lenN (SH.sq_name m) + 1 <=? BH.U32_MAXN) eqn:E1; [|discriminate].
  destruct (SH.sq_len m <=? BH.I32_MAX) eqn:E2; [|discriminate].
  apply some_inj in H. subst b. symmetry in Hb.
  unfold BH.read_bam_ref.
  destruct (cut_app _ _ _ _ Hb) as [(Hl & _) | (p1 & Hp & Hb1)].
  { rewrite rd4_short; [reflexivity|]. rewrite leW_len in Hl. exact Hl. }
  subst p. rewrite BHP.rd4_le by lia. symmetry in Hb1.
  replace (SH.sq_name m ++ 0 :: R.leW 4 (SH.sq_len m))
    with ((SH.sq_name m ++ [0]) ++ R.leW 4 (SH.sq_len m)) in Hb1
    by (rewrite <- app_assoc; reflexivity).
  destruct (cut_app _ _ _ _ Hb1) as [(Hl & _) | (p2 & Hp & Hb2)].
  { rewrite takeN_short; [reflexivity|].
    rewrite CP.lenN_length. rewrite app_length in Hl. cbn [length] in Hl.
    rewrite CP.lenN_length. lia. }
  subst p1.
  replace (R.lenN (SH.sq_name m) + 1) with (R.lenN (SH.sq_name m ++ [0]))
    by (rewrite CP.lenN_app; reflexivity).
  rewrite CP.takeN_app. rewrite BHP.cstr_snoc by exact EN.
  symmetry in Hb2. rewrite <- (app_nil_r (R.leW 4 (SH.sq_len m))) in Hb2.
  destruct (cut_app _ _ _ _ Hb2) as [(Hl & _) | (p3 & Hp & Hb3)].
  { rewrite rd4_short; [reflexivity|]. rewrite leW_len in Hl. exact Hl. }
  exfalso. symmetry in Hb3. apply app_eq_nil in Hb3. destruct Hb3 as [_ Hq0]. now apply Hq.
Qed.

Lemma write_bam_ref_nonempty : forall m b, BH.write_bam_ref m = Some b -> (1 <= length b)%nat.
Proof.
  intros m b H. unfold BH.write_bam_ref in H.
  destruct (BH.has_nul (SH.sq_name m)); [discriminate|].
  destruct (R.lenN (SH.sq_name m) + 1 <=? BH.U32_MAXN); [|discriminate].
  destruct (SH.sq_len m <=? BH.I32_MAX); [|discriminate].
  apply some_inj in H. subst b. rewrite app_length. cbn [R.leW length]. lia.
Qed.

(* the reference dictionary, cut: the loop fails with UnexpectedEof *)
Lemma read_bam_refs_cut : forall sq rs, SH.write_all BH.write_bam_ref sq = Some rs ->
  Forall SHP.wf_sq sq -> forall p q, concat rs = p ++ q -> q <> [] ->
  forall fuel acc, (length p < fuel)%nat ->
  BH.read_bam_refs fuel (R.lenN sq) p acc = R.Err R.UnexpectedEof.
Proof.
  induction sq as [|m sq IH]; intros rs H WF p q Hc Hq fuel acc HF; cbn [SH.write_all] in H.
  - apply some_inj in H. subst rs. cbn [concat] in Hc. symmetry in Hc. apply app_eq_nil in Hc.
    destruct Hc as [_ Hq0]. exfalso. now apply Hq.
  - destruct (BH.write_bam_ref m) as [b|] eqn:EB; [|discriminate].
    destruct (SH.write_all BH.write_bam_ref sq) as [rs'|] eqn:ER; [|discriminate].
    apply some_inj in H. subst rs. inversion WF as [|m0 sq0 Wm Wsq]; subst.
    destruct fuel as [|fuel]; [lia|].
    cbn [R.lenN BH.read_bam_refs].
    assert (E0 : (1 + R.lenN sq =? 0) = false) by lia. rewrite E0.
    cbn [concat] in Hc. symmetry in Hc.
    destruct (cut_app _ _ _ _ Hc) as [(Hl & a2 & Ha & Ha2 & _) | (p1 & Hp & Hc1)].
    + rewrite (read_bam_ref_cut m b p a2 EB Ha Ha2). reflexivity.
    + subst p. destruct Wm as [L1 _].
      destruct (BHP.read_bam_ref_written m b p1 L1 EB) as [-> Hb1].
      unfold BHP.ref_pair. replace (1 + R.lenN sq - 1) with (R.lenN sq) by lia.
      apply (IH rs' eq_refl Wsq p1 q Hc1 Hq).
      rewrite app_length in HF. lia.
Qed.

(* what write_bam_header emits *)
Lemma write_bam_header_shape : forall h hb, BH.write_bam_header h = Some hb ->
  exists text rs,
    SH.write_header h = Some text /\ R.lenN text <= BH.I32_MAX /\ R.lenN (SH.h_sq h) <= BH.I32_MAX /\
    SH.write_all BH.write_bam_ref (SH.h_sq h) = Some rs /\
    hb = BH.MAGIC ++ R.leW 4 (R.lenN text) ++ text ++ R.leW 4 (R.lenN (SH.h_sq h)) ++ concat rs.
Proof.
  intros h hb H. unfold BH.write_bam_header in H.
  destruct (SH.write_header h) as [text|] eqn:ET; [|discriminate].
  destruct (R.lenN text <=? BH.I32_MAX) eqn:EL; [|discriminate].
  unfold BH.write_bam_refs in H.
  destruct (R.lenN (SH.h_sq h) <=? BH.I32_MAX) eqn:EN; [|discriminate].
  destruct (SH.write_all BH.write_bam_ref (SH.h_sq h)) as [rs|] eqn:ER; [|discriminate].
  cbn [option_map] in H. apply some_inj in H. exists text, rs.
  split; [reflexivity|]. split; [lia|]. split; [lia|]. split; [reflexivity|]. now subst hb.
Qed.

(* where in the block the cut falls *)
Inductive bam_cut_region : Type := InFixed | InText (partial_text : list N).

(* C06's reader on a strict prefix of a written header block: always an error; InvalidData only
   when the cut is inside the text and the text parser refuses the bytes present *)
Lemma read_bam_header_cut : forall h hb, SHP.wf_header h -> BH.write_bam_header h = Some hb ->
  forall p q, hb = p ++ q -> q <> [] ->
    (BH.read_bam_header p = R.Err R.UnexpectedEof /\
       (bam_short_text p = None \/ exists t, bam_short_text p = Some t /\ BH.read_bam_text t <> None)) \/
    (BH.read_bam_header p = R.Err R.InvalidData /\
       exists t, bam_short_text p = Some t /\ BH.read_bam_text t = None).
Proof.
  intros h hb W H p q Hb Hq.
  destruct (write_bam_header_shape h hb H) as (text & rs & ET & LT & LS & ER & Hhb).
  rewrite Hhb in Hb. symmetry in Hb.
  unfold bam_short_text, BH.read_bam_header.
  (* magic *)
  destruct (cut_app _ _ _ _ Hb) as [(Hl & _) | (p1 & Hp & Hb1)].
  { left. rewrite read_magic_short by exact Hl. split; [reflexivity|left; reflexivity]. }
  subst p. rewrite read_magic_ok. symmetry in Hb1.
  (* l_text *)
  destruct (cut_app _ _ _ _ Hb1) as [(Hl & _) | (p2 & Hp & Hb2)].
  { left. rewrite rd4_short by (rewrite leW_len in Hl; exact Hl). split; [reflexivity|left; reflexivity]. }
  subst p1. rewrite BHP.rd4_le by (unfold BH.I32_MAX, BH.U32_MAXN in *; lia). symmetry in Hb2.
  (* text *)
  destruct (cut_app _ _ _ _ Hb2) as [(Hl & _) | (p3 & Hp & Hb3)].
  { assert (Hlt : (R.lenN p2 <? R.lenN text) = true) by (rewrite !CP.lenN_length; lia).
    rewrite Hlt.
    rewrite firstnN_all by (rewrite !CP.lenN_length; lia).
    rewrite skipN_all by (rewrite !CP.lenN_length; lia).
    destruct (BH.read_bam_text p2) as [h2|] eqn:ERT.
    - left. rewrite rd4_short by (cbn; lia). split; [reflexivity|].
      right. exists p2. split; [reflexivity|]. rewrite ERT. discriminate.
    - right. split; [reflexivity|]. exists p2. split; [reflexivity|exact ERT]. }
  subst p2.
  assert (Hge : (R.lenN (text ++ p3) <? R.lenN text) = false) by (rewrite CP.lenN_app; lia).
  rewrite Hge. left. split; [|left; reflexivity].
  rewrite CP.firstnN_app. rewrite (BHP.read_bam_text_written h text W ET).
  rewrite skipN_app_exact. symmetry in Hb3.
  (* n_ref *)
  destruct (cut_app _ _ _ _ Hb3) as [(Hl & _) | (p4 & Hp & Hb4)].
  { rewrite rd4_short by (rewrite leW_len in Hl; exact Hl). reflexivity. }
  subst p3. rewrite BHP.rd4_le by (unfold BH.I32_MAX, BH.U32_MAXN in *; lia).
  (* references *)
  destruct W as (WH & WS & _).
  rewrite (read_bam_refs_cut (SH.h_sq h) rs ER WS p4 q Hb4 Hq) by lia. reflexivity.
Qed.

(* the whole block followed by anything *)
Lemma bam_short_text_whole : forall h hb rest, BH.write_bam_header h = Some hb ->
  bam_short_text (hb ++ rest) = None.
Proof.
  intros h hb rest H.
  destruct (write_bam_header_shape h hb H) as (text & rs & ET & LT & LS & ER & Hhb).
  subst hb. unfold bam_short_text. rewrite <- !app_assoc. rewrite read_magic_ok.
  rewrite BHP.rd4_le by (unfold BH.I32_MAX, BH.U32_MAXN in *; lia).
  assert (Hge : (R.lenN (text ++ R.leW 4 (R.lenN (SH.h_sq h)) ++ concat rs ++ rest) <? R.lenN text) = false)
    by (rewrite CP.lenN_app; lia).
  rewrite Hge. reflexivity.
Qed.

Theorem bam_header_whole : forall h hb, SHP.wf_header h -> BH.write_bam_header h = Some hb ->
  forall after rest, bam_read_header after (hb ++ rest) = HOk h rest.
Proof.
  intros h hb W H after rest. unfold bam_read_header.
  rewrite (bam_short_text_whole h hb rest H).
  rewrite (BHP.bam_header_roundtrip h hb rest W H).
  destruct after; reflexivity.
Qed.

(* every cut inside a written BAM header is an error, on a source that ends and on a source
   that fails; the error is the source's (UnexpectedEof on a source that ends) except that a cut
   inside the text gives InvalidData when the parser refuses what is there *)
Theorem bam_header_cut : forall h hb, SHP.wf_header h -> BH.write_bam_header h = Some hb ->
  forall after p q, hb = p ++ q -> q <> [] ->
  exists e, bam_read_header after p = HErr e /\
    (e = short after \/ (e = InvalidData /\ exists t, bam_short_text p = Some t)).
Proof.
  intros h hb W H after p q Hb Hq.
  destruct (read_bam_header_cut h hb W H p q Hb Hq) as [(HR & HS) | (HR & t & HS & HT)];
    unfold bam_read_header; rewrite HR.
  - destruct HS as [HS | (t & HS & HT)]; rewrite HS.
    + exists (short after). split; [destruct after; reflexivity|left; reflexivity].
    + destruct after as [|e0].
      * exists UnexpectedEof. split; [reflexivity|left; reflexivity].
      * destruct (BH.run_lines_bam _ _).
        -- exists e0. split; [reflexivity|left; reflexivity].
        -- exists InvalidData. split; [reflexivity|]. right. split; [reflexivity|]. now exists t.
  - rewrite HS. destruct after as [|e0].
    + exists InvalidData. split; [reflexivity|]. right. split; [reflexivity|]. now exists t.
    + destruct (BH.run_lines_bam _ _).
      * exists e0. split; [reflexivity|left; reflexivity].
      * exists InvalidData. split; [reflexivity|]. right. split; [reflexivity|]. now exists t.
Qed.

Corollary bam_header_truncation : forall h hb, SHP.wf_header h -> BH.write_bam_header h = Some hb ->
  forall after k, (k < length hb)%nat ->
  exists e, bam_read_header after (firstn k hb) = HErr e /\ (e = short after \/ e = InvalidData).
Proof.
  intros h hb W H after k Hk. destruct (firstn_split_neq hb k Hk) as (Hs & Hn).
  destruct (bam_header_cut h hb W H after _ _ Hs Hn) as (e & He & [E | (E & _)]).
  - exists e. split; [exact He|left; exact E].
  - exists e. split; [exact He|right; exact E].
Qed.

(* ------------------------------------------------------------------------------------------ *)
(* BCF: the written header block, cut *)

Section BCFProofs.
  Variable St H : Type.
  Variable init : St.
  Variable parse_line : St -> list N -> option St.
  Variable finish : St -> option H.

  Notation bcf_read_header := (bcf_read_header St H init parse_line finish).
  Notation bcf_run_lines := (bcf_run_lines St parse_line).

  (* the block the writer emits for a header text (io/writer/header.rs: magic, version 2.2,
     l_text = |text| + 1, text, NUL) *)
  Definition bcf_header_block (maj min : N) (text : list N) : list N :=
    BCF_MAGIC ++ [maj; min] ++ le32 (N.of_nat (length text) + 1) ++ text ++ [0].

  Lemma take_app_len : forall a rest n, n = N.of_nat (length a) -> take n (a ++ rest) = Some (a, rest).
  Proof. intros a rest n ->. apply take_app. Qed.

  Lemma take_short_len : forall n p, (length p < N.to_nat n)%nat -> take n p = None.
  Proof. intros n p Hl. apply take_short. exact Hl. Qed.

  Lemma bcf_header_cut_text : forall after maj min (text p2 : list N),
    N.of_nat (length text) + 1 < 4294967296 ->
    (length p2 < length text + 1)%nat ->
    exists e, bcf_read_header after (BCF_MAGIC ++ [maj; min] ++ le32 (N.of_nat (length text) + 1) ++ p2) = HErr e /\
      (e = short after \/ e = InvalidData).
  Proof.
    intros after maj min text p2 HL Hl.
    unfold bcf_read_header, Header.bcf_read_header.
    rewrite take_app_len by reflexivity.
    change (negb (bytes_eqb BCF_MAGIC BCF_MAGIC)) with false. cbv iota.
    rewrite (take_app_len [maj; min]) by reflexivity.
    rewrite take_app_len by (rewrite le32_length; reflexivity).
    unfold le32. rewrite le_dec_le_bytes by (change (256 ^ N.of_nat 4) with 4294967296; exact HL).
    assert (Hlt : (R.lenN p2 <? N.of_nat (length text) + 1) = true) by (rewrite CP.lenN_length; lia).
    rewrite Hlt. destruct after as [|e0].
    - destruct (bcf_run_lines _ _).
      + exists UnexpectedEof. split; [reflexivity|left; reflexivity].
      + exists InvalidData. split; [reflexivity|right; reflexivity].
    - destruct (bcf_run_lines _ _).
      + exists e0. split; [reflexivity|left; reflexivity].
      + exists InvalidData. split; [reflexivity|right; reflexivity].
  Qed.

  (* every cut inside a written BCF header is an error, whatever the header parser does *)
  Theorem bcf_header_cut : forall after maj min (text p q : list N),
    N.of_nat (length text) + 1 < 4294967296 ->
    bcf_header_block maj min text = p ++ q -> q <> [] ->
    exists e, bcf_read_header after p = HErr e /\ (e = short after \/ e = InvalidData).
  Proof.
    intros after maj min text p q HL Hb Hq. unfold bcf_header_block in Hb. symmetry in Hb.
    destruct (cut_app _ _ _ _ Hb) as [(Hl & _) | (p1 & Hp & Hb1)].
    { exists (short after). split; [|left; reflexivity].
      unfold bcf_read_header, Header.bcf_read_header.
      rewrite take_short_len by (cbn [BCF_MAGIC length] in Hl; lia). reflexivity. }
    subst p. symmetry in Hb1.
    destruct (cut_app _ _ _ _ Hb1) as [(Hl & _) | (p2 & Hp & Hb2)].
    { exists (short after). split; [|left; reflexivity].
      unfold bcf_read_header, Header.bcf_read_header.
      rewrite take_app_len by reflexivity.
      change (negb (bytes_eqb BCF_MAGIC BCF_MAGIC)) with false. cbv iota.
      rewrite take_short_len by (cbn [length] in Hl; lia). reflexivity. }
    subst p1. symmetry in Hb2.
    destruct (cut_app _ _ _ _ Hb2) as [(Hl & _) | (p3 & Hp & Hb3)].
    { exists (short after). split; [|left; reflexivity].
      unfold bcf_read_header, Header.bcf_read_header.
      rewrite take_app_len by reflexivity.
      change (negb (bytes_eqb BCF_MAGIC BCF_MAGIC)) with false. cbv iota.
      rewrite (take_app_len [maj; min]) by reflexivity.
      rewrite take_short_len by (rewrite le32_length in Hl; lia). reflexivity. }
    subst p2.
    apply (bcf_header_cut_text after maj min text p3 HL).
    apply (f_equal (@length N)) in Hb3. rewrite !app_length in Hb3. cbn [length] in Hb3.
    assert (0 < length q)%nat by (destruct q; [congruence|cbn; lia]). lia.
  Qed.

  (* a header text as the writer emits it: lines that end with LF, contain no other LF, are not
     empty and do not start with NUL (they start with '#'); the parser accepts them in order and
     finish accepts the result *)
  Definition bcf_line_ok (l : list N) : Prop :=
    (exists c r, l = c :: r /\ c <> 0 /\ c <> 10) /\ Forall (fun c => c <> 10) l.

  Definition bcf_text (ls : list (list N)) : list N := concat (map (fun l => l ++ [10]) ls).

  Definition bcf_header_good (ls : list (list N)) (h : H) : Prop :=
    Forall bcf_line_ok ls /\
    exists st, bcf_run_lines (map (fun l => (l, true)) ls) init = Some st /\ finish st = Some h.

  Lemma visible_false_line : forall r rest, Forall (fun c => c <> 10) r ->
    BH.visible false (r ++ 10 :: rest) = r ++ 10 :: BH.visible true rest.
  Proof. exact BHP.visible_false_app. Qed.

  Lemma visible_bcf_text : forall ls, Forall bcf_line_ok ls ->
    BH.visible true (bcf_text ls ++ [0]) = bcf_text ls.
  Proof.
    induction 1 as [|l ls ((c & r & E & Hc0 & Hc10) & H10) _ IH]; [reflexivity|].
    subst l. unfold bcf_text in *. cbn [map concat]. rewrite <- !app_assoc. cbn [app BH.visible].
    assert (E0 : (c =? 0) = false) by lia. rewrite E0. cbn [andb].
    assert (E10 : (c =? 10) = false) by lia. rewrite E10.
    inversion H10 as [|c0 r0 _ Hr]; subst.
    rewrite visible_false_line by exact Hr. rewrite IH. reflexivity.
  Qed.

  Lemma split_lf_bcf_text : forall ls, Forall bcf_line_ok ls ->
    SH.split_lf (bcf_text ls) = map (fun l => (l, true)) ls.
  Proof.
    induction 1 as [|l ls (_ & H10) _ IH]; [reflexivity|].
    unfold bcf_text in *. cbn [map concat]. rewrite <- app_assoc. cbn [app].
    rewrite SHP.split_lf_app by exact H10. now rewrite IH.
  Qed.

  Theorem bcf_header_whole : forall after maj min ls h rest,
    N.of_nat (length (bcf_text ls)) + 1 < 4294967296 ->
    bcf_header_good ls h ->
    bcf_read_header after (bcf_header_block maj min (bcf_text ls) ++ rest) = HOk h rest.
  Proof.
    intros after maj min ls h rest HL (LO & st & HR & HF).
    unfold bcf_header_block. rewrite <- !app_assoc.
    unfold bcf_read_header, Header.bcf_read_header.
    rewrite take_app_len by reflexivity.
    change (negb (bytes_eqb BCF_MAGIC BCF_MAGIC)) with false. cbv iota.
    rewrite (take_app_len [maj; min]) by reflexivity.
    rewrite take_app_len by (rewrite le32_length; reflexivity).
    unfold le32. rewrite le_dec_le_bytes by (change (256 ^ N.of_nat 4) with 4294967296; exact HL).
    set (text := bcf_text ls) in *.
    assert (Hlen : N.of_nat (length text) + 1 = R.lenN (text ++ [0])).
    { rewrite CP.lenN_length, app_length. cbn [length]. lia. }
    rewrite Hlen.
    replace (text ++ [0] ++ rest) with ((text ++ [0]) ++ rest) by (rewrite <- app_assoc; reflexivity).
    assert (Hge : (R.lenN ((text ++ [0]) ++ rest) <? R.lenN (text ++ [0])) = false)
      by (rewrite (CP.lenN_app _ (text ++ [0])); lia).
    rewrite Hge. rewrite CP.firstnN_app. rewrite skipN_app_exact.
    unfold text. rewrite visible_bcf_text by exact LO. rewrite split_lf_bcf_text by exact LO.
    rewrite HR, HF. destruct after; reflexivity.
  Qed.
End BCFProofs.

(* ------------------------------------------------------------------------------------------ *)
(* header + records, cut anywhere *)

Section FileProofs.
  Variable H A : Type.
  Variable hdr : stop -> list N -> hres H.
  Variable rd : stop -> list N -> step A.
  Variable hb : list N.
  Variable h : H.
  Hypothesis hdr_whole : forall after rest, hdr after (hb ++ rest) = HOk h rest.
  Hypothesis hdr_cut : forall after p q, hb = p ++ q -> q <> [] -> exists e, hdr after p = HErr e.

  (* the file reader on every prefix of header block ++ payload: an error and no item while the
     cut is inside the header; from the end of the header on, the written header and the record
     reader's result on the delivered part of the payload *)
  Theorem file_truncation : forall after payload k,
    ((k < length hb)%nat ->
       exists e, hdr after (firstn k hb) = HErr e /\
         file_read hdr rd after (firstn k (hb ++ payload)) = (None, ([], Err e))) /\
    ((length hb <= k)%nat ->
       file_read hdr rd after (firstn k (hb ++ payload)) =
         (Some h, read_stream (rd after) (firstn (k - length hb) payload))).
  Proof.
    intros after payload k. split; intro Hk.
    - destruct (firstn_split_neq hb k Hk) as (Hs & Hn).
      destruct (hdr_cut after _ _ Hs Hn) as (e & He). exists e. split; [exact He|].
      unfold file_read. rewrite firstn_app_lt by lia. rewrite He. reflexivity.
    - unfold file_read. rewrite firstn_app_ge by exact Hk. rewrite hdr_whole. reflexivity.
  Qed.

  (* the same through the BGZF layer: the file reader sees the data of the frames wholly inside
     the cut and then the BGZF layer's outcome s *)
  Theorem file_over_bgzf_truncation : forall (inflate : list N -> option (list N)) fs payload k,
    Forall (frame_good inflate) fs ->
    concat (map (frame_data inflate) fs) = hb ++ payload ->
    exists (j : nat) (s : stop),
      bgzf_blocks inflate (firstn k (bgzf_file fs)) = (map (frame_data inflate) (firstn j fs), s) /\
      (s = Eof \/ s = Err UnexpectedEof) /\
      let n := length (concat (map (frame_data inflate) (firstn j fs))) in
      (n <= length (hb ++ payload))%nat /\ (j = length fs -> n = length (hb ++ payload)) /\
      file_over_bgzf inflate hdr rd (firstn k (bgzf_file fs)) =
        file_read hdr rd s (firstn n (hb ++ payload)).
  Proof.
    intros inflate fs payload k Hg Hcat.
    destruct (bgzf_truncation inflate fs k Hg) as (j & Hj & _ & _ & Hb).
    eexists j, _. split; [exact Hb|]. split.
    { destruct ((j <? length fs)%nat && negb (k - length (bgzf_file (firstn j fs)) <? 18)%nat); auto. }
    cbn zeta.
    pose proof (concat_map_firstn_prefix fs (frame_data inflate) j) as Hp. rewrite Hcat in Hp.
    split; [|split].
    - rewrite Hp at 1. rewrite firstn_length. lia.
    - intro Ej. subst j. rewrite firstn_all. now rewrite Hcat.
    - unfold file_over_bgzf. rewrite Hb. rewrite <- Hp. reflexivity.
  Qed.
End FileProofs.

(* ------------------------------------------------------------------------------------------ *)
(* instances: BAM and BCF files *)

Lemma bam_header_cut_any : forall h hb, SHP.wf_header h -> BH.write_bam_header h = Some hb ->
  forall after p q, hb = p ++ q -> q <> [] -> exists e, bam_read_header after p = HErr e.
Proof.
  intros h hb W H after p q Hb Hq.
  destruct (bam_header_cut h hb W H after p q Hb Hq) as (e & He & _). now exists e.
Qed.

(* a BAM file (uncompressed stream) = written header block ++ written records, cut at k: an
   error and no record while the cut is inside the header; behind it the written header and the
   records wholly inside the cut, then [after] at a record boundary and an error inside a record *)
Theorem bam_file_truncation : forall h hb rs after k,
  SHP.wf_header h -> BH.write_bam_header h = Some hb -> Forall bam_good rs ->
  let file := hb ++ bam_encode rs in
  ((k < length hb)%nat ->
     exists e, file_read bam_read_header bam_read_record after (firstn k file) = (None, ([], Err e)) /\
               (e = short after \/ e = InvalidData)) /\
  ((length hb <= k)%nat ->
     exists j : nat,
       (j <= length rs)%nat /\
       (length hb + length (bam_encode (firstn j rs)) <= k)%nat /\
       (j < length rs -> k < length hb + length (bam_encode (firstn (S j) rs)))%nat /\
       file_read bam_read_header bam_read_record after (firstn k file) =
         (Some h, (firstn j rs,
                   if (j <? length rs)%nat && negb (k =? length hb + length (bam_encode (firstn j rs)))%nat
                   then Err (short after) else after))).
Proof.
  intros h hb rs after k W H Hg file.
  destruct (file_truncation _ _ bam_read_header bam_read_record hb h
              (bam_header_whole h hb W H) (bam_header_cut_any h hb W H) after (bam_encode rs) k)
    as (F1 & F2).
  split; intro Hk.
  - destruct (F1 Hk) as (e & He & Hf). exists e. split; [exact Hf|].
    destruct (bam_header_truncation h hb W H after k Hk) as (e' & He' & Hc).
    rewrite He in He'. injection He' as <-. exact Hc.
  - destruct (bam_stream_truncation after rs (k - length hb) Hg) as (j & J1 & J2 & J3 & J4).
    exists j. split; [exact J1|]. split; [lia|]. split; [intro Hj; specialize (J3 Hj); lia|].
    unfold file. rewrite (F2 Hk), J4. f_equal. f_equal.
    destruct (j <? length rs)%nat; [|reflexivity]. cbn [andb].
    destruct (k - length hb =? length (bam_encode (firstn j rs)))%nat eqn:E1;
      destruct (k =? length hb + length (bam_encode (firstn j rs)))%nat eqn:E2; try reflexivity; lia.
Qed.

Theorem bam_file_over_bgzf_truncation : forall (inflate : list N -> option (list N)) h hb rs fs k,
  SHP.wf_header h -> BH.write_bam_header h = Some hb ->
  Forall (frame_good inflate) fs ->
  concat (map (frame_data inflate) fs) = hb ++ bam_encode rs ->
  exists (j : nat) (s : stop),
    bgzf_blocks inflate (firstn k (bgzf_file fs)) = (map (frame_data inflate) (firstn j fs), s) /\
    (s = Eof \/ s = Err UnexpectedEof) /\
    let n := length (concat (map (frame_data inflate) (firstn j fs))) in
    (n <= length (hb ++ bam_encode rs))%nat /\ (j = length fs -> n = length (hb ++ bam_encode rs)) /\
    file_over_bgzf inflate bam_read_header bam_read_record (firstn k (bgzf_file fs)) =
      file_read bam_read_header bam_read_record s (firstn n (hb ++ bam_encode rs)).
Proof.
  intros inflate h hb rs fs k W H Hg Hcat.
  exact (file_over_bgzf_truncation _ _ bam_read_header bam_read_record hb h
           (bam_header_whole h hb W H) (bam_header_cut_any h hb W H) inflate fs (bam_encode rs) k Hg Hcat).
Qed.

Section BCFFile.
  Variable St H : Type.
  Variable init : St.
  Variable parse_line : St -> list N -> option St.
  Variable finish : St -> option H.
  Variable site_ok : list N -> option ekind.

  Notation bcf_hdr := (bcf_read_header St H init parse_line finish).

  Lemma bcf_header_cut_any : forall maj min text,
    N.of_nat (length text) + 1 < 4294967296 ->
    forall after p q, bcf_header_block maj min text = p ++ q -> q <> [] ->
    exists e, bcf_hdr after p = HErr e.
  Proof.
    intros maj min text HL after p q Hb Hq.
    destruct (bcf_header_cut St H init parse_line finish after maj min text p q HL Hb Hq) as (e & He & _).
    now exists e.
  Qed.

  Theorem bcf_header_truncation : forall maj min (text : list N) after k,
    N.of_nat (length text) + 1 < 4294967296 ->
    (k < length (bcf_header_block maj min text))%nat ->
    exists e, bcf_hdr after (firstn k (bcf_header_block maj min text)) = HErr e /\
              (e = short after \/ e = InvalidData).
  Proof.
    intros maj min text after k HL Hk.
    destruct (firstn_split_neq _ k Hk) as (Hs & Hn).
    exact (bcf_header_cut St H init parse_line finish after maj min text _ _ HL Hs Hn).
  Qed.

  Theorem bcf_file_truncation : forall maj min ls h rs after k,
    N.of_nat (length (bcf_text ls)) + 1 < 4294967296 ->
    bcf_header_good St H init parse_line finish ls h -> Forall (bcf_good site_ok) rs ->
    let hb := bcf_header_block maj min (bcf_text ls) in
    let file := hb ++ bcf_encode rs in
    ((k < length hb)%nat ->
       exists e, file_read bcf_hdr (bcf_read_record site_ok) after (firstn k file) = (None, ([], Err e)) /\
                 (e = short after \/ e = InvalidData)) /\
    ((length hb <= k)%nat ->
       exists j : nat,
         (j <= length rs)%nat /\
         (length hb + length (bcf_encode (firstn j rs)) <= k)%nat /\
         (j < length rs -> k < length hb + length (bcf_encode (firstn (S j) rs)))%nat /\
         file_read bcf_hdr (bcf_read_record site_ok) after (firstn k file) =
           (Some h, (firstn j rs,
                     if (j <? length rs)%nat && negb (k =? length hb + length (bcf_encode (firstn j rs)))%nat
                     then Err (short after) else after))).
  Proof.
    intros maj min ls h rs after k HL HG Hg hb file.
    destruct (file_truncation _ _ bcf_hdr (bcf_read_record site_ok) hb h
                (fun a r => bcf_header_whole St H init parse_line finish a maj min ls h r HL HG)
                (bcf_header_cut_any maj min (bcf_text ls) HL) after (bcf_encode rs) k)
      as (F1 & F2).
    split; intro Hk.
    - destruct (F1 Hk) as (e & He & Hf). exists e. split; [exact Hf|].
      destruct (bcf_header_truncation maj min (bcf_text ls) after k HL Hk) as (e' & He' & Hc).
      fold hb in He'. rewrite He in He'. injection He' as <-. exact Hc.
    - destruct (bcf_stream_truncation site_ok after rs (k - length hb) Hg) as (j & J1 & J2 & J3 & J4).
      exists j. split; [exact J1|]. split; [lia|]. split; [intro Hj; specialize (J3 Hj); lia|].
      unfold file. rewrite (F2 Hk), J4. f_equal. f_equal.
      destruct (j <? length rs)%nat; [|reflexivity]. cbn [andb].
      destruct (k - length hb =? length (bcf_encode (firstn j rs)))%nat eqn:E1;
        destruct (k =? length hb + length (bcf_encode (firstn j rs)))%nat eqn:E2; try reflexivity; lia.
  Qed.

  Theorem bcf_file_over_bgzf_truncation : forall (inflate : list N -> option (list N)) maj min ls h rs fs k,
    N.of_nat (length (bcf_text ls)) + 1 < 4294967296 ->
    bcf_header_good St H init parse_line finish ls h ->
    Forall (frame_good inflate) fs ->
    let hb := bcf_header_block maj min (bcf_text ls) in
    concat (map (frame_data inflate) fs) = hb ++ bcf_encode rs ->
    exists (j : nat) (s : stop),
      bgzf_blocks inflate (firstn k (bgzf_file fs)) = (map (frame_data inflate) (firstn j fs), s) /\
      (s = Eof \/ s = Err UnexpectedEof) /\
      let n := length (concat (map (frame_data inflate) (firstn j fs))) in
      (n <= length (hb ++ bcf_encode rs))%nat /\ (j = length fs -> n = length (hb ++ bcf_encode rs)) /\
      file_over_bgzf inflate bcf_hdr (bcf_read_record site_ok) (firstn k (bgzf_file fs)) =
        file_read bcf_hdr (bcf_read_record site_ok) s (firstn n (hb ++ bcf_encode rs)).
  Proof.
    intros inflate maj min ls h rs fs k HL HG Hg hb Hcat.
    exact (file_over_bgzf_truncation _ _ bcf_hdr (bcf_read_record site_ok) hb h
             (fun a r => bcf_header_whole St H init parse_line finish a maj min ls h r HL HG)
             (bcf_header_cut_any maj min (bcf_text ls) HL) inflate fs (bcf_encode rs) k Hg Hcat).
  Qed.
End BCFFile.

(* ------------------------------------------------------------------------------------------ *)
(* any header reader and record reader behind the BGZF layer *)
Theorem file_over_bgzf_any :
  forall (H A : Type) (hdr : stop -> list N -> hres H) (rd : stop -> list N -> step A)
         (inflate : list N -> option (list N)) fs (stream : list N) k,
    Forall (frame_good inflate) fs ->
    concat (map (frame_data inflate) fs) = stream ->
    exists (j : nat) (s : stop),
      bgzf_blocks inflate (firstn k (bgzf_file fs)) = (map (frame_data inflate) (firstn j fs), s) /\
      (s = Eof \/ s = Err UnexpectedEof) /\
      let n := length (concat (map (frame_data inflate) (firstn j fs))) in
      (n <= length stream)%nat /\ (j = length fs -> n = length stream) /\
      file_over_bgzf inflate hdr rd (firstn k (bgzf_file fs)) = file_read hdr rd s (firstn n stream).
Proof.
  intros H A hdr rd inflate fs stream k Hg Hcat.
  destruct (bgzf_truncation inflate fs k Hg) as (j & Hj & _ & _ & Hb).
  eexists j, _. split; [exact Hb|]. split.
  { destruct ((j <? length fs)%nat && negb (k - length (bgzf_file (firstn j fs)) <? 18)%nat); auto. }
  cbn zeta.
  pose proof (concat_map_firstn_prefix fs (frame_data inflate) j) as Hp. rewrite Hcat in Hp.
  split; [|split].
  - rewrite Hp at 1. rewrite firstn_length. lia.
  - intro Ej. subst j. rewrite firstn_all. now rewrite Hcat.
  - unfold file_over_bgzf. rewrite Hb. rewrite <- Hp. reflexivity.
Qed.
