(* C13 -- error KINDS of a read program on a truncated stream, and the BAI reader as instance.

   C12's read programs (NV.Io.Prog) carry the io::ErrorKind of every failure.  A program is
   [strict] when every read in it is a read_exact: the continuation of each `Fill n` fails with
   UnexpectedEof as soon as it is handed fewer than n bytes (std read_exact on a source that
   ended), and no Take / read_until occurs.  For a strict program

       a run that SUCCEEDS on d  ==>  on every prefix of d the run either succeeds or fails with
                                      UnexpectedEof -- InvalidData (or any other kind) is
                                      impossible on a prefix of accepted bytes

   ([strict_prefix_kind]).  The BAI reader (noodles-bam/src/bai/io/reader/index.rs read_index =
   NV.Io.IndexProg.p_bai) is a strict program (magic number, n_ref, the references: read_bins with
   its InvalidData exits for a bad chunk count / duplicate bin / second metadata bin,
   read_intervals) followed by the ONE non-strict read, the optional trailing
   n_no_coor (read_u64_le whose UnexpectedEof the caller turns into None), which never fails.
   With NV.Trunc.BaiProofs.bai_truncation (every cut below the end of the references is refused)
   this gives the kind: UnexpectedEof, exactly ([bai_cut_kind]). *)
From Coq Require Import List NArith Arith Bool Lia.
From NV Require Import Base.LE Trunc.Stream Io.Prog Io.ProgProofs Io.IndexProg Io.IndexProgProofs.
From NV Require Import Index.Layout Index.LayoutProofs Trunc.BaiProofs.
Import ListNotations.
Local Open Scope nat_scope.

Fixpoint strict {A : Type} (p : prog A) : Prop :=
  match p with
  | Ret _ => True
  | Fail _ => True
  | Fill n k => (forall bs, length bs < n -> k bs = Fail UnexpectedEof) /\ (forall bs, strict (k bs))
  | Take _ _ => False
  | Until _ _ => False
  end.

Lemma strict_bind : forall (A B : Type) (p : prog A) (f : A -> prog B),
  strict p -> (forall a, strict (f a)) -> strict (bind p f).
Proof.
  intros A B p f Hp Hf. induction p as [a|e|n k IH|n k IH|b k IH]; cbn [bind strict] in *.
  - apply Hf.
  - exact I.
  - destruct Hp as [Hs Hk]. split.
    + intros bs Hb. rewrite (Hs bs Hb). reflexivity.
    + intros bs. apply IH. apply Hk.
  - contradiction.
  - contradiction.
Qed.

Lemma strict_p_exact : forall n, strict (p_exact n).
Proof.
  intros n. unfold p_exact. cbn [strict]. split.
  - intros bs Hb. apply Nat.ltb_lt in Hb. rewrite Hb. reflexivity.
  - intros bs. destruct (length bs <? n); exact I.
Qed.

Lemma strict_p_le : forall k, strict (Prog.p_le k).
Proof. intros k. unfold Prog.p_le. apply strict_bind; [apply strict_p_exact|]. intros bs. exact I. Qed.

Lemma strict_iter_pos : forall (St : Type) (step : St -> prog St) x,
  (forall s, strict (step s)) -> forall s, strict (p_iter_pos x step s).
Proof.
  intros St step x Hs. induction x as [x IH|x IH|]; intros s; cbn [p_iter_pos].
  - apply strict_bind; [apply Hs|]. intros s1. apply strict_bind; [apply IH|apply IH].
  - apply strict_bind; [apply IH|apply IH].
  - apply Hs.
Qed.

Lemma strict_iter : forall (St : Type) (step : St -> prog St) n,
  (forall s, strict (step s)) -> forall s, strict (p_iter n step s).
Proof. intros St step n Hs s. destruct n as [|x]; [exact I|]. apply strict_iter_pos. exact Hs. Qed.

Lemma strict_rep : forall (A : Type) (p : prog A) n, strict p -> strict (p_rep n p).
Proof.
  intros A p n Hp. unfold p_rep. apply strict_bind; [|intros a; exact I].
  apply strict_iter. intros acc. apply strict_bind; [exact Hp|]. intros x. exact I.
Qed.

(* THE GENERAL THEOREM: the only error a strict program reports on a prefix of bytes it accepts
   is UnexpectedEof *)
Theorem strict_prefix_kind : forall (A : Type) (p : prog A), strict p ->
  forall d a, fst (run_pure p d) = RVal a ->
  forall j e, fst (run_pure p (firstn j d)) = RErr e -> e = UnexpectedEof.
Proof.
  intros A p. induction p as [a0|e0|n k IH|n k IH|b k IH]; intros Hs d a Hd j e Hj;
    cbn [run_pure strict fst] in *.
  - discriminate.
  - discriminate.
  - destruct Hs as [Hsh Hk].
    destruct (Nat.ltb (length d) n) eqn:E.
    + apply Nat.ltb_lt in E. rewrite (Hsh (firstn n d)) in Hd by (rewrite firstn_length; lia).
      cbn in Hd. discriminate.
    + apply Nat.ltb_ge in E.
      destruct (Nat.ltb j n) eqn:Ej.
      * apply Nat.ltb_lt in Ej.
        rewrite (Hsh (firstn n (firstn j d))) in Hj by (rewrite !firstn_length; lia).
        cbn in Hj. congruence.
      * apply Nat.ltb_ge in Ej.
        rewrite firstn_firstn in Hj. rewrite (Nat.min_l n j) in Hj by lia.
        rewrite skipn_firstn_comm in Hj.
        eapply (IH (firstn n d) (Hk _) (skipn n d) a Hd (j - n) e). exact Hj.
  - contradiction.
  - contradiction.
Qed.

(* ---------------- the BAI reader ---------------- *)
Lemma strict_g_chunk : strict g_chunk.
Proof.
  unfold g_chunk. apply strict_bind; [apply strict_p_le|]. intros a.
  apply strict_bind; [apply strict_p_le|]. intros b. exact I.
Qed.

Lemma strict_g_chunks : strict g_chunks.
Proof.
  unfold g_chunks. apply strict_bind; [apply strict_p_le|]. intros n.
  destruct (n <? 2147483648)%N; [apply strict_rep; apply strict_g_chunk|exact I].
Qed.

Lemma strict_g_metadata : strict g_metadata.
Proof.
  unfold g_metadata. apply strict_bind; [apply strict_p_le|]. intros n.
  destruct (n =? 2)%N; [|exact I].
  repeat (apply strict_bind; [apply strict_p_le|]; intros ?). exact I.
Qed.

Lemma strict_g_bin_step : forall st, strict (g_bin_step st).
Proof.
  intros st. unfold g_bin_step. apply strict_bind; [apply strict_p_le|]. intros id.
  destruct (id =? bai_metadata_id)%N.
  - apply strict_bind; [apply strict_g_metadata|]. intros md. destruct (snd st); exact I.
  - apply strict_bind; [apply strict_g_chunks|]. intros cs.
    match goal with |- context [existsb ?f ?l] => destruct (existsb f l) end; exact I.
Qed.

Lemma strict_g_bai_ref : strict g_bai_ref.
Proof.
  unfold g_bai_ref. apply strict_bind.
  - unfold g_bins. apply strict_bind; [apply strict_p_le|]. intros n. unfold g_bins_n.
    apply strict_bind; [|intros s; exact I]. apply strict_iter. apply strict_g_bin_step.
  - intros bm. apply strict_bind; [|intros iv; exact I].
    unfold g_intervals. apply strict_bind; [apply strict_p_le|]. intros n.
    apply strict_rep. apply strict_p_le.
Qed.

(* read_magic_number + read_reference_sequences: everything of read_index in front of the
   optional trailing count *)
Definition p_bai_refs : prog (list bai_ref) :=
  bind (p_exact 4) (fun mg =>
    if bytes_eqb mg bai_magic then bind (Prog.p_le 4) (fun n => p_rep n g_bai_ref)
    else Fail InvalidData).

Lemma strict_p_bai_refs : strict p_bai_refs.
Proof.
  unfold p_bai_refs. apply strict_bind; [apply strict_p_exact|]. intros mg.
  destruct (bytes_eqb mg bai_magic); [|exact I].
  apply strict_bind; [apply strict_p_le|]. intros n. apply strict_rep. apply strict_g_bai_ref.
Qed.

(* read_index = the strict part, then the optional count, which cannot fail *)
Lemma p_bai_split : forall d,
  run_pure p_bai d =
  match run_pure p_bai_refs d with
  | (RVal refs, r) =>
      run_pure (bind (p_exact_opt 8) (fun o => Ret (mkbai refs (option_map le_dec o)))) r
  | (RErr e, r) => (RErr e, r)
  end.
Proof.
  intros d. unfold p_bai, p_bai_refs. rewrite !run_pure_bind.
  destruct (run_pure (p_exact 4) d) as [[mg|e] r]; [|reflexivity].
  destruct (bytes_eqb mg bai_magic); [|reflexivity].
  rewrite !run_pure_bind.
  destruct (run_pure (Prog.p_le 4) r) as [[n|e] r1]; [|reflexivity].
  rewrite run_pure_bind. reflexivity.
Qed.

Lemma p_bai_tail_ok : forall refs r, exists i,
  fst (run_pure (bind (p_exact_opt 8) (fun o => Ret (mkbai refs (option_map le_dec o)))) r) = RVal i.
Proof. intros refs r. unfold p_exact_opt. cbn [bind run_pure fst]. eexists. reflexivity. Qed.

(* the kinds of read_index on ANY bytes d accepted by it: on a prefix, Ok or UnexpectedEof *)
Theorem bai_prefix_kind : forall d i, fst (run_pure p_bai d) = RVal i ->
  forall j e, fst (run_pure p_bai (firstn j d)) = RErr e -> e = UnexpectedEof.
Proof.
  intros d i Hd j e Hj. rewrite p_bai_split in Hd, Hj.
  destruct (run_pure p_bai_refs d) as [[refs|e0] r] eqn:Ed; [|cbn in Hd; discriminate].
  destruct (run_pure p_bai_refs (firstn j d)) as [[refs'|e1] r'] eqn:Ej.
  - destruct (p_bai_tail_ok refs' r') as [i' Hi']. rewrite Hi' in Hj. discriminate.
  - cbn [fst] in Hj. injection Hj as <-.
    eapply (strict_prefix_kind _ p_bai_refs strict_p_bai_refs d refs).
    + rewrite Ed. reflexivity.
    + rewrite Ej. reflexivity.
Qed.

(* THE BAI THEOREM with kinds.  For every well-formed index i and every cut k of the file written
   for it:
   - below the end of the reference section the reader fails with UnexpectedEof (never
     InvalidData, never Ok);
   - THE DOCUMENTED EXCEPTION: from the end of the references up to one byte short of the file
     (possible only when n_no_coor was written: 0..7 of its 8 bytes are present) the reader
     returns Ok with the same references and the count absent;
   - on the whole file it returns i. *)
Theorem bai_cut_kind : forall i k, bai_ok i ->
  let file := w_bai i in
  let base := length (w_bai (mkbai (bi_refs i) None)) in
  (k < base -> fst (run_pure p_bai (firstn k file)) = RErr UnexpectedEof) /\
  (base <= k < length file -> fst (run_pure p_bai (firstn k file)) = RVal (mkbai (bi_refs i) None)) /\
  (length file <= k -> fst (run_pure p_bai (firstn k file)) = RVal i).
Proof.
  intros i k Hok. cbn zeta.
  destruct (bai_truncation i k Hok) as (H1 & H2 & H3).
  assert (Hv : forall d x, read_bai d = Some x -> fst (run_pure p_bai d) = RVal x).
  { intros d x Hx. rewrite <- p_bai_is_read_bai in Hx. unfold opt_of in Hx.
    destruct (run_pure p_bai d) as [[a|e] r]; [injection Hx as <-; reflexivity|discriminate]. }
  split; [|split].
  - intros Hk. specialize (H1 Hk). rewrite <- p_bai_is_read_bai in H1. unfold opt_of in H1.
    destruct (run_pure p_bai (firstn k (w_bai i))) as [[a|e] r] eqn:E; [discriminate|].
    cbn [fst]. f_equal.
    eapply (bai_prefix_kind (w_bai i) i).
    + apply Hv. apply bai_roundtrip. exact Hok.
    + rewrite E. reflexivity.
  - intros Hk. apply Hv. apply H2. exact Hk.
  - intros Hk. apply Hv. apply H3. exact Hk.
Qed.

(* every cut of a written BAI file, in order: the observable the correspondence check compares *)
Inductive bai_obs : Type := BOk (i : bai_index) | BErr (e : ekind).
Definition read_bai_k (d : list N) : bai_obs :=
  match fst (run_pure p_bai d) with RVal i => BOk i | RErr e => BErr e end.
Definition bai_cuts_k (file : list N) : list bai_obs :=
  map (fun k => read_bai_k (firstn k file)) (seq 0 (S (length file))).

(* non-vacuity: both kinds occur -- UnexpectedEof on a cut, InvalidData on a wrong magic number and
   on a duplicate bin --, and the optional field in action *)
Example bai_kind_example :
  let i := mkbai [mkbref [] None []] (Some 7%N) in
  read_bai_k (firstn 3 (w_bai i)) = BErr UnexpectedEof /\
  read_bai_k (firstn 15 (w_bai i)) = BErr UnexpectedEof /\
  read_bai_k (firstn 16 (w_bai i)) = BOk (mkbai [mkbref [] None []] None) /\
  read_bai_k (firstn 23 (w_bai i)) = BOk (mkbai [mkbref [] None []] None) /\
  read_bai_k (w_bai i) = BOk i /\
  read_bai_k [66; 65; 73; 2]%N = BErr InvalidData /\
  read_bai_k ([66; 65; 73; 1] ++ le32 1 ++ le32 2 ++ le32 5 ++ le32 0 ++ le32 5 ++ le32 0)%N
    = BErr InvalidData.
Proof. vm_compute. repeat split. Qed.
