(* C05 proofs, fifth part: the typed lazy data view (Data::iter / Data::get of record/data.rs with
   the lazy field decoders, model Lazy.lz_value / lz_fields / data_get) yields exactly the fields
   the eager decoder reads before its CG resolution, and Sequence::get / len (Lazy.lzp_seq_get)
   agree with the eagerly decoded sequence. *)
From Coq Require Import List NArith ZArith Bool Lia ZifyBool ZifyNat ZifyN.
From NV Require Import Bam.Record Bam.Encode Bam.Decode Bam.Lazy Bam.CodecProofs Bam.AuxProofs
  Bam.LazyProofs Bam.LazyCigarProofs.
Import ListNotations.
Open Scope N_scope.
Ltac Zify.zify_post_hook ::= Z.div_mod_to_equations.
Arguments N.add : simpl never.
Arguments N.sub : simpl never.
Arguments N.mul : simpl never.
Arguments N.div : simpl never.
Arguments N.modulo : simpl never.
Arguments N.pow : simpl never.

(* ---------- arrays: element-wise decode of the stream = decode of the raw buffer ---------- *)
Lemma rdW_app : forall w pre v x, rdW w pre = Some (v, []) -> rdW w (pre ++ x) = Some (v, x).
Proof.
  induction w as [|w IH]; intros pre v x H; cbn [rdW] in H.
  - injection H as Hv Hp. subst v pre. reflexivity.
  - destruct pre as [|b pre]; [discriminate H|].
    destruct (rdW w pre) as [[v' r']|] eqn:E; [|discriminate H]. injection H as Hv Hr. subst v r'.
    cbn [app rdW]. rewrite (IH _ _ x E). reflexivity.
Qed.

Lemma elems_buf : forall fuel w sg cnt bs vs r,
  dec_elems fuel w sg cnt bs = Ok (vs, r) ->
  exists buf, takeN (cnt * N.of_nat w) bs = Some (buf, r) /\ lenN buf = cnt * N.of_nat w /\
    forall fuel', (N.to_nat cnt <= fuel')%nat -> dec_elems fuel' w sg cnt buf = Ok (vs, []).
Proof.
  induction fuel as [|fuel IH]; intros w sg cnt bs vs r H; cbn [dec_elems] in H.
  - destruct (cnt =? 0) eqn:E; [|discriminate H]. injection H as Hv Hr. subst vs r.
    exists []. replace (cnt * N.of_nat w) with 0 by lia. rewrite takeN_0. repeat split.
    intros fuel' _. destruct fuel'; cbn [dec_elems]; rewrite E; reflexivity.
  - destruct (cnt =? 0) eqn:E.
    + injection H as Hv Hr. subst vs r.
      exists []. replace (cnt * N.of_nat w) with 0 by lia. rewrite takeN_0. repeat split.
      intros fuel' _. destruct fuel'; cbn [dec_elems]; rewrite E; reflexivity.
    + unfold dec_num, rd in H. destruct (rdW w bs) as [[n r1]|] eqn:Er; cbn [bindr] in H; [|discriminate H].
      destruct (dec_elems fuel w sg (cnt - 1) r1) as [[vs' r']|] eqn:Ee; cbn [bindr] in H; [|discriminate H].
      injection H as Hv Hr. subst vs r'.
      destruct (IH _ _ _ _ _ _ Ee) as (buf' & Ht' & Hl' & Hd').
      destruct (rdW_take _ _ _ _ Er) as (pre & Htp & Hlp & Hrp).
      exists (pre ++ buf').
      assert (Hmul : cnt * N.of_nat w = N.of_nat w + (cnt - 1) * N.of_nat w).
      { replace cnt with (1 + (cnt - 1)) at 1 by lia. rewrite N.mul_add_distr_r. lia. }
      rewrite Hmul. rewrite (takeN_add _ _ _ _ _ _ _ Htp Ht').
      split; [reflexivity|]. split; [rewrite lenN_app; lia|].
      intros fuel' Hf. destruct fuel' as [|fuel']; [lia|].
      cbn [dec_elems]. rewrite E. unfold dec_num, rd. rewrite (rdW_app _ _ _ buf' Hrp). cbn [bindr].
      rewrite Hd' by lia. reflexivity.
Qed.

(* ---------- one value ---------- *)
Lemma lz_value_eq : forall ty bs v r, dec_value ty bs = Ok (v, r) -> lz_value ty bs = Ok (v, r).
Proof.
  intros ty bs v r H. unfold lz_value. destruct (ty =? tyB) eqn:Eb.
  - apply N.eqb_eq in Eb. subst ty.
    unfold dec_value in H. change (num_width tyB) with (@None (nat * bool)) in H. cbv iota in H.
    change ((tyB =? tyZ) || (tyB =? tyH)) with false in H. cbv iota in H. rewrite N.eqb_refl in H.
    destruct bs as [|sub r0]; [unfold rd in H; cbn [rdW bindr] in H; discriminate H|].
    rewrite rd1 in H. cbn [bindr] in H.
    destruct (sub_width sub) as [[w sg]|] eqn:Ew; [|discriminate H].
    unfold rd in H at 1. destruct (rdW 4 r0) as [[cnt r1]|] eqn:Er; cbn [bindr] in H; [|discriminate H].
    destruct (dec_elems (length r1) w sg cnt r1) as [[vs r']|] eqn:Ee; cbn [bindr] in H; [|discriminate H].
    injection H as Hv Hr. subst v r'.
    destruct (elems_buf _ _ _ _ _ _ _ Ee) as (buf & Ht & Hl & Hd). rewrite Ht.
    destruct (sub_width_num _ _ Ew) as [Enw _]. destruct (num_width_pos _ _ _ Enw) as [w' Hw']. subst w.
    rewrite Hd by (rewrite lenN_length in Hl; nia). reflexivity.
  - unfold dec_value in H. destruct (num_width ty) as [[w sg]|]; [exact H|].
    destruct ((ty =? tyZ) || (ty =? tyH)); [exact H|]. rewrite Eb in H. discriminate H.
Qed.

(* ---------- the field loop ---------- *)
Lemma lz_fields_eq : forall f bs acc dt f2, dec_data f bs acc = Ok dt -> (f <= f2)%nat ->
  exists more, dt = acc ++ more /\ lz_fields f2 bs = (more, false).
Proof.
  induction f as [|f IH]; intros bs acc dt f2 H Hf.
  - destruct bs; cbn [dec_data] in H; [|discriminate H]. injection H as H. subst dt.
    exists []. rewrite app_nil_r. split; [reflexivity|]. destruct f2; reflexivity.
  - destruct bs as [|b bs].
    + cbn [dec_data] in H. injection H as H. subst dt. exists []. rewrite app_nil_r.
      split; [reflexivity|]. destruct f2; reflexivity.
    + destruct (dec_data_step f (b :: bs) acc dt ltac:(discriminate) H) as (t0 & t1 & ty & r2 & v & r3 & Hbs & Hv & _ & Hd).
      rewrite Hbs. destruct f2 as [|f2]; [lia|].
      destruct (IH _ _ _ f2 Hd ltac:(lia)) as (more & Hm & Hl).
      exists (((t0, t1), v) :: more). split; [rewrite Hm, <- app_assoc; reflexivity|].
      cbn [lz_fields]. rewrite (lz_value_eq _ _ _ _ Hv). rewrite Hl. reflexivity.
Qed.

(* Data::iter and Data::get of the lazy view: exactly the fields the eager decoder read before
   the CG resolution; they are the eager record's data unless the CG field was consumed *)
Lemma lazy_data_eq : forall body r,
  validate body = Ok tt -> decode_body body = Ok r ->
  exists cig dt,
    lzp_data_sw false body = Some (dt, false) /\
    chunk_ops (lz_cigar_raw body) = Ok cig /\
    resolve (r_seq r) cig dt = Ok (r_cigar r, r_data r) /\
    (forall t, data_get (dt, false) t = option_map Ok (find_tag t dt)) /\
    (find_tag CG dt = None \/ is_placeholder body (lz_cigar_raw body) = false -> dt = r_data r).
Proof.
  intros body r Hv Hd.
  destruct (lazy_slices_ok body Hv) as (_ & _ & _ & _ & _ & Hdr & Hl).
  destruct (decode_body_fields body r Hd) as
    (_ & _ & _ & _ & _ & _ & _ & _ & _ & _ & cig & dt & G1 & G2 & G3 & G4 & G5 & G6).
  exists cig, dt.
  destruct (lz_fields_eq _ _ _ _ (length (lz_data_raw body)) G3 (le_n _)) as (more & Hm & Hlf).
  cbn [app] in Hm. subst more.
  split; [unfold lzp_data_sw; rewrite Hdr; cbn [option_map andb]; rewrite Hlf; reflexivity|].
  split; [exact G2|]. split; [exact G4|]. split.
  - intros t. unfold data_get. cbn [fst snd]. destruct (find_tag t dt); reflexivity.
  - intros [Hn|Hp].
    + rewrite (resolve_noCG _ _ _ Hn) in G4. injection G4 as _ Hdt. exact Hdt.
    + rewrite (resolve_not_placeholder body (r_seq r) cig dt G1 G6 G2 G5 Hp) in G4.
      injection G4 as _ Hdt. exact Hdt.
Qed.

(* ---------- Sequence::get ---------- *)
Lemma nthN_unpack : forall raw i,
  nthN i (unpack_bases raw) =
  match nthN (i / 2) raw with
  | Some b => Some (if i mod 2 =? 0 then hi_base b else lo_base b)
  | None => None
  end.
Proof.
  induction raw as [|b raw IH]; intros i; cbn [unpack_bases nthN]; [reflexivity|].
  destruct (i =? 0) eqn:E0.
  - assert (i = 0) by lia. subst i. reflexivity.
  - destruct (i - 1 =? 0) eqn:E1.
    + assert (i = 1) by lia. subst i. reflexivity.
    + destruct (i / 2 =? 0) eqn:E2; [lia|]. rewrite IH.
      replace ((i - 1 - 1) / 2) with (i / 2 - 1) by lia.
      replace ((i - 1 - 1) mod 2) with (i mod 2) by lia. reflexivity.
Qed.

Lemma nthN_firstnN : forall l n i, nthN i (firstnN n l) = if i <? n then nthN i l else None.
Proof.
  induction l as [|x l IH]; intros n i; cbn [firstnN].
  - destruct (n =? 0); cbn [nthN]; destruct (i <? n); reflexivity.
  - destruct (n =? 0) eqn:En.
    + cbn [nthN]. destruct (i <? n) eqn:E; [lia|reflexivity].
    + cbn [nthN]. destruct (i =? 0) eqn:Ei.
      * destruct (i <? n) eqn:E; [reflexivity|lia].
      * rewrite IH. destruct (i - 1 <? n - 1) eqn:E1; destruct (i <? n) eqn:E2; try reflexivity; lia.
Qed.

Lemma nthN_some : forall l i, i < lenN l -> exists x, nthN i l = Some x.
Proof.
  induction l as [|x l IH]; intros i H; cbn [lenN] in H; [lia|]. cbn [nthN].
  destruct (i =? 0) eqn:E; [eauto|]. apply IH. lia.
Qed.

Lemma lazy_seq_get_eq : forall body r i,
  validate body = Ok tt -> decode_body body = Ok r ->
  lzp_seq_len body = Some (lenN (r_seq r)) /\ lzp_seq_get body i = Some (nthN i (r_seq r)).
Proof.
  intros body r i Hv Hd. pose proof (validate_ok body Hv) as Hb.
  destruct (decode_body_fields body r Hd) as
    (_ & _ & _ & _ & _ & _ & _ & _ & F9 & _ & cig & dt & _ & _ & _ & _ & G5 & _).
  unfold lzp_seq_len, lzp_seq_get, lzp_slice.
  destruct (32 + lz_lname body + 4 * lz_nops body + (lz_lseq body + 1) / 2 <=? lenN body) eqn:E; [|lia].
  cbn [option_map]. split; [rewrite G5; reflexivity|].
  rewrite <- F9. unfold lz_seq, lz_seq_raw. rewrite nthN_firstnN, nthN_unpack.
  destruct (i <? lz_lseq body) eqn:Ei; [|reflexivity].
  destruct (nthN_some (sliceN (32 + lz_lname body + 4 * lz_nops body) ((lz_lseq body + 1) / 2) body) (i / 2))
    as [b Hb']; [rewrite lenN_sliceN by lia; lia|].
  rewrite Hb'. reflexivity.
Qed.

(* no panic of Data::iter / Sequence::len / Sequence::get on any validated body *)
Lemma lazy_detail_no_panic : forall body, validate body = Ok tt ->
  (exists d, lzp_data body = Some d) /\ lzp_seq_len body = Some (lz_lseq body) /\
  forall i, exists x, lzp_seq_get body i = Some x.
Proof.
  intros body Hv. pose proof (validate_ok body Hv) as Hb.
  destruct (lazy_slices_ok body Hv) as (_ & _ & _ & _ & _ & Hdr & _).
  split; [unfold lzp_data, lzp_data_sw; rewrite Hdr; cbn [option_map]; eauto|].
  unfold lzp_seq_len, lzp_seq_get, lzp_slice.
  destruct (32 + lz_lname body + 4 * lz_nops body + (lz_lseq body + 1) / 2 <=? lenN body) eqn:E; [|lia].
  split; [reflexivity|]. intros i.
  destruct (i <? lz_lseq body) eqn:Ei; [|eauto].
  destruct (nthN_some (sliceN (32 + lz_lname body + 4 * lz_nops body) ((lz_lseq body + 1) / 2) body) (i / 2))
    as [b Hb']; [rewrite lenN_sliceN by lia; lia|].
  rewrite Hb'. eauto.
Qed.
