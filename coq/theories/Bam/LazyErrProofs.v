(* C05 proofs, wave 9: the error KINDS of the lazy accessors (Bam/LazyErr.v).
   - the kind-aware model refines the kind-blind one of Bam/Lazy.v (so every earlier theorem about
     lz_value / lz_fields / lzp_data / lazy_convert is a theorem about the kind-aware functions);
   - the eager decoder's only error kind is InvalidData (decode_body), UnexpectedEof comes from
     validate alone;
   - on a validated body, an error of ANY lazy accessor implies that the eager decoder rejects
     the record (with InvalidData), and the lazy kinds are InvalidData / UnexpectedEof by site;
   - the converse fails only for the four eager-only checks (witnesses in props/C05.v). *)
From Coq Require Import List NArith ZArith Bool Lia ZifyBool ZifyNat ZifyN.
From NV Require Import Bam.Record Bam.Encode Bam.Decode Bam.Lazy Bam.LazyErr Bam.CodecProofs Bam.AuxProofs
  Bam.LazyProofs Bam.LazyCigarProofs Bam.LazyDataProofs Bam.LazySwitchProofs.
Import ListNotations.
Open Scope N_scope.
Arguments N.add : simpl never.
Arguments N.sub : simpl never.
Arguments N.mul : simpl never.
Arguments N.div : simpl never.
Arguments N.modulo : simpl never.
Arguments N.pow : simpl never.

(* ---------- the eager pieces only ever fail with InvalidData ---------- *)
Lemma rd_err : forall w bs e, rd w bs = Err e -> e = InvalidData.
Proof. intros w bs e H. unfold rd in H. destruct (rdW w bs); [discriminate H|]. injection H as H. auto. Qed.

Lemma take_err : forall n bs e, take n bs = Err e -> e = InvalidData.
Proof. intros n bs e H. unfold take in H. destruct (takeN n bs); [discriminate H|]. injection H as H. auto. Qed.

Lemma rd_i32_err : forall bs e, rd_i32 bs = Err e -> e = InvalidData.
Proof.
  intros bs e H. unfold rd_i32 in H. destruct (rd 4 bs) as [[n r]|e0] eqn:E; cbn [bindr] in H; [discriminate H|].
  injection H as H. subst e0. apply (rd_err _ _ _ E).
Qed.

Lemma dec_rid_err : forall z e, dec_rid z = Err e -> e = InvalidData.
Proof. intros z e H. unfold dec_rid in H. destruct (z =? -1)%Z; [discriminate H|]. destruct (z <? 0)%Z; [|discriminate H]. injection H as H. auto. Qed.

Lemma dec_pos_err : forall z e, dec_pos z = Err e -> e = InvalidData.
Proof. intros z e H. unfold dec_pos in H. destruct (z =? -1)%Z; [discriminate H|]. destruct (z <? 0)%Z; [|discriminate H]. injection H as H. auto. Qed.

Lemma dec_name_err : forall b e, dec_name b = Err e -> e = InvalidData.
Proof.
  intros b e H. unfold dec_name in H. destruct (list_eqb b [42; 0]); [discriminate H|].
  destruct (split_last b) as [[s t]|]; [destruct (t =? 0); [discriminate H|]|]; injection H as H; auto.
Qed.

Lemma dec_op_err : forall n e, dec_op n = Err e -> e = InvalidData.
Proof. intros n e H. unfold dec_op in H. cbv zeta in H. destruct (n mod 16 <=? 8); [discriminate H|]. injection H as H. auto. Qed.

Lemma dec_ops_err : forall f cnt bs e, dec_ops f cnt bs = Err e -> e = InvalidData.
Proof.
  induction f as [|f IH]; intros cnt bs e H; cbn [dec_ops] in H; destruct (cnt =? 0); try discriminate H.
  - injection H as H. auto.
  - destruct (rd 4 bs) as [[n r]|e0] eqn:E; cbn [bindr] in H; [|injection H as H; subst e0; apply (rd_err _ _ _ E)].
    destruct (dec_op n) as [op|e0] eqn:Eo; cbn [bindr] in H; [|injection H as H; subst e0; apply (dec_op_err _ _ Eo)].
    destruct (dec_ops f (cnt - 1) r) as [ops|e0] eqn:Er; cbn [bindr] in H; [discriminate H|].
    injection H as H. subst e0. apply (IH _ _ _ Er).
Qed.

Lemma dec_num_err : forall w sg bs e, dec_num w sg bs = Err e -> e = InvalidData.
Proof.
  intros w sg bs e H. unfold dec_num in H. destruct (rd w bs) as [[n r]|e0] eqn:E; cbn [bindr] in H; [discriminate H|].
  injection H as H. subst e0. apply (rd_err _ _ _ E).
Qed.

Lemma dec_elems_err : forall f w sg cnt bs e, dec_elems f w sg cnt bs = Err e -> e = InvalidData.
Proof.
  induction f as [|f IH]; intros w sg cnt bs e H; cbn [dec_elems] in H; destruct (cnt =? 0); try discriminate H.
  - injection H as H. auto.
  - destruct (dec_num w sg bs) as [[v r]|e0] eqn:E; cbn [bindr] in H; [|injection H as H; subst e0; apply (dec_num_err _ _ _ _ E)].
    destruct (dec_elems f w sg (cnt - 1) r) as [[vs r']|e0] eqn:Er; cbn [bindr] in H; [discriminate H|].
    injection H as H. subst e0. apply (IH _ _ _ _ _ Er).
Qed.

Lemma dec_value_err : forall ty bs e, dec_value ty bs = Err e -> e = InvalidData.
Proof.
  intros ty bs e H. unfold dec_value in H. destruct (num_width ty) as [[w sg]|].
  - destruct (dec_num w sg bs) as [[v r]|e0] eqn:E; cbn [bindr] in H; [discriminate H|].
    injection H as H. subst e0. apply (dec_num_err _ _ _ _ E).
  - destruct ((ty =? tyZ) || (ty =? tyH)).
    + destruct (split_nul bs) as [[s r]|]; [discriminate H|]. injection H as H. auto.
    + destruct (ty =? tyB); [|injection H as H; auto].
      destruct (rd 1 bs) as [[sub r]|e0] eqn:E; cbn [bindr] in H; [|injection H as H; subst e0; apply (rd_err _ _ _ E)].
      destruct (sub_width sub) as [[w sg]|]; [|injection H as H; auto].
      destruct (rd 4 r) as [[cnt r1]|e0] eqn:E4; cbn [bindr] in H; [|injection H as H; subst e0; apply (rd_err _ _ _ E4)].
      destruct (dec_elems (length r1) w sg cnt r1) as [[vs r2]|e0] eqn:Ee; cbn [bindr] in H; [discriminate H|].
      injection H as H. subst e0. apply (dec_elems_err _ _ _ _ _ _ Ee).
Qed.

Lemma dec_data_err : forall f bs acc e, dec_data f bs acc = Err e -> e = InvalidData.
Proof.
  induction f as [|f IH]; intros bs acc e H; destruct bs as [|b bs]; cbn [dec_data] in H; try discriminate H.
  - injection H as H. auto.
  - destruct (rd 1 (b :: bs)) as [[t0 r0]|e0] eqn:E0; cbn [bindr] in H; [|injection H as H; subst e0; apply (rd_err _ _ _ E0)].
    destruct (rd 1 r0) as [[t1 r1]|e0] eqn:E1; cbn [bindr] in H; [|injection H as H; subst e0; apply (rd_err _ _ _ E1)].
    destruct (rd 1 r1) as [[ty r2]|e0] eqn:E2; cbn [bindr] in H; [|injection H as H; subst e0; apply (rd_err _ _ _ E2)].
    destruct (dec_value ty r2) as [[v r3]|e0] eqn:Ev; cbn [bindr] in H; [|injection H as H; subst e0; apply (dec_value_err _ _ _ Ev)].
    destruct (existsb (fun p => tag_eqb (fst p) (t0, t1)) acc); [injection H as H; auto|].
    apply (IH _ _ _ H).
Qed.

Lemma dec_u32_ops_err : forall vs e, dec_u32_ops vs = Err e -> e = InvalidData.
Proof.
  induction vs as [|v vs IH]; intros e H; cbn [dec_u32_ops] in H; [discriminate H|].
  destruct (dec_op (Z.to_N v)) as [op|e0] eqn:Eo; cbn [bindr] in H; [|injection H as H; subst e0; apply (dec_op_err _ _ Eo)].
  destruct (dec_u32_ops vs) as [ops|e0]; cbn [bindr] in H; [discriminate H|].
  injection H as H. subst e0. apply (IH e eq_refl).
Qed.

Lemma resolve_err : forall sq cig d e, resolve sq cig d = Err e -> e = InvalidData.
Proof.
  intros sq cig d e H. unfold resolve in H.
  destruct cig as [|[k0 l0] [|[k1 l1] [|x c]]]; try discriminate H.
  destruct ((k0 =? 4) && (l0 =? lenN sq) && (k1 =? 3)); [|discriminate H].
  destruct (find_tag CG d) as [v|]; [|discriminate H].
  destruct v as [ty z|ty s|sub vs]; try (injection H as H; auto; fail).
  destruct (sub =? tyI); [|injection H as H; auto].
  destruct (dec_u32_ops vs) as [ops|e0] eqn:Eo; cbn [bindr] in H; [discriminate H|].
  injection H as H. subst e0. apply (dec_u32_ops_err _ _ Eo).
Qed.

(* one step of the eager decoder: either it succeeded or its error is InvalidData *)
Ltac step H L :=
  match type of H with
  | bindr ?e _ = Err _ =>
      let E := fresh "E" in let x := fresh "x" in let e0 := fresh "e0" in
      destruct e as [x|e0] eqn:E; cbn [bindr] in H;
      [try (destruct x as [? ?]) | injection H as H; subst e0; apply (L _ _ E)]
  end.

Lemma decode_body_err : forall bs e, decode_body bs = Err e -> e = InvalidData.
Proof.
  intros bs e H. unfold decode_body in H.
  step H rd_i32_err. step H dec_rid_err. step H rd_i32_err. step H dec_pos_err.
  match type of H with bindr ?e _ = Err _ => destruct e as [[lname b3]|e0] eqn:Q3; cbn [bindr] in H;
    [|injection H as H; subst e0; apply (rd_err _ _ _ Q3)] end.
  destruct (lname =? 0); [injection H as H; auto|].
  match type of H with bindr ?e _ = Err _ => destruct e as [[mq b4]|e0] eqn:Q4; cbn [bindr] in H;
    [|injection H as H; subst e0; apply (rd_err _ _ _ Q4)] end.
  match type of H with bindr ?e _ = Err _ => destruct e as [[bn b5]|e0] eqn:Q5; cbn [bindr] in H;
    [|injection H as H; subst e0; apply (rd_err _ _ _ Q5)] end.
  match type of H with bindr ?e _ = Err _ => destruct e as [[nops b6]|e0] eqn:Q6; cbn [bindr] in H;
    [|injection H as H; subst e0; apply (rd_err _ _ _ Q6)] end.
  match type of H with bindr ?e _ = Err _ => destruct e as [[fl b7]|e0] eqn:Q7; cbn [bindr] in H;
    [|injection H as H; subst e0; apply (rd_err _ _ _ Q7)] end.
  match type of H with bindr ?e _ = Err _ => destruct e as [[lseq b8]|e0] eqn:Q8; cbn [bindr] in H;
    [|injection H as H; subst e0; apply (rd_err _ _ _ Q8)] end.
  step H rd_i32_err. step H dec_rid_err. step H rd_i32_err. step H dec_pos_err. step H rd_i32_err.
  match type of H with bindr ?e _ = Err _ => destruct e as [[nbuf b12]|e0] eqn:Q12; cbn [bindr] in H;
    [|injection H as H; subst e0; apply (take_err _ _ _ Q12)] end.
  step H dec_name_err.
  match type of H with bindr ?e _ = Err _ => destruct e as [[cbuf b13]|e0] eqn:Q13; cbn [bindr] in H;
    [|injection H as H; subst e0; apply (take_err _ _ _ Q13)] end.
  match type of H with bindr ?e _ = Err _ => destruct e as [cig|e0] eqn:Q14; cbn [bindr] in H;
    [|injection H as H; subst e0; apply (dec_ops_err _ _ _ _ Q14)] end.
  match type of H with bindr ?e _ = Err _ => destruct e as [[sbuf b14]|e0] eqn:Q15; cbn [bindr] in H;
    [|injection H as H; subst e0; apply (take_err _ _ _ Q15)] end.
  match type of H with bindr ?e _ = Err _ => destruct e as [[qbuf b15]|e0] eqn:Q16; cbn [bindr] in H;
    [|injection H as H; subst e0; destruct (lseq =? 0); [discriminate Q16|apply (take_err _ _ _ Q16)]] end.
  match type of H with bindr ?e _ = Err _ => destruct e as [dt|e0] eqn:Q17; cbn [bindr] in H;
    [|injection H as H; subst e0; apply (dec_data_err _ _ _ _ Q17)] end.
  match type of H with bindr ?e _ = Err _ => destruct e as [[cig' dt']|e0] eqn:Q18; cbn [bindr] in H;
    [discriminate H|injection H as H; subst e0; apply (resolve_err _ _ _ _ Q18)] end.
Qed.

(* read_record_buf on one body: UnexpectedEof exactly from validate, InvalidData from the decoder *)
Lemma decode_record_err : forall bs e, decode_record bs = Err e ->
  (e = UnexpectedEof /\ validate bs = Err UnexpectedEof) \/
  (e = InvalidData /\ validate bs = Ok tt /\ decode_body bs = Err InvalidData).
Proof.
  intros bs e H. unfold decode_record in H. destruct (validate bs) as [[]|e0] eqn:Ev; cbn [bindr] in H.
  - right. pose proof (decode_body_err _ _ H) as He. subst e. auto.
  - left. injection H as H. subst e0. assert (He : e = UnexpectedEof).
    { unfold validate in Ev. destruct (lenN bs <? 32); [injection Ev as Ev; auto|].
      destruct (rdW 1 (skipn 8 bs)) as [[a ?]|]; destruct (rdW 2 (skipn 12 bs)) as [[nb ?]|];
        destruct (rdW 4 (skipn 16 bs)) as [[c ?]|]; try (injection Ev as Ev; auto; fail).
      destruct (lenN bs <? 32 + a + 4 * nb + (c + 1) / 2 + c); [injection Ev as Ev; auto|discriminate Ev]. }
    subst e. auto.
Qed.

(* ---------- the kind-aware lazy model refines the kind-blind one ---------- *)
Lemma lz_value_collapse : forall ty bs, lz_value ty bs = collapse (lz_value_k ty bs).
Proof.
  intros ty bs. unfold lz_value, lz_value_k. destruct (ty =? tyB).
  - destruct bs as [|sub r]; [reflexivity|]. destruct (sub_width sub) as [[w sg]|]; [|reflexivity].
    destruct (rdW 4 r) as [[cnt r1]|]; [|reflexivity].
    destruct (takeN (cnt * N.of_nat w) r1) as [[buf r2]|]; [|reflexivity].
    destruct (dec_elems (length buf) w sg cnt buf) as [[vs r']|e] eqn:E; cbn [bindr collapse]; [reflexivity|].
    rewrite (dec_elems_err _ _ _ _ _ _ E). reflexivity.
  - destruct (num_width ty) as [[w sg]|].
    + unfold dec_num, rd. destruct (rdW w bs) as [[n r]|]; reflexivity.
    + destruct ((ty =? tyZ) || (ty =? tyH)); [|reflexivity]. destruct (split_nul bs) as [[s r]|]; reflexivity.
Qed.

Lemma lz_fields_collapse : forall f bs,
  lz_fields f bs = (fst (lz_fields_k f bs), is_some (snd (lz_fields_k f bs))).
Proof.
  induction f as [|f IH]; intros bs.
  - destruct bs; reflexivity.
  - destruct bs as [|t0 [|t1 [|ty r]]]; try reflexivity.
    cbn [lz_fields lz_fields_k]. rewrite lz_value_collapse.
    destruct (lz_value_k ty r) as [[v r']|k]; cbn [collapse]; [|reflexivity].
    rewrite (IH r'). destruct (lz_fields_k f r') as [fs e]. reflexivity.
Qed.

Lemma lzp_data_collapse : forall bs,
  lzp_data bs = option_map (fun p => (fst p, is_some (snd p))) (lzp_data_k bs).
Proof.
  intros bs. unfold lzp_data, lzp_data_sw, lzp_data_k. destruct (lzp_data_raw bs) as [raw|]; [|reflexivity].
  cbn [option_map]. rewrite lz_fields_collapse. destruct (lz_fields_k (length raw) raw) as [fs e].
  cbn [fst snd]. destruct (cg_repaired && cg_branch bs); reflexivity.
Qed.

Lemma data_get_collapse : forall fs e t,
  data_get (fs, is_some e) t = option_map collapse (data_get_k (fs, e) t).
Proof.
  intros fs e t. unfold data_get, data_get_k. cbn [fst snd]. destruct (find_tag t fs); [reflexivity|].
  destruct e; reflexivity.
Qed.

Lemma chunk_ops_err : forall n bs e, (length bs <= n)%nat -> chunk_ops bs = Err e -> e = InvalidData.
Proof.
  induction n as [|n IH]; intros bs e Hl H.
  - destruct bs; [discriminate H|cbn [length] in Hl; lia].
  - destruct bs as [|b0 [|b1 [|b2 [|b3 r]]]]; try discriminate H. cbn [chunk_ops] in H.
    destruct (dec_op (b0 + 256 * (b1 + 256 * (b2 + 256 * b3)))) as [op|e0] eqn:Eo; cbn [bindr] in H;
      [|injection H as H; subst e0; apply (dec_op_err _ _ Eo)].
    destruct (chunk_ops r) as [ops|e0] eqn:Er; cbn [bindr] in H; [discriminate H|].
    injection H as H. subst e0. apply (IH r); [cbn [length] in Hl; lia|exact Er].
Qed.

Lemma lzp_cigar_err : forall bs e, lzp_cigar bs = Some (Err e) -> e = InvalidData.
Proof.
  intros bs e H. unfold lzp_cigar in H. destruct (lzp_cigar_raw bs) as [src|]; [|discriminate H].
  assert (Hit : forall b, cigar_iter b = Some (Err e) -> e = InvalidData).
  { intros b Hb. unfold cigar_iter in Hb. destruct (lenN b mod 4 =? 0); [|discriminate Hb].
    injection Hb as Hb. apply (chunk_ops_err (length b) b e (le_n _) Hb). }
  destruct (is_placeholder bs src); [|apply (Hit _ H)].
  destruct (lzp_data_raw bs) as [data|]; [|discriminate H].
  destruct (raw_cigar (length data) data); apply (Hit _ H).
Qed.

Lemma lz_rid_err : forall bs e, lz_rid bs = Err e -> e = InvalidData.
Proof. intros bs e H. apply (dec_rid_err _ _ H). Qed.
Lemma lz_pos_err : forall bs e, lz_pos bs = Err e -> e = InvalidData.
Proof. intros bs e H. apply (dec_pos_err _ _ H). Qed.
Lemma lz_mrid_err : forall bs e, lz_mrid bs = Err e -> e = InvalidData.
Proof. intros bs e H. apply (dec_rid_err _ _ H). Qed.
Lemma lz_mpos_err : forall bs e, lz_mpos bs = Err e -> e = InvalidData.
Proof. intros bs e H. apply (dec_pos_err _ _ H). Qed.

Lemma lazy_convert_collapse : forall bs, lazy_convert bs = option_map collapse (lazy_convert_k bs).
Proof.
  intros bs. unfold lazy_convert, lazy_convert_sw, lazy_convert_k.
  destruct (lzp_name bs) as [name|]; [|reflexivity].
  destruct (lz_rid bs) as [rid|e] eqn:E1; [|rewrite (lz_rid_err _ _ E1); reflexivity].
  destruct (lz_pos bs) as [pos|e] eqn:E2; [|rewrite (lz_pos_err _ _ E2); reflexivity].
  destruct (lzp_cigar bs) as [[cig|e]|] eqn:E3; [|rewrite (lzp_cigar_err _ _ E3); reflexivity|reflexivity].
  destruct (lz_mrid bs) as [mrid|e] eqn:E4; [|rewrite (lz_mrid_err _ _ E4); reflexivity].
  destruct (lz_mpos bs) as [mpos|e] eqn:E5; [|rewrite (lz_mpos_err _ _ E5); reflexivity].
  destruct (lzp_seq bs) as [sq|]; [|reflexivity]. destruct (lzp_qual bs) as [ql|]; [|reflexivity].
  change (lzp_data_sw cg_repaired bs) with (lzp_data bs). rewrite lzp_data_collapse.
  destruct (lzp_data_k bs) as [[fs [k|]]|]; reflexivity.
Qed.

(* ---------- the kinds a lazy data error can have ---------- *)
Lemma lz_value_k_kind : forall ty bs e, lz_value_k ty bs = Err e -> e = InvalidData \/ e = UnexpectedEof.
Proof.
  intros ty bs e H. destruct e; auto. exfalso. unfold lz_value_k in H. destruct (ty =? tyB).
  - destruct bs as [|sub r]; [discriminate H|]. destruct (sub_width sub) as [[w sg]|]; [|discriminate H].
    destruct (rdW 4 r) as [[cnt r1]|]; [|discriminate H].
    destruct (takeN (cnt * N.of_nat w) r1) as [[buf r2]|]; [|discriminate H].
    destruct (dec_elems (length buf) w sg cnt buf) as [[vs r']|e0] eqn:E; cbn [bindr] in H; [discriminate H|].
    rewrite (dec_elems_err _ _ _ _ _ _ E) in H. discriminate H.
  - destruct (num_width ty) as [[w sg]|].
    + destruct (rdW w bs) as [[n r]|]; discriminate H.
    + destruct ((ty =? tyZ) || (ty =? tyH)); [|discriminate H]. destruct (split_nul bs) as [[s r]|]; discriminate H.
Qed.

Lemma lz_fields_k_kind : forall f bs fs e, lz_fields_k f bs = (fs, Some e) -> e = InvalidData \/ e = UnexpectedEof.
Proof.
  induction f as [|f IH]; intros bs fs e H.
  - destruct bs; cbn [lz_fields_k] in H; [discriminate H|]. injection H as _ H. subst e. auto.
  - destruct bs as [|t0 [|t1 [|ty r]]]; cbn [lz_fields_k] in H; try discriminate H;
      try (injection H as _ H; subst e; auto; fail).
    destruct (lz_value_k ty r) as [[v r']|k] eqn:Ev.
    + destruct (lz_fields_k f r') as [fs' e'] eqn:Ef. injection H as _ H. subst e'. apply (IH _ _ _ Ef).
    + injection H as _ H. subst k. apply (lz_value_k_kind _ _ _ Ev).
Qed.

(* ---------- lazy error => eager error ---------- *)
Lemma lazy_error_implies_eager_error : forall bs k,
  validate bs = Ok tt -> lazy_first_error bs = Some k ->
  decode_body bs = Err InvalidData /\ (k = InvalidData \/ k = UnexpectedEof).
Proof.
  intros bs k Hv Hk. split.
  - destruct (decode_body bs) as [r|e] eqn:Hd; [|rewrite (decode_body_err _ _ Hd); reflexivity].
    exfalso.
    destruct (lazy_eq_eager_fields bs r Hv Hd) as (cig & Hview & _).
    pose proof (lazy_cigar_eq bs r Hv Hd) as Hcig.
    destruct (lazy_convert_eq cg_repaired bs r Hv Hd) as (d & Hdat & _).
    unfold lazy_view_of in Hview. destruct (has_head bs); [|discriminate Hview].
    injection Hview as _ _ Hrid Hpos _ Hmrid Hmpos _ _ _ _.
    change (lzp_data_sw cg_repaired bs) with (lzp_data bs) in Hdat. rewrite lzp_data_collapse in Hdat.
    unfold lazy_first_error in Hk. rewrite Hrid, Hpos, Hcig, Hmrid, Hmpos in Hk.
    destruct (lzp_data_k bs) as [[fs [k'|]]|]; cbn [option_map fst snd is_some] in Hdat; try discriminate Hk.
    discriminate Hdat.
  - unfold lazy_first_error in Hk.
    destruct (lz_rid bs) as [?|e] eqn:E1; [|injection Hk as Hk; subst e; left; apply (lz_rid_err _ _ E1)].
    destruct (lz_pos bs) as [?|e] eqn:E2; [|injection Hk as Hk; subst e; left; apply (lz_pos_err _ _ E2)].
    assert (Hrest :
      match lz_mrid bs with Err e => Some e | Ok _ =>
      match lz_mpos bs with Err e => Some e | Ok _ =>
      match lzp_data_k bs with Some (_, Some k) => Some k | _ => None end end end = Some k ->
      k = InvalidData \/ k = UnexpectedEof).
    { intros H.
      destruct (lz_mrid bs) as [?|e] eqn:E4; [|injection H as H; subst e; left; apply (lz_mrid_err _ _ E4)].
      destruct (lz_mpos bs) as [?|e] eqn:E5; [|injection H as H; subst e; left; apply (lz_mpos_err _ _ E5)].
      unfold lzp_data_k in H. destruct (lzp_data_raw bs) as [raw|]; [|discriminate H]. cbn [option_map] in H.
      destruct (lz_fields_k (length raw) raw) as [fs e] eqn:Ef.
      assert (He : e = Some k) by (destruct (cg_repaired && cg_branch bs); destruct e; try discriminate H; injection H as H; subst; reflexivity).
      subst e. apply (lz_fields_k_kind _ _ _ _ Ef). }
    destruct (lzp_cigar bs) as [[?|e]|] eqn:E3; [apply (Hrest Hk)| |apply (Hrest Hk)].
    injection Hk as Hk. subst e. left. apply (lzp_cigar_err _ _ E3).
Qed.
