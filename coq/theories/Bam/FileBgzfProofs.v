(* C05 file level through BGZF: bam::io::Writer::new wraps a bgzf::io::Writer and hands it the
   uncompressed stream of NV.Bam.File in a sequence of write_all calls (magic, l_text, text, ...,
   block_size, record, ...); bam::io::Reader::new reads through a bgzf::io::Reader.  Composition of
   NV.Bam.FileProofs.file_roundtrip with C01's writer/reader theorems (NV.Bgzf.*, read-only):
   however the stream is cut into write_all calls and however the writer is disposed of, the BGZF
   reader returns exactly the stream, hence the header, the records and a clean EOF. *)
From Coq Require Import List NArith ZArith Bool Lia.
From NV Require Import Bam.Record Bam.Encode Bam.Decode Bam.CodecProofs Bam.AuxProofs Bam.File Bam.FileProofs Bam.FileBgzf.
From NV Require Sam.Header Sam.HeaderProofs.
From NV Require Bgzf.Frame Bgzf.Writer Bgzf.Reader Bgzf.WriterProofs Bgzf.Inflate Bgzf.Level0Proofs.
Import ListNotations.

Module W := Bgzf.Writer.
Module F := Bgzf.Frame.

(* a write_all call never answers with a byte count *)
Lemma run_ops_write_all : forall deflate lvl chunks st st' obs p,
  W.run_ops deflate lvl st (map W.OWriteAll chunks) = (st', obs, p) ->
  Forall (fun r => forall a, fst r <> F.Ok (Some a)) obs.
Proof.
  intros deflate lvl chunks. induction chunks as [|c cs IH]; intros st st' obs p H; cbn [map W.run_ops] in H.
  - injection H as _ H _. subst obs. constructor.
  - destruct (W.step deflate lvl st (W.OWriteAll c)) as [st1 r] eqn:Es.
    assert (Hr : forall a, r <> F.Ok (Some a)).
    { unfold W.step in Es.
      destruct (W.write_all deflate (S (length c)) lvl st c) as [st2 [u|e|]];
        injection Es as _ Es; subst r; intros a; discriminate. }
    destruct r as [o|e|].
    + destruct (W.run_ops deflate lvl st1 (map W.OWriteAll cs)) as [[st2 obs2] p2] eqn:E2.
      injection H as _ H _. subst obs. constructor; [exact Hr|exact (IH _ _ _ _ E2)].
    + destruct (W.run_ops deflate lvl st1 (map W.OWriteAll cs)) as [[st2 obs2] p2] eqn:E2.
      injection H as _ H _. subst obs. constructor; [exact Hr|exact (IH _ _ _ _ E2)].
    + injection H as _ H _. subst obs. constructor; [exact Hr|constructor].
Qed.

Lemma accepted_write_all : forall chunks rs,
  Forall (fun r => Bgzf.WriterProofs.is_ok (fst r)) rs -> length rs = length chunks ->
  Forall (fun r : F.res (option N) * F.res N => forall a, fst r <> F.Ok (Some a)) rs ->
  W.accepted (map W.OWriteAll chunks) rs = concat chunks.
Proof.
  induction chunks as [|c cs IH]; intros rs Hok Hlen Hns; destruct rs as [|[r v] rs]; try discriminate Hlen.
  - reflexivity.
  - cbn [map W.accepted concat]. inversion Hok as [|? ? H1 H2]; subst. inversion Hns as [|? ? H3 H4]; subst.
    rewrite (IH rs H2 ltac:(cbn [length] in Hlen; lia) H4). f_equal.
    cbn [fst] in *. destruct r as [[a|]|e|]; cbn [Bgzf.WriterProofs.is_ok] in H1; try contradiction.
    + exfalso. exact (H3 a eq_refl).
    + reflexivity.
Qed.

(* the uncompressed stream [bs], written to a level-0 (stored blocks) BGZF writer in any sequence of
   write_all calls and any ending (finish / try_finish / drop), is read back whole *)
Theorem bgzf_stream_level0 : forall lvl chunks e,
  let o := W.run_script Bgzf.Inflate.deflate_l0 lvl (map W.OWriteAll chunks) e in
  Bgzf.Reader.reader_read_to_end Bgzf.Inflate.inflate (W.o_sink o) = (concat chunks, F.Ok tt).
Proof.
  intros lvl chunks e o.
  pose proof (Bgzf.Level0Proofs.roundtrip_level0 lvl (map W.OWriteAll chunks) e) as HR.
  cbv zeta in HR. fold o in HR. rewrite HR. f_equal.
  destruct (Bgzf.Level0Proofs.wellformed_segments_level0 lvl (map W.OWriteAll chunks) e)
    as (segs & _ & _ & _ & _ & _ & _ & Hok & Hlen & _).
  fold o in Hok, Hlen. rewrite map_length in Hlen.
  apply accepted_write_all; [exact Hok|exact Hlen|].
  unfold o, W.run_script.
  destruct (W.run_ops Bgzf.Inflate.deflate_l0 lvl W.w_init (map W.OWriteAll chunks)) as [[st obs] p] eqn:E.
  pose proof (run_ops_write_all _ _ _ _ _ _ _ E) as HF.
  destruct p; [exact HF|].
  destruct (W.run_ending Bgzf.Inflate.deflate_l0 lvl e st) as [[st1 r] q]. exact HF.
Qed.

(* the two entry points of the correspondence check are inverse *)
Theorem bgzf_l0_roundtrip : forall bs, bgzf_read_l0 (bgzf_file_l0 bs) = Some bs.
Proof.
  intros bs. unfold bgzf_read_l0, bgzf_file_l0.
  pose proof (bgzf_stream_level0 0%N [bs] W.EFinish) as H. cbv zeta in H. cbn [map concat] in H.
  rewrite app_nil_r in H. rewrite H. reflexivity.
Qed.

(* the BAM file: for every header and record list the writer accepts, the BGZF file it produces
   (level-0 codec) is read back as the header, the normalised records in order, and a clean EOF *)
Theorem file_roundtrip_bgzf_level0 : forall h rs bs lvl chunks e,
  Sam.HeaderProofs.wf_header h -> Forall rec_ok rs ->
  write_file h rs = Ok bs -> concat chunks = bs ->
  let o := W.run_script Bgzf.Inflate.deflate_l0 lvl (map W.OWriteAll chunks) e in
  exists un, Bgzf.Reader.reader_read_to_end Bgzf.Inflate.inflate (W.o_sink o) = (un, F.Ok tt) /\
             read_file un = Ok (h, (map norm rs, EndEof)).
Proof.
  intros h rs bs lvl chunks e Hh Hrs Hw Hc o. exists bs. split.
  - unfold o. rewrite bgzf_stream_level0. rewrite Hc. reflexivity.
  - exact (file_roundtrip h rs bs Hh Hrs Hw).
Qed.

(* the same for ANY DEFLATE codec satisfying C01's two premises (compressed size bound of a staging
   buffer, inflate after deflate is the identity) and an inflater that reads the EOF block as empty *)
Section AnyCodec.
  Variable deflate : N -> list N -> list N.
  Variable inflate : list N -> N -> option (list N).
  Variable lvl : N.
  Hypothesis H_bound : forall x, F.lenN x <= W.MAX_BUF_SIZE -> F.lenN (deflate 0 x) <= W.MAX_COMPRESSED_SIZE.
  Hypothesis H_rt : forall (l : N) x, F.lenN x <= F.BGZF_MAX_ISIZE -> inflate (deflate l x) (F.lenN x) = Some x.
  Hypothesis H_eof : inflate [3; 0]%N 0%N = Some [].

  Theorem file_roundtrip_bgzf : forall h rs bs chunks e,
    Sam.HeaderProofs.wf_header h -> Forall rec_ok rs ->
    write_file h rs = Ok bs -> concat chunks = bs ->
    let o := W.run_script deflate lvl (map W.OWriteAll chunks) e in
    exists un, Bgzf.Reader.reader_read_to_end inflate (W.o_sink o) = (un, F.Ok tt) /\
               read_file un = Ok (h, (map norm rs, EndEof)).
  Proof.
    intros h rs bs chunks e Hh Hrs Hw Hc o. exists bs. split.
    - pose proof (Bgzf.WriterProofs.writer_reader_roundtrip deflate lvl H_bound inflate H_rt H_eof
                    (map W.OWriteAll chunks) e) as HR.
      cbv zeta in HR. fold o in HR. rewrite HR. f_equal. rewrite <- Hc.
      destruct (Bgzf.WriterProofs.writer_wellformed_full deflate lvl H_bound inflate H_rt (map W.OWriteAll chunks) e)
        as (segs & _ & _ & _ & _ & _ & _ & Hok & Hlen & _).
      fold o in Hok, Hlen. rewrite map_length in Hlen.
      apply accepted_write_all; [exact Hok|exact Hlen|].
      unfold o, W.run_script.
      destruct (W.run_ops deflate lvl W.w_init (map W.OWriteAll chunks)) as [[st obs] p] eqn:E.
      pose proof (run_ops_write_all _ _ _ _ _ _ _ E) as HF.
      destruct p; [exact HF|].
      destruct (W.run_ending deflate lvl e st) as [[st1 r] q]. exact HF.
    - exact (file_roundtrip h rs bs Hh Hrs Hw).
  Qed.
End AnyCodec.
